import GaeaVerif.Model.ShardPlace
import GaeaVerif.Spec.ShardCalendar
import GaeaVerif.Lemmas.ShardStr
import GaeaVerif.Lemmas.ShardSegment
import GaeaVerif.Lemmas.ShardDate
/-
  C09 — Range and calendar rules place each key in its configured interval.

  Model: Model/ShardPlace.lean (shard.go, numkey.go, rule.go, after the fixes
  "year rule rejects date strings shorter than four characters", "date rules
  reject a sign in the digit positions", "NumKeyRange.Contains is half-open"
  (e83712b) and "month and day rules reject a timestamp whose year is outside
  0000-9999" (ab7347b)).  Reference: Spec/ShardCalendar.lean.
  No `_partial` theorem and no open finding remain; the `pinned_…_witness`
  theorems record what the code did before the last two repairs.
  The tie to the Go code is the correspondence check `gvh run C09`.
-/
namespace GaeaVerif.C09
open GaeaVerif GaeaVerif.ShardGo GaeaVerif.ShardPlace GaeaVerif.ShardLemmas

/-! ## range rule -/

theorem wrap64_id (x : Int) (h : -2 ^ 63 ≤ x ∧ x < 2 ^ 63) : wrap64 x = x := by
  unfold wrap64; omega

/-- The interval of table `i`. -/
def interval (limit : Int) (i : Nat) : Int × Int := ((i : Int) * limit, ((i : Int) + 1) * limit)

theorem mul_mono (a b : Nat) (h : a ≤ b) (limit : Int) (hl : 0 < limit) : (a : Int) * limit ≤ (b : Int) * limit :=
  Int.mul_le_mul_of_nonneg_right (by omega) (Int.le_of_lt hl)

/-- `ParseNumSharding` builds the intervals `[i·limit, (i+1)·limit)`, `i < n`
    (no wrap-around while `n·limit < 2^63`). -/
theorem parseNumSharding_eq (locations : List Nat) (limit : Int) (hl : 0 < limit)
    (hb : (total locations : Int) * limit < 2 ^ 63) :
    ParseNumSharding (ints locations) limit =
      .ok ((List.range (total locations)).map (interval limit)) := by
  unfold ParseNumSharding
  rw [sumInts_map]
  simp only
  rw [if_neg (by omega)]
  congr 1
  simp only [Int.toNat_natCast]
  apply List.map_congr_left
  intro i hi
  have hi' : i < total locations := List.mem_range.mp hi
  have h1 := mul_mono i (total locations) (by omega) limit hl
  have h2 := mul_mono (i + 1) (total locations) (by omega) limit hl
  have h0 := mul_mono 0 i (by omega) limit hl
  have e : ((i + 1 : Nat) : Int) = (i : Int) + 1 := by omega
  rw [e] at h2
  simp only [Int.natCast_zero, Int.zero_mul] at h0
  have h3 : (i : Int) * limit ≤ ((i : Int) + 1) * limit := by rw [Int.add_mul]; omega
  unfold interval
  rw [wrap64_id _ ⟨by omega, by omega⟩, wrap64_id _ ⟨by omega, by omega⟩]

theorem ediv_of_interval (k limit : Int) (j : Nat) (hl : 0 < limit) (h1 : (j : Int) * limit ≤ k)
    (h2 : k < ((j : Int) + 1) * limit) : k / limit = (j : Int) := by
  have a : (j : Int) ≤ k / limit := (Int.le_ediv_iff_mul_le hl).mpr h1
  have b : k / limit < (j : Int) + 1 := (Int.ediv_lt_iff_lt_mul hl).mpr h2
  omega

/-- The loop of `FindForKey` over the intervals `j … j+m-1`. -/
theorem findRange_spec (limit : Int) (hl : 0 < limit) (m j : Nat) (k : Int) :
    findRange ((List.range' j m).map (interval limit)) (j : Int) k =
      if (j : Int) * limit ≤ k ∧ k < ((j + m : Nat) : Int) * limit then .ok (k / limit)
      else .err .keyOutOfRange := by
  induction m generalizing j with
  | zero =>
    simp only [List.range'_zero, List.map_nil, findRange, Nat.add_zero]
    rw [if_neg (by omega)]
  | succ m ih =>
    simp only [List.range'_succ, List.map_cons, findRange]
    have hstep : ((j : Int) + 1) * limit = (j : Int) * limit + limit := by rw [Int.add_mul]; omega
    have hmono := mul_mono (j + 1) (j + (m + 1)) (by omega) limit hl
    have e1 : ((j + 1 : Nat) : Int) = (j : Int) + 1 := by omega
    rw [e1] at hmono
    by_cases hc : (j : Int) * limit ≤ k ∧ k < ((j : Int) + 1) * limit
    · have hcont : NumKeyRange.Contains (interval limit j) k = true := by
        unfold NumKeyRange.Contains interval; simp only
        simp [hc.1, hc.2]
      rw [hcont]
      simp only [if_true]
      rw [if_pos ⟨hc.1, by omega⟩, ediv_of_interval k limit j hl hc.1 hc.2]
    · have hcont : NumKeyRange.Contains (interval limit j) k = false := by
        unfold NumKeyRange.Contains interval; simp only
        by_cases h1 : (j : Int) * limit ≤ k
        · have h2 : ¬ k < ((j : Int) + 1) * limit := fun h => hc ⟨h1, h⟩
          simp [h1, h2]
        · simp [h1]
      rw [hcont]
      simp only [Bool.false_eq_true, if_false]
      have e2 : (j : Int) + 1 = ((j + 1 : Nat) : Int) := by omega
      rw [e2, ih (j + 1)]
      have e3 : j + 1 + m = j + (m + 1) := by omega
      rw [e3]
      by_cases hk : ((j + 1 : Nat) : Int) * limit ≤ k ∧ k < ((j + (m + 1) : Nat) : Int) * limit
      · rw [if_pos hk, if_pos ⟨by rw [← e2] at hk; omega, hk.2⟩]
      · rw [if_neg hk, if_neg]
        intro ⟨h1, h2⟩
        apply hk
        refine ⟨?_, h2⟩
        rw [← e2]
        by_cases h3 : k < ((j : Int) + 1) * limit
        · exact absurd ⟨h1, h3⟩ hc
        · omega

/-- **C09, range rule (`range_place`).**  For every layout — locations summing to
    `n` tables, `table_row_limit = limit > 0`, `n·limit < 2^63` — building the
    rule succeeds, and every 64-bit key `k` is placed in the table `i` whose
    half-open interval `[i·limit, (i+1)·limit)` contains it, and rejected with
    `ErrKeyOutOfRange` when no interval does.

    Full statement (the former `range_place_partial` excluded the key 2^63-1 in
    a layout whose last bound is exactly 2^63-1, where `NumKeyRange.Contains`
    read `End == MaxInt64` as an open end; repaired by e83712b, see
    `pinned_range_maxint64_end_witness`). -/
theorem range_place (locations : List Nat) (limit : Int) (hl : 0 < limit)
    (hb : (total locations : Int) * limit < 2 ^ 63) (k : Int) (_hk : -2 ^ 63 ≤ k ∧ k < 2 ^ 63) :
    ∃ shards, ParseNumSharding (ints locations) limit = .ok shards ∧
      NumRangeShard.FindForKey shards (.int64 k) =
        match CalendarSpec.rangeTable (total locations) limit k with
        | some i => .ok (i : Int)
        | none => .err .keyOutOfRange := by
  refine ⟨_, parseNumSharding_eq locations limit hl hb, ?_⟩
  unfold NumRangeShard.FindForKey NumValue
  simp only
  have h := findRange_spec limit hl (total locations) 0 k
  rw [List.range_eq_range']
  simp only [Int.natCast_zero, Int.zero_mul, Nat.zero_add] at h
  rw [h]
  unfold CalendarSpec.rangeTable
  by_cases hin : 0 ≤ k ∧ k < (total locations : Int) * limit
  · rw [if_pos hin, if_pos ⟨hl, hin.1, hin.2⟩]
    have : 0 ≤ k / limit := Int.ediv_nonneg hin.1 (Int.le_of_lt hl)
    simp only
    congr 1; omega
  · rw [if_neg hin, if_neg (fun h => hin ⟨h.2.1, h.2.2⟩)]

example : (0 : Int) < 1000 ∧ (total [2, 2] : Int) * 1000 < 2 ^ 63 := by decide
example : CalendarSpec.rangeTable (total [2, 2]) 1000 2999 = some 2 := by decide
example : CalendarSpec.rangeTable (total [2, 2]) 1000 4000 = none := by decide

/-- Key types that carry the same number are placed identically; a string is
    read by `strconv.ParseInt`, and a string it rejects is rejected (the
    KeyError panic), never a run-time panic. -/
theorem range_key_carriers (shards : List (Int × Int)) (k : Int) (s : GoStr) :
    NumRangeShard.FindForKey shards (.int k) = NumRangeShard.FindForKey shards (.int64 k) ∧
    NumRangeShard.FindForKey shards (.str (fmtInt k)) =
      (if -2 ^ 63 ≤ k ∧ k < 2 ^ 63 then NumRangeShard.FindForKey shards (.int64 k) else .err .keyPanic) ∧
    (parseInt64 s = none → NumRangeShard.FindForKey shards (.str s) = .err .keyPanic) := by
  have hstr : ∀ t : GoStr, NumValue (.str t) =
      (match parseInt64 t with | some v => Out.ok v | none => .err .keyPanic) := fun _ => rfl
  refine ⟨rfl, ?_, ?_⟩
  · unfold NumRangeShard.FindForKey
    rw [hstr]
    by_cases h : -2 ^ 63 ≤ k ∧ k < 2 ^ 63
    · rw [parseInt64_fmtInt k h, if_pos h]; rfl
    · rw [if_neg h]
      have : parseInt64 (fmtInt k) = none := by
        unfold parseInt64; rw [parseBigDec_fmtInt]; simp only; rw [if_neg h]
      rw [this]
  · intro h; unfold NumRangeShard.FindForKey; rw [hstr, h]

/-- `NumKeyRange.Contains` as it was before e83712b. -/
def pinnedContains (kr : Int × Int) (i : Int) : Bool :=
  kr.1 ≤ i && (kr.2 = MaxNumKey || i < kr.2)

/-- **Regression record of the former finding `range-maxint64-end-open-key-placed`:**
    49 tables of 188232082384791343 rows end at 2^63-1; the key 2^63-1 lies
    outside every half-open interval.  The pinned `Contains` accepted it for the
    last table (48); the repaired code rejects it, as `range_place` demands. -/
theorem pinned_range_maxint64_end_witness :
    (49 : Int) * 188232082384791343 = 2 ^ 63 - 1 ∧
    CalendarSpec.rangeTable 49 188232082384791343 (2 ^ 63 - 1) = none ∧
    pinnedContains (interval 188232082384791343 48) (2 ^ 63 - 1) = true ∧
    (ParseNumSharding [20, 29] 188232082384791343).bind
      (fun shards => NumRangeShard.FindForKey shards (.int64 (2 ^ 63 - 1))) = .err .keyOutOfRange := by
  refine ⟨by decide, by decide, by decide, by decide⟩

/-- the hypotheses of `range_place` hold of that layout and key -/
example : (0 : Int) < 188232082384791343 ∧ (total [20, 29] : Int) * 188232082384791343 < 2 ^ 63 ∧
    (-2 ^ 63 : Int) ≤ 2 ^ 63 - 1 ∧ (2 ^ 63 - 1 : Int) < 2 ^ 63 := by decide

/-! ## year / month / day rules: keys -/

theorem strSlice_ok (s : GoStr) (lo hi : Nat) (h : lo ≤ hi ∧ hi ≤ s.length) :
    strSlice s lo hi = .ok ((s.drop lo).take (hi - lo)) := by
  unfold strSlice; rw [if_pos h]

theorem len4 (l : List Nat) (h : l.length = 4) : ∃ a b c d, l = [a, b, c, d] := by
  match l, h with
  | [a, b, c, d], _ => exact ⟨a, b, c, d, rfl⟩

theorem len2 (l : List Nat) (h : l.length = 2) : ∃ a b, l = [a, b] := by
  match l, h with
  | [a, b], _ => exact ⟨a, b, rfl⟩

/-- `'YYYY-MM-DD'` for fields that fit their width. -/
def dateText (y m d : Nat) : GoStr := zeroPad 4 y ++ [45] ++ zeroPad 2 m ++ [45] ++ zeroPad 2 d

theorem pow4 : 10 ^ 4 = 10000 := by decide
theorem pow2 : 10 ^ 2 = 100 := by decide

/-- Reading the fields of a date text back. -/
theorem date_fields (y m d : Nat) (hy : y ≤ 9999) (hm : m ≤ 99) (hd : d ≤ 99) (suffix : GoStr) :
    let val := dateText y m d ++ suffix
    ¬ val.length < 10 ∧
    strSlice val 0 4 = .ok (zeroPad 4 y) ∧ strSlice val 5 7 = .ok (zeroPad 2 m) ∧
    strSlice val 8 10 = .ok (zeroPad 2 d) := by
  obtain ⟨a, b, c, e, hY⟩ := len4 _ (zeroPad_length 4 y (by rw [pow4]; omega) (by omega))
  obtain ⟨m1, m2, hM⟩ := len2 _ (zeroPad_length 2 m (by rw [pow2]; omega) (by omega))
  obtain ⟨d1, d2, hD⟩ := len2 _ (zeroPad_length 2 d (by rw [pow2]; omega) (by omega))
  simp only [dateText, hY, hM, hD]
  refine ⟨by simp, ?_, ?_, ?_⟩ <;> simp [strSlice]

theorem field_value (Y M : GoStr) (y m : Nat) (hY : digitsVal Y 0 = y) (hM : digitsVal M 0 = m)
    (hlen : M.length = 2) : digitsVal (Y ++ M) 0 = y * 100 + m := by
  rw [digitsVal_app, digitsVal_acc, hlen, hY, hM]


theorem field2 (Y M : GoStr) (y m : Nat) (hYd : ∀ b ∈ Y, isDigit b = true) (hMd : ∀ b ∈ M, isDigit b = true)
    (hY : digitsVal Y 0 = y) (hM : digitsVal M 0 = m) (hlen : M.length = 2) (hy : y ≤ 9999) (hm : m ≤ 99) :
    atoiDigits (Y ++ M) = some ((y : Int) * 100 + m) ∧ parseInt64 (Y ++ M) = some ((y : Int) * 100 + m) := by
  have hv := field_value Y M y m hY hM hlen
  have hne : Y ++ M ≠ [] := by
    intro e; have := congrArg List.length e; simp [hlen] at this
  have hd := all_digits_append Y M hYd hMd
  have hlt : digitsVal (Y ++ M) 0 < 2 ^ 63 := by rw [hv]; omega
  refine ⟨?_, ?_⟩
  · rw [atoiDigits_digits _ hne hd hlt, hv]; simp
  · rw [parseInt64_digits _ hne hd hlt, hv]; simp

theorem field3 (Y M D : GoStr) (y m d : Nat) (hYd : ∀ b ∈ Y, isDigit b = true) (hMd : ∀ b ∈ M, isDigit b = true)
    (hDd : ∀ b ∈ D, isDigit b = true)
    (hY : digitsVal Y 0 = y) (hM : digitsVal M 0 = m) (hD : digitsVal D 0 = d) (hlen : M.length = 2)
    (hlen' : D.length = 2) (hy : y ≤ 9999) (hm : m ≤ 99) (hd : d ≤ 99) :
    atoiDigits (Y ++ M ++ D) = some ((y : Int) * 10000 + m * 100 + d) ∧
    parseInt64 (Y ++ M ++ D) = some ((y : Int) * 10000 + m * 100 + d) := by
  have hv : digitsVal (Y ++ M ++ D) 0 = (y * 100 + m) * 100 + d := by
    rw [digitsVal_app, digitsVal_acc, hlen', field_value Y M y m hY hM hlen, hD]
  have hne : Y ++ M ++ D ≠ [] := by
    intro e; have := congrArg List.length e; simp [hlen, hlen'] at this
  have hdig : (Y ++ M ++ D).all isDigit = true :=
    all_digits_append (Y ++ M) D (by
      have := all_digits_append Y M hYd hMd
      rw [List.all_eq_true] at this; exact this) hDd
  have hlt : digitsVal (Y ++ M ++ D) 0 < 2 ^ 63 := by rw [hv]; omega
  refine ⟨?_, ?_⟩
  · rw [atoiDigits_digits _ hne hdig hlt, hv]; simp; omega
  · rw [parseInt64_digits _ hne hdig hlt, hv]; simp; omega

theorem zeroPad_ne_nil (w n : Nat) : zeroPad w n ≠ [] := by
  unfold zeroPad; simp only; intro e
  have := congrArg List.length e
  have h2 := fmtNat_ne_nil n
  simp at this; exact h2 this.2

/-- **Date strings (`calendar_place`, strings).**  Under the year rule a string
    that starts with a four-digit year `YYYY` — `'YYYY-MM-DD'`,
    `'YYYY-MM-DD hh:mm:ss'`, … — is placed in table `YYYY`. -/
theorem year_string_place (civilOf : Int → Civil) (y : Nat) (hy : y ≤ 9999) (rest : GoStr) :
    DateYearShard.FindForKey civilOf (.str (zeroPad 4 y ++ rest)) = .ok (y : Int) := by
  have hl := zeroPad_length 4 y (by rw [pow4]; omega) (by omega)
  show (if (zeroPad 4 y ++ rest).length < 4 then Out.err ErrKind.invalidDate else
    match strSlice (zeroPad 4 y ++ rest) 0 4 with
    | .ok p => (match atoiDigits p with | some v => Out.ok v | none => .err .invalidDate)
    | .err k => .err k
    | .panic => .panic) = _
  rw [if_neg (by simp [hl])]
  rw [strSlice_ok _ 0 4 ⟨by omega, by simp [hl]⟩]
  simp only [List.drop_zero, Nat.sub_zero]
  have : List.take 4 (zeroPad 4 y ++ rest) = zeroPad 4 y := by
    have := List.take_left (l₁ := zeroPad 4 y) (l₂ := rest)
    rw [hl] at this; exact this
  rw [this, atoiDigits_digits _ (zeroPad_ne_nil 4 y)
    (by rw [List.all_eq_true]; exact zeroPad_digits 4 y) (by rw [zeroPad_val]; omega), zeroPad_val]

/-- Under the month rule `'YYYY-MM-DD'` followed by anything (a time of day) is
    placed in table `YYYYMM`; under the day rule in table `YYYYMMDD`. -/
theorem month_string_place (civilOf : Int → Civil) (y m d : Nat) (hy : y ≤ 9999) (hm : m ≤ 99) (hd : d ≤ 99)
    (suffix : GoStr) :
    DateMonthShard.FindForKey civilOf (.str (dateText y m d ++ suffix)) = .ok ((y : Int) * 100 + m) := by
  obtain ⟨h0, h1, h2, _⟩ := date_fields y m d hy hm hd suffix
  show (if (dateText y m d ++ suffix).length < 10 then Out.err ErrKind.invalidDate else
    match strSlice (dateText y m d ++ suffix) 0 4, strSlice (dateText y m d ++ suffix) 5 7 with
    | .ok a, .ok b => (match atoiDigits (a ++ b) with | some n => Out.ok n | none => .err .invalidDate)
    | _, _ => .panic) = _
  rw [if_neg h0, h1, h2]
  simp only
  rw [(field2 _ _ y m (zeroPad_digits 4 y) (zeroPad_digits 2 m) (zeroPad_val 4 y) (zeroPad_val 2 m)
    (zeroPad_length 2 m (by rw [pow2]; omega) (by omega)) hy hm).1]

theorem day_string_place (civilOf : Int → Civil) (y m d : Nat) (hy : y ≤ 9999) (hm : m ≤ 99) (hd : d ≤ 99)
    (suffix : GoStr) :
    DateDayShard.FindForKey civilOf (.str (dateText y m d ++ suffix)) =
      .ok ((y : Int) * 10000 + m * 100 + d) := by
  obtain ⟨h0, h1, h2, h3⟩ := date_fields y m d hy hm hd suffix
  show (if (dateText y m d ++ suffix).length < 10 then Out.err ErrKind.invalidDate else
    match strSlice (dateText y m d ++ suffix) 0 4, strSlice (dateText y m d ++ suffix) 5 7,
        strSlice (dateText y m d ++ suffix) 8 10 with
    | .ok a, .ok b, .ok c =>
      (match atoiDigits (a ++ b ++ c) with | some n => Out.ok n | none => .err .invalidDate)
    | _, _, _ => .panic) = _
  rw [if_neg h0, h1, h2, h3]
  simp only
  rw [(field3 _ _ _ y m d (zeroPad_digits 4 y) (zeroPad_digits 2 m) (zeroPad_digits 2 d) (zeroPad_val 4 y)
    (zeroPad_val 2 m) (zeroPad_val 2 d) (zeroPad_length 2 m (by rw [pow2]; omega) (by omega))
    (zeroPad_length 2 d (by rw [pow2]; omega) (by omega)) hy hm hd).1]

/-- `Format("2006-01-02")` of a date whose year is 0…9999. -/
theorem fmtDate_eq (c : Civil) (hy : 0 ≤ c.year) : fmtDate c = dateText c.year.toNat c.month c.day := by
  unfold fmtDate dateText; rw [if_neg (by omega)]

theorem fmtNat_length_gt (w n : Nat) (h : 10 ^ w ≤ n) : w < (fmtNat n).length := by
  induction w generalizing n with
  | zero =>
    have := fmtNat_ne_nil n
    cases hf : fmtNat n with
    | nil => exact absurd hf this
    | cons => simp
  | succ w ih =>
    rw [Nat.pow_succ] at h
    have hp : 0 < 10 ^ w := Nat.pos_of_ne_zero (by simp)
    rw [fmtNat_ge10 n (by omega)]
    have : 10 ^ w ≤ n / 10 := by
      rw [Nat.le_div_iff_mul_le (by omega)]; exact h
    have := ih (n / 10) this
    simp; omega

theorem zeroPad_length_gt (w n : Nat) (h : 10 ^ w ≤ n) : w < (zeroPad w n).length := by
  unfold zeroPad
  have := fmtNat_length_gt w n h
  simp; omega

theorem zeroPad_length_ge' (w n : Nat) : w ≤ (zeroPad w n).length := by
  unfold zeroPad; simp; omega

theorem dateText_length (y m d : Nat) (hy : y ≤ 9999) (hm : m ≤ 99) (hd : d ≤ 99) :
    (dateText y m d).length = 10 := by
  have h4 := zeroPad_length 4 y (by rw [pow4]; omega) (by omega)
  have h2 := zeroPad_length 2 m (by rw [pow2]; omega) (by omega)
  have h2' := zeroPad_length 2 d (by rw [pow2]; omega) (by omega)
  simp [dateText, h4, h2, h2']

/-- `Format("2006-01-02")` has ten characters exactly for the years 0000-9999
    (with two-digit month and day): the test the repaired month and day rules make. -/
theorem fmtDate_length_eq (c : Civil) (hy : 0 ≤ c.year ∧ c.year ≤ 9999) (hm : c.month ≤ 99) (hd : c.day ≤ 99) :
    (fmtDate c).length = 10 := by
  rw [fmtDate_eq c hy.1]; exact dateText_length _ _ _ (by omega) hm hd

theorem fmtDate_length_ne (c : Civil) (hy : c.year < 0 ∨ 9999 < c.year) : (fmtDate c).length ≠ 10 := by
  unfold fmtDate
  have h2 := zeroPad_length_ge' 2 c.month
  have h2' := zeroPad_length_ge' 2 c.day
  rcases hy with hy | hy
  · rw [if_pos hy]
    have h4 := zeroPad_length_ge' 4 (-c.year).toNat
    simp; omega
  · rw [if_neg (by omega)]
    have h4 := zeroPad_length_gt 4 c.year.toNat (by rw [pow4]; omega)
    simp; omega

/-- **Unix timestamps (`calendar_place`, timestamps).**  Whatever the process's
    time zone (`civilOf` is `time.Unix(v,0)` read as a civil date), a timestamp
    whose civil year is 0…9999 is placed at the period number of its date. -/
theorem timestamp_place (civilOf : Int → Civil) (v : Int)
    (hy : 0 ≤ (civilOf v).year ∧ (civilOf v).year ≤ 9999) (hm : (civilOf v).month ≤ 99)
    (hd : (civilOf v).day ≤ 99) :
    DateYearShard.FindForKey civilOf (.int64 v) = .ok (civilOf v).year ∧
    DateMonthShard.FindForKey civilOf (.int64 v) = .ok ((civilOf v).year * 100 + (civilOf v).month) ∧
    DateDayShard.FindForKey civilOf (.int64 v) =
      .ok ((civilOf v).year * 10000 + (civilOf v).month * 100 + (civilOf v).day) := by
  have hyn : (civilOf v).year.toNat ≤ 9999 := by omega
  have hyc : (((civilOf v).year.toNat : Nat) : Int) = (civilOf v).year := by omega
  obtain ⟨_, h1, h2, h3⟩ := date_fields (civilOf v).year.toNat (civilOf v).month (civilOf v).day hyn hm hd []
  simp only [List.append_nil] at h1 h2 h3
  have hlen := fmtDate_length_eq (civilOf v) hy hm hd
  refine ⟨rfl, ?_, ?_⟩
  · show yearMonthOfUnix civilOf v = _
    unfold yearMonthOfUnix
    simp only
    rw [if_neg (fun h => h hlen), fmtDate_eq _ hy.1, h1, h2]
    simp only
    rw [(field2 _ _ _ _ (zeroPad_digits 4 _) (zeroPad_digits 2 _) (zeroPad_val 4 _) (zeroPad_val 2 _)
      (zeroPad_length 2 _ (by rw [pow2]; omega) (by omega)) hyn hm).2, hyc]
  · show yearMonthDayOfUnix civilOf v = _
    unfold yearMonthDayOfUnix
    simp only
    rw [if_neg (fun h => h hlen), fmtDate_eq _ hy.1, h1, h2, h3]
    simp only
    rw [(field3 _ _ _ _ _ _ (zeroPad_digits 4 _) (zeroPad_digits 2 _) (zeroPad_digits 2 _) (zeroPad_val 4 _)
      (zeroPad_val 2 _) (zeroPad_val 2 _) (zeroPad_length 2 _ (by rw [pow2]; omega) (by omega))
      (zeroPad_length 2 _ (by rw [pow2]; omega) (by omega)) hyn hm hd).2, hyc]

/-- **Timestamps outside the years 0000-9999 (`timestamp_reject`).**  Whatever
    the time zone, a timestamp whose civil year cannot be written with four
    digits is rejected by the month and day rules with the invalid-date error
    (before ab7347b they sliced the longer text and could place the key in an
    unrelated table: `pinned_timestamp_year_over_9999_witness`).  The year rule
    does not format the date: it returns the year itself. -/
theorem timestamp_reject (civilOf : Int → Civil) (v : Int)
    (hy : (civilOf v).year < 0 ∨ 9999 < (civilOf v).year) :
    DateYearShard.FindForKey civilOf (.int64 v) = .ok (civilOf v).year ∧
    DateMonthShard.FindForKey civilOf (.int64 v) = .err .invalidDate ∧
    DateDayShard.FindForKey civilOf (.int64 v) = .err .invalidDate := by
  have hlen := fmtDate_length_ne (civilOf v) hy
  refine ⟨rfl, ?_, ?_⟩
  · show yearMonthOfUnix civilOf v = _
    unfold yearMonthOfUnix
    simp only
    rw [if_pos hlen]
  · show yearMonthDayOfUnix civilOf v = _
    unfold yearMonthDayOfUnix
    simp only
    rw [if_pos hlen]

/-- The two together: under the month and day rules every timestamp (with a
    calendar month and day) is placed at the period number of its civil date or,
    when that date has no `YYYY-MM-DD` spelling, rejected — nothing else. -/
theorem timestamp_place_or_reject (civilOf : Int → Civil) (v : Int) (hm : (civilOf v).month ≤ 99)
    (hd : (civilOf v).day ≤ 99) :
    let c := civilOf v
    DateMonthShard.FindForKey civilOf (.int64 v) =
      (if 0 ≤ c.year ∧ c.year ≤ 9999 then .ok (c.year * 100 + c.month) else .err .invalidDate) ∧
    DateDayShard.FindForKey civilOf (.int64 v) =
      (if 0 ≤ c.year ∧ c.year ≤ 9999 then .ok (c.year * 10000 + c.month * 100 + c.day)
       else .err .invalidDate) := by
  intro c
  by_cases hy : 0 ≤ (civilOf v).year ∧ (civilOf v).year ≤ 9999
  · have := timestamp_place civilOf v hy hm hd
    simp only [c, if_pos hy]; exact ⟨this.2.1, this.2.2⟩
  · have := timestamp_reject civilOf v (by omega)
    simp only [c, if_neg hy]; exact ⟨this.2.1, this.2.2⟩

/-- `timestamp_reject` is not vacuous: in UTC 38895000000000 lies in the year 1234503 -/
example : (civilOfUnix 0 38895000000000).year = 1234503 := by decide

/-- **C09, calendar rules (`calendar_place`).**  The accepted spellings of one
    instant are placed identically, at the period number of its civil date: for
    every time zone (`civilOf`), every timestamp `v` whose civil date `c` has a
    year 0…9999, the keys `v`, `'YYYY-MM-DD'` of `c` and `'YYYY-MM-DD'` followed by
    any time of day all go to table `c.year` / `c.year·100+c.month` /
    `c.year·10000+c.month·100+c.day`. -/
theorem calendar_place (civilOf : Int → Civil) (v : Int) (timeOfDay : GoStr)
    (hy : 0 ≤ (civilOf v).year ∧ (civilOf v).year ≤ 9999) (hm : (civilOf v).month ≤ 99)
    (hd : (civilOf v).day ≤ 99) :
    let c := civilOf v
    (DateYearShard.FindForKey civilOf (.int64 v) = .ok c.year ∧
     DateYearShard.FindForKey civilOf (.str (fmtDate c)) = .ok c.year ∧
     DateYearShard.FindForKey civilOf (.str (fmtDate c ++ timeOfDay)) = .ok c.year) ∧
    (DateMonthShard.FindForKey civilOf (.int64 v) = .ok (c.year * 100 + c.month) ∧
     DateMonthShard.FindForKey civilOf (.str (fmtDate c)) = .ok (c.year * 100 + c.month) ∧
     DateMonthShard.FindForKey civilOf (.str (fmtDate c ++ timeOfDay)) = .ok (c.year * 100 + c.month)) ∧
    (DateDayShard.FindForKey civilOf (.int64 v) = .ok (c.year * 10000 + c.month * 100 + c.day) ∧
     DateDayShard.FindForKey civilOf (.str (fmtDate c)) = .ok (c.year * 10000 + c.month * 100 + c.day) ∧
     DateDayShard.FindForKey civilOf (.str (fmtDate c ++ timeOfDay)) =
       .ok (c.year * 10000 + c.month * 100 + c.day)) := by
  intro c
  obtain ⟨t1, t2, t3⟩ := timestamp_place civilOf v hy hm hd
  have hc : c = civilOf v := rfl
  clear_value c
  rw [← hc] at hy hm hd t1 t2 t3
  have hyn : c.year.toNat ≤ 9999 := by omega
  have hyc : ((c.year.toNat : Nat) : Int) = c.year := by omega
  have e : fmtDate c = dateText c.year.toNat c.month c.day := fmtDate_eq c hy.1
  have ey : ∀ rest, dateText c.year.toNat c.month c.day ++ rest =
      zeroPad 4 c.year.toNat ++ ([45] ++ zeroPad 2 c.month ++ [45] ++ zeroPad 2 c.day ++ rest) := by
    intro rest; simp [dateText]
  have y1 := year_string_place civilOf c.year.toNat hyn
  have m1 := month_string_place civilOf c.year.toNat c.month c.day hyn hm hd
  have d1 := day_string_place civilOf c.year.toNat c.month c.day hyn hm hd
  rw [hyc] at y1 m1 d1
  refine ⟨⟨t1, ?_, ?_⟩, ⟨t2, ?_, ?_⟩, ⟨t3, ?_, ?_⟩⟩
  · have := y1 ([45] ++ zeroPad 2 c.month ++ [45] ++ zeroPad 2 c.day ++ [])
    rw [← ey, List.append_nil, ← e] at this; exact this
  · rw [e, ey]; exact y1 _
  · have := m1 []; rw [List.append_nil, ← e] at this; exact this
  · rw [e]; exact m1 _
  · have := d1 []; rw [List.append_nil, ← e] at this; exact this
  · rw [e]; exact d1 _

/-- Hypotheses are satisfiable: 2016-02-29 in UTC+8 (`civilOfUnix 28800`), one second before March. -/
example : civilOfUnix 28800 1456761599 = { year := 2016, month := 2, day := 29 } := by decide
example : fmtDate { year := 2016, month := 2, day := 29 } = ascii "2016-02-29" := by decide


/-! ## malformed keys: rejected, never a run-time panic -/

theorem zeroPad_length_ge (w n : Nat) : w ≤ (zeroPad w n).length := by
  unfold zeroPad; simp; omega

theorem fmtDate_length (c : Civil) : 10 ≤ (fmtDate c).length := by
  unfold fmtDate
  have h4 := zeroPad_length_ge 4 c.year.toNat
  have h4' := zeroPad_length_ge 4 (-c.year).toNat
  have h2 := zeroPad_length_ge 2 c.month
  have h2' := zeroPad_length_ge 2 c.day
  split <;> simp <;> omega

/-- **No key makes a date rule panic** (the pinned year rule sliced `val[:4]`
    of a shorter string: fixed): every key type, every string of every length,
    every timestamp in every time zone yields a table index or an error. -/
theorem date_keys_never_panic (civilOf : Int → Civil) (key : Key) :
    DateYearShard.FindForKey civilOf key ≠ .panic ∧
    DateMonthShard.FindForKey civilOf key ≠ .panic ∧
    DateDayShard.FindForKey civilOf key ≠ .panic := by
  have hym : ∀ v, yearMonthOfUnix civilOf v ≠ .panic := by
    intro v; unfold yearMonthOfUnix; simp only
    have hl := fmtDate_length (civilOf v)
    split
    · simp
    · rw [strSlice_ok _ 0 4 ⟨by omega, by omega⟩, strSlice_ok _ 5 7 ⟨by omega, by omega⟩]
      simp only; split <;> simp
  have hymd : ∀ v, yearMonthDayOfUnix civilOf v ≠ .panic := by
    intro v; unfold yearMonthDayOfUnix; simp only
    have hl := fmtDate_length (civilOf v)
    split
    · simp
    · rw [strSlice_ok _ 0 4 ⟨by omega, by omega⟩, strSlice_ok _ 5 7 ⟨by omega, by omega⟩,
        strSlice_ok _ 8 10 ⟨by omega, by omega⟩]
      simp only; split <;> simp
  cases key with
  | int v => exact ⟨by simp [DateYearShard.FindForKey], hym v, hymd v⟩
  | int64 v => exact ⟨by simp [DateYearShard.FindForKey], hym v, hymd v⟩
  | uint64 v => exact ⟨by simp [DateYearShard.FindForKey], hym _, hymd _⟩
  | bytes s => exact ⟨by simp [DateYearShard.FindForKey], by simp [DateMonthShard.FindForKey],
      by simp [DateDayShard.FindForKey]⟩
  | other => exact ⟨by simp [DateYearShard.FindForKey], by simp [DateMonthShard.FindForKey],
      by simp [DateDayShard.FindForKey]⟩
  | str s =>
    refine ⟨?_, ?_, ?_⟩
    · show (if s.length < 4 then Out.err ErrKind.invalidDate else
        match strSlice s 0 4 with
        | .ok p => (match atoiDigits p with | some v => Out.ok v | none => .err .invalidDate)
        | .err k => .err k
        | .panic => .panic) ≠ _
      by_cases h : s.length < 4
      · rw [if_pos h]; simp
      · rw [if_neg h, strSlice_ok _ 0 4 ⟨by omega, by omega⟩]; simp only; split <;> simp
    · show (if s.length < 10 then Out.err ErrKind.invalidDate else
        match strSlice s 0 4, strSlice s 5 7 with
        | .ok a, .ok b => (match atoiDigits (a ++ b) with | some n => Out.ok n | none => .err .invalidDate)
        | _, _ => .panic) ≠ _
      by_cases h : s.length < 10
      · rw [if_pos h]; simp
      · rw [if_neg h, strSlice_ok _ 0 4 ⟨by omega, by omega⟩, strSlice_ok _ 5 7 ⟨by omega, by omega⟩]
        simp only; split <;> simp
    · show (if s.length < 10 then Out.err ErrKind.invalidDate else
        match strSlice s 0 4, strSlice s 5 7, strSlice s 8 10 with
        | .ok a, .ok b, .ok c =>
          (match atoiDigits (a ++ b ++ c) with | some n => Out.ok n | none => .err .invalidDate)
        | _, _, _ => .panic) ≠ _
      by_cases h : s.length < 10
      · rw [if_pos h]; simp
      · rw [if_neg h, strSlice_ok _ 0 4 ⟨by omega, by omega⟩, strSlice_ok _ 5 7 ⟨by omega, by omega⟩,
          strSlice_ok _ 8 10 ⟨by omega, by omega⟩]
        simp only; split <;> simp

theorem mem_slice (s : GoStr) (lo hi p x : Nat) (h1 : lo ≤ p) (h2 : p < hi) (hx : s[p]? = some x) :
    x ∈ (s.drop lo).take (hi - lo) := by
  rw [List.mem_iff_getElem?]
  refine ⟨p - lo, ?_⟩
  rw [List.getElem?_take_of_lt (by omega), List.getElem?_drop]
  have : lo + (p - lo) = p := by omega
  rw [this, hx]

/-- What `malformedFor` means: a position the rule reads is missing or not a digit. -/
theorem malformed_cases (rule : String) (s : GoStr) (h : CalendarSpec.malformedFor rule s = true) :
    ∃ p ∈ CalendarSpec.readPositions rule, s.length ≤ p ∨ ∃ x, s[p]? = some x ∧ isDigit x = false := by
  unfold CalendarSpec.malformedFor at h
  rw [List.any_eq_true] at h
  obtain ⟨p, hp, hb⟩ := h
  refine ⟨p, hp, ?_⟩
  cases hs : s[p]? with
  | none => left; exact List.getElem?_eq_none_iff.mp hs
  | some x =>
    right; refine ⟨x, rfl, ?_⟩
    rw [hs] at hb
    simp only [CalendarSpec.digit?] at hb
    unfold isDigit
    by_cases hd : 48 ≤ x ∧ x ≤ 57
    · rw [if_pos hd] at hb; simp at hb
    · simp; omega

/-- **C09, malformed keys (`calendar_reject`).**  A string too short for the
    fields a rule reads, or with a non-digit (a sign included) in one of them,
    is rejected with the invalid-date error under that rule. -/
theorem calendar_reject (civilOf : Int → Civil) (s : GoStr) :
    (CalendarSpec.malformedFor "date_year" s = true →
      DateYearShard.FindForKey civilOf (.str s) = .err .invalidDate) ∧
    (CalendarSpec.malformedFor "date_month" s = true →
      DateMonthShard.FindForKey civilOf (.str s) = .err .invalidDate) ∧
    (CalendarSpec.malformedFor "date_day" s = true →
      DateDayShard.FindForKey civilOf (.str s) = .err .invalidDate) := by
  refine ⟨?_, ?_, ?_⟩
  · intro h
    obtain ⟨p, hp, hc⟩ := malformed_cases _ s h
    have hp4 : p < 4 := by
      have : CalendarSpec.readPositions "date_year" = [0, 1, 2, 3] := by decide
      rw [this] at hp; simp at hp; omega
    show (if s.length < 4 then Out.err ErrKind.invalidDate else
      match strSlice s 0 4 with
      | .ok p => (match atoiDigits p with | some v => Out.ok v | none => .err .invalidDate)
      | .err k => .err k
      | .panic => .panic) = _
    by_cases hl : s.length < 4
    · rw [if_pos hl]
    · rw [if_neg hl, strSlice_ok _ 0 4 ⟨by omega, by omega⟩]
      rcases hc with hc | ⟨x, hx, hd⟩
      · omega
      · simp only
        rw [atoiDigits_nondigit _ ⟨x, mem_slice s 0 4 p x (by omega) hp4 hx, hd⟩]
  · intro h
    obtain ⟨p, hp, hc⟩ := malformed_cases _ s h
    have hpos : p < 4 ∨ (5 ≤ p ∧ p < 7) := by
      have : CalendarSpec.readPositions "date_month" = [0, 1, 2, 3, 5, 6] := by decide
      rw [this] at hp; simp at hp; omega
    show (if s.length < 10 then Out.err ErrKind.invalidDate else
      match strSlice s 0 4, strSlice s 5 7 with
      | .ok a, .ok b => (match atoiDigits (a ++ b) with | some n => Out.ok n | none => .err .invalidDate)
      | _, _ => .panic) = _
    by_cases hl : s.length < 10
    · rw [if_pos hl]
    · rw [if_neg hl, strSlice_ok _ 0 4 ⟨by omega, by omega⟩, strSlice_ok _ 5 7 ⟨by omega, by omega⟩]
      rcases hc with hc | ⟨x, hx, hd⟩
      · omega
      · simp only
        rw [atoiDigits_nondigit _ ⟨x, by
          rcases hpos with h4 | h57
          · exact List.mem_append_left _ (mem_slice s 0 4 p x (by omega) h4 hx)
          · exact List.mem_append_right _ (mem_slice s 5 7 p x h57.1 h57.2 hx), hd⟩]
  · intro h
    obtain ⟨p, hp, hc⟩ := malformed_cases _ s h
    have hpos : p < 4 ∨ (5 ≤ p ∧ p < 7) ∨ (8 ≤ p ∧ p < 10) := by
      have : CalendarSpec.readPositions "date_day" = [0, 1, 2, 3, 5, 6, 8, 9] := by decide
      rw [this] at hp; simp at hp; omega
    show (if s.length < 10 then Out.err ErrKind.invalidDate else
      match strSlice s 0 4, strSlice s 5 7, strSlice s 8 10 with
      | .ok a, .ok b, .ok c =>
        (match atoiDigits (a ++ b ++ c) with | some n => Out.ok n | none => .err .invalidDate)
      | _, _, _ => .panic) = _
    by_cases hl : s.length < 10
    · rw [if_pos hl]
    · rw [if_neg hl, strSlice_ok _ 0 4 ⟨by omega, by omega⟩, strSlice_ok _ 5 7 ⟨by omega, by omega⟩,
        strSlice_ok _ 8 10 ⟨by omega, by omega⟩]
      rcases hc with hc | ⟨x, hx, hd⟩
      · omega
      · simp only
        rw [atoiDigits_nondigit _ ⟨x, by
          rcases hpos with h4 | h57 | h89
          · exact List.mem_append_left _ (List.mem_append_left _ (mem_slice s 0 4 p x (by omega) h4 hx))
          · exact List.mem_append_left _ (List.mem_append_right _ (mem_slice s 5 7 p x h57.1 h57.2 hx))
          · exact List.mem_append_right _ (mem_slice s 8 10 p x h89.1 h89.2 hx), hd⟩]

/-- The strings that made the pinned code fail: "201" (run-time panic under the
    year rule) and "+201-06-01" (placed in year 201 / month 20106) are malformed. -/
example : CalendarSpec.malformedFor "date_year" (ascii "201") = true := by decide
example : CalendarSpec.malformedFor "date_month" (ascii "+201-06-01") = true := by decide

/-- The timestamp branches of `getNumYearMonth` as they were before ab7347b
    (no test of the length of the formatted text). -/
def pinnedYearMonthOfUnix (civilOf : Int → Civil) (v : Int) : Out Int :=
  let dateStr := fmtDate (civilOf v)
  match strSlice dateStr 0 4, strSlice dateStr 5 7 with
  | .ok a, .ok b => match parseInt64 (a ++ b) with
    | some n => .ok n
    | none => .err .invalidDate
  | _, _ => .panic

/-- **Regression record of the former finding `timestamp-outside-years-0-9999-placed`:**
    in UTC the timestamp 38895000000000 lies in June of the year 1234503, whose
    `Format("2006-01-02")` text is "1234503-06-27"; the pinned month rule sliced
    "1234" and "03" (digits of the year) out of it and placed the key in table
    123403, the table of March 1234.  The repaired rule rejects it. -/
theorem pinned_timestamp_year_over_9999_witness :
    (civilOfUnix 0 38895000000000).year = 1234503 ∧
    CalendarSpec.dateTimeOfUnix 0 38895000000000 = none ∧
    pinnedYearMonthOfUnix (civilOfUnix 0) 38895000000000 = .ok 123403 ∧
    DateMonthShard.FindForKey (civilOfUnix 0) (.int64 38895000000000) = .err .invalidDate ∧
    DateDayShard.FindForKey (civilOfUnix 0) (.int64 38895000000000) = .err .invalidDate := by
  refine ⟨by decide, by decide, by decide, by decide, by decide⟩

/-! ## date_range parsers -/

theorem cutAt_none (a : GoStr) (h : ∀ b ∈ a, b ≠ 45) : cutAt 45 a = none := by
  induction a with
  | nil => rfl
  | cons x xs ih =>
    have hx : x ≠ 45 := h x (by simp)
    simp [cutAt, hx, ih (fun b hb => h b (by simp [hb]))]

theorem cutAt_some (a b : GoStr) (h : ∀ x ∈ a, x ≠ 45) : cutAt 45 (a ++ 45 :: b) = some (a, b) := by
  induction a with
  | nil => simp [cutAt]
  | cons x xs ih =>
    have hx : x ≠ 45 := h x (by simp)
    simp [cutAt, hx, ih (fun b hb => h b (by simp [hb]))]

theorem splitFirst_single (a : GoStr) (h : ∀ b ∈ a, b ≠ 45) : splitFirst 45 a = [a] := by
  unfold splitFirst; rw [cutAt_none a h]

theorem splitFirst_pair (a b : GoStr) (h : ∀ x ∈ a, x ≠ 45) : splitFirst 45 (a ++ 45 :: b) = [a, b] := by
  unfold splitFirst; rw [cutAt_some a b h]

theorem digit_ne_sep (a : GoStr) (h : ∀ b ∈ a, isDigit b = true) : ∀ b ∈ a, b ≠ 45 := by
  intro b hb e; subst e; have := h 45 hb; simp [isDigit] at this

theorem digitsVal_lt (s : List Nat) (h : ∀ b ∈ s, isDigit b = true) : digitsVal s 0 < 10 ^ s.length := by
  induction s with
  | nil => simp [digitsVal]
  | cons x xs ih =>
    have hx : isDigit x = true := h x (by simp)
    simp [isDigit] at hx
    have := ih (fun b hb => h b (by simp [hb]))
    simp only [digitsVal, List.length_cons]
    rw [digitsVal_acc, Nat.pow_succ]
    have : (0 * 10 + (x - 48)) * 10 ^ xs.length ≤ 9 * 10 ^ xs.length := Nat.mul_le_mul_right _ (by omega)
    omega

/-- On digit strings of equal length the bytewise order is the numeric order. -/
theorem strLt_digits (x y : List Nat) (hl : x.length = y.length) (hx : ∀ b ∈ x, isDigit b = true)
    (hy : ∀ b ∈ y, isDigit b = true) : strLt x y = decide (digitsVal x 0 < digitsVal y 0) := by
  induction x generalizing y with
  | nil =>
    cases y with
    | nil => simp [strLt, digitsVal]
    | cons b bs => simp at hl
  | cons a as ih =>
    cases y with
    | nil => simp at hl
    | cons b bs =>
      have hlen : as.length = bs.length := by simpa using hl
      have ha : isDigit a = true := hx a (by simp)
      have hb : isDigit b = true := hy b (by simp)
      simp [isDigit] at ha hb
      have ra := digitsVal_lt as (fun c hc => hx c (by simp [hc]))
      have rb := digitsVal_lt bs (fun c hc => hy c (by simp [hc]))
      have va : digitsVal (a :: as) 0 = (a - 48) * 10 ^ as.length + digitsVal as 0 := by
        simp only [digitsVal]; rw [digitsVal_acc]; simp
      have vb : digitsVal (b :: bs) 0 = (b - 48) * 10 ^ bs.length + digitsVal bs 0 := by
        simp only [digitsVal]; rw [digitsVal_acc]; simp
      rw [va, vb, ← hlen]
      rw [← hlen] at rb
      unfold strLt
      by_cases h1 : a < b
      · have : (a - 48 + 1) * 10 ^ as.length ≤ (b - 48) * 10 ^ as.length := Nat.mul_le_mul_right _ (by omega)
        rw [Nat.add_mul] at this
        simp [h1]; omega
      · by_cases h2 : b < a
        · have : (b - 48 + 1) * 10 ^ as.length ≤ (a - 48) * 10 ^ as.length := Nat.mul_le_mul_right _ (by omega)
          rw [Nat.add_mul] at this
          simp [h1, h2]; omega
        · have e : a = b := by omega
          subst e
          simp only [h1, if_false]
          rw [ih bs hlen (fun c hc => hx c (by simp [hc])) (fun c hc => hy c (by simp [hc]))]
          simp


theorem atoi_zeroPad (w n : Nat) (h : n < 2 ^ 63) : parseInt64 (zeroPad w n) = some (n : Int) := by
  rw [parseInt64_digits _ (zeroPad_ne_nil w n) (by rw [List.all_eq_true]; exact zeroPad_digits w n)
    (by rw [zeroPad_val]; exact h), zeroPad_val]

/-- A single year `YYYY` denotes that year. -/
theorem parse_year_single (y : Nat) (hy : y ≤ 9999) : ParseYearRange (zeroPad 4 y) = .ok [(y : Int)] := by
  unfold ParseYearRange
  rw [splitFirst_single _ (digit_ne_sep _ (zeroPad_digits 4 y))]
  simp only
  rw [if_neg (by rw [zeroPad_length 4 y (by rw [pow4]; omega) (by omega)]; simp), atoi_zeroPad 4 y (by omega)]

/-- **`parse_ranges`, years.**  `YYYY-ZZZZ`, written in either order, denotes every
    year from the smaller to the larger, ascending. -/
theorem parse_year_span (ya yb : Nat) (ha : ya ≤ 9999) (hb : yb ≤ 9999) :
    ParseYearRange (zeroPad 4 ya ++ 45 :: zeroPad 4 yb) =
      .ok ((List.range (max ya yb - min ya yb + 1)).map fun (i : Nat) => ((min ya yb + i : Nat) : Int)) := by
  unfold ParseYearRange
  rw [splitFirst_pair _ _ (digit_ne_sep _ (zeroPad_digits 4 ya))]
  have hla := zeroPad_length 4 ya (by rw [pow4]; omega) (by omega)
  have hlb := zeroPad_length 4 yb (by rw [pow4]; omega) (by omega)
  have hlt := strLt_digits (zeroPad 4 yb) (zeroPad 4 ya) (by rw [hla, hlb]) (zeroPad_digits 4 yb)
    (zeroPad_digits 4 ya)
  rw [zeroPad_val, zeroPad_val] at hlt
  simp only
  rw [hlt]
  by_cases h : yb < ya
  · simp only [h, decide_true, if_true]
    rw [atoi_zeroPad 4 yb (by omega), atoi_zeroPad 4 ya (by omega)]
    simp only
    have e1 : ((ya : Int) - yb + 1).toNat = max ya yb - min ya yb + 1 := by omega
    rw [e1]
    congr 1
    apply List.map_congr_left
    intro i _
    omega
  · simp only [h, decide_false, Bool.false_eq_true, if_false]
    rw [atoi_zeroPad 4 ya (by omega), atoi_zeroPad 4 yb (by omega)]
    simp only
    have e1 : ((yb : Int) - ya + 1).toNat = max ya yb - min ya yb + 1 := by omega
    rw [e1]
    congr 1
    apply List.map_congr_left
    intro i _
    omega


/-- Months counted from January of year 0, and the period number `YYYYMM` of the `t`-th month. -/
def monthIndex (y m : Nat) : Nat := y * 12 + (m - 1)
def monthOfIndex (t : Nat) : Int := ((t / 12 : Nat) : Int) * 100 + ((t % 12 + 1 : Nat) : Int)

theorem monthOfIndex_index (y m : Nat) (hm : 1 ≤ m ∧ m ≤ 12) :
    monthOfIndex (monthIndex y m) = (y : Int) * 100 + m := by
  unfold monthOfIndex monthIndex
  have h1 : (y * 12 + (m - 1)) / 12 = y := by omega
  have h2 : (y * 12 + (m - 1)) % 12 = m - 1 := by omega
  rw [h1, h2]; omega

/-- The loop of `ParseMonthRange` walks consecutive months (at the loop head the
    month may be 13, which it turns into January of the next year). -/
theorem monthLoop_eq (n y m : Nat) (hm : 1 ≤ m ∧ m ≤ 13) :
    monthLoop n (y : Int) (m : Int) = (List.range n).map fun i => monthOfIndex (y * 12 + (m - 1) + i) := by
  induction n generalizing y m with
  | zero => rfl
  | succ n ih =>
    unfold monthLoop
    rw [List.range_succ_eq_map, List.map_cons, List.map_map]
    by_cases h13 : m = 13
    · subst h13
      simp only [show (12 : Int) < ((13 : Nat) : Int) from by decide, if_true]
      have e1 : Int.tmod ((13 : Nat) : Int) 12 = ((1 : Nat) : Int) := by decide
      have e2 : (y : Int) + 1 = ((y + 1 : Nat) : Int) := by omega
      have e3 : ((1 : Nat) : Int) + 1 = ((2 : Nat) : Int) := by decide
      rw [e1, e2, e3, ih (y + 1) 2 (by omega)]
      congr 1
      · unfold monthOfIndex
        have h1 : (y * 12 + (13 - 1) + 0) / 12 = y + 1 := by omega
        have h2 : (y * 12 + (13 - 1) + 0) % 12 = 0 := by omega
        rw [h1, h2]
        try omega
      · apply List.map_congr_left; intro i _
        simp only [Function.comp]
        congr 1; omega
    · have hlt : ¬ ((12 : Int) < (m : Int)) := by omega
      simp only [hlt, if_false]
      have e3 : (m : Int) + 1 = ((m + 1 : Nat) : Int) := by omega
      rw [e3, ih y (m + 1) (by omega)]
      congr 1
      · unfold monthOfIndex
        have h1 : (y * 12 + (m - 1) + 0) / 12 = y := by omega
        have h2 : (y * 12 + (m - 1) + 0) % 12 = m - 1 := by omega
        rw [h1, h2]
        try omega
      · apply List.map_congr_left; intro i _
        simp only [Function.comp]
        congr 1; omega

/-- `YYYYMM` as six digits. -/
def monthText (y m : Nat) : GoStr := zeroPad 4 y ++ zeroPad 2 m

theorem monthText_facts (y m : Nat) (hy : y ≤ 9999) (hm : m ≤ 99) :
    (monthText y m).length = 6 ∧ (∀ b ∈ monthText y m, isDigit b = true) ∧
    digitsVal (monthText y m) 0 = y * 100 + m ∧
    (monthText y m).take 4 = zeroPad 4 y ∧ (monthText y m).drop 4 = zeroPad 2 m := by
  have h4 := zeroPad_length 4 y (by rw [pow4]; omega) (by omega)
  have h2 := zeroPad_length 2 m (by rw [pow2]; omega) (by omega)
  refine ⟨by simp [monthText, h4, h2], ?_, ?_, ?_, ?_⟩
  · intro b hb
    rcases List.mem_append.mp hb with h | h
    · exact zeroPad_digits 4 y b h
    · exact zeroPad_digits 2 m b h
  · exact field_value _ _ y m (zeroPad_val 4 y) (zeroPad_val 2 m) h2
  · have := List.take_left (l₁ := zeroPad 4 y) (l₂ := zeroPad 2 m); rw [h4] at this; exact this
  · have := List.drop_left (l₁ := zeroPad 4 y) (l₂ := zeroPad 2 m); rw [h4] at this; exact this

/-- A single month `YYYYMM` denotes that month. -/
theorem parse_month_single (y m : Nat) (hy : y ≤ 9999) (hm : m ≤ 99) :
    ParseMonthRange (monthText y m) = .ok [(y : Int) * 100 + m] := by
  obtain ⟨hl, hd, hv, _, _⟩ := monthText_facts y m hy hm
  unfold ParseMonthRange
  rw [splitFirst_single _ (digit_ne_sep _ hd)]
  simp only
  rw [if_neg (by rw [hl]; simp)]
  have hne : monthText y m ≠ [] := by intro e; rw [e] at hl; simp at hl
  rw [parseInt64_digits _ hne (by rw [List.all_eq_true]; exact hd) (by rw [hv]; omega), hv]
  simp

/-- **`parse_ranges`, months.**  `YYYYMM-ZZZZNN` with real months, written in either
    order, denotes every month from the earlier to the later one — across any
    number of year ends — ascending, by period number. -/
theorem parse_month_span (ya ma yb mb : Nat) (hya : ya ≤ 9999) (hyb : yb ≤ 9999)
    (hma : 1 ≤ ma ∧ ma ≤ 12) (hmb : 1 ≤ mb ∧ mb ≤ 12) :
    ParseMonthRange (monthText ya ma ++ 45 :: monthText yb mb) =
      .ok ((List.range (max (monthIndex ya ma) (monthIndex yb mb) - min (monthIndex ya ma) (monthIndex yb mb) + 1)).map
        fun i => monthOfIndex (min (monthIndex ya ma) (monthIndex yb mb) + i)) := by
  obtain ⟨hla, hda, hva, hta, hra⟩ := monthText_facts ya ma hya (by omega)
  obtain ⟨hlb, hdb, hvb, htb, hrb⟩ := monthText_facts yb mb hyb (by omega)
  unfold ParseMonthRange
  rw [splitFirst_pair _ _ (digit_ne_sep _ hda)]
  simp only
  rw [if_neg (by rw [hla, hlb]; simp)]
  have hlt := strLt_digits (monthText yb mb) (monthText ya ma) (by rw [hla, hlb]) hdb hda
  rw [hva, hvb] at hlt
  rw [hlt]
  unfold monthIndex
  by_cases h : yb * 100 + mb < ya * 100 + ma
  · simp only [h, decide_true, if_true]
    rw [htb, hrb, hta, hra, atoi_zeroPad 4 yb (by omega), atoi_zeroPad 2 mb (by omega),
      atoi_zeroPad 4 ya (by omega), atoi_zeroPad 2 ma (by omega)]
    simp only
    have e1 : (((ya : Int) - yb) * 12 + ma - mb + 1).toNat =
        max (ya * 12 + (ma - 1)) (yb * 12 + (mb - 1)) - min (ya * 12 + (ma - 1)) (yb * 12 + (mb - 1)) + 1 := by
      omega
    rw [e1, monthLoop_eq _ yb mb (by omega)]
    congr 1
    apply List.map_congr_left; intro i _
    congr 1; omega
  · simp only [h, decide_false, Bool.false_eq_true, if_false]
    rw [hta, hra, htb, hrb, atoi_zeroPad 4 ya (by omega), atoi_zeroPad 2 ma (by omega),
      atoi_zeroPad 4 yb (by omega), atoi_zeroPad 2 mb (by omega)]
    simp only
    have e1 : (((yb : Int) - ya) * 12 + mb - ma + 1).toNat =
        max (ya * 12 + (ma - 1)) (yb * 12 + (mb - 1)) - min (ya * 12 + (ma - 1)) (yb * 12 + (mb - 1)) + 1 := by
      omega
    rw [e1, monthLoop_eq _ ya ma (by omega)]
    congr 1
    apply List.map_congr_left; intro i _
    congr 1; omega

/-- 201511-201702 crosses two year ends: sixteen months. -/
example : (List.range (monthIndex 2017 2 - monthIndex 2015 11 + 1)).map (fun i => monthOfIndex (monthIndex 2015 11 + i)) =
    [201511, 201512, 201601, 201602, 201603, 201604, 201605, 201606, 201607, 201608, 201609, 201610,
     201611, 201612, 201701, 201702] := by decide

/-! ## date_range parsers: days -/

theorem daysIn_bounds (y : Int) (m : Nat) : 28 ≤ daysIn y m ∧ daysIn y m ≤ 31 := by
  unfold daysIn; split
  · split <;> omega
  · split <;> omega

theorem nextDay_valid (c : Civil) (h : c.valid = true) : (nextDay c).valid = true := by
  unfold Civil.valid at h ⊢
  simp only [Bool.and_eq_true, decide_eq_true_eq] at h ⊢
  unfold nextDay
  have hb := daysIn_bounds c.year (c.month + 1)
  have hb1 := daysIn_bounds (c.year + 1) 1
  split
  · simp only; omega
  · split
    · simp only; omega
    · simp only; omega

theorem nextDay_year (c : Civil) : c.year ≤ (nextDay c).year ∧ (nextDay c).year ≤ c.year + 1 := by
  unfold nextDay; split
  · simp only; omega
  · split <;> (simp only; omega)

theorem dayList_props (c : Civil) (h : c.valid = true) (n : Nat) :
    ∀ x ∈ dayList c n, x.valid = true ∧ c.year ≤ x.year ∧ x.year ≤ c.year + n := by
  induction n generalizing c with
  | zero => intro x hx; simp [dayList] at hx
  | succ n ih =>
    intro x hx
    simp only [dayList, List.mem_cons] at hx
    rcases hx with hx | hx
    · subst hx; exact ⟨h, by omega, by omega⟩
    · have := ih (nextDay c) (nextDay_valid c h) x hx
      have hy := nextDay_year c
      exact ⟨this.1, by omega, by omega⟩

/-- `YYYYMMDD` as a number. -/
def compactNum (c : Civil) : Int := c.year * 10000 + c.month * 100 + c.day

theorem valid_fields (c : Civil) (h : c.valid = true) : 1 ≤ c.month ∧ c.month ≤ 12 ∧ 1 ≤ c.day ∧ c.day ≤ 31 := by
  unfold Civil.valid at h
  simp only [Bool.and_eq_true, decide_eq_true_eq] at h
  have := daysIn_bounds c.year c.month
  omega

theorem fmtDateCompact_eq (c : Civil) (hy : 0 ≤ c.year) :
    fmtDateCompact c = zeroPad 4 c.year.toNat ++ zeroPad 2 c.month ++ zeroPad 2 c.day := by
  unfold fmtDateCompact; rw [if_neg (by omega)]

/-- Atoi of a compact date. -/
theorem compact_value (c : Civil) (hy : 0 ≤ c.year ∧ c.year < 10 ^ 12) (hm : c.month ≤ 99) (hd : c.day ≤ 99) :
    parseInt64 (fmtDateCompact c) = some (compactNum c) := by
  rw [fmtDateCompact_eq c hy.1]
  have h2 := zeroPad_length 2 c.month (by rw [pow2]; omega) (by omega)
  have h2' := zeroPad_length 2 c.day (by rw [pow2]; omega) (by omega)
  have hv : digitsVal (zeroPad 4 c.year.toNat ++ zeroPad 2 c.month ++ zeroPad 2 c.day) 0 =
      (c.year.toNat * 100 + c.month) * 100 + c.day := by
    rw [digitsVal_app, digitsVal_acc, h2', field_value _ _ _ _ (zeroPad_val 4 _) (zeroPad_val 2 _) h2,
      zeroPad_val]
  have hne : zeroPad 4 c.year.toNat ++ zeroPad 2 c.month ++ zeroPad 2 c.day ≠ [] := by
    intro e; have := congrArg List.length e; simp [h2, h2'] at this
  have hdig : (zeroPad 4 c.year.toNat ++ zeroPad 2 c.month ++ zeroPad 2 c.day).all isDigit = true :=
    all_digits_append _ _ (by
      have := all_digits_append _ _ (zeroPad_digits 4 c.year.toNat) (zeroPad_digits 2 c.month)
      rw [List.all_eq_true] at this; exact this) (zeroPad_digits 2 c.day)
  have hbound : c.year.toNat < 10 ^ 12 := by omega
  rw [parseInt64_digits _ hne hdig (by rw [hv]; omega), hv]
  unfold compactNum
  congr 1
  have : ((c.year.toNat : Nat) : Int) = c.year := by omega
  simp only [Int.natCast_add, Int.natCast_mul, this]
  omega

/-- `time.Parse("20060102", …)` reads a formatted date back. -/
theorem timeParse_compact (c : Civil) (hv : c.valid = true) (hy : 0 ≤ c.year ∧ c.year ≤ 9999) :
    timeParseCompact (fmtDateCompact c) = some c := by
  obtain ⟨hm1, hm2, hd1, hd2⟩ := valid_fields c hv
  rw [fmtDateCompact_eq c hy.1]
  have e4 := zeroPad_val 4 c.year.toNat
  have e2 := zeroPad_val 2 c.month
  have e2' := zeroPad_val 2 c.day
  have d4 := zeroPad_digits 4 c.year.toNat
  have d2 := zeroPad_digits 2 c.month
  have d2' := zeroPad_digits 2 c.day
  obtain ⟨a, b, c', e, hY⟩ := len4 _ (zeroPad_length 4 c.year.toNat (by rw [pow4]; omega) (by omega))
  obtain ⟨m1, m2, hM⟩ := len2 _ (zeroPad_length 2 c.month (by rw [pow2]; omega) (by omega))
  obtain ⟨d1, d2x, hD⟩ := len2 _ (zeroPad_length 2 c.day (by rw [pow2]; omega) (by omega))
  rw [hY] at e4 d4 ⊢
  rw [hM] at e2 d2 ⊢
  rw [hD] at e2' d2' ⊢
  unfold timeParseCompact
  have hall : ([a, b, c', e] ++ [m1, m2] ++ [d1, d2x]).all isDigit = true := by
    rw [List.all_eq_true]; intro x hx
    simp only [List.mem_append] at hx
    rcases hx with (hx | hx) | hx
    · exact d4 x hx
    · exact d2 x hx
    · exact d2' x hx
  rw [if_pos ⟨by simp, hall⟩]
  simp only [List.cons_append, List.nil_append, List.take, List.drop]
  rw [e4, e2, e2']
  have hc : ({ year := ((c.year.toNat : Nat) : Int), month := c.month, day := c.day } : Civil) = c := by
    have : ((c.year.toNat : Nat) : Int) = c.year := by omega
    rw [this]
  rw [hc, if_pos hv]

theorem foldr_all_ok (l : List Civil) (h : ∀ c ∈ l, parseInt64 (fmtDateCompact c) = some (compactNum c)) :
    l.foldr (fun c acc => match parseInt64 (fmtDateCompact c), acc with
      | some n, .ok l => .ok (n :: l)
      | none, .ok _ => .err .config
      | _, e => e) (Out.ok []) = .ok (l.map compactNum) := by
  induction l with
  | nil => rfl
  | cons c cs ih =>
    simp only [List.foldr_cons, List.map_cons]
    rw [ih (fun x hx => h x (by simp [hx])), h c (by simp)]

/-- A single day `YYYYMMDD` denotes that day. -/
theorem parse_day_single (c : Civil) (hv : c.valid = true) (hy : 0 ≤ c.year ∧ c.year ≤ 9999) :
    ParseDayRange (fmtDateCompact c) = .ok [compactNum c] := by
  obtain ⟨hm1, hm2, hd1, hd2⟩ := valid_fields c hv
  have hval := compact_value c ⟨hy.1, by omega⟩ (by omega) (by omega)
  have hl : (fmtDateCompact c).length = 8 := by
    rw [fmtDateCompact_eq c hy.1]
    simp [zeroPad_length 4 c.year.toNat (by rw [pow4]; omega) (by omega),
      zeroPad_length 2 c.month (by rw [pow2]; omega) (by omega),
      zeroPad_length 2 c.day (by rw [pow2]; omega) (by omega)]
  have hd : ∀ b ∈ fmtDateCompact c, isDigit b = true := by
    rw [fmtDateCompact_eq c hy.1]; intro b hb
    simp only [List.mem_append] at hb
    rcases hb with (hb | hb) | hb
    · exact zeroPad_digits _ _ b hb
    · exact zeroPad_digits _ _ b hb
    · exact zeroPad_digits _ _ b hb
  unfold ParseDayRange
  rw [splitFirst_single _ (digit_ne_sep _ hd)]
  simp only
  rw [if_neg (by rw [hl]; simp), hval]


theorem compact_facts (c : Civil) (hv : c.valid = true) (hy : 0 ≤ c.year ∧ c.year ≤ 9999) :
    (fmtDateCompact c).length = 8 ∧ (∀ b ∈ fmtDateCompact c, isDigit b = true) ∧
    ((digitsVal (fmtDateCompact c) 0 : Nat) : Int) = compactNum c := by
  obtain ⟨hm1, hm2, hd1, hd2⟩ := valid_fields c hv
  have hval := compact_value c ⟨hy.1, by omega⟩ (by omega) (by omega)
  have hl : (fmtDateCompact c).length = 8 := by
    rw [fmtDateCompact_eq c hy.1]
    simp [zeroPad_length 4 c.year.toNat (by rw [pow4]; omega) (by omega),
      zeroPad_length 2 c.month (by rw [pow2]; omega) (by omega),
      zeroPad_length 2 c.day (by rw [pow2]; omega) (by omega)]
  have hd : ∀ b ∈ fmtDateCompact c, isDigit b = true := by
    rw [fmtDateCompact_eq c hy.1]; intro b hb
    simp only [List.mem_append] at hb
    rcases hb with (hb | hb) | hb
    · exact zeroPad_digits _ _ b hb
    · exact zeroPad_digits _ _ b hb
    · exact zeroPad_digits _ _ b hb
  refine ⟨hl, hd, ?_⟩
  have hne : fmtDateCompact c ≠ [] := by intro e; rw [e] at hl; simp at hl
  have hlt : digitsVal (fmtDateCompact c) 0 < 10 ^ 8 := by
    have := digitsVal_lt _ hd; rw [hl] at this; exact this
  have := parseInt64_digits _ hne (by rw [List.all_eq_true]; exact hd) (by omega)
  rw [hval] at this
  exact (Option.some.inj this).symm

/-- **`parse_ranges`, days.**  `YYYYMMDD-ZZZZNNEE` with real dates, written in
    either order, denotes the earlier date and the days that follow it one by
    one (`nextDay`: month ends, leap days and year ends included), as many as
    there are days between the two dates — but at most 106752, because
    `end.Sub(begin)` saturates at the largest `time.Duration` (`daysCount`). -/
theorem parse_day_span (a b : Civil) (hva : a.valid = true) (hvb : b.valid = true)
    (hya : 0 ≤ a.year ∧ a.year ≤ 9999) (hyb : 0 ≤ b.year ∧ b.year ≤ 9999) :
    ParseDayRange (fmtDateCompact a ++ 45 :: fmtDateCompact b) =
      .ok ((dayList (if compactNum b < compactNum a then b else a)
        (daysCount (if compactNum b < compactNum a then b else a)
                   (if compactNum b < compactNum a then a else b) + 1)).map compactNum) := by
  obtain ⟨hla, hda, hna⟩ := compact_facts a hva hya
  obtain ⟨hlb, hdb, hnb⟩ := compact_facts b hvb hyb
  unfold ParseDayRange
  rw [splitFirst_pair _ _ (digit_ne_sep _ hda)]
  simp only
  rw [if_neg (by rw [hla, hlb]; simp)]
  have hlt := strLt_digits (fmtDateCompact b) (fmtDateCompact a) (by rw [hla, hlb]) hdb hda
  have hiff : (digitsVal (fmtDateCompact b) 0 < digitsVal (fmtDateCompact a) 0) ↔ compactNum b < compactNum a := by
    rw [← hna, ← hnb]; omega
  rw [hlt]
  have hfold : ∀ lo : Civil, lo.valid = true → lo.year ≤ 9999 → 0 ≤ lo.year → ∀ n : Nat, n ≤ 106752 →
      ∀ c ∈ dayList lo n, parseInt64 (fmtDateCompact c) = some (compactNum c) := by
    intro lo hlo hy9 hy0 n hn c hc
    obtain ⟨hcv, hc1, hc2⟩ := dayList_props lo hlo n c hc
    obtain ⟨hm1, hm2, hd1, hd2⟩ := valid_fields c hcv
    exact compact_value c ⟨by omega, by omega⟩ (by omega) (by omega)
  by_cases h : compactNum b < compactNum a
  · have hd : decide (digitsVal (fmtDateCompact b) 0 < digitsVal (fmtDateCompact a) 0) = true := by
      simp [hiff.mpr h]
    simp only [hd, h, if_true]
    rw [timeParse_compact b hvb hyb, timeParse_compact a hva hya]
    simp only
    exact foldr_all_ok _ (hfold b hvb hyb.2 hyb.1 _ (by unfold daysCount; omega))
  · have hd : decide (digitsVal (fmtDateCompact b) 0 < digitsVal (fmtDateCompact a) 0) = false := by
      have : ¬ (digitsVal (fmtDateCompact b) 0 < digitsVal (fmtDateCompact a) 0) := fun hh => h (hiff.mp hh)
      simp [this]
    simp only [hd, h, Bool.false_eq_true, if_false]
    rw [timeParse_compact a hva hya, timeParse_compact b hvb hyb]
    simp only
    exact foldr_all_ok _ (hfold a hva hya.2 hya.1 _ (by unfold daysCount; omega))

/-! ## the calendar behind `ParseDayRange` -/

def yearLen (y : Int) : Nat := if isLeap y then 366 else 365

theorem isLeap_nat (y : Nat) :
    isLeap (y : Int) = (decide (y % 4 = 0) && (decide (y % 100 ≠ 0) || decide (y % 400 = 0))) := by
  unfold isLeap
  have e1 : ((y : Int) % 4 = 0) ↔ (y % 4 = 0) := by omega
  have e2 : ((y : Int) % 100 ≠ 0) ↔ (y % 100 ≠ 0) := by omega
  have e3 : ((y : Int) % 400 = 0) ↔ (y % 400 = 0) := by omega
  simp only [e1, e2, e3]

theorem daysBeforeYear_succ (y : Nat) : daysBeforeYear (y + 1) = daysBeforeYear y + yearLen (y : Int) := by
  have a4 : (y + 1 + 3) / 4 = (y + 3) / 4 + (if y % 4 = 0 then 1 else 0) := by split <;> omega
  have a100 : (y + 1 + 99) / 100 = (y + 99) / 100 + (if y % 100 = 0 then 1 else 0) := by split <;> omega
  have a400 : (y + 1 + 399) / 400 = (y + 399) / 400 + (if y % 400 = 0 then 1 else 0) := by split <;> omega
  have b1 : (y + 99) / 100 ≤ (y + 3) / 4 := by omega
  unfold daysBeforeYear yearLen
  rw [isLeap_nat, a4, a100, a400]
  by_cases h4 : y % 4 = 0
  · by_cases h100 : y % 100 = 0
    · by_cases h400 : y % 400 = 0
      · simp only [h4, h100, h400, if_true, decide_true, decide_false, ne_eq, not_true_eq_false,
          Bool.false_or, Bool.and_true, Bool.true_and]; omega
      · simp only [h4, h100, h400, if_true, if_false, decide_true, decide_false, ne_eq, not_true_eq_false,
          Bool.false_or, Bool.and_false, Bool.or_false, Bool.false_eq_true]; omega
    · have h400 : ¬ y % 400 = 0 := by omega
      simp only [h4, h100, h400, if_true, if_false, decide_true, decide_false, ne_eq, not_false_eq_true,
        Bool.true_or, Bool.and_true]; omega
  · have h100 : ¬ y % 100 = 0 := by omega
    have h400 : ¬ y % 400 = 0 := by omega
    simp only [h4, h100, h400, if_false, decide_false, Bool.false_and, Bool.false_eq_true]; omega

theorem daysBeforeYear_mono (y y' : Nat) (h : y ≤ y') : daysBeforeYear y ≤ daysBeforeYear y' := by
  induction y' with
  | zero => have : y = 0 := by omega
            subst this; omega
  | succ k ih =>
    by_cases hk : y = k + 1
    · subst hk; omega
    · have := ih (by omega)
      rw [daysBeforeYear_succ]; omega

theorem daysBeforeMonth_succ (y : Int) (m : Nat) (hm : 1 ≤ m) :
    daysBeforeMonth y (m + 1) = daysBeforeMonth y m + daysIn y m := by
  unfold daysBeforeMonth
  have e : m + 1 - 1 = (m - 1) + 1 := by omega
  rw [e, List.range_succ, List.map_append, List.foldl_append]
  simp only [List.map_cons, List.map_nil, List.foldl_cons, List.foldl_nil]
  have : m - 1 + 1 = m := by omega
  rw [this]

theorem daysBeforeMonth_one (y : Int) : daysBeforeMonth y 1 = 0 := rfl

theorem daysBeforeMonth_mono (y : Int) (m m' : Nat) (hm : 1 ≤ m) (h : m ≤ m') :
    daysBeforeMonth y m ≤ daysBeforeMonth y m' := by
  induction m' with
  | zero => omega
  | succ k ih =>
    by_cases hk : m = k + 1
    · subst hk; omega
    · have := ih (by omega)
      rw [daysBeforeMonth_succ y k (by omega)]; omega

theorem daysBeforeMonth_13 (y : Int) : daysBeforeMonth y 13 = yearLen y := by
  unfold daysBeforeMonth yearLen
  simp only [show (13 : Nat) - 1 = 12 from rfl, List.range_succ, List.range_zero, List.nil_append,
    List.cons_append, List.map_cons, List.map_nil, List.foldl_cons, List.foldl_nil, daysIn]
  cases isLeap y <;> simp

/-- **The day after has the next day number**, through month ends, leap days
    and year ends. -/
theorem dayNumber_nextDay (c : Civil) (hv : c.valid = true) (hy : 0 ≤ c.year) :
    dayNumber (nextDay c) = dayNumber c + 1 := by
  obtain ⟨hm1, hm2, hd1, _⟩ := valid_fields c hv
  have hdle : c.day ≤ daysIn c.year c.month := by
    unfold Civil.valid at hv; simp only [Bool.and_eq_true, decide_eq_true_eq] at hv; exact hv.2
  unfold nextDay
  split
  · unfold dayNumber; simp only; omega
  · rename_i hnl
    have hd : c.day = daysIn c.year c.month := by omega
    split
    · unfold dayNumber; simp only
      rw [daysBeforeMonth_succ c.year c.month hm1]; omega
    · have hm12 : c.month = 12 := by omega
      rw [hm12] at hd
      unfold dayNumber; simp only
      have e : (c.year + 1).toNat = c.year.toNat + 1 := by omega
      have hyc : ((c.year.toNat : Nat) : Int) = c.year := by omega
      have h13 := daysBeforeMonth_13 c.year
      have hs : daysBeforeMonth c.year 13 = daysBeforeMonth c.year 12 + daysIn c.year 12 :=
        daysBeforeMonth_succ c.year 12 (by omega)
      rw [e, daysBeforeYear_succ, hyc, daysBeforeMonth_one, hm12]
      omega

theorem dayNumber_lt_yearEnd (c : Civil) (hv : c.valid = true) :
    daysBeforeMonth c.year c.month + (c.day - 1) < yearLen c.year := by
  obtain ⟨hm1, hm2, hd1, _⟩ := valid_fields c hv
  have hdle : c.day ≤ daysIn c.year c.month := by
    unfold Civil.valid at hv; simp only [Bool.and_eq_true, decide_eq_true_eq] at hv; exact hv.2
  have h1 := daysBeforeMonth_succ c.year c.month hm1
  have h2 := daysBeforeMonth_mono c.year (c.month + 1) 13 (by omega) (by omega)
  rw [daysBeforeMonth_13] at h2
  omega

/-- Later dates have larger day numbers. -/
theorem dayNumber_lt (c c' : Civil) (hv : c.valid = true) (hv' : c'.valid = true) (hy : 0 ≤ c.year)
    (hlt : compactNum c < compactNum c') : dayNumber c < dayNumber c' := by
  obtain ⟨hm1, hm2, hd1, hd2⟩ := valid_fields c hv
  obtain ⟨hm1', hm2', hd1', hd2'⟩ := valid_fields c' hv'
  unfold compactNum at hlt
  have hdle : c.day ≤ daysIn c.year c.month := by
    unfold Civil.valid at hv; simp only [Bool.and_eq_true, decide_eq_true_eq] at hv; exact hv.2
  by_cases hyy : c.year < c'.year
  · have h1 := dayNumber_lt_yearEnd c hv
    have h2 := daysBeforeYear_succ c.year.toNat
    have hyc : ((c.year.toNat : Nat) : Int) = c.year := by omega
    rw [hyc] at h2
    have h3 := daysBeforeYear_mono (c.year.toNat + 1) c'.year.toNat (by omega)
    unfold dayNumber; omega
  · have hye : c.year = c'.year := by omega
    by_cases hmm : c.month < c'.month
    · have h1 := daysBeforeMonth_succ c.year c.month hm1
      have h2 := daysBeforeMonth_mono c.year (c.month + 1) c'.month (by omega) (by omega)
      unfold dayNumber; rw [← hye]; omega
    · have hme : c.month = c'.month := by omega
      unfold dayNumber; rw [← hye, ← hme]; omega

theorem civil_eq_of_compact (c c' : Civil) (hv : c.valid = true) (hv' : c'.valid = true)
    (h : compactNum c = compactNum c') : c = c' := by
  obtain ⟨hm1, hm2, hd1, hd2⟩ := valid_fields c hv
  obtain ⟨hm1', hm2', hd1', hd2'⟩ := valid_fields c' hv'
  unfold compactNum at h
  cases c; cases c'
  simp only at *
  have : True := trivial
  refine Civil.mk.injEq .. ▸ ⟨by omega, by omega, by omega⟩

/-- Day numbers identify dates. -/
theorem dayNumber_inj (c c' : Civil) (hv : c.valid = true) (hv' : c'.valid = true) (hy : 0 ≤ c.year)
    (hy' : 0 ≤ c'.year) (h : dayNumber c = dayNumber c') : c = c' := by
  apply civil_eq_of_compact c c' hv hv'
  apply Classical.byContradiction; intro hne
  by_cases hlt : compactNum c < compactNum c'
  · have := dayNumber_lt c c' hv hv' hy hlt; omega
  · have := dayNumber_lt c' c hv' hv hy' (by omega); omega


theorem compact_lt_iff (c c' : Civil) (hv : c.valid = true) (hv' : c'.valid = true) (hy : 0 ≤ c.year)
    (hy' : 0 ≤ c'.year) : compactNum c < compactNum c' ↔ dayNumber c < dayNumber c' := by
  constructor
  · exact dayNumber_lt c c' hv hv' hy
  · intro h
    apply Classical.byContradiction; intro hn
    by_cases he : compactNum c = compactNum c'
    · have := civil_eq_of_compact c c' hv hv' he; subst this; omega
    · have := dayNumber_lt c' c hv' hv hy' (by omega); omega

/-- The date `k` days after `c`. -/
def daysLater (c : Civil) : Nat → Civil
  | 0 => c
  | k + 1 => daysLater (nextDay c) k

theorem iterate_props (c : Civil) (hv : c.valid = true) (hy : 0 ≤ c.year) (k : Nat) :
    (daysLater c k).valid = true ∧ 0 ≤ (daysLater c k).year ∧
    dayNumber (daysLater c k) = dayNumber c + k := by
  induction k generalizing c with
  | zero => exact ⟨hv, hy, rfl⟩
  | succ k ih =>
    have h1 := nextDay_valid c hv
    have h2 := nextDay_year c
    have h3 := dayNumber_nextDay c hv hy
    obtain ⟨a, b, d⟩ := ih (nextDay c) h1 (by omega)
    exact ⟨a, b, by show dayNumber (daysLater (nextDay c) k) = _; rw [d, h3]; omega⟩

theorem mem_dayList (c : Civil) (n : Nat) (x : Civil) :
    x ∈ dayList c n ↔ ∃ k, k < n ∧ x = daysLater c k := by
  induction n generalizing c with
  | zero => simp [dayList]
  | succ n ih =>
    simp only [dayList, List.mem_cons, ih]
    constructor
    · rintro (h | ⟨k, hk, hx⟩)
      · exact ⟨0, by omega, h⟩
      · exact ⟨k + 1, by omega, hx⟩
    · rintro ⟨k, hk, hx⟩
      cases k with
      | zero => exact Or.inl hx
      | succ k => exact Or.inr ⟨k, by omega, hx⟩

/-- **`parse_ranges`, days: the list is exactly the span.**  For real dates
    `lo ≤ hi` (years 0…9999 or any non-negative year) the list
    `dayList lo (dayNumber hi - dayNumber lo + 1)` that `ParseDayRange` produces
    (`parse_day_span`; spans of at most 106751 days) contains a date iff it is a
    real date between `lo` and `hi`, and lists the dates in ascending order. -/
theorem day_span_exact (lo hi : Civil) (hvl : lo.valid = true) (hvh : hi.valid = true)
    (hyl : 0 ≤ lo.year) (hyh : 0 ≤ hi.year) (hle : compactNum lo ≤ compactNum hi) :
    (∀ x, x ∈ dayList lo (dayNumber hi - dayNumber lo + 1) ↔
      (x.valid = true ∧ 0 ≤ x.year ∧ compactNum lo ≤ compactNum x ∧ compactNum x ≤ compactNum hi)) ∧
    ((dayList lo (dayNumber hi - dayNumber lo + 1)).map compactNum).Pairwise (· < ·) := by
  have hdn : dayNumber lo ≤ dayNumber hi := by
    apply Classical.byContradiction; intro hn
    have := (compact_lt_iff hi lo hvh hvl hyh hyl).mpr (by omega); omega
  refine ⟨?_, ?_⟩
  · intro x
    rw [mem_dayList]
    constructor
    · rintro ⟨k, hk, hx⟩
      obtain ⟨a, b, d⟩ := iterate_props lo hvl hyl k
      rw [← hx] at a b d
      refine ⟨a, b, ?_, ?_⟩
      · apply Classical.byContradiction; intro hn
        have := (compact_lt_iff x lo a hvl b hyl).mp (by omega); omega
      · apply Classical.byContradiction; intro hn
        have := (compact_lt_iff hi x hvh a hyh b).mp (by omega); omega
    · rintro ⟨a, b, h1, h2⟩
      have d1 : dayNumber lo ≤ dayNumber x := by
        apply Classical.byContradiction; intro hn
        have := (compact_lt_iff x lo a hvl b hyl).mpr (by omega); omega
      have d2 : dayNumber x ≤ dayNumber hi := by
        apply Classical.byContradiction; intro hn
        have := (compact_lt_iff hi x hvh a hyh b).mpr (by omega); omega
      refine ⟨dayNumber x - dayNumber lo, by omega, ?_⟩
      obtain ⟨a', b', d'⟩ := iterate_props lo hvl hyl (dayNumber x - dayNumber lo)
      exact dayNumber_inj x _ a a' b b' (by rw [d']; omega)
  · generalize dayNumber hi - dayNumber lo + 1 = n
    clear hle hdn hvh hyh
    induction n generalizing lo with
    | zero => simp [dayList]
    | succ n ih =>
      simp only [dayList, List.map_cons]
      have h1 := nextDay_valid lo hvl
      have h2 := nextDay_year lo
      refine List.pairwise_cons.mpr ⟨?_, ih (nextDay lo) h1 (by omega)⟩
      intro p hp
      simp only [List.mem_map] at hp
      obtain ⟨x, hx, rfl⟩ := hp
      obtain ⟨k, _, hk⟩ := (mem_dayList _ _ _).mp hx
      obtain ⟨a, b, d⟩ := iterate_props (nextDay lo) h1 (by omega) k
      rw [← hk] at a b d
      have := dayNumber_nextDay lo hvl hyl
      exact (compact_lt_iff lo x hvl a hyl b).mpr (by omega)

/-- 2016-02-28 … 2016-03-02 crosses a leap day: four days. -/
example : (dayList ⟨2016, 2, 28⟩ (dayNumber ⟨2016, 3, 2⟩ - dayNumber ⟨2016, 2, 28⟩ + 1)).map compactNum =
    [20160228, 20160229, 20160301, 20160302] := by decide
/-- 2015-12-30 … 2016-01-02 crosses a year end. -/
example : (dayList ⟨2015, 12, 30⟩ (dayNumber ⟨2016, 1, 2⟩ - dayNumber ⟨2015, 12, 30⟩ + 1)).map compactNum =
    [20151230, 20151231, 20160101, 20160102] := by decide

/-- Beyond 106751 days `ParseDayRange` stops early (Duration saturation): 0001-01-01 … 0300-01-01
    is 109207 days apart, only the first 106752 are listed. Not exercised by the check's
    generator; recorded in the claims. -/
theorem day_range_truncation_witness :
    dayNumber ⟨300, 1, 1⟩ - dayNumber ⟨1, 1, 1⟩ = 109207 ∧ daysCount ⟨1, 1, 1⟩ ⟨300, 1, 1⟩ = 106751 := by
  decide

/-! ## several date_range entries -/

/-- The entries' period lists are non-empty and strictly ascending across entries,
    given the periods `acc` already collected. -/
def AscChain : List Int → List (List Int) → Prop
  | _, [] => True
  | acc, l :: rest =>
    l ≠ [] ∧ (∀ last first, acc.getLast? = some last → l.head? = some first → last < first) ∧
      AscChain (acc ++ l) rest

/-- Table → slice pairs of the entries, numbered from `k`. -/
def slicePairs : Nat → List (List Int) → TableToSlice
  | _, [] => []
  | k, l :: rest => l.map (fun v => (v, (k : Int))) ++ slicePairs (k + 1) rest

theorem sliceInfos_fold (parse : GoStr → Out (List Int)) (entries : List GoStr) (lists : List (List Int))
    (hp : entries.map parse = lists.map Out.ok) (k : Nat) (sub : List Int) (tts : TableToSlice)
    (hasc : AscChain sub lists) :
    ((List.range' k entries.length).zip entries).foldl (dateSliceStep parse) (.ok (sub, tts)) =
      .ok (sub ++ lists.flatten, tts ++ slicePairs k lists) := by
  induction entries generalizing lists k sub tts with
  | nil =>
    cases lists with
    | nil => simp [slicePairs]
    | cons l ls => simp at hp
  | cons e es ih =>
    cases lists with
    | nil => simp at hp
    | cons l ls =>
      simp only [List.map_cons, List.cons.injEq] at hp
      obtain ⟨hl, hne, hrest⟩ := hp.1, hasc.1, hasc.2
      simp only [List.length_cons, List.range'_succ, List.zip_cons_cons, List.foldl_cons]
      have hstep' : dateSliceStep parse (.ok (sub, tts)) (k, e) =
          Out.ok (sub ++ l, tts ++ l.map (fun v => (v, (k : Int)))) := by
        unfold dateSliceStep
        simp only
        rw [hl]
        simp only
        cases hg : sub.getLast? with
        | none => rfl
        | some last =>
          obtain ⟨first, hf⟩ : ∃ first, l.head? = some first := by
            cases l with
            | nil => exact absurd rfl hne
            | cons a _ => exact ⟨a, rfl⟩
          rw [hf]
          have := hrest.1 last first hg hf
          simp only
          rw [if_neg (by omega)]
      rw [hstep', ih ls hp.2 (k + 1) _ _ hrest.2]
      simp [slicePairs, List.append_assoc]

/-- **`parse_ranges`, whole configuration.**  When every `date_range` entry parses
    (to the lists of `parse_year/month/day_span`) and the entries are ascending,
    the rule's sub-table list is the concatenation of the entries' periods and
    every period belongs to the slice of its entry. -/
theorem slice_infos_concat (parse : GoStr → Out (List Int)) (entries : List GoStr) (lists : List (List Int))
    (hp : entries.map parse = lists.map Out.ok) (hasc : AscChain [] lists) :
    parseDateRuleSliceInfos parse entries entries.length = .ok (lists.flatten, slicePairs 0 lists) := by
  unfold parseDateRuleSliceInfos
  rw [if_neg (by simp), List.range_eq_range']
  have := sliceInfos_fold parse entries lists hp 0 [] [] hasc
  simpa using this

example : AscChain [] [[201511, 201512], [201601], [201602, 201603]] := by
  simp [AscChain]

end GaeaVerif.C09
