import GaeaVerif.Model.Packet
import GaeaVerif.Gen.Consts
/-
  C11 — MySQL packets arrive intact and correctly sequenced.

  Theorems about `Model/Packet.lean` (the tie to /repo/mysql/conn.go is the
  correspondence check `gvh run C11` and the extracted constant
  `Gen.maxPacketSize`).  Everything is proved for every frame limit `M`,
  every payload, every starting sequence id and every continuation of the byte
  stream, then instantiated at the constant of the source.
-/
namespace GaeaVerif.C11
open GaeaVerif GaeaVerif.Packet

/-- **The framing rule of the property.** `Train M s fs`: the frames `fs` are
    one packet for frame limit `M` whose first sequence id is `s`: every frame
    but the last carries exactly `M` bytes, the last fewer than `M` (possibly
    none), the length field of each frame is the length of its body, and the
    sequence ids go up by one per frame (mod 256). -/
inductive Train (M : Nat) : UInt8 → List Frame → Prop
  | last {s : UInt8} {body : Bytes} :
      body.length < M → Train M s [⟨body.length, s, body⟩]
  | full {s : UInt8} {body : Bytes} {fs : List Frame} :
      body.length = M → Train M (s + 1) fs → Train M s (⟨M, s, body⟩ :: fs)

/-! ### helper lemmas -/

theorem ofNat_succ (n : Nat) : UInt8.ofNat (n + 1) = UInt8.ofNat n + 1 := by
  simp [UInt8.ofNat_add]

theorem add_one_add (s : UInt8) (n : Nat) : s + 1 + UInt8.ofNat n = s + UInt8.ofNat (n + 1) := by
  rw [ofNat_succ, UInt8.add_assoc, UInt8.add_comm 1]

theorem leBytes_length (i n : Nat) : (leBytes i n).length = n := by
  induction n generalizing i with
  | zero => rfl
  | succ n ih => simp [leBytes, ih]

theorem leNat_leBytes (n i : Nat) (h : i < 256 ^ n) : leNat (leBytes i n) = i := by
  induction n generalizing i with
  | zero => simp at h; subst h; rfl
  | succ n ih =>
    simp only [leBytes, leNat]
    have h2 : i / 256 < 256 ^ n := by
      rw [Nat.div_lt_iff_lt_mul (by decide)]; rw [Nat.pow_succ] at h; omega
    rw [ih _ h2]
    have : (UInt8.ofNat (i % 256)).toNat = i % 256 := by
      simp [UInt8.toNat_ofNat']
    rw [this]; omega

theorem leNat_lt (bs : Bytes) : leNat bs < 256 ^ bs.length := by
  induction bs with
  | nil => simp [leNat]
  | cons b bs ih =>
    simp only [leNat, List.length_cons, Nat.pow_succ]
    have := b.toNat_lt
    omega

theorem leBytes_leNat (bs : Bytes) : leBytes (leNat bs) bs.length = bs := by
  induction bs with
  | nil => rfl
  | cons b bs ih =>
    simp only [leNat, List.length_cons, leBytes]
    have hb := b.toNat_lt
    have h1 : (b.toNat + 256 * leNat bs) % 256 = b.toNat := by omega
    have h2 : (b.toNat + 256 * leNat bs) / 256 = leNat bs := by omega
    rw [h1, h2, ih, UInt8.ofNat_toNat]

theorem header_length (l : Nat) (q : UInt8) : (header l q).length = 4 := by
  simp [header, leBytes_length]

theorem header_eq (l : Nat) (q : UInt8) :
    ∃ b0 b1 b2, header l q = [b0, b1, b2, q] ∧ leBytes l 3 = [b0, b1, b2] := by
  refine ⟨UInt8.ofNat (l % 256), UInt8.ofNat (l / 256 % 256), UInt8.ofNat (l / 256 / 256 % 256), ?_, ?_⟩ <;>
    simp [header, leBytes]

theorem encode_length (f : Frame) : f.encode.length = 4 + f.body.length := by
  simp [Frame.encode, header_length]

theorem wire_length_ge (fs : List Frame) : fs.length ≤ (wire fs).length := by
  induction fs with
  | nil => simp [wire]
  | cons f fs ih => simp only [wire, List.length_append, List.length_cons, encode_length]; omega

theorem wire_append (a b : List Frame) : wire (a ++ b) = wire a ++ wire b := by
  induction a with
  | nil => rfl
  | cons f fs ih => simp [wire, ih, List.append_assoc]

theorem bodies_append (a b : List Frame) : bodies (a ++ b) = bodies a ++ bodies b := by
  induction a with
  | nil => rfl
  | cons f fs ih => simp [bodies, ih, List.append_assoc]

theorem readFull_append (a b : Bytes) : readFull (a ++ b) a.length = some (a, b) := by
  simp [readFull]

theorem readFull_some {s d rest : Bytes} {n : Nat} (h : readFull s n = some (d, rest)) :
    s = d ++ rest ∧ d.length = n := by
  unfold readFull at h
  split at h
  · simp only [Option.some.injEq, Prod.mk.injEq] at h
    obtain ⟨rfl, rfl⟩ := h
    refine ⟨(List.take_append_drop n s).symm, ?_⟩
    simp [List.length_take]; omega
  · cases h

/-! ### what a `Train` says, frame by frame -/

theorem Train.ne_nil {M : Nat} {s : UInt8} {fs : List Frame} (h : Train M s fs) : fs ≠ [] := by
  cases h <;> simp

/-- Frame `i` of a packet: its id is `s + i`, its length field is the length
    of its body and at most `M`; it is full iff it is not the last. -/
theorem Train.frame {M : Nat} {s : UInt8} {fs : List Frame} (h : Train M s fs)
    (i : Nat) (hi : i < fs.length) :
    fs[i].seq = s + UInt8.ofNat i ∧ fs[i].len = fs[i].body.length ∧ fs[i].len ≤ M ∧
    (i + 1 < fs.length → fs[i].len = M) ∧ (i + 1 = fs.length → fs[i].len < M) := by
  induction h generalizing i with
  | last hb =>
    simp only [List.length_cons, List.length_nil] at hi
    have : i = 0 := by omega
    subst this
    simp; omega
  | @full s body fs hb ht ih =>
    cases i with
    | zero =>
      have := ht.ne_nil
      have : 0 < fs.length := List.length_pos_iff.mpr this
      simp [hb]; omega
    | succ j =>
      simp only [List.length_cons] at hi
      have := ih j (by omega)
      simp only [List.getElem_cons_succ, List.length_cons]
      rw [add_one_add] at this
      refine ⟨this.1, this.2.1, this.2.2.1, ?_, ?_⟩
      · intro h; exact this.2.2.2.1 (by omega)
      · intro h; exact this.2.2.2.2 (by omega)

/-- The payload length determines the number of frames:
    `len(payload) / M + 1`; the last frame carries `len(payload) % M` bytes. -/
theorem Train.count {M : Nat} {s : UInt8} {fs : List Frame} (h : Train M s fs) (hM : 0 < M) :
    fs.length = (bodies fs).length / M + 1 ∧
    ∃ l, fs.getLast? = some l ∧ l.body.length = (bodies fs).length % M := by
  induction h with
  | @last s body hb =>
    simp [bodies, Nat.div_eq_of_lt hb, Nat.mod_eq_of_lt hb]
  | @full s body fs hb ht ih =>
    obtain ⟨h1, l, h2, h3⟩ := ih
    have hne := ht.ne_nil
    refine ⟨?_, l, ?_, ?_⟩
    · simp only [List.length_cons, bodies, List.length_append, hb]
      rw [Nat.add_div_left _ hM]; omega
    · rw [List.getLast?_cons_of_ne_nil hne]; exact h2
    · simp only [bodies, List.length_append, hb]
      rw [Nat.add_mod_left]; exact h3

/-! ### Conn.WritePacket -/

theorem slice_ok (d : Bytes) (lo n : Nat) (h : lo + n ≤ d.length) :
    slice d lo (lo + n) = .ok ((d.drop lo).take n) := by
  unfold slice
  rw [if_pos ⟨by omega, h⟩]
  congr 2; omega

/-- Loop invariant of `WritePacket`. -/
theorem writeLoop_spec (M : Nat) (hM : 0 < M) (data : Bytes) :
    ∀ (fuel index length : Nat) (seq : UInt8), length < fuel → index + length ≤ data.length →
      ∃ fs, writeLoop M fuel data index length seq = .ok (fs, seq + UInt8.ofNat fs.length) ∧
        Train M seq fs ∧ bodies fs = (data.drop index).take length := by
  intro fuel
  induction fuel with
  | zero => intro _ _ _ h; omega
  | succ fuel ih =>
    intro index length seq hf hlen
    unfold writeLoop
    by_cases hgt : length > M
    · -- a full frame, more to come
      simp only [hgt, if_true]
      rw [slice_ok data index M (by omega)]
      have hne : ¬ (length - M = 0) := by omega
      simp only [hne, if_false]
      obtain ⟨fs, h1, h2, h3⟩ := ih (index + M) (length - M) (seq + 1) (by omega) (by omega)
      rw [h1]
      have hbl : ((data.drop index).take M).length = M := by
        simp [List.length_take]; omega
      refine ⟨_ :: fs, ?_, Train.full hbl h2, ?_⟩
      · simp only [List.length_cons]; rw [add_one_add]
      · simp only [bodies, h3]
        have : length = M + (length - M) := by omega
        rw [this, List.take_add, List.drop_drop]
        congr 3 <;> omega
    · simp only [hgt, if_false]
      rw [slice_ok data index length hlen]
      simp only [Nat.sub_self, if_true]
      have hbl : ((data.drop index).take length).length = length := by
        simp [List.length_take]; omega
      by_cases heq : length = M
      · -- exactly M bytes left: a full frame and the empty terminator
        simp only [heq, if_true]
        rw [heq] at hbl
        refine ⟨[⟨M, seq, (data.drop index).take M⟩, ⟨0, seq + 1, []⟩], ?_, ?_, ?_⟩
        · congr 2; rw [UInt8.add_assoc]; rfl
        · exact Train.full hbl (Train.last (body := []) hM)
        · simp [bodies]
      · simp only [heq, if_false]
        refine ⟨[⟨length, seq, (data.drop index).take length⟩], ?_, ?_, ?_⟩
        · simp
        · have := Train.last (M := M) (s := seq) (body := (data.drop index).take length) (by rw [hbl]; omega)
          rw [hbl] at this; exact this
        · simp [bodies]

/-- **C11 (writer).** For every frame limit `M > 0`, payload and starting
    sequence id, `WritePacket` succeeds (no panic, the loop terminates), emits
    a correctly framed packet (`Train`: frames of exactly `M` bytes closed by
    a shorter, possibly empty, frame; ids `seq, seq+1, …` mod 256) whose bodies
    concatenate to the payload, and leaves `c.sequence` one past the last id
    used. -/
theorem write_frames (M : Nat) (hM : 0 < M) (p : Bytes) (s : UInt8) :
    ∃ fs, writePacket M p s = .ok (fs, s + UInt8.ofNat fs.length) ∧
      Train M s fs ∧ bodies fs = p := by
  obtain ⟨fs, h1, h2, h3⟩ := writeLoop_spec M hM p (p.length + 1) 0 p.length s (by omega) (by omega)
  exact ⟨fs, h1, h2, by simpa using h3⟩

example : writePacket 3 [1, 2, 3, 4, 5, 6] 254 =
    .ok ([⟨3, 254, [1, 2, 3]⟩, ⟨3, 255, [4, 5, 6]⟩, ⟨0, 0, []⟩], 1) := by decide
example : writePacket 3 [1, 2, 3, 4] 7 = .ok ([⟨3, 7, [1, 2, 3]⟩, ⟨1, 8, [4]⟩], 9) := by decide

/-- The writer never panics and never runs out of fuel. -/
theorem writePacket_ok (M : Nat) (hM : 0 < M) (p : Bytes) (s : UInt8) :
    writePacket M p s ≠ .panic ∧ writePacket M p s ≠ .fail := by
  obtain ⟨fs, h, _⟩ := write_frames M hM p s
  rw [h]; exact ⟨by simp, by simp⟩

/-- Number of frames: `len/M + 1`; so a payload of exactly `k·M` bytes is
    written as `k` full frames and one empty frame, and the empty payload as
    one empty frame. -/
theorem write_frame_count (M : Nat) (hM : 0 < M) (p : Bytes) (s : UInt8) :
    ∃ fs s', writePacket M p s = .ok (fs, s') ∧ fs.length = p.length / M + 1 ∧
      ∃ l, fs.getLast? = some l ∧ l.body.length = p.length % M := by
  obtain ⟨fs, h1, h2, h3⟩ := write_frames M hM p s
  have := h2.count hM
  rw [h3] at this
  exact ⟨fs, _, h1, this⟩

theorem write_exact_multiple (M : Nat) (hM : 0 < M) (p : Bytes) (s : UInt8) (k : Nat)
    (hk : p.length = k * M) :
    ∃ fs s', writePacket M p s = .ok (fs, s') ∧ fs.length = k + 1 ∧
      ∃ l, fs.getLast? = some l ∧ l.body = [] := by
  obtain ⟨fs, s', h1, h2, l, h3, h4⟩ := write_frame_count M hM p s
  refine ⟨fs, s', h1, ?_, l, h3, ?_⟩
  · rw [h2, hk, Nat.mul_div_cancel _ hM]
  · rw [hk, Nat.mul_mod_left] at h4
    exact List.eq_nil_of_length_eq_zero h4

example : ∃ p : Bytes, p.length = 2 * 3 ∧ p ≠ [] := ⟨[1, 2, 3, 4, 5, 6], rfl, by simp⟩

/-! ### the readers -/

theorem readHeaderFrom_header (l : Nat) (hl : l < 2 ^ 24) (q s : UInt8) (tail : Bytes) :
    readHeaderFrom ⟨s, header l q ++ tail⟩ =
      if q ≠ s then .error .invalidSeq else .ok (l, ⟨s + 1, tail⟩) := by
  obtain ⟨b0, b1, b2, h1, h2⟩ := header_eq l q
  rw [h1]
  simp only [readHeaderFrom, List.cons_append, List.nil_append]
  rw [← h2, leNat_leBytes 3 l (by simpa using hl)]

/-- A well-formed frame with the expected id is read as one packet. -/
theorem readOnePacket_frame (body : Bytes) (hl : body.length < 2 ^ 24) (s : UInt8) (tail : Bytes) :
    readOnePacket ⟨s, (⟨body.length, s, body⟩ : Frame).encode ++ tail⟩ = .ok (body, ⟨s + 1, tail⟩) := by
  unfold readOnePacket
  simp only [Frame.encode, List.append_assoc]
  rw [readHeaderFrom_header _ hl]
  simp only [ne_eq, not_true_eq_false, if_false]
  by_cases h0 : body.length = 0
  · have : body = [] := List.eq_nil_of_length_eq_zero h0
    subst this; simp
  · simp only [h0, if_false, readFull_append]

theorem readMore_train (M : Nat) (hM : 0 < M) (hM24 : M < 2 ^ 24) {s : UInt8} {fs : List Frame}
    (h : Train M s fs) :
    ∀ (fuel : Nat) (data rest : Bytes), fs.length ≤ fuel →
      readMore M fuel data ⟨s, wire fs ++ rest⟩ =
        .ok (data ++ bodies fs, ⟨s + UInt8.ofNat fs.length, rest⟩) := by
  induction h with
  | @last s body hb =>
    intro fuel data rest hf
    cases fuel with
    | zero => simp at hf
    | succ fuel =>
      unfold readMore
      simp only [wire, List.append_nil]
      rw [readOnePacket_frame body (by omega)]
      by_cases h0 : body.length = 0
      · have : body = [] := List.eq_nil_of_length_eq_zero h0
        subst this; simp [bodies]
      · simp [h0, hb, bodies]
  | @full s body fs hb ht ih =>
    intro fuel data rest hf
    cases fuel with
    | zero => simp at hf
    | succ fuel =>
      unfold readMore
      simp only [wire, List.append_assoc]
      have := readOnePacket_frame body (by omega) s (wire fs ++ rest)
      rw [hb] at this
      rw [this]
      have h0 : ¬ body.length = 0 := by omega
      have h1 : ¬ body.length < M := by omega
      simp only [h0, h1, if_false]
      rw [ih fuel (data ++ body) rest (by simpa using hf)]
      simp [bodies, List.append_assoc, add_one_add]

/-- **C11 (reader, completeness).** For `0 < M < 2^24`: whatever follows on
    the stream, `ReadPacket` applied to the bytes of a correctly framed packet
    whose first id is the expected one returns exactly its payload, consumes
    exactly its bytes and advances the expected id by the number of frames. -/
theorem readPacket_train (M : Nat) (hM : 0 < M) (hM24 : M < 2 ^ 24) {s : UInt8} {fs : List Frame}
    (h : Train M s fs) (rest : Bytes) :
    readPacket M ⟨s, wire fs ++ rest⟩ = .ok (bodies fs, ⟨s + UInt8.ofNat fs.length, rest⟩) := by
  cases h with
  | @last _ body hb =>
    unfold readPacket
    simp only [wire, List.append_nil]
    rw [readOnePacket_frame body (by omega)]
    simp [hb, bodies]
  | @full _ body fs hb ht =>
    unfold readPacket
    simp only [wire, List.append_assoc]
    have := readOnePacket_frame body (by omega) s (wire fs ++ rest)
    rw [hb] at this
    rw [this]
    have h1 : ¬ body.length < M := by omega
    simp only [h1, if_false]
    rw [readMore_train M hM hM24 ht _ body rest
      (by have := wire_length_ge fs; simp only [List.length_append]; omega)]
    simp [bodies, add_one_add]

/-- **Both readers agree** on every stream (for `M > 0`): `ReadEphemeralPacket`
    (pooled buffer below `M`, concatenating path otherwise) returns what
    `ReadPacket` returns, so every reader theorem holds for both. -/
theorem readEphemeralPacket_eq (M : Nat) (hM : 0 < M) (c : Conn) :
    readEphemeralPacket M c = readPacket M c := by
  unfold readEphemeralPacket readPacket readOnePacket
  cases hh : readHeaderFrom c with
  | error e => rfl
  | ok r =>
    obtain ⟨length, c1⟩ := r
    simp only
    by_cases h0 : length = 0
    · simp [h0, hM]
    · simp only [h0, if_false]
      cases hr : readFull c1.input length with
      | none => by_cases hl : length < M <;> simp [hl]
      | some r =>
        obtain ⟨d, rest⟩ := r
        have hd := (readFull_some hr).2
        by_cases hl : length < M <;> simp [hl, hd]

/-- **C11 (round trip).** For every frame limit `0 < M < 2^24`, payload `p`
    (any length: empty, below, at, above and several times `M`), starting id
    `s` and continuation `rest` of the stream: what `WritePacket` puts on the
    wire is read back by `ReadPacket` and by `ReadEphemeralPacket` as exactly
    `p`, nothing of `rest` is consumed, and the reader's expected id ends where
    the writer's id ended. -/
theorem read_write (M : Nat) (hM : 0 < M) (hM24 : M < 2 ^ 24) (p : Bytes) (s : UInt8) (rest : Bytes) :
    ∃ fs s', writePacket M p s = .ok (fs, s') ∧
      readPacket M ⟨s, wire fs ++ rest⟩ = .ok (p, ⟨s', rest⟩) ∧
      readEphemeralPacket M ⟨s, wire fs ++ rest⟩ = .ok (p, ⟨s', rest⟩) := by
  obtain ⟨fs, h1, h2, h3⟩ := write_frames M hM p s
  have := readPacket_train M hM hM24 h2 rest
  rw [h3] at this
  exact ⟨fs, _, h1, this, by rw [readEphemeralPacket_eq M hM]; exact this⟩

example : readPacket 3 ⟨254, wire [⟨3, 254, [1, 2, 3]⟩, ⟨3, 255, [4, 5, 6]⟩, ⟨0, 0, []⟩] ++ [9]⟩ =
    .ok ([1, 2, 3, 4, 5, 6], ⟨1, [9]⟩) := by rfl

/-! ### the reader accepts nothing else -/

theorem readHeaderFrom_ok {c c1 : Conn} {l : Nat} (h : readHeaderFrom c = .ok (l, c1)) :
    c.input = header l c.seq ++ c1.input ∧ c1.seq = c.seq + 1 ∧ l < 2 ^ 24 := by
  unfold readHeaderFrom at h
  split at h
  · rename_i b0 b1 b2 b3 rest hin
    split at h
    · cases h
    · rename_i hseq
      simp only [ne_eq, Decidable.not_not] at hseq
      simp only [Except.ok.injEq, Prod.mk.injEq] at h
      obtain ⟨rfl, rfl⟩ := h
      refine ⟨?_, rfl, ?_⟩
      · rw [hin, header]
        have := leBytes_leNat [b0, b1, b2]
        simp only [List.length_cons, List.length_nil] at this
        rw [this, hseq]; rfl
      · have := leNat_lt [b0, b1, b2]
        simpa using this
  · cases h

theorem readOnePacket_ok {c c1 : Conn} {d : Bytes} (h : readOnePacket c = .ok (d, c1)) :
    c.input = (⟨d.length, c.seq, d⟩ : Frame).encode ++ c1.input ∧ c1.seq = c.seq + 1 ∧
      d.length < 2 ^ 24 := by
  unfold readOnePacket at h
  split at h
  · cases h
  · rename_i length c0 hh
    obtain ⟨h1, h2, h3⟩ := readHeaderFrom_ok hh
    split at h
    · rename_i h0
      simp only [Except.ok.injEq, Prod.mk.injEq] at h
      obtain ⟨rfl, rfl⟩ := h
      subst h0
      simp [Frame.encode, h1, h2]
    · split at h
      · cases h
      · rename_i d' rest hr
        simp only [Except.ok.injEq, Prod.mk.injEq] at h
        obtain ⟨rfl, rfl⟩ := h
        obtain ⟨e1, e2⟩ := readFull_some hr
        subst e2
        simp [Frame.encode, h1, h2, h3, e1]

theorem readMore_sound (M : Nat) (hM : 2 ^ 24 - 1 ≤ M) :
    ∀ (fuel : Nat) (data : Bytes) (c c' : Conn) (p : Bytes),
      readMore M fuel data c = .ok (p, c') →
      ∃ fs, Train M c.seq fs ∧ c.input = wire fs ++ c'.input ∧ p = data ++ bodies fs ∧
        c'.seq = c.seq + UInt8.ofNat fs.length := by
  intro fuel
  induction fuel with
  | zero => intro _ _ _ _ h; cases h
  | succ fuel ih =>
    intro data c c' p h
    unfold readMore at h
    split at h
    · cases h
    · rename_i next c1 h1
      obtain ⟨e1, e2, e3⟩ := readOnePacket_ok h1
      split at h
      · rename_i h0
        simp only [Except.ok.injEq, Prod.mk.injEq] at h
        obtain ⟨rfl, rfl⟩ := h
        have : next = [] := List.eq_nil_of_length_eq_zero h0
        subst this
        exact ⟨[⟨0, c.seq, []⟩], Train.last (body := []) (by omega), by simpa [wire] using e1,
          by simp [bodies], by simpa using e2⟩
      · split at h
        · rename_i hlt
          simp only [Except.ok.injEq, Prod.mk.injEq] at h
          obtain ⟨rfl, rfl⟩ := h
          exact ⟨[⟨next.length, c.seq, next⟩], Train.last hlt, by simpa [wire] using e1,
            by simp [bodies], by simpa using e2⟩
        · rename_i hge
          have hl : next.length = M := by omega
          obtain ⟨fs, t, i1, i2, i3⟩ := ih _ _ _ _ h
          refine ⟨⟨M, c.seq, next⟩ :: fs, Train.full hl (by rw [← e2]; exact t), ?_, ?_, ?_⟩
          · rw [e1, i1, hl]; simp [wire, List.append_assoc]
          · rw [i2]; simp [bodies, List.append_assoc]
          · rw [i3, e2]; simp only [List.length_cons]; rw [add_one_add]

/-- **C11 (reader, soundness).** With the frame limit at (or above) the
    largest value of the 3-byte length field: whenever `ReadPacket` delivers a
    payload, the bytes it consumed are exactly the wire form of one correctly
    framed packet starting at the expected id — every frame, the empty ones
    included, carries the next id (an unexpected id is never accepted), all
    frames are complete — the payload is the concatenation of the bodies in
    order, and the expected id advanced by the number of frames. -/
theorem readPacket_sound (M : Nat) (hM : 2 ^ 24 - 1 ≤ M) (c c' : Conn) (p : Bytes)
    (h : readPacket M c = .ok (p, c')) :
    ∃ fs, Train M c.seq fs ∧ c.input = wire fs ++ c'.input ∧ p = bodies fs ∧
      c'.seq = c.seq + UInt8.ofNat fs.length := by
  unfold readPacket at h
  split at h
  · cases h
  · rename_i data c1 h1
    obtain ⟨e1, e2, e3⟩ := readOnePacket_ok h1
    split at h
    · rename_i hlt
      simp only [Except.ok.injEq, Prod.mk.injEq] at h
      obtain ⟨rfl, rfl⟩ := h
      exact ⟨[⟨data.length, c.seq, data⟩], Train.last hlt, by simpa [wire] using e1,
        by simp [bodies], by simpa using e2⟩
    · rename_i hge
      have hl : data.length = M := by omega
      obtain ⟨fs, t, i1, i2, i3⟩ := readMore_sound M hM _ _ _ _ _ h
      refine ⟨⟨M, c.seq, data⟩ :: fs, Train.full hl (by rw [← e2]; exact t), ?_, ?_, ?_⟩
      · rw [e1, i1, hl]; simp [wire, List.append_assoc]
      · rw [i2]; simp [bodies]
      · rw [i3, e2]; simp only [List.length_cons]; rw [add_one_add]

/-- The same for `ReadEphemeralPacket`. -/
theorem readEphemeralPacket_sound (M : Nat) (hM : 2 ^ 24 - 1 ≤ M) (c c' : Conn) (p : Bytes)
    (h : readEphemeralPacket M c = .ok (p, c')) :
    ∃ fs, Train M c.seq fs ∧ c.input = wire fs ++ c'.input ∧ p = bodies fs ∧
      c'.seq = c.seq + UInt8.ofNat fs.length := by
  rw [readEphemeralPacket_eq M (by omega)] at h
  exact readPacket_sound M hM c c' p h

/-- The readers never run out of fuel (the `fuel` error is unreachable). -/
theorem readMore_fuel (M : Nat) : ∀ (fuel : Nat) (data : Bytes) (c : Conn),
    c.input.length < fuel → readMore M fuel data c ≠ .error .fuel := by
  intro fuel
  induction fuel with
  | zero => intro _ _ h; omega
  | succ fuel ih =>
    intro data c hf
    unfold readMore
    split
    · rename_i e h1
      intro h
      simp only [Except.error.injEq] at h
      subst h
      unfold readOnePacket at h1
      split at h1
      · rename_i e' h2
        simp only [Except.error.injEq] at h1
        subst h1
        unfold readHeaderFrom at h2
        split at h2
        · split at h2 <;> cases h2
        · cases h2
      · split at h1
        · cases h1
        · split at h1 <;> cases h1
    · rename_i next c1 h1
      obtain ⟨e1, _, _⟩ := readOnePacket_ok h1
      split
      · simp
      · split
        · simp
        · apply ih
          have : c.input.length = 4 + next.length + c1.input.length := by
            rw [e1]; simp [encode_length]
          omega

theorem readPacket_fuel (M : Nat) (c : Conn) : readPacket M c ≠ .error .fuel := by
  unfold readPacket
  split
  · rename_i e h1
    intro h
    simp only [Except.error.injEq] at h
    subst h
    unfold readOnePacket at h1
    split at h1
    · rename_i e' h2
      simp only [Except.error.injEq] at h1
      subst h1
      unfold readHeaderFrom at h2
      split at h2
      · split at h2 <;> cases h2
      · cases h2
    · split at h1
      · cases h1
      · split at h1 <;> cases h1
  · split
    · simp
    · exact readMore_fuel M _ _ _ (by omega)

/-! ### unexpected sequence ids are rejected -/

/-- **C11 (rejection, one frame).** A frame header whose sequence byte is not
    the expected id is rejected with `invalid sequence`, whatever its length
    field — zero included (the pinned code skipped the check for empty frames;
    repaired by the `fix:` commit recorded in known/C11.json). -/
theorem readHeaderFrom_rejects (s b0 b1 b2 b3 : UInt8) (rest : Bytes) (h : b3 ≠ s) :
    readHeaderFrom ⟨s, b0 :: b1 :: b2 :: b3 :: rest⟩ = .error .invalidSeq := by
  simp [readHeaderFrom, h]

example : readHeaderFrom ⟨5, [0, 0, 0, 9, 1, 2]⟩ = .error .invalidSeq := by rfl

/-- `pre` is a run of full frames with ids `s, s+1, …`. -/
inductive FullRun (M : Nat) : UInt8 → List Frame → Prop
  | nil {s : UInt8} : FullRun M s []
  | cons {s : UInt8} {body : Bytes} {fs : List Frame} :
      body.length = M → FullRun M (s + 1) fs → FullRun M s (⟨M, s, body⟩ :: fs)

theorem readMore_rejects (M : Nat) (hM : 0 < M) (hM24 : M < 2 ^ 24) {s : UInt8} {pre : List Frame}
    (h : FullRun M s pre) (f : Frame) (hf : f.seq ≠ s + UInt8.ofNat pre.length) (rest : Bytes) :
    ∀ (fuel : Nat) (data : Bytes), pre.length < fuel →
      readMore M fuel data ⟨s, wire pre ++ (f.encode ++ rest)⟩ = .error .invalidSeq := by
  induction h with
  | @nil s =>
    intro fuel data hfu
    cases fuel with
    | zero => omega
    | succ fuel =>
      obtain ⟨b0, b1, b2, h1, _⟩ := header_eq f.len f.seq
      have hne : f.seq ≠ s := by simpa using hf
      simp [readMore, readOnePacket, wire, Frame.encode, h1, readHeaderFrom, hne]
  | @cons s body fs hb ht ih =>
    intro fuel data hfu
    cases fuel with
    | zero => omega
    | succ fuel =>
      unfold readMore
      simp only [wire, List.append_assoc]
      have := readOnePacket_frame body (by omega) s (wire fs ++ (f.encode ++ rest))
      rw [hb] at this
      rw [this]
      have h0 : ¬ body.length = 0 := by omega
      have h1 : ¬ body.length < M := by omega
      simp only [h0, h1, if_false]
      apply ih
      · simp only [List.length_cons] at hf
        rw [add_one_add]; exact hf
      · simp only [List.length_cons] at hfu; omega

/-- **C11 (rejection, anywhere in a packet).** If the first frame, or a
    continuation frame after any number of correctly numbered full frames,
    carries an unexpected id — whatever its length, empty terminator included
    — both readers return the `invalid sequence` error (no payload). -/
theorem read_rejects (M : Nat) (hM : 0 < M) (hM24 : M < 2 ^ 24) {s : UInt8} {pre : List Frame}
    (h : FullRun M s pre) (f : Frame) (hf : f.seq ≠ s + UInt8.ofNat pre.length) (rest : Bytes) :
    readPacket M ⟨s, wire pre ++ (f.encode ++ rest)⟩ = .error .invalidSeq ∧
    readEphemeralPacket M ⟨s, wire pre ++ (f.encode ++ rest)⟩ = .error .invalidSeq := by
  have key : readPacket M ⟨s, wire pre ++ (f.encode ++ rest)⟩ = .error .invalidSeq := by
    cases h with
    | nil =>
      obtain ⟨b0, b1, b2, h1, _⟩ := header_eq f.len f.seq
      have hne : f.seq ≠ s := by simpa using hf
      simp [readPacket, readOnePacket, wire, Frame.encode, h1, readHeaderFrom, hne]
    | @cons _ body fs hb ht =>
      unfold readPacket
      simp only [wire, List.append_assoc]
      have := readOnePacket_frame body (by omega) s (wire fs ++ (f.encode ++ rest))
      rw [hb] at this
      rw [this]
      have h1 : ¬ body.length < M := by omega
      simp only [h1, if_false]
      apply readMore_rejects M hM hM24 ht f
      · simp only [List.length_cons] at hf
        rw [add_one_add]; exact hf
      · have := wire_length_ge fs
        simp only [List.length_append]; omega
  exact ⟨key, by rw [readEphemeralPacket_eq M hM]; exact key⟩

example : FullRun 3 254 [⟨3, 254, [1, 2, 3]⟩, ⟨3, 255, [4, 5, 6]⟩] :=
  FullRun.cons rfl (FullRun.cons rfl FullRun.nil)
example : readPacket 3 ⟨254, wire [⟨3, 254, [1, 2, 3]⟩, ⟨3, 255, [4, 5, 6]⟩, ⟨0, 7, []⟩]⟩ =
    .error .invalidSeq := by rfl

/-! ### at the constant of the source -/

/-- The frame limit of mysql/conn.go (regenerated from the source on every
    run) is the largest value of the 3-byte length field — the only value for
    which both `read_write` (needs `M < 2^24`) and `readPacket_sound` (needs
    `2^24-1 ≤ M`) hold. -/
theorem frame_limit_is_protocol_limit : Gen.maxPacketSize = 2 ^ 24 - 1 := by decide

/-- **C11 at `MaxPacketSize`.** Any payload written as one MySQL packet is
    read back byte-for-byte by both readers, in frames of at most
    `MaxPacketSize` bytes with consecutive ids, `len/MaxPacketSize + 1` of
    them (so an exact multiple ends with an empty frame). -/
theorem C11_write_read (p : Bytes) (s : UInt8) (rest : Bytes) :
    ∃ fs s', writePacket Gen.maxPacketSize p s = .ok (fs, s') ∧
      Train Gen.maxPacketSize s fs ∧ bodies fs = p ∧ s' = s + UInt8.ofNat fs.length ∧
      fs.length = p.length / Gen.maxPacketSize + 1 ∧
      readPacket Gen.maxPacketSize ⟨s, wire fs ++ rest⟩ = .ok (p, ⟨s', rest⟩) ∧
      readEphemeralPacket Gen.maxPacketSize ⟨s, wire fs ++ rest⟩ = .ok (p, ⟨s', rest⟩) := by
  have hM : 0 < Gen.maxPacketSize := by decide
  have hM24 : Gen.maxPacketSize < 2 ^ 24 := by decide
  obtain ⟨fs, h1, h2, h3⟩ := write_frames _ hM p s
  have hr := readPacket_train _ hM hM24 h2 rest
  have hc := (h2.count hM).1
  rw [h3] at hr hc
  exact ⟨fs, _, h1, h2, h3, rfl, hc, hr, by rw [readEphemeralPacket_eq _ hM]; exact hr⟩

/-- **C11 at `MaxPacketSize`, reader side.** Whatever either reader accepts is
    a correctly sequenced, complete packet, delivered intact. -/
theorem C11_read_sound (c c' : Conn) (p : Bytes)
    (h : readPacket Gen.maxPacketSize c = .ok (p, c') ∨
         readEphemeralPacket Gen.maxPacketSize c = .ok (p, c')) :
    ∃ fs, Train Gen.maxPacketSize c.seq fs ∧ c.input = wire fs ++ c'.input ∧ p = bodies fs ∧
      c'.seq = c.seq + UInt8.ofNat fs.length := by
  have hM : 2 ^ 24 - 1 ≤ Gen.maxPacketSize := by decide
  cases h with
  | inl h => exact readPacket_sound _ hM c c' p h
  | inr h => exact readEphemeralPacket_sound _ hM c c' p h

end GaeaVerif.C11
