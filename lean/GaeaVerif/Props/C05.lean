import GaeaVerif.Model.Modify
import GaeaVerif.Model.ModifyStmt
/-
  C05 — UPDATE and DELETE affect exactly the matching rows and never move a row.
  Theorems about `Model/Modify.lean` on top of C01's `route_inv`/`route_sound`.
-/
import GaeaVerif.Props.C01
namespace GaeaVerif.C05
open GaeaVerif.Route GaeaVerif.Modify GaeaVerif.C01

theorem foldl_mergeStep_affected (rs : List ExecResult) (a : ExecResult) :
    (rs.foldl mergeStep a).affected = a.affected + (rs.map (·.affected)).sum := by
  induction rs generalizing a with
  | nil => simp
  | cons r rs ih => simp [List.foldl, ih, mergeStep]; omega

/-- `MergeExecResult` reports the sum of the per-shard affected-row counts. -/
theorem mergeExec_affected (rs : List ExecResult) :
    (mergeExecResult rs).affected = (rs.map (·.affected)).sum := by
  simp [mergeExecResult, foldl_mergeStep_affected]

theorem interList_eq_filter (l1 l2 : List Int) (h1 : Sorted l1) (h2 : Sorted l2) :
    interList l1 l2 = l1.filter (fun a => decide (a ∈ l2)) := by
  fun_induction interList l1 l2 with
  | case1 => simp
  | case2 => simp
  | case3 xs x ys ih =>
    rw [Sorted, List.pairwise_cons] at h1 h2
    simp only [List.filter_cons, List.mem_cons, true_or, decide_true, ↓reduceIte]
    rw [ih h1.2 h2.2]
    congr 1
    apply List.filter_congr
    intro a ha
    have := h1.1 a ha
    simp; intro h; omega
  | case4 x xs y ys hne hlt ih =>
    rw [Sorted, List.pairwise_cons] at h1
    have h2' := h2
    rw [Sorted, List.pairwise_cons] at h2
    rw [ih h1.2 h2']
    have : ¬ (x ∈ y :: ys) := by
      simp; refine ⟨hne, fun hx => ?_⟩
      have := h2.1 x hx; omega
    simp only [List.mem_cons, not_or] at this
    simp [this.1, this.2]
  | case5 x xs y ys hne hlt ih =>
    have h1' := h1
    rw [Sorted, List.pairwise_cons] at h1 h2
    rw [ih h1' h2.2]
    apply List.filter_congr
    intro a ha
    simp at ha
    have : a ≠ y := by
      rcases ha with ha | ha
      · omega
      · have := h1.1 a ha; omega
    simp [this]


/-- The tables of the rule hold the rows the placement function sends there. -/
structure TablesOK (r : Rule) (pv : Int → Int) (tbl : Int → List Row) : Prop where
  sorted : Sorted r.idxs
  placed : ∀ i ∈ r.idxs, ∀ row ∈ tbl i, pv row.key = i
  bounds : ∀ i ∈ r.idxs, r.first ≤ i ∧ i ≤ r.last

theorem matching_zero_of_not_routed (r : Rule) (pv : Int → Int) (tbl : Int → List Row) (c : Cond)
    (ht : TablesOK r pv tbl) (hl : LitsOK r pv (shardLits c)) (l : List Int)
    (hr : route r c = some (true, l)) (i : Int) (hi : i ∈ r.idxs) (hnot : i ∉ l) :
    matching c (tbl i) = 0 := by
  unfold matching
  rw [List.length_eq_zero_iff, List.filter_eq_nil_iff]
  intro row hrow htrue
  simp only [beq_iff_eq] at htrue
  have hp := ht.placed i hi row hrow
  have hrowok : RowOK r pv row.key :=
    ⟨ht.sorted, by rw [hp]; exact hi, by rw [hp]; exact (ht.bounds i hi).1, by rw [hp]; exact (ht.bounds i hi).2⟩
  have := (route_inv r pv row.key row.env hrowok c hl l hr).2 htrue
  rw [hp] at this
  exact hnot this

theorem sum_filter_of_zero (m : Int → Nat) (p : Int → Bool) (l : List Int)
    (h : ∀ i ∈ l, p i = false → m i = 0) : ((l.filter p).map m).sum = (l.map m).sum := by
  induction l with
  | nil => rfl
  | cons a as ih =>
    have ih' := ih (fun i hi => h i (by simp [hi]))
    cases hp : p a with
    | true => simp [hp, ih']
    | false => simp [hp, ih', h a (by simp) hp]

/-- **C05 (affected rows).** For every rule, condition tree, table contents
    placed by the rule, and accepted UPDATE/DELETE: the count the proxy reports
    (sum over the routed tables of the rows the per-table statement selects)
    equals the number of rows the statement selects in all tables together —
    what a single database holding every shard would report; in particular no
    selected row lives in a table that was not routed to. -/
theorem exec_sum (r : Rule) (pv : Int → Int) (tbl : Int → List Row) (c : Cond)
    (ht : TablesOK r pv tbl) (hl : LitsOK r pv (shardLits c)) (routed : List Int)
    (h : routeStmt r (some c) = some routed) :
    proxyAffected c tbl routed = (r.idxs.map fun i => matching c (tbl i)).sum := by
  unfold proxyAffected
  rw [mergeExec_affected]
  simp only [List.map_map]
  have hm : ((fun x : ExecResult => x.affected) ∘ fun i => ({ status := 0, affected := matching c (tbl i), insertId := 0 } : ExecResult))
      = fun i => matching c (tbl i) := by funext i; rfl
  rw [hm]
  simp only [routeStmt] at h
  cases hr : route r c with
  | none => simp [hr] at h
  | some res =>
    obtain ⟨has, l⟩ := res
    simp only [hr, Option.some.injEq] at h
    cases has with
    | false => simp at h; subst h; rfl
    | true =>
      simp only [↓reduceIte] at h; subst h
      -- sortedness of l: from the invariant on any row; tables may be empty, so use the list lemma directly
      by_cases hne : ∃ i ∈ r.idxs, ∃ row, row ∈ tbl i
      · obtain ⟨i, hi, row, hrow⟩ := hne
        have hp := ht.placed i hi row hrow
        have hrowok : RowOK r pv row.key :=
          ⟨ht.sorted, by rw [hp]; exact hi, by rw [hp]; exact (ht.bounds i hi).1, by rw [hp]; exact (ht.bounds i hi).2⟩
        have hs := (route_inv r pv row.key row.env hrowok c hl l hr).1
        rw [interList_eq_filter _ _ ht.sorted hs]
        apply sum_filter_of_zero
        intro j hj hnot
        simp at hnot
        exact matching_zero_of_not_routed r pv tbl c ht hl l hr j hj hnot
      · -- every table is empty: both sides are sums of zeros
        have hz : ∀ i ∈ r.idxs, matching c (tbl i) = 0 := by
          intro i hi
          have : tbl i = [] := by
            cases ht' : tbl i with
            | nil => rfl
            | cons a as => exact absurd ⟨i, hi, a, by simp [ht']⟩ hne
          simp [matching, this]
        have h1 : ∀ (l' : List Int), (∀ i ∈ l', i ∈ r.idxs) → (l'.map fun i => matching c (tbl i)).sum = 0 := by
          intro l' hl'
          induction l' with
          | nil => rfl
          | cons a as ih => simp [hz a (hl' a (by simp)), ih (fun i hi => hl' i (by simp [hi]))]
        rw [h1 _ (fun i hi => (interList_mem_left _ _ i hi).1), h1 _ (fun i hi => hi)]

/-- the same number, counted on the union of all tables -/
theorem matching_union (c : Cond) (tbl : Int → List Row) (idxs : List Int) :
    matching c (idxs.flatMap tbl) = (idxs.map fun i => matching c (tbl i)).sum := by
  induction idxs with
  | nil => rfl
  | cons a as ih => simp [matching, List.flatMap_cons, List.filter_append] at ih ⊢; omega


/-! ### A row is never moved -/

/-- **C05 (no move, UPDATE).** An accepted assignment list names the sharding
    column in no spelling (plain, table-qualified, alias-qualified). -/
theorem no_move (key : String) (ts : List Target) (h : handleUpdateAssignmentList key ts = .accept) :
    ∀ t ∈ ts, t.name ≠ key := by
  induction ts with
  | nil => simp
  | cons t ts ih =>
    simp only [handleUpdateAssignmentList] at h
    cases hc : checkTarget key t with
    | rejectKey => simp [hc] at h
    | rejectOther => simp [hc] at h
    | accept =>
      simp only [hc] at h
      intro t' ht'
      simp at ht'
      rcases ht' with rfl | ht'
      · unfold checkTarget at hc
        intro heq
        cases hq : t'.qual <;> simp [hq, heq] at hc
      · exact ih h t' ht'

/-- and conversely a list that names it is rejected (with the key error unless
    an earlier assignment already failed for another reason) -/
theorem key_assignment_rejected (key : String) (ts : List Target) (t : Target) (ht : t ∈ ts)
    (hk : t.name = key) : handleUpdateAssignmentList key ts ≠ .accept :=
  fun h => no_move key ts h t ht hk

/-- Rows as column ↦ value maps; an UPDATE overwrites exactly the assigned columns. -/
def applyAssignments (row : String → Int) (as : List (Target × Int)) : String → Int :=
  as.foldl (fun r a => fun col => if col = a.1.name then a.2 else r col) row

/-- Consequence: the sharding value — hence `place` of the row — is unchanged by
    any accepted UPDATE. -/
theorem key_unchanged (key : String) (as : List (Target × Int)) (row : String → Int)
    (h : handleUpdateAssignmentList key (as.map (·.1)) = .accept) :
    applyAssignments row as key = row key := by
  have hn := no_move key _ h
  unfold applyAssignments
  induction as generalizing row with
  | nil => rfl
  | cons a as ih =>
    simp only [List.foldl_cons]
    have ha : a.1.name ≠ key := hn a.1 (by simp)
    rw [ih (fun col => if col = a.1.name then a.2 else row col)]
    · simp [Ne.symm ha]
    · simp only [List.map_cons, handleUpdateAssignmentList] at h
      cases hc : checkTarget key a.1 <;> simp [hc] at h
      exact h
    · intro t ht; exact hn t (by simp [ht])

/-- **C05 (no move, INSERT … ON DUPLICATE KEY UPDATE).** -/
theorem on_dup_reject (key : String) (ts : List Target) :
    handleInsertOnDuplicate key ts = .accept ↔ ∀ t ∈ ts, t.name ≠ key := by
  induction ts with
  | nil => simp [handleInsertOnDuplicate]
  | cons t ts ih =>
    simp only [handleInsertOnDuplicate]
    by_cases hk : t.name = key
    · simp [hk]
    · simp [hk, ih]

/-! ### Non-vacuity -/

example : handleUpdateAssignmentList "k" [{ qual := .none, name := "o" }, { qual := .alias, name := "v" }] = .accept := by decide
example : handleUpdateAssignmentList "k" [{ qual := .none, name := "o" }, { qual := .alias, name := "k" }] = .rejectKey := by decide
example : handleInsertOnDuplicate "k" [{ qual := .table, name := "k" }] = .rejectKey := by decide

/-- `exec_sum` on a concrete instance: 4 range tables of 100 rows, rows 5, 150, 250;
    `UPDATE … WHERE k < 200` is routed to tables 0 and 1 and reports 2 rows. -/
example :
    let c := Cond.cmp true false .lt (rangeLit 100 4 200)
    let tbl : Int → List Row := fun i =>
      if i = 0 then [{ key := 5, env := fun _ => none }] else if i = 1 then [{ key := 150, env := fun _ => none }]
      else if i = 2 then [{ key := 250, env := fun _ => none }] else []
    routeStmt (rangeRule 4) (some c) = some [0, 1] ∧ proxyAffected c tbl [0, 1] = 2 := by
  simp [routeStmt, route, rangeRule, rangeLit, findTableIndexes, adjust, makeList, interList,
    List.range, List.range.loop, proxyAffected, mergeExecResult, mergeStep, matching, eval, Cmp.holds]


/-! ### The calendar rules -/

open GaeaVerif.RouteCal GaeaVerif.ShardGo

/-- `TablesOK` where every stored key is one of the values `V` a row can hold. -/
structure TablesOKOn (V : Int → Prop) (r : Rule) (pv : Int → Int) (tbl : Int → List Row) : Prop
    extends TablesOK r pv tbl where
  valid : ∀ i ∈ r.idxs, ∀ row ∈ tbl i, V row.key

theorem matching_zero_of_not_routed_on (V : Int → Prop) (r : Rule) (pv : Int → Int) (tbl : Int → List Row) (c : Cond)
    (ht : TablesOKOn V r pv tbl) (hl : LitsOKOn V r pv (shardLits c)) (l : List Int)
    (hr : route r c = some (true, l)) (i : Int) (hi : i ∈ r.idxs) (hnot : i ∉ l) :
    matching c (tbl i) = 0 := by
  unfold matching
  rw [List.length_eq_zero_iff, List.filter_eq_nil_iff]
  intro row hrow htrue
  simp only [beq_iff_eq] at htrue
  have hp := ht.placed i hi row hrow
  have hrowok : RowOK r pv row.key :=
    ⟨ht.sorted, by rw [hp]; exact hi, by rw [hp]; exact (ht.bounds i hi).1, by rw [hp]; exact (ht.bounds i hi).2⟩
  have := (route_inv_on V r pv row.key row.env hrowok (ht.valid i hi row hrow) c hl l hr).2 htrue
  rw [hp] at this
  exact hnot this

/-- **`exec_sum` relative to the values `V` a row can hold** (`exec_sum` is the
    case `V = everything`): the form the calendar rules need. -/
theorem exec_sum_on (V : Int → Prop) (r : Rule) (pv : Int → Int) (tbl : Int → List Row) (c : Cond)
    (ht : TablesOKOn V r pv tbl) (hl : LitsOKOn V r pv (shardLits c)) (routed : List Int)
    (h : routeStmt r (some c) = some routed) :
    proxyAffected c tbl routed = (r.idxs.map fun i => matching c (tbl i)).sum := by
  unfold proxyAffected
  rw [mergeExec_affected]
  simp only [List.map_map]
  have hm : ((fun x : ExecResult => x.affected) ∘ fun i => ({ status := 0, affected := matching c (tbl i), insertId := 0 } : ExecResult))
      = fun i => matching c (tbl i) := by funext i; rfl
  rw [hm]
  simp only [routeStmt] at h
  cases hr : route r c with
  | none => simp [hr] at h
  | some res =>
    obtain ⟨has, l⟩ := res
    simp only [hr, Option.some.injEq] at h
    cases has with
    | false => simp at h; subst h; rfl
    | true =>
      simp only [↓reduceIte] at h; subst h
      by_cases hne : ∃ i ∈ r.idxs, ∃ row, row ∈ tbl i
      · obtain ⟨i, hi, row, hrow⟩ := hne
        have hp := ht.placed i hi row hrow
        have hrowok : RowOK r pv row.key :=
          ⟨ht.sorted, by rw [hp]; exact hi, by rw [hp]; exact (ht.bounds i hi).1, by rw [hp]; exact (ht.bounds i hi).2⟩
        have hs := (route_inv_on V r pv row.key row.env hrowok (ht.valid i hi row hrow) c hl l hr).1
        rw [interList_eq_filter _ _ ht.sorted hs]
        apply sum_filter_of_zero
        intro j hj hnot
        simp at hnot
        exact matching_zero_of_not_routed_on V r pv tbl c ht hl l hr j hj hnot
      · have hz : ∀ i ∈ r.idxs, matching c (tbl i) = 0 := by
          intro i hi
          have : tbl i = [] := by
            cases ht' : tbl i with
            | nil => rfl
            | cons a as => exact absurd ⟨i, hi, a, by simp [ht']⟩ hne
          simp [matching, this]
        have h1 : ∀ (l' : List Int), (∀ i ∈ l', i ∈ r.idxs) → (l'.map fun i => matching c (tbl i)).sum = 0 := by
          intro l' hl'
          induction l' with
          | nil => rfl
          | cons a as ih => simp [hz a (hl' a (by simp)), ih (fun i hi => hl' i (by simp [hi]))]
        rw [h1 _ (fun i hi => (interList_mem_left _ _ i hi).1), h1 _ (fun i hi => hi)]

/-- **C05 (affected rows) for the calendar rules, no residual hypothesis beyond
    the time zone**: for a `date_year` / `date_month` / `date_day` rule with any
    ascending period list, tables that hold the rows the rule places there
    (DATETIME column: valid date-times; integer column: timestamps of a year
    0 … 9999 in the zone `off` seconds east of UTC) and an accepted UPDATE/DELETE
    whose sharding-column literals are accepted spellings / such timestamps, the
    reported count is the number of rows the statement selects in all tables. -/
theorem calendar_exec_sum (k : CalKind) (idxs : List Int) (hs : Sorted idxs) (off : Int) :
    (∀ (tbl : Int → List Row) (c : Cond) (routed : List Int),
      (∀ i ∈ idxs, ∀ row ∈ tbl i, VStr row.key ∧ pvStr k row.key = i) →
      StrCond k (ShardPlace.civilOfUnix off) (ShardPlace.clockOfUnix off) c →
      routeStmt (calRule idxs) (some c) = some routed →
      proxyAffected c tbl routed = (idxs.map fun i => matching c (tbl i)).sum) ∧
    (∀ (tbl : Int → List Row) (c : Cond) (routed : List Int),
      (∀ i ∈ idxs, ∀ row ∈ tbl i, VUnix (ShardPlace.civilOfUnix off) row.key ∧
        pvUnix k (ShardPlace.civilOfUnix off) row.key = i) →
      UnixCond k (ShardPlace.civilOfUnix off) (ShardPlace.clockOfUnix off) c →
      routeStmt (calRule idxs) (some c) = some routed →
      proxyAffected c tbl routed = (idxs.map fun i => matching c (tbl i)).sum) := by
  refine ⟨?_, ?_⟩
  · intro tbl c routed htbl ⟨ss, hss, hlits⟩ h
    exact exec_sum_on VStr (calRule idxs) (pvStr k) tbl c
      ⟨⟨hs, fun i hi row hrow => (htbl i hi row hrow).2, fun i hi => sorted_bounds idxs hs i hi⟩,
        fun i hi row hrow => (htbl i hi row hrow).1⟩
      (hlits ▸ str_litsOK k idxs _ _ ss hss) routed h
  · intro tbl c routed htbl ⟨vs, hvs, hlits⟩ h
    exact exec_sum_on (VUnix (ShardPlace.civilOfUnix off)) (calRule idxs) (pvUnix k (ShardPlace.civilOfUnix off)) tbl c
      ⟨⟨hs, fun i hi row hrow => (htbl i hi row hrow).2, fun i hi => sorted_bounds idxs hs i hi⟩,
        fun i hi row hrow => (htbl i hi row hrow).1⟩
      (hlits ▸ unix_litsOK k idxs _ _ (fixedZone_ok off) vs hvs) routed h

/-! ### Whole statements: LIMIT, ORDER BY, multi-table forms, sub-queries

`planModify` is `HandleUpdatePlan` / `HandleDeletePlan`; `proxyChosen` / `proxyAfter` is what the
routed backends do with the statements the plan sends them, `singleChosen` / `singleAfter` what a
single database holding every sub table does with the statement the client sent. -/


/-! ### Whole statements: LIMIT, ORDER BY, multi-table forms, sub-queries

`planModify` is `HandleUpdatePlan` / `HandleDeletePlan`; `proxyChosen` / `proxyAfter` is what the
routed backends do with the statements the plan sends them, `singleChosen` / `singleAfter` what a
single database holding every sub table does with the statement the client sent. -/

/-- What an accepted statement looks like: every other form is rejected. -/
theorem planModify_ok_iff (r : Rule) (key : String) (st : Stmt) (routed : List Int) :
    planModify r key st = .ok routed ↔
      st.multi = false ∧
      (st.isUpdate = true → handleUpdateAssignmentList key st.set = .accept) ∧
      (st.cond.isSome = true → ∀ k ∈ st.subs, k = SubKind.value) ∧
      routeStmt r st.cond = some routed ∧
      (∀ it ∈ st.order, it.ok = true) ∧
      ¬ (st.order ≠ [] ∧ st.limit.isSome = true ∧ routed.length > 1) := by
  unfold planModify
  cases st.multi <;> cases st.isUpdate <;> cases handleUpdateAssignmentList key st.set <;>
    cases routeStmt r st.cond <;> cases st.cond.isSome <;> simp
  all_goals (repeat' split)
  all_goals grind

theorem flatMap_filter_of_nil {α : Type} (g : Int → List α) (p : Int → Bool) (l : List Int)
    (h : ∀ i ∈ l, p i = false → g i = []) : (l.filter p).flatMap g = l.flatMap g := by
  induction l with
  | nil => rfl
  | cons a as ih =>
    have ih' := ih (fun i hi => h i (by simp [hi]))
    cases hp : p a with
    | true => simp [hp, ih']
    | false => simp [hp, ih', h a (by simp) hp]

theorem flatMap_nil_of_nil {α : Type} (g : Int → List α) (l : List Int) (h : ∀ i ∈ l, g i = []) :
    l.flatMap g = [] := by
  induction l with
  | nil => rfl
  | cons a as ih => simp [h a (by simp), ih (fun i hi => h i (by simp [hi]))]

theorem filter_flatMap_tbl (p : Row → Bool) (tbl : Int → List Row) (l : List Int) :
    (l.flatMap tbl).filter p = l.flatMap (fun i => (tbl i).filter p) := by
  induction l with
  | nil => rfl
  | cons a as ih => simp [List.flatMap_cons, List.filter_append, ih]

theorem routeStmt_subset (r : Rule) (c : Option Cond) (routed : List Int) (h : routeStmt r c = some routed) :
    ∀ i ∈ routed, i ∈ r.idxs := by
  unfold routeStmt at h
  cases c with
  | none => simp at h; subst h; intro i hi; exact hi
  | some c =>
    simp only at h
    cases hr : route r c with
    | none => simp [hr] at h
    | some res =>
      obtain ⟨has, l⟩ := res
      simp only [hr, Option.some.injEq] at h
      subst h
      intro i hi
      cases has with
      | false => simpa using hi
      | true => simp only [↓reduceIte] at hi; exact (interList_mem_left _ _ i hi).1

/-- The selected rows, sub table by sub table, are the selected rows of the union: no selected row
    lives in a sub table that was not routed to (`exec_sum` as an equation between lists of rows). -/
theorem filter_routed (r : Rule) (pv : Int → Int) (tbl : Int → List Row) (c : Option Cond)
    (ht : TablesOK r pv tbl) (hl : ∀ c', c = some c' → LitsOK r pv (shardLits c')) (routed : List Int)
    (h : routeStmt r c = some routed) :
    routed.flatMap (fun i => (tbl i).filter (selects c)) = (r.idxs.flatMap tbl).filter (selects c) := by
  rw [filter_flatMap_tbl]
  cases c with
  | none => simp [routeStmt] at h; subst h; rfl
  | some c =>
    have hl := hl c rfl
    simp only [routeStmt] at h
    cases hr : route r c with
    | none => simp [hr] at h
    | some res =>
      obtain ⟨has, l⟩ := res
      simp only [hr, Option.some.injEq] at h
      cases has with
      | false => simp at h; subst h; rfl
      | true =>
        simp only [↓reduceIte] at h; subst h
        have hsel : ∀ i, (tbl i).filter (selects (some c)) = [] ↔ matching c (tbl i) = 0 := by
          intro i; unfold matching selects; rw [List.length_eq_zero_iff]
        by_cases hne : ∃ i ∈ r.idxs, ∃ row, row ∈ tbl i
        · obtain ⟨i, hi, row, hrow⟩ := hne
          have hp := ht.placed i hi row hrow
          have hrowok : RowOK r pv row.key :=
            ⟨ht.sorted, by rw [hp]; exact hi, by rw [hp]; exact (ht.bounds i hi).1, by rw [hp]; exact (ht.bounds i hi).2⟩
          have hs := (route_inv r pv row.key row.env hrowok c hl l hr).1
          rw [interList_eq_filter _ _ ht.sorted hs]
          apply flatMap_filter_of_nil
          intro j hj hnot
          simp at hnot
          exact (hsel j).2 (matching_zero_of_not_routed r pv tbl c ht hl l hr j hj hnot)
        · have hz : ∀ i ∈ r.idxs, (tbl i).filter (selects (some c)) = [] := by
            intro i hi
            have : tbl i = [] := by
              cases ht' : tbl i with
              | nil => rfl
              | cons a as => exact absurd ⟨i, hi, a, by simp [ht']⟩ hne
            simp [this]
          rw [flatMap_nil_of_nil _ _ (fun i hi => hz i (interList_mem_left _ _ i hi).1),
            flatMap_nil_of_nil _ _ hz]

theorem pick_nil (le : Row → Row → Bool) (limit : Option Nat) : pick le limit [] = [] := by
  cases limit <;> simp [pick]

/-- the rows a database changes are rows of the table -/
theorem chosen_subset (c : Option Cond) (le : Row → Row → Bool) (limit : Option Nat) (t : List Row) :
    ∀ x ∈ chosen c le limit t, x ∈ t := by
  intro x hx
  unfold chosen pick at hx
  cases limit with
  | none => simp only at hx; exact (List.mem_filter.1 hx).1
  | some n =>
    simp only at hx
    have := List.mem_of_mem_take hx
    rw [List.mem_mergeSort] at this
    exact (List.mem_filter.1 this).1

/-- … and rows the WHERE clause selects -/
theorem chosen_selected (c : Option Cond) (le : Row → Row → Bool) (limit : Option Nat) (t : List Row) :
    ∀ x ∈ chosen c le limit t, selects c x = true := by
  intro x hx
  unfold chosen pick at hx
  cases limit with
  | none => simp only at hx; exact (List.mem_filter.1 hx).2
  | some n =>
    simp only at hx
    have := List.mem_of_mem_take hx
    rw [List.mem_mergeSort] at this
    exact (List.mem_filter.1 this).2

/-- the LIMIT forms the proxy executes exactly: no LIMIT, or at most one routed sub table.
    `hf` is `filter_routed` / `filter_routed_on`. -/
theorem rows_exact_core (tbl : Int → List Row) (c : Option Cond)
    (le : Row → Row → Bool) (limit : Option Nat) (idxs routed : List Int)
    (hf : routed.flatMap (fun i => (tbl i).filter (selects c)) = (idxs.flatMap tbl).filter (selects c))
    (hlim : limit = none ∨ routed.length ≤ 1) :
    proxyChosen c le limit tbl routed = singleChosen c le limit tbl idxs := by
  unfold proxyChosen singleChosen chosen
  rw [← hf]
  rcases hlim with hlim | hlim
  · subst hlim; simp [pick]
  · match routed, hlim with
    | [], _ => simp [pick_nil]
    | [i], _ => simp
    | _ :: _ :: _, hlim => simp at hlim

theorem rows_exact_of (r : Rule) (pv : Int → Int) (tbl : Int → List Row) (c : Option Cond)
    (le : Row → Row → Bool) (limit : Option Nat)
    (ht : TablesOK r pv tbl) (hl : ∀ c', c = some c' → LitsOK r pv (shardLits c')) (routed : List Int)
    (h : routeStmt r c = some routed) (hlim : limit = none ∨ routed.length ≤ 1) :
    proxyChosen c le limit tbl routed = singleChosen c le limit tbl r.idxs :=
  rows_exact_core tbl c le limit r.idxs routed (filter_routed r pv tbl c ht hl routed h) hlim

/-- an accepted statement outside the open finding has no LIMIT or at most one routed sub table -/
theorem accepted_limit_shape (r : Rule) (key : String) (st : Stmt) (routed : List Int)
    (h : planModify r key st = .ok routed)
    (hlim : ¬ (st.limit.isSome = true ∧ st.order = [] ∧ routed.length > 1)) :
    st.limit = none ∨ routed.length ≤ 1 := by
  have hol := ((planModify_ok_iff r key st routed).1 h).2.2.2.2.2
  cases hlm : st.limit with
  | none => exact Or.inl rfl
  | some n =>
    right
    have hs : st.limit.isSome = true := by simp [hlm]
    by_cases ho : st.order = []
    · have : ¬ routed.length > 1 := fun hgt => hlim ⟨hs, ho, hgt⟩
      omega
    · have : ¬ routed.length > 1 := fun hgt => hol ⟨ho, hs, hgt⟩
      omega

/-- **C05 (exactly the matching rows), every statement form.**  For every rule, table contents
    placed by the rule, and UPDATE / DELETE the planner accepts — any WHERE tree, ORDER BY list,
    LIMIT, SET list; the multi-table forms, the sub-queries that read a table and ORDER BY … LIMIT
    over several sub tables are not accepted (`planModify_ok_iff`) — the rows the routed backends
    change are, row for row, the rows a single database holding every sub table changes.

    Full statement: the same without `hlim`.  It does not hold for the code as it is: LIMIT
    without ORDER BY is sent unchanged to every routed sub table, each of which changes up to `n`
    rows (`limit_per_sub_table_witness`; the repository's own tests fix this behaviour:
    TestMycatShardUpdateWithLimit, TestMycatShardDeleteWithLimit). -/
theorem modify_rows_exact_partial (r : Rule) (key : String) (pv : Int → Int) (tbl : Int → List Row)
    (st : Stmt) (le : Row → Row → Bool)
    (ht : TablesOK r pv tbl) (hl : ∀ c, st.cond = some c → LitsOK r pv (shardLits c)) (routed : List Int)
    (h : planModify r key st = .ok routed)
    (hlim : ¬ (st.limit.isSome = true ∧ st.order = [] ∧ routed.length > 1)) :
    proxyChosen st.cond le st.limit tbl routed = singleChosen st.cond le st.limit tbl r.idxs :=
  rows_exact_of r pv tbl st.cond le st.limit ht hl routed ((planModify_ok_iff r key st routed).1 h).2.2.2.1
    (accepted_limit_shape r key st routed h hlim)

/-- **Whatever the statement** (no residual hypothesis, the open finding included): every row a
    backend changes is a row the WHERE clause selects, and it lives in a routed sub table. -/
theorem modify_only_matching_rows (c : Option Cond) (le : Row → Row → Bool) (limit : Option Nat)
    (tbl : Int → List Row) (routed : List Int) :
    ∀ x ∈ proxyChosen c le limit tbl routed, selects c x = true ∧ ∃ i ∈ routed, x ∈ tbl i := by
  intro x hx
  simp only [proxyChosen, List.mem_flatMap] at hx
  obtain ⟨i, hi, hxi⟩ := hx
  exact ⟨chosen_selected c le limit (tbl i) x hxi, i, hi, chosen_subset c le limit (tbl i) x hxi⟩

theorem sum_length_flatMap {α : Type} (g : Int → List α) (l : List Int) :
    (l.map fun i => (g i).length).sum = (l.flatMap g).length := by
  induction l with
  | nil => rfl
  | cons a as ih => simp only [List.map_cons, List.sum_cons, List.flatMap_cons, List.length_append, ih]

/-- the count the proxy reports is the number of rows its backends change -/
theorem proxyCount_eq (c : Option Cond) (le : Row → Row → Bool) (limit : Option Nat)
    (tbl : Int → List Row) (routed : List Int) :
    proxyCount c le limit tbl routed = (proxyChosen c le limit tbl routed).length := by
  unfold proxyCount proxyChosen
  rw [mergeExec_affected, List.map_map, ← sum_length_flatMap]
  rfl

/-- **C05 (affected rows), every statement form**: the reported count is the number of rows a
    single database changes (`exec_sum` for statements with ORDER BY / LIMIT; same residue). -/
theorem modify_count_exact_partial (r : Rule) (key : String) (pv : Int → Int) (tbl : Int → List Row)
    (st : Stmt) (le : Row → Row → Bool)
    (ht : TablesOK r pv tbl) (hl : ∀ c, st.cond = some c → LitsOK r pv (shardLits c)) (routed : List Int)
    (h : planModify r key st = .ok routed)
    (hlim : ¬ (st.limit.isSome = true ∧ st.order = [] ∧ routed.length > 1)) :
    proxyCount st.cond le st.limit tbl routed = (singleChosen st.cond le st.limit tbl r.idxs).length := by
  rw [proxyCount_eq, modify_rows_exact_partial r key pv tbl st le ht hl routed h hlim]

/-- a row id names one row position of one sub table -/
def IdsDistinct (tbl : Int → List Row) (idxs : List Int) : Prop :=
  ∀ i ∈ idxs, ∀ j ∈ idxs, ∀ x ∈ tbl i, ∀ y ∈ tbl j, x.id = y.id → i = j

theorem mem_ids_iff (c : Option Cond) (le : Row → Row → Bool) (limit : Option Nat)
    (tbl : Int → List Row) (idxs routed : List Int) (hid : IdsDistinct tbl idxs)
    (hsub : ∀ j ∈ routed, j ∈ idxs) (i : Int) (hi : i ∈ idxs) (x : Row) (hx : x ∈ tbl i) :
    ((proxyChosen c le limit tbl routed).map (·.id)).contains x.id =
      (routed.contains i && ((chosen c le limit (tbl i)).map (·.id)).contains x.id) := by
  rw [Bool.eq_iff_iff]
  simp only [List.contains_iff_mem, List.mem_map, Bool.and_eq_true, proxyChosen, List.mem_flatMap]
  constructor
  · rintro ⟨y, ⟨j, hj, hy⟩, hyx⟩
    have hyt := chosen_subset c le limit (tbl j) y hy
    have := hid i hi j (hsub j hj) x hx y hyt hyx.symm
    subst this
    exact ⟨hj, y, hy, hyx⟩
  · rintro ⟨hj, y, hy, hyx⟩
    exact ⟨y, ⟨i, hj, hy⟩, hyx⟩

theorem applyChosen_congr (isUpdate : Bool) (upd : Row → Row) (ids ids' : List Nat) (t : List Row)
    (h : ∀ x ∈ t, ids.contains x.id = ids'.contains x.id) :
    applyChosen isUpdate upd ids t = applyChosen isUpdate upd ids' t := by
  unfold applyChosen
  cases isUpdate with
  | true =>
    simp only [↓reduceIte]
    apply List.map_congr_left
    intro x hx; rw [h x hx]
  | false =>
    simp only [Bool.false_eq_true, ↓reduceIte]
    apply List.filter_congr
    intro x hx; rw [h x hx]

theorem applyChosen_none (isUpdate : Bool) (upd : Row → Row) (ids : List Nat) (t : List Row)
    (h : ∀ x ∈ t, ids.contains x.id = false) : applyChosen isUpdate upd ids t = t := by
  unfold applyChosen
  cases isUpdate with
  | true =>
    simp only [↓reduceIte]
    conv => rhs; rw [← List.map_id t]
    apply List.map_congr_left
    intro x hx; simp only [h x hx, Bool.false_eq_true, ↓reduceIte, id_eq]
  | false =>
    simp only [Bool.false_eq_true, ↓reduceIte]
    rw [List.filter_eq_self]
    intro x hx; simp only [h x hx, Bool.not_false]

theorem tables_exact_core (isUpdate : Bool) (upd : Row → Row) (c : Option Cond) (le : Row → Row → Bool)
    (limit : Option Nat) (tbl : Int → List Row) (idxs routed : List Int)
    (hrows : proxyChosen c le limit tbl routed = singleChosen c le limit tbl idxs)
    (hsub : ∀ j ∈ routed, j ∈ idxs) (hid : IdsDistinct tbl idxs) :
    ∀ i ∈ idxs, proxyAfter isUpdate upd c le limit tbl routed i = singleAfter isUpdate upd c le limit tbl idxs i := by
  intro i hi
  unfold proxyAfter singleAfter
  rw [← hrows]
  by_cases hri : routed.contains i = true
  · simp only [hri, ↓reduceIte]
    apply applyChosen_congr
    intro x hx
    rw [mem_ids_iff c le limit tbl idxs routed hid hsub i hi x hx, hri, Bool.true_and]
  · simp only [hri, Bool.false_eq_true, ↓reduceIte]
    symm
    apply applyChosen_none
    intro x hx
    rw [mem_ids_iff c le limit tbl idxs routed hid hsub i hi x hx]
    have : routed.contains i = false := by simpa using hri
    rw [this, Bool.false_and]

/-- **C05 (the tables afterwards), every statement form.**  After an accepted UPDATE / DELETE every
    sub table holds, row for row, what it would hold had a single database holding all sub tables
    executed the client's statement: the rows named by the statement are updated / gone, every
    other row — in particular every row of a sub table that was not routed to — is untouched.
    Full statement: without `hlim` (see `modify_rows_exact_partial`). -/
theorem modify_tables_exact_partial (r : Rule) (key : String) (pv : Int → Int) (tbl : Int → List Row)
    (st : Stmt) (le : Row → Row → Bool) (upd : Row → Row)
    (ht : TablesOK r pv tbl) (hl : ∀ c, st.cond = some c → LitsOK r pv (shardLits c))
    (hid : IdsDistinct tbl r.idxs) (routed : List Int)
    (h : planModify r key st = .ok routed)
    (hlim : ¬ (st.limit.isSome = true ∧ st.order = [] ∧ routed.length > 1)) :
    ∀ i ∈ r.idxs, proxyAfter st.isUpdate upd st.cond le st.limit tbl routed i =
      singleAfter st.isUpdate upd st.cond le st.limit tbl r.idxs i :=
  tables_exact_core st.isUpdate upd st.cond le st.limit tbl r.idxs routed
    (modify_rows_exact_partial r key pv tbl st le ht hl routed h hlim)
    (routeStmt_subset r st.cond routed ((planModify_ok_iff r key st routed).1 h).2.2.2.1) hid

/-- **C05 (never moves a row), every statement form.**  Whatever the proxy executes, every row
    is afterwards in the sub table its sharding value is placed in — provided the update leaves
    the sharding value alone, which is what an accepted SET list guarantees
    (`accepted_set_spares_key`, `key_unchanged`). -/
theorem modify_never_moves (r : Rule) (pv : Int → Int) (tbl : Int → List Row)
    (isUpdate : Bool) (upd : Row → Row) (c : Option Cond) (le : Row → Row → Bool) (limit : Option Nat)
    (ht : TablesOK r pv tbl) (hupd : ∀ row, (upd row).key = row.key) (routed : List Int) :
    ∀ i ∈ r.idxs, ∀ x ∈ proxyAfter isUpdate upd c le limit tbl routed i, pv x.key = i := by
  intro i hi x hx
  unfold proxyAfter at hx
  split at hx
  · unfold applyChosen at hx
    split at hx
    · simp only [List.mem_map] at hx
      obtain ⟨y, hy, rfl⟩ := hx
      split
      · rw [hupd]; exact ht.placed i hi y hy
      · exact ht.placed i hi y hy
    · exact ht.placed i hi x (List.mem_filter.1 hx).1
  · exact ht.placed i hi x hx

/-- an accepted UPDATE assigns the sharding column in no spelling -/
theorem accepted_set_spares_key (r : Rule) (key : String) (st : Stmt) (routed : List Int)
    (h : planModify r key st = .ok routed) (hu : st.isUpdate = true) :
    ∀ t ∈ st.set, t.name ≠ key :=
  no_move key st.set (((planModify_ok_iff r key st routed).1 h).2.1 hu)

/-- the forms that are rejected, one by one -/
theorem multi_table_rejected (r : Rule) (key : String) (st : Stmt) (h : st.multi = true) :
    planModify r key st = .error .multiTable := by
  simp [planModify, h]

theorem table_subquery_rejected (r : Rule) (key : String) (st : Stmt) (routed : List Int)
    (hc : st.cond.isSome = true) (k : SubKind) (hk : k ∈ st.subs) (hne : k ≠ .value) :
    planModify r key st ≠ .ok routed := by
  intro h
  exact hne (((planModify_ok_iff r key st routed).1 h).2.2.1 hc k hk)

theorem accept_no_sub (key : String) (ts : List Target) (h : handleUpdateAssignmentList key ts = .accept) :
    ∀ t ∈ ts, t.sub = false := by
  induction ts with
  | nil => simp
  | cons t ts ih =>
    simp only [handleUpdateAssignmentList] at h
    cases hc : checkTarget key t with
    | rejectKey => simp [hc] at h
    | rejectOther => simp [hc] at h
    | accept =>
      simp only [hc] at h
      intro t' ht'
      simp at ht'
      rcases ht' with rfl | ht'
      · unfold checkTarget checkValue at hc
        cases hs : t'.sub with
        | false => rfl
        | true => cases hq : t'.qual <;> simp [hq, hs] at hc <;> split at hc <;> simp at hc
      · exact ih h t' ht'

theorem set_subquery_rejected (r : Rule) (key : String) (st : Stmt) (routed : List Int)
    (hu : st.isUpdate = true) (t : Target) (ht : t ∈ st.set) (hs : t.sub = true) :
    planModify r key st ≠ .ok routed := by
  intro h
  have := accept_no_sub key st.set (((planModify_ok_iff r key st routed).1 h).2.1 hu) t ht
  simp [hs] at this

theorem order_limit_multi_rejected (r : Rule) (key : String) (st : Stmt) (routed : List Int)
    (ho : st.order ≠ []) (hl : st.limit.isSome = true) (hn : routed.length > 1) :
    planModify r key st ≠ .ok routed := by
  intro h
  exact ((planModify_ok_iff r key st routed).1 h).2.2.2.2.2 ⟨ho, hl, hn⟩

/-! ### Whole statements on the calendar rules -/

theorem filter_routed_on (V : Int → Prop) (r : Rule) (pv : Int → Int) (tbl : Int → List Row) (c : Option Cond)
    (ht : TablesOKOn V r pv tbl) (hl : ∀ c', c = some c' → LitsOKOn V r pv (shardLits c')) (routed : List Int)
    (h : routeStmt r c = some routed) :
    routed.flatMap (fun i => (tbl i).filter (selects c)) = (r.idxs.flatMap tbl).filter (selects c) := by
  rw [filter_flatMap_tbl]
  cases c with
  | none => simp [routeStmt] at h; subst h; rfl
  | some c =>
    have hl := hl c rfl
    simp only [routeStmt] at h
    cases hr : route r c with
    | none => simp [hr] at h
    | some res =>
      obtain ⟨has, l⟩ := res
      simp only [hr, Option.some.injEq] at h
      cases has with
      | false => simp at h; subst h; rfl
      | true =>
        simp only [↓reduceIte] at h; subst h
        have hsel : ∀ i, (tbl i).filter (selects (some c)) = [] ↔ matching c (tbl i) = 0 := by
          intro i; unfold matching selects; rw [List.length_eq_zero_iff]
        by_cases hne : ∃ i ∈ r.idxs, ∃ row, row ∈ tbl i
        · obtain ⟨i, hi, row, hrow⟩ := hne
          have hp := ht.placed i hi row hrow
          have hrowok : RowOK r pv row.key :=
            ⟨ht.sorted, by rw [hp]; exact hi, by rw [hp]; exact (ht.bounds i hi).1, by rw [hp]; exact (ht.bounds i hi).2⟩
          have hs := (route_inv_on V r pv row.key row.env hrowok (ht.valid i hi row hrow) c hl l hr).1
          rw [interList_eq_filter _ _ ht.sorted hs]
          apply flatMap_filter_of_nil
          intro j hj hnot
          simp at hnot
          exact (hsel j).2 (matching_zero_of_not_routed_on V r pv tbl c ht hl l hr j hj hnot)
        · have hz : ∀ i ∈ r.idxs, (tbl i).filter (selects (some c)) = [] := by
            intro i hi
            have : tbl i = [] := by
              cases ht' : tbl i with
              | nil => rfl
              | cons a as => exact absurd ⟨i, hi, a, by simp [ht']⟩ hne
            simp [this]
          rw [flatMap_nil_of_nil _ _ (fun i hi => hz i (interList_mem_left _ _ i hi).1),
            flatMap_nil_of_nil _ _ hz]

/-- `modify_rows_exact_partial` and `modify_tables_exact_partial` relative to the values `V` a row
    can hold (same residue `hlim`) -/
theorem modify_exact_on_partial (V : Int → Prop) (r : Rule) (key : String) (pv : Int → Int)
    (tbl : Int → List Row) (st : Stmt) (le : Row → Row → Bool) (upd : Row → Row)
    (ht : TablesOKOn V r pv tbl) (hl : ∀ c, st.cond = some c → LitsOKOn V r pv (shardLits c))
    (routed : List Int) (h : planModify r key st = .ok routed)
    (hlim : ¬ (st.limit.isSome = true ∧ st.order = [] ∧ routed.length > 1)) :
    proxyChosen st.cond le st.limit tbl routed = singleChosen st.cond le st.limit tbl r.idxs ∧
    proxyCount st.cond le st.limit tbl routed = (singleChosen st.cond le st.limit tbl r.idxs).length ∧
    (IdsDistinct tbl r.idxs → ∀ i ∈ r.idxs, proxyAfter st.isUpdate upd st.cond le st.limit tbl routed i =
      singleAfter st.isUpdate upd st.cond le st.limit tbl r.idxs i) := by
  have hr := ((planModify_ok_iff r key st routed).1 h).2.2.2.1
  have hrows := rows_exact_core tbl st.cond le st.limit r.idxs routed
    (filter_routed_on V r pv tbl st.cond ht hl routed hr) (accepted_limit_shape r key st routed h hlim)
  refine ⟨hrows, by rw [proxyCount_eq, hrows], fun hid => ?_⟩
  exact tables_exact_core st.isUpdate upd st.cond le st.limit tbl r.idxs routed hrows
    (routeStmt_subset r st.cond routed hr) hid

/-- **C05 for whole statements on the calendar rules** (`date_year` / `date_month` / `date_day`,
    any ascending period list, DATETIME column with accepted spellings or integer column with
    timestamps of a year 0 … 9999 in the zone `off` seconds east of UTC): an accepted UPDATE /
    DELETE — with ORDER BY, LIMIT, any SET list — changes the rows, reports the count and leaves
    the tables a single database would.  Residue `hlim` as in `modify_rows_exact_partial`. -/
theorem calendar_modify_exact_partial (k : CalKind) (idxs : List Int) (hs : Sorted idxs) (off : Int)
    (key : String) (st : Stmt) (le : Row → Row → Bool) (upd : Row → Row) (tbl : Int → List Row)
    (routed : List Int) (h : planModify (calRule idxs) key st = .ok routed)
    (hlim : ¬ (st.limit.isSome = true ∧ st.order = [] ∧ routed.length > 1))
    (hcol :
      ((∀ i ∈ idxs, ∀ row ∈ tbl i, VStr row.key ∧ pvStr k row.key = i) ∧
        ∀ c, st.cond = some c → StrCond k (ShardPlace.civilOfUnix off) (ShardPlace.clockOfUnix off) c) ∨
      ((∀ i ∈ idxs, ∀ row ∈ tbl i, VUnix (ShardPlace.civilOfUnix off) row.key ∧
          pvUnix k (ShardPlace.civilOfUnix off) row.key = i) ∧
        ∀ c, st.cond = some c → UnixCond k (ShardPlace.civilOfUnix off) (ShardPlace.clockOfUnix off) c)) :
    proxyChosen st.cond le st.limit tbl routed = singleChosen st.cond le st.limit tbl idxs ∧
    proxyCount st.cond le st.limit tbl routed = (singleChosen st.cond le st.limit tbl idxs).length ∧
    (IdsDistinct tbl idxs → ∀ i ∈ idxs, proxyAfter st.isUpdate upd st.cond le st.limit tbl routed i =
      singleAfter st.isUpdate upd st.cond le st.limit tbl idxs i) := by
  rcases hcol with ⟨htbl, hc⟩ | ⟨htbl, hc⟩
  · exact modify_exact_on_partial VStr (calRule idxs) key (pvStr k) tbl st le upd
      ⟨⟨hs, fun i hi row hrow => (htbl i hi row hrow).2, fun i hi => sorted_bounds idxs hs i hi⟩,
        fun i hi row hrow => (htbl i hi row hrow).1⟩
      (fun c hcc => by
        obtain ⟨ss, hss, hlits⟩ := hc c hcc
        exact hlits ▸ str_litsOK k idxs _ _ ss hss) routed h hlim
  · exact modify_exact_on_partial (VUnix (ShardPlace.civilOfUnix off)) (calRule idxs) key
      (pvUnix k (ShardPlace.civilOfUnix off)) tbl st le upd
      ⟨⟨hs, fun i hi row hrow => (htbl i hi row hrow).2, fun i hi => sorted_bounds idxs hs i hi⟩,
        fun i hi row hrow => (htbl i hi row hrow).1⟩
      (fun c hcc => by
        obtain ⟨vs, hvs, hlits⟩ := hc c hcc
        exact hlits ▸ unix_litsOK k idxs _ _ (fixedZone_ok off) vs hvs) routed h hlim

/-! ### Witness of the open finding, non-vacuity -/

/-- `DELETE FROM t WHERE k < 200 LIMIT 1` on four range tables of 100 keys -/
def wStmt (limit : Option Nat) (order : List OrdItem) (c : Cond) : Stmt :=
  { isUpdate := false, multi := false, set := [], cond := some c, subs := [], order := order, limit := limit }

def wTbl : Int → List Row := fun i =>
  if i = 0 then [{ key := 5, env := fun _ => none, id := 0 }, { key := 7, env := fun _ => none, id := 1 }]
  else if i = 1 then [{ key := 150, env := fun _ => none, id := 2 }]
  else if i = 2 then [{ key := 250, env := fun _ => none, id := 3 }] else []

def wLt200 : Cond := Cond.cmp true false .lt (rangeLit 100 4 200)
def wEq150 : Cond := Cond.cmp true false .eq (rangeLit 100 4 150)

theorem limit_per_sub_table_witness :
    planModify (rangeRule 4) "k" (wStmt (some 1) [] wLt200) = .ok [0, 1] ∧
    (proxyChosen (some wLt200) (fun _ _ => true) (some 1) wTbl [0, 1]).length = 2 ∧
    (singleChosen (some wLt200) (fun _ _ => true) (some 1) wTbl (rangeRule 4).idxs).length = 1 := by
  refine ⟨?_, ?_, ?_⟩
  · simp [planModify, wStmt, wLt200, routeStmt, route, rangeRule, rangeLit, findTableIndexes, adjust, makeList,
      interList, List.range, List.range.loop]
  · simp [proxyChosen, chosen, pick, wTbl, wLt200, selects, eval, Cmp.holds, rangeLit]
  · simp [singleChosen, chosen, pick, wTbl, wLt200, selects, eval, Cmp.holds, rangeLit, rangeRule, makeList,
      List.range, List.range.loop]

/-- non-vacuity of `modify_rows_exact_partial`: accepted statements on which its last hypothesis holds -/
example : planModify (rangeRule 4) "k" (wStmt none [.col .none] wLt200) = .ok [0, 1] := by
  simp [planModify, wStmt, wLt200, routeStmt, route, rangeRule, rangeLit, findTableIndexes, adjust, makeList,
    interList, List.range, List.range.loop, OrdItem.ok]
example : planModify (rangeRule 4) "k" (wStmt (some 1) [.col .alias] wEq150) = .ok [1] := by
  simp [planModify, wStmt, wEq150, routeStmt, route, rangeRule, rangeLit, findTableIndexes, makeList,
    interList, List.range, List.range.loop, OrdItem.ok]
/-- ORDER BY … LIMIT over two sub tables is rejected -/
example : planModify (rangeRule 4) "k" (wStmt (some 1) [.col .none] wLt200) = .error .orderLimit := by
  simp [planModify, wStmt, wLt200, routeStmt, route, rangeRule, rangeLit, findTableIndexes, adjust, makeList,
    interList, List.range, List.range.loop, OrdItem.ok]
/-- `calendar_modify_exact_partial`: an accepted statement on a two-period calendar rule -/
example : planModify (calRule [2015, 2016]) "k"
    { isUpdate := true, multi := false, set := [{ qual := .alias, name := "o" }], cond := none, subs := [],
      order := [.col .none, .col .table], limit := none } = .ok [2015, 2016] := by
  simp [planModify, handleUpdateAssignmentList, checkTarget, checkValue, routeStmt, calRule, OrdItem.ok]
example : IdsDistinct wTbl (rangeRule 4).idxs := by
  intro i hi j hj x hx y hy hxy
  simp [rangeRule, makeList, List.range, List.range.loop] at hi hj
  rcases hi with rfl | rfl | rfl | rfl <;> rcases hj with rfl | rfl | rfl | rfl <;>
    simp [wTbl] at hx hy <;> (try rfl) <;> (rcases hx with rfl | rfl <;> rcases hy with rfl | rfl <;> simp at hxy)

end GaeaVerif.C05
