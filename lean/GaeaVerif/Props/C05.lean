import GaeaVerif.Model.Modify
/-
  C05 — UPDATE and DELETE affect exactly the matching rows and never move a row.
  Theorems about `Model/Modify.lean` on top of C01's `route_inv`/`route_sound`.
-/
import GaeaVerif.Props.C01
namespace GaeaVerif.C05
open GaeaVerif.Route GaeaVerif.Modify GaeaVerif.C01

theorem foldl_mergeStep_affected (rs : List ExecResult) (a : ExecResult) :
    (rs.foldl mergeStep a).affected = a.affected + (rs.map (·.affected)).sum := by
  induction rs generalizing a with
  | nil => simp
  | cons r rs ih => simp [List.foldl, ih, mergeStep]; omega

/-- `MergeExecResult` reports the sum of the per-shard affected-row counts. -/
theorem mergeExec_affected (rs : List ExecResult) :
    (mergeExecResult rs).affected = (rs.map (·.affected)).sum := by
  simp [mergeExecResult, foldl_mergeStep_affected]

theorem interList_eq_filter (l1 l2 : List Int) (h1 : Sorted l1) (h2 : Sorted l2) :
    interList l1 l2 = l1.filter (fun a => decide (a ∈ l2)) := by
  fun_induction interList l1 l2 with
  | case1 => simp
  | case2 => simp
  | case3 xs x ys ih =>
    rw [Sorted, List.pairwise_cons] at h1 h2
    simp only [List.filter_cons, List.mem_cons, true_or, decide_true, ↓reduceIte]
    rw [ih h1.2 h2.2]
    congr 1
    apply List.filter_congr
    intro a ha
    have := h1.1 a ha
    simp; intro h; omega
  | case4 x xs y ys hne hlt ih =>
    rw [Sorted, List.pairwise_cons] at h1
    have h2' := h2
    rw [Sorted, List.pairwise_cons] at h2
    rw [ih h1.2 h2']
    have : ¬ (x ∈ y :: ys) := by
      simp; refine ⟨hne, fun hx => ?_⟩
      have := h2.1 x hx; omega
    simp only [List.mem_cons, not_or] at this
    simp [this.1, this.2]
  | case5 x xs y ys hne hlt ih =>
    have h1' := h1
    rw [Sorted, List.pairwise_cons] at h1 h2
    rw [ih h1' h2.2]
    apply List.filter_congr
    intro a ha
    simp at ha
    have : a ≠ y := by
      rcases ha with ha | ha
      · omega
      · have := h1.1 a ha; omega
    simp [this]


/-- The tables of the rule hold the rows the placement function sends there. -/
structure TablesOK (r : Rule) (pv : Int → Int) (tbl : Int → List Row) : Prop where
  sorted : Sorted r.idxs
  placed : ∀ i ∈ r.idxs, ∀ row ∈ tbl i, pv row.key = i
  bounds : ∀ i ∈ r.idxs, r.first ≤ i ∧ i ≤ r.last

theorem matching_zero_of_not_routed (r : Rule) (pv : Int → Int) (tbl : Int → List Row) (c : Cond)
    (ht : TablesOK r pv tbl) (hl : LitsOK r pv (shardLits c)) (l : List Int)
    (hr : route r c = some (true, l)) (i : Int) (hi : i ∈ r.idxs) (hnot : i ∉ l) :
    matching c (tbl i) = 0 := by
  unfold matching
  rw [List.length_eq_zero_iff, List.filter_eq_nil_iff]
  intro row hrow htrue
  simp only [beq_iff_eq] at htrue
  have hp := ht.placed i hi row hrow
  have hrowok : RowOK r pv row.key :=
    ⟨ht.sorted, by rw [hp]; exact hi, by rw [hp]; exact (ht.bounds i hi).1, by rw [hp]; exact (ht.bounds i hi).2⟩
  have := (route_inv r pv row.key row.env hrowok c hl l hr).2 htrue
  rw [hp] at this
  exact hnot this

theorem sum_filter_of_zero (m : Int → Nat) (p : Int → Bool) (l : List Int)
    (h : ∀ i ∈ l, p i = false → m i = 0) : ((l.filter p).map m).sum = (l.map m).sum := by
  induction l with
  | nil => rfl
  | cons a as ih =>
    have ih' := ih (fun i hi => h i (by simp [hi]))
    cases hp : p a with
    | true => simp [hp, ih']
    | false => simp [hp, ih', h a (by simp) hp]

/-- **C05 (affected rows).** For every rule, condition tree, table contents
    placed by the rule, and accepted UPDATE/DELETE: the count the proxy reports
    (sum over the routed tables of the rows the per-table statement selects)
    equals the number of rows the statement selects in all tables together —
    what a single database holding every shard would report; in particular no
    selected row lives in a table that was not routed to. -/
theorem exec_sum (r : Rule) (pv : Int → Int) (tbl : Int → List Row) (c : Cond)
    (ht : TablesOK r pv tbl) (hl : LitsOK r pv (shardLits c)) (routed : List Int)
    (h : routeStmt r (some c) = some routed) :
    proxyAffected c tbl routed = (r.idxs.map fun i => matching c (tbl i)).sum := by
  unfold proxyAffected
  rw [mergeExec_affected]
  simp only [List.map_map]
  have hm : ((fun x : ExecResult => x.affected) ∘ fun i => ({ status := 0, affected := matching c (tbl i), insertId := 0 } : ExecResult))
      = fun i => matching c (tbl i) := by funext i; rfl
  rw [hm]
  simp only [routeStmt] at h
  cases hr : route r c with
  | none => simp [hr] at h
  | some res =>
    obtain ⟨has, l⟩ := res
    simp only [hr, Option.some.injEq] at h
    cases has with
    | false => simp at h; subst h; rfl
    | true =>
      simp only [↓reduceIte] at h; subst h
      -- sortedness of l: from the invariant on any row; tables may be empty, so use the list lemma directly
      by_cases hne : ∃ i ∈ r.idxs, ∃ row, row ∈ tbl i
      · obtain ⟨i, hi, row, hrow⟩ := hne
        have hp := ht.placed i hi row hrow
        have hrowok : RowOK r pv row.key :=
          ⟨ht.sorted, by rw [hp]; exact hi, by rw [hp]; exact (ht.bounds i hi).1, by rw [hp]; exact (ht.bounds i hi).2⟩
        have hs := (route_inv r pv row.key row.env hrowok c hl l hr).1
        rw [interList_eq_filter _ _ ht.sorted hs]
        apply sum_filter_of_zero
        intro j hj hnot
        simp at hnot
        exact matching_zero_of_not_routed r pv tbl c ht hl l hr j hj hnot
      · -- every table is empty: both sides are sums of zeros
        have hz : ∀ i ∈ r.idxs, matching c (tbl i) = 0 := by
          intro i hi
          have : tbl i = [] := by
            cases ht' : tbl i with
            | nil => rfl
            | cons a as => exact absurd ⟨i, hi, a, by simp [ht']⟩ hne
          simp [matching, this]
        have h1 : ∀ (l' : List Int), (∀ i ∈ l', i ∈ r.idxs) → (l'.map fun i => matching c (tbl i)).sum = 0 := by
          intro l' hl'
          induction l' with
          | nil => rfl
          | cons a as ih => simp [hz a (hl' a (by simp)), ih (fun i hi => hl' i (by simp [hi]))]
        rw [h1 _ (fun i hi => (interList_mem_left _ _ i hi).1), h1 _ (fun i hi => hi)]

/-- the same number, counted on the union of all tables -/
theorem matching_union (c : Cond) (tbl : Int → List Row) (idxs : List Int) :
    matching c (idxs.flatMap tbl) = (idxs.map fun i => matching c (tbl i)).sum := by
  induction idxs with
  | nil => rfl
  | cons a as ih => simp [matching, List.flatMap_cons, List.filter_append] at ih ⊢; omega


/-! ### A row is never moved -/

/-- **C05 (no move, UPDATE).** An accepted assignment list names the sharding
    column in no spelling (plain, table-qualified, alias-qualified). -/
theorem no_move (key : String) (ts : List Target) (h : handleUpdateAssignmentList key ts = .accept) :
    ∀ t ∈ ts, t.name ≠ key := by
  induction ts with
  | nil => simp
  | cons t ts ih =>
    simp only [handleUpdateAssignmentList] at h
    cases hc : checkTarget key t with
    | rejectKey => simp [hc] at h
    | rejectOther => simp [hc] at h
    | accept =>
      simp only [hc] at h
      intro t' ht'
      simp at ht'
      rcases ht' with rfl | ht'
      · unfold checkTarget at hc
        intro heq
        cases hq : t'.qual <;> simp [hq, heq] at hc
      · exact ih h t' ht'

/-- and conversely a list that names it is rejected (with the key error unless
    an earlier assignment already failed for another reason) -/
theorem key_assignment_rejected (key : String) (ts : List Target) (t : Target) (ht : t ∈ ts)
    (hk : t.name = key) : handleUpdateAssignmentList key ts ≠ .accept :=
  fun h => no_move key ts h t ht hk

/-- Rows as column ↦ value maps; an UPDATE overwrites exactly the assigned columns. -/
def applyAssignments (row : String → Int) (as : List (Target × Int)) : String → Int :=
  as.foldl (fun r a => fun col => if col = a.1.name then a.2 else r col) row

/-- Consequence: the sharding value — hence `place` of the row — is unchanged by
    any accepted UPDATE. -/
theorem key_unchanged (key : String) (as : List (Target × Int)) (row : String → Int)
    (h : handleUpdateAssignmentList key (as.map (·.1)) = .accept) :
    applyAssignments row as key = row key := by
  have hn := no_move key _ h
  unfold applyAssignments
  induction as generalizing row with
  | nil => rfl
  | cons a as ih =>
    simp only [List.foldl_cons]
    have ha : a.1.name ≠ key := hn a.1 (by simp)
    rw [ih (fun col => if col = a.1.name then a.2 else row col)]
    · simp [Ne.symm ha]
    · simp only [List.map_cons, handleUpdateAssignmentList] at h
      cases hc : checkTarget key a.1 <;> simp [hc] at h
      exact h
    · intro t ht; exact hn t (by simp [ht])

/-- **C05 (no move, INSERT … ON DUPLICATE KEY UPDATE).** -/
theorem on_dup_reject (key : String) (ts : List Target) :
    handleInsertOnDuplicate key ts = .accept ↔ ∀ t ∈ ts, t.name ≠ key := by
  induction ts with
  | nil => simp [handleInsertOnDuplicate]
  | cons t ts ih =>
    simp only [handleInsertOnDuplicate]
    by_cases hk : t.name = key
    · simp [hk]
    · simp [hk, ih]

/-! ### Non-vacuity -/

example : handleUpdateAssignmentList "k" [⟨.none, "o"⟩, ⟨.alias, "v"⟩] = .accept := by decide
example : handleUpdateAssignmentList "k" [⟨.none, "o"⟩, ⟨.alias, "k"⟩] = .rejectKey := by decide
example : handleInsertOnDuplicate "k" [⟨.table, "k"⟩] = .rejectKey := by decide

/-- `exec_sum` on a concrete instance: 4 range tables of 100 rows, rows 5, 150, 250;
    `UPDATE … WHERE k < 200` is routed to tables 0 and 1 and reports 2 rows. -/
example :
    let c := Cond.cmp true false .lt (rangeLit 100 4 200)
    let tbl : Int → List Row := fun i =>
      if i = 0 then [⟨5, fun _ => none⟩] else if i = 1 then [⟨150, fun _ => none⟩]
      else if i = 2 then [⟨250, fun _ => none⟩] else []
    routeStmt (rangeRule 4) (some c) = some [0, 1] ∧ proxyAffected c tbl [0, 1] = 2 := by
  simp [routeStmt, route, rangeRule, rangeLit, findTableIndexes, adjust, makeList, interList,
    List.range, List.range.loop, proxyAffected, mergeExecResult, mergeStep, matching, eval, Cmp.holds]


/-! ### The calendar rules -/

open GaeaVerif.RouteCal GaeaVerif.ShardGo

/-- `TablesOK` where every stored key is one of the values `V` a row can hold. -/
structure TablesOKOn (V : Int → Prop) (r : Rule) (pv : Int → Int) (tbl : Int → List Row) : Prop
    extends TablesOK r pv tbl where
  valid : ∀ i ∈ r.idxs, ∀ row ∈ tbl i, V row.key

theorem matching_zero_of_not_routed_on (V : Int → Prop) (r : Rule) (pv : Int → Int) (tbl : Int → List Row) (c : Cond)
    (ht : TablesOKOn V r pv tbl) (hl : LitsOKOn V r pv (shardLits c)) (l : List Int)
    (hr : route r c = some (true, l)) (i : Int) (hi : i ∈ r.idxs) (hnot : i ∉ l) :
    matching c (tbl i) = 0 := by
  unfold matching
  rw [List.length_eq_zero_iff, List.filter_eq_nil_iff]
  intro row hrow htrue
  simp only [beq_iff_eq] at htrue
  have hp := ht.placed i hi row hrow
  have hrowok : RowOK r pv row.key :=
    ⟨ht.sorted, by rw [hp]; exact hi, by rw [hp]; exact (ht.bounds i hi).1, by rw [hp]; exact (ht.bounds i hi).2⟩
  have := (route_inv_on V r pv row.key row.env hrowok (ht.valid i hi row hrow) c hl l hr).2 htrue
  rw [hp] at this
  exact hnot this

/-- **`exec_sum` relative to the values `V` a row can hold** (`exec_sum` is the
    case `V = everything`): the form the calendar rules need. -/
theorem exec_sum_on (V : Int → Prop) (r : Rule) (pv : Int → Int) (tbl : Int → List Row) (c : Cond)
    (ht : TablesOKOn V r pv tbl) (hl : LitsOKOn V r pv (shardLits c)) (routed : List Int)
    (h : routeStmt r (some c) = some routed) :
    proxyAffected c tbl routed = (r.idxs.map fun i => matching c (tbl i)).sum := by
  unfold proxyAffected
  rw [mergeExec_affected]
  simp only [List.map_map]
  have hm : ((fun x : ExecResult => x.affected) ∘ fun i => ({ status := 0, affected := matching c (tbl i), insertId := 0 } : ExecResult))
      = fun i => matching c (tbl i) := by funext i; rfl
  rw [hm]
  simp only [routeStmt] at h
  cases hr : route r c with
  | none => simp [hr] at h
  | some res =>
    obtain ⟨has, l⟩ := res
    simp only [hr, Option.some.injEq] at h
    cases has with
    | false => simp at h; subst h; rfl
    | true =>
      simp only [↓reduceIte] at h; subst h
      by_cases hne : ∃ i ∈ r.idxs, ∃ row, row ∈ tbl i
      · obtain ⟨i, hi, row, hrow⟩ := hne
        have hp := ht.placed i hi row hrow
        have hrowok : RowOK r pv row.key :=
          ⟨ht.sorted, by rw [hp]; exact hi, by rw [hp]; exact (ht.bounds i hi).1, by rw [hp]; exact (ht.bounds i hi).2⟩
        have hs := (route_inv_on V r pv row.key row.env hrowok (ht.valid i hi row hrow) c hl l hr).1
        rw [interList_eq_filter _ _ ht.sorted hs]
        apply sum_filter_of_zero
        intro j hj hnot
        simp at hnot
        exact matching_zero_of_not_routed_on V r pv tbl c ht hl l hr j hj hnot
      · have hz : ∀ i ∈ r.idxs, matching c (tbl i) = 0 := by
          intro i hi
          have : tbl i = [] := by
            cases ht' : tbl i with
            | nil => rfl
            | cons a as => exact absurd ⟨i, hi, a, by simp [ht']⟩ hne
          simp [matching, this]
        have h1 : ∀ (l' : List Int), (∀ i ∈ l', i ∈ r.idxs) → (l'.map fun i => matching c (tbl i)).sum = 0 := by
          intro l' hl'
          induction l' with
          | nil => rfl
          | cons a as ih => simp [hz a (hl' a (by simp)), ih (fun i hi => hl' i (by simp [hi]))]
        rw [h1 _ (fun i hi => (interList_mem_left _ _ i hi).1), h1 _ (fun i hi => hi)]

/-- **C05 (affected rows) for the calendar rules, no residual hypothesis beyond
    the time zone**: for a `date_year` / `date_month` / `date_day` rule with any
    ascending period list, tables that hold the rows the rule places there
    (DATETIME column: valid date-times; integer column: timestamps of a year
    0 … 9999 in the zone `off` seconds east of UTC) and an accepted UPDATE/DELETE
    whose sharding-column literals are accepted spellings / such timestamps, the
    reported count is the number of rows the statement selects in all tables. -/
theorem calendar_exec_sum (k : CalKind) (idxs : List Int) (hs : Sorted idxs) (off : Int) :
    (∀ (tbl : Int → List Row) (c : Cond) (routed : List Int),
      (∀ i ∈ idxs, ∀ row ∈ tbl i, VStr row.key ∧ pvStr k row.key = i) →
      StrCond k (ShardPlace.civilOfUnix off) (ShardPlace.clockOfUnix off) c →
      routeStmt (calRule idxs) (some c) = some routed →
      proxyAffected c tbl routed = (idxs.map fun i => matching c (tbl i)).sum) ∧
    (∀ (tbl : Int → List Row) (c : Cond) (routed : List Int),
      (∀ i ∈ idxs, ∀ row ∈ tbl i, VUnix (ShardPlace.civilOfUnix off) row.key ∧
        pvUnix k (ShardPlace.civilOfUnix off) row.key = i) →
      UnixCond k (ShardPlace.civilOfUnix off) (ShardPlace.clockOfUnix off) c →
      routeStmt (calRule idxs) (some c) = some routed →
      proxyAffected c tbl routed = (idxs.map fun i => matching c (tbl i)).sum) := by
  refine ⟨?_, ?_⟩
  · intro tbl c routed htbl ⟨ss, hss, hlits⟩ h
    exact exec_sum_on VStr (calRule idxs) (pvStr k) tbl c
      ⟨⟨hs, fun i hi row hrow => (htbl i hi row hrow).2, fun i hi => sorted_bounds idxs hs i hi⟩,
        fun i hi row hrow => (htbl i hi row hrow).1⟩
      (hlits ▸ str_litsOK k idxs _ _ ss hss) routed h
  · intro tbl c routed htbl ⟨vs, hvs, hlits⟩ h
    exact exec_sum_on (VUnix (ShardPlace.civilOfUnix off)) (calRule idxs) (pvUnix k (ShardPlace.civilOfUnix off)) tbl c
      ⟨⟨hs, fun i hi row hrow => (htbl i hi row hrow).2, fun i hi => sorted_bounds idxs hs i hi⟩,
        fun i hi row hrow => (htbl i hi row hrow).1⟩
      (hlits ▸ unix_litsOK k idxs _ _ (fixedZone_ok off) vs hvs) routed h

end GaeaVerif.C05
