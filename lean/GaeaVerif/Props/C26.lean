import GaeaVerif.Model.Slide
/-
  C26 — A replica is fused exactly when recent connection errors reach the
  threshold.

  Theorems about `Model/Slide.lean` (the tie to /repo/backend/slide.go,
  backend/slice.go `TryFuse`/`getConnWithFuse` and mysql/error.go
  `AsConnError` is the correspondence check `gvh run C26`).

  Rendering of the English statement:
  * "the number of connection errors recorded within the trailing window of W
    seconds (including the current second)"  =  `refCount W hist now`, the
    number of recorded timestamps `t` with `now - W < t ≤ now`;
  * "marks a replica down exactly when … reaches the configured minimum" =
    the `Trigger` call made for a connection error returns `true` iff
    `refCount … ≥ fuseMinErrorCount` (`trigger_iff`, `runTriggers_eq_spec`),
    and `TryFuse` sets the status down iff that call returned `true`
    (`runOps_eq_spec`);
  * histories: every non-decreasing sequence of non-negative timestamps, of
    any length, for every `W ≥ 1` and threshold `≥ 1` (no bound).
-/
namespace GaeaVerif.C26
open GaeaVerif GaeaVerif.Slide

/-! ### counting lemmas -/

/-- Value of a bucket: a nil bucket counts 0. -/
def bval : Option Int → Int
  | none => 0
  | some c => c

/-- `ErrorCount` of bucket `i` (0 for nil). -/
def bget (b : List (Option Int)) (i : Nat) : Int := bval (b[i]?.getD none)

/-- events at or after second `s` -/
def cntGe (hist : List Int) (s : Int) : Nat := hist.countP fun t => decide (s ≤ t)

/-- events at or after second `s` falling into bucket `i` -/
def cntGeMod (W : Int) (hist : List Int) (s : Int) (i : Nat) : Nat :=
  hist.countP fun t => decide (s ≤ t) && decide (t % W = (i : Int))

/-- events exactly at second `s` -/
def cntAt (hist : List Int) (s : Int) : Nat := hist.countP fun t => decide (t = s)

theorem cntGe_succ (hist : List Int) (s : Int) :
    cntGe hist s = cntGe hist (s + 1) + cntAt hist s := by
  unfold cntGe cntAt
  induction hist with
  | nil => simp
  | cons t ts ih =>
    simp only [List.countP_cons, ih, decide_eq_true_eq]
    repeat' split
    all_goals omega

theorem cntGeMod_succ (W : Int) (hist : List Int) (s : Int) (i : Nat) :
    cntGeMod W hist s i = cntGeMod W hist (s + 1) i + (if s % W = (i : Int) then cntAt hist s else 0) := by
  unfold cntGeMod cntAt
  induction hist with
  | nil => simp
  | cons t ts ih =>
    simp only [List.countP_cons, ih, Bool.and_eq_true, decide_eq_true_eq]
    by_cases h3 : t = s
    · subst h3
      repeat' split
      all_goals omega
    · repeat' split
      all_goals omega

/-- Two seconds less than a window apart never share a bucket. -/
theorem mod_inj (W s t : Int) (h1 : s < t) (h2 : t < s + W) : t % W ≠ s % W := by
  intro h
  rw [Int.emod_eq_emod_iff_emod_sub_eq_zero] at h
  rw [Int.emod_eq_of_lt (by omega) (by omega)] at h
  omega

theorem cntGeMod_same_zero (W : Int) (hist : List Int) (s : Int) (i : Nat)
    (hlt : ∀ t ∈ hist, t < s + W) (hi : s % W = (i : Int)) :
    cntGeMod W hist (s + 1) i = 0 := by
  unfold cntGeMod
  rw [List.countP_eq_zero]
  intro t ht
  have := hlt t ht
  simp only [Bool.and_eq_true, decide_eq_true_eq, not_and]
  intro h1 h2
  exact mod_inj W s t (by omega) this (by rw [h2, hi])

theorem cntGe_zero_of_lt (hist : List Int) (s : Int) (h : ∀ t ∈ hist, t < s) : cntGe hist s = 0 := by
  unfold cntGe
  rw [List.countP_eq_zero]
  intro t ht
  have := h t ht
  simp only [decide_eq_true_eq]; omega

theorem cntGeMod_le (W : Int) (hist : List Int) (s : Int) (i : Nat) : cntGeMod W hist s i ≤ cntGe hist s := by
  unfold cntGeMod cntGe
  induction hist with
  | nil => simp
  | cons t ts ih =>
    simp only [List.countP_cons]
    by_cases h1 : s ≤ t <;> by_cases h2 : t % W = (i : Int) <;> simp [h1, h2] <;> omega

theorem bget_set (b : List (Option Int)) (i j : Nat) (v : Option Int) (hi : i < b.length) :
    bget (b.set i v) j = if i = j then bval v else bget b j := by
  unfold bget
  rw [List.getElem?_set]
  by_cases h : i = j
  · subst h; simp [hi]
  · simp [h]

theorem bget_replicate (n i : Nat) : bget (List.replicate n none) i = 0 := by
  unfold bget
  rw [List.getElem?_replicate]
  split <;> rfl

/-! ### `slide` -/

/-- What the window holds when its start is `S`: bucket `i` counts the events
    of the history at or after `S` whose second is `≡ i (mod W)`, and
    `allErrorCount` counts the events at or after `S`. -/
structure Holds (W m : Int) (sw : SlidingWindow) (hist : List Int) (S : Int) : Prop where
  en : sw.enabled = true
  hW : sw.windowSizeSec = W
  hm : sw.fuseMinErrorCount = m
  len : sw.buckets.length = W.toNat
  start : sw.startSec = S
  bk : ∀ i : Nat, i < W.toNat → bget sw.buckets i = cntGeMod W hist S i
  all : sw.allErrorCount = cntGe hist S

/-- The expiry loop of `slide` never panics and moves the start from `s` to
    `s + n`, provided no recorded event lies at or beyond `s + W`. -/
theorem slideLoop_spec (W : Int) (hW : 1 ≤ W) (hist : List Int) (n : Nat) :
    ∀ (s : Int) (b : List (Option Int)) (all : Int),
      0 ≤ s → b.length = W.toNat → (∀ t ∈ hist, t < s + W) →
      (∀ i : Nat, i < W.toNat → bget b i = cntGeMod W hist s i) → all = cntGe hist s →
      ∃ b' all', slideLoop W n s b all = .ok (b', all') ∧ b'.length = W.toNat ∧
        (∀ i : Nat, i < W.toNat → bget b' i = cntGeMod W hist (s + n) i) ∧
        all' = cntGe hist (s + n) := by
  induction n with
  | zero =>
    intro s b all _ hlen _ hb hall
    exact ⟨b, all, rfl, hlen, by simpa using hb, by simpa using hall⟩
  | succ n ih =>
    intro s b all hs hlen hlt hb hall
    have hidx : Int.tmod s W = s % W := Int.tmod_eq_emod_of_nonneg hs
    have h0 : 0 ≤ s % W := Int.emod_nonneg s (by omega)
    have hltW : s % W < W := Int.emod_lt_of_pos s (by omega)
    have hk : (s % W).toNat < W.toNat := by omega
    have hkb : (s % W).toNat < b.length := by omega
    have hcast : (((s % W).toNat : Nat) : Int) = s % W := by omega
    -- the bucket of second s holds exactly the events at second s
    have hself : bget b (s % W).toNat = cntAt hist s := by
      rw [hb _ hk, cntGeMod_succ, cntGeMod_same_zero W hist s _ hlt hcast.symm]
      simp [hcast]
    -- state after this iteration
    have key : ∀ (b1 : List (Option Int)) (all1 : Int),
        b1.length = W.toNat →
        (∀ j : Nat, bget b1 j = if (s % W).toNat = j then 0 else bget b j) →
        all1 = all - bget b (s % W).toNat →
        ∃ b' all', slideLoop W n (s + 1) b1 all1 = .ok (b', all') ∧ b'.length = W.toNat ∧
          (∀ i : Nat, i < W.toNat → bget b' i = cntGeMod W hist (s + (n + 1 : Nat)) i) ∧
          all' = cntGe hist (s + (n + 1 : Nat)) := by
      intro b1 all1 hl1 hb1 ha1
      have := ih (s + 1) b1 all1 (by omega) hl1 (fun t ht => by have := hlt t ht; omega)
        (by
          intro i hi
          rw [hb1 i]
          by_cases hij : (s % W).toNat = i
          · subst hij
            simp only [if_true]
            rw [cntGeMod_same_zero W hist s _ hlt hcast.symm]; rfl
          · simp only [hij, if_false]
            rw [hb i hi, cntGeMod_succ]
            have : ¬ (s % W = (i : Int)) := by omega
            simp [this])
        (by
          rw [ha1, hself, hall, cntGe_succ hist s]
          omega)
      obtain ⟨b', all', h1, h2, h3, h4⟩ := this
      refine ⟨b', all', h1, h2, ?_, ?_⟩
      · intro i hi
        rw [h3 i hi]
        have : s + 1 + (n : Int) = s + ((n + 1 : Nat) : Int) := by omega
        rw [this]
      · rw [h4]
        have : s + 1 + (n : Int) = s + ((n + 1 : Nat) : Int) := by omega
        rw [this]
    unfold slideLoop
    simp only [hidx, h0, if_true]
    have hget : b[(s % W).toNat]? = some (b[(s % W).toNat]'hkb) := List.getElem?_eq_getElem hkb
    rw [hget]
    cases hv : b[(s % W).toNat]'hkb with
    | none =>
      have hz : bget b (s % W).toNat = 0 := by unfold bget; rw [hget, hv]; rfl
      exact key b all hlen (by
        intro j
        by_cases hij : (s % W).toNat = j
        · subst hij; simp [hz]
        · simp [hij]) (by rw [hz]; omega)
    | some c =>
      have hz : bget b (s % W).toNat = c := by unfold bget; rw [hget, hv]; rfl
      exact key (b.set (s % W).toNat none) (all - c) (by simpa using hlen) (by
        intro j
        rw [bget_set _ _ _ _ hkb]; rfl) (by rw [hz])

/-- `slide` moves the window start forward to `S'` and forgets exactly the
    events before `S'`. -/
theorem slide_spec (W m : Int) (hW : 1 ≤ W) (sw : SlidingWindow) (hist : List Int) (S S' : Int)
    (h : Holds W m sw hist S) (hS : 0 ≤ S) (hlt : ∀ t ∈ hist, t < S + W) (hS' : S < S') :
    ∃ sw', slide sw S' = .ok sw' ∧ Holds W m sw' hist S' := by
  unfold slide
  simp only [h.hW, h.start]
  by_cases hd : S' - S ≥ W
  · simp only [hd, if_true]
    have : ¬ W < 0 := by omega
    simp only [this, if_false]
    refine ⟨_, rfl, ?_⟩
    have hz : cntGe hist S' = 0 := cntGe_zero_of_lt hist S' (fun t ht => by have := hlt t ht; omega)
    exact { en := h.en, hW := rfl, hm := h.hm, len := by simp, start := rfl,
            bk := by
              intro i _
              show bget (List.replicate W.toNat none) i = _
              rw [bget_replicate]
              have := cntGeMod_le W hist S' i
              omega,
            all := by simp [hz] }
  · simp only [hd, if_false]
    obtain ⟨b', all', h1, h2, h3, h4⟩ :=
      slideLoop_spec W hW hist (S' - S).toNat S sw.buckets sw.allErrorCount hS h.len hlt h.bk h.all
    rw [h1]
    have e : S + ((S' - S).toNat : Int) = S' := by omega
    rw [e] at h3 h4
    exact ⟨_, rfl, { en := h.en, hW := rfl, hm := h.hm, len := h2, start := rfl, bk := h3, all := h4 }⟩

/-! ### `Trigger` -/

/-- The invariant between calls: `last` is the second of the latest recorded
    event (0 before the first one). -/
structure Inv (W m : Int) (sw : SlidingWindow) (hist : List Int) (last : Int) : Prop where
  holds : Holds W m sw hist (max 0 (last - W + 1))
  last0 : 0 ≤ last
  le : ∀ t ∈ hist, 0 ≤ t ∧ t ≤ last

theorem inv_new (W m : Int) (hW : 1 ≤ W) (hm : 1 ≤ m) : Inv W m (NewSlidingWindow W m) [] 0 := by
  have hc : ¬ (W ≤ 0 ∨ m ≤ 0) := by omega
  have hs : max 0 ((0 : Int) - W + 1) = 0 := by omega
  refine { holds := ?_, last0 := by omega, le := by simp }
  rw [hs]
  unfold NewSlidingWindow
  simp only [hc, if_false]
  exact { en := rfl, hW := rfl, hm := rfl, len := by simp, start := rfl,
          bk := by intro i _; rw [bget_replicate]; simp [cntGeMod],
          all := by simp [cntGe] }

theorem refCount_eq (W : Int) (hist : List Int) (now : Int) (h : ∀ t ∈ hist, 0 ≤ t ∧ t ≤ now) :
    refCount W hist now = cntGe hist (max 0 (now - W + 1)) := by
  unfold refCount cntGe
  apply List.countP_congr
  intro t ht
  have := h t ht
  simp only [Bool.and_eq_true, decide_eq_true_eq]
  omega

/-- One `Trigger` call at a second `now ≥ last`: no panic, the invariant is
    re-established for the extended history, and the result says whether the
    trailing window holds at least `m` events. -/
theorem trigger_step (W m : Int) (hW : 1 ≤ W) (sw : SlidingWindow) (hist : List Int) (last now : Int)
    (h : Inv W m sw hist last) (hnow : last ≤ now) :
    ∃ sw', Trigger sw now = .ok (sw', decide ((refCount W (hist ++ [now]) now : Int) ≥ m)) ∧
      Inv W m sw' (hist ++ [now]) now := by
  have hh := h.holds
  have hl0 := h.last0
  have hnow0 : 0 ≤ now := by omega
  -- after the optional slide the window starts at S' = max 0 (now - W + 1)
  have hmid : ∃ sw1, (if now - W + 1 > sw.startSec then slide sw (now - W + 1) else R.ok sw) = .ok sw1 ∧
      Holds W m sw1 hist (max 0 (now - W + 1)) := by
    rw [hh.start]
    by_cases hc : now - W + 1 > max 0 (last - W + 1)
    · simp only [hc, if_true]
      have e : max 0 (now - W + 1) = now - W + 1 := by omega
      rw [e]
      exact slide_spec W m hW sw hist _ _ hh (by omega)
        (fun t ht => by have := (h.le t ht).2; omega) hc
    · simp only [hc, if_false]
      have e : max 0 (now - W + 1) = max 0 (last - W + 1) := by omega
      rw [e]
      exact ⟨sw, rfl, hh⟩
  obtain ⟨sw1, hs1, h1⟩ := hmid
  have hidx : Int.tmod now W = now % W := Int.tmod_eq_emod_of_nonneg hnow0
  have h0 : 0 ≤ now % W := Int.emod_nonneg now (by omega)
  have hltW : now % W < W := Int.emod_lt_of_pos now (by omega)
  have hkb : (now % W).toNat < sw1.buckets.length := by rw [h1.len]; omega
  have hcast : (((now % W).toNat : Nat) : Int) = now % W := by omega
  have hSle : max 0 (now - W + 1) ≤ now := by omega
  have hget : sw1.buckets[(now % W).toNat]? = some (sw1.buckets[(now % W).toNat]'hkb) :=
    List.getElem?_eq_getElem hkb
  have hle' : ∀ t ∈ hist ++ [now], 0 ≤ t ∧ t ≤ now := by
    intro t ht
    rcases List.mem_append.mp ht with ht | ht
    · have := h.le t ht; omega
    · simp at ht; omega
  have hall : sw1.allErrorCount + 1 = cntGe (hist ++ [now]) (max 0 (now - W + 1)) := by
    rw [h1.all]; unfold cntGe
    rw [List.countP_append, List.countP_singleton]
    simp [hSle]
  have hW0 : ¬ (W = 0) := by omega
  refine ⟨{ sw1 with
            buckets := sw1.buckets.set (now % W).toNat
              (some ((match sw1.buckets[(now % W).toNat]'hkb with | none => 0 | some c => c) + 1)),
            allErrorCount := sw1.allErrorCount + 1 }, ?_, ?_⟩
  · unfold Trigger
    simp only [hh.en, hh.hW, Bool.not_true, Bool.false_eq_true, if_false, hW0]
    rw [hs1]
    simp only [hidx, h0, if_true, hget, h1.hm]
    rw [refCount_eq W _ now hle', ← hall]
    rfl
  · refine { holds := ?_, last0 := hnow0, le := hle' }
    exact { en := h1.en, hW := h1.hW, hm := h1.hm, len := by simpa using h1.len, start := h1.start,
            all := hall,
            bk := by
              intro i hi
              show bget (sw1.buckets.set _ _) i = _
              rw [bget_set _ _ _ _ hkb]
              have hold := h1.bk i hi
              unfold cntGeMod at hold ⊢
              rw [List.countP_append, List.countP_singleton]
              by_cases hij : (now % W).toNat = i
              · subst hij
                have hb : bget sw1.buckets (now % W).toNat =
                    (match sw1.buckets[(now % W).toNat]'hkb with | none => 0 | some c => c) := by
                  unfold bget; rw [hget]
                  cases sw1.buckets[(now % W).toNat]'hkb <;> rfl
                simp only [if_true, bval]
                rw [← hb, hold]
                simp [hSle, hcast]
              · have : ¬ (now % W = (i : Int)) := by omega
                simp only [hij, if_false]
                rw [hold]
                simp [this] }

/-! ### the reference behaviour of a history of `Trigger` calls -/

/-- `last ≤ t₁ ≤ t₂ ≤ …` -/
def NonDecrFrom : Int → List Int → Prop
  | _, [] => True
  | last, t :: ts => last ≤ t ∧ NonDecrFrom t ts

instance decNonDecrFrom : (a : Int) → (l : List Int) → Decidable (NonDecrFrom a l)
  | _, [] => isTrue trivial
  | a, t :: ts => by
    unfold NonDecrFrom
    exact @instDecidableAnd _ _ _ (decNonDecrFrom t ts)

theorem runTriggers_inv (W m : Int) (hW : 1 ≤ W) (ts : List Int) :
    ∀ (sw : SlidingWindow) (pre : List Int) (last : Int),
      Inv W m sw pre last → NonDecrFrom last ts →
      ∃ sw' last', runTriggers sw ts = .ok (sw', specRun W m pre ts) ∧ Inv W m sw' (pre ++ ts) last' ∧
        ∀ c, last ≤ c → (∀ t ∈ ts, t ≤ c) → last' ≤ c := by
  induction ts with
  | nil => intro sw pre last h _; exact ⟨sw, last, rfl, by simpa using h, fun c hc _ => hc⟩
  | cons t ts ih =>
    intro sw pre last h hnd
    obtain ⟨sw1, e1, h1⟩ := trigger_step W m hW sw pre last t h hnd.1
    obtain ⟨sw2, last', e2, h2, h3⟩ := ih sw1 (pre ++ [t]) t h1 hnd.2
    refine ⟨sw2, last', ?_, by simpa using h2, ?_⟩
    · simp only [runTriggers, e1, e2, specRun]
    · intro c _ hall
      exact h3 c (hall t (by simp)) (fun x hx => hall x (by simp [hx]))

/-- **C26 (whole histories).** For every window `W ≥ 1`, threshold `m ≥ 1` and
    every non-decreasing history of non-negative timestamps (any length,
    repeats and gaps allowed), no `Trigger` call panics and the k-th call
    returns `true` exactly when the number of events recorded in the trailing
    `W` seconds (the current second included) has reached `m`. -/
theorem runTriggers_eq_spec (W m : Int) (hW : 1 ≤ W) (hm : 1 ≤ m) (ts : List Int)
    (hnd : NonDecrFrom 0 ts) :
    ∃ sw', runTriggers (NewSlidingWindow W m) ts = .ok (sw', specRun W m [] ts) := by
  obtain ⟨sw', _, e, _, _⟩ := runTriggers_inv W m hW ts _ [] 0 (inv_new W m hW hm) hnd
  exact ⟨sw', e⟩

example : NonDecrFrom 0 [3, 3, 5, 9, 20] := by decide
example : (runTriggers (NewSlidingWindow 3 2) [3, 3, 5, 9, 20]).isPanic = false ∧
    specRun 3 2 [] [3, 3, 5, 9, 20] = [false, true, true, false, false] := by decide

/-- **C26 (one call).** After any admissible history `hist`, the call at a
    second `now` not before the last recorded one returns `true` iff the
    trailing window holds at least `m` events — "exactly when": both
    directions, errors older than the window never count. -/
theorem trigger_iff (W m : Int) (hW : 1 ≤ W) (hm : 1 ≤ m) (hist : List Int) (now : Int)
    (hnd : NonDecrFrom 0 (hist ++ [now])) :
    ∃ sw rs sw' r, runTriggers (NewSlidingWindow W m) hist = .ok (sw, rs) ∧
      Trigger sw now = .ok (sw', r) ∧
      (r = true ↔ (refCount W (hist ++ [now]) now : Int) ≥ m) := by
  -- run the whole history including `now`, then peel the last call off
  obtain ⟨swf, lastf, e, _, _⟩ := runTriggers_inv W m hW (hist ++ [now]) _ [] 0 (inv_new W m hW hm) hnd
  have peel : ∀ (l : List Int) (sw0 : SlidingWindow) (pre : List Int) (swf : SlidingWindow),
      runTriggers sw0 (l ++ [now]) = .ok (swf, specRun W m pre (l ++ [now])) →
      ∃ sw rs sw' r, runTriggers sw0 l = .ok (sw, rs) ∧ Trigger sw now = .ok (sw', r) ∧
        r = decide ((refCount W (pre ++ l ++ [now]) now : Int) ≥ m) := by
    intro l
    induction l with
    | nil =>
      intro sw0 pre swf he
      simp only [List.nil_append, runTriggers, specRun] at he
      cases ht : Trigger sw0 now with
      | ok p =>
        obtain ⟨sw1, r⟩ := p
        rw [ht] at he
        simp only [R.ok.injEq, Prod.mk.injEq, List.cons.injEq, and_true] at he
        exact ⟨sw0, [], sw1, r, rfl, ht, by simpa using he.2⟩
      | fail => rw [ht] at he; simp at he
      | panic => rw [ht] at he; simp at he
    | cons x xs ih =>
      intro sw0 pre swf he
      simp only [List.cons_append, runTriggers, specRun] at he
      cases ht : Trigger sw0 x with
      | ok p =>
        obtain ⟨sw1, r1⟩ := p
        rw [ht] at he
        simp only at he
        cases hr : runTriggers sw1 (xs ++ [now]) with
        | ok q =>
          obtain ⟨sw2, rs2⟩ := q
          rw [hr] at he
          simp only [R.ok.injEq, Prod.mk.injEq, List.cons.injEq] at he
          obtain ⟨sw, rs, sw', r, a1, a2, a3⟩ := ih sw1 (pre ++ [x]) sw2 (by rw [hr, he.2.2])
          refine ⟨sw, r1 :: rs, sw', r, ?_, a2, by simpa using a3⟩
          simp only [runTriggers, ht, a1]
        | fail => rw [hr] at he; simp at he
        | panic => rw [hr] at he; simp at he
      | fail => rw [ht] at he; simp at he
      | panic => rw [ht] at he; simp at he
  obtain ⟨sw, rs, sw', r, a1, a2, a3⟩ := peel hist _ [] swf e
  exact ⟨sw, rs, sw', r, a1, a2, by rw [a3]; simp⟩

example : NonDecrFrom 0 ([10, 11, 12] ++ [13]) := by decide

/-- Errors older than the window never count: the answer of a call does not
    change when events at or before `now - W` are removed from the history. -/
theorem old_errors_never_count (W : Int) (hist : List Int) (now : Int) :
    refCount W hist now = refCount W (hist.filter fun t => decide (now - W < t)) now := by
  unfold refCount
  rw [List.countP_filter]
  apply List.countP_congr
  intro t _
  simp only [Bool.and_eq_true, decide_eq_true_eq]
  omega

/-! ### a disabled breaker never fires -/

/-- **C26 (disabled).** With a non-positive window or threshold the breaker is
    disabled: no call ever returns `true` (and none panics), whatever the
    timestamps. -/
theorem disabled_never (W m : Int) (h : W ≤ 0 ∨ m ≤ 0) (ts : List Int) :
    runTriggers (NewSlidingWindow W m) ts = .ok (NewSlidingWindow W m, List.replicate ts.length false) := by
  have hd : (NewSlidingWindow W m).enabled = false := by unfold NewSlidingWindow; simp [h]
  generalize NewSlidingWindow W m = sw at hd
  induction ts with
  | nil => rfl
  | cons t ts ih =>
    have : Trigger sw t = .ok (sw, false) := by unfold Trigger; simp [hd]
    simp only [runTriggers, this, ih, List.length_cons, List.replicate_succ]

example : (NewSlidingWindow 0 3).enabled = false ∧ (NewSlidingWindow 5 0).enabled = false := by decide

/-! ### the gate in front of the window: `TryFuse` -/

/-- **C26 (other errors never count).** `TryFuse` with anything but a
    `mysql.ConnTypeError` value leaves the node — status and window — untouched. -/
theorem non_conn_error_ignored (n : Node) (e : ErrKind) (now : Int) (he : e ≠ .conn) :
    TryFuse n e now = .ok n := by
  unfold TryFuse
  cases hf : n.fuse with
  | none => rfl
  | some sw =>
    have : AsConnError e = false := by cases e <;> simp_all [AsConnError]
    simp only [this]
    split <;> simp

/-- Without both strategies the breaker is not installed: nothing happens. -/
theorem no_strategy_ignored (n : Node) (e : ErrKind) (now : Int) (h : n.fuse = none ∨ n.hasRecovery = false) :
    TryFuse n e now = .ok n := by
  unfold TryFuse
  cases hf : n.fuse with
  | none => rfl
  | some sw =>
    rcases h with h | h
    · rw [hf] at h; cases h
    · simp [h]

/-- the wall clock never goes back between operations -/
def ClockFrom : Int → List Op → Prop
  | _, [] => True
  | cur, .tryFuse _ now :: os => cur ≤ now ∧ ClockFrom now os
  | cur, .getConn _ now :: os => cur ≤ now ∧ ClockFrom now os
  | cur, .setUp :: os => ClockFrom cur os

instance decClockFrom : (a : Int) → (l : List Op) → Decidable (ClockFrom a l)
  | _, [] => isTrue trivial
  | a, .tryFuse _ now :: os => by
    unfold ClockFrom
    exact @instDecidableAnd _ _ _ (decClockFrom now os)
  | a, .getConn _ now :: os => by
    unfold ClockFrom
    exact @instDecidableAnd _ _ _ (decClockFrom now os)
  | a, .setUp :: os => by
    unfold ClockFrom
    exact decClockFrom a os

theorem runOps_inv (W m : Int) (hW : 1 ≤ W) (ops : List Op) :
    ∀ (sw : SlidingWindow) (rec : List Int) (last cur : Int) (up : Bool),
      Inv W m sw rec last → last ≤ cur → ClockFrom cur ops →
      ∃ n', runOps { up := up, fuse := some sw, hasRecovery := true } ops = .ok (n', specOps W m rec up ops) := by
  induction ops with
  | nil => intro sw rec last cur up _ _ _; exact ⟨_, rfl⟩
  | cons o os ih =>
    intro sw rec last cur up h hlc hck
    have fuseCase : ∀ (now : Int), cur ≤ now → ClockFrom now os →
        ∃ n', (match TryFuse { up := up, fuse := some sw, hasRecovery := true } .conn now with
          | .ok n1 => (match runOps n1 os with
              | .ok (n2, rs) => R.ok (n2, n1.up :: rs) | .fail => .fail | .panic => .panic)
          | .fail => .fail | .panic => .panic) =
          .ok (n', (up && !decide ((refCount W (rec ++ [now]) now : Int) ≥ m)) ::
                specOps W m (rec ++ [now]) (up && !decide ((refCount W (rec ++ [now]) now : Int) ≥ m)) os) := by
      intro now hn hck'
      obtain ⟨sw1, e1, h1⟩ := trigger_step W m hW sw rec last now h (by omega)
      unfold TryFuse
      simp only [AsConnError, Bool.not_true, Bool.false_eq_true, if_false, e1]
      by_cases hf : (refCount W (rec ++ [now]) now : Int) ≥ m
      · simp only [hf, decide_true, Bool.not_true, Bool.false_eq_true, if_false, Bool.and_false]
        obtain ⟨n', e2⟩ := ih sw1 (rec ++ [now]) now now false h1 (by omega) hck'
        exact ⟨n', by rw [e2]⟩
      · simp only [hf, decide_false, Bool.not_false, if_true, Bool.and_true]
        obtain ⟨n', e2⟩ := ih sw1 (rec ++ [now]) now now up h1 (by omega) hck'
        exact ⟨n', by rw [e2]⟩
    cases o with
    | setUp =>
      obtain ⟨n', e⟩ := ih sw rec last cur true h hlc hck
      exact ⟨n', by simp only [runOps, step, specOps, e]⟩
    | tryFuse e now =>
      by_cases he : e = .conn
      · subst he
        obtain ⟨n', e2⟩ := fuseCase now hck.1 hck.2
        exact ⟨n', by simp only [runOps, step, specOps, if_true]; exact e2⟩
      · have hi := non_conn_error_ignored { up := up, fuse := some sw, hasRecovery := true } e now he
        obtain ⟨n', e2⟩ := ih sw rec last now up h (by have := hck.1; omega) hck.2
        exact ⟨n', by simp only [runOps, step, specOps, he, if_false, hi, e2]⟩
    | getConn e now =>
      by_cases hc : up = true ∧ e = .conn
      · obtain ⟨hu, he⟩ := hc
        subst hu; subst he
        obtain ⟨n', e2⟩ := fuseCase now hck.1 hck.2
        refine ⟨n', ?_⟩
        simp only [runOps, step, specOps, getConnWithFuse, if_true, and_self, Bool.true_and] at e2 ⊢
        exact e2
      · obtain ⟨n', e2⟩ := ih sw rec last now up h (by have := hck.1; omega) hck.2
        refine ⟨n', ?_⟩
        simp only [runOps, step, specOps, hc, if_false, getConnWithFuse]
        by_cases hu : up = true
        · have he : e ≠ .conn := fun x => hc ⟨hu, x⟩
          have hi := non_conn_error_ignored { up := up, fuse := some sw, hasRecovery := true } e now he
          simp only [hu, if_true] at hi ⊢
          subst hu
          simp only [hi, e2]
        · have hf : up = false := by simpa using hu
          subst hf
          simp only [Bool.false_eq_true, if_false, e2]

/-- **C26 (the replica's status).** For a replica with the breaker installed
    (window `W ≥ 1`, threshold `m ≥ 1`, a recovery strategy), any initial
    status and every sequence of `TryFuse` calls with errors of any kind,
    reads routed to it and health-check recoveries under a clock that never
    goes back: nothing panics and after every step the status is exactly the
    one of the reference — the node is marked down by a step iff that step
    recorded a connection error and the number of connection errors in the
    trailing `W` seconds then reached `m`. -/
theorem runOps_eq_spec (W m : Int) (hW : 1 ≤ W) (hm : 1 ≤ m) (up : Bool) (ops : List Op)
    (hck : ClockFrom 0 ops) :
    ∃ n', runOps { up := up, fuse := some (NewSlidingWindow W m), hasRecovery := true } ops =
      .ok (n', specOps W m [] up ops) :=
  runOps_inv W m hW ops _ [] 0 0 up (inv_new W m hW hm) (by omega) hck

/-- The same for a window that already recorded the errors `pre` (this is the
    shape the correspondence check runs: the window is preloaded through
    `Trigger`, then the operations run at the current second). -/
theorem runOps_preloaded_eq_spec (W m : Int) (hW : 1 ≤ W) (hm : 1 ≤ m) (pre : List Int) (cur : Int)
    (up : Bool) (ops : List Op) (hpre : NonDecrFrom 0 pre) (hcur : 0 ≤ cur) (hle : ∀ t ∈ pre, t ≤ cur)
    (hck : ClockFrom cur ops) :
    ∃ sw n', runTriggers (NewSlidingWindow W m) pre = .ok (sw, specRun W m [] pre) ∧
      runOps { up := up, fuse := some sw, hasRecovery := true } ops = .ok (n', specOps W m pre up ops) := by
  obtain ⟨sw, last', e, hinv, hl⟩ := runTriggers_inv W m hW pre _ [] 0 (inv_new W m hW hm) hpre
  obtain ⟨n', e2⟩ := runOps_inv W m hW ops sw pre last' cur up (by simpa using hinv) (hl cur hcur hle) hck
  exact ⟨sw, n', e, e2⟩

example : ClockFrom 0 [.tryFuse .conn 5, .tryFuse .other 5, .getConn .conn 6, .setUp, .getConn .conn 9] := by decide
example : specOps 3 2 [] true [.tryFuse .conn 5, .tryFuse .other 5, .getConn .conn 6, .setUp, .getConn .conn 9]
    = [true, true, false, true, true] := by decide

/-- **C26 (disabled / not installed, status level).** A node whose breaker is
    disabled (non-positive window or threshold) or not installed is never
    marked down by `TryFuse` or by reads, whatever the errors and the clock. -/
theorem disabled_node_never_fused (n : Node) (W m : Int)
    (h : n.fuse = none ∨ n.hasRecovery = false ∨ (n.fuse = some (NewSlidingWindow W m) ∧ (W ≤ 0 ∨ m ≤ 0)))
    (e : ErrKind) (now : Int) : TryFuse n e now = .ok n := by
  rcases h with h | h | ⟨h1, h2⟩
  · exact no_strategy_ignored n e now (Or.inl h)
  · exact no_strategy_ignored n e now (Or.inr h)
  · unfold TryFuse
    rw [h1]
    have hd : (NewSlidingWindow W m).enabled = false := by unfold NewSlidingWindow; simp [h2]
    have : Trigger (NewSlidingWindow W m) now = .ok (NewSlidingWindow W m, false) := by
      unfold Trigger; simp [hd]
    simp only [this]
    cases n with
    | mk up fuse hasRecovery =>
      simp only at h1
      subst h1
      cases hasRecovery <;> cases hc : AsConnError e <;> simp

/-! ### outside the quantified histories (documented, not part of the property)

  A clock that goes back is not covered by the property ("every non-decreasing
  sequence"); the window then over-counts.  A negative timestamp makes
  `now % windowSizeSec` negative and the index expression panics. -/

theorem clock_back_overcounts_witness :
    (runTriggers (NewSlidingWindow 3 2) [10, 8]).isPanic = false ∧
    (match runTriggers (NewSlidingWindow 3 2) [10, 8] with | .ok (_, rs) => rs | _ => []) = [false, true] ∧
    refCount 3 [10, 8] 8 = 1 := by decide

theorem negative_time_panics_witness : Trigger (NewSlidingWindow 3 2) (-1) = .panic := by decide

end GaeaVerif.C26
