import GaeaVerif.Lemmas.RouteLists
/-
  C01 — Sharded reads are routed to every table that can hold a matching row.
  Theorems about `Model/Route.lean` (the tie to proxy/plan is `gvh run C01`).
-/
namespace GaeaVerif.C01
open GaeaVerif.Route

/-- What the theorem assumes about the row under consideration: it is stored in
    the sub table `placeVal x`, which is one of the rule's listed tables. -/
structure RowOK (r : Rule) (placeVal : Int → Int) (x : Int) : Prop where
  sorted : Sorted r.idxs
  inIdxs : placeVal x ∈ r.idxs
  firstLe : r.first ≤ placeVal x
  leLast : placeVal x ≤ r.last

/-- Well-formedness of the rule with respect to the literals of a condition. -/
structure LitsOK (r : Rule) (placeVal : Int → Int) (ls : List Lit) : Prop where
  /-- a literal that `FindTableIndex` places denotes a value, and is placed where rows with that value live -/
  place_den : ∀ l ∈ ls, ∀ i, l.place = some i → ∃ v, l.rank = some v ∧ placeVal v = i
  /-- range-type rules place values monotonically -/
  mono : r.isRange = true → ∀ a b : Int, a ≤ b → placeVal a ≤ placeVal b
  /-- `EqualStart(v, i)` only if every smaller value lives in an earlier table -/
  eqStart : r.isRange = true → ∀ l ∈ ls, l.eqStart = true → ∀ i v, l.place = some i → l.rank = some v →
      ∀ y : Int, y < v → placeVal y < i

theorem LitsOK.sub {r : Rule} {pv : Int → Int} {ls ls' : List Lit} (h : LitsOK r pv ls)
    (hs : ∀ l ∈ ls', l ∈ ls) : LitsOK r pv ls' :=
  ⟨fun l hl => h.place_den l (hs l hl), h.mono, fun hr l hl => h.eqStart hr l (hs l hl)⟩

theorem inverse_holds (op : Cmp) (x v : Int) : op.inverse.holds x v = op.holds v x := by
  cases op <;> simp only [Cmp.inverse, Cmp.holds]
  · exact Bool.eq_iff_iff.mpr (by simp; constructor <;> intro h <;> exact h.symm)
  · exact Bool.eq_iff_iff.mpr (by simp; constructor <;> intro h <;> exact fun e => h e.symm)
  all_goals exact Bool.eq_iff_iff.mpr (by simp)

/-- the comparison the router actually evaluates, in column-left form -/
def normOp (litLeft : Bool) (op : Cmp) : Cmp := if litLeft then op.inverse else op

theorem cmp_sound' (r : Rule) (pv : Int → Int) (x : Int) (op : Cmp) (l : Lit) (is : List Int)
    (hrow : RowOK r pv x) (hl : LitsOK r pv [l])
    (hf : findTableIndexes r op true l = some is) :
    Sorted is ∧ (∀ v, l.rank = some v → op.holds x v = true → pv x ∈ is) := by
  unfold findTableIndexes at hf
  simp only [Bool.not_true, Bool.false_eq_true, ↓reduceIte] at hf
  have all : Sorted r.idxs ∧ (∀ v, l.rank = some v → op.holds x v = true → pv x ∈ r.idxs) :=
    ⟨hrow.sorted, fun _ _ _ => hrow.inIdxs⟩
  cases op <;> simp only at hf
  · -- eq
    cases hp : l.place with
    | none => simp [hp] at hf
    | some i =>
      simp [hp] at hf; subst hf
      refine ⟨by simp [Sorted], ?_⟩
      intro v hv hx
      obtain ⟨v', hv', hpv⟩ := hl.place_den l (by simp) i hp
      rw [hv] at hv'; cases hv'
      simp [Cmp.holds] at hx; subst hx; simp [hpv]
  · simp at hf; subst hf; exact all
  all_goals
    by_cases hr : r.isRange = true
    case neg => simp [hr] at hf; subst hf; exact all
    simp only [hr, ↓reduceIte] at hf
    cases hp : l.place with
    | none => simp [hp] at hf
    | some i =>
      simp [hp] at hf; subst hf
      refine ⟨makeList_sorted _ _, ?_⟩
      intro v hv hx
      obtain ⟨v', hv', hpv⟩ := hl.place_den l (by simp) i hp
      rw [hv] at hv'; cases hv'
      rw [makeList_mem]
      have hm := hl.mono hr
      have hfst := hrow.firstLe
      have hlst := hrow.leLast
      simp [Cmp.holds] at hx
      first
        | (have := hm x v (by omega); unfold adjust; split
           · rename_i he; have := hl.eqStart hr l (by simp) he i v hp hv x (by omega); omega
           · omega)
        | (have := hm x v (by omega); omega)
        | (have := hm v x (by omega); omega)


theorem cmp_sound (r : Rule) (pv : Int → Int) (x : Int) (op : Cmp) (l : Lit) (is : List Int)
    (hrow : RowOK r pv x) (hl : LitsOK r pv [l])
    (hf : findTableIndexes r op true l = some is) :
    Sorted is ∧ (∀ v, l.rank = some v → op.holds x v = true → pv x ∈ is) ∧ (l.rank = none → pv x ∈ is) := by
  have hnone : l.rank = none → l.place = none := by
    intro h
    cases hp : l.place with
    | none => rfl
    | some i => obtain ⟨v, hv, _⟩ := hl.place_den l (by simp) i hp; rw [h] at hv; cases hv
  refine ⟨?_, ?_, ?_⟩
  case refine_3 =>
    intro hrk
    have hp := hnone hrk
    unfold findTableIndexes at hf
    cases op <;> simp [hp] at hf
    all_goals first
      | (subst hf; exact hrow.inIdxs)
      | (obtain ⟨_, hf⟩ := hf; subst hf; exact hrow.inIdxs)
  all_goals
    have h' := cmp_sound' r pv x op l is hrow hl hf
    first | exact h'.1 | exact h'.2
theorem allPlaces_ranks (r : Rule) (pv : Int → Int) (ls : List Lit) (ps : List Int)
    (hl : LitsOK r pv ls) (h : allPlaces ls = some ps) :
    ∃ vs, allRanks ls = some vs ∧ ps = vs.map pv := by
  induction ls generalizing ps with
  | nil => simp [allPlaces] at h; subst h; exact ⟨[], rfl, rfl⟩
  | cons l ls ih =>
    simp only [allPlaces] at h
    cases hp : l.place with
    | none => simp [hp] at h
    | some i =>
      cases hq : allPlaces ls with
      | none => simp [hp, hq] at h
      | some is =>
        simp [hp, hq] at h; subst h
        obtain ⟨vs, hvs, his⟩ := ih is (hl.sub (fun l hl => by simp [hl])) hq
        obtain ⟨v, hv, hpv⟩ := hl.place_den l (by simp) i hp
        exact ⟨v :: vs, by simp [allRanks, hv, hvs], by simp [hpv, his]⟩

theorem between_sound (r : Rule) (pv : Int → Int) (x : Int) (neg : Bool) (lo hi : Lit) (is : List Int)
    (hrow : RowOK r pv x) (hl : LitsOK r pv [lo, hi]) (hr : r.isRange = true)
    (hf : shardBetween r neg lo hi = some is) :
    Sorted is ∧ (∀ a b, lo.rank = some a → hi.rank = some b →
      ((decide (a ≤ x) && decide (x ≤ b)) != neg) = true → pv x ∈ is) := by
  unfold shardBetween at hf
  cases hs : lo.place with
  | none => simp [hs] at hf
  | some s =>
    cases he : hi.place with
    | none => simp [hs, he] at hf
    | some e =>
      simp only [hs, he] at hf
      obtain ⟨a', ha', hpa⟩ := hl.place_den lo (by simp) s hs
      obtain ⟨b', hb', hpb⟩ := hl.place_den hi (by simp) e he
      have hm := hl.mono hr
      have hfst := hrow.firstLe
      have hlst := hrow.leLast
      cases neg
      · -- BETWEEN
        simp only [Bool.false_eq_true, ↓reduceIte] at hf
        split at hf <;> (simp at hf; subst hf; refine ⟨makeList_sorted _ _, ?_⟩)
        all_goals
          intro a b ha hb hx
          rw [ha] at ha'; cases ha'; rw [hb] at hb'; cases hb'
          simp at hx
          have h1 := hm a' x hx.1
          have h2 := hm x b' hx.2
          rw [makeList_mem]; omega
      · -- NOT BETWEEN
        simp only [↓reduceIte] at hf
        split at hf
        · simp at hf; subst hf; exact ⟨hrow.sorted, fun _ _ _ _ _ => hrow.inIdxs⟩
        · simp at hf; subst hf
          refine ⟨unionList_sorted _ _ (makeList_sorted _ _) (makeList_sorted _ _), ?_⟩
          intro a b ha hb hx
          rw [ha] at ha'; cases ha'; rw [hb] at hb'; cases hb'
          rw [unionList_mem, makeList_mem, makeList_mem]
          simp at hx
          rcases hx with hx | hx
          · left
            have := hm x a' (by omega)
            unfold adjust; split
            · rename_i heq
              have := hl.eqStart hr lo (by simp) heq s a' hs ha x hx; omega
            · omega
          · right
            have := hm b' x (by omega); omega


theorem and3_true {a b : Option Bool} (h : and3 a b = some true) : a = some true ∧ b = some true := by
  cases a with
  | none => cases b with
    | none => simp [and3] at h
    | some b => cases b <;> simp [and3] at h
  | some a => cases a <;> cases b with
    | none => simp [and3] at h
    | some b => cases b <;> simp [and3] at h ⊢

theorem or3_true {a b : Option Bool} (h : or3 a b = some true) : a = some true ∨ b = some true := by
  cases a with
  | none => cases b with
    | none => simp [or3] at h
    | some b => cases b <;> simp [or3] at h ⊢
  | some a => cases a <;> cases b with
    | none => simp [or3] at h ⊢
    | some b => cases b <;> simp [or3] at h ⊢

/-- Invariant of `handleComparisonExpr`: a reported routing result is an
    ascending list that contains the table of every row on which the
    condition is TRUE. -/
theorem route_inv (r : Rule) (pv : Int → Int) (x : Int) (env : Cond → Option Bool)
    (hrow : RowOK r pv x) (c : Cond) (hl : LitsOK r pv (shardLits c))
    (l : List Int) (h : route r c = some (true, l)) :
    Sorted l ∧ (eval env x c = some true → pv x ∈ l) := by
  induction c generalizing l with
  | paren a ih => simp only [route, eval, shardLits] at h hl ⊢; exact ih hl l h
  | other id => simp [route] at h
  | and a b iha ihb =>
    simp only [route] at h
    have hla : LitsOK r pv (shardLits a) := hl.sub (fun l h => by simp [shardLits, h])
    have hlb : LitsOK r pv (shardLits b) := hl.sub (fun l h => by simp [shardLits, h])
    cases ha : route r a with
    | none => simp [ha] at h
    | some ra =>
      cases hb : route r b with
      | none => simp [ha, hb] at h
      | some rb =>
        obtain ⟨lh, ll⟩ := ra
        obtain ⟨rh, rl⟩ := rb
        simp only [ha, hb, Option.some.injEq] at h
        simp only [eval]
        cases lh <;> cases rh <;> simp [mergeAnd] at h
        · subst h
          have := ihb hlb _ hb
          exact ⟨this.1, fun he => this.2 (and3_true he).2⟩
        · subst h
          have := iha hla _ ha
          exact ⟨this.1, fun he => this.2 (and3_true he).1⟩
        · subst h
          have h1 := iha hla _ ha
          have h2 := ihb hlb _ hb
          refine ⟨interList_sorted _ _ h1.1 h2.1, fun he => ?_⟩
          rw [interList_mem _ _ h1.1 h2.1]
          exact ⟨h1.2 (and3_true he).1, h2.2 (and3_true he).2⟩
  | or a b iha ihb =>
    simp only [route] at h
    have hla : LitsOK r pv (shardLits a) := hl.sub (fun l h => by simp [shardLits, h])
    have hlb : LitsOK r pv (shardLits b) := hl.sub (fun l h => by simp [shardLits, h])
    cases ha : route r a with
    | none => simp [ha] at h
    | some ra =>
      cases hb : route r b with
      | none => simp [ha, hb] at h
      | some rb =>
        obtain ⟨lh, ll⟩ := ra
        obtain ⟨rh, rl⟩ := rb
        simp only [ha, hb, Option.some.injEq] at h
        simp only [eval]
        cases lh <;> cases rh <;> simp [mergeOr] at h
        subst h
        have h1 := iha hla _ ha
        have h2 := ihb hlb _ hb
        refine ⟨unionList_sorted _ _ h1.1 h2.1, fun he => ?_⟩
        rw [unionList_mem]
        rcases or3_true he with he | he
        · exact Or.inl (h1.2 he)
        · exact Or.inr (h2.2 he)
  | cmp onShard litLeft op lit =>
    simp only [route] at h
    by_cases hg : r.isGlobal = true
    · simp [hg] at h
    · simp only [hg, Bool.false_eq_true, ↓reduceIte, Option.map_eq_some_iff, Prod.mk.injEq, true_and] at h
      obtain ⟨is, hf, rfl⟩ := h
      cases onShard with
      | false =>
        simp [findTableIndexes] at hf; subst hf
        exact ⟨hrow.sorted, fun _ => hrow.inIdxs⟩
      | true =>
        have hl' : LitsOK r pv [lit] := hl.sub (fun l h => by simpa [shardLits] using h)
        have := cmp_sound r pv x _ lit is hrow hl' hf
        refine ⟨this.1, ?_⟩
        simp only [eval, Bool.not_true, Bool.false_eq_true, ↓reduceIte]
        cases hrk : lit.rank with
        | none =>
          -- a literal that is placed denotes a value; an unplaced one never prunes
          intro _
          exact this.2.2 hrk
        | some v =>
          simp only [Option.some.injEq]
          intro hx
          apply this.2.1 v hrk
          cases litLeft
          · simpa using hx
          · simp only [↓reduceIte] at hx ⊢; rw [inverse_holds]; exact hx
  | inList onShard neg ls =>
    simp only [route] at h
    by_cases hc : (r.isGlobal || neg || !onShard) = true
    · simp only [hc, ↓reduceIte, Option.some.injEq, Prod.mk.injEq, true_and] at h
      subst h; exact ⟨hrow.sorted, fun _ => hrow.inIdxs⟩
    · simp only [hc, Bool.false_eq_true, ↓reduceIte, Option.map_eq_some_iff, Prod.mk.injEq, true_and] at h
      obtain ⟨ps, hps, rfl⟩ := h
      simp only [Bool.or_eq_true, Bool.not_eq_eq_eq_not, Bool.not_true, not_or, Bool.not_eq_true,
        Bool.not_eq_false] at hc
      obtain ⟨⟨_, hneg⟩, hon⟩ := hc
      subst hneg; subst hon
      have hl' : LitsOK r pv ls := hl.sub (fun l h => by simpa [shardLits] using h)
      obtain ⟨vs, hvs, rfl⟩ := allPlaces_ranks r pv ls ps hl' hps
      refine ⟨sortDedup_sorted _, ?_⟩
      simp only [eval, Bool.not_true, Bool.false_eq_true, ↓reduceIte, hvs, Option.some.injEq,
        Bool.bne_false]
      intro hx
      rw [sortDedup_mem, List.mem_map]
      exact ⟨x, by simpa using hx, rfl⟩
  | between onShard neg lo hi =>
    simp only [route] at h
    by_cases hc : (r.isGlobal || !onShard || !r.isRange) = true
    · simp only [hc, ↓reduceIte, Option.some.injEq, Prod.mk.injEq, true_and] at h
      subst h; exact ⟨hrow.sorted, fun _ => hrow.inIdxs⟩
    · simp only [hc, Bool.false_eq_true, ↓reduceIte, Option.map_eq_some_iff, Prod.mk.injEq, true_and] at h
      obtain ⟨is, hf, rfl⟩ := h
      simp only [Bool.or_eq_true, Bool.not_eq_eq_eq_not, Bool.not_true, not_or, Bool.not_eq_true,
        Bool.not_eq_false] at hc
      obtain ⟨⟨_, hon⟩, hr⟩ := hc
      subst hon
      have hl' : LitsOK r pv [lo, hi] := hl.sub (fun l h => by simpa [shardLits] using h)
      have hb := between_sound r pv x neg lo hi is hrow hl' hr hf
      refine ⟨hb.1, ?_⟩
      -- both bounds are placed, hence denote values
      unfold shardBetween at hf
      cases hs : lo.place with
      | none => simp [hs] at hf
      | some s =>
        cases he : hi.place with
        | none => simp [hs, he] at hf
        | some e =>
          obtain ⟨a, ha, _⟩ := hl'.place_den lo (by simp) s hs
          obtain ⟨b, hb', _⟩ := hl'.place_den hi (by simp) e he
          simp only [eval, Bool.not_true, Bool.false_eq_true, ↓reduceIte, ha, hb', Option.some.injEq]
          exact hb.2 a b ha hb'

/-- **C01 (routing is sound).** For every rule (any kind: `isRange`/`isGlobal`
    flags, any table index list), every condition tree of any depth, every
    truth assignment to the predicates that do not depend on the sharding column
    alone, and every row: if the statement is accepted and routed to `is`, and
    the WHERE condition is TRUE on the row, then the sub table holding the row
    is among the routed tables. -/
theorem route_sound (r : Rule) (pv : Int → Int) (x : Int) (env : Cond → Option Bool)
    (c : Cond) (hrow : RowOK r pv x) (hl : LitsOK r pv (shardLits c))
    (is : List Int) (h : routeStmt r (some c) = some is)
    (htrue : eval env x c = some true) : pv x ∈ is := by
  simp only [routeStmt] at h
  cases hr : route r c with
  | none => simp [hr] at h
  | some res =>
    obtain ⟨has, l⟩ := res
    simp only [hr, Option.some.injEq] at h
    cases has with
    | false => simp at h; subst h; exact hrow.inIdxs
    | true =>
      simp only [↓reduceIte] at h; subst h
      have := route_inv r pv x env hrow c hl l hr
      rw [interList_mem _ _ hrow.sorted this.1]
      exact ⟨hrow.inIdxs, this.2 htrue⟩

/-- A statement without WHERE goes to every sub table. -/
theorem route_no_where (r : Rule) : routeStmt r none = some r.idxs := rfl

/-! ### IN lists -/

theorem allRanks_mem (ls : List Lit) (vs : List Int) (h : allRanks ls = some vs) (x : Int) :
    x ∈ vs ↔ ∃ l ∈ ls, l.rank = some x := by
  induction ls generalizing vs with
  | nil => simp [allRanks] at h; subst h; simp
  | cons l ls ih =>
    simp only [allRanks] at h
    cases hr : l.rank with
    | none => simp [hr] at h
    | some v =>
      cases hq : allRanks ls with
      | none => simp [hr, hq] at h
      | some ws =>
        simp [hr, hq] at h; subst h
        simp only [List.mem_cons, ih ws hq]
        constructor
        · rintro (rfl | ⟨l', hl', hx⟩)
          · exact ⟨l, Or.inl rfl, hr⟩
          · exact ⟨l', Or.inr hl', hx⟩
        · rintro ⟨l', hl' | hl', hx⟩
          · subst hl'; rw [hr] at hx; cases hx; exact Or.inl rfl
          · exact Or.inr ⟨l', hl', hx⟩

theorem allPlaces_filter (ls : List Lit) (ps : List Int) (p : Lit → Bool) (h : allPlaces ls = some ps) :
    ∃ qs, allPlaces (ls.filter p) = some qs := by
  induction ls generalizing ps with
  | nil => exact ⟨[], rfl⟩
  | cons l ls ih =>
    simp only [allPlaces] at h
    cases h1 : l.place with
    | none => simp [h1] at h
    | some j =>
      cases h2 : allPlaces ls with
      | none => simp [h1, h2] at h
      | some js =>
        obtain ⟨qs, hqs⟩ := ih js h2
        simp only [List.filter_cons]
        split
        · exact ⟨j :: qs, by simp only [allPlaces, h1, hqs]⟩
        · exact ⟨qs, hqs⟩

theorem allPlaces_mem (ls : List Lit) (ps : List Int) (h : allPlaces ls = some ps) (l : Lit) (hl : l ∈ ls) :
    ∃ j, l.place = some j := by
  induction ls generalizing ps with
  | nil => simp at hl
  | cons a as ih =>
    simp only [allPlaces] at h
    cases h1 : a.place with
    | none => simp [h1] at h
    | some j =>
      cases h2 : allPlaces as with
      | none => simp [h1, h2] at h
      | some js =>
        simp at hl
        rcases hl with rfl | hl
        · exact ⟨j, h1⟩
        · exact ih js h2 hl

/-- **C01 (IN lists are split soundly).** For `k IN (v₁ … vₙ)` on the sharding
    column the statement sent to table `i` lists only the values placed in `i`.
    On every row stored in table `i` this narrower predicate has the same truth
    value as the original one: a listed value equal to the row's key is placed
    where the row lives. (An empty per-table list is written `1=0`: FALSE, as
    the original is on such rows.) -/
theorem in_rewrite_sound (r : Rule) (pv : Int → Int) (ls : List Lit) (ps : List Int)
    (hl : LitsOK r pv ls) (hp : allPlaces ls = some ps) (x i : Int) (hx : pv x = i) :
    ∃ vs ws, allRanks ls = some vs ∧ allRanks (inValuesFor ls i) = some ws ∧
      (vs.contains x = ws.contains x) := by
  obtain ⟨vs, hvs, _⟩ := allPlaces_ranks r pv ls ps hl hp
  have hsub : ∀ l ∈ inValuesFor ls i, l ∈ ls := fun l h => (List.mem_filter.mp h).1
  obtain ⟨qs, hqs⟩ := allPlaces_filter ls ps (fun l => l.place == some i) hp
  obtain ⟨ws, hws, _⟩ := allPlaces_ranks r pv (inValuesFor ls i) qs (hl.sub hsub) hqs
  refine ⟨vs, ws, hvs, hws, ?_⟩
  rw [Bool.eq_iff_iff]
  simp only [List.contains_iff_mem, allRanks_mem ls vs hvs, allRanks_mem _ ws hws]
  constructor
  · rintro ⟨l, hl', hr⟩
    refine ⟨l, ?_, hr⟩
    simp only [inValuesFor, List.mem_filter, hl', true_and]
    obtain ⟨j, hpl⟩ := allPlaces_mem ls ps hp l hl'
    obtain ⟨v, hv, hpv⟩ := hl.place_den l hl' j hpl
    rw [hr] at hv; cases hv
    simp [hpl, ← hpv, hx]
  · rintro ⟨l, hl', hr⟩
    exact ⟨l, hsub l hl', hr⟩

/-! ### Instances discharging the well-formedness hypotheses -/

/-- What `NumRangeShard` (built by `ParseNumSharding`: table `i` holds
    `[i·limit, (i+1)·limit)`) reports for a literal denoting `v`. -/
def rangeLit (limit n v : Int) : Lit :=
  { rank := some v
    place := if 0 ≤ v ∧ v < n * limit then some (v / limit) else none
    eqStart := v == (v / limit) * limit }

def rangeRule (n : Int) : Rule :=
  { idxs := makeList 0 n, first := 0, last := n - 1, isRange := true, isGlobal := false }

theorem range_litsOK (limit n : Int) (hlim : 0 < limit) (vs : List Int) :
    LitsOK (rangeRule n) (· / limit) (vs.map (rangeLit limit n)) := by
  refine ⟨?_, ?_, ?_⟩
  · intro l hl i hp
    simp only [List.mem_map] at hl
    obtain ⟨v, _, rfl⟩ := hl
    refine ⟨v, rfl, ?_⟩
    simp only [rangeLit] at hp
    split at hp <;> simp at hp
    exact hp
  · intro _ a b hab
    exact Int.ediv_le_ediv hlim hab
  · intro _ l hl he i v hp hv y hy
    simp only [List.mem_map] at hl
    obtain ⟨w, _, rfl⟩ := hl
    simp only [rangeLit] at hp hv he
    cases hv
    split at hp <;> simp at hp
    subst hp
    simp at he
    show y / limit < v / limit
    have h1 : y < (v / limit) * limit := by omega
    exact (Int.ediv_lt_iff_lt_mul hlim).mpr h1

theorem range_rowOK (limit n x : Int) (hlim : 0 < limit) (hx : 0 ≤ x ∧ x < n * limit) :
    RowOK (rangeRule n) (· / limit) x := by
  have h0 : 0 ≤ x / limit := Int.ediv_nonneg hx.1 (by omega)
  have h1 : x / limit < n := (Int.ediv_lt_iff_lt_mul hlim).mpr hx.2
  refine ⟨makeList_sorted _ _, ?_, ?_, ?_⟩
  · simp only [rangeRule]; rw [makeList_mem]; exact ⟨h0, h1⟩
  · exact h0
  · simp only [rangeRule]; omega

/-- the literals of a condition all come from `rangeLit` -/
def RangeCond (limit n : Int) (c : Cond) : Prop := ∃ vs : List Int, shardLits c = vs.map (rangeLit limit n)

/-- **C01 for `range` rules, no residual hypothesis**: with `n` tables of
    `limit` rows each, every accepted statement whose WHERE is TRUE on a row
    with key `x` is routed to the table `x / limit` that holds the row. -/
theorem range_route_sound (limit n x : Int) (hlim : 0 < limit) (hx : 0 ≤ x ∧ x < n * limit)
    (env : Cond → Option Bool) (c : Cond) (hc : RangeCond limit n c) (is : List Int)
    (h : routeStmt (rangeRule n) (some c) = some is) (htrue : eval env x c = some true) :
    x / limit ∈ is := by
  obtain ⟨vs, hvs⟩ := hc
  exact route_sound (rangeRule n) (· / limit) x env c (range_rowOK limit n x hlim hx)
    (hvs ▸ range_litsOK limit n hlim vs) is h htrue

/-- hash, mod and the Mycat rules: nothing but "a literal is placed where rows
    with its value live" is needed (only `=` and `IN` prune). -/
theorem hashlike_litsOK (r : Rule) (pv : Int → Int) (hr : r.isRange = false) (ls : List Lit)
    (h : ∀ l ∈ ls, ∀ i, l.place = some i → ∃ v, l.rank = some v ∧ pv v = i) : LitsOK r pv ls :=
  ⟨h, fun hr' => by rw [hr] at hr'; exact absurd hr' (by decide),
    fun hr' => by rw [hr] at hr'; exact absurd hr' (by decide)⟩

/-! ### Non-vacuity: concrete rules and a three-level condition tree -/

/-- `id < 200 AND (id NOT BETWEEN 120 AND 350 OR other)` on 4 tables of 100 rows:
    routed to tables 0 and 1, and row 150 (TRUE via the opaque atom) lives in table 1. -/
example :
    let c := Cond.and (.cmp true false .lt (rangeLit 100 4 200))
      (.paren (.or (.between true true (rangeLit 100 4 120) (rangeLit 100 4 350)) (.other 0)))
    routeStmt (rangeRule 4) (some c) = some [0, 1] ∧
    eval (fun _ => some true) 150 c = some true ∧ (150 : Int) / 100 ∈ [0, 1] := by
  simp [routeStmt, route, rangeRule, rangeLit, findTableIndexes, adjust, shardBetween, mergeAnd, mergeOr,
    makeList, interList, unionList, eval, and3, or3, Cmp.holds, List.range, List.range.loop]

/-- the defect repaired by the `fix:` commit, as a regression witness on the model:
    had `EqualStart` been true for a mid-period key, `<` would have dropped the
    table of the key itself although smaller keys of the same table match. -/
theorem equalStart_midperiod_unsound_witness :
    let lit : Lit := { rank := some 150, place := some 1, eqStart := true }
    routeStmt (rangeRule 4) (some (.cmp true false .lt lit)) = some [0] ∧
    eval (fun _ => none) 120 (.cmp true false .lt lit) = some true ∧ ¬ ((120 : Int) / 100 ∈ [0]) := by
  simp [routeStmt, route, rangeRule, findTableIndexes, adjust, makeList, interList, eval, Cmp.holds,
    List.range, List.range.loop]

end GaeaVerif.C01
