import GaeaVerif.Lemmas.RouteLists
import GaeaVerif.Lemmas.RouteCalendar
import GaeaVerif.Lemmas.RouteLit
import GaeaVerif.Gen.Consts
/-
  C01 — Sharded reads are routed to every table that can hold a matching row.
  Theorems about `Model/Route.lean` (the tie to proxy/plan is `gvh run C01`).
-/
namespace GaeaVerif.C01
open GaeaVerif.Route

/-- What the theorem assumes about the row under consideration: it is stored in
    the sub table `placeVal x`, which is one of the rule's listed tables. -/
structure RowOK (r : Rule) (placeVal : Int → Int) (x : Int) : Prop where
  sorted : Sorted r.idxs
  inIdxs : placeVal x ∈ r.idxs
  firstLe : r.first ≤ placeVal x
  leLast : placeVal x ≤ r.last

/-- Well-formedness of the rule with respect to the literals of a condition. -/
structure LitsOK (r : Rule) (placeVal : Int → Int) (ls : List Lit) : Prop where
  /-- a literal that `FindTableIndex` places denotes a value, and is placed where rows with that value live -/
  place_den : ∀ l ∈ ls, ∀ i, l.place = some i → ∃ v, l.rank = some v ∧ placeVal v = i
  /-- range-type rules place values monotonically -/
  mono : r.isRange = true → ∀ a b : Int, a ≤ b → placeVal a ≤ placeVal b
  /-- `EqualStart(v, i)` only if every smaller value lives in an earlier table -/
  eqStart : r.isRange = true → ∀ l ∈ ls, l.eqStart = true → ∀ i v, l.place = some i → l.rank = some v →
      ∀ y : Int, y < v → placeVal y < i
  /-- a literal that `FindTableIndex` places denotes exactly its `rank` (not a value with a fraction, not NULL) -/
  placed_exact : ∀ l ∈ ls, ∀ i, l.place = some i → l.sem = .exact

theorem LitsOK.sub {r : Rule} {pv : Int → Int} {ls ls' : List Lit} (h : LitsOK r pv ls)
    (hs : ∀ l ∈ ls', l ∈ ls) : LitsOK r pv ls' :=
  ⟨fun l hl => h.place_den l (hs l hl), h.mono, fun hr l hl => h.eqStart hr l (hs l hl),
    fun l hl => h.placed_exact l (hs l hl)⟩

theorem inverse_holds (op : Cmp) (x v : Int) : op.inverse.holds x v = op.holds v x := by
  cases op <;> simp only [Cmp.inverse, Cmp.holds]
  · exact Bool.eq_iff_iff.mpr (by simp; constructor <;> intro h <;> exact h.symm)
  · exact Bool.eq_iff_iff.mpr (by simp; constructor <;> intro h <;> exact fun e => h e.symm)
  all_goals exact Bool.eq_iff_iff.mpr (by simp)

/-- the comparison the router actually evaluates, in column-left form -/
def normOp (litLeft : Bool) (op : Cmp) : Cmp := if litLeft then op.inverse else op

theorem cmp_sound' (r : Rule) (pv : Int → Int) (x : Int) (op : Cmp) (l : Lit) (is : List Int)
    (hrow : RowOK r pv x) (hl : LitsOK r pv [l])
    (hf : findTableIndexes r op true l = some is) :
    Sorted is ∧ (∀ v, l.rank = some v → op.holds x v = true → pv x ∈ is) := by
  unfold findTableIndexes at hf
  simp only [Bool.not_true, Bool.false_eq_true, ↓reduceIte] at hf
  have all : Sorted r.idxs ∧ (∀ v, l.rank = some v → op.holds x v = true → pv x ∈ r.idxs) :=
    ⟨hrow.sorted, fun _ _ _ => hrow.inIdxs⟩
  cases op <;> simp only at hf
  · -- eq
    cases hp : l.place with
    | none => simp [hp] at hf
    | some i =>
      simp [hp] at hf; subst hf
      refine ⟨by simp [Sorted], ?_⟩
      intro v hv hx
      obtain ⟨v', hv', hpv⟩ := hl.place_den l (by simp) i hp
      rw [hv] at hv'; cases hv'
      simp [Cmp.holds] at hx; subst hx; simp [hpv]
  · simp at hf; subst hf; exact all
  all_goals
    by_cases hr : r.isRange = true
    case neg => simp [hr] at hf; subst hf; exact all
    simp only [hr, ↓reduceIte] at hf
    cases hp : l.place with
    | none => simp [hp] at hf
    | some i =>
      simp [hp] at hf; subst hf
      refine ⟨makeList_sorted _ _, ?_⟩
      intro v hv hx
      obtain ⟨v', hv', hpv⟩ := hl.place_den l (by simp) i hp
      rw [hv] at hv'; cases hv'
      rw [makeList_mem]
      have hm := hl.mono hr
      have hfst := hrow.firstLe
      have hlst := hrow.leLast
      simp [Cmp.holds] at hx
      first
        | (have := hm x v (by omega); unfold adjust; split
           · rename_i he; have := hl.eqStart hr l (by simp) he i v hp hv x (by omega); omega
           · omega)
        | (have := hm x v (by omega); omega)
        | (have := hm v x (by omega); omega)


theorem cmp_sound (r : Rule) (pv : Int → Int) (x : Int) (op : Cmp) (l : Lit) (is : List Int)
    (hrow : RowOK r pv x) (hl : LitsOK r pv [l])
    (hf : findTableIndexes r op true l = some is) :
    Sorted is ∧ (∀ v, l.rank = some v → op.holds x v = true → pv x ∈ is) ∧ (l.rank = none → pv x ∈ is) := by
  have hnone : l.rank = none → l.place = none := by
    intro h
    cases hp : l.place with
    | none => rfl
    | some i => obtain ⟨v, hv, _⟩ := hl.place_den l (by simp) i hp; rw [h] at hv; cases hv
  refine ⟨?_, ?_, ?_⟩
  case refine_3 =>
    intro hrk
    have hp := hnone hrk
    unfold findTableIndexes at hf
    cases op <;> simp [hp] at hf
    all_goals first
      | (subst hf; exact hrow.inIdxs)
      | (obtain ⟨_, hf⟩ := hf; subst hf; exact hrow.inIdxs)
  all_goals
    have h' := cmp_sound' r pv x op l is hrow hl hf
    first | exact h'.1 | exact h'.2
theorem allPlaces_ranks (r : Rule) (pv : Int → Int) (ls : List Lit) (ps : List Int)
    (hl : LitsOK r pv ls) (h : allPlaces ls = some ps) :
    ∃ vs, allRanks ls = some vs ∧ ps = vs.map pv := by
  induction ls generalizing ps with
  | nil => simp [allPlaces] at h; subst h; exact ⟨[], rfl, rfl⟩
  | cons l ls ih =>
    simp only [allPlaces] at h
    cases hp : l.place with
    | none => simp [hp] at h
    | some i =>
      cases hq : allPlaces ls with
      | none => simp [hp, hq] at h
      | some is =>
        simp [hp, hq] at h; subst h
        obtain ⟨vs, hvs, his⟩ := ih is (hl.sub (fun l hl => by simp [hl])) hq
        obtain ⟨v, hv, hpv⟩ := hl.place_den l (by simp) i hp
        exact ⟨v :: vs, by simp [allRanks, hv, hvs], by simp [hpv, his]⟩

theorem allPlaces_mem (ls : List Lit) (ps : List Int) (h : allPlaces ls = some ps) (l : Lit) (hl : l ∈ ls) :
    ∃ j, l.place = some j := by
  induction ls generalizing ps with
  | nil => simp at hl
  | cons a as ih =>
    simp only [allPlaces] at h
    cases h1 : a.place with
    | none => simp [h1] at h
    | some j =>
      cases h2 : allPlaces as with
      | none => simp [h1, h2] at h
      | some js =>
        simp at hl
        rcases hl with rfl | hl
        · exact ⟨j, h1⟩
        · exact ih js h2 hl

/-- a literal `FindTableIndex` does not place never narrows a comparison: when the
    closure of `getFindTableIndexesFunc` answers at all, it answers with every sub table -/
theorem find_unplaced (r : Rule) (op : Cmp) (on : Bool) (l : Lit) (is : List Int)
    (hp : l.place = none) (hf : findTableIndexes r op on l = some is) : is = r.idxs := by
  unfold findTableIndexes at hf
  cases on
  · simp at hf; exact hf.symm
  · cases op <;> simp [hp] at hf
    all_goals first
      | exact hf.symm
      | exact hf.2.symm

/-- a list all of whose literals are placed holds only exactly denoted values -/
theorem allPlaces_exact (r : Rule) (pv : Int → Int) (ls : List Lit) (ps : List Int)
    (hex : ∀ l ∈ ls, ∀ i, l.place = some i → l.sem = .exact) (h : allPlaces ls = some ps) :
    ls.all (fun l => l.sem == .exact) = true := by
  rw [List.all_eq_true]
  intro l hl
  obtain ⟨j, hj⟩ := allPlaces_mem ls ps h l hl
  simp [hex l hl j hj]

theorem between_sound (r : Rule) (pv : Int → Int) (x : Int) (neg : Bool) (lo hi : Lit) (is : List Int)
    (hrow : RowOK r pv x) (hl : LitsOK r pv [lo, hi]) (hr : r.isRange = true)
    (hf : shardBetween r neg lo hi = some is) :
    Sorted is ∧ (∀ a b, lo.rank = some a → hi.rank = some b →
      ((decide (a ≤ x) && decide (x ≤ b)) != neg) = true → pv x ∈ is) := by
  unfold shardBetween at hf
  cases hs : lo.place with
  | none => simp [hs] at hf
  | some s =>
    cases he : hi.place with
    | none => simp [hs, he] at hf
    | some e =>
      simp only [hs, he] at hf
      obtain ⟨a', ha', hpa⟩ := hl.place_den lo (by simp) s hs
      obtain ⟨b', hb', hpb⟩ := hl.place_den hi (by simp) e he
      have hm := hl.mono hr
      have hfst := hrow.firstLe
      have hlst := hrow.leLast
      cases neg
      · -- BETWEEN
        simp only [Bool.false_eq_true, ↓reduceIte] at hf
        split at hf <;> (simp at hf; subst hf; refine ⟨makeList_sorted _ _, ?_⟩)
        all_goals
          intro a b ha hb hx
          rw [ha] at ha'; cases ha'; rw [hb] at hb'; cases hb'
          simp at hx
          have h1 := hm a' x hx.1
          have h2 := hm x b' hx.2
          rw [makeList_mem]; omega
      · -- NOT BETWEEN
        simp only [↓reduceIte] at hf
        split at hf
        · simp at hf; subst hf; exact ⟨hrow.sorted, fun _ _ _ _ _ => hrow.inIdxs⟩
        · simp at hf; subst hf
          refine ⟨unionList_sorted _ _ (makeList_sorted _ _) (makeList_sorted _ _), ?_⟩
          intro a b ha hb hx
          rw [ha] at ha'; cases ha'; rw [hb] at hb'; cases hb'
          rw [unionList_mem, makeList_mem, makeList_mem]
          simp at hx
          rcases hx with hx | hx
          · left
            have := hm x a' (by omega)
            unfold adjust; split
            · rename_i heq
              have := hl.eqStart hr lo (by simp) heq s a' hs ha x hx; omega
            · omega
          · right
            have := hm b' x (by omega); omega


theorem and3_true {a b : Option Bool} (h : and3 a b = some true) : a = some true ∧ b = some true := by
  cases a with
  | none => cases b with
    | none => simp [and3] at h
    | some b => cases b <;> simp [and3] at h
  | some a => cases a <;> cases b with
    | none => simp [and3] at h
    | some b => cases b <;> simp [and3] at h ⊢

theorem or3_true {a b : Option Bool} (h : or3 a b = some true) : a = some true ∨ b = some true := by
  cases a with
  | none => cases b with
    | none => simp [or3] at h
    | some b => cases b <;> simp [or3] at h ⊢
  | some a => cases a <;> cases b with
    | none => simp [or3] at h ⊢
    | some b => cases b <;> simp [or3] at h ⊢

/-- Invariant of `handleComparisonExpr`: a reported routing result is an
    ascending list that contains the table of every row on which the
    condition is TRUE. -/
theorem route_inv (r : Rule) (pv : Int → Int) (x : Int) (env : Cond → Option Bool)
    (hrow : RowOK r pv x) (c : Cond) (hl : LitsOK r pv (shardLits c))
    (l : List Int) (h : route r c = some (true, l)) :
    Sorted l ∧ (eval env x c = some true → pv x ∈ l) := by
  induction c generalizing l with
  | paren a ih => simp only [route, eval, shardLits] at h hl ⊢; exact ih hl l h
  | other id => simp [route] at h
  | and a b iha ihb =>
    simp only [route] at h
    have hla : LitsOK r pv (shardLits a) := hl.sub (fun l h => by simp [shardLits, h])
    have hlb : LitsOK r pv (shardLits b) := hl.sub (fun l h => by simp [shardLits, h])
    cases ha : route r a with
    | none => simp [ha] at h
    | some ra =>
      cases hb : route r b with
      | none => simp [ha, hb] at h
      | some rb =>
        obtain ⟨lh, ll⟩ := ra
        obtain ⟨rh, rl⟩ := rb
        simp only [ha, hb, Option.some.injEq] at h
        simp only [eval]
        cases lh <;> cases rh <;> simp [mergeAnd] at h
        · subst h
          have := ihb hlb _ hb
          exact ⟨this.1, fun he => this.2 (and3_true he).2⟩
        · subst h
          have := iha hla _ ha
          exact ⟨this.1, fun he => this.2 (and3_true he).1⟩
        · subst h
          have h1 := iha hla _ ha
          have h2 := ihb hlb _ hb
          refine ⟨interList_sorted _ _ h1.1 h2.1, fun he => ?_⟩
          rw [interList_mem _ _ h1.1 h2.1]
          exact ⟨h1.2 (and3_true he).1, h2.2 (and3_true he).2⟩
  | or a b iha ihb =>
    simp only [route] at h
    have hla : LitsOK r pv (shardLits a) := hl.sub (fun l h => by simp [shardLits, h])
    have hlb : LitsOK r pv (shardLits b) := hl.sub (fun l h => by simp [shardLits, h])
    cases ha : route r a with
    | none => simp [ha] at h
    | some ra =>
      cases hb : route r b with
      | none => simp [ha, hb] at h
      | some rb =>
        obtain ⟨lh, ll⟩ := ra
        obtain ⟨rh, rl⟩ := rb
        simp only [ha, hb, Option.some.injEq] at h
        simp only [eval]
        cases lh <;> cases rh <;> simp [mergeOr] at h
        subst h
        have h1 := iha hla _ ha
        have h2 := ihb hlb _ hb
        refine ⟨unionList_sorted _ _ h1.1 h2.1, fun he => ?_⟩
        rw [unionList_mem]
        rcases or3_true he with he | he
        · exact Or.inl (h1.2 he)
        · exact Or.inr (h2.2 he)
  | cmp onShard litLeft op lit =>
    simp only [route] at h
    by_cases hg : r.isGlobal = true
    · simp [hg] at h
    · by_cases hw : lit.wide = true
      · -- a literal the rule is not asked to place: every sub table
        simp only [hg, hw, Bool.false_eq_true, ↓reduceIte, Option.some.injEq, Prod.mk.injEq, true_and] at h
        subst h
        exact ⟨hrow.sorted, fun _ => hrow.inIdxs⟩
      simp only [hg, hw, Bool.false_eq_true, ↓reduceIte, Option.map_eq_some_iff, Prod.mk.injEq, true_and] at h
      obtain ⟨is, hf, rfl⟩ := h
      cases onShard with
      | false =>
        simp [findTableIndexes] at hf; subst hf
        exact ⟨hrow.sorted, fun _ => hrow.inIdxs⟩
      | true =>
        have hl' : LitsOK r pv [lit] := hl.sub (fun l h => by simpa [shardLits] using h)
        have := cmp_sound r pv x _ lit is hrow hl' hf
        refine ⟨this.1, ?_⟩
        cases hpl : lit.place with
        | none =>
          -- an unplaced literal never prunes
          intro _
          rw [find_unplaced r _ true lit is hpl hf]; exact hrow.inIdxs
        | some j =>
          -- a placed literal denotes exactly its rank
          have hsem := hl'.placed_exact lit (by simp) j hpl
          simp only [eval, Bool.not_true, Bool.false_eq_true, ↓reduceIte, hsem]
          cases hrk : lit.rank with
          | none =>
            intro _
            exact this.2.2 hrk
          | some v =>
            simp only [Option.some.injEq]
            intro hx
            apply this.2.1 v hrk
            cases litLeft
            · simpa using hx
            · simp only [↓reduceIte] at hx ⊢; rw [inverse_holds]; exact hx
  | inList onShard neg ls =>
    simp only [route] at h
    by_cases hc : (r.isGlobal || neg || !onShard || ls.any (·.wide)) = true
    · simp only [hc, ↓reduceIte, Option.some.injEq, Prod.mk.injEq, true_and] at h
      subst h; exact ⟨hrow.sorted, fun _ => hrow.inIdxs⟩
    · simp only [hc, Bool.false_eq_true, ↓reduceIte, Option.map_eq_some_iff, Prod.mk.injEq, true_and] at h
      obtain ⟨ps, hps, rfl⟩ := h
      rw [Bool.not_eq_true, Bool.or_eq_false_iff, Bool.or_eq_false_iff, Bool.or_eq_false_iff] at hc
      obtain ⟨⟨⟨_, hneg⟩, hon⟩, _⟩ := hc
      have hon : onShard = true := by simpa using hon
      subst hneg; subst hon
      have hl' : LitsOK r pv ls := hl.sub (fun l h => by simpa [shardLits] using h)
      have hall := allPlaces_exact r pv ls ps hl'.placed_exact hps
      obtain ⟨vs, hvs, rfl⟩ := allPlaces_ranks r pv ls ps hl' hps
      refine ⟨sortDedup_sorted _, ?_⟩
      simp only [eval, Bool.not_true, Bool.false_eq_true, ↓reduceIte, hall, hvs, Option.some.injEq,
        Bool.bne_false]
      intro hx
      rw [sortDedup_mem, List.mem_map]
      exact ⟨x, by simpa using hx, rfl⟩
  | between onShard neg lo hi =>
    simp only [route] at h
    by_cases hc : (r.isGlobal || !onShard || !r.isRange || lo.wide || hi.wide) = true
    · simp only [hc, ↓reduceIte, Option.some.injEq, Prod.mk.injEq, true_and] at h
      subst h; exact ⟨hrow.sorted, fun _ => hrow.inIdxs⟩
    · simp only [hc, Bool.false_eq_true, ↓reduceIte, Option.map_eq_some_iff, Prod.mk.injEq, true_and] at h
      obtain ⟨is, hf, rfl⟩ := h
      rw [Bool.not_eq_true, Bool.or_eq_false_iff, Bool.or_eq_false_iff, Bool.or_eq_false_iff,
        Bool.or_eq_false_iff] at hc
      obtain ⟨⟨⟨⟨_, hon⟩, hr⟩, _⟩, _⟩ := hc
      have hon : onShard = true := by simpa using hon
      have hr : r.isRange = true := by simpa using hr
      subst hon
      have hl' : LitsOK r pv [lo, hi] := hl.sub (fun l h => by simpa [shardLits] using h)
      have hb := between_sound r pv x neg lo hi is hrow hl' hr hf
      refine ⟨hb.1, ?_⟩
      -- both bounds are placed, hence denote values
      unfold shardBetween at hf
      cases hs : lo.place with
      | none => simp [hs] at hf
      | some s =>
        cases he : hi.place with
        | none => simp [hs, he] at hf
        | some e =>
          obtain ⟨a, ha, _⟩ := hl'.place_den lo (by simp) s hs
          obtain ⟨b, hb', _⟩ := hl'.place_den hi (by simp) e he
          have hslo := hl'.placed_exact lo (by simp) s hs
          have hshi := hl'.placed_exact hi (by simp) e he
          simp only [eval, Bool.not_true, Bool.false_eq_true, ↓reduceIte, hslo, hshi, beq_self_eq_true,
            Bool.and_self, ha, hb', Option.some.injEq]
          exact hb.2 a b ha hb'

/-- **C01 (routing is sound).** For every rule (any kind: `isRange`/`isGlobal`
    flags, any table index list), every condition tree of any depth, every
    truth assignment to the predicates that do not depend on the sharding column
    alone, and every row: if the statement is accepted and routed to `is`, and
    the WHERE condition is TRUE on the row, then the sub table holding the row
    is among the routed tables. -/
theorem route_sound (r : Rule) (pv : Int → Int) (x : Int) (env : Cond → Option Bool)
    (c : Cond) (hrow : RowOK r pv x) (hl : LitsOK r pv (shardLits c))
    (is : List Int) (h : routeStmt r (some c) = some is)
    (htrue : eval env x c = some true) : pv x ∈ is := by
  simp only [routeStmt] at h
  cases hr : route r c with
  | none => simp [hr] at h
  | some res =>
    obtain ⟨has, l⟩ := res
    simp only [hr, Option.some.injEq] at h
    cases has with
    | false => simp at h; subst h; exact hrow.inIdxs
    | true =>
      simp only [↓reduceIte] at h; subst h
      have := route_inv r pv x env hrow c hl l hr
      rw [interList_mem _ _ hrow.sorted this.1]
      exact ⟨hrow.inIdxs, this.2 htrue⟩

/-- A statement without WHERE goes to every sub table. -/
theorem route_no_where (r : Rule) : routeStmt r none = some r.idxs := rfl

/-! ### IN lists -/

theorem allRanks_mem (ls : List Lit) (vs : List Int) (h : allRanks ls = some vs) (x : Int) :
    x ∈ vs ↔ ∃ l ∈ ls, l.rank = some x := by
  induction ls generalizing vs with
  | nil => simp [allRanks] at h; subst h; simp
  | cons l ls ih =>
    simp only [allRanks] at h
    cases hr : l.rank with
    | none => simp [hr] at h
    | some v =>
      cases hq : allRanks ls with
      | none => simp [hr, hq] at h
      | some ws =>
        simp [hr, hq] at h; subst h
        simp only [List.mem_cons, ih ws hq]
        constructor
        · rintro (rfl | ⟨l', hl', hx⟩)
          · exact ⟨l, Or.inl rfl, hr⟩
          · exact ⟨l', Or.inr hl', hx⟩
        · rintro ⟨l', hl' | hl', hx⟩
          · subst hl'; rw [hr] at hx; cases hx; exact Or.inl rfl
          · exact Or.inr ⟨l', hl', hx⟩

theorem allPlaces_filter (ls : List Lit) (ps : List Int) (p : Lit → Bool) (h : allPlaces ls = some ps) :
    ∃ qs, allPlaces (ls.filter p) = some qs := by
  induction ls generalizing ps with
  | nil => exact ⟨[], rfl⟩
  | cons l ls ih =>
    simp only [allPlaces] at h
    cases h1 : l.place with
    | none => simp [h1] at h
    | some j =>
      cases h2 : allPlaces ls with
      | none => simp [h1, h2] at h
      | some js =>
        obtain ⟨qs, hqs⟩ := ih js h2
        simp only [List.filter_cons]
        split
        · exact ⟨j :: qs, by simp only [allPlaces, h1, hqs]⟩
        · exact ⟨qs, hqs⟩

/-- **C01 (IN lists are split soundly).** For `k IN (v₁ … vₙ)` on the sharding
    column the statement sent to table `i` lists only the values placed in `i`.
    On every row stored in table `i` this narrower predicate has the same truth
    value as the original one: a listed value equal to the row's key is placed
    where the row lives. (An empty per-table list is written `1=0`: FALSE, as
    the original is on such rows.) -/
theorem in_rewrite_sound (r : Rule) (pv : Int → Int) (ls : List Lit) (ps : List Int)
    (hl : LitsOK r pv ls) (hp : allPlaces ls = some ps) (x i : Int) (hx : pv x = i) :
    ∃ vs ws, allRanks ls = some vs ∧ allRanks (inValuesFor ls i) = some ws ∧
      (vs.contains x = ws.contains x) := by
  obtain ⟨vs, hvs, _⟩ := allPlaces_ranks r pv ls ps hl hp
  have hsub : ∀ l ∈ inValuesFor ls i, l ∈ ls := fun l h => (List.mem_filter.mp h).1
  obtain ⟨qs, hqs⟩ := allPlaces_filter ls ps (fun l => l.place == some i) hp
  obtain ⟨ws, hws, _⟩ := allPlaces_ranks r pv (inValuesFor ls i) qs (hl.sub hsub) hqs
  refine ⟨vs, ws, hvs, hws, ?_⟩
  rw [Bool.eq_iff_iff]
  simp only [List.contains_iff_mem, allRanks_mem ls vs hvs, allRanks_mem _ ws hws]
  constructor
  · rintro ⟨l, hl', hr⟩
    refine ⟨l, ?_, hr⟩
    simp only [inValuesFor, List.mem_filter, hl', true_and]
    obtain ⟨j, hpl⟩ := allPlaces_mem ls ps hp l hl'
    obtain ⟨v, hv, hpv⟩ := hl.place_den l hl' j hpl
    rw [hr] at hv; cases hv
    simp [hpl, ← hpv, hx]
  · rintro ⟨l, hl', hr⟩
    exact ⟨l, hsub l hl', hr⟩

/-! ### Instances discharging the well-formedness hypotheses -/

/-- What `NumRangeShard` (built by `ParseNumSharding`: table `i` holds
    `[i·limit, (i+1)·limit)`) reports for a literal denoting `v`. -/
def rangeLit (limit n v : Int) : Lit :=
  { rank := some v
    place := if 0 ≤ v ∧ v < n * limit then some (v / limit) else none
    eqStart := v == (v / limit) * limit }

def rangeRule (n : Int) : Rule :=
  { idxs := makeList 0 n, first := 0, last := n - 1, isRange := true, isGlobal := false }

theorem range_litsOK (limit n : Int) (hlim : 0 < limit) (vs : List Int) :
    LitsOK (rangeRule n) (· / limit) (vs.map (rangeLit limit n)) := by
  refine ⟨?_, ?_, ?_, ?_⟩
  rotate_right
  · intro l hl i _
    simp only [List.mem_map] at hl
    obtain ⟨v, _, rfl⟩ := hl
    rfl
  · intro l hl i hp
    simp only [List.mem_map] at hl
    obtain ⟨v, _, rfl⟩ := hl
    refine ⟨v, rfl, ?_⟩
    simp only [rangeLit] at hp
    split at hp <;> simp at hp
    exact hp
  · intro _ a b hab
    exact Int.ediv_le_ediv hlim hab
  · intro _ l hl he i v hp hv y hy
    simp only [List.mem_map] at hl
    obtain ⟨w, _, rfl⟩ := hl
    simp only [rangeLit] at hp hv he
    cases hv
    split at hp <;> simp at hp
    subst hp
    simp at he
    show y / limit < v / limit
    have h1 : y < (v / limit) * limit := by omega
    exact (Int.ediv_lt_iff_lt_mul hlim).mpr h1

theorem range_rowOK (limit n x : Int) (hlim : 0 < limit) (hx : 0 ≤ x ∧ x < n * limit) :
    RowOK (rangeRule n) (· / limit) x := by
  have h0 : 0 ≤ x / limit := Int.ediv_nonneg hx.1 (by omega)
  have h1 : x / limit < n := (Int.ediv_lt_iff_lt_mul hlim).mpr hx.2
  refine ⟨makeList_sorted _ _, ?_, ?_, ?_⟩
  · simp only [rangeRule]; rw [makeList_mem]; exact ⟨h0, h1⟩
  · exact h0
  · simp only [rangeRule]; omega

/-- the literals of a condition all come from `rangeLit` -/
def RangeCond (limit n : Int) (c : Cond) : Prop := ∃ vs : List Int, shardLits c = vs.map (rangeLit limit n)

/-- **C01 for `range` rules, no residual hypothesis**: with `n` tables of
    `limit` rows each, every accepted statement whose WHERE is TRUE on a row
    with key `x` is routed to the table `x / limit` that holds the row. -/
theorem range_route_sound (limit n x : Int) (hlim : 0 < limit) (hx : 0 ≤ x ∧ x < n * limit)
    (env : Cond → Option Bool) (c : Cond) (hc : RangeCond limit n c) (is : List Int)
    (h : routeStmt (rangeRule n) (some c) = some is) (htrue : eval env x c = some true) :
    x / limit ∈ is := by
  obtain ⟨vs, hvs⟩ := hc
  exact route_sound (rangeRule n) (· / limit) x env c (range_rowOK limit n x hlim hx)
    (hvs ▸ range_litsOK limit n hlim vs) is h htrue

/-- hash, mod and the Mycat rules: nothing but "a literal is placed where rows
    with its value live" is needed (only `=` and `IN` prune). -/
theorem hashlike_litsOK (r : Rule) (pv : Int → Int) (hr : r.isRange = false) (ls : List Lit)
    (h : ∀ l ∈ ls, ∀ i, l.place = some i → ∃ v, l.rank = some v ∧ pv v = i)
    (hex : ∀ l ∈ ls, ∀ i, l.place = some i → l.sem = .exact) : LitsOK r pv ls :=
  ⟨h, fun hr' => by rw [hr] at hr'; exact absurd hr' (by decide),
    fun hr' => by rw [hr] at hr'; exact absurd hr' (by decide), hex⟩

/-! ### Non-vacuity: concrete rules and a three-level condition tree -/

/-- `id < 200 AND (id NOT BETWEEN 120 AND 350 OR other)` on 4 tables of 100 rows:
    routed to tables 0 and 1, and row 150 (TRUE via the opaque atom) lives in table 1. -/
example :
    let c := Cond.and (.cmp true false .lt (rangeLit 100 4 200))
      (.paren (.or (.between true true (rangeLit 100 4 120) (rangeLit 100 4 350)) (.other 0)))
    routeStmt (rangeRule 4) (some c) = some [0, 1] ∧
    eval (fun _ => some true) 150 c = some true ∧ (150 : Int) / 100 ∈ [0, 1] := by
  simp [routeStmt, route, rangeRule, rangeLit, findTableIndexes, adjust, shardBetween, mergeAnd, mergeOr,
    makeList, interList, unionList, eval, and3, or3, Cmp.holds, List.range, List.range.loop]

/-- the defect repaired by the `fix:` commit, as a regression witness on the model:
    had `EqualStart` been true for a mid-period key, `<` would have dropped the
    table of the key itself although smaller keys of the same table match. -/
theorem equalStart_midperiod_unsound_witness :
    let lit : Lit := { rank := some 150, place := some 1, eqStart := true }
    routeStmt (rangeRule 4) (some (.cmp true false .lt lit)) = some [0] ∧
    eval (fun _ => none) 120 (.cmp true false .lt lit) = some true ∧ ¬ ((120 : Int) / 100 ∈ [0]) := by
  simp [routeStmt, route, rangeRule, findTableIndexes, adjust, makeList, interList, eval, Cmp.holds,
    List.range, List.range.loop]

/-! ### The same invariant relative to a set `V` of row values, for several joined tables -/

/-- The sub table `i` under consideration is one of the rule's listed tables. -/
structure TableOK (r : Rule) (i : Int) : Prop where
  sorted : Sorted r.idxs
  inIdxs : i ∈ r.idxs
  firstLe : r.first ≤ i
  leLast : i ≤ r.last

theorem RowOK.table {r : Rule} {pv : Int → Int} {x : Int} (h : RowOK r pv x) : TableOK r (pv x) :=
  ⟨h.sorted, h.inIdxs, h.firstLe, h.leLast⟩

/-- `LitsOK` relative to the set `V` of values a row of the column can hold
    (`LitsOK` is the case `V = everything`): monotone placement and the
    `EqualStart` condition are only required of such values, and a placed
    literal denotes one of them. -/
structure LitsOKOn (V : Int → Prop) (r : Rule) (pv : Int → Int) (ls : List Lit) : Prop where
  place_den : ∀ l ∈ ls, ∀ i, l.place = some i → ∃ v, l.rank = some v ∧ V v ∧ pv v = i
  mono : r.isRange = true → ∀ a b : Int, V a → V b → a ≤ b → pv a ≤ pv b
  eqStart : r.isRange = true → ∀ l ∈ ls, l.eqStart = true → ∀ i v, l.place = some i → l.rank = some v →
      ∀ y : Int, V y → y < v → pv y < i
  placed_exact : ∀ l ∈ ls, ∀ i, l.place = some i → l.sem = .exact

theorem LitsOKOn.sub {V : Int → Prop} {r : Rule} {pv : Int → Int} {ls ls' : List Lit} (h : LitsOKOn V r pv ls)
    (hs : ∀ l ∈ ls', l ∈ ls) : LitsOKOn V r pv ls' :=
  ⟨fun l hl => h.place_den l (hs l hl), h.mono, fun hr l hl => h.eqStart hr l (hs l hl),
    fun l hl => h.placed_exact l (hs l hl)⟩

theorem LitsOK.on {r : Rule} {pv : Int → Int} {ls : List Lit} (h : LitsOK r pv ls) :
    LitsOKOn (fun _ => True) r pv ls :=
  ⟨fun l hl i hp => by obtain ⟨v, hv, hpv⟩ := h.place_den l hl i hp; exact ⟨v, hv, trivial, hpv⟩,
   fun hr a b _ _ hab => h.mono hr a b hab,
   fun hr l hl he i v hp hv y _ hy => h.eqStart hr l hl he i v hp hv y hy,
   h.placed_exact⟩

theorem find_sorted (r : Rule) (i : Int) (ht : TableOK r i) (op : Cmp) (on : Bool) (l : Lit) (is : List Int)
    (hf : findTableIndexes r op on l = some is) : Sorted is := by
  unfold findTableIndexes at hf
  cases on
  · simp at hf; subst hf; exact ht.sorted
  · simp only [Bool.not_true, Bool.false_eq_true, ↓reduceIte] at hf
    cases op <;> simp only at hf
    · cases hp : l.place with
      | none => simp [hp] at hf
      | some j => simp [hp] at hf; subst hf; simp [Sorted]
    · simp at hf; subst hf; exact ht.sorted
    all_goals
      by_cases hr : r.isRange = true
      case neg => simp [hr] at hf; subst hf; exact ht.sorted
      simp only [hr, ↓reduceIte] at hf
      cases hp : l.place with
      | none => simp [hp] at hf
      | some j => simp [hp] at hf; subst hf; exact makeList_sorted _ _

/-- `cmp_sound` for a row value `x` of `V` stored in table `i`. -/
theorem cmp_sound_on (V : Int → Prop) (r : Rule) (pv : Int → Int) (i x : Int) (op : Cmp) (l : Lit) (is : List Int)
    (ht : TableOK r i) (hx : V x) (hpx : pv x = i) (hl : LitsOKOn V r pv [l])
    (hf : findTableIndexes r op true l = some is) :
    (∀ v, l.rank = some v → op.holds x v = true → i ∈ is) ∧ (l.rank = none → i ∈ is) := by
  subst hpx
  have hnone : l.rank = none → l.place = none := by
    intro h
    cases hp : l.place with
    | none => rfl
    | some j => obtain ⟨v, hv, _⟩ := hl.place_den l (by simp) j hp; rw [h] at hv; cases hv
  refine ⟨?_, ?_⟩
  case refine_2 =>
    intro hrk
    have hp := hnone hrk
    unfold findTableIndexes at hf
    cases op <;> simp [hp] at hf
    all_goals first
      | (subst hf; exact ht.inIdxs)
      | (obtain ⟨_, hf⟩ := hf; subst hf; exact ht.inIdxs)
  unfold findTableIndexes at hf
  simp only [Bool.not_true, Bool.false_eq_true, ↓reduceIte] at hf
  have all : ∀ v, l.rank = some v → op.holds x v = true → pv x ∈ r.idxs := fun _ _ _ => ht.inIdxs
  cases op <;> simp only at hf
  · cases hp : l.place with
    | none => simp [hp] at hf
    | some j =>
      simp [hp] at hf; subst hf
      intro v hv hxv
      obtain ⟨v', hv', _, hpv⟩ := hl.place_den l (by simp) j hp
      rw [hv] at hv'; cases hv'
      simp [Cmp.holds] at hxv; subst hxv; simp [hpv]
  · simp at hf; subst hf; exact all
  all_goals
    by_cases hr : r.isRange = true
    case neg => simp [hr] at hf; subst hf; exact all
    simp only [hr, ↓reduceIte] at hf
    cases hp : l.place with
    | none => simp [hp] at hf
    | some j =>
      simp [hp] at hf; subst hf
      intro v hv hxv
      obtain ⟨v', hv', hVv, hpv⟩ := hl.place_den l (by simp) j hp
      rw [hv] at hv'; cases hv'
      rw [makeList_mem]
      have hm := hl.mono hr
      have hfst := ht.firstLe
      have hlst := ht.leLast
      simp [Cmp.holds] at hxv
      first
        | (have := hm x v hx hVv (by omega); unfold adjust; split
           · rename_i he; have := hl.eqStart hr l (by simp) he j v hp hv x hx (by omega); omega
           · omega)
        | (have := hm x v hx hVv (by omega); omega)
        | (have := hm v x hVv hx (by omega); omega)

theorem allPlaces_ranks_on (V : Int → Prop) (r : Rule) (pv : Int → Int) (ls : List Lit) (ps : List Int)
    (hl : LitsOKOn V r pv ls) (h : allPlaces ls = some ps) :
    ∃ vs, allRanks ls = some vs ∧ ps = vs.map pv := by
  induction ls generalizing ps with
  | nil => simp [allPlaces] at h; subst h; exact ⟨[], rfl, rfl⟩
  | cons l ls ih =>
    simp only [allPlaces] at h
    cases hp : l.place with
    | none => simp [hp] at h
    | some i =>
      cases hq : allPlaces ls with
      | none => simp [hp, hq] at h
      | some is =>
        simp [hp, hq] at h; subst h
        obtain ⟨vs, hvs, his⟩ := ih is (hl.sub (fun l hl => by simp [hl])) hq
        obtain ⟨v, hv, _, hpv⟩ := hl.place_den l (by simp) i hp
        exact ⟨v :: vs, by simp [allRanks, hv, hvs], by simp [hpv, his]⟩

theorem shardBetween_sorted (r : Rule) (i : Int) (ht : TableOK r i) (neg : Bool) (lo hi : Lit) (is : List Int)
    (hf : shardBetween r neg lo hi = some is) : Sorted is := by
  unfold shardBetween at hf
  cases hs : lo.place with
  | none => simp [hs] at hf
  | some s =>
    cases he : hi.place with
    | none => simp [hs, he] at hf
    | some e =>
      simp only [hs, he] at hf
      cases neg
      · simp only [Bool.false_eq_true, ↓reduceIte] at hf
        split at hf <;> (simp at hf; subst hf; exact makeList_sorted _ _)
      · simp only [↓reduceIte] at hf
        split at hf
        · simp at hf; subst hf; exact ht.sorted
        · simp at hf; subst hf; exact unionList_sorted _ _ (makeList_sorted _ _) (makeList_sorted _ _)

theorem between_sound_on (V : Int → Prop) (r : Rule) (pv : Int → Int) (i x : Int) (neg : Bool) (lo hi : Lit)
    (is : List Int) (ht : TableOK r i) (hx : V x) (hpx : pv x = i) (hl : LitsOKOn V r pv [lo, hi])
    (hr : r.isRange = true) (hf : shardBetween r neg lo hi = some is) :
    ∃ a b, lo.rank = some a ∧ hi.rank = some b ∧
      (((decide (a ≤ x) && decide (x ≤ b)) != neg) = true → i ∈ is) := by
  subst hpx
  unfold shardBetween at hf
  cases hs : lo.place with
  | none => simp [hs] at hf
  | some s =>
    cases he : hi.place with
    | none => simp [hs, he] at hf
    | some e =>
      simp only [hs, he] at hf
      obtain ⟨a', ha', hVa, hpa⟩ := hl.place_den lo (by simp) s hs
      obtain ⟨b', hb', hVb, hpb⟩ := hl.place_den hi (by simp) e he
      refine ⟨a', b', ha', hb', ?_⟩
      have hm := hl.mono hr
      have hfst := ht.firstLe
      have hlst := ht.leLast
      cases neg
      · simp only [Bool.false_eq_true, ↓reduceIte] at hf
        split at hf <;> (simp at hf; subst hf)
        all_goals
          intro hxab
          simp at hxab
          have h1 := hm a' x hVa hx hxab.1
          have h2 := hm x b' hx hVb hxab.2
          rw [makeList_mem]; omega
      · simp only [↓reduceIte] at hf
        split at hf
        · simp at hf; subst hf; exact fun _ => ht.inIdxs
        · simp at hf; subst hf
          intro hxab
          rw [unionList_mem, makeList_mem, makeList_mem]
          simp at hxab
          rcases hxab with hxab | hxab
          · left
            have := hm x a' hx hVa (by omega)
            unfold adjust; split
            · rename_i heq
              have := hl.eqStart hr lo (by simp) heq s a' hs ha' x hx hxab; omega
            · omega
          · right
            have := hm b' x hVb hx (by omega); omega

/-- every row of the joined tables that is present holds a value of `V` and is stored in sub table `i` -/
def ValsOK (V : Int → Prop) (pv : Int → Int) (i : Int) (vals : Nat → Option Int) : Prop :=
  ∀ t v, vals t = some v → V v ∧ pv v = i

/-- Invariant of `handleComparisonExpr` on a condition of a multi-table
    statement: a reported routing result is an ascending list that contains
    `i` whenever the condition is TRUE on a combined row stored in the sub
    tables number `i`. -/
theorem jroute_inv (V : Int → Prop) (r : Rule) (pv : Int → Int) (i : Int) (env : JCond → Option Bool)
    (vals : Nat → Option Int) (ht : TableOK r i) (hv : ValsOK V pv i vals)
    (c : JCond) (hl : LitsOKOn V r pv (jShardLits c))
    (l : List Int) (h : route r c.erase = some (true, l)) :
    Sorted l ∧ (evalJ env vals c = some true → i ∈ l) := by
  induction c generalizing l with
  | paren a ih => simp only [JCond.erase, route, evalJ, jShardLits] at h hl ⊢; exact ih hl l h
  | other id => simp [JCond.erase, route] at h
  | and a b iha ihb =>
    simp only [JCond.erase, route] at h
    have hla : LitsOKOn V r pv (jShardLits a) := hl.sub (fun l h => by simp [jShardLits, h])
    have hlb : LitsOKOn V r pv (jShardLits b) := hl.sub (fun l h => by simp [jShardLits, h])
    cases ha : route r a.erase with
    | none => simp [ha] at h
    | some ra =>
      cases hb : route r b.erase with
      | none => simp [ha, hb] at h
      | some rb =>
        obtain ⟨lh, ll⟩ := ra
        obtain ⟨rh, rl⟩ := rb
        simp only [ha, hb, Option.some.injEq] at h
        simp only [evalJ]
        cases lh <;> cases rh <;> simp [mergeAnd] at h
        · subst h
          have := ihb hlb _ hb
          exact ⟨this.1, fun he => this.2 (and3_true he).2⟩
        · subst h
          have := iha hla _ ha
          exact ⟨this.1, fun he => this.2 (and3_true he).1⟩
        · subst h
          have h1 := iha hla _ ha
          have h2 := ihb hlb _ hb
          refine ⟨interList_sorted _ _ h1.1 h2.1, fun he => ?_⟩
          rw [interList_mem _ _ h1.1 h2.1]
          exact ⟨h1.2 (and3_true he).1, h2.2 (and3_true he).2⟩
  | or a b iha ihb =>
    simp only [JCond.erase, route] at h
    have hla : LitsOKOn V r pv (jShardLits a) := hl.sub (fun l h => by simp [jShardLits, h])
    have hlb : LitsOKOn V r pv (jShardLits b) := hl.sub (fun l h => by simp [jShardLits, h])
    cases ha : route r a.erase with
    | none => simp [ha] at h
    | some ra =>
      cases hb : route r b.erase with
      | none => simp [ha, hb] at h
      | some rb =>
        obtain ⟨lh, ll⟩ := ra
        obtain ⟨rh, rl⟩ := rb
        simp only [ha, hb, Option.some.injEq] at h
        simp only [evalJ]
        cases lh <;> cases rh <;> simp [mergeOr] at h
        subst h
        have h1 := iha hla _ ha
        have h2 := ihb hlb _ hb
        refine ⟨unionList_sorted _ _ h1.1 h2.1, fun he => ?_⟩
        rw [unionList_mem]
        rcases or3_true he with he | he
        · exact Or.inl (h1.2 he)
        · exact Or.inr (h2.2 he)
  | cmp col litLeft op lit =>
    cases col with
    | free => simp [JCond.erase, route] at h
    | ambiguous => simp [JCond.erase, route] at h
    | col t =>
      simp only [JCond.erase, route] at h
      by_cases hg : r.isGlobal = true
      · simp [hg] at h
      · by_cases hw : lit.wide = true
        · simp [hg, hw] at h; subst h
          exact ⟨ht.sorted, fun _ => ht.inIdxs⟩
        · simp [hg, hw, findTableIndexes] at h; subst h
          exact ⟨ht.sorted, fun _ => ht.inIdxs⟩
    | key t =>
      simp only [JCond.erase, route] at h
      by_cases hg : r.isGlobal = true
      · simp [hg] at h
      · by_cases hw : lit.wide = true
        · simp only [hg, hw, Bool.false_eq_true, ↓reduceIte, Option.some.injEq, Prod.mk.injEq, true_and] at h
          subst h
          exact ⟨ht.sorted, fun _ => ht.inIdxs⟩
        simp only [hg, hw, Bool.false_eq_true, ↓reduceIte, Option.map_eq_some_iff, Prod.mk.injEq, true_and] at h
        obtain ⟨is, hf, rfl⟩ := h
        refine ⟨find_sorted r i ht _ true lit is hf, ?_⟩
        simp only [evalJ]
        cases hx : vals t with
        | none => simp
        | some x =>
          obtain ⟨hVx, hpx⟩ := hv t x hx
          have hl' : LitsOKOn V r pv [lit] := hl.sub (fun l h => by simpa [jShardLits] using h)
          have := cmp_sound_on V r pv i x _ lit is ht hVx hpx hl' hf
          simp only
          cases hpl : lit.place with
          | none =>
            intro _
            rw [find_unplaced r _ true lit is hpl hf]; exact ht.inIdxs
          | some j =>
            have hsem := hl'.placed_exact lit (by simp) j hpl
            simp only [hsem]
            cases hrk : lit.rank with
            | none => intro _; exact this.2 hrk
            | some v =>
              simp only [Option.some.injEq]
              intro hxv
              apply this.1 v hrk
              cases litLeft
              · simpa using hxv
              · simp only [↓reduceIte] at hxv ⊢; rw [inverse_holds]; exact hxv
  | inList col neg ls =>
    cases col with
    | free => simp [JCond.erase, route] at h
    | ambiguous => simp [JCond.erase, route] at h
    | col t =>
      simp [JCond.erase, route] at h; subst h
      exact ⟨ht.sorted, fun _ => ht.inIdxs⟩
    | key t =>
      simp only [JCond.erase, route] at h
      by_cases hc : (r.isGlobal || neg || !true || ls.any (·.wide)) = true
      · simp only [hc, ↓reduceIte, Option.some.injEq, Prod.mk.injEq, true_and] at h
        subst h; exact ⟨ht.sorted, fun _ => ht.inIdxs⟩
      · simp only [hc, Bool.false_eq_true, ↓reduceIte, Option.map_eq_some_iff, Prod.mk.injEq, true_and] at h
        obtain ⟨ps, hps, rfl⟩ := h
        rw [Bool.not_eq_true, Bool.or_eq_false_iff, Bool.or_eq_false_iff, Bool.or_eq_false_iff] at hc
        obtain ⟨⟨⟨_, hneg⟩, _⟩, _⟩ := hc
        subst hneg
        have hl' : LitsOKOn V r pv ls := hl.sub (fun l h => by simpa [jShardLits] using h)
        have hall := allPlaces_exact r pv ls ps hl'.placed_exact hps
        obtain ⟨vs, hvs, rfl⟩ := allPlaces_ranks_on V r pv ls ps hl' hps
        refine ⟨sortDedup_sorted _, ?_⟩
        simp only [evalJ]
        cases hx : vals t with
        | none => simp
        | some x =>
          obtain ⟨_, hpx⟩ := hv t x hx
          simp only [hall, ↓reduceIte, hvs, Option.some.injEq, Bool.bne_false]
          intro hxm
          rw [sortDedup_mem, List.mem_map]
          exact ⟨x, by simpa using hxm, hpx⟩
  | between col neg lo hi =>
    cases col with
    | free => simp [JCond.erase, route] at h
    | ambiguous => simp [JCond.erase, route] at h
    | col t =>
      simp [JCond.erase, route] at h; subst h
      exact ⟨ht.sorted, fun _ => ht.inIdxs⟩
    | key t =>
      simp only [JCond.erase, route] at h
      by_cases hc : (r.isGlobal || !true || !r.isRange || lo.wide || hi.wide) = true
      · simp only [hc, ↓reduceIte, Option.some.injEq, Prod.mk.injEq, true_and] at h
        subst h; exact ⟨ht.sorted, fun _ => ht.inIdxs⟩
      · simp only [hc, Bool.false_eq_true, ↓reduceIte, Option.map_eq_some_iff, Prod.mk.injEq, true_and] at h
        obtain ⟨is, hf, rfl⟩ := h
        rw [Bool.not_eq_true, Bool.or_eq_false_iff, Bool.or_eq_false_iff, Bool.or_eq_false_iff,
          Bool.or_eq_false_iff] at hc
        obtain ⟨⟨⟨⟨_, _⟩, hr⟩, _⟩, _⟩ := hc
        have hr : r.isRange = true := by simpa using hr
        refine ⟨shardBetween_sorted r i ht neg lo hi is hf, ?_⟩
        simp only [evalJ]
        cases hx : vals t with
        | none => simp
        | some x =>
          obtain ⟨hVx, hpx⟩ := hv t x hx
          have hl' : LitsOKOn V r pv [lo, hi] := hl.sub (fun l h => by simpa [jShardLits] using h)
          obtain ⟨a, b, ha, hb, hab⟩ := between_sound_on V r pv i x neg lo hi is ht hVx hpx hl' hr hf
          have hex : lo.sem = .exact ∧ hi.sem = .exact := by
            unfold shardBetween at hf
            cases hs : lo.place with
            | none => simp [hs] at hf
            | some s =>
              cases he : hi.place with
              | none => simp [hs, he] at hf
              | some e => exact ⟨hl'.placed_exact lo (by simp) s hs, hl'.placed_exact hi (by simp) e he⟩
          simp only [hex.1, hex.2, beq_self_eq_true, Bool.and_self, ↓reduceIte, ha, hb, Option.some.injEq]
          exact hab

theorem joinsLits_cons (j : JoinStep) (rest : List JoinStep) :
    joinsLits (j :: rest) = optLits j.on ++ joinsLits rest := by
  unfold joinsLits; rw [List.flatMap_cons]

/-- `handleJoinTree`: starting from a sorted list that contains `i`, the result
    is sorted, unchanged when the tree does not restrict, and still contains `i`
    when the combined row is a row of the joined table. -/
theorem routeJoins_sound (V : Int → Prop) (r : Rule) (pv : Int → Int) (i : Int) (env : JCond → Option Bool)
    (vals : Nat → Option Int) (ht : TableOK r i) (hv : ValsOK V pv i vals) (joins : List JoinStep)
    (hl : LitsOKOn V r pv (joinsLits joins)) (restricts : Bool) (acc acc' : List Int)
    (h : routeJoins r acc joins restricts = some acc') (hs : Sorted acc) :
    Sorted acc' ∧ (restricts = false → acc' = acc) ∧
      (i ∈ acc → inJoin env vals joins → i ∈ acc') := by
  induction joins generalizing restricts acc' with
  | nil => simp [routeJoins] at h; subst h; exact ⟨hs, fun _ => rfl, fun hi _ => hi⟩
  | cons j rest ih =>
    rw [joinsLits_cons] at hl
    have hlr : LitsOKOn V r pv (joinsLits rest) := hl.sub (fun l h => by simp [h])
    simp only [routeJoins] at h
    by_cases hu : j.usingQualified = true
    · simp [hu] at h
    · simp only [hu, Bool.false_eq_true, ↓reduceIte] at h
      cases h1 : routeJoins r acc rest (restricts && j.tp != .right) with
      | none => simp [h1] at h
      | some acc1 =>
        simp only [h1] at h
        obtain ⟨s1, hfalse1, hmem1⟩ := ih hlr _ acc1 h1
        -- membership of `i` in `acc1` for a row of the join
        have hmem : i ∈ acc → inJoin env vals (j :: rest) → i ∈ acc1 := by
          intro hi hin
          cases htp : j.tp with
          | inner => simp only [inJoin, htp] at hin; exact hmem1 hi hin.1
          | left => simp only [inJoin, htp] at hin; exact hmem1 hi hin.1
          | right =>
            have : acc1 = acc := hfalse1 (by simp [htp])
            rw [this]; exact hi
        cases hon : j.on with
        | none =>
          simp only [hon, Option.some.injEq] at h; subst h
          refine ⟨s1, ?_, hmem⟩
          intro hr; exact hfalse1 (by simp [hr])
        | some c =>
          simp only [hon] at h
          have hlc : LitsOKOn V r pv (jShardLits c) := hl.sub (fun l h => by simp [hon, optLits, h])
          cases hrc : routeJ r c with
          | none => simp [hrc] at h
          | some res =>
            obtain ⟨has, l⟩ := res
            simp only [hrc, Option.some.injEq] at h
            by_cases hcond : (has && (restricts && j.tp == .inner)) = true
            · simp only [hcond, ↓reduceIte] at h; subst h
              simp only [Bool.and_eq_true, beq_iff_eq] at hcond
              obtain ⟨hhas, hres, htp⟩ := hcond
              subst hhas
              have hroute : route r c.erase = some (true, l) := by
                unfold routeJ at hrc; split at hrc
                · simp at hrc
                · exact hrc
              have hinv := jroute_inv V r pv i env vals ht hv c hlc l hroute
              refine ⟨interList_sorted _ _ s1 hinv.1, ?_, ?_⟩
              · intro hr; rw [hr] at hres; cases hres
              · intro hi hin
                rw [interList_mem _ _ s1 hinv.1]
                refine ⟨hmem hi hin, hinv.2 ?_⟩
                simp only [inJoin, htp] at hin
                have := hin.2.2
                simpa [onTrue, hon] using this
            · simp only [hcond, Bool.false_eq_true, ↓reduceIte] at h; subst h
              refine ⟨s1, ?_, hmem⟩
              intro hr; exact hfalse1 (by simp [hr])

/-- **C01 for joined tables (`JOIN … ON`).**  For a SELECT over a sharded table
    and tables linked to it, joined by any left-deep sequence of inner, LEFT and
    RIGHT joins with ON conditions and filtered by WHERE: if the statement is
    accepted and routed to `is`, every combined row of the joined table (SQL
    semantics `inJoin`, NULL extensions included) on which WHERE is TRUE and
    whose present rows are stored in the sub tables number `i` has `i ∈ is`. -/
theorem join_route_sound (V : Int → Prop) (r : Rule) (pv : Int → Int) (i : Int) (env : JCond → Option Bool)
    (vals : Nat → Option Int) (ht : TableOK r i) (hv : ValsOK V pv i vals) (joins : List JoinStep)
    (wh : Option JCond)
    (hl : LitsOKOn V r pv (joinsLits joins ++ optLits wh))
    (is : List Int) (h : routeJoinStmt r joins wh = some is)
    (hin : inJoin env vals joins) (hwh : ∀ c, wh = some c → evalJ env vals c = some true) : i ∈ is := by
  simp only [routeJoinStmt] at h
  cases h1 : routeJoins r r.idxs joins true with
  | none => simp [h1] at h
  | some acc =>
    simp only [h1] at h
    have hlj : LitsOKOn V r pv (joinsLits joins) := hl.sub (fun l h => by simp [h])
    obtain ⟨s1, _, hmem⟩ := routeJoins_sound V r pv i env vals ht hv joins hlj true r.idxs acc h1 ht.sorted
    have hi := hmem ht.inIdxs hin
    cases wh with
    | none => simp at h; subst h; exact hi
    | some c =>
      simp only at h
      have hlc : LitsOKOn V r pv (jShardLits c) := hl.sub (fun l h => by simp [optLits, h])
      cases hrc : routeJ r c with
      | none => simp [hrc] at h
      | some res =>
        obtain ⟨has, l⟩ := res
        simp only [hrc, Option.some.injEq] at h
        cases has with
        | false => simp at h; subst h; exact hi
        | true =>
          simp only [↓reduceIte] at h; subst h
          have hroute : route r c.erase = some (true, l) := by
            unfold routeJ at hrc; split at hrc
            · simp at hrc
            · exact hrc
          have hinv := jroute_inv V r pv i env vals ht hv c hlc l hroute
          rw [interList_mem _ _ s1 hinv.1]
          exact ⟨hi, hinv.2 (hwh c rfl)⟩

/-! ### the single-table statement as a join of one table -/

def toJ : Cond → JCond
  | .paren a => .paren (toJ a)
  | .other id => .other id
  | .and a b => .and (toJ a) (toJ b)
  | .or a b => .or (toJ a) (toJ b)
  | .cmp on litLeft op l => .cmp (if on then .key 0 else .col 0) litLeft op l
  | .inList on neg ls => .inList (if on then .key 0 else .col 0) neg ls
  | .between on neg lo hi => .between (if on then .key 0 else .col 0) neg lo hi

theorem erase_toJ (c : Cond) : (toJ c).erase = c := by
  induction c with
  | paren a ih => simp [toJ, JCond.erase, ih]
  | other id => rfl
  | and a b iha ihb => simp [toJ, JCond.erase, iha, ihb]
  | or a b iha ihb => simp [toJ, JCond.erase, iha, ihb]
  | cmp on litLeft op l => cases on <;> rfl
  | inList on neg ls => cases on <;> rfl
  | between on neg lo hi => cases on <;> rfl

theorem hasAmbiguous_toJ (c : Cond) : (toJ c).hasAmbiguous = false := by
  induction c with
  | paren a ih => simp [toJ, JCond.hasAmbiguous, ih]
  | other id => rfl
  | and a b iha ihb => simp [toJ, JCond.hasAmbiguous, iha, ihb]
  | or a b iha ihb => simp [toJ, JCond.hasAmbiguous, iha, ihb]
  | cmp on litLeft op l => cases on <;> rfl
  | inList on neg ls => cases on <;> rfl
  | between on neg lo hi => cases on <;> rfl

theorem jShardLits_toJ (c : Cond) : jShardLits (toJ c) = shardLits c := by
  induction c with
  | paren a ih => simp [toJ, jShardLits, shardLits, ih]
  | other id => rfl
  | and a b iha ihb => simp [toJ, jShardLits, shardLits, iha, ihb]
  | or a b iha ihb => simp [toJ, jShardLits, shardLits, iha, ihb]
  | cmp on litLeft op l => cases on <;> rfl
  | inList on neg ls => cases on <;> rfl
  | between on neg lo hi => cases on <;> rfl

theorem evalJ_toJ (env : Cond → Option Bool) (x : Int) (c : Cond) :
    evalJ (fun j => env j.erase) (fun _ => some x) (toJ c) = eval env x c := by
  induction c with
  | paren a ih => simp [toJ, evalJ, eval, ih]
  | other id => rfl
  | and a b iha ihb => simp [toJ, evalJ, eval, iha, ihb]
  | or a b iha ihb => simp [toJ, evalJ, eval, iha, ihb]
  | cmp on litLeft op l =>
    cases on
    · rfl
    · simp only [toJ, evalJ, eval, ↓reduceIte, Bool.not_true, Bool.false_eq_true]
      cases l.rank <;> rfl
  | inList on neg ls =>
    cases on
    · rfl
    · simp only [toJ, evalJ, eval, ↓reduceIte, Bool.not_true, Bool.false_eq_true]
      cases allRanks ls <;> rfl
  | between on neg lo hi =>
    cases on
    · rfl
    · simp only [toJ, evalJ, eval, ↓reduceIte, Bool.not_true, Bool.false_eq_true]
      cases lo.rank <;> cases hi.rank <;> rfl

theorem routeJoinStmt_single (r : Rule) (c : Cond) : routeJoinStmt r [] (some (toJ c)) = routeStmt r (some c) := by
  simp [routeJoinStmt, routeJoins, routeJ, hasAmbiguous_toJ, erase_toJ, routeStmt]

/-- **`route_sound` relative to the values `V` a row can hold** (`route_sound`
    is the case `V = everything`): the form the calendar rules need, where
    placement is monotone only on real dates. -/
theorem route_sound_on (V : Int → Prop) (r : Rule) (pv : Int → Int) (x : Int) (env : Cond → Option Bool)
    (c : Cond) (hrow : RowOK r pv x) (hx : V x) (hl : LitsOKOn V r pv (shardLits c))
    (is : List Int) (h : routeStmt r (some c) = some is)
    (htrue : eval env x c = some true) : pv x ∈ is := by
  rw [← routeJoinStmt_single] at h
  refine join_route_sound V r pv (pv x) (fun j => env j.erase) (fun _ => some x) hrow.table
    (fun t v hv => by cases hv; exact ⟨hx, rfl⟩) [] (some (toJ c)) ?_ is h (by simp [inJoin]) ?_
  · simpa [joinsLits, optLits, jShardLits_toJ] using hl
  · intro c' hc'; cases hc'; rw [evalJ_toJ]; exact htrue


open GaeaVerif.ShardGo GaeaVerif.RouteCal

/-! ### Calendar rules (date_year, date_month, date_day): the hypotheses of
    `route_sound_on` discharged from the placement model of C09 and the model of
    the repaired `EqualStart` -/

/-- the rule of a calendar table whose configured periods are `idxs`
    (`GetFirstTableIndex` / `GetLastTableIndex` are its first and last entry) -/
def calRule (idxs : List Int) : Rule :=
  { idxs := idxs, first := idxs.headD 0, last := idxs.getLastD 0, isRange := true, isGlobal := false }

theorem sorted_bounds (l : List Int) (hs : Sorted l) (i : Int) (hi : i ∈ l) : l.headD 0 ≤ i ∧ i ≤ l.getLastD 0 := by
  induction l with
  | nil => simp at hi
  | cons a as ih =>
    rw [Sorted, List.pairwise_cons] at hs
    simp only [List.headD_cons]
    rcases List.mem_cons.mp hi with rfl | hi'
    · refine ⟨Int.le_refl _, ?_⟩
      cases as with
      | nil => simp
      | cons b bs =>
        have hb : (b :: bs).getLastD 0 ∈ (b :: bs) := by
          rw [List.getLastD_eq_getLast?]; simp
          cases h : (b :: bs).getLast? with
          | none => simp at h
          | some z => simpa using List.mem_of_getLast? h
        have := hs.1 _ hb
        simp only [List.getLastD_cons] at *
        omega
    · have h2 := ih hs.2 hi'
      have := hs.1 i hi'
      cases as with
      | nil => simp at hi'
      | cons b bs =>
        simp only [List.getLastD_cons] at *
        omega


theorem calRule_tableOK (idxs : List Int) (hs : Sorted idxs) (i : Int) (hi : i ∈ idxs) : TableOK (calRule idxs) i :=
  ⟨hs, hi, (sorted_bounds idxs hs i hi).1, (sorted_bounds idxs hs i hi).2⟩

/-- The literal the planner sees for a sharding value `key` of a calendar rule:
    what `FindTableIndex(key)` and `EqualStart(key, index)` answer
    (Model/ShardPlace.lean, Model/ShardStart.lean), with the value `rank` it denotes. -/
def calLit (k : CalKind) (civilOf : Int → ShardPlace.Civil) (clockOf : Int → ShardPlace.Clock) (rank : Option Int)
    (key : ShardPlace.Key) : Lit :=
  match k.find civilOf key with
  | .ok i => { rank := rank, place := some i, eqStart := k.equalStart civilOf clockOf key i == .ok true }
  | _ => { rank := rank, place := none, eqStart := false }

/-- a string literal compared with a DATETIME sharding column: it denotes the
    date-time `CalendarSpec.parseSpelling` reads ('YYYY-MM-DD' is midnight) -/
def strLit (k : CalKind) (civilOf : Int → ShardPlace.Civil) (clockOf : Int → ShardPlace.Clock) (s : GoStr) : Lit :=
  calLit k civilOf clockOf ((CalendarSpec.parseSpelling s).map pack) (.str s)

/-- an integer literal compared with an integer (unix timestamp) sharding column -/
def unixLit (k : CalKind) (civilOf : Int → ShardPlace.Civil) (clockOf : Int → ShardPlace.Clock) (v : Int) : Lit :=
  calLit k civilOf clockOf (some v) (.int64 v)

theorem div_pos (k : CalKind) : 0 < k.div := by cases k <;> decide

/-- **Well-formedness of the calendar rules for string keys**, for every list of
    accepted spellings: monotone placement, a placed literal denotes a valid
    date-time stored where it is placed, `EqualStart` only at the first instant
    of the period. -/
theorem str_litsOK (k : CalKind) (idxs : List Int) (civilOf : Int → ShardPlace.Civil)
    (clockOf : Int → ShardPlace.Clock) (ss : List GoStr)
    (hss : ∀ s ∈ ss, (CalendarSpec.parseSpelling s).isSome = true) :
    LitsOKOn VStr (calRule idxs) (pvStr k) (ss.map (strLit k civilOf clockOf)) := by
  refine ⟨?_, ?_, ?_, ?_⟩
  rotate_right
  · intro l hl i _
    simp only [List.mem_map] at hl
    obtain ⟨s, _, rfl⟩ := hl
    simp only [strLit, calLit]; split <;> rfl
  · intro l hl i hp
    simp only [List.mem_map] at hl
    obtain ⟨s, hs, rfl⟩ := hl
    obtain ⟨c, hc⟩ := Option.isSome_iff_exists.mp (hss s hs)
    have hsp := spelled_of_parse s c hc
    have hf := str_place k civilOf s c hsp
    simp only [strLit, calLit, hf, hc, Option.map_some] at hp ⊢
    cases hp
    exact ⟨pack c, rfl, ⟨c, hsp.valid, rfl⟩, rfl⟩
  · intro _ a b _ _ hab
    exact Int.ediv_le_ediv (div_pos k) hab
  · intro _ l hl he i v hp hv y hy hlt
    simp only [List.mem_map] at hl
    obtain ⟨s, hs, rfl⟩ := hl
    obtain ⟨c, hc⟩ := Option.isSome_iff_exists.mp (hss s hs)
    have hsp := spelled_of_parse s c hc
    have hf := str_place k civilOf s c hsp
    simp only [strLit, calLit, hf, hc, Option.map_some] at hp hv he
    cases hp; cases hv
    have he' : k.equalStart civilOf clockOf (.str s) (pvStr k (pack c)) = .ok true := by simpa using he
    exact str_start k civilOf clockOf s c hsp _ he' y hy hlt

/-- **Well-formedness of the calendar rules for unix-timestamp keys** in a zone that satisfies `ZoneOK`. -/
theorem unix_litsOK (k : CalKind) (idxs : List Int) (civilOf : Int → ShardPlace.Civil)
    (clockOf : Int → ShardPlace.Clock) (hz : ZoneOK civilOf clockOf) (vs : List Int)
    (hvs : ∀ v ∈ vs, VUnix civilOf v) :
    LitsOKOn (VUnix civilOf) (calRule idxs) (pvUnix k civilOf) (vs.map (unixLit k civilOf clockOf)) := by
  refine ⟨?_, ?_, ?_, ?_⟩
  rotate_right
  · intro l hl i _
    simp only [List.mem_map] at hl
    obtain ⟨v, _, rfl⟩ := hl
    simp only [unixLit, calLit]; split <;> rfl
  · intro l hl i hp
    simp only [List.mem_map] at hl
    obtain ⟨v, hv, rfl⟩ := hl
    have hf := unix_place k civilOf clockOf hz v (hvs v hv)
    simp only [unixLit, calLit, hf] at hp ⊢
    cases hp
    exact ⟨v, rfl, hvs v hv, rfl⟩
  · intro _ a b _ _ hab
    exact unix_mono k civilOf clockOf hz a b hab
  · intro _ l hl he i w hp hw y _ hlt
    simp only [List.mem_map] at hl
    obtain ⟨v, hv, rfl⟩ := hl
    have hf := unix_place k civilOf clockOf hz v (hvs v hv)
    simp only [unixLit, calLit, hf] at hp hw he
    cases hp
    have hvw : v = w := by simpa using hw
    subst hvw
    have he' : k.equalStart civilOf clockOf (.int64 v) (pvUnix k civilOf v) = .ok true := by simpa using he
    exact unix_start k civilOf clockOf hz v _ (hvs v hv) he' y hlt

/-- every literal compared with the sharding column is an accepted spelling of a date-time -/
def StrCond (k : CalKind) (civilOf : Int → ShardPlace.Civil) (clockOf : Int → ShardPlace.Clock) (c : Cond) : Prop :=
  ∃ ss : List GoStr, (∀ s ∈ ss, (CalendarSpec.parseSpelling s).isSome = true) ∧
    shardLits c = ss.map (strLit k civilOf clockOf)

/-- every literal compared with the sharding column is a timestamp of a year 0 … 9999 -/
def UnixCond (k : CalKind) (civilOf : Int → ShardPlace.Civil) (clockOf : Int → ShardPlace.Clock) (c : Cond) : Prop :=
  ∃ vs : List Int, (∀ v ∈ vs, VUnix civilOf v) ∧ shardLits c = vs.map (unixLit k civilOf clockOf)

/-- **C01 for calendar rules, DATETIME column, no residual hypothesis.**  For a
    `date_year` / `date_month` / `date_day` rule with any ascending list of
    configured periods, every row whose sharding column holds the valid
    date-time `x` and lives in a configured table, and every accepted statement
    whose sharding-column literals are accepted spellings ('YYYY-MM-DD',
    'YYYY-MM-DD hh:mm:ss'): if WHERE is TRUE on the row, the table `YYYY` /
    `YYYYMM` / `YYYYMMDD` of the row is routed.  (String keys do not consult the
    time zone: `civilOf`, `clockOf` are arbitrary.) -/
theorem calendar_route_sound_str (k : CalKind) (idxs : List Int) (hs : Sorted idxs)
    (civilOf : Int → ShardPlace.Civil) (clockOf : Int → ShardPlace.Clock)
    (x : CalendarSpec.DateTime) (hx : x.valid = true)
    (hrow : k.num { year := x.year, month := x.month, day := x.day } ∈ idxs)
    (env : Cond → Option Bool) (c : Cond) (hc : StrCond k civilOf clockOf c) (is : List Int)
    (h : routeStmt (calRule idxs) (some c) = some is) (htrue : eval env (pack x) c = some true) :
    k.num { year := x.year, month := x.month, day := x.day } ∈ is := by
  obtain ⟨ss, hss, hlits⟩ := hc
  rw [← pack_num k x hx] at hrow ⊢
  have ht := calRule_tableOK idxs hs _ hrow
  exact route_sound_on VStr (calRule idxs) (pvStr k) (pack x) env c
    ⟨ht.sorted, ht.inIdxs, ht.firstLe, ht.leLast⟩ ⟨x, hx, rfl⟩
    (hlits ▸ str_litsOK k idxs civilOf clockOf ss hss) is h htrue

/-- **C01 for calendar rules, integer (unix timestamp) column**, in any zone
    satisfying `ZoneOK`. -/
theorem calendar_route_sound_unix (k : CalKind) (idxs : List Int) (hs : Sorted idxs)
    (civilOf : Int → ShardPlace.Civil) (clockOf : Int → ShardPlace.Clock) (hz : ZoneOK civilOf clockOf)
    (x : Int) (hx : VUnix civilOf x) (hrow : k.num (civilOf x) ∈ idxs)
    (env : Cond → Option Bool) (c : Cond) (hc : UnixCond k civilOf clockOf c) (is : List Int)
    (h : routeStmt (calRule idxs) (some c) = some is) (htrue : eval env x c = some true) :
    k.num (civilOf x) ∈ is := by
  obtain ⟨vs, hvs, hlits⟩ := hc
  have ht := calRule_tableOK idxs hs _ hrow
  exact route_sound_on (VUnix civilOf) (calRule idxs) (pvUnix k civilOf) x env c
    ⟨ht.sorted, ht.inIdxs, ht.firstLe, ht.leLast⟩ hx
    (hlits ▸ unix_litsOK k idxs civilOf clockOf hz vs hvs) is h htrue

/-- **C01 for calendar rules (`calendar_route_sound`).**  The only parameter
    left is the time zone of C09, here its offset `off` (`civilOfUnix off`,
    `clockOfUnix off`: `time.Unix(v, 0)` in a zone `off` seconds east of UTC):
    for all three rules, every ascending period list, both column types and
    both key spellings, an accepted statement whose WHERE is TRUE on a row is
    routed to the table of that row. -/
theorem calendar_route_sound (k : CalKind) (idxs : List Int) (hs : Sorted idxs) (off : Int) :
    (∀ (x : CalendarSpec.DateTime), x.valid = true →
      k.num { year := x.year, month := x.month, day := x.day } ∈ idxs →
      ∀ (env : Cond → Option Bool) (c : Cond),
        StrCond k (ShardPlace.civilOfUnix off) (ShardPlace.clockOfUnix off) c → ∀ is : List Int,
        routeStmt (calRule idxs) (some c) = some is → eval env (pack x) c = some true →
        k.num { year := x.year, month := x.month, day := x.day } ∈ is) ∧
    (∀ (x : Int), VUnix (ShardPlace.civilOfUnix off) x → k.num (ShardPlace.civilOfUnix off x) ∈ idxs →
      ∀ (env : Cond → Option Bool) (c : Cond),
        UnixCond k (ShardPlace.civilOfUnix off) (ShardPlace.clockOfUnix off) c → ∀ is : List Int,
        routeStmt (calRule idxs) (some c) = some is → eval env x c = some true →
        k.num (ShardPlace.civilOfUnix off x) ∈ is) :=
  ⟨fun x hx hrow env c hc is h ht =>
      calendar_route_sound_str k idxs hs _ _ x hx hrow env c hc is h ht,
   fun x hx hrow env c hc is h ht =>
      calendar_route_sound_unix k idxs hs _ _ (fixedZone_ok off) x hx hrow env c hc is h ht⟩


/-! #### the joined form for calendar rules -/

/-- **C01 for calendar rules, joined tables, DATETIME columns.**  The present
    rows of the combined row hold valid date-times of the same period `i`. -/
theorem calendar_join_route_sound_str (k : CalKind) (idxs : List Int) (hs : Sorted idxs)
    (civilOf : Int → ShardPlace.Civil) (clockOf : Int → ShardPlace.Clock)
    (i : Int) (hi : i ∈ idxs) (vals : Nat → Option Int) (hv : ValsOK VStr (pvStr k) i vals)
    (env : JCond → Option Bool) (joins : List JoinStep) (wh : Option JCond)
    (hc : ∃ ss : List GoStr, (∀ s ∈ ss, (CalendarSpec.parseSpelling s).isSome = true) ∧
      joinsLits joins ++ optLits wh = ss.map (strLit k civilOf clockOf))
    (is : List Int) (h : routeJoinStmt (calRule idxs) joins wh = some is)
    (hin : inJoin env vals joins) (hwh : ∀ c, wh = some c → evalJ env vals c = some true) : i ∈ is := by
  obtain ⟨ss, hss, hlits⟩ := hc
  exact join_route_sound VStr (calRule idxs) (pvStr k) i env vals (calRule_tableOK idxs hs i hi) hv joins wh
    (hlits ▸ str_litsOK k idxs civilOf clockOf ss hss) is h hin hwh

/-- **C01 for calendar rules, joined tables, unix-timestamp columns**, zone with fixed offset `off`. -/
theorem calendar_join_route_sound_unix (k : CalKind) (idxs : List Int) (hs : Sorted idxs) (off : Int)
    (i : Int) (hi : i ∈ idxs) (vals : Nat → Option Int)
    (hv : ValsOK (VUnix (ShardPlace.civilOfUnix off)) (pvUnix k (ShardPlace.civilOfUnix off)) i vals)
    (env : JCond → Option Bool) (joins : List JoinStep) (wh : Option JCond)
    (hc : ∃ vs : List Int, (∀ v ∈ vs, VUnix (ShardPlace.civilOfUnix off) v) ∧
      joinsLits joins ++ optLits wh = vs.map (unixLit k (ShardPlace.civilOfUnix off) (ShardPlace.clockOfUnix off)))
    (is : List Int) (h : routeJoinStmt (calRule idxs) joins wh = some is)
    (hin : inJoin env vals joins) (hwh : ∀ c, wh = some c → evalJ env vals c = some true) : i ∈ is := by
  obtain ⟨vs, hvs, hlits⟩ := hc
  exact join_route_sound _ (calRule idxs) _ i env vals (calRule_tableOK idxs hs i hi) hv joins wh
    (hlits ▸ unix_litsOK k idxs _ _ (fixedZone_ok off) vs hvs) is h hin hwh

/-! #### non-vacuity of the calendar instances -/

/-- `k < '2017-06-01'` on a date_year table with periods 2016, 2017: both tables
    are routed (the pinned code routed 2016 only), and the row
    '2017-03-05 10:00:00' on which the condition is TRUE lives in table 2017. -/
example :
    strLit .year (ShardPlace.civilOfUnix 0) (ShardPlace.clockOfUnix 0) (ascii "2017-06-01") =
      { rank := some 20170601000000, place := some 2017, eqStart := false } := by decide

example :
    let c := Cond.cmp true false .lt { rank := some 20170601000000, place := some 2017, eqStart := false }
    routeStmt (calRule [2016, 2017]) (some c) = some [2016, 2017] ∧
    eval (fun _ => none) (pack { year := 2017, month := 3, day := 5, hour := 10 }) c = some true := by
  simp [routeStmt, route, calRule, findTableIndexes, adjust, makeList, interList, eval, Cmp.holds, pack,
    List.range, List.range.loop]

/-- `k < '2017-01-01 00:00:00'`: the first instant of 2017, table 2017 is skipped. -/
example :
    strLit .year (ShardPlace.civilOfUnix 0) (ShardPlace.clockOfUnix 0) (ascii "2017-01-01 00:00:00") =
      { rank := some 20170101000000, place := some 2017, eqStart := true } := by decide

example :
    routeStmt (calRule [2016, 2017])
      (some (.cmp true false .lt { rank := some 20170101000000, place := some 2017, eqStart := true })) =
      some [2016] := by
  simp [routeStmt, route, calRule, findTableIndexes, adjust, makeList, interList, List.range, List.range.loop]

/-- the timestamp 1483228800 is 2017-01-01 00:00:00 UTC but 08:00:00 in UTC+8:
    `EqualStart` depends on the zone, as the theorem's parameter says. -/
example :
    unixLit .month (ShardPlace.civilOfUnix 0) (ShardPlace.clockOfUnix 0) 1483228800 =
      { rank := some 1483228800, place := some 201701, eqStart := true } ∧
    unixLit .month (ShardPlace.civilOfUnix 28800) (ShardPlace.clockOfUnix 28800) 1483228800 =
      { rank := some 1483228800, place := some 201701, eqStart := false } := by
  decide

/-! ### hash, mod and the Mycat rules: any placement function -/

/-- the table a placement function `find` (any `Shard.FindForKey`: `HashShard`,
    `ModShard`, the `MycatPartition…Shard`s of C08) gives the integer key `v`;
    rows whose key it rejects are stored nowhere -/
def pvFind (find : ShardPlace.Key → ShardPlace.Out Int) (v : Int) : Int :=
  match find (.int64 v) with
  | .ok i => i
  | _ => -1

/-- an integer literal compared with the sharding column of such a table
    (these shards do not implement `RangeShard`: no `EqualStart`) -/
def findLit (find : ShardPlace.Key → ShardPlace.Out Int) (v : Int) : Lit :=
  { rank := some v
    place := match find (.int64 v) with | .ok i => some i | _ => none
    eqStart := false }

def hashRule (idxs : List Int) : Rule :=
  { idxs := idxs, first := idxs.headD 0, last := idxs.getLastD 0, isRange := false, isGlobal := false }

theorem find_litsOK (find : ShardPlace.Key → ShardPlace.Out Int) (idxs : List Int) (vs : List Int) :
    LitsOK (hashRule idxs) (pvFind find) (vs.map (findLit find)) := by
  apply hashlike_litsOK _ _ rfl
  rotate_left
  · intro l hl i _
    simp only [List.mem_map] at hl
    obtain ⟨v, _, rfl⟩ := hl
    rfl
  intro l hl i hp
  simp only [List.mem_map] at hl
  obtain ⟨v, _, rfl⟩ := hl
  refine ⟨v, rfl, ?_⟩
  simp only [findLit, pvFind] at hp ⊢
  cases hf : find (.int64 v) with
  | ok j => simp [hf] at hp; simpa using hp
  | err k => simp [hf] at hp
  | panic => simp [hf] at hp

/-- **C01 for hash-like rules, no residual hypothesis**: for every placement
    function — in particular `Shard.FindForKey` of the four Mycat shards of C08
    (`mycat_rules_route_sound`) — and every ascending sub-table list, an accepted
    statement whose WHERE is TRUE on a row with key `x` stored in a listed table
    is routed to that table. -/
theorem hashlike_route_sound (find : ShardPlace.Key → ShardPlace.Out Int) (idxs : List Int) (hs : Sorted idxs)
    (x : Int) (hrow : pvFind find x ∈ idxs) (env : Cond → Option Bool) (c : Cond)
    (hc : ∃ vs : List Int, shardLits c = vs.map (findLit find)) (is : List Int)
    (h : routeStmt (hashRule idxs) (some c) = some is) (htrue : eval env x c = some true) :
    pvFind find x ∈ is := by
  obtain ⟨vs, hvs⟩ := hc
  have hb := sorted_bounds idxs hs _ hrow
  exact route_sound (hashRule idxs) (pvFind find) x env c ⟨hs, hrow, hb.1, hb.2⟩
    (hvs ▸ find_litsOK find idxs vs) is h htrue

/-- the instance for the Mycat shards of C08 (`mycat_mod`, `mycat_long`,
    `mycat_string`, `mycat_murmur`), placed by the functions C08 proves equal to Mycat's -/
theorem mycat_rules_route_sound (civilOf : Int → ShardPlace.Civil) (sh : ShardPlace.Shard)
    (idxs : List Int) (hs : Sorted idxs)
    (x : Int) (hrow : pvFind (sh.FindForKey civilOf) x ∈ idxs) (env : Cond → Option Bool) (c : Cond)
    (hc : ∃ vs : List Int, shardLits c = vs.map (findLit (sh.FindForKey civilOf))) (is : List Int)
    (h : routeStmt (hashRule idxs) (some c) = some is) (htrue : eval env x c = some true) :
    pvFind (sh.FindForKey civilOf) x ∈ is :=
  hashlike_route_sound _ idxs hs x hrow env c hc is h htrue

/-- `k = 7 OR k IN (1, 2)` under mycat_mod with 4 databases: tables 1, 2, 3. -/
example :
    let f := ShardPlace.MycatPartitionModShard.FindForKey 4
    findLit f 7 = { rank := some 7, place := some 3, eqStart := false } ∧
    findLit f 1 = { rank := some 1, place := some 1, eqStart := false } ∧
    findLit f 2 = { rank := some 2, place := some 2, eqStart := false } ∧ pvFind f 7 = 3 := by
  decide

example :
    let c := Cond.or (.cmp true false .eq { rank := some 7, place := some 3, eqStart := false })
      (.inList true false [{ rank := some 1, place := some 1, eqStart := false },
        { rank := some 2, place := some 2, eqStart := false }])
    routeStmt (hashRule [0, 1, 2, 3]) (some c) = some [1, 2, 3] := by
  simp [routeStmt, route, hashRule, findTableIndexes, allPlaces, sortDedup, insertUniq, mergeOr, interList,
    unionList]

/-! ### non-vacuity of the joined form, and the repaired defect as a witness -/

/-- `t JOIN c ON t.k = c.k AND c.k >= 250 WHERE t.k < 350` on 4 tables of 100
    rows: routed to tables 2 and 3; the pair of rows (310, 310) is in the join. -/
example :
    let on := JCond.and (.other 0) (.cmp (.key 1) false .ge (rangeLit 100 4 250))
    let wh := JCond.cmp (.key 0) false .lt (rangeLit 100 4 350)
    let joins := [{ tp := .inner, usingQualified := false, on := some on : JoinStep }]
    let vals : Nat → Option Int := fun _ => some 310
    routeJoinStmt (rangeRule 4) joins (some wh) = some [2, 3] ∧
    inJoin (fun _ => some true) vals joins ∧ evalJ (fun _ => some true) vals wh = some true := by
  simp [routeJoinStmt, routeJoins, routeJ, JCond.hasAmbiguous, JCond.erase, route, rangeRule, rangeLit,
    findTableIndexes, adjust, mergeAnd, makeList, interList, inJoin, onTrue, evalJ, and3, Cmp.holds,
    List.range, List.range.loop]

/-- **The defect repaired by the LEFT/RIGHT JOIN fix, on the model.**
    `t LEFT JOIN c ON t.k = 150`: the ON condition is routed to table 1, but
    the row with key 50 (NULL-extended, no partner) is a row of the joined
    table and lives in table 0; the repaired code routes the statement to all
    four tables, intersecting with the ON route — as the pinned code did —
    would have dropped it. -/
theorem outer_join_on_prune_unsound_witness :
    let on := JCond.cmp (.key 0) false .eq (rangeLit 100 4 150)
    let joins := [{ tp := .left, usingQualified := false, on := some on : JoinStep }]
    let vals : Nat → Option Int := fun t => if t = 0 then some 50 else none
    routeJ (rangeRule 4) on = some (true, [1]) ∧
    routeJoinStmt (rangeRule 4) joins none = some [0, 1, 2, 3] ∧
    inJoin (fun _ => none) vals joins ∧ ¬ ((50 : Int) / 100 ∈ interList (rangeRule 4).idxs [1]) := by
  simp [routeJoinStmt, routeJoins, routeJ, JCond.hasAmbiguous, JCond.erase, route, rangeRule, rangeLit,
    findTableIndexes, makeList, interList, inJoin, List.range, List.range.loop]


/-! ### Literal kinds: what the planner routes by, and what MySQL compares the column with

The literals of a statement are now given by kind and value (`RouteLit.SqlLit`:
what the parser delivers).  `RouteLit.litOf fam ct find eqs q` is the literal the
routing model sees for `q` on a rule of family `fam` whose `FindTableIndex` /
`EqualStart` are `find` / `eqs`: `getShardingCompareValue` (`compareValue`)
decides whether the rule is asked at all, `den ct q` is what MySQL compares a
column of type `ct` with.  The theorems below have no hypothesis on the *kind*
of a literal: hexadecimal, bit, decimal and float literals, NULL, and strings
the rule does not read as MySQL does are covered (the planner keeps every sub
table for them).  What remains excluded is a literal of the other type family
than the column (the proxy does not know the column type): a string MySQL does
not read as a number against an integer column of a rule that hashes text, an
integer literal against a string or DATETIME column, a string against a unix
time column. -/

open GaeaVerif.RouteLit GaeaVerif.InsertStored in
/-- The planner never prunes on a literal it does not hand to the rule:
    `k op lit`, `k IN (… lit …)`, `k [NOT] BETWEEN lit AND …` keep every sub table. -/
theorem wide_keeps_all (r : Rule) (hg : r.isGlobal = false) (l : Lit) (hw : l.wide = true) :
    (∀ on ll op, route r (.cmp on ll op l) = some (true, r.idxs)) ∧
    (∀ on neg ls, l ∈ ls → route r (.inList on neg ls) = some (true, r.idxs)) ∧
    (∀ on neg o, route r (.between on neg l o) = some (true, r.idxs) ∧
      route r (.between on neg o l) = some (true, r.idxs)) := by
  refine ⟨fun on ll op => by simp [route, hg, hw], fun on neg ls hl => ?_, fun on neg o => ?_⟩
  · have : ls.any (·.wide) = true := List.any_eq_true.mpr ⟨l, hl, hw⟩
    simp [route, this]
  · simp [route, hw]

open GaeaVerif.RouteLit in
/-- **the kinds the planner never routes by** (the repaired defect 1707815):
    whatever the rule, the column type and the recorded answers of the rule, a
    hexadecimal, bit, decimal or float literal or NULL compared with the
    sharding column keeps every sub table -/
theorem unrouted_kinds_keep_all (r : Rule) (hg : r.isGlobal = false) (fam : Fam) (ct : ColType) (q : SqlLit)
    (p : Option Int) (e : Bool)
    (hq : (∃ b, q = .hex b) ∨ (∃ b, q = .bit b) ∨ (∃ d s, q = .dec d s) ∨ (∃ b, q = .float b) ∨ q = .null)
    (ll : Bool) (op : Cmp) :
    routeStmt r (some (.cmp true ll op (mkLit fam ct q p e))) = some (interList r.idxs r.idxs) := by
  have hw := (mkLit_wide fam ct q p e (wide_kinds fam q hq)).1
  simp [routeStmt, (wide_keeps_all r hg _ hw).1]

open GaeaVerif.RouteLit in
/-- Rules that are not range rules: if every literal handed to the rule is
    `Placed` (denotes exactly a value the rule places in the same table), the
    well-formedness `route_sound` asks for holds. -/
theorem litsOK_of_placed (r : Rule) (hr : r.isRange = false) (fam : Fam) (ct : ColType)
    (find : ShardPlace.Key → ShardPlace.Out Int) (eqs : ShardPlace.Key → Int → Bool) (pv : Int → Int)
    (qs : List SqlLit) (h : ∀ q ∈ qs, Placed fam ct find pv q) :
    LitsOK r pv (qs.map (litOf fam ct find eqs)) := by
  apply hashlike_litsOK r pv hr
  · intro l hl i hp
    simp only [List.mem_map] at hl
    obtain ⟨q, hq, rfl⟩ := hl
    obtain ⟨key, hc, hf, hrk, hsm, _⟩ := litOf_place fam ct find eqs q i hp
    obtain ⟨v, hv, _, hpv⟩ := h q hq key i hc hf
    exact ⟨v, by rw [hrk, hv], hpv⟩
  · intro l hl i hp
    simp only [List.mem_map] at hl
    obtain ⟨q, hq, rfl⟩ := hl
    obtain ⟨key, hc, hf, hrk, hsm, _⟩ := litOf_place fam ct find eqs q i hp
    obtain ⟨v, _, hs, _⟩ := h q hq key i hc hf
    rw [hsm, hs]

open GaeaVerif.RouteLit in
/-- **C01 for hash-like rules over literals of every kind.**  `find` is the
    rule's `FindTableIndex`, `pv` the table of a row by the value of its
    sharding column; the literals compared with the sharding column are any
    list `qs` of SQL literals, each `Placed` (discharged below, family by
    family). -/
theorem litkinds_route_sound (fam : Fam) (ct : ColType) (find : ShardPlace.Key → ShardPlace.Out Int)
    (eqs : ShardPlace.Key → Int → Bool) (pv : Int → Int) (idxs : List Int) (hs : Sorted idxs)
    (x : Int) (hrow : pv x ∈ idxs) (env : Cond → Option Bool) (c : Cond)
    (hc : ∃ qs : List SqlLit, shardLits c = qs.map (litOf fam ct find eqs) ∧ ∀ q ∈ qs, Placed fam ct find pv q)
    (is : List Int) (h : routeStmt (hashRule idxs) (some c) = some is) (htrue : eval env x c = some true) :
    pv x ∈ is := by
  obtain ⟨qs, hqs, hpl⟩ := hc
  have hb := sorted_bounds idxs hs _ hrow
  exact route_sound (hashRule idxs) pv x env c ⟨hs, hrow, hb.1, hb.2⟩
    (hqs ▸ litsOK_of_placed (hashRule idxs) rfl fam ct find eqs pv qs hpl) is h htrue

open GaeaVerif.RouteLit GaeaVerif.InsertStored in
/-- **C01 for the integer rules `mod` and `mycat_long`, every literal kind, no
    residual hypothesis**: `f` is what the rule does with the int64 `NumValue`
    gives it (`ksMod_is_viaNum`, `mycatLong_is_viaNum` in Props/C03.lean), the
    row holds the integer `x` and lives where the rule places it.  Strings the
    rule reads (`'7'`, `'+7'`, `'007'`) are placed where MySQL's reading of them
    lives; ` ' 7'`, `'7.0'`, `'abc'`, `0x10`, `1.5`, `1e0`, NULL keep every table. -/
theorem num_rules_route_sound (f : Int → ShardPlace.Out Int) (eqs : ShardPlace.Key → Int → Bool)
    (idxs : List Int) (hs : Sorted idxs) (x : Int) (hrow : pvNum f x ∈ idxs)
    (env : Cond → Option Bool) (c : Cond)
    (hc : ∃ qs : List SqlLit, (∀ q ∈ qs, q.wf) ∧ shardLits c = qs.map (litOf .num .int (viaNum f) eqs))
    (is : List Int) (h : routeStmt (hashRule idxs) (some c) = some is) (htrue : eval env x c = some true) :
    pvNum f x ∈ is := by
  obtain ⟨qs, hwf, hqs⟩ := hc
  exact litkinds_route_sound .num .int (viaNum f) eqs (pvNum f) idxs hs x hrow env c
    ⟨qs, hqs, fun q hq => num_placed f q (hwf q hq)⟩ is h htrue

open GaeaVerif.RouteLit GaeaVerif.InsertStored in
/-- **C01 for `mycat_mod`, every literal kind, no residual hypothesis** (`g`:
    what the rule does with the big integer it reads, `mycatMod_is_viaBig`). -/
theorem mycat_mod_route_sound (g : Int → ShardPlace.Out Int) (eqs : ShardPlace.Key → Int → Bool)
    (idxs : List Int) (hs : Sorted idxs) (x : Int) (hrow : pvBig g x ∈ idxs)
    (env : Cond → Option Bool) (c : Cond)
    (hc : ∃ qs : List SqlLit, shardLits c = qs.map (litOf .big .int (viaBig g) eqs))
    (is : List Int) (h : routeStmt (hashRule idxs) (some c) = some is) (htrue : eval env x c = some true) :
    pvBig g x ∈ is := by
  obtain ⟨qs, hqs⟩ := hc
  exact litkinds_route_sound .big .int (viaBig g) eqs (pvBig g) idxs hs x hrow env c
    ⟨qs, hqs, fun q _ => big_placed g q⟩ is h htrue

open GaeaVerif.RouteLit GaeaVerif.InsertStored in
/-- **C01 for the kingshard `hash` rule, integer key column** (after d3d5b3a):
    every literal kind; of the strings, those MySQL reads as a number
    (`looksLikeNumber`: `'7'`, `'007'`, `' 7'`, `'+7'`, `'7.0'`, `'7e0'` …).  A
    string MySQL does not read as a number is compared with an integer column
    only under the warning "Truncated incorrect DOUBLE value"; the rule places
    it by the checksum of its text, for the string columns it also serves. -/
theorem hash_route_sound_intcol (n : Nat) (hn : n ≠ 0) (eqs : ShardPlace.Key → Int → Bool)
    (idxs : List Int) (hs : Sorted idxs) (x : Int) (hrow : pvHash n x ∈ idxs)
    (env : Cond → Option Bool) (c : Cond)
    (hc : ∃ qs : List SqlLit, (∀ q ∈ qs, q.wf) ∧ (∀ s, SqlLit.str s ∈ qs → Insert.looksLikeNumber s = true) ∧
      shardLits c = qs.map (litOf .hash .int (HashShard.FindForKey n) eqs))
    (is : List Int) (h : routeStmt (hashRule idxs) (some c) = some is) (htrue : eval env x c = some true) :
    pvHash n x ∈ is := by
  obtain ⟨qs, hwf, hnum, hqs⟩ := hc
  exact litkinds_route_sound .hash .int (HashShard.FindForKey n) eqs (pvHash n) idxs hs x hrow env c
    ⟨qs, hqs, fun q hq => ksHash_placed_int n hn q (hwf q hq) (fun s hs' => hnum s (hs' ▸ hq))⟩ is h htrue

open GaeaVerif.RouteLit in
/-- **C01 for a string key column, any rule that is not a range rule** (`hash`,
    `mycat_string`, `mycat_murmur`): the row holds the byte string `s` (compared
    byte by byte) and lives where the rule places that string; string,
    hexadecimal and bit literals denote their bytes, decimal / float literals
    and NULL keep every table.  Integer literals are excluded: MySQL compares
    them with a string column by reading every row as a number. -/
theorem strcol_route_sound (fam : Fam) (find : ShardPlace.Key → ShardPlace.Out Int)
    (eqs : ShardPlace.Key → Int → Bool) (idxs : List Int) (hs : Sorted idxs)
    (s : ShardGo.GoStr) (hrow : pvStrCol find (encodeStr s : Nat) ∈ idxs)
    (env : Cond → Option Bool) (c : Cond)
    (hc : ∃ qs : List SqlLit, (∀ q ∈ qs, q.wf) ∧ (∀ q ∈ qs, (∀ v, q ≠ .int v) ∧ (∀ v, q ≠ .uint v)) ∧
      shardLits c = qs.map (litOf fam .str find eqs))
    (is : List Int) (h : routeStmt (hashRule idxs) (some c) = some is)
    (htrue : eval env (encodeStr s : Nat) c = some true) :
    pvStrCol find (encodeStr s : Nat) ∈ is := by
  obtain ⟨qs, hwf, hstr, hqs⟩ := hc
  exact litkinds_route_sound fam .str find eqs (pvStrCol find) idxs hs _ hrow env c
    ⟨qs, hqs, fun q hq => strcol_placed fam find q (hwf q hq) (hstr q hq)⟩ is h htrue

open GaeaVerif.RouteLit GaeaVerif.InsertStored in
/-- **mycat_string / mycat_murmur, integer key column.**  FULL STATEMENT, NOT
    TRUE: the same without `hcanon` (`mycat_text_numeric_string_witness`; known
    finding `mycat-numeric-string-routed-as-text`, Mycat-compatible and right
    for string key columns, not repaired).  Proved: every literal kind, with
    the string literals in the decimal spelling of the integer they denote. -/
theorem text_route_sound_intcol_partial (f : ShardGo.GoStr → ShardPlace.Out Int)
    (eqs : ShardPlace.Key → Int → Bool) (idxs : List Int) (hs : Sorted idxs) (x : Int)
    (hrow : pvText f x ∈ idxs) (env : Cond → Option Bool) (c : Cond)
    (hc : ∃ qs : List SqlLit,
      (∀ s, SqlLit.str s ∈ qs → ∃ n, mysqlInt s = some n ∧ s = ShardGo.fmtInt n) ∧
      shardLits c = qs.map (litOf .text .int (viaStr f) eqs))
    (is : List Int) (h : routeStmt (hashRule idxs) (some c) = some is) (htrue : eval env x c = some true) :
    pvText f x ∈ is := by
  obtain ⟨qs, hcanon, hqs⟩ := hc
  exact litkinds_route_sound .text .int (viaStr f) eqs (pvText f) idxs hs x hrow env c
    ⟨qs, hqs, fun q hq => text_placed_int_partial f q (fun s hs' => hcanon s (hs' ▸ hq))⟩ is h htrue

/-- two partitions of 512 slots -/
def exSegment2 : List Int := List.replicate 512 0 ++ List.replicate 512 1

open GaeaVerif.RouteLit GaeaVerif.ShardPlace in
set_option maxRecDepth 10000 in
/-- **Known finding `mycat-numeric-string-routed-as-text` (not repaired)**:
    mycat_string (hash of the whole key, two partitions) hands the string
    `'007'` to the rule, which places its text in table 1; MySQL compares an
    integer column with 7, and the row 7 lives in table 0: `k = '007'` is TRUE
    on a row outside the routed tables. -/
theorem mycat_text_numeric_string_witness :
    litOf .text .int (MycatPartitionStringShard.FindForKey exSegment2 0 0) (fun _ _ => false) (.str [48, 48, 55]) =
      { rank := some 7, place := some 1, eqStart := false } ∧
    routeStmt (hashRule [0, 1]) (some (.cmp true false .eq { rank := some 7, place := some 1, eqStart := false })) =
      some [1] ∧
    eval (fun _ => none) 7 (.cmp true false .eq { rank := some 7, place := some 1, eqStart := false }) = some true ∧
    MycatPartitionStringShard.FindForKey exSegment2 0 0 (.int64 7) = .ok 0 := by
  refine ⟨by decide, ?_, by decide, by decide⟩
  simp [routeStmt, route, hashRule, findTableIndexes, interList]

/-- the defect repaired by 1707815 as a regression witness on the model: had the
    planner handed `0x10` to a hash rule of 4 tables as the text `x'10'`
    (placed in table 3), `k = 0x10`, TRUE on the row 16, would have skipped
    the table 0 of that row -/
theorem hex_placed_by_text_unsound_witness :
    let l : Lit := { rank := some 16, place := some 3, eqStart := false }
    routeStmt (hashRule [0, 1, 2, 3]) (some (.cmp true false .eq l)) = some [3] ∧
    eval (fun _ => none) 16 (.cmp true false .eq l) = some true ∧ RouteLit.pvHash 4 16 = 0 := by
  refine ⟨?_, by decide, by decide⟩
  simp [routeStmt, route, hashRule, findTableIndexes, interList]

open GaeaVerif.RouteLit in
/-- and what the model of the repaired code does with it: `den` says 16, the
    literal is not routed by, every table is kept -/
example :
    mkLit .hash .int (.hex [16]) none false =
      { rank := some 16, place := none, eqStart := false, wide := true } ∧
    routeStmt (hashRule [0, 1, 2, 3]) (some (.cmp true false .eq (mkLit .hash .int (.hex [16]) none false))) =
      some [0, 1, 2, 3] := by
  refine ⟨by decide, ?_⟩
  have : (mkLit .hash .int (.hex [16]) none false).wide = true := by decide
  simp [routeStmt, route, hashRule, this, interList]

open GaeaVerif.RouteLit in
/-- `k < 1.5` is TRUE on the rows 0 and 1 and on no other; `k = 1.5` on none;
    `k IN (1, NULL)` is TRUE on 1 and NULL elsewhere; `k NOT IN (1, NULL)` is
    never TRUE -/
example :
    let l := mkLit .num .int (.dec 15 1) none false
    let n := mkLit .num .int .null none false
    let one : Lit := { rank := some 1, place := some 1, eqStart := false }
    eval (fun _ => none) 1 (.cmp true false .lt l) = some true ∧
    eval (fun _ => none) 2 (.cmp true false .lt l) = some false ∧
    eval (fun _ => none) 1 (.cmp true false .eq l) = some false ∧
    eval (fun _ => none) 1 (.cmp true true .lt l) = some false ∧
    eval (fun _ => none) 1 (.inList true false [one, n]) = some true ∧
    eval (fun _ => none) 2 (.inList true false [one, n]) = none ∧
    eval (fun _ => none) 2 (.inList true true [one, n]) = none ∧
    eval (fun _ => none) 1 (.inList true true [one, n]) = some false ∧
    eval (fun _ => none) 1 (.between true false one l) = some true ∧
    eval (fun _ => none) 2 (.between true false one l) = some false := by
  decide


/-! #### `range` rules over literals of every kind -/

/-- `NumRangeShard.FindForKey` for `n` tables of `limit` rows (the abstraction of `rangeLit`) -/
def rangeFind (limit n : Int) : ShardPlace.Key → ShardPlace.Out Int :=
  InsertStored.viaNum fun v => if 0 ≤ v ∧ v < n * limit then .ok (v / limit) else .err .keyOutOfRange

/-- `NumRangeShard.EqualStart`: `Shards[index].Start == NumValue(key)` -/
def rangeEqs (limit : Int) (key : ShardPlace.Key) (i : Int) : Bool :=
  match ShardPlace.NumValue key with
  | .ok v => v == i * limit
  | _ => false

open GaeaVerif.RouteLit GaeaVerif.InsertStored GaeaVerif.ShardGo GaeaVerif.ShardPlace in
/-- a literal an integer rule places on a non-negative int64 denotes exactly that integer -/
theorem num_rank (q : SqlLit) (hq : q.wf) (key : Key) (v : Int) (hc : compareValue .num q = some key)
    (hv : NumValue key = .ok v) (h0 : 0 ≤ v) : (den .int q).rank = some v ∧ (den .int q).sem = .exact := by
  cases q with
  | int w =>
    simp only [compareValue, Option.some.injEq] at hc; subst hc
    simp only [NumValue, Out.ok.injEq] at hv; subst hv
    exact ⟨rfl, rfl⟩
  | uint u =>
    simp only [compareValue, Option.some.injEq] at hc; subst hc
    simp only [NumValue, u64ToI64, Out.ok.injEq] at hv
    simp only [SqlLit.wf] at hq
    have : (u : Int) = v := by unfold wrap64 at hv; omega
    subst this
    exact ⟨rfl, rfl⟩
  | str s =>
    simp only [compareValue] at hc
    cases hp : parseInt64 s with
    | none => simp [hp] at hc
    | some m =>
      simp only [hp, Option.isNone_some, Bool.false_eq_true, ↓reduceIte, Option.some.injEq] at hc; subst hc
      simp only [NumValue, hp, Out.ok.injEq] at hv; subst hv
      have hm := mysqlInt_of_parseInt64 s m hp
      simp only [den]; rw [strNum_of_mysqlInt s m hm]
      exact ⟨rfl, rfl⟩
  | hex bs => simp [compareValue] at hc
  | bit bs => simp [compareValue] at hc
  | dec d sc => simp [compareValue] at hc
  | float b => simp [compareValue] at hc
  | null => simp [compareValue] at hc

open GaeaVerif.RouteLit GaeaVerif.InsertStored GaeaVerif.ShardPlace in
/-- what `rangeFind` answers -/
theorem rangeFind_ok (limit n : Int) (key : Key) (i : Int) (h : rangeFind limit n key = .ok i) :
    ∃ v, NumValue key = .ok v ∧ 0 ≤ v ∧ v < n * limit ∧ i = v / limit := by
  unfold rangeFind viaNum at h
  cases hv : NumValue key with
  | ok v =>
    simp only [hv] at h
    split at h
    · rename_i hr
      simp only [Out.ok.injEq] at h
      exact ⟨v, rfl, hr.1, hr.2, h.symm⟩
    · simp at h
  | err k => simp [hv] at h
  | panic => simp [hv] at h

open GaeaVerif.RouteLit in
/-- **Well-formedness of `range` rules for literals of every kind.** -/
theorem range_litsOK_kinds (limit n : Int) (hlim : 0 < limit) (qs : List SqlLit) (hwf : ∀ q ∈ qs, q.wf) :
    LitsOK (rangeRule n) (· / limit) (qs.map (litOf .num .int (rangeFind limit n) (rangeEqs limit))) := by
  refine ⟨?_, ?_, ?_, ?_⟩
  · intro l hl i hp
    simp only [List.mem_map] at hl
    obtain ⟨q, hq, rfl⟩ := hl
    obtain ⟨key, hc, hf, hrk, _, _⟩ := litOf_place _ _ _ _ q i hp
    obtain ⟨v, hv, h0, _, hi⟩ := rangeFind_ok limit n key i hf
    exact ⟨v, by rw [hrk, (num_rank q (hwf q hq) key v hc hv h0).1], hi.symm⟩
  · intro _ a b hab
    exact Int.ediv_le_ediv hlim hab
  · intro _ l hl he i w hp hw y hy
    simp only [List.mem_map] at hl
    obtain ⟨q, hq, rfl⟩ := hl
    obtain ⟨key, hc, hf, hrk, _, heq⟩ := litOf_place _ _ _ _ q i hp
    obtain ⟨v, hv, h0, _, hi⟩ := rangeFind_ok limit n key i hf
    have hvw : v = w := by
      have := (num_rank q (hwf q hq) key v hc hv h0).1
      rw [hrk, this] at hw; simpa using hw
    subst hvw
    rw [heq] at he
    simp only [rangeEqs, hv, beq_iff_eq] at he
    show y / limit < i
    have h1 : y < i * limit := by omega
    exact (Int.ediv_lt_iff_lt_mul hlim).mpr h1
  · intro l hl i hp
    simp only [List.mem_map] at hl
    obtain ⟨q, hq, rfl⟩ := hl
    obtain ⟨key, hc, hf, _, hsm, _⟩ := litOf_place _ _ _ _ q i hp
    obtain ⟨v, hv, h0, _, _⟩ := rangeFind_ok limit n key i hf
    rw [hsm, (num_rank q (hwf q hq) key v hc hv h0).2]

open GaeaVerif.RouteLit in
/-- **C01 for `range` rules, every literal kind, no residual hypothesis**: with
    `n` tables of `limit` rows, every accepted statement whose WHERE is TRUE on a
    row with key `x` is routed to the table `x / limit` of the row, whatever
    literals (integers, strings, hexadecimal, bit, decimal, float, NULL) it
    compares the sharding column with in `=  !=  <  <=  >  >=`, IN and BETWEEN. -/
theorem range_route_sound_kinds (limit n x : Int) (hlim : 0 < limit) (hx : 0 ≤ x ∧ x < n * limit)
    (env : Cond → Option Bool) (c : Cond)
    (hc : ∃ qs : List SqlLit, (∀ q ∈ qs, q.wf) ∧
      shardLits c = qs.map (litOf .num .int (rangeFind limit n) (rangeEqs limit)))
    (is : List Int) (h : routeStmt (rangeRule n) (some c) = some is) (htrue : eval env x c = some true) :
    x / limit ∈ is := by
  obtain ⟨qs, hwf, hqs⟩ := hc
  exact route_sound (rangeRule n) (· / limit) x env c (range_rowOK limit n x hlim hx)
    (hqs ▸ range_litsOK_kinds limit n hlim qs hwf) is h htrue

open GaeaVerif.RouteLit in
/-- on integer literals `litOf` is the `rangeLit` of the first instance -/
example : litOf .num .int (rangeFind 100 4) (rangeEqs 100) (.int 200) = rangeLit 100 4 200 ∧
    litOf .num .int (rangeFind 100 4) (rangeEqs 100) (.str [50, 48, 48]) = rangeLit 100 4 200 ∧
    litOf .num .int (rangeFind 100 4) (rangeEqs 100) (.str [32, 50, 48, 48]) =
      { rank := some 200, place := none, eqStart := false, wide := true } ∧
    litOf .num .int (rangeFind 100 4) (rangeEqs 100) (.dec 1505 1) =
      { rank := some 150, place := none, eqStart := false, wide := true, sem := .frac } := by
  decide

/-! #### calendar rules over literals of every kind -/

theorem LitsOKOn.of_placed {V : Int → Prop} {r : Rule} {pv : Int → Int} {ls ls' : List Lit}
    (h : LitsOKOn V r pv ls) (hs : ∀ l ∈ ls', ∀ i, l.place = some i → l ∈ ls) : LitsOKOn V r pv ls' :=
  ⟨fun l hl i hp => h.place_den l (hs l hl i hp) i hp, h.mono,
   fun hr l hl he i v hp hv => h.eqStart hr l (hs l hl i hp) he i v hp hv,
   fun l hl i hp => h.placed_exact l (hs l hl i hp) i hp⟩

theorem packDT_eq : RouteLit.packDT = pack := by funext c; rfl

open GaeaVerif.RouteLit in
/-- the literal of a calendar rule for the SQL literal `q` -/
def calSqlLit (k : CalKind) (civilOf : Int → ShardPlace.Civil) (clockOf : Int → ShardPlace.Clock) (ct : ColType)
    (q : SqlLit) : Lit :=
  litOf .date ct (k.find civilOf) (fun key i => k.equalStart civilOf clockOf key i == .ok true) q

open GaeaVerif.RouteLit in
theorem calSqlLit_str (k : CalKind) (civilOf : Int → ShardPlace.Civil) (clockOf : Int → ShardPlace.Clock)
    (s : GoStr) : calSqlLit k civilOf clockOf .datetime (.str s) = strLit k civilOf clockOf s := by
  simp only [calSqlLit, litOf, compareValue, strLit, calLit]
  cases k.find civilOf (.str s) <;> simp [mkLit, isWide, compareValue, den, packDT_eq]

open GaeaVerif.RouteLit in
theorem calSqlLit_int (k : CalKind) (civilOf : Int → ShardPlace.Civil) (clockOf : Int → ShardPlace.Clock)
    (v : Int) : calSqlLit k civilOf clockOf .int (.int v) = unixLit k civilOf clockOf v := by
  simp only [calSqlLit, litOf, compareValue, unixLit, calLit]
  cases k.find civilOf (.int64 v) <;> simp [mkLit, isWide, compareValue, den]

open GaeaVerif.RouteLit in
/-- the literals of a statement on a DATETIME sharding column: strings in an
    accepted spelling, and any literal of a kind the planner does not route by;
    integer literals are excluded (the rule reads them as unix times, MySQL as
    `YYYYMMDDhhmmss`) -/
def DatetimeLit (q : SqlLit) : Prop :=
  (∀ v, q ≠ .int v) ∧ (∀ v, q ≠ .uint v) ∧ ∀ s, q = .str s → (CalendarSpec.parseSpelling s).isSome = true

open GaeaVerif.RouteLit in
/-- the literals of a statement on an integer (unix time) sharding column:
    timestamps of the years 0 … 9999, and any literal of a kind the planner does
    not route by; strings are excluded (the rule reads them as dates) -/
def UnixLit (civilOf : Int → ShardPlace.Civil) (q : SqlLit) : Prop :=
  (∀ s, q ≠ .str s) ∧ (∀ v, q ≠ .uint v) ∧ ∀ v, q = .int v → VUnix civilOf v

open GaeaVerif.RouteLit in
theorem calSqlLit_unplaced (k : CalKind) (civilOf : Int → ShardPlace.Civil) (clockOf : Int → ShardPlace.Clock)
    (ct : ColType) (q : SqlLit) (hq : (∀ v, q ≠ .int v) ∧ (∀ v, q ≠ .uint v) ∧ (∀ s, q ≠ .str s)) :
    (calSqlLit k civilOf clockOf ct q).place = none := by
  cases q with
  | int v => exact absurd rfl (hq.1 v)
  | uint v => exact absurd rfl (hq.2.1 v)
  | str s => exact absurd rfl (hq.2.2 s)
  | hex b => rfl
  | bit b => rfl
  | dec d sc => rfl
  | float b => rfl
  | null => rfl

open GaeaVerif.RouteLit in
theorem str_litsOK_kinds (k : CalKind) (idxs : List Int) (civilOf : Int → ShardPlace.Civil)
    (clockOf : Int → ShardPlace.Clock) (qs : List SqlLit) (hqs : ∀ q ∈ qs, DatetimeLit q) :
    LitsOKOn VStr (calRule idxs) (pvStr k) (qs.map (calSqlLit k civilOf clockOf .datetime)) := by
  let ss : List GoStr := qs.filterMap fun q => match q with | .str s => some s | _ => none
  have hss : ∀ s ∈ ss, (CalendarSpec.parseSpelling s).isSome = true := by
    intro s hs
    simp only [ss, List.mem_filterMap] at hs
    obtain ⟨q, hq, hqs'⟩ := hs
    cases q <;> simp at hqs'
    subst hqs'
    exact (hqs _ hq).2.2 _ rfl
  refine (str_litsOK k idxs civilOf clockOf ss hss).of_placed ?_
  intro l hl i hp
  simp only [List.mem_map] at hl ⊢
  obtain ⟨q, hq, rfl⟩ := hl
  cases q with
  | str s =>
    refine ⟨s, ?_, (calSqlLit_str k civilOf clockOf s).symm⟩
    simp only [ss, List.mem_filterMap]
    exact ⟨.str s, hq, rfl⟩
  | int v => exact absurd rfl ((hqs _ hq).1 v)
  | uint v => exact absurd rfl ((hqs _ hq).2.1 v)
  | hex b => simp [calSqlLit_unplaced k civilOf clockOf .datetime (.hex b) (by simp)] at hp
  | bit b => simp [calSqlLit_unplaced k civilOf clockOf .datetime (.bit b) (by simp)] at hp
  | dec d sc => simp [calSqlLit_unplaced k civilOf clockOf .datetime (.dec d sc) (by simp)] at hp
  | float b => simp [calSqlLit_unplaced k civilOf clockOf .datetime (.float b) (by simp)] at hp
  | null => simp [calSqlLit_unplaced k civilOf clockOf .datetime .null (by simp)] at hp

open GaeaVerif.RouteLit in
theorem unix_litsOK_kinds (k : CalKind) (idxs : List Int) (civilOf : Int → ShardPlace.Civil)
    (clockOf : Int → ShardPlace.Clock) (hz : ZoneOK civilOf clockOf) (qs : List SqlLit)
    (hqs : ∀ q ∈ qs, UnixLit civilOf q) :
    LitsOKOn (VUnix civilOf) (calRule idxs) (pvUnix k civilOf) (qs.map (calSqlLit k civilOf clockOf .int)) := by
  let vs : List Int := qs.filterMap fun q => match q with | .int v => some v | _ => none
  have hvs : ∀ v ∈ vs, VUnix civilOf v := by
    intro v hv
    simp only [vs, List.mem_filterMap] at hv
    obtain ⟨q, hq, hqs'⟩ := hv
    cases q <;> simp at hqs'
    subst hqs'
    exact (hqs _ hq).2.2 _ rfl
  refine (unix_litsOK k idxs civilOf clockOf hz vs hvs).of_placed ?_
  intro l hl i hp
  simp only [List.mem_map] at hl ⊢
  obtain ⟨q, hq, rfl⟩ := hl
  cases q with
  | int v =>
    refine ⟨v, ?_, (calSqlLit_int k civilOf clockOf v).symm⟩
    simp only [vs, List.mem_filterMap]
    exact ⟨.int v, hq, rfl⟩
  | str s => exact absurd rfl ((hqs _ hq).1 s)
  | uint v => exact absurd rfl ((hqs _ hq).2.1 v)
  | hex b => simp [calSqlLit_unplaced k civilOf clockOf .int (.hex b) (by simp)] at hp
  | bit b => simp [calSqlLit_unplaced k civilOf clockOf .int (.bit b) (by simp)] at hp
  | dec d sc => simp [calSqlLit_unplaced k civilOf clockOf .int (.dec d sc) (by simp)] at hp
  | float b => simp [calSqlLit_unplaced k civilOf clockOf .int (.float b) (by simp)] at hp
  | null => simp [calSqlLit_unplaced k civilOf clockOf .int .null (by simp)] at hp

open GaeaVerif.RouteLit in
/-- **C01 for calendar rules over literals of every kind** (`calendar_route_sound`
    with the literals given by kind and value): DATETIME columns with strings in
    the accepted spellings, integer columns with unix times (zone with the fixed
    offset `off`), and in both cases hexadecimal, bit, decimal and float literals
    and NULL anywhere — `k > 2016.5` keeps every period (repaired defect). -/
theorem calendar_route_sound_kinds (k : CalKind) (idxs : List Int) (hs : Sorted idxs) (off : Int) :
    (∀ (x : CalendarSpec.DateTime), x.valid = true →
      k.num { year := x.year, month := x.month, day := x.day } ∈ idxs →
      ∀ (env : Cond → Option Bool) (c : Cond),
        (∃ qs : List SqlLit, (∀ q ∈ qs, DatetimeLit q) ∧ shardLits c =
          qs.map (calSqlLit k (ShardPlace.civilOfUnix off) (ShardPlace.clockOfUnix off) .datetime)) →
        ∀ is : List Int, routeStmt (calRule idxs) (some c) = some is → eval env (pack x) c = some true →
        k.num { year := x.year, month := x.month, day := x.day } ∈ is) ∧
    (∀ (x : Int), VUnix (ShardPlace.civilOfUnix off) x → k.num (ShardPlace.civilOfUnix off x) ∈ idxs →
      ∀ (env : Cond → Option Bool) (c : Cond),
        (∃ qs : List SqlLit, (∀ q ∈ qs, UnixLit (ShardPlace.civilOfUnix off) q) ∧ shardLits c =
          qs.map (calSqlLit k (ShardPlace.civilOfUnix off) (ShardPlace.clockOfUnix off) .int)) →
        ∀ is : List Int, routeStmt (calRule idxs) (some c) = some is → eval env x c = some true →
        k.num (ShardPlace.civilOfUnix off x) ∈ is) := by
  refine ⟨?_, ?_⟩
  · intro x hx hrow env c hc is h htrue
    obtain ⟨qs, hqs, hlits⟩ := hc
    rw [← pack_num k x hx] at hrow ⊢
    have ht := calRule_tableOK idxs hs _ hrow
    exact route_sound_on VStr (calRule idxs) (pvStr k) (pack x) env c
      ⟨ht.sorted, ht.inIdxs, ht.firstLe, ht.leLast⟩ ⟨x, hx, rfl⟩
      (hlits ▸ str_litsOK_kinds k idxs _ _ qs hqs) is h htrue
  · intro x hx hrow env c hc is h htrue
    obtain ⟨qs, hqs, hlits⟩ := hc
    have ht := calRule_tableOK idxs hs _ hrow
    exact route_sound_on (VUnix _) (calRule idxs) (pvUnix k _) x env c
      ⟨ht.sorted, ht.inIdxs, ht.firstLe, ht.leLast⟩ hx
      (hlits ▸ unix_litsOK_kinds k idxs _ _ (fixedZone_ok off) qs hqs) is h htrue

open GaeaVerif.RouteLit in
/-- `k > 2016.5` on a date_year table 2014 … 2017: every period is kept (the
    pinned code placed the text "2016.5" in 2016 and skipped 2014 and 2015) -/
example :
    let l := calSqlLit .year (ShardPlace.civilOfUnix 0) (ShardPlace.clockOfUnix 0) .datetime (.dec 20165 1)
    l.wide = true ∧ routeStmt (calRule [2014, 2015, 2016, 2017]) (some (.cmp true false .gt l)) =
      some [2014, 2015, 2016, 2017] := by
  refine ⟨by decide, ?_⟩
  have : (calSqlLit .year (ShardPlace.civilOfUnix 0) (ShardPlace.clockOfUnix 0) .datetime (.dec 20165 1)).wide = true := by
    decide
  simp [routeStmt, route, calRule, this, interList]



open GaeaVerif.RouteLit in
/-- **C01 for joined tables over literals of every kind** (hash-like rules):
    `join_route_sound` with the literals of the ON and WHERE conditions given by
    kind and value; the family lemmas (`num_placed`, `big_placed`,
    `ksHash_placed_int`, `strcol_placed`, `text_placed_int_partial`) discharge
    `Placed` as in the single-table instances. -/
theorem litkinds_join_route_sound (fam : Fam) (ct : ColType) (find : ShardPlace.Key → ShardPlace.Out Int)
    (eqs : ShardPlace.Key → Int → Bool) (pv : Int → Int) (idxs : List Int) (hs : Sorted idxs)
    (i : Int) (hi : i ∈ idxs) (vals : Nat → Option Int) (hv : ValsOK (fun _ => True) pv i vals)
    (env : JCond → Option Bool) (joins : List JoinStep) (wh : Option JCond)
    (hc : ∃ qs : List SqlLit, joinsLits joins ++ optLits wh = qs.map (litOf fam ct find eqs) ∧
      ∀ q ∈ qs, Placed fam ct find pv q)
    (is : List Int) (h : routeJoinStmt (hashRule idxs) joins wh = some is)
    (hin : inJoin env vals joins) (hwh : ∀ c, wh = some c → evalJ env vals c = some true) : i ∈ is := by
  obtain ⟨qs, hqs, hpl⟩ := hc
  have hb := sorted_bounds idxs hs i hi
  exact join_route_sound (fun _ => True) (hashRule idxs) pv i env vals ⟨hs, hi, hb.1, hb.2⟩ hv joins wh
    (hqs ▸ (litsOK_of_placed (hashRule idxs) rfl fam ct find eqs pv qs hpl).on) is h hin hwh

open GaeaVerif.RouteLit in
/-- … and for `range` rules: joined tables, literals of every kind, no residual hypothesis -/
theorem range_join_route_sound_kinds (limit n : Int) (hlim : 0 < limit) (i : Int) (hi : 0 ≤ i ∧ i < n)
    (vals : Nat → Option Int) (hv : ValsOK (fun _ => True) (· / limit) i vals)
    (env : JCond → Option Bool) (joins : List JoinStep) (wh : Option JCond)
    (hc : ∃ qs : List SqlLit, (∀ q ∈ qs, q.wf) ∧
      joinsLits joins ++ optLits wh = qs.map (litOf .num .int (rangeFind limit n) (rangeEqs limit)))
    (is : List Int) (h : routeJoinStmt (rangeRule n) joins wh = some is)
    (hin : inJoin env vals joins) (hwh : ∀ c, wh = some c → evalJ env vals c = some true) : i ∈ is := by
  obtain ⟨qs, hwf, hqs⟩ := hc
  have ht : TableOK (rangeRule n) i :=
    ⟨makeList_sorted _ _, by simp only [rangeRule]; rw [makeList_mem]; exact hi, hi.1, by simp only [rangeRule]; omega⟩
  exact join_route_sound (fun _ => True) (rangeRule n) (· / limit) i env vals ht hv joins wh
    (hqs ▸ (range_litsOK_kinds limit n hlim qs hwf).on) is h hin hwh


/-! #### non-vacuity of the literal-kind instances -/

set_option maxRecDepth 10000 in
open GaeaVerif.RouteLit GaeaVerif.InsertStored GaeaVerif.ShardGo in
/-- the kingshard `mod` rule with 3 tables is an instance of `num_rules_route_sound`
    (`ModShard.FindForKey n` is `viaNum …` by definition); `'+7'` is read by the
    rule and placed with 7, `' 7'` and `'7.0'` denote 7 and keep every table,
    `'abc'` keeps every table -/
example :
    ModShard.FindForKey 3 = viaNum (fun v => if 3 = 0 then .panic else .ok (hackAbs (Int.tmod v 3))) ∧
    litOf .num .int (ModShard.FindForKey 3) (fun _ _ => false) (.str [43, 55]) =
      { rank := some 7, place := some 1, eqStart := false } ∧
    litOf .num .int (ModShard.FindForKey 3) (fun _ _ => false) (.int 7) =
      { rank := some 7, place := some 1, eqStart := false } ∧
    litOf .num .int (ModShard.FindForKey 3) (fun _ _ => false) (.str [32, 55]) =
      { rank := some 7, place := none, eqStart := false, wide := true } ∧
    litOf .num .int (ModShard.FindForKey 3) (fun _ _ => false) (.str [55, 46, 48]) =
      { rank := some 7, place := none, eqStart := false, wide := true } ∧
    litOf .num .int (ModShard.FindForKey 3) (fun _ _ => false) (.str [97, 98, 99]) =
      { rank := none, place := none, eqStart := false, wide := true } ∧
    pvNum (fun v => if 3 = 0 then .panic else .ok (hackAbs (Int.tmod v 3))) 7 = 1 := by
  refine ⟨rfl, ?_⟩
  decide

set_option maxRecDepth 10000 in
open GaeaVerif.RouteLit GaeaVerif.InsertStored GaeaVerif.ShardGo in
/-- the kingshard `hash` rule with 4 tables (`hash_route_sound_intcol`,
    `strcol_route_sound`): `'007'` goes with 7, `' 7'` and `'7e0'` denote 7 and
    keep every table; on a string column `'abc'` is placed by its checksum,
    where the row `abc` lives, and `x'616263'` denotes the same bytes -/
example :
    litOf .hash .int (HashShard.FindForKey 4) (fun _ _ => false) (.str [48, 48, 55]) =
      { rank := some 7, place := some 3, eqStart := false } ∧
    litOf .hash .int (HashShard.FindForKey 4) (fun _ _ => false) (.str [32, 55]) =
      { rank := some 7, place := none, eqStart := false, wide := true } ∧
    litOf .hash .int (HashShard.FindForKey 4) (fun _ _ => false) (.str [55, 101, 48]) =
      { rank := some 7, place := none, eqStart := false, wide := true } ∧
    pvHash 4 7 = 3 ∧
    litOf .hash .str (HashShard.FindForKey 4) (fun _ _ => false) (.str [97, 98, 99]) =
      { rank := some (encodeStr [97, 98, 99] : Nat), place := some 2, eqStart := false } ∧
    (litOf .hash .str (HashShard.FindForKey 4) (fun _ _ => false) (.hex [97, 98, 99])).rank =
      some (encodeStr [97, 98, 99] : Nat) ∧
    pvStrCol (HashShard.FindForKey 4) (encodeStr [97, 98, 99] : Nat) = 2 := by
  decide

set_option maxRecDepth 10000 in
open GaeaVerif.RouteLit GaeaVerif.InsertStored GaeaVerif.ShardGo in
/-- `k = '007' OR k IN (' 7', 1)`: the tables of 7 and 1 are not
    enough — `' 7'` keeps every table of a hash rule -/
example :
    let f := litOf .hash .int (HashShard.FindForKey 4) (fun _ _ => false)
    let c := Cond.or (.cmp true false .eq (f (.str [48, 48, 55])))
      (.inList true false [f (.str [32, 55]), f (.int 1)])
    routeStmt (hashRule [0, 1, 2, 3]) (some c) = some [0, 1, 2, 3] ∧
    routeStmt (hashRule [0, 1, 2, 3]) (some (.cmp true false .eq (f (.str [48, 48, 55])))) = some [3] ∧
    eval (fun _ => none) 7 c = some true := by
  refine ⟨?_, ?_, by decide⟩
  · have h1 : (litOf .hash .int (HashShard.FindForKey 4) (fun _ _ => false) (.str [32, 55])).wide = true := by
      decide
    have h2 : litOf .hash .int (HashShard.FindForKey 4) (fun _ _ => false) (.str [48, 48, 55]) =
        { rank := some 7, place := some 3, eqStart := false } := by decide
    simp [routeStmt, route, hashRule, h1, h2, findTableIndexes, mergeOr, unionList, interList]
  · have h2 : litOf .hash .int (HashShard.FindForKey 4) (fun _ _ => false) (.str [48, 48, 55]) =
        { rank := some 7, place := some 3, eqStart := false } := by decide
    simp [routeStmt, route, hashRule, h2, findTableIndexes, interList]

/-! #### a value stored through the proxy is found by a query written with the same literal -/

open GaeaVerif.RouteLit GaeaVerif.InsertStored in
/-- **An inserted sharding literal is routed by when it is written in a WHERE.**
    C03's `insert_findable` sends the point query `k = literal` to exactly the
    table of the row provided the planner asks the rule to place the literal
    (`wide = false`).  That holds for every literal an INSERT is accepted with:
    integer literals always; a string on a `hash` rule because
    `getInsertShardingValue` accepts exactly the strings `getShardingCompareValue`
    hands on; a string on an integer rule or on mycat_mod because the rule placed
    it (it read it as an integer); on every other rule strings are handed on. -/
theorem stored_literal_routed :
    (∀ fam v, compareValue fam (.int v) = some (.int64 v)) ∧ (∀ fam v, compareValue fam (.uint v) = some (.uint64 v)) ∧
    (∀ s, Insert.shardingValueOk Insert.head "hash" (.str s) = true → compareValue .hash (.str s) = some (.str s)) ∧
    (∀ (f : Int → ShardPlace.Out Int) s i, viaNum f (.str s) = .ok i → compareValue .num (.str s) = some (.str s)) ∧
    (∀ (g : Int → ShardPlace.Out Int) s i, viaBig g (.str s) = .ok i → compareValue .big (.str s) = some (.str s)) ∧
    (∀ s, compareValue .text (.str s) = some (.str s) ∧ compareValue .date (.str s) = some (.str s)) := by
  refine ⟨fun _ _ => rfl, fun _ _ => rfl, ?_, ?_, ?_, fun _ => ⟨rfl, rfl⟩⟩
  · intro s h
    simp only [Insert.shardingValueOk, Insert.head, Bool.false_or, bne_self_eq_false, Insert.hashStringOk] at h
    simp only [compareValue]
    cases hp : Insert.parseUint64 s with
    | some m => simp
    | none => simp [hp] at h; simp [h]
  · intro f s i h
    simp only [viaNum, ShardPlace.NumValue] at h
    simp only [compareValue]
    cases hp : ShardGo.parseInt64 s with
    | some m => simp
    | none => simp [hp] at h
  · intro g s i h
    simp only [viaBig, viaStr, ShardPlace.GetString] at h
    simp only [compareValue]
    cases hp : ShardGo.parseBigDec s with
    | some m => simp
    | none => simp [hp] at h

/-! ### The operator dispatch of the source, read by the translator, is the model's -/

/-- the model's `findTableIndexes` is its dispatch table run -/
theorem findTableIndexes_eq_action (r : Rule) (op : Cmp) (l : Lit) :
    findTableIndexes r op true l = op.findAction.run r l := by
  cases op <;> simp [findTableIndexes, Cmp.findAction, FindAction.run, adjust]

/-- **Translator tie, `getFindTableIndexesFunc`.**  For each of the six
    comparison operators the statements the source executes for the sharding
    column (extracted with go/ast on every run) are the ones the model's table
    `Cmp.findAction` stands for; the default case and the guard for other
    columns return all sub tables. -/
theorem find_dispatch_tied :
    Gen.c01FindDispatch = Cmp.all.map (fun op => (op.goName, op.findAction.trace)) ∧
    Gen.c01FindDefault = FindAction.all.trace ∧
    Gen.c01FindOtherColumn = ["rule.GetShardingColumn() != columnName", "return rule.GetSubTableIndexes(), nil"] ∧
    Gen.c01AdjustShardIndex = ["if s.EqualStart(value, index) {", "return index - 1", "}", "return index"] := by
  decide

/-- **Translator tie, `inverseOperator`.** -/
theorem inverse_tied (op : Cmp) :
    (match Gen.c01InverseOperator.lookup op.goName with
     | some n => n
     | none => if Gen.c01InverseDefault = "op" then op.goName else "?") = op.inverse.goName := by
  cases op <;> decide

/-- **Translator tie, `mergeBinaryOperationRouteResult`.**  Running the
    `if … { return … }` lists of the source (conditions translated into Lean by
    the translator) gives the model's `mergeAnd` / `mergeOr` for all inputs. -/
theorem merge_tied :
    ∃ dsAnd dsOr dflt, readDecisions Gen.c01MergeAnd = some dsAnd ∧ readDecisions Gen.c01MergeOr = some dsOr ∧
      MergeRet.ofCode Gen.c01MergeEnd.2 = some dflt ∧
      ∀ (lHas rHas : Bool) (l r : List Int),
        mergeAnd (lHas, l) (rHas, r) =
          ((runDecisions dsAnd (Gen.c01MergeEnd.1, dflt) lHas rHas).1,
           (runDecisions dsAnd (Gen.c01MergeEnd.1, dflt) lHas rHas).2.run l r) ∧
        mergeOr (lHas, l) (rHas, r) =
          ((runDecisions dsOr (Gen.c01MergeEnd.1, dflt) lHas rHas).1,
           (runDecisions dsOr (Gen.c01MergeEnd.1, dflt) lHas rHas).2.run l r) := by
  refine ⟨_, _, _, rfl, rfl, rfl, ?_⟩
  intro lHas rHas l r
  cases lHas <;> cases rHas <;> exact ⟨rfl, rfl⟩

/-- **Translator tie, `handleJoinTree` / `rewriteOnCondition`.**  The Boolean
    expressions of the source that decide whether an ON condition prunes are
    the ones of `routeJoins`. -/
theorem join_prune_tied (restricts has : Bool) (tp : JoinTp) :
    Gen.c01JoinLeftRestricts restricts tp.goName = (restricts && tp != .right) ∧
    Gen.c01OnInter has (Gen.c01JoinOnPrunes restricts tp.goName) = (has && (restricts && tp == .inner)) := by
  cases restricts <;> cases has <;> cases tp <;> decide

open GaeaVerif.RouteLit in
/-- **`getShardingCompareValue` of the source is the model's `compareValue`**:
    the literal kinds whose value is handed to the rule, what every other kind
    returns (not routable, no error), the rule types with a test on strings and
    the tests themselves, as the translator reads them from
    proxy/plan/plan_select.go on every run; and the model's `compareValue` is
    "a string is not routed by exactly when the test of its family holds". -/
theorem compare_value_tied :
    Gen.c01RoutedKinds = routedKinds ∧ Gen.c01UnroutedKind = "return nil, false, nil" ∧
    Gen.c01StringRules = stringRules ∧ Gen.c01RoutedReturn = "return v, true, nil" ∧
    (∀ (fam : Fam) (s : ShardGo.GoStr),
      compareValue fam (.str s) = if fam.stringTest s then none else some (.str s)) ∧
    (∀ fam : Fam, fam.goCase = none → ∀ s, fam.stringTest s = false) := by
  refine ⟨by decide, by decide, by decide, by decide, ?_, ?_⟩
  · intro fam s
    cases fam <;> simp [compareValue, Fam.stringTest]
  · intro fam h s
    cases fam <;> simp [Fam.goCase] at h <;> rfl

open GaeaVerif.RouteLit in
/-- the family the driver reads from `rule.GetType()` (`Fam.ofType`) is the
    `case` of the source that names the constant with that value: for every rule
    type constant of proxy/router/rule.go, the constant is listed in the case
    of its family, or in no case when its family has none -/
theorem rule_type_family_tied :
    Gen.c01RuleTypes.all (fun (name, value) =>
      match (Fam.ofType value).goCase with
      | some (names, _) => names.contains name
      | none => stringRules.all fun (names, _) => !names.contains name) = true := by
  decide

/-- `route_inv` relative to `V` (from the invariant of the joined form). -/
theorem route_inv_on (V : Int → Prop) (r : Rule) (pv : Int → Int) (x : Int) (env : Cond → Option Bool)
    (hrow : RowOK r pv x) (hx : V x) (c : Cond) (hl : LitsOKOn V r pv (shardLits c))
    (l : List Int) (h : route r c = some (true, l)) :
    Sorted l ∧ (eval env x c = some true → pv x ∈ l) := by
  have := jroute_inv V r pv (pv x) (fun j => env j.erase) (fun _ => some x) hrow.table
    (fun t v hv => by cases hv; exact ⟨hx, rfl⟩) (toJ c) (by rw [jShardLits_toJ]; exact hl) l
    (by rw [erase_toJ]; exact h)
  rw [evalJ_toJ] at this
  exact this

theorem sorted_append (a b : List Int) (ha : Sorted a) (hb : Sorted b)
    (h : ∀ x y, a.getLast? = some x → b.head? = some y → x < y) : Sorted (a ++ b) := by
  rw [Sorted, List.pairwise_append]
  refine ⟨ha, hb, ?_⟩
  intro x hx y hy
  cases b with
  | nil => simp at hy
  | cons b0 bs =>
    have hlast : ∃ z, a.getLast? = some z := by
      cases h' : a.getLast? with
      | none => rw [List.getLast?_eq_none_iff] at h'; subst h'; simp at hx
      | some z => exact ⟨z, rfl⟩
    obtain ⟨z, hz⟩ := hlast
    have h1 := h z b0 hz rfl
    have hxz : x ≤ z := by
      have hzmem := List.mem_of_getLast? hz
      obtain ⟨pre, rfl⟩ : ∃ pre, a = pre ++ [z] := by
        refine ⟨a.dropLast, ?_⟩
        have hne : a ≠ [] := by intro e; subst e; simp at hz
        rw [List.getLast?_eq_some_getLast hne] at hz
        cases hz
        exact (List.dropLast_concat_getLast hne).symm
      rw [Sorted, List.pairwise_append] at ha
      simp at hx
      rcases hx with hx | rfl
      · exact Int.le_of_lt (ha.2.2 x hx z (by simp))
      · exact Int.le_refl _
    rw [Sorted, List.pairwise_cons] at hb
    rcases List.mem_cons.mp hy with rfl | hy'
    · omega
    · have := hb.1 y hy'; omega

/-- **The sub-table list of an accepted calendar configuration is ascending**:
    C09's `slice_infos_concat` shows it is the concatenation of the entries'
    period lists, accepted only if they are ascending across entries
    (`C09.AscChain`); with every entry ascending in itself the whole list is —
    the hypothesis `Sorted idxs` of `calendar_route_sound`. -/
theorem config_sorted (acc : List Int) (lists : List (List Int)) (hacc : Sorted acc)
    (h : C09.AscChain acc lists) (hs : ∀ l ∈ lists, Sorted l) : Sorted (acc ++ lists.flatten) := by
  induction lists generalizing acc with
  | nil => simpa using hacc
  | cons l rest ih =>
    simp only [C09.AscChain] at h
    have hal : Sorted (acc ++ l) := sorted_append acc l hacc (hs l (by simp)) (fun x y hx hy => h.2.1 x y hx hy)
    have := ih (acc ++ l) hal h.2.2 (fun l' hl' => hs l' (by simp [hl']))
    simpa [List.flatten_cons, List.append_assoc] using this

example : Sorted ([] ++ [[201511, 201512], [201601], [201602, 201603]].flatten) :=
  config_sorted [] _ (by simp [Sorted]) (by simp [C09.AscChain]) (by simp [Sorted])

end GaeaVerif.C01
