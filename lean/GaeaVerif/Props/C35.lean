import GaeaVerif.Model.IPAllow
/-
  C35 — Only allow-listed client addresses can connect.
  Theorems about `Model/IPAllow.lean` (tie to /repo: correspondence `gvh run C35`).
-/
namespace GaeaVerif.C35
open GaeaVerif GaeaVerif.IPAllow

/-! ### bytes and masks -/

theorem u8_cases (P : UInt8 → Prop) (h : ∀ k, k < 256 → P (UInt8.ofNat k)) (a : UInt8) : P a := by
  have := h a.toNat (UInt8.toNat_lt a)
  simpa using this

set_option maxRecDepth 100000 in
theorem and_ff (a : UInt8) : a &&& 0xff = a := by
  revert a; apply u8_cases; decide

set_option maxRecDepth 100000 in
theorem and_zero (a : UInt8) : a &&& 0 = 0 := by
  revert a; apply u8_cases; decide

set_option maxRecDepth 100000 in
/-- The partial mask byte `^byte(0xff >> n)` keeps the `n` high bits. -/
theorem maskByte_toNat (n : Nat) (hn : n < 8) (a : UInt8) :
    (a &&& (~~~ ((0xff : UInt8) >>> UInt8.ofNat n))).toNat = a.toNat / 2 ^ (8 - n) * 2 ^ (8 - n) := by
  revert a
  have : ∀ n, n < 8 → ∀ k, k < 256 →
      ((UInt8.ofNat k) &&& (~~~ ((0xff : UInt8) >>> UInt8.ofNat n))).toNat
        = (UInt8.ofNat k).toNat / 2 ^ (8 - n) * 2 ^ (8 - n) := by decide
  intro a
  exact u8_cases (fun a => (a &&& (~~~ ((0xff : UInt8) >>> UInt8.ofNat n))).toNat = a.toNat / 2 ^ (8 - n) * 2 ^ (8 - n))
    (this n hn) a

theorem maskByte_eq_iff (n : Nat) (hn : n < 8) (a c : UInt8) :
    (a &&& (~~~ ((0xff : UInt8) >>> UInt8.ofNat n)) = c &&& (~~~ ((0xff : UInt8) >>> UInt8.ofNat n)))
      ↔ a.toNat / 2 ^ (8 - n) = c.toNat / 2 ^ (8 - n) := by
  have hp : 0 < 2 ^ (8 - n) := Nat.pow_pos (by decide)
  constructor
  · intro h
    have h' := congrArg UInt8.toNat h
    rw [maskByte_toNat n hn, maskByte_toNat n hn] at h'
    exact Nat.eq_of_mul_eq_mul_right hp h'
  · intro h
    apply UInt8.toNat_inj.mp
    rw [maskByte_toNat n hn, maskByte_toNat n hn, h]

theorem beNat_lt (a : Bytes) : beNat a < 256 ^ a.length := by
  induction a with
  | nil => simp [beNat]
  | cons b bs ih =>
    simp only [beNat, List.length_cons, Nat.pow_succ]
    have hb := UInt8.toNat_lt b
    have : b.toNat * 256 ^ bs.length ≤ 255 * 256 ^ bs.length := Nat.mul_le_mul_right _ (by omega)
    omega

theorem cidrMaskLoop_length (n l : Nat) : (cidrMaskLoop n l).length = l := by
  induction l generalizing n with
  | zero => simp [cidrMaskLoop]
  | succ l ih => unfold cidrMaskLoop; split <;> simp [ih]

theorem cidrMaskLoop_zero (l : Nat) : cidrMaskLoop 0 l = List.replicate l 0 := by
  induction l with
  | zero => simp [cidrMaskLoop]
  | succ l ih =>
    unfold cidrMaskLoop
    simp only [ih, List.replicate_succ]
    have : (~~~ ((0xff : UInt8) >>> UInt8.ofNat 0)) = 0 := by decide
    rw [if_neg (by omega), this]

theorem andBytes_zero (a : Bytes) (l : Nat) (h : a.length = l) :
    andBytes a (List.replicate l 0) = List.replicate l 0 := by
  induction a generalizing l with
  | nil => subst h; simp [andBytes]
  | cons b bs ih =>
    subst h
    simp only [andBytes, List.length_cons, List.replicate_succ, List.zipWith_cons_cons, and_zero]
    congr 1
    exact ih _ rfl

theorem andBytes_length (a m : Bytes) (h : a.length = m.length) : (andBytes a m).length = a.length := by
  simp [andBytes, h]

/-- Euclid: two numbers with digits below `M` agree iff their digits agree. -/
theorem digit_eq (M a c r s : Nat) (hr : r < M) (hs : s < M) :
    a * M + r = c * M + s ↔ a = c ∧ r = s := by
  constructor
  · intro h
    have hM : 0 < M := by omega
    have h1 : (a * M + r) / M = (c * M + s) / M := by rw [h]
    have h2 : (a * M + r) % M = (c * M + s) % M := by rw [h]
    rw [Nat.mul_comm a M, Nat.mul_comm c M] at h1 h2
    rw [Nat.mul_add_div hM, Nat.mul_add_div hM, Nat.div_eq_of_lt hr, Nat.div_eq_of_lt hs] at h1
    rw [Nat.mul_add_mod, Nat.mul_add_mod, Nat.mod_eq_of_lt hr, Nat.mod_eq_of_lt hs] at h2
    omega
  · rintro ⟨rfl, rfl⟩; rfl

/-- **Mask-and-compare is prefix equality.**  For two addresses of `l` bytes and
    a prefix of `n ≤ 8l` bits, the byte-wise comparison under `CIDRMask(n, 8l)`
    (as in `IPNet.Contains`) holds exactly when the two network numbers agree. -/
theorem masked_eq_iff (l : Nat) : ∀ (n : Nat) (a c : Bytes), a.length = l → c.length = l → n ≤ 8 * l →
    (andBytes a (cidrMaskLoop n l) = andBytes c (cidrMaskLoop n l)
      ↔ beNat a / 2 ^ (8 * l - n) = beNat c / 2 ^ (8 * l - n)) := by
  induction l with
  | zero =>
    intro n a c ha hc _
    have : a = [] := List.length_eq_zero_iff.mp ha
    have : c = [] := List.length_eq_zero_iff.mp hc
    subst_vars; simp
  | succ l ih =>
    intro n a c ha hc hn
    match a, c, ha, hc with
    | a0 :: as, c0 :: cs, ha, hc =>
      simp only [List.length_cons, Nat.add_right_cancel_iff] at ha hc
      have hx := beNat_lt as
      have hy := beNat_lt cs
      rw [ha] at hx; rw [hc] at hy
      unfold cidrMaskLoop
      by_cases h8 : n ≥ 8
      · rw [if_pos h8]
        simp only [andBytes, List.zipWith_cons_cons, and_ff, List.cons.injEq]
        have ihh := ih (n - 8) as cs ha hc (by omega)
        simp only [andBytes] at ihh
        rw [ihh]
        simp only [beNat, ha, hc]
        -- 256^l = M * D
        have e : 8 * (l + 1) - n = 8 * l - (n - 8) := by omega
        rw [e]
        generalize hD : 2 ^ (8 * l - (n - 8)) = D
        have hDpos : 0 < D := by rw [← hD]; exact Nat.pow_pos (by decide)
        have hMD : 256 ^ l = 2 ^ (n - 8) * D := by
          rw [← hD, ← Nat.pow_add]
          have : (256 : Nat) = 2 ^ 8 := by decide
          rw [this, ← Nat.pow_mul]
          congr 1; omega
        generalize hM : 2 ^ (n - 8) = M at hMD
        rw [hMD] at hx hy ⊢
        have dx : (a0.toNat * (M * D) + beNat as) / D = a0.toNat * M + beNat as / D := by
          rw [← Nat.mul_assoc, Nat.add_comm, Nat.add_mul_div_right _ _ hDpos, Nat.add_comm]
        have dy : (c0.toNat * (M * D) + beNat cs) / D = c0.toNat * M + beNat cs / D := by
          rw [← Nat.mul_assoc, Nat.add_comm, Nat.add_mul_div_right _ _ hDpos, Nat.add_comm]
        rw [dx, dy]
        have rx : beNat as / D < M := (Nat.div_lt_iff_lt_mul hDpos).mpr hx
        have ry : beNat cs / D < M := (Nat.div_lt_iff_lt_mul hDpos).mpr hy
        rw [digit_eq M _ _ _ _ rx ry]
        constructor
        · rintro ⟨h1, h2⟩; exact ⟨by rw [h1], h2⟩
        · rintro ⟨h1, h2⟩; exact ⟨UInt8.toNat_inj.mp h1, h2⟩
      · rw [if_neg h8]
        have hn8 : n < 8 := by omega
        simp only [andBytes, List.zipWith_cons_cons, List.cons.injEq]
        rw [cidrMaskLoop_zero]
        have z1 := andBytes_zero as l ha
        have z2 := andBytes_zero cs l hc
        simp only [andBytes] at z1 z2
        rw [z1, z2, maskByte_eq_iff n hn8]
        simp only [beNat, ha, hc, and_true]
        have e : 8 * (l + 1) - n = 8 * l + (8 - n) := by omega
        have hB : (256 : Nat) ^ l = 2 ^ (8 * l) := by
          have : (256 : Nat) = 2 ^ 8 := by decide
          rw [this, ← Nat.pow_mul]
        rw [e, Nat.pow_add, ← Nat.div_div_eq_div_mul, ← Nat.div_div_eq_div_mul, ← hB]
        have hBpos : 0 < 256 ^ l := Nat.pow_pos (by decide)
        have qx : (a0.toNat * 256 ^ l + beNat as) / 256 ^ l = a0.toNat := by
          rw [Nat.add_comm, Nat.add_mul_div_right _ _ hBpos, Nat.div_eq_of_lt hx]; omega
        have qy : (c0.toNat * 256 ^ l + beNat cs) / 256 ^ l = c0.toNat := by
          rw [Nat.add_comm, Nat.add_mul_div_right _ _ hBpos, Nat.div_eq_of_lt hy]; omega
        rw [qx, qy]

/-! ### the code of package net on well-formed blocks -/

theorem containsLoop_eq (ip : Bytes) : ∀ (nn m : Bytes), nn.length = ip.length → m.length = ip.length →
    containsLoop nn m ip = .ok (andBytes nn m == andBytes ip m) := by
  induction ip with
  | nil =>
    intro nn m h1 h2
    have : nn = [] := List.length_eq_zero_iff.mp h1
    have : m = [] := List.length_eq_zero_iff.mp h2
    subst_vars; simp [containsLoop, andBytes]
  | cons x ip ih =>
    intro nn m h1 h2
    match nn, m, h1, h2 with
    | n :: nn, k :: ms, h1, h2 =>
      simp only [List.length_cons, Nat.add_right_cancel_iff] at h1 h2
      by_cases h : n &&& k = x &&& k
      · rw [containsLoop, if_neg (by simp [h]), ih nn ms h1 h2]
        simp [andBytes, h]
      · rw [containsLoop, if_pos h]
        simp [andBytes, h]

theorem to4_len4 (c : Bytes) (h : c.length = 4) : to4 c = some c := by simp [to4, h]

theorem to4_some_len (c c4 : Bytes) (h : to4 c = some c4) : c4.length = 4 := by
  unfold to4 at h
  split at h
  · simp at h; subst h; assumption
  · split at h
    · simp at h; subst h; simp; omega
    · simp at h

theorem to4_none_len (c : Bytes) (h : to4 c = none) : c.length ≠ 4 := by
  intro h4; rw [to4_len4 c h4] at h; simp at h

theorem ipMask_v4 (addr m : Bytes) (ha : addr.length = 4) (hm : m.length = 4) :
    ipMask (v4InV6Prefix ++ addr) m = some (andBytes addr m) := by
  unfold ipMask
  simp [hm, ha, v4InV6Prefix]

theorem ipMask_v6 (addr m : Bytes) (ha : addr.length = 16) (hm : m.length = 16) :
    ipMask addr m = some (andBytes addr m) := by
  unfold ipMask
  simp [hm, ha]

theorem nnm_v4 (X m : Bytes) (hX : X.length = 4) (hm : m.length = 4) :
    networkNumberAndMask { ip := X, mask := m } = some (X, m) := by
  unfold networkNumberAndMask
  simp [to4_len4 X hX, hX, hm]

theorem nnm_v6_mapped (X m : Bytes) (hX : X.length = 16) (hm : m.length = 16)
    (hp : X.take 12 = v4InV6Prefix) :
    networkNumberAndMask { ip := X, mask := m } = some (X.drop 12, m.drop 12) := by
  unfold networkNumberAndMask
  have : to4 X = some (X.drop 12) := by simp [to4, hX, hp]
  simp [this, hX, hm]

theorem nnm_v6_plain (X m : Bytes) (hX : X.length = 16) (hm : m.length = 16)
    (hp : X.take 12 ≠ v4InV6Prefix) :
    networkNumberAndMask { ip := X, mask := m } = some (X, m) := by
  unfold networkNumberAndMask
  have : to4 X = none := by simp [to4, hX, hp]
  simp [this, hX, hm]

theorem contains_of_nnm (net : IPNet) (nn m c : Bytes) (h : networkNumberAndMask net = some (nn, m))
    (hl : m.length = nn.length) :
    contains net c =
      if ((to4 c).getD c).length ≠ nn.length then .ok false
      else .ok (andBytes nn m == andBytes ((to4 c).getD c) m) := by
  unfold contains
  simp only [h, Option.getD_some]
  split
  · rfl
  · rename_i hne
    have : ((to4 c).getD c).length = nn.length := by omega
    rw [containsLoop_eq _ _ _ this.symm (by omega)]

theorem andBytes_idem (a m : Bytes) : andBytes (andBytes a m) m = andBytes a m := by
  induction a generalizing m with
  | nil => simp [andBytes]
  | cons x xs ih =>
    cases m with
    | nil => simp [andBytes]
    | cons k ks =>
      simp only [andBytes, List.zipWith_cons_cons, List.cons.injEq]
      refine ⟨?_, by simpa [andBytes] using ih ks⟩
      rw [UInt8.and_assoc, UInt8.and_self]

theorem andBytes_ff (a : Bytes) (k : Nat) (h : a.length = k) : andBytes a (List.replicate k 0xff) = a := by
  induction a generalizing k with
  | nil => subst h; simp [andBytes]
  | cons x xs ih =>
    subst h
    simp only [andBytes, List.length_cons, List.replicate_succ, List.zipWith_cons_cons, and_ff, List.cons.injEq, true_and]
    simpa [andBytes] using ih _ rfl

theorem cidrMaskLoop_step (n l : Nat) (h : n ≥ 8) :
    cidrMaskLoop n (l + 1) = 0xff :: cidrMaskLoop (n - 8) l := by
  rw [cidrMaskLoop, if_pos h]

theorem cidrMaskLoop_ge (k : Nat) : ∀ n l, n ≥ 8 * k →
    cidrMaskLoop n (k + l) = List.replicate k 0xff ++ cidrMaskLoop (n - 8 * k) l := by
  induction k with
  | zero => intro n l _; simp
  | succ k ih =>
    intro n l h
    have : k + 1 + l = (k + l) + 1 := by omega
    rw [this, cidrMaskLoop_step _ _ (by omega), ih (n - 8) l (by omega), List.replicate_succ]
    have : n - 8 - 8 * k = n - 8 * (k + 1) := by omega
    rw [this]; rfl

set_option maxRecDepth 100000 in
theorem maskByte_ne_ff (r : Nat) (hr : r < 8) (x : UInt8) :
    x &&& (~~~ ((0xff : UInt8) >>> UInt8.ofNat r)) ≠ 0xff := by
  have : ∀ r, r < 8 → ∀ k, k < 256 →
      (UInt8.ofNat k) &&& (~~~ ((0xff : UInt8) >>> UInt8.ofNat r)) ≠ 0xff := by decide
  exact u8_cases (fun x => x &&& (~~~ ((0xff : UInt8) >>> UInt8.ofNat r)) ≠ 0xff) (this r hr) x

/-- A mask byte not wholly inside the prefix is a partial byte `^byte(0xff >> r)`, `r < 8`. -/
theorem cidrMaskLoop_get (l : Nat) : ∀ n i, i < l → n < 8 * (i + 1) →
    ∃ r, r < 8 ∧ (cidrMaskLoop n l)[i]? = some (~~~ ((0xff : UInt8) >>> UInt8.ofNat r)) := by
  induction l with
  | zero => intro n i h; omega
  | succ l ih =>
    intro n i hi hn
    unfold cidrMaskLoop
    cases i with
    | zero =>
      rw [if_neg (by omega)]
      exact ⟨n, by omega, by simp⟩
    | succ i =>
      by_cases h8 : n ≥ 8
      · rw [if_pos h8]
        obtain ⟨r, hr, e⟩ := ih (n - 8) i (by omega) (by omega)
        exact ⟨r, hr, by simpa using e⟩
      · rw [if_neg h8]
        obtain ⟨r, hr, e⟩ := ih 0 i (by omega) (by omega)
        exact ⟨r, hr, by simpa using e⟩

/-- Masking an address with a prefix shorter than 96 bits destroys the
    IPv4-mapped marker: the result is an IPv6 network for `networkNumberAndMask`. -/
theorem short_mask_not_mapped (addr : Bytes) (n : Nat) (ha : addr.length = 16) (hn : n < 96) :
    (andBytes addr (cidrMaskLoop n 16)).take 12 ≠ v4InV6Prefix := by
  intro h
  obtain ⟨r, hr, e⟩ := cidrMaskLoop_get 16 n 11 (by omega) (by omega)
  have h11 : ((andBytes addr (cidrMaskLoop n 16)).take 12)[11]? = v4InV6Prefix[11]? := by rw [h]
  have hx : addr[11]? = some (addr[11]'(by omega)) := by simp
  simp only [andBytes, List.getElem?_take, List.getElem?_zipWith, e, hx] at h11
  simp [v4InV6Prefix] at h11
  exact maskByte_ne_ff r hr _ h11

/-! ### from entry texts to `IPInfo`s -/

/-- The `IPInfo` that `ParseIPInfo` builds for an entry with a given meaning. -/
def toInfo (e : Entry) : IPInfo :=
  match e.pfx with
  | none => { isIPNet := false, ip := as16 e.addr, ipNet := { ip := [], mask := [] } }
  | some n =>
    { isIPNet := true, ip := as16 e.addr,
      ipNet := { ip := (ipMask (as16 e.addr) (cidrMaskLoop n e.addr.length)).getD [],
                 mask := cidrMaskLoop n e.addr.length } }

/-- Well-formed meaning: 4 or 16 address bytes, prefix length within the address. -/
def _root_.GaeaVerif.IPAllow.Entry.WF (e : Entry) : Prop :=
  (e.addr.length = 4 ∨ e.addr.length = 16) ∧ ∀ n, e.pfx = some n → n ≤ 8 * e.addr.length

/-- What is assumed of `netip.ParseAddr`: it returns 4 or 16 bytes. -/
def PAwf (pa : Bytes → Option Addr) : Prop :=
  ∀ s a, pa s = some a → a.bytes.length = 4 ∨ a.bytes.length = 16

theorem beq_masked (l n : Nat) (a c : Bytes) (ha : a.length = l) (hc : c.length = l) (hn : n ≤ 8 * l) :
    (andBytes a (cidrMaskLoop n l) == andBytes c (cidrMaskLoop n l))
      = (beNat a / 2 ^ (8 * l - n) == beNat c / 2 ^ (8 * l - n)) := by
  rw [Bool.eq_iff_iff]; simp only [beq_iff_eq]; exact masked_eq_iff l n a c ha hc hn

theorem match_block_v4 (addr : Bytes) (n : Nat) (c : Bytes) (ha : addr.length = 4) (hn : n ≤ 32) :
    (toInfo { addr := addr, pfx := some n }).match c = .ok (familyMatch { addr := addr, pfx := some n } c) := by
  have hm : (cidrMaskLoop n 4).length = 4 := cidrMaskLoop_length n 4
  have hX : (andBytes addr (cidrMaskLoop n 4)).length = 4 := by rw [andBytes_length _ _ (by omega)]; exact ha
  simp only [toInfo, IPInfo.match, as16, ha, if_true, ipMask_v4 addr _ ha hm, Option.getD_some]
  rw [contains_of_nnm _ _ _ c (nnm_v4 _ _ hX hm) (by omega)]
  simp only [familyMatch, ha, if_true, hX]
  cases h4 : to4 c with
  | none =>
    have := to4_none_len c h4
    simp [this]
  | some c4 =>
    have hc4 := to4_some_len c c4 h4
    simp only [Option.getD_some, hc4, ne_eq, not_true_eq_false, if_false, andBytes_idem]
    rw [beq_masked 4 n addr c4 ha hc4 (by omega)]
    rfl

theorem match_block_mapped (addr : Bytes) (n : Nat) (c : Bytes) (ha : addr.length = 16)
    (hp : addr.take 12 = v4InV6Prefix) (hn : n ≤ 128) (h96 : n ≥ 96) :
    (toInfo { addr := addr, pfx := some n }).match c = .ok (familyMatch { addr := addr, pfx := some n } c) := by
  have hm : (cidrMaskLoop n 16).length = 16 := cidrMaskLoop_length n 16
  have hmask : cidrMaskLoop n 16 = List.replicate 12 0xff ++ cidrMaskLoop (n - 96) 4 :=
    cidrMaskLoop_ge 12 n 4 (by omega)
  have hX : (andBytes addr (cidrMaskLoop n 16)).length = 16 := by rw [andBytes_length _ _ (by omega)]; exact ha
  have hm4 : (cidrMaskLoop (n - 96) 4).length = 4 := cidrMaskLoop_length _ 4
  have hXt : (andBytes addr (cidrMaskLoop n 16)).take 12 = v4InV6Prefix := by
    rw [hmask]
    simp only [andBytes, List.take_zipWith]
    have : (List.replicate 12 (0xff : UInt8) ++ cidrMaskLoop (n - 96) 4).take 12 = List.replicate 12 0xff := by
      simp
    rw [this]
    have := andBytes_ff (addr.take 12) 12 (by simp; omega)
    simp only [andBytes] at this
    rw [this, hp]
  have hXd : (andBytes addr (cidrMaskLoop n 16)).drop 12 = andBytes (addr.drop 12) (cidrMaskLoop (n - 96) 4) := by
    rw [hmask]
    simp only [andBytes, List.drop_zipWith]
    congr 1
  have hmd : (cidrMaskLoop n 16).drop 12 = cidrMaskLoop (n - 96) 4 := by rw [hmask]; simp
  have hd4 : (addr.drop 12).length = 4 := by simp [ha]
  have h16 : ¬ (addr.length = 4) := by omega
  have has16 : as16 addr = addr := by simp [as16, ha]
  simp only [toInfo, IPInfo.match, has16, ha, ipMask_v6 addr _ ha hm, Option.getD_some, if_true]
  rw [contains_of_nnm _ _ _ c (nnm_v6_mapped _ _ hX hm hXt) (by rw [hXd, hmd, andBytes_length _ _ (by omega)]; omega)]
  have hto4 : to4 addr = some (addr.drop 12) := by simp [to4, ha, hp]
  simp only [familyMatch, h16, if_false, hto4, Option.isSome_some, h96, and_self, if_true, hXd, hmd]
  have hXdl : (andBytes (addr.drop 12) (cidrMaskLoop (n - 96) 4)).length = 4 := by
    rw [andBytes_length _ _ (by omega)]; exact hd4
  cases h4 : to4 c with
  | none =>
    have := to4_none_len c h4
    simp [this, hXdl]
  | some c4 =>
    have hc4 := to4_some_len c c4 h4
    simp only [Option.getD_some, hc4, hXdl, ne_eq, not_true_eq_false, if_false, andBytes_idem]
    rw [beq_masked 4 (n - 96) (addr.drop 12) c4 hd4 hc4 (by omega)]
    rfl

theorem match_block_v6 (addr : Bytes) (n : Nat) (c : Bytes) (ha : addr.length = 16)
    (hn : n ≤ 128) (hv6 : addr.take 12 ≠ v4InV6Prefix ∨ n < 96) :
    (toInfo { addr := addr, pfx := some n }).match c = .ok (familyMatch { addr := addr, pfx := some n } c) := by
  have hm : (cidrMaskLoop n 16).length = 16 := cidrMaskLoop_length n 16
  have hX : (andBytes addr (cidrMaskLoop n 16)).length = 16 := by rw [andBytes_length _ _ (by omega)]; exact ha
  have hXt : (andBytes addr (cidrMaskLoop n 16)).take 12 ≠ v4InV6Prefix := by
    by_cases h96 : n < 96
    · exact short_mask_not_mapped addr n ha h96
    · have hp : addr.take 12 ≠ v4InV6Prefix := by
        cases hv6 with
        | inl h => exact h
        | inr h => omega
      have hmask : cidrMaskLoop n 16 = List.replicate 12 0xff ++ cidrMaskLoop (n - 96) 4 :=
        cidrMaskLoop_ge 12 n 4 (by omega)
      rw [hmask]
      simp only [andBytes, List.take_zipWith]
      have : (List.replicate 12 (0xff : UInt8) ++ cidrMaskLoop (n - 96) 4).take 12 = List.replicate 12 0xff := by
        simp
      rw [this]
      have := andBytes_ff (addr.take 12) 12 (by simp; omega)
      simp only [andBytes] at this
      rw [this]; exact hp
  have h16 : ¬ (addr.length = 4) := by omega
  have has16 : as16 addr = addr := by simp [as16, ha]
  simp only [toInfo, IPInfo.match, has16, ha, ipMask_v6 addr _ ha hm, Option.getD_some, if_true]
  rw [contains_of_nnm _ _ _ c (nnm_v6_plain _ _ hX hm hXt) (by omega)]
  have hcond : ¬ ((to4 addr).isSome ∧ n ≥ 96) := by
    intro ⟨h1, h2⟩
    cases hv6 with
    | inl h =>
      apply h
      unfold to4 at h1
      simp [ha] at h1
      exact h1
    | inr h => omega
  simp only [familyMatch, h16, if_false, hcond, hX]
  cases h4 : to4 c with
  | none =>
    simp only [Option.getD_none, Option.isNone_none, Bool.true_and]
    by_cases hc : c.length = 16
    · simp only [hc, ne_eq, not_true_eq_false, if_false, andBytes_idem, beq_self_eq_true, Bool.true_and]
      rw [beq_masked 16 n addr c ha hc (by omega)]
      rfl
    · simp [hc]
  | some c4 =>
    have hc4 := to4_some_len c c4 h4
    simp [hc4]

theorem as16_len (a : Bytes) (h : a.length = 4 ∨ a.length = 16) : (as16 a).length = 16 := by
  unfold as16
  cases h with
  | inl h => simp [h, v4InV6Prefix]
  | inr h => simp [h]

theorem split12 (A c : Bytes) (hA : A.length = 16) (hc : c.length = 4) :
    (A.take 12 == v4InV6Prefix && A.drop 12 == c) = (A == v4InV6Prefix ++ c) := by
  rw [Bool.eq_iff_iff]
  simp only [Bool.and_eq_true, beq_iff_eq]
  constructor
  · rintro ⟨h1, h2⟩
    rw [← List.take_append_drop 12 A, h1, h2]
  · intro h
    subst h
    simp [v4InV6Prefix]

theorem match_addr (addr c : Bytes) (ha : addr.length = 4 ∨ addr.length = 16) :
    (toInfo { addr := addr, pfx := none }).match c = .ok (familyMatch { addr := addr, pfx := none } c) := by
  have hA := as16_len addr ha
  simp only [toInfo, IPInfo.match, familyMatch, Bool.false_eq_true, if_false]
  congr 1
  unfold ipEqual
  rw [hA]
  by_cases h16 : c.length = 16
  · have : as16 c = c := by simp [as16, h16]
    simp [h16, this]
  · by_cases h4 : c.length = 4
    · have : as16 c = v4InV6Prefix ++ c := by simp [as16, h4]
      have hne : ¬ (16 = c.length) := by omega
      simp only [hne, if_false, h4, this, Nat.reduceEqDiff, false_and, and_self, if_true, beq_self_eq_true,
        Bool.true_or, Bool.true_and]
      exact split12 _ _ hA h4
    · have hne : ¬ (16 = c.length) := by omega
      simp [hne, h4, h16]

/-- **`IPInfo.Match` decides `familyMatch`** for every well-formed entry and
    every client byte string (of any length, nil included), without panic. -/
theorem match_eq_familyMatch (e : Entry) (c : Bytes) (h : e.WF) :
    (toInfo e).match c = .ok (familyMatch e c) := by
  obtain ⟨addr, pfx⟩ := e
  obtain ⟨hlen, hpfx⟩ := h
  simp only at hlen hpfx
  cases pfx with
  | none => exact match_addr addr c hlen
  | some n =>
    have hn := hpfx n rfl
    cases hlen with
    | inl h4 => exact match_block_v4 addr n c h4 (by omega)
    | inr h16 =>
      by_cases hm : addr.take 12 = v4InV6Prefix ∧ n ≥ 96
      · exact match_block_mapped addr n c h16 hm.1 (by omega) hm.2
      · apply match_block_v6 addr n c h16 (by omega)
        by_cases hp : addr.take 12 = v4InV6Prefix
        · right; have : ¬ (n ≥ 96) := fun h => hm ⟨hp, h⟩; omega
        · left; exact hp

theorem cidrMask_ok (n len : Nat) (hl : len = 4 ∨ len = 16) (hn : n ≤ 8 * len) :
    cidrMask n (8 * len) = some (cidrMaskLoop n len) := by
  unfold cidrMask
  cases hl with
  | inl h => subst h; simp; omega
  | inr h => subst h; simp; omega

/-- `ParseCIDR` computes the meaning `denoteCIDR` (for any address syntax `pa`). -/
theorem parseCIDR_eq (pa : Bytes → Option Addr) (hpa : PAwf pa) (t : Bytes) :
    parseCIDR pa t = (denoteCIDR pa t).map (fun e => ((toInfo e).ip, (toInfo e).ipNet)) := by
  unfold parseCIDR denoteCIDR
  cases hc : cutSlash t with
  | none => rfl
  | some am =>
    obtain ⟨a, m⟩ := am
    simp only
    cases hp : pa a with
    | none => rfl
    | some ad =>
      have hlen := hpa a ad hp
      simp only
      by_cases hz : ad.zone = true
      · simp [hz]
      · simp only [hz, Bool.false_eq_true, if_false]
        rcases hd : dtoi m with ⟨n, i, ok⟩
        simp only
        by_cases hcond : (!ok || decide (i ≠ m.length) || decide (n > 8 * ad.bytes.length)) = true
        · rw [if_pos hcond, if_pos hcond]; rfl
        · rw [if_neg hcond, if_neg hcond]
          have hn : n ≤ 8 * ad.bytes.length := by
            simp only [Bool.or_eq_true, decide_eq_true_eq, not_or] at hcond
            omega
          rw [cidrMask_ok n _ hlen hn]
          simp [toInfo]

/-- **`ParseIPInfo` computes the meaning of the entry text** (for any address syntax `pa`). -/
theorem parseIPInfo_eq (pa : Bytes → Option Addr) (hpa : PAwf pa) (t : Bytes) :
    parseIPInfo pa t = (denote pa t).map toInfo := by
  unfold parseIPInfo denote
  rw [parseCIDR_eq pa hpa t]
  cases hc : denoteCIDR pa t with
  | some e =>
    have : e.pfx.isSome := by
      unfold denoteCIDR at hc
      split at hc
      · simp at hc
      · split at hc
        · simp at hc
        · split at hc
          · simp at hc
          · split at hc
            · simp at hc
            · simp at hc; subst hc; rfl
    obtain ⟨addr, pfx⟩ := e
    cases pfx with
    | none => simp at this
    | some n => simp [toInfo]
  | none =>
    simp only [Option.map_none]
    unfold parseIP
    cases hp : pa t with
    | none => rfl
    | some ad =>
      by_cases hz : ad.zone = true
      · simp [hz]
      · simp [hz, toInfo]

theorem denote_wf (pa : Bytes → Option Addr) (hpa : PAwf pa) (t : Bytes) (e : Entry)
    (h : denote pa t = some e) : e.WF := by
  unfold denote at h
  cases hc : denoteCIDR pa t with
  | some e' =>
    rw [hc] at h
    simp only [Option.some.injEq] at h
    subst h
    unfold denoteCIDR at hc
    split at hc
    · simp at hc
    · split at hc
      · simp at hc
      · rename_i ad hp
        split at hc
        · simp at hc
        · split at hc
          · simp at hc
          · rename_i hcond
            simp only [Option.some.injEq] at hc
            subst hc
            refine ⟨hpa _ _ hp, ?_⟩
            intro n hn
            simp only [Option.some.injEq] at hn
            subst hn
            simp only [Bool.or_eq_true, decide_eq_true_eq, not_or] at hcond
            show (dtoi _).1 ≤ 8 * ad.bytes.length
            omega
  | none =>
    rw [hc] at h
    simp only at h
    split at h
    · rename_i ad hp
      split at h
      · simp at h
      · simp only [Option.some.injEq] at h
        subst h
        exact ⟨hpa _ _ hp, by intro n hn; simp at hn⟩
    · simp at h

/-! ### the allow-list -/

theorem listed_wf (pa : Bytes → Option Addr) (hpa : PAwf pa) :
    ∀ (l : List Bytes) (es : List Entry), listed pa l = some es → ∀ e ∈ es, e.WF := by
  intro l
  induction l with
  | nil => intro es h; simp [listed] at h; subst h; simp
  | cons s rest ih =>
    intro es h
    unfold listed at h
    split at h
    · exact ih es h
    · split at h
      · rename_i e es' hd hl
        simp only [Option.some.injEq] at h
        subst h
        intro x hx
        simp only [List.mem_cons] at hx
        cases hx with
        | inl hx => subst hx; exact denote_wf pa hpa _ _ hd
        | inr hx => exact ih es' hl x hx
      · simp at h

/-- **`parseAllowIps` builds exactly the listed entries**: surrounding white
    space is ignored, blank entries are skipped, a meaningless entry makes the
    namespace unloadable. -/
theorem parseAllowIps_eq (pa : Bytes → Option Addr) (hpa : PAwf pa) (l : List Bytes) :
    parseAllowIps pa l = match listed pa l with
      | some es => .ok (es.map toInfo)
      | none => .fail := by
  induction l with
  | nil => simp [parseAllowIps, listed]
  | cons s rest ih =>
    unfold parseAllowIps listed
    by_cases hb : (trimSpace s).length = 0
    · simp only [hb, if_true]; exact ih
    · simp only [hb, if_false]
      rw [parseIPInfo_eq pa hpa, ih]
      cases hd : denote pa (trimSpace s) with
      | none => simp
      | some e =>
        cases hl : listed pa rest with
        | none => simp
        | some es => simp

theorem matchAny_eq (c : Bytes) : ∀ (es : List Entry), (∀ e ∈ es, e.WF) →
    matchAny (es.map toInfo) c = .ok (es.any (fun e => familyMatch e c)) := by
  intro es
  induction es with
  | nil => intro _; simp [matchAny]
  | cons e es ih =>
    intro h
    have he := h e (by simp)
    have hes := ih (fun x hx => h x (by simp [hx]))
    simp only [List.map_cons, matchAny, match_eq_familyMatch e c he, List.any_cons]
    cases hf : familyMatch e c with
    | true => simp
    | false => simp [hes]

/-- **C35, the decision taken by the proxy.**  For every address syntax, every
    list of entry texts and every client byte string (nil and odd lengths
    included): the namespace is unloadable iff some entry is meaningless;
    otherwise the client is admitted iff no entry is listed or one listed entry
    matches it (`familyMatch`).  The check never panics. -/
theorem allow_iff (pa : Bytes → Option Addr) (hpa : PAwf pa) (l : List Bytes) (c : Bytes) :
    (parseAllowIps pa l >>= fun infos => isClientIPAllowed infos c)
      = match listed pa l with
        | none => .fail
        | some es => .ok (es.isEmpty || es.any (fun e => familyMatch e c)) := by
  rw [parseAllowIps_eq pa hpa l]
  cases hl : listed pa l with
  | none => rfl
  | some es =>
    simp only [R.bind_ok, isClientIPAllowed]
    cases es with
    | nil => simp
    | cons e es' =>
      have hw := listed_wf pa hpa l _ hl
      rw [if_neg (by simp), matchAny_eq c _ hw]
      simp

/-- Prop form of `allow_iff` for a loadable list. -/
theorem allowed_iff (pa : Bytes → Option Addr) (hpa : PAwf pa) (l : List Bytes) (es : List Entry) (c : Bytes)
    (hl : listed pa l = some es) :
    (parseAllowIps pa l >>= fun infos => isClientIPAllowed infos c) = .ok true
      ↔ (es = [] ∨ ∃ e ∈ es, familyMatch e c = true) := by
  rw [allow_iff pa hpa l c, hl]
  simp only [R.ok.injEq, Bool.or_eq_true, List.isEmpty_iff, List.any_eq_true]

/-! ### IPv4 and IPv4-mapped presentations of a client -/

theorem to4_mapped (a : Bytes) (h : a.length = 4) : to4 (v4InV6Prefix ++ a) = some a := by
  simp [to4, h, v4InV6Prefix]

theorem ipEqual_mapped (ip a : Bytes) (h : a.length = 4) :
    ipEqual ip (v4InV6Prefix ++ a) = ipEqual ip a := by
  have h16 : (v4InV6Prefix ++ a).length = 16 := by simp [v4InV6Prefix, h]
  unfold ipEqual
  rw [h16, h]
  by_cases h1 : ip.length = 16
  · have := split12 ip a h1 h
    simp only [h1, if_true, Nat.reduceEqDiff, if_false, false_and, and_self, this]
  · by_cases h2 : ip.length = 4
    · simp [h2, v4InV6Prefix, h]
    · simp [h1, h2]

/-- **IPv4 = IPv4-mapped.**  Whatever the allow-list holds (even `IPInfo`s that
    no parser would produce), an IPv4 client is treated identically whether
    presented as 4 bytes or as the 16-byte IPv4-mapped address. -/
theorem mapped_equiv (infos : List IPInfo) (a : Bytes) (h : a.length = 4) :
    isClientIPAllowed infos (v4InV6Prefix ++ a) = isClientIPAllowed infos a := by
  unfold isClientIPAllowed
  split
  · rfl
  · have hm : ∀ i : IPInfo, i.match (v4InV6Prefix ++ a) = i.match a := by
      intro i
      unfold IPInfo.match contains
      rw [to4_mapped a h, to4_len4 a h, ipEqual_mapped _ _ h]
      rfl
    rename_i hne
    clear hne
    induction infos with
    | nil => rfl
    | cons i is ih => simp only [matchAny, hm, ih]

/-! ### the literal reading: one 128-bit address space -/

theorem beNat_append (p x : Bytes) : beNat (p ++ x) = beNat p * 256 ^ x.length + beNat x := by
  induction p with
  | nil => simp [beNat]
  | cons b p ih =>
    simp only [List.cons_append, beNat, List.length_append, ih, Nat.pow_add, Nat.add_mul, Nat.mul_assoc,
      Nat.add_assoc]

/-- Network numbers of an IPv4 address and of its IPv4-mapped form. -/
theorem netNum_mapped (x : Bytes) (k : Nat) (hx : x.length = 4) (hk : k ≤ 32) :
    netNum 128 (k + 96) (v4InV6Prefix ++ x) = beNat v4InV6Prefix * 2 ^ k + netNum 32 k x := by
  unfold netNum
  rw [beNat_append, hx]
  have e : 128 - (k + 96) = 32 - k := by omega
  rw [e]
  generalize hD : 2 ^ (32 - k) = D
  have hDpos : 0 < D := by rw [← hD]; exact Nat.pow_pos (by decide)
  have h256 : (256 : Nat) ^ 4 = 2 ^ k * D := by
    rw [← hD, ← Nat.pow_add]
    have : k + (32 - k) = 32 := by omega
    rw [this]
  rw [h256, ← Nat.mul_assoc, Nat.add_comm, Nat.add_mul_div_right _ _ hDpos, Nat.add_comm]

theorem as16_of_to4 (c c4 : Bytes) (h : to4 c = some c4) :
    as16 c = v4InV6Prefix ++ c4 ∧ (c.length = 4 ∨ c.length = 16) := by
  unfold to4 at h
  split at h
  · rename_i h4
    simp only [Option.some.injEq] at h
    subst h
    exact ⟨by simp [as16, h4], Or.inl h4⟩
  · split at h
    · rename_i h4 h16
      simp only [Option.some.injEq] at h
      subst h
      refine ⟨?_, Or.inr h16.1⟩
      simp only [as16, h4, if_false]
      rw [← h16.2, List.take_append_drop]
    · simp at h

/-- Is the entry an IPv4 block (dotted quad, or IPv4-mapped with 96 bits or more)? -/
def v4Block (e : Entry) : Bool :=
  e.addr.length == 4 ||
    ((to4 e.addr).isSome && match e.pfx with
      | some n => decide (n ≥ 96)
      | none => true)

/-- Entry and client are of one family (always so for a single address). -/
def sameFamily (e : Entry) (c : Bytes) : Prop := e.pfx = none ∨ v4Block e = (to4 c).isSome

/-- `familyMatch` is the literal reading restricted to entry and client of one family. -/
theorem familyMatch_eq_uniformMatch (e : Entry) (c : Bytes) (h : e.WF) (hs : sameFamily e c) :
    familyMatch e c = uniformMatch e c := by
  obtain ⟨addr, pfx⟩ := e
  obtain ⟨hlen, hpfx⟩ := h
  simp only at hlen hpfx
  cases pfx with
  | none => simp [familyMatch, uniformMatch]
  | some n =>
    have hn := hpfx n rfl
    have hs' : v4Block { addr := addr, pfx := some n } = (to4 c).isSome := by
      cases hs with
      | inl h => simp at h
      | inr h => exact h
    simp only [v4Block] at hs'
    simp only [familyMatch, uniformMatch]
    cases hlen with
    | inl h4 =>
      simp only [h4, if_true]
      simp only [h4, beq_self_eq_true, Bool.true_or] at hs'
      cases hc : to4 c with
      | none => rw [hc] at hs'; simp at hs'
      | some c4 =>
        obtain ⟨hc16, hcl⟩ := as16_of_to4 c c4 hc
        have hc4 := to4_some_len c c4 hc
        have ha16 : as16 addr = v4InV6Prefix ++ addr := by simp [as16, h4]
        have hl : (c.length == 4 || c.length == 16) = true := by
          cases hcl with
          | inl h => simp [h]
          | inr h => simp [h]
        rw [hl, hc16, ha16, netNum_mapped addr n h4 (by omega), netNum_mapped c4 n hc4 (by omega)]
        rw [Bool.true_and, Bool.eq_iff_iff]
        simp only [beq_iff_eq, Nat.add_left_cancel_iff]
    | inr h16 =>
      have hne : ¬ (addr.length = 4) := by omega
      have ha16 : as16 addr = addr := by simp [as16, h16]
      simp only [hne, if_false, ha16]
      by_cases hm : (to4 addr).isSome = true ∧ n ≥ 96
      · rw [if_pos hm]
        have hp : addr.take 12 = v4InV6Prefix := by
          have := hm.1
          unfold to4 at this
          simp [h16] at this
          exact this
        have haddr : addr = v4InV6Prefix ++ addr.drop 12 := by rw [← hp, List.take_append_drop]
        have hd4 : (addr.drop 12).length = 4 := by simp [h16]
        simp only [h16, hm.1, hm.2, decide_true, Bool.and_self, Bool.or_true] at hs'
        cases hc : to4 c with
        | none => rw [hc] at hs'; simp at hs'
        | some c4 =>
          obtain ⟨hc16, hcl⟩ := as16_of_to4 c c4 hc
          have hc4 := to4_some_len c c4 hc
          have hl : (c.length == 4 || c.length == 16) = true := by
            cases hcl with
            | inl h => simp [h]
            | inr h => simp [h]
          have e96 : n = (n - 96) + 96 := by omega
          rw [hl, hc16]
          conv => rhs; rw [haddr, e96]
          rw [netNum_mapped _ (n - 96) hd4 (by omega), netNum_mapped c4 (n - 96) hc4 (by omega)]
          rw [Bool.true_and, Bool.eq_iff_iff]
          simp only [beq_iff_eq, Nat.add_left_cancel_iff]
      · rw [if_neg hm]
        have hv : ((to4 addr).isSome && decide (n ≥ 96)) = false := by
          simp only [Bool.and_eq_false_iff, decide_eq_false_iff_not]
          by_cases h1 : (to4 addr).isSome = true
          · right; intro h2; exact hm ⟨h1, h2⟩
          · left; simpa using h1
        have hne4 : (addr.length == 4) = false := by simp [h16]
        simp only [hne4, hv, Bool.or_false] at hs'
        have hcn : to4 c = none := by
          cases hc : to4 c with
          | none => rfl
          | some x => rw [hc] at hs'; simp at hs'
        have hc4 : c.length ≠ 4 := to4_none_len c hcn
        have hc4' : (c.length == 4) = false := by simp [hc4]
        simp only [hcn, Option.isNone_none, Bool.true_and, hc4', Bool.false_or]
        by_cases hc16 : c.length = 16
        · have : as16 c = c := by simp [as16, hc4]
          simp [hc16, this]
        · have h' : (c.length == 16) = false := beq_false_of_ne hc16
          simp [h']

/-- An entry never admits a client outside its literal meaning. -/
theorem familyMatch_imp_uniformMatch (e : Entry) (c : Bytes) (h : e.WF)
    (hf : familyMatch e c = true) : uniformMatch e c = true := by
  by_cases hs : sameFamily e c
  · rw [← familyMatch_eq_uniformMatch e c h hs]; exact hf
  · exfalso
    obtain ⟨addr, pfx⟩ := e
    cases pfx with
    | none => exact hs (Or.inl rfl)
    | some n =>
      apply hs
      right
      simp only [familyMatch] at hf
      simp only [v4Block]
      split at hf
      · rename_i h4
        cases hc : to4 c with
        | none => rw [hc] at hf; simp at hf
        | some c4 => simp [h4]
      · split at hf
        · rename_i h4 hm
          cases hc : to4 c with
          | none => rw [hc] at hf; simp at hf
          | some c4 => simp [hm.1, hm.2]
        · rename_i h4 hm
          simp only [Bool.and_eq_true, Option.isNone_iff_eq_none] at hf
          have hcn := hf.1.1
          have h4' : (addr.length == 4) = false := by simp [h4]
          have hv : ((to4 addr).isSome && decide (n ≥ 96)) = false := by
            simp only [Bool.and_eq_false_iff, decide_eq_false_iff_not]
            by_cases h1 : (to4 addr).isSome = true
            · right; intro h2; exact hm ⟨h1, h2⟩
            · left; simpa using h1
          simp [h4', hv, hcn]

/-- **Only allow-listed client addresses can connect** (literal reading, full
    strength): if the proxy admits a client then the list is loadable and
    either holds no entry or holds an entry whose address equals the client's
    or whose block contains it, IPv4 and IPv4-mapped addresses being one. -/
theorem only_listed_clients_connect (pa : Bytes → Option Addr) (hpa : PAwf pa) (l : List Bytes) (c : Bytes)
    (h : (parseAllowIps pa l >>= fun infos => isClientIPAllowed infos c) = .ok true) :
    ∃ es, listed pa l = some es ∧ (es = [] ∨ ∃ e ∈ es, uniformMatch e c = true) := by
  rw [allow_iff pa hpa l c] at h
  cases hl : listed pa l with
  | none => rw [hl] at h; simp at h
  | some es =>
    refine ⟨es, rfl, ?_⟩
    have := (allowed_iff pa hpa l es c hl).mp (by rw [allow_iff pa hpa l c]; exact h)
    cases this with
    | inl h0 => exact Or.inl h0
    | inr h1 =>
      obtain ⟨e, he, hf⟩ := h1
      exact Or.inr ⟨e, he, familyMatch_imp_uniformMatch e c (listed_wf pa hpa l es hl e he) hf⟩

/-- C35, the converse direction.  Full statement (false of the code, see
    `short_ipv6_block_rejects_ipv4_witness`):
      listed pa l = some es → (es = [] ∨ ∃ e ∈ es, uniformMatch e c) → admitted.
    Proved with the hypothesis that the matching entry and the client are of
    one family (`sameFamily`), which only excludes an IPv4 client against a
    block written in IPv6 form with fewer than 96 bits. -/
theorem listed_clients_connect_partial (pa : Bytes → Option Addr) (hpa : PAwf pa) (l : List Bytes)
    (es : List Entry) (c : Bytes) (hl : listed pa l = some es)
    (h : es = [] ∨ ∃ e ∈ es, uniformMatch e c = true ∧ sameFamily e c) :
    (parseAllowIps pa l >>= fun infos => isClientIPAllowed infos c) = .ok true := by
  rw [allowed_iff pa hpa l es c hl]
  cases h with
  | inl h0 => exact Or.inl h0
  | inr h1 =>
    obtain ⟨e, he, hu, hs⟩ := h1
    exact Or.inr ⟨e, he, by rw [familyMatch_eq_uniformMatch e c (listed_wf pa hpa l es hl e he) hs]; exact hu⟩

/-! ### the reference address syntax, witnesses and examples -/

theorem parseIPv4Fields_len (s b : Bytes) (h : parseIPv4Fields s = some b) : b.length = 4 := by
  unfold parseIPv4Fields at h
  split at h
  · simp only [Option.some.injEq] at h; subst h; rfl
  · simp at h

theorem parseIPv6_len (s : Bytes) (a : Addr) (h : parseIPv6 s = some a) : a.bytes.length = 16 := by
  unfold parseIPv6 at h
  simp only at h
  repeat' split at h
  all_goals (first | (simp at h; done) | skip)
  all_goals (simp only [Option.some.injEq] at h; subst h;
             simp only [List.length_append, List.length_take, List.length_replicate, List.length_drop])
  all_goals (first | omega | simp_all)

/-- The reference parser satisfies the assumption made of `netip.ParseAddr`. -/
theorem netipParseAddr_wf : PAwf netipParseAddr := by
  intro s a h
  unfold netipParseAddr at h
  split at h
  · cases hp : parseIPv4Fields s with
    | none => rw [hp] at h; simp at h
    | some b =>
      rw [hp] at h
      simp only [Option.map_some, Option.some.injEq] at h
      subst h
      exact Or.inl (parseIPv4Fields_len s b hp)
  · exact Or.inr (parseIPv6_len s a h)
  · simp at h

/-- `allow_iff` for the syntax that the check compares with `netip.ParseAddr`. -/
theorem allow_iff_netip (l : List Bytes) (c : Bytes) :
    (parseAllowIps netipParseAddr l >>= fun infos => isClientIPAllowed infos c)
      = match listed netipParseAddr l with
        | none => .fail
        | some es => .ok (es.isEmpty || es.any (fun e => familyMatch e c)) :=
  allow_iff netipParseAddr netipParseAddr_wf l c

/-- The text `::ffff:1.2.3.4/0`. -/
def wBlock : Bytes :=
  [0x3a, 0x3a, 0x66, 0x66, 0x66, 0x66, 0x3a, 0x31, 0x2e, 0x32, 0x2e, 0x33, 0x2e, 0x34, 0x2f, 0x30]

set_option maxRecDepth 100000 in
/-- **Witness (open finding).**  The allow-list `["::ffff:1.2.3.4/0"]` denotes a
    block that contains every address, 1.2.3.4 included (`uniformMatch`), yet the
    proxy refuses the client 1.2.3.4, in either presentation. -/
theorem short_ipv6_block_rejects_ipv4_witness :
    listed netipParseAddr [wBlock] = some [{ addr := v4InV6Prefix ++ [1, 2, 3, 4], pfx := some 0 }]
    ∧ uniformMatch { addr := v4InV6Prefix ++ [1, 2, 3, 4], pfx := some 0 } [1, 2, 3, 4] = true
    ∧ (parseAllowIps netipParseAddr [wBlock] >>= fun infos => isClientIPAllowed infos [1, 2, 3, 4]) = .ok false
    ∧ (parseAllowIps netipParseAddr [wBlock] >>= fun infos =>
        isClientIPAllowed infos (v4InV6Prefix ++ [1, 2, 3, 4])) = .ok false := by
  decide

/-- The texts ` 10.1.2.3/8`, `` (blank), `::1`, `::ffff:192.168.0.0/112`. -/
def exList : List Bytes :=
  [[0x20, 0x31, 0x30, 0x2e, 0x31, 0x2e, 0x32, 0x2e, 0x33, 0x2f, 0x38], [],
   [0x3a, 0x3a, 0x31],
   [0x3a, 0x3a, 0x66, 0x66, 0x66, 0x66, 0x3a, 0x31, 0x39, 0x32, 0x2e, 0x31, 0x36, 0x38, 0x2e, 0x30, 0x2e, 0x30,
    0x2f, 0x31, 0x31, 0x32]]

set_option maxRecDepth 100000 in
/-- Non-vacuity: a loadable list with a blank entry, white space, an IPv4 block,
    an IPv6 address and an IPv4-mapped block; clients inside and outside. -/
example :
    listed netipParseAddr exList = some
      [{ addr := [10, 1, 2, 3], pfx := some 8 },
       { addr := [0, 0, 0, 0, 0, 0, 0, 0, 0, 0, 0, 0, 0, 0, 0, 1], pfx := none },
       { addr := v4InV6Prefix ++ [192, 168, 0, 0], pfx := some 112 }]
    ∧ (parseAllowIps netipParseAddr exList >>= fun i => isClientIPAllowed i [10, 255, 0, 1]) = .ok true
    ∧ (parseAllowIps netipParseAddr exList >>= fun i => isClientIPAllowed i [11, 0, 0, 1]) = .ok false
    ∧ (parseAllowIps netipParseAddr exList >>= fun i => isClientIPAllowed i (v4InV6Prefix ++ [192, 168, 9, 9])) = .ok true
    ∧ (parseAllowIps netipParseAddr exList >>= fun i => isClientIPAllowed i [192, 169, 0, 0]) = .ok false
    ∧ (parseAllowIps netipParseAddr exList >>= fun i => isClientIPAllowed i []) = .ok false
    ∧ sameFamily { addr := [10, 1, 2, 3], pfx := some 8 } [10, 255, 0, 1]
    ∧ ({ addr := [10, 1, 2, 3], pfx := some 8 } : Entry).WF := by
  refine ⟨by decide, by decide, by decide, by decide, by decide, by decide, ?_, ?_⟩
  · right; decide
  · exact ⟨Or.inl rfl, by intro n h; simp at h; subst h; decide⟩

/-- Non-vacuity of the prefix lemma: `/20` on 4 bytes. -/
example : andBytes [10, 1, 0x2f, 3] (cidrMaskLoop 20 4) = andBytes [10, 1, 0x20, 0xff] (cidrMaskLoop 20 4)
    ∧ beNat [10, 1, 0x2f, 3] / 2 ^ (8 * 4 - 20) = beNat [10, 1, 0x20, 0xff] / 2 ^ (8 * 4 - 20) := by decide

end GaeaVerif.C35
