import GaeaVerif.Model.IPAllow
import GaeaVerif.Model.IPAllowReload
import GaeaVerif.Props.C31
import GaeaVerif.Gen.Consts
/-
  C35 — Only allow-listed client addresses can connect; a client whose address
  is in a listed block connects.

  Theorems about `Model/IPAllow.lean` and `Model/IPAllowReload.lean` (tie to
  /repo: correspondence `gvh run C35`, translator facts `Gen.c35*`).

  Main statements
    * `allow_iff`: for every address syntax, list of entry texts and client
      byte string, the namespace is unloadable iff an entry is meaningless;
      otherwise the client is admitted iff no entry is listed or a listed entry
      holds it in the literal reading (`uniformMatch`: one 128-bit address
      space, `a.b.c.d` = `::ffff:a.b.c.d`); never a panic.
    * `only_listed_clients_connect` / `listed_clients_connect`: both directions
      at full strength (the converse since the fix: commit of `IPInfo.Match`);
      `v6_client_not_in_v4_block`: the repair cannot over-allow;
      `short_ipv6_block_rejects_ipv4_witness`: pinned old behaviour.
    * entries: `full_prefix_is_single_address`, `prefix_zero_*`,
      `unparsable_entry_refuses_list`, `no_entry_dropped`,
      `nonblank_list_never_open`, `leading_zero_octet_rejected`,
      `zoned_entry_refused`, `entry_hex_case_irrelevant`.
    * clients: `splitHost_joinHostPort`, `clientOf_tcp`, `conn_port_irrelevant`,
      `no_address_client_refused` (unix sockets), `onConn_admits_iff`,
      `unix_client_crashed_pinned_witness`, `mapped_equiv`.
    * reload: `reload_history_conn`, `unparsable_prepare_changes_nothing`,
      `commit_puts_prepared_list_in_force`, `conn_during_reload_old_or_new`.
-/
namespace GaeaVerif.C35
open GaeaVerif GaeaVerif.IPAllow

/-! ### bytes and masks -/

theorem u8_cases (P : UInt8 → Prop) (h : ∀ k, k < 256 → P (UInt8.ofNat k)) (a : UInt8) : P a := by
  have := h a.toNat (UInt8.toNat_lt a)
  simpa using this

set_option maxRecDepth 100000 in
theorem and_ff (a : UInt8) : a &&& 0xff = a := by
  revert a; apply u8_cases; decide

set_option maxRecDepth 100000 in
theorem and_zero (a : UInt8) : a &&& 0 = 0 := by
  revert a; apply u8_cases; decide

set_option maxRecDepth 100000 in
/-- The partial mask byte `^byte(0xff >> n)` keeps the `n` high bits. -/
theorem maskByte_toNat (n : Nat) (hn : n < 8) (a : UInt8) :
    (a &&& (~~~ ((0xff : UInt8) >>> UInt8.ofNat n))).toNat = a.toNat / 2 ^ (8 - n) * 2 ^ (8 - n) := by
  revert a
  have : ∀ n, n < 8 → ∀ k, k < 256 →
      ((UInt8.ofNat k) &&& (~~~ ((0xff : UInt8) >>> UInt8.ofNat n))).toNat
        = (UInt8.ofNat k).toNat / 2 ^ (8 - n) * 2 ^ (8 - n) := by decide
  intro a
  exact u8_cases (fun a => (a &&& (~~~ ((0xff : UInt8) >>> UInt8.ofNat n))).toNat = a.toNat / 2 ^ (8 - n) * 2 ^ (8 - n))
    (this n hn) a

theorem maskByte_eq_iff (n : Nat) (hn : n < 8) (a c : UInt8) :
    (a &&& (~~~ ((0xff : UInt8) >>> UInt8.ofNat n)) = c &&& (~~~ ((0xff : UInt8) >>> UInt8.ofNat n)))
      ↔ a.toNat / 2 ^ (8 - n) = c.toNat / 2 ^ (8 - n) := by
  have hp : 0 < 2 ^ (8 - n) := Nat.pow_pos (by decide)
  constructor
  · intro h
    have h' := congrArg UInt8.toNat h
    rw [maskByte_toNat n hn, maskByte_toNat n hn] at h'
    exact Nat.eq_of_mul_eq_mul_right hp h'
  · intro h
    apply UInt8.toNat_inj.mp
    rw [maskByte_toNat n hn, maskByte_toNat n hn, h]

theorem beNat_lt (a : Bytes) : beNat a < 256 ^ a.length := by
  induction a with
  | nil => simp [beNat]
  | cons b bs ih =>
    simp only [beNat, List.length_cons, Nat.pow_succ]
    have hb := UInt8.toNat_lt b
    have : b.toNat * 256 ^ bs.length ≤ 255 * 256 ^ bs.length := Nat.mul_le_mul_right _ (by omega)
    omega

theorem cidrMaskLoop_length (n l : Nat) : (cidrMaskLoop n l).length = l := by
  induction l generalizing n with
  | zero => simp [cidrMaskLoop]
  | succ l ih => unfold cidrMaskLoop; split <;> simp [ih]

theorem cidrMaskLoop_zero (l : Nat) : cidrMaskLoop 0 l = List.replicate l 0 := by
  induction l with
  | zero => simp [cidrMaskLoop]
  | succ l ih =>
    unfold cidrMaskLoop
    simp only [ih, List.replicate_succ]
    have : (~~~ ((0xff : UInt8) >>> UInt8.ofNat 0)) = 0 := by decide
    rw [if_neg (by omega), this]

theorem andBytes_zero (a : Bytes) (l : Nat) (h : a.length = l) :
    andBytes a (List.replicate l 0) = List.replicate l 0 := by
  induction a generalizing l with
  | nil => subst h; simp [andBytes]
  | cons b bs ih =>
    subst h
    simp only [andBytes, List.length_cons, List.replicate_succ, List.zipWith_cons_cons, and_zero]
    congr 1
    exact ih _ rfl

theorem andBytes_length (a m : Bytes) (h : a.length = m.length) : (andBytes a m).length = a.length := by
  simp [andBytes, h]

/-- Euclid: two numbers with digits below `M` agree iff their digits agree. -/
theorem digit_eq (M a c r s : Nat) (hr : r < M) (hs : s < M) :
    a * M + r = c * M + s ↔ a = c ∧ r = s := by
  constructor
  · intro h
    have hM : 0 < M := by omega
    have h1 : (a * M + r) / M = (c * M + s) / M := by rw [h]
    have h2 : (a * M + r) % M = (c * M + s) % M := by rw [h]
    rw [Nat.mul_comm a M, Nat.mul_comm c M] at h1 h2
    rw [Nat.mul_add_div hM, Nat.mul_add_div hM, Nat.div_eq_of_lt hr, Nat.div_eq_of_lt hs] at h1
    rw [Nat.mul_add_mod, Nat.mul_add_mod, Nat.mod_eq_of_lt hr, Nat.mod_eq_of_lt hs] at h2
    omega
  · rintro ⟨rfl, rfl⟩; rfl

/-- **Mask-and-compare is prefix equality.**  For two addresses of `l` bytes and
    a prefix of `n ≤ 8l` bits, the byte-wise comparison under `CIDRMask(n, 8l)`
    (as in `IPNet.Contains`) holds exactly when the two network numbers agree. -/
theorem masked_eq_iff (l : Nat) : ∀ (n : Nat) (a c : Bytes), a.length = l → c.length = l → n ≤ 8 * l →
    (andBytes a (cidrMaskLoop n l) = andBytes c (cidrMaskLoop n l)
      ↔ beNat a / 2 ^ (8 * l - n) = beNat c / 2 ^ (8 * l - n)) := by
  induction l with
  | zero =>
    intro n a c ha hc _
    have : a = [] := List.length_eq_zero_iff.mp ha
    have : c = [] := List.length_eq_zero_iff.mp hc
    subst_vars; simp
  | succ l ih =>
    intro n a c ha hc hn
    match a, c, ha, hc with
    | a0 :: as, c0 :: cs, ha, hc =>
      simp only [List.length_cons, Nat.add_right_cancel_iff] at ha hc
      have hx := beNat_lt as
      have hy := beNat_lt cs
      rw [ha] at hx; rw [hc] at hy
      unfold cidrMaskLoop
      by_cases h8 : n ≥ 8
      · rw [if_pos h8]
        simp only [andBytes, List.zipWith_cons_cons, and_ff, List.cons.injEq]
        have ihh := ih (n - 8) as cs ha hc (by omega)
        simp only [andBytes] at ihh
        rw [ihh]
        simp only [beNat, ha, hc]
        -- 256^l = M * D
        have e : 8 * (l + 1) - n = 8 * l - (n - 8) := by omega
        rw [e]
        generalize hD : 2 ^ (8 * l - (n - 8)) = D
        have hDpos : 0 < D := by rw [← hD]; exact Nat.pow_pos (by decide)
        have hMD : 256 ^ l = 2 ^ (n - 8) * D := by
          rw [← hD, ← Nat.pow_add]
          have : (256 : Nat) = 2 ^ 8 := by decide
          rw [this, ← Nat.pow_mul]
          congr 1; omega
        generalize hM : 2 ^ (n - 8) = M at hMD
        rw [hMD] at hx hy ⊢
        have dx : (a0.toNat * (M * D) + beNat as) / D = a0.toNat * M + beNat as / D := by
          rw [← Nat.mul_assoc, Nat.add_comm, Nat.add_mul_div_right _ _ hDpos, Nat.add_comm]
        have dy : (c0.toNat * (M * D) + beNat cs) / D = c0.toNat * M + beNat cs / D := by
          rw [← Nat.mul_assoc, Nat.add_comm, Nat.add_mul_div_right _ _ hDpos, Nat.add_comm]
        rw [dx, dy]
        have rx : beNat as / D < M := (Nat.div_lt_iff_lt_mul hDpos).mpr hx
        have ry : beNat cs / D < M := (Nat.div_lt_iff_lt_mul hDpos).mpr hy
        rw [digit_eq M _ _ _ _ rx ry]
        constructor
        · rintro ⟨h1, h2⟩; exact ⟨by rw [h1], h2⟩
        · rintro ⟨h1, h2⟩; exact ⟨UInt8.toNat_inj.mp h1, h2⟩
      · rw [if_neg h8]
        have hn8 : n < 8 := by omega
        simp only [andBytes, List.zipWith_cons_cons, List.cons.injEq]
        rw [cidrMaskLoop_zero]
        have z1 := andBytes_zero as l ha
        have z2 := andBytes_zero cs l hc
        simp only [andBytes] at z1 z2
        rw [z1, z2, maskByte_eq_iff n hn8]
        simp only [beNat, ha, hc, and_true]
        have e : 8 * (l + 1) - n = 8 * l + (8 - n) := by omega
        have hB : (256 : Nat) ^ l = 2 ^ (8 * l) := by
          have : (256 : Nat) = 2 ^ 8 := by decide
          rw [this, ← Nat.pow_mul]
        rw [e, Nat.pow_add, ← Nat.div_div_eq_div_mul, ← Nat.div_div_eq_div_mul, ← hB]
        have hBpos : 0 < 256 ^ l := Nat.pow_pos (by decide)
        have qx : (a0.toNat * 256 ^ l + beNat as) / 256 ^ l = a0.toNat := by
          rw [Nat.add_comm, Nat.add_mul_div_right _ _ hBpos, Nat.div_eq_of_lt hx]; omega
        have qy : (c0.toNat * 256 ^ l + beNat cs) / 256 ^ l = c0.toNat := by
          rw [Nat.add_comm, Nat.add_mul_div_right _ _ hBpos, Nat.div_eq_of_lt hy]; omega
        rw [qx, qy]

/-! ### the code of package net on well-formed blocks -/

theorem containsLoop_eq (ip : Bytes) : ∀ (nn m : Bytes), nn.length = ip.length → m.length = ip.length →
    containsLoop nn m ip = .ok (andBytes nn m == andBytes ip m) := by
  induction ip with
  | nil =>
    intro nn m h1 h2
    have : nn = [] := List.length_eq_zero_iff.mp h1
    have : m = [] := List.length_eq_zero_iff.mp h2
    subst_vars; simp [containsLoop, andBytes]
  | cons x ip ih =>
    intro nn m h1 h2
    match nn, m, h1, h2 with
    | n :: nn, k :: ms, h1, h2 =>
      simp only [List.length_cons, Nat.add_right_cancel_iff] at h1 h2
      by_cases h : n &&& k = x &&& k
      · rw [containsLoop, if_neg (by simp [h]), ih nn ms h1 h2]
        simp [andBytes, h]
      · rw [containsLoop, if_pos h]
        simp [andBytes, h]

theorem to4_len4 (c : Bytes) (h : c.length = 4) : to4 c = some c := by simp [to4, h]

theorem to4_some_len (c c4 : Bytes) (h : to4 c = some c4) : c4.length = 4 := by
  unfold to4 at h
  split at h
  · simp at h; subst h; assumption
  · split at h
    · simp at h; subst h; simp; omega
    · simp at h

theorem to4_none_len (c : Bytes) (h : to4 c = none) : c.length ≠ 4 := by
  intro h4; rw [to4_len4 c h4] at h; simp at h

theorem ipMask_v4 (addr m : Bytes) (ha : addr.length = 4) (hm : m.length = 4) :
    ipMask (v4InV6Prefix ++ addr) m = some (andBytes addr m) := by
  unfold ipMask
  simp [hm, ha, v4InV6Prefix]

theorem ipMask_v6 (addr m : Bytes) (ha : addr.length = 16) (hm : m.length = 16) :
    ipMask addr m = some (andBytes addr m) := by
  unfold ipMask
  simp [hm, ha]

theorem nnm_v4 (X m : Bytes) (hX : X.length = 4) (hm : m.length = 4) :
    networkNumberAndMask { ip := X, mask := m } = some (X, m) := by
  unfold networkNumberAndMask
  simp [to4_len4 X hX, hX, hm]

theorem nnm_v6_mapped (X m : Bytes) (hX : X.length = 16) (hm : m.length = 16)
    (hp : X.take 12 = v4InV6Prefix) :
    networkNumberAndMask { ip := X, mask := m } = some (X.drop 12, m.drop 12) := by
  unfold networkNumberAndMask
  have : to4 X = some (X.drop 12) := by simp [to4, hX, hp]
  simp [this, hX, hm]

theorem nnm_v6_plain (X m : Bytes) (hX : X.length = 16) (hm : m.length = 16)
    (hp : X.take 12 ≠ v4InV6Prefix) :
    networkNumberAndMask { ip := X, mask := m } = some (X, m) := by
  unfold networkNumberAndMask
  have : to4 X = none := by simp [to4, hX, hp]
  simp [this, hX, hm]

theorem contains_of_nnm (net : IPNet) (nn m c : Bytes) (h : networkNumberAndMask net = some (nn, m))
    (hl : m.length = nn.length) :
    contains net c =
      if ((to4 c).getD c).length ≠ nn.length then .ok false
      else .ok (andBytes nn m == andBytes ((to4 c).getD c) m) := by
  unfold contains
  simp only [h, Option.getD_some]
  split
  · rfl
  · rename_i hne
    have : ((to4 c).getD c).length = nn.length := by omega
    rw [containsLoop_eq _ _ _ this.symm (by omega)]

theorem andBytes_idem (a m : Bytes) : andBytes (andBytes a m) m = andBytes a m := by
  induction a generalizing m with
  | nil => simp [andBytes]
  | cons x xs ih =>
    cases m with
    | nil => simp [andBytes]
    | cons k ks =>
      simp only [andBytes, List.zipWith_cons_cons, List.cons.injEq]
      refine ⟨?_, by simpa [andBytes] using ih ks⟩
      rw [UInt8.and_assoc, UInt8.and_self]

theorem andBytes_ff (a : Bytes) (k : Nat) (h : a.length = k) : andBytes a (List.replicate k 0xff) = a := by
  induction a generalizing k with
  | nil => subst h; simp [andBytes]
  | cons x xs ih =>
    subst h
    simp only [andBytes, List.length_cons, List.replicate_succ, List.zipWith_cons_cons, and_ff, List.cons.injEq, true_and]
    simpa [andBytes] using ih _ rfl

theorem cidrMaskLoop_step (n l : Nat) (h : n ≥ 8) :
    cidrMaskLoop n (l + 1) = 0xff :: cidrMaskLoop (n - 8) l := by
  rw [cidrMaskLoop, if_pos h]

theorem cidrMaskLoop_ge (k : Nat) : ∀ n l, n ≥ 8 * k →
    cidrMaskLoop n (k + l) = List.replicate k 0xff ++ cidrMaskLoop (n - 8 * k) l := by
  induction k with
  | zero => intro n l _; simp
  | succ k ih =>
    intro n l h
    have : k + 1 + l = (k + l) + 1 := by omega
    rw [this, cidrMaskLoop_step _ _ (by omega), ih (n - 8) l (by omega), List.replicate_succ]
    have : n - 8 - 8 * k = n - 8 * (k + 1) := by omega
    rw [this]; rfl

set_option maxRecDepth 100000 in
theorem maskByte_ne_ff (r : Nat) (hr : r < 8) (x : UInt8) :
    x &&& (~~~ ((0xff : UInt8) >>> UInt8.ofNat r)) ≠ 0xff := by
  have : ∀ r, r < 8 → ∀ k, k < 256 →
      (UInt8.ofNat k) &&& (~~~ ((0xff : UInt8) >>> UInt8.ofNat r)) ≠ 0xff := by decide
  exact u8_cases (fun x => x &&& (~~~ ((0xff : UInt8) >>> UInt8.ofNat r)) ≠ 0xff) (this r hr) x

/-- A mask byte not wholly inside the prefix is a partial byte `^byte(0xff >> r)`, `r < 8`. -/
theorem cidrMaskLoop_get (l : Nat) : ∀ n i, i < l → n < 8 * (i + 1) →
    ∃ r, r < 8 ∧ (cidrMaskLoop n l)[i]? = some (~~~ ((0xff : UInt8) >>> UInt8.ofNat r)) := by
  induction l with
  | zero => intro n i h; omega
  | succ l ih =>
    intro n i hi hn
    unfold cidrMaskLoop
    cases i with
    | zero =>
      rw [if_neg (by omega)]
      exact ⟨n, by omega, by simp⟩
    | succ i =>
      by_cases h8 : n ≥ 8
      · rw [if_pos h8]
        obtain ⟨r, hr, e⟩ := ih (n - 8) i (by omega) (by omega)
        exact ⟨r, hr, by simpa using e⟩
      · rw [if_neg h8]
        obtain ⟨r, hr, e⟩ := ih 0 i (by omega) (by omega)
        exact ⟨r, hr, by simpa using e⟩

/-- Masking an address with a prefix shorter than 96 bits destroys the
    IPv4-mapped marker: the result is an IPv6 network for `networkNumberAndMask`. -/
theorem short_mask_not_mapped (addr : Bytes) (n : Nat) (ha : addr.length = 16) (hn : n < 96) :
    (andBytes addr (cidrMaskLoop n 16)).take 12 ≠ v4InV6Prefix := by
  intro h
  obtain ⟨r, hr, e⟩ := cidrMaskLoop_get 16 n 11 (by omega) (by omega)
  have h11 : ((andBytes addr (cidrMaskLoop n 16)).take 12)[11]? = v4InV6Prefix[11]? := by rw [h]
  have hx : addr[11]? = some (addr[11]'(by omega)) := by simp
  simp only [andBytes, List.getElem?_take, List.getElem?_zipWith, e, hx] at h11
  simp [v4InV6Prefix] at h11
  exact maskByte_ne_ff r hr _ h11

/-! ### from entry texts to `IPInfo`s -/

/-- The `IPInfo` that `ParseIPInfo` builds for an entry with a given meaning. -/
def toInfo (e : Entry) : IPInfo :=
  match e.pfx with
  | none => { isIPNet := false, ip := as16 e.addr, ipNet := { ip := [], mask := [] } }
  | some n =>
    { isIPNet := true, ip := as16 e.addr,
      ipNet := { ip := (ipMask (as16 e.addr) (cidrMaskLoop n e.addr.length)).getD [],
                 mask := cidrMaskLoop n e.addr.length } }

/-- Well-formed meaning: 4 or 16 address bytes, prefix length within the address. -/
def _root_.GaeaVerif.IPAllow.Entry.WF (e : Entry) : Prop :=
  (e.addr.length = 4 ∨ e.addr.length = 16) ∧ ∀ n, e.pfx = some n → n ≤ 8 * e.addr.length

/-- What is assumed of `netip.ParseAddr`: it returns 4 or 16 bytes. -/
def PAwf (pa : Bytes → Option Addr) : Prop :=
  ∀ s a, pa s = some a → a.bytes.length = 4 ∨ a.bytes.length = 16

theorem beq_masked (l n : Nat) (a c : Bytes) (ha : a.length = l) (hc : c.length = l) (hn : n ≤ 8 * l) :
    (andBytes a (cidrMaskLoop n l) == andBytes c (cidrMaskLoop n l))
      = (beNat a / 2 ^ (8 * l - n) == beNat c / 2 ^ (8 * l - n)) := by
  rw [Bool.eq_iff_iff]; simp only [beq_iff_eq]; exact masked_eq_iff l n a c ha hc hn

theorem matchPinned_block_v4 (addr : Bytes) (n : Nat) (c : Bytes) (ha : addr.length = 4) (hn : n ≤ 32) :
    (toInfo { addr := addr, pfx := some n }).matchPinned c = .ok (familyMatch { addr := addr, pfx := some n } c) := by
  have hm : (cidrMaskLoop n 4).length = 4 := cidrMaskLoop_length n 4
  have hX : (andBytes addr (cidrMaskLoop n 4)).length = 4 := by rw [andBytes_length _ _ (by omega)]; exact ha
  simp only [toInfo, IPInfo.matchPinned, as16, ha, if_true, ipMask_v4 addr _ ha hm, Option.getD_some]
  rw [contains_of_nnm _ _ _ c (nnm_v4 _ _ hX hm) (by omega)]
  simp only [familyMatch, ha, if_true, hX]
  cases h4 : to4 c with
  | none =>
    have := to4_none_len c h4
    simp [this]
  | some c4 =>
    have hc4 := to4_some_len c c4 h4
    simp only [Option.getD_some, hc4, ne_eq, not_true_eq_false, if_false, andBytes_idem]
    rw [beq_masked 4 n addr c4 ha hc4 (by omega)]
    rfl

theorem matchPinned_block_mapped (addr : Bytes) (n : Nat) (c : Bytes) (ha : addr.length = 16)
    (hp : addr.take 12 = v4InV6Prefix) (hn : n ≤ 128) (h96 : n ≥ 96) :
    (toInfo { addr := addr, pfx := some n }).matchPinned c = .ok (familyMatch { addr := addr, pfx := some n } c) := by
  have hm : (cidrMaskLoop n 16).length = 16 := cidrMaskLoop_length n 16
  have hmask : cidrMaskLoop n 16 = List.replicate 12 0xff ++ cidrMaskLoop (n - 96) 4 :=
    cidrMaskLoop_ge 12 n 4 (by omega)
  have hX : (andBytes addr (cidrMaskLoop n 16)).length = 16 := by rw [andBytes_length _ _ (by omega)]; exact ha
  have hm4 : (cidrMaskLoop (n - 96) 4).length = 4 := cidrMaskLoop_length _ 4
  have hXt : (andBytes addr (cidrMaskLoop n 16)).take 12 = v4InV6Prefix := by
    rw [hmask]
    simp only [andBytes, List.take_zipWith]
    have : (List.replicate 12 (0xff : UInt8) ++ cidrMaskLoop (n - 96) 4).take 12 = List.replicate 12 0xff := by
      simp
    rw [this]
    have := andBytes_ff (addr.take 12) 12 (by simp; omega)
    simp only [andBytes] at this
    rw [this, hp]
  have hXd : (andBytes addr (cidrMaskLoop n 16)).drop 12 = andBytes (addr.drop 12) (cidrMaskLoop (n - 96) 4) := by
    rw [hmask]
    simp only [andBytes, List.drop_zipWith]
    congr 1
  have hmd : (cidrMaskLoop n 16).drop 12 = cidrMaskLoop (n - 96) 4 := by rw [hmask]; simp
  have hd4 : (addr.drop 12).length = 4 := by simp [ha]
  have h16 : ¬ (addr.length = 4) := by omega
  have has16 : as16 addr = addr := by simp [as16, ha]
  simp only [toInfo, IPInfo.matchPinned, has16, ha, ipMask_v6 addr _ ha hm, Option.getD_some, if_true]
  rw [contains_of_nnm _ _ _ c (nnm_v6_mapped _ _ hX hm hXt) (by rw [hXd, hmd, andBytes_length _ _ (by omega)]; omega)]
  have hto4 : to4 addr = some (addr.drop 12) := by simp [to4, ha, hp]
  simp only [familyMatch, h16, if_false, hto4, Option.isSome_some, h96, and_self, if_true, hXd, hmd]
  have hXdl : (andBytes (addr.drop 12) (cidrMaskLoop (n - 96) 4)).length = 4 := by
    rw [andBytes_length _ _ (by omega)]; exact hd4
  cases h4 : to4 c with
  | none =>
    have := to4_none_len c h4
    simp [this, hXdl]
  | some c4 =>
    have hc4 := to4_some_len c c4 h4
    simp only [Option.getD_some, hc4, hXdl, ne_eq, not_true_eq_false, if_false, andBytes_idem]
    rw [beq_masked 4 (n - 96) (addr.drop 12) c4 hd4 hc4 (by omega)]
    rfl

theorem matchPinned_block_v6 (addr : Bytes) (n : Nat) (c : Bytes) (ha : addr.length = 16)
    (hn : n ≤ 128) (hv6 : addr.take 12 ≠ v4InV6Prefix ∨ n < 96) :
    (toInfo { addr := addr, pfx := some n }).matchPinned c = .ok (familyMatch { addr := addr, pfx := some n } c) := by
  have hm : (cidrMaskLoop n 16).length = 16 := cidrMaskLoop_length n 16
  have hX : (andBytes addr (cidrMaskLoop n 16)).length = 16 := by rw [andBytes_length _ _ (by omega)]; exact ha
  have hXt : (andBytes addr (cidrMaskLoop n 16)).take 12 ≠ v4InV6Prefix := by
    by_cases h96 : n < 96
    · exact short_mask_not_mapped addr n ha h96
    · have hp : addr.take 12 ≠ v4InV6Prefix := by
        cases hv6 with
        | inl h => exact h
        | inr h => omega
      have hmask : cidrMaskLoop n 16 = List.replicate 12 0xff ++ cidrMaskLoop (n - 96) 4 :=
        cidrMaskLoop_ge 12 n 4 (by omega)
      rw [hmask]
      simp only [andBytes, List.take_zipWith]
      have : (List.replicate 12 (0xff : UInt8) ++ cidrMaskLoop (n - 96) 4).take 12 = List.replicate 12 0xff := by
        simp
      rw [this]
      have := andBytes_ff (addr.take 12) 12 (by simp; omega)
      simp only [andBytes] at this
      rw [this]; exact hp
  have h16 : ¬ (addr.length = 4) := by omega
  have has16 : as16 addr = addr := by simp [as16, ha]
  simp only [toInfo, IPInfo.matchPinned, has16, ha, ipMask_v6 addr _ ha hm, Option.getD_some, if_true]
  rw [contains_of_nnm _ _ _ c (nnm_v6_plain _ _ hX hm hXt) (by omega)]
  have hcond : ¬ ((to4 addr).isSome ∧ n ≥ 96) := by
    intro ⟨h1, h2⟩
    cases hv6 with
    | inl h =>
      apply h
      unfold to4 at h1
      simp [ha] at h1
      exact h1
    | inr h => omega
  simp only [familyMatch, h16, if_false, hcond, hX]
  cases h4 : to4 c with
  | none =>
    simp only [Option.getD_none, Option.isNone_none, Bool.true_and]
    by_cases hc : c.length = 16
    · simp only [hc, ne_eq, not_true_eq_false, if_false, andBytes_idem, beq_self_eq_true, Bool.true_and]
      rw [beq_masked 16 n addr c ha hc (by omega)]
      rfl
    · simp [hc]
  | some c4 =>
    have hc4 := to4_some_len c c4 h4
    simp [hc4]

theorem as16_len (a : Bytes) (h : a.length = 4 ∨ a.length = 16) : (as16 a).length = 16 := by
  unfold as16
  cases h with
  | inl h => simp [h, v4InV6Prefix]
  | inr h => simp [h]

theorem split12 (A c : Bytes) (hA : A.length = 16) (hc : c.length = 4) :
    (A.take 12 == v4InV6Prefix && A.drop 12 == c) = (A == v4InV6Prefix ++ c) := by
  rw [Bool.eq_iff_iff]
  simp only [Bool.and_eq_true, beq_iff_eq]
  constructor
  · rintro ⟨h1, h2⟩
    rw [← List.take_append_drop 12 A, h1, h2]
  · intro h
    subst h
    simp [v4InV6Prefix]

theorem matchPinned_addr (addr c : Bytes) (ha : addr.length = 4 ∨ addr.length = 16) :
    (toInfo { addr := addr, pfx := none }).matchPinned c = .ok (familyMatch { addr := addr, pfx := none } c) := by
  have hA := as16_len addr ha
  simp only [toInfo, IPInfo.matchPinned, familyMatch, Bool.false_eq_true, if_false]
  congr 1
  unfold ipEqual
  rw [hA]
  by_cases h16 : c.length = 16
  · have : as16 c = c := by simp [as16, h16]
    simp [h16, this]
  · by_cases h4 : c.length = 4
    · have : as16 c = v4InV6Prefix ++ c := by simp [as16, h4]
      have hne : ¬ (16 = c.length) := by omega
      simp only [hne, if_false, h4, this, Nat.reduceEqDiff, false_and, and_self, if_true, beq_self_eq_true,
        Bool.true_or, Bool.true_and]
      exact split12 _ _ hA h4
    · have hne : ¬ (16 = c.length) := by omega
      simp [hne, h4, h16]

/-- **The pinned `IPInfo.Match` (`Contains` alone) decides `familyMatch`** for
    every well-formed entry and every client byte string (of any length, nil
    included), without panic. -/
theorem matchPinned_eq_familyMatch (e : Entry) (c : Bytes) (h : e.WF) :
    (toInfo e).matchPinned c = .ok (familyMatch e c) := by
  obtain ⟨addr, pfx⟩ := e
  obtain ⟨hlen, hpfx⟩ := h
  simp only at hlen hpfx
  cases pfx with
  | none => exact matchPinned_addr addr c hlen
  | some n =>
    have hn := hpfx n rfl
    cases hlen with
    | inl h4 => exact matchPinned_block_v4 addr n c h4 (by omega)
    | inr h16 =>
      by_cases hm : addr.take 12 = v4InV6Prefix ∧ n ≥ 96
      · exact matchPinned_block_mapped addr n c h16 hm.1 (by omega) hm.2
      · apply matchPinned_block_v6 addr n c h16 (by omega)
        by_cases hp : addr.take 12 = v4InV6Prefix
        · right; have : ¬ (n ≥ 96) := fun h => hm ⟨hp, h⟩; omega
        · left; exact hp

theorem cidrMask_ok (n len : Nat) (hl : len = 4 ∨ len = 16) (hn : n ≤ 8 * len) :
    cidrMask n (8 * len) = some (cidrMaskLoop n len) := by
  unfold cidrMask
  cases hl with
  | inl h => subst h; simp; omega
  | inr h => subst h; simp; omega

/-- `ParseCIDR` computes the meaning `denoteCIDR` (for any address syntax `pa`). -/
theorem parseCIDR_eq (pa : Bytes → Option Addr) (hpa : PAwf pa) (t : Bytes) :
    parseCIDR pa t = (denoteCIDR pa t).map (fun e => ((toInfo e).ip, (toInfo e).ipNet)) := by
  unfold parseCIDR denoteCIDR
  cases hc : cutSlash t with
  | none => rfl
  | some am =>
    obtain ⟨a, m⟩ := am
    simp only
    cases hp : pa a with
    | none => rfl
    | some ad =>
      have hlen := hpa a ad hp
      simp only
      by_cases hz : ad.zone = true
      · simp [hz]
      · simp only [hz, Bool.false_eq_true, if_false]
        rcases hd : dtoi m with ⟨n, i, ok⟩
        simp only
        by_cases hcond : (!ok || decide (i ≠ m.length) || decide (n > 8 * ad.bytes.length)) = true
        · rw [if_pos hcond, if_pos hcond]; rfl
        · rw [if_neg hcond, if_neg hcond]
          have hn : n ≤ 8 * ad.bytes.length := by
            simp only [Bool.or_eq_true, decide_eq_true_eq, not_or] at hcond
            omega
          rw [cidrMask_ok n _ hlen hn]
          simp [toInfo]

/-- **`ParseIPInfo` computes the meaning of the entry text** (for any address syntax `pa`). -/
theorem parseIPInfo_eq (pa : Bytes → Option Addr) (hpa : PAwf pa) (t : Bytes) :
    parseIPInfo pa t = (denote pa t).map toInfo := by
  unfold parseIPInfo denote
  rw [parseCIDR_eq pa hpa t]
  cases hc : denoteCIDR pa t with
  | some e =>
    have : e.pfx.isSome := by
      unfold denoteCIDR at hc
      split at hc
      · simp at hc
      · split at hc
        · simp at hc
        · split at hc
          · simp at hc
          · split at hc
            · simp at hc
            · simp at hc; subst hc; rfl
    obtain ⟨addr, pfx⟩ := e
    cases pfx with
    | none => simp at this
    | some n => simp [toInfo]
  | none =>
    simp only [Option.map_none]
    unfold parseIP
    cases hp : pa t with
    | none => rfl
    | some ad =>
      by_cases hz : ad.zone = true
      · simp [hz]
      · simp [hz, toInfo]

theorem denote_wf (pa : Bytes → Option Addr) (hpa : PAwf pa) (t : Bytes) (e : Entry)
    (h : denote pa t = some e) : e.WF := by
  unfold denote at h
  cases hc : denoteCIDR pa t with
  | some e' =>
    rw [hc] at h
    simp only [Option.some.injEq] at h
    subst h
    unfold denoteCIDR at hc
    split at hc
    · simp at hc
    · split at hc
      · simp at hc
      · rename_i ad hp
        split at hc
        · simp at hc
        · split at hc
          · simp at hc
          · rename_i hcond
            simp only [Option.some.injEq] at hc
            subst hc
            refine ⟨hpa _ _ hp, ?_⟩
            intro n hn
            simp only [Option.some.injEq] at hn
            subst hn
            simp only [Bool.or_eq_true, decide_eq_true_eq, not_or] at hcond
            show (dtoi _).1 ≤ 8 * ad.bytes.length
            omega
  | none =>
    rw [hc] at h
    simp only at h
    split at h
    · rename_i ad hp
      split at h
      · simp at h
      · simp only [Option.some.injEq] at h
        subst h
        exact ⟨hpa _ _ hp, by intro n hn; simp at hn⟩
    · simp at h

/-! ### the allow-list -/

theorem listed_wf (pa : Bytes → Option Addr) (hpa : PAwf pa) :
    ∀ (l : List Bytes) (es : List Entry), listed pa l = some es → ∀ e ∈ es, e.WF := by
  intro l
  induction l with
  | nil => intro es h; simp [listed] at h; subst h; simp
  | cons s rest ih =>
    intro es h
    unfold listed at h
    split at h
    · exact ih es h
    · split at h
      · rename_i e es' hd hl
        simp only [Option.some.injEq] at h
        subst h
        intro x hx
        simp only [List.mem_cons] at hx
        cases hx with
        | inl hx => subst hx; exact denote_wf pa hpa _ _ hd
        | inr hx => exact ih es' hl x hx
      · simp at h

/-- **`parseAllowIps` builds exactly the listed entries**: surrounding white
    space is ignored, blank entries are skipped, a meaningless entry makes the
    namespace unloadable. -/
theorem parseAllowIps_eq (pa : Bytes → Option Addr) (hpa : PAwf pa) (l : List Bytes) :
    parseAllowIps pa l = match listed pa l with
      | some es => .ok (es.map toInfo)
      | none => .fail := by
  induction l with
  | nil => simp [parseAllowIps, listed]
  | cons s rest ih =>
    unfold parseAllowIps listed
    by_cases hb : (trimSpace s).length = 0
    · simp only [hb, if_true]; exact ih
    · simp only [hb, if_false]
      rw [parseIPInfo_eq pa hpa, ih]
      cases hd : denote pa (trimSpace s) with
      | none => simp
      | some e =>
        cases hl : listed pa rest with
        | none => simp
        | some es => simp

/-! ### the literal reading: one 128-bit address space -/

theorem beNat_append (p x : Bytes) : beNat (p ++ x) = beNat p * 256 ^ x.length + beNat x := by
  induction p with
  | nil => simp [beNat]
  | cons b p ih =>
    simp only [List.cons_append, beNat, List.length_append, ih, Nat.pow_add, Nat.add_mul, Nat.mul_assoc,
      Nat.add_assoc]

theorem beNat_inj : ∀ (a c : Bytes), a.length = c.length → beNat a = beNat c → a = c := by
  intro a
  induction a with
  | nil => intro c h _; exact (List.length_eq_zero_iff.mp h.symm).symm
  | cons x xs ih =>
    intro c h he
    match c, h with
    | y :: ys, h =>
      simp only [List.length_cons, Nat.add_right_cancel_iff] at h
      simp only [beNat] at he
      rw [h] at he
      have hx := beNat_lt xs
      have hy := beNat_lt ys
      rw [h] at hx
      obtain ⟨h1, h2⟩ := (digit_eq (256 ^ ys.length) x.toNat y.toNat (beNat xs) (beNat ys) hx hy).mp he
      rw [UInt8.toNat_inj.mp h1, ih ys h h2]

/-- Network number of a 16-byte address under a prefix of 96 bits or more: the
    first 12 bytes as they are, then the network number of the last four. -/
theorem netNum_split (p x : Bytes) (k : Nat) (hx : x.length = 4) (hk : k ≤ 32) :
    netNum 128 (k + 96) (p ++ x) = beNat p * 2 ^ k + netNum 32 k x := by
  unfold netNum
  rw [beNat_append, hx]
  have e : 128 - (k + 96) = 32 - k := by omega
  rw [e]
  generalize hD : 2 ^ (32 - k) = D
  have hDpos : 0 < D := by rw [← hD]; exact Nat.pow_pos (by decide)
  have h256 : (256 : Nat) ^ 4 = 2 ^ k * D := by
    rw [← hD, ← Nat.pow_add]
    have : k + (32 - k) = 32 := by omega
    rw [this]
  rw [h256, ← Nat.mul_assoc, Nat.add_comm, Nat.add_mul_div_right _ _ hDpos, Nat.add_comm]

theorem netNum32_lt (x : Bytes) (k : Nat) (hx : x.length = 4) (hk : k ≤ 32) : netNum 32 k x < 2 ^ k := by
  unfold netNum
  have h := beNat_lt x
  rw [hx] at h
  have h2 : (256 : Nat) ^ 4 = 2 ^ k * 2 ^ (32 - k) := by
    rw [← Nat.pow_add]
    have : k + (32 - k) = 32 := by omega
    rw [this]
  rw [h2] at h
  exact Nat.div_lt_of_lt_mul (by rw [Nat.mul_comm]; exact h)

/-- **Families are kept apart by the literal reading itself**: two 16-byte
    addresses with equal network numbers under a prefix of 96 bits or more have
    the same first 12 bytes — an address outside `::ffff:0:0/96` is in no IPv4 block. -/
theorem netNum_ge96_prefix (a c : Bytes) (n : Nat) (ha : a.length = 16) (hc : c.length = 16)
    (hn : 96 ≤ n) (hn' : n ≤ 128) (h : netNum 128 n a = netNum 128 n c) : a.take 12 = c.take 12 := by
  have ea : a = a.take 12 ++ a.drop 12 := (List.take_append_drop 12 a).symm
  have ec : c = c.take 12 ++ c.drop 12 := (List.take_append_drop 12 c).symm
  have hda : (a.drop 12).length = 4 := by simp [ha]
  have hdc : (c.drop 12).length = 4 := by simp [hc]
  have e96 : n = (n - 96) + 96 := by omega
  rw [ea, ec, e96, netNum_split _ _ (n - 96) hda (by omega), netNum_split _ _ (n - 96) hdc (by omega)] at h
  have h1 := netNum32_lt (a.drop 12) (n - 96) hda (by omega)
  have h2 := netNum32_lt (c.drop 12) (n - 96) hdc (by omega)
  obtain ⟨h3, _⟩ := (digit_eq (2 ^ (n - 96)) _ _ _ _ h1 h2).mp h
  exact beNat_inj _ _ (by simp [ha, hc]) h3

/-- Network numbers of an IPv4 address and of its IPv4-mapped form. -/
theorem netNum_mapped (x : Bytes) (k : Nat) (hx : x.length = 4) (hk : k ≤ 32) :
    netNum 128 (k + 96) (v4InV6Prefix ++ x) = beNat v4InV6Prefix * 2 ^ k + netNum 32 k x :=
  netNum_split v4InV6Prefix x k hx hk

theorem as16_of_to4 (c c4 : Bytes) (h : to4 c = some c4) :
    as16 c = v4InV6Prefix ++ c4 ∧ (c.length = 4 ∨ c.length = 16) := by
  unfold to4 at h
  split at h
  · rename_i h4
    simp only [Option.some.injEq] at h
    subst h
    exact ⟨by simp [as16, h4], Or.inl h4⟩
  · split at h
    · rename_i h4 h16
      simp only [Option.some.injEq] at h
      subst h
      refine ⟨?_, Or.inr h16.1⟩
      simp only [as16, h4, if_false]
      rw [← h16.2, List.take_append_drop]
    · simp at h

/-- Is the entry an IPv4 block (dotted quad, or IPv4-mapped with 96 bits or more)? -/
def v4Block (e : Entry) : Bool :=
  e.addr.length == 4 ||
    ((to4 e.addr).isSome && match e.pfx with
      | some n => decide (n ≥ 96)
      | none => true)

/-- Entry and client are of one family (always so for a single address). -/
def sameFamily (e : Entry) (c : Bytes) : Prop := e.pfx = none ∨ v4Block e = (to4 c).isSome

/-- `familyMatch` is the literal reading restricted to entry and client of one family. -/
theorem familyMatch_eq_uniformMatch (e : Entry) (c : Bytes) (h : e.WF) (hs : sameFamily e c) :
    familyMatch e c = uniformMatch e c := by
  obtain ⟨addr, pfx⟩ := e
  obtain ⟨hlen, hpfx⟩ := h
  simp only at hlen hpfx
  cases pfx with
  | none => simp [familyMatch, uniformMatch]
  | some n =>
    have hn := hpfx n rfl
    have hs' : v4Block { addr := addr, pfx := some n } = (to4 c).isSome := by
      cases hs with
      | inl h => simp at h
      | inr h => exact h
    simp only [v4Block] at hs'
    simp only [familyMatch, uniformMatch]
    cases hlen with
    | inl h4 =>
      simp only [h4, if_true]
      simp only [h4, beq_self_eq_true, Bool.true_or] at hs'
      cases hc : to4 c with
      | none => rw [hc] at hs'; simp at hs'
      | some c4 =>
        obtain ⟨hc16, hcl⟩ := as16_of_to4 c c4 hc
        have hc4 := to4_some_len c c4 hc
        have ha16 : as16 addr = v4InV6Prefix ++ addr := by simp [as16, h4]
        have hl : (c.length == 4 || c.length == 16) = true := by
          cases hcl with
          | inl h => simp [h]
          | inr h => simp [h]
        rw [hl, hc16, ha16, netNum_split _ addr n h4 (by omega), netNum_split _ c4 n hc4 (by omega)]
        rw [Bool.true_and, Bool.eq_iff_iff]
        simp only [beq_iff_eq, Nat.add_left_cancel_iff]
    | inr h16 =>
      have hne : ¬ (addr.length = 4) := by omega
      have ha16 : as16 addr = addr := by simp [as16, h16]
      simp only [hne, if_false, ha16]
      by_cases hm : (to4 addr).isSome = true ∧ n ≥ 96
      · rw [if_pos hm]
        have hp : addr.take 12 = v4InV6Prefix := by
          have := hm.1
          unfold to4 at this
          simp [h16] at this
          exact this
        have haddr : addr = v4InV6Prefix ++ addr.drop 12 := by rw [← hp, List.take_append_drop]
        have hd4 : (addr.drop 12).length = 4 := by simp [h16]
        simp only [h16, hm.1, hm.2, decide_true, Bool.and_self, Bool.or_true] at hs'
        cases hc : to4 c with
        | none => rw [hc] at hs'; simp at hs'
        | some c4 =>
          obtain ⟨hc16, hcl⟩ := as16_of_to4 c c4 hc
          have hc4 := to4_some_len c c4 hc
          have hl : (c.length == 4 || c.length == 16) = true := by
            cases hcl with
            | inl h => simp [h]
            | inr h => simp [h]
          have e96 : n = (n - 96) + 96 := by omega
          rw [hl, hc16]
          conv => rhs; rw [haddr, e96]
          rw [netNum_split _ _ (n - 96) hd4 (by omega), netNum_split _ c4 (n - 96) hc4 (by omega)]
          rw [Bool.true_and, Bool.eq_iff_iff]
          simp only [beq_iff_eq, Nat.add_left_cancel_iff]
      · rw [if_neg hm]
        have hv : ((to4 addr).isSome && decide (n ≥ 96)) = false := by
          simp only [Bool.and_eq_false_iff, decide_eq_false_iff_not]
          by_cases h1 : (to4 addr).isSome = true
          · right; intro h2; exact hm ⟨h1, h2⟩
          · left; simpa using h1
        have hne4 : (addr.length == 4) = false := by simp [h16]
        simp only [hne4, hv, Bool.or_false] at hs'
        have hcn : to4 c = none := by
          cases hc : to4 c with
          | none => rfl
          | some x => rw [hc] at hs'; simp at hs'
        have hc4 : c.length ≠ 4 := to4_none_len c hcn
        have hc4' : (c.length == 4) = false := by simp [hc4]
        simp only [hcn, Option.isNone_none, Bool.true_and, hc4', Bool.false_or]
        by_cases hc16 : c.length = 16
        · have : as16 c = c := by simp [as16, hc4]
          simp [hc16, this]
        · have h' : (c.length == 16) = false := beq_false_of_ne hc16
          simp [h']

/-- An entry never admits a client outside its literal meaning. -/
theorem familyMatch_imp_uniformMatch (e : Entry) (c : Bytes) (h : e.WF)
    (hf : familyMatch e c = true) : uniformMatch e c = true := by
  by_cases hs : sameFamily e c
  · rw [← familyMatch_eq_uniformMatch e c h hs]; exact hf
  · exfalso
    obtain ⟨addr, pfx⟩ := e
    cases pfx with
    | none => exact hs (Or.inl rfl)
    | some n =>
      apply hs
      right
      simp only [familyMatch] at hf
      simp only [v4Block]
      split at hf
      · rename_i h4
        cases hc : to4 c with
        | none => rw [hc] at hf; simp at hf
        | some c4 => simp [h4]
      · split at hf
        · rename_i h4 hm
          cases hc : to4 c with
          | none => rw [hc] at hf; simp at hf
          | some c4 => simp [hm.1, hm.2]
        · rename_i h4 hm
          simp only [Bool.and_eq_true, Option.isNone_iff_eq_none] at hf
          have hcn := hf.1.1
          have h4' : (addr.length == 4) = false := by simp [h4]
          have hv : ((to4 addr).isSome && decide (n ≥ 96)) = false := by
            simp only [Bool.and_eq_false_iff, decide_eq_false_iff_not]
            by_cases h1 : (to4 addr).isSome = true
            · right; intro h2; exact hm ⟨h1, h2⟩
            · left; simpa using h1
          simp [h4', hv, hcn]

/-! ### the repaired `Match`: one address space -/

/-- `containsMapped` on the `IPInfo` of a well-formed block: only a block
    written in IPv6 form is looked at, only for an IPv4 / IPv4-mapped client,
    and then the 128-bit network numbers are compared. -/
theorem containsMapped_block (addr : Bytes) (n : Nat) (c : Bytes)
    (hlen : addr.length = 4 ∨ addr.length = 16) (hn : n ≤ 8 * addr.length) :
    (toInfo { addr := addr, pfx := some n }).containsMapped c =
      .ok (match to4 c with
           | none => false
           | some c4 => addr.length == 16 && netNum 128 n addr == netNum 128 n (v4InV6Prefix ++ c4)) := by
  unfold IPInfo.containsMapped
  cases hc : to4 c with
  | none => rfl
  | some c4 =>
    have hc4 := to4_some_len c c4 hc
    cases hlen with
    | inl h4 =>
      have hm : (cidrMaskLoop n 4).length = 4 := cidrMaskLoop_length n 4
      have hX : (andBytes addr (cidrMaskLoop n 4)).length = 4 := by rw [andBytes_length _ _ (by omega)]; exact h4
      simp [toInfo, as16, h4, ipMask_v4 addr _ h4 hm, hX]
    | inr h16 =>
      have hm : (cidrMaskLoop n 16).length = 16 := cidrMaskLoop_length n 16
      have hX : (andBytes addr (cidrMaskLoop n 16)).length = 16 := by
        rw [andBytes_length _ _ (by omega)]; exact h16
      have has16 : as16 addr = addr := by simp [as16, h16]
      have hp : (v4InV6Prefix ++ c4).length = 16 := by simp [v4InV6Prefix, hc4]
      simp only [toInfo, has16, h16, ipMask_v6 addr _ h16 hm, Option.getD_some, hX, hm, ne_eq,
        not_true_eq_false, or_self, if_false, beq_self_eq_true, Bool.true_and]
      rw [containsLoop_eq _ _ _ (by omega) (by omega), andBytes_idem,
        beq_masked 16 n addr _ h16 hp (by omega)]
      rfl

theorem v4Block_take12 (addr : Bytes) (n : Nat) (h16 : addr.length = 16)
    (hv : v4Block { addr := addr, pfx := some n } = true) : addr.take 12 = v4InV6Prefix ∧ n ≥ 96 := by
  simp only [v4Block, h16, Nat.reduceEqDiff, Bool.false_or, Bool.and_eq_true, decide_eq_true_eq,
    show ((16 : Nat) == 4) = false from rfl] at hv
  refine ⟨?_, hv.2⟩
  have := hv.1
  unfold to4 at this
  simp [h16] at this
  exact this

/-- An IPv6 client (16 bytes, not IPv4-mapped) lies in no IPv4 block, by the
    literal reading itself. -/
theorem uniformMatch_v4Block_v6client (e : Entry) (n : Nat) (c : Bytes) (h : e.WF) (hp : e.pfx = some n)
    (hv : v4Block e = true) (hc : to4 c = none) : uniformMatch e c = false := by
  obtain ⟨addr, pfx⟩ := e
  simp only at hp
  subst hp
  obtain ⟨hlen, hpfx⟩ := h
  simp only at hlen hpfx
  have hn := hpfx n rfl
  have hc4 : c.length ≠ 4 := to4_none_len c hc
  by_cases hc16 : c.length = 16
  · have hcp : c.take 12 ≠ v4InV6Prefix := by
      intro hh
      unfold to4 at hc
      simp [hc16, hh] at hc
    have hasc : as16 c = c := by simp [as16, hc4]
    simp only [uniformMatch, hasc, Bool.and_eq_false_iff]
    right
    apply beq_false_of_ne
    intro heq
    cases hlen with
    | inl h4 =>
      have ha16 : as16 addr = v4InV6Prefix ++ addr := by simp [as16, h4]
      simp only [h4, if_true, ha16] at heq
      have := netNum_ge96_prefix (v4InV6Prefix ++ addr) c (n + 96) (by simp [v4InV6Prefix, h4]) hc16
        (by omega) (by omega) heq
      apply hcp
      rw [← this]
      simp [v4InV6Prefix]
    | inr h16 =>
      obtain ⟨hap, h96⟩ := v4Block_take12 addr n h16 hv
      have ha16 : as16 addr = addr := by simp [as16, h16]
      have hne : ¬ (addr.length = 4) := by omega
      simp only [hne, if_false, ha16] at heq
      have := netNum_ge96_prefix addr c n h16 hc16 h96 (by omega) heq
      exact hcp (by rw [← this]; exact hap)
  · have h1 : (c.length == 4) = false := beq_false_of_ne hc4
    have h2 : (c.length == 16) = false := beq_false_of_ne hc16
    simp [uniformMatch, h1, h2]

theorem familyMatch_v4Block_v6client (e : Entry) (n : Nat) (c : Bytes) (hp : e.pfx = some n)
    (hv : v4Block e = true) (hc : to4 c = none) : familyMatch e c = false := by
  obtain ⟨addr, pfx⟩ := e
  simp only at hp
  subst hp
  simp only [familyMatch, hc]
  split
  · rfl
  · rename_i h4
    split
    · rfl
    · rename_i hm
      exfalso
      apply hm
      simp only [v4Block, Bool.or_eq_true, beq_iff_eq, Bool.and_eq_true, decide_eq_true_eq] at hv
      cases hv with
      | inl h => exact absurd h h4
      | inr h => exact h

/-- **The repaired `IPInfo.Match` decides the literal reading** (`uniformMatch`:
    one 128-bit address space, `a.b.c.d` = `::ffff:a.b.c.d`) for every
    well-formed entry and every client byte string, without panic. -/
theorem match_eq_uniformMatch (e : Entry) (c : Bytes) (h : e.WF) :
    (toInfo e).match c = .ok (uniformMatch e c) := by
  have hp := matchPinned_eq_familyMatch e c h
  obtain ⟨addr, pfx⟩ := e
  cases pfx with
  | none =>
    have : (toInfo { addr := addr, pfx := none }).match c = (toInfo { addr := addr, pfx := none }).matchPinned c := by
      simp [IPInfo.match, IPInfo.matchPinned, toInfo]
    rw [this, hp, familyMatch_eq_uniformMatch _ c h (Or.inl rfl)]
  | some n =>
    have hn := h.2 n rfl
    have hlen := h.1
    simp only at hn hlen
    have hc : contains (toInfo { addr := addr, pfx := some n }).ipNet c
        = .ok (familyMatch { addr := addr, pfx := some n } c) := by
      rw [← hp]; simp [IPInfo.matchPinned, toInfo]
    have hm : (toInfo { addr := addr, pfx := some n }).match c
        = match contains (toInfo { addr := addr, pfx := some n }).ipNet c with
          | .ok true => .ok true
          | .ok false => (toInfo { addr := addr, pfx := some n }).containsMapped c
          | .fail => .fail
          | .panic => .panic := by
      unfold IPInfo.match
      rw [if_pos (show (toInfo { addr := addr, pfx := some n }).isIPNet = true from rfl)]
      rfl
    rw [hm, hc, containsMapped_block addr n c hlen hn]
    cases h4 : to4 c with
    | none =>
      have : familyMatch { addr := addr, pfx := some n } c = uniformMatch { addr := addr, pfx := some n } c := by
        by_cases hv : v4Block { addr := addr, pfx := some n } = true
        · rw [familyMatch_v4Block_v6client _ n c rfl hv h4, uniformMatch_v4Block_v6client _ n c h rfl hv h4]
        · exact familyMatch_eq_uniformMatch _ c h (Or.inr (by simp [h4]; simpa using hv))
      rw [← this]
      cases familyMatch { addr := addr, pfx := some n } c <;> rfl
    | some c4 =>
      obtain ⟨hc16, hcl⟩ := as16_of_to4 c c4 h4
      cases hlen with
      | inl hl4 =>
        have hv : v4Block { addr := addr, pfx := some n } = (to4 c).isSome := by simp [v4Block, hl4, h4]
        rw [← familyMatch_eq_uniformMatch _ c h (Or.inr hv)]
        have : (addr.length == 16) = false := by simp [hl4]
        simp only [this, Bool.false_and]
        cases familyMatch { addr := addr, pfx := some n } c <;> rfl
      | inr hl16 =>
        have hl : (c.length == 4 || c.length == 16) = true := by
          cases hcl with
          | inl h => simp [h]
          | inr h => simp [h]
        have ha16 : as16 addr = addr := by simp [as16, hl16]
        have hne : ¬ (addr.length = 4) := by omega
        have hu : uniformMatch { addr := addr, pfx := some n } c
            = (netNum 128 n addr == netNum 128 n (v4InV6Prefix ++ c4)) := by
          simp only [uniformMatch, hl, Bool.true_and, hne, if_false, ha16, hc16]
        have himp := familyMatch_imp_uniformMatch { addr := addr, pfx := some n } c h
        rw [hu] at himp ⊢
        simp only [hl16, beq_self_eq_true, Bool.true_and]
        cases hf : familyMatch { addr := addr, pfx := some n } c with
        | false => rfl
        | true => simp only; rw [himp hf]

/-! ### the decision of the proxy -/

theorem matchAny_eq (c : Bytes) : ∀ (es : List Entry), (∀ e ∈ es, e.WF) →
    matchAny (es.map toInfo) c = .ok (es.any (fun e => uniformMatch e c)) := by
  intro es
  induction es with
  | nil => intro _; simp [matchAny]
  | cons e es ih =>
    intro h
    have he := h e (by simp)
    have hes := ih (fun x hx => h x (by simp [hx]))
    simp only [List.map_cons, matchAny, match_eq_uniformMatch e c he, List.any_cons]
    cases hf : uniformMatch e c with
    | true => simp
    | false => simp [hes]

/-- **C35, the decision taken by the proxy.**  For every address syntax, every
    list of entry texts and every client byte string (nil and odd lengths
    included): the namespace is unloadable iff some entry is meaningless;
    otherwise the client is admitted iff no entry is listed or one listed entry
    holds it in the literal reading (`uniformMatch`: one 128-bit address space,
    `a.b.c.d` = `::ffff:a.b.c.d`).  The check never panics. -/
theorem allow_iff (pa : Bytes → Option Addr) (hpa : PAwf pa) (l : List Bytes) (c : Bytes) :
    (parseAllowIps pa l >>= fun infos => isClientIPAllowed infos c)
      = match listed pa l with
        | none => .fail
        | some es => .ok (es.isEmpty || es.any (fun e => uniformMatch e c)) := by
  rw [parseAllowIps_eq pa hpa l]
  cases hl : listed pa l with
  | none => rfl
  | some es =>
    simp only [R.bind_ok, isClientIPAllowed]
    cases es with
    | nil => simp
    | cons e es' =>
      have hw := listed_wf pa hpa l _ hl
      rw [if_neg (by simp), matchAny_eq c _ hw]
      simp

/-- Prop form of `allow_iff` for a loadable list. -/
theorem allowed_iff (pa : Bytes → Option Addr) (hpa : PAwf pa) (l : List Bytes) (es : List Entry) (c : Bytes)
    (hl : listed pa l = some es) :
    (parseAllowIps pa l >>= fun infos => isClientIPAllowed infos c) = .ok true
      ↔ (es = [] ∨ ∃ e ∈ es, uniformMatch e c = true) := by
  rw [allow_iff pa hpa l c, hl]
  simp only [R.ok.injEq, Bool.or_eq_true, List.isEmpty_iff, List.any_eq_true]

/-! ### IPv4 and IPv4-mapped presentations of a client -/

theorem to4_mapped (a : Bytes) (h : a.length = 4) : to4 (v4InV6Prefix ++ a) = some a := by
  simp [to4, h, v4InV6Prefix]

theorem ipEqual_mapped (ip a : Bytes) (h : a.length = 4) :
    ipEqual ip (v4InV6Prefix ++ a) = ipEqual ip a := by
  have h16 : (v4InV6Prefix ++ a).length = 16 := by simp [v4InV6Prefix, h]
  unfold ipEqual
  rw [h16, h]
  by_cases h1 : ip.length = 16
  · have := split12 ip a h1 h
    simp only [h1, if_true, Nat.reduceEqDiff, if_false, false_and, and_self, this]
  · by_cases h2 : ip.length = 4
    · simp [h2, v4InV6Prefix, h]
    · simp [h1, h2]

/-- **IPv4 = IPv4-mapped.**  Whatever the allow-list holds (even `IPInfo`s that
    no parser would produce), an IPv4 client is treated identically whether
    presented as 4 bytes or as the 16-byte IPv4-mapped address. -/
theorem mapped_equiv (infos : List IPInfo) (a : Bytes) (h : a.length = 4) :
    isClientIPAllowed infos (v4InV6Prefix ++ a) = isClientIPAllowed infos a := by
  unfold isClientIPAllowed
  split
  · rfl
  · have hm : ∀ i : IPInfo, i.match (v4InV6Prefix ++ a) = i.match a := by
      intro i
      unfold IPInfo.match IPInfo.containsMapped contains
      rw [to4_mapped a h, to4_len4 a h, ipEqual_mapped _ _ h]
      rfl
    rename_i hne
    clear hne
    induction infos with
    | nil => rfl
    | cons i is ih => simp only [matchAny, hm, ih]

/-- **Only allow-listed client addresses can connect** (literal reading, full
    strength): if the proxy admits a client then the list is loadable and
    either holds no entry or holds an entry whose address equals the client's
    or whose block contains it, IPv4 and IPv4-mapped addresses being one. -/
theorem only_listed_clients_connect (pa : Bytes → Option Addr) (hpa : PAwf pa) (l : List Bytes) (c : Bytes)
    (h : (parseAllowIps pa l >>= fun infos => isClientIPAllowed infos c) = .ok true) :
    ∃ es, listed pa l = some es ∧ (es = [] ∨ ∃ e ∈ es, uniformMatch e c = true) := by
  cases hl : listed pa l with
  | none => rw [allow_iff pa hpa l c, hl] at h; simp at h
  | some es => exact ⟨es, rfl, (allowed_iff pa hpa l es c hl).mp h⟩

/-- **A client whose address is in a listed block connects** (the converse, full
    strength since the fix: commit that compares an IPv4 client with a block
    written in IPv6 form in the 16-byte form): for a loadable list, a client
    that equals a listed address or lies in a listed block — in the literal
    reading, whatever the families of entry and client — is admitted. -/
theorem listed_clients_connect (pa : Bytes → Option Addr) (hpa : PAwf pa) (l : List Bytes)
    (es : List Entry) (c : Bytes) (hl : listed pa l = some es)
    (h : es = [] ∨ ∃ e ∈ es, uniformMatch e c = true) :
    (parseAllowIps pa l >>= fun infos => isClientIPAllowed infos c) = .ok true :=
  (allowed_iff pa hpa l es c hl).mpr h

/-- The statement proved before the fix (entry and client of one family), now a
    corollary of `listed_clients_connect`. -/
theorem listed_clients_connect_same_family (pa : Bytes → Option Addr) (hpa : PAwf pa) (l : List Bytes)
    (es : List Entry) (c : Bytes) (hl : listed pa l = some es)
    (h : es = [] ∨ ∃ e ∈ es, uniformMatch e c = true ∧ sameFamily e c) :
    (parseAllowIps pa l >>= fun infos => isClientIPAllowed infos c) = .ok true := by
  apply listed_clients_connect pa hpa l es c hl
  cases h with
  | inl h0 => exact Or.inl h0
  | inr h1 =>
    obtain ⟨e, he, hu, _⟩ := h1
    exact Or.inr ⟨e, he, hu⟩

/-- **An IPv6 client never matches an IPv4 block** (the repair cannot
    over-allow): a 16-byte client outside `::ffff:0:0/96` is admitted only by
    an entry written in IPv6 form that is not an IPv4-mapped block of 96 bits
    or more (or by an empty list). -/
theorem v6_client_not_in_v4_block (pa : Bytes → Option Addr) (hpa : PAwf pa) (l : List Bytes)
    (es : List Entry) (c : Bytes) (hl : listed pa l = some es) (hne : es ≠ []) (hc : to4 c = none)
    (hv : ∀ e ∈ es, v4Block e = true) :
    (parseAllowIps pa l >>= fun infos => isClientIPAllowed infos c) = .ok false := by
  rw [allow_iff pa hpa l c, hl]
  have hw := listed_wf pa hpa l es hl
  have : es.any (fun e => uniformMatch e c) = false := by
    rw [List.any_eq_false]
    intro e he
    cases hp : e.pfx with
    | none =>
      -- a single address: IPv4 or IPv4-mapped by `v4Block`, the client is neither
      have hv' := hv e he
      obtain ⟨addr, pfx⟩ := e
      simp only at hp
      subst hp
      have hwf := hw _ he
      have hlen := hwf.1
      simp only at hlen
      simp only [uniformMatch, Bool.and_eq_true, beq_iff_eq, not_and]
      intro hcl heq
      have hc4 : c.length ≠ 4 := to4_none_len c hc
      have hc16 : c.length = 16 := by
        simp only [Bool.or_eq_true, beq_iff_eq] at hcl
        omega
      have hasc : as16 c = c := by simp [as16, hc4]
      rw [hasc] at heq
      have hcp : c.take 12 = v4InV6Prefix := by
        rw [← heq]
        cases hlen with
        | inl h4 => simp [as16, h4, v4InV6Prefix]
        | inr h16 =>
          have hne4 : ¬ addr.length = 4 := by omega
          simp only [v4Block, h16, Bool.and_true, show ((16 : Nat) == 4) = false from rfl, Bool.false_or] at hv'
          simp only [as16, hne4, if_false]
          unfold to4 at hv'
          simp [h16] at hv'
          exact hv'
      unfold to4 at hc
      simp [hc16, hcp] at hc
    | some n =>
      have := uniformMatch_v4Block_v6client e n c (hw e he) hp (hv e he) hc
      simp [this]
  cases es with
  | nil => exact absurd rfl hne
  | cons e es' => simp only [List.isEmpty_cons, Bool.false_or, this]

/-! ### the reference address syntax, witnesses and examples -/

theorem parseIPv4Fields_len (s b : Bytes) (h : parseIPv4Fields s = some b) : b.length = 4 := by
  unfold parseIPv4Fields at h
  split at h
  · simp only [Option.some.injEq] at h; subst h; rfl
  · simp at h

theorem parseIPv6_len (s : Bytes) (a : Addr) (h : parseIPv6 s = some a) : a.bytes.length = 16 := by
  unfold parseIPv6 at h
  simp only at h
  repeat' split at h
  all_goals (first | (simp at h; done) | skip)
  all_goals (simp only [Option.some.injEq] at h; subst h;
             simp only [List.length_append, List.length_take, List.length_replicate, List.length_drop])
  all_goals (first | omega | simp_all)

/-- The reference parser satisfies the assumption made of `netip.ParseAddr`. -/
theorem netipParseAddr_wf : PAwf netipParseAddr := by
  intro s a h
  unfold netipParseAddr at h
  split at h
  · cases hp : parseIPv4Fields s with
    | none => rw [hp] at h; simp at h
    | some b =>
      rw [hp] at h
      simp only [Option.map_some, Option.some.injEq] at h
      subst h
      exact Or.inl (parseIPv4Fields_len s b hp)
  · exact Or.inr (parseIPv6_len s a h)
  · simp at h

/-- `allow_iff` for the syntax that the check compares with `netip.ParseAddr`. -/
theorem allow_iff_netip (l : List Bytes) (c : Bytes) :
    (parseAllowIps netipParseAddr l >>= fun infos => isClientIPAllowed infos c)
      = match listed netipParseAddr l with
        | none => .fail
        | some es => .ok (es.isEmpty || es.any (fun e => uniformMatch e c)) :=
  allow_iff netipParseAddr netipParseAddr_wf l c

/-- The text `::ffff:1.2.3.4/0`. -/
def wBlock : Bytes :=
  [0x3a, 0x3a, 0x66, 0x66, 0x66, 0x66, 0x3a, 0x31, 0x2e, 0x32, 0x2e, 0x33, 0x2e, 0x34, 0x2f, 0x30]

/-- `Namespace.IsClientIPAllowed` with the `Match` of the tree before the fix:
    commit (`Contains` alone), for the pinned witness. -/
def isClientIPAllowedPinned (allowips : List IPInfo) (clientIP : Bytes) : R Bool :=
  if allowips.length = 0 then .ok true
  else .ok (allowips.any fun i => i.matchPinned clientIP == .ok true)

set_option maxRecDepth 100000 in
/-- **Pinned witness of the repaired finding** `ipv4-client-in-short-ipv6-block-rejected`.
    The allow-list `["::ffff:1.2.3.4/0"]` denotes a block that contains every
    address, 1.2.3.4 included (`uniformMatch`).  Before the fix: commit the proxy
    refused the client 1.2.3.4 in either presentation (`Contains` compares
    addresses of one family only); the repaired `Match` admits it. -/
theorem short_ipv6_block_rejects_ipv4_witness :
    listed netipParseAddr [wBlock] = some [{ addr := v4InV6Prefix ++ [1, 2, 3, 4], pfx := some 0 }]
    ∧ uniformMatch { addr := v4InV6Prefix ++ [1, 2, 3, 4], pfx := some 0 } [1, 2, 3, 4] = true
    ∧ (parseAllowIps netipParseAddr [wBlock] >>= fun infos => isClientIPAllowedPinned infos [1, 2, 3, 4]) = .ok false
    ∧ (parseAllowIps netipParseAddr [wBlock] >>= fun infos =>
        isClientIPAllowedPinned infos (v4InV6Prefix ++ [1, 2, 3, 4])) = .ok false
    ∧ (parseAllowIps netipParseAddr [wBlock] >>= fun infos => isClientIPAllowed infos [1, 2, 3, 4]) = .ok true
    ∧ (parseAllowIps netipParseAddr [wBlock] >>= fun infos =>
        isClientIPAllowed infos (v4InV6Prefix ++ [1, 2, 3, 4])) = .ok true := by
  decide

/-- The texts ` 10.1.2.3/8`, `` (blank), `::1`, `::ffff:192.168.0.0/112`. -/
def exList : List Bytes :=
  [[0x20, 0x31, 0x30, 0x2e, 0x31, 0x2e, 0x32, 0x2e, 0x33, 0x2f, 0x38], [],
   [0x3a, 0x3a, 0x31],
   [0x3a, 0x3a, 0x66, 0x66, 0x66, 0x66, 0x3a, 0x31, 0x39, 0x32, 0x2e, 0x31, 0x36, 0x38, 0x2e, 0x30, 0x2e, 0x30,
    0x2f, 0x31, 0x31, 0x32]]

set_option maxRecDepth 100000 in
/-- Non-vacuity: a loadable list with a blank entry, white space, an IPv4 block,
    an IPv6 address and an IPv4-mapped block; clients inside and outside. -/
example :
    listed netipParseAddr exList = some
      [{ addr := [10, 1, 2, 3], pfx := some 8 },
       { addr := [0, 0, 0, 0, 0, 0, 0, 0, 0, 0, 0, 0, 0, 0, 0, 1], pfx := none },
       { addr := v4InV6Prefix ++ [192, 168, 0, 0], pfx := some 112 }]
    ∧ (parseAllowIps netipParseAddr exList >>= fun i => isClientIPAllowed i [10, 255, 0, 1]) = .ok true
    ∧ (parseAllowIps netipParseAddr exList >>= fun i => isClientIPAllowed i [11, 0, 0, 1]) = .ok false
    ∧ (parseAllowIps netipParseAddr exList >>= fun i => isClientIPAllowed i (v4InV6Prefix ++ [192, 168, 9, 9])) = .ok true
    ∧ (parseAllowIps netipParseAddr exList >>= fun i => isClientIPAllowed i [192, 169, 0, 0]) = .ok false
    ∧ (parseAllowIps netipParseAddr exList >>= fun i => isClientIPAllowed i []) = .ok false
    ∧ sameFamily { addr := [10, 1, 2, 3], pfx := some 8 } [10, 255, 0, 1]
    ∧ ({ addr := [10, 1, 2, 3], pfx := some 8 } : Entry).WF := by
  refine ⟨by decide, by decide, by decide, by decide, by decide, by decide, ?_, ?_⟩
  · right; decide
  · exact ⟨Or.inl rfl, by intro n h; simp at h; subst h; decide⟩

/-- Non-vacuity of the prefix lemma: `/20` on 4 bytes. -/
example : andBytes [10, 1, 0x2f, 3] (cidrMaskLoop 20 4) = andBytes [10, 1, 0x20, 0xff] (cidrMaskLoop 20 4)
    ∧ beNat [10, 1, 0x2f, 3] / 2 ^ (8 * 4 - 20) = beNat [10, 1, 0x20, 0xff] / 2 ^ (8 * 4 - 20) := by decide

/-! ### entries: single addresses as blocks, prefix 0, unparsable entries -/

/-- **`A/32` and `A/128` are the single address `A`.** -/
theorem full_prefix_is_single_address (e : Entry) (c : Bytes) (h : e.WF)
    (hp : e.pfx = some (8 * e.addr.length)) :
    uniformMatch e c = uniformMatch { e with pfx := none } c := by
  obtain ⟨addr, pfx⟩ := e
  simp only at hp
  subst hp
  have hlen := h.1
  simp only at hlen
  have ha16 := as16_len addr hlen
  simp only [uniformMatch]
  by_cases hc : c.length = 4 ∨ c.length = 16
  · have hc16 := as16_len c hc
    have hn : (if addr.length = 4 then 8 * addr.length + 96 else 8 * addr.length) = 128 := by
      cases hlen with
      | inl h4 => simp [h4]
      | inr h16 => simp [h16]
    rw [hn]
    congr 1
    rw [Bool.eq_iff_iff]
    simp only [beq_iff_eq, netNum, Nat.sub_self, Nat.pow_zero, Nat.div_one]
    constructor
    · intro hb; exact beNat_inj _ _ (by omega) hb
    · intro hb; rw [hb]
  · have h1 : (c.length == 4) = false := beq_false_of_ne (fun h => hc (Or.inl h))
    have h2 : (c.length == 16) = false := beq_false_of_ne (fun h => hc (Or.inr h))
    simp [h1, h2]

/-- **`::/0` (any block of 0 bits written in IPv6 form) holds every client
    address**, IPv4 ones included (that is the repaired finding). -/
theorem prefix_zero_v6_admits_every_address (addr c : Bytes) (ha : addr.length = 16) :
    uniformMatch { addr := addr, pfx := some 0 } c = (c.length == 4 || c.length == 16) := by
  have hne : ¬ addr.length = 4 := by omega
  simp only [uniformMatch, hne, if_false]
  by_cases hc : c.length = 4 ∨ c.length = 16
  · have hc16 := as16_len c hc
    have ha16 := as16_len addr (Or.inr ha)
    have h1 := beNat_lt (as16 addr)
    have h2 := beNat_lt (as16 c)
    rw [ha16] at h1
    rw [hc16] at h2
    have e : (256 : Nat) ^ 16 = 2 ^ (128 - 0) := by decide
    rw [e] at h1 h2
    simp only [netNum, Nat.div_eq_of_lt h1, Nat.div_eq_of_lt h2, beq_self_eq_true, Bool.and_true]
  · have h1 : (c.length == 4) = false := beq_false_of_ne (fun h => hc (Or.inl h))
    have h2 : (c.length == 16) = false := beq_false_of_ne (fun h => hc (Or.inr h))
    simp [h1, h2]

/-- **`0.0.0.0/0` (any dotted-quad block of 0 bits) holds exactly the IPv4 and
    IPv4-mapped clients**, and no IPv6 client. -/
theorem prefix_zero_v4_admits_exactly_v4 (addr c : Bytes) (ha : addr.length = 4) :
    uniformMatch { addr := addr, pfx := some 0 } c = (to4 c).isSome := by
  have hwf : ({ addr := addr, pfx := some 0 } : Entry).WF := ⟨Or.inl ha, by intro n hn; simp at hn; omega⟩
  cases hc : to4 c with
  | none =>
    exact uniformMatch_v4Block_v6client _ 0 c hwf rfl (by simp [v4Block, ha]) hc
  | some c4 =>
    obtain ⟨hc16, hcl⟩ := as16_of_to4 c c4 hc
    have hc4 := to4_some_len c c4 hc
    have hl : (c.length == 4 || c.length == 16) = true := by
      cases hcl with
      | inl h => simp [h]
      | inr h => simp [h]
    have ha16 : as16 addr = v4InV6Prefix ++ addr := by simp [as16, ha]
    simp only [uniformMatch, hl, Bool.true_and, ha, if_true, ha16, hc16, Option.isSome_some]
    have e : (0 : Nat) + 96 = 0 + 96 := rfl
    rw [netNum_split _ addr 0 ha (by omega), netNum_split _ c4 0 hc4 (by omega)]
    have h1 := netNum32_lt addr 0 ha (by omega)
    have h2 := netNum32_lt c4 0 hc4 (by omega)
    simp only [Nat.pow_zero, Nat.lt_one_iff] at h1 h2
    rw [h1, h2]
    simp

/-- **An entry that does not parse refuses the whole list** (the namespace is
    not created / the reload is rejected): `parseAllowIps` fails exactly when
    some non-blank entry is meaningless. -/
theorem unparsable_entry_refuses_list (pa : Bytes → Option Addr) (hpa : PAwf pa) (l : List Bytes) :
    parseAllowIps pa l = .fail ↔ ∃ t ∈ l, (trimSpace t).length ≠ 0 ∧ denote pa (trimSpace t) = none := by
  rw [parseAllowIps_eq pa hpa l]
  induction l with
  | nil => simp [listed]
  | cons s rest ih =>
    unfold listed
    by_cases hb : (trimSpace s).length = 0
    · simp only [hb, if_true, List.mem_cons, exists_eq_or_imp, ne_eq, not_true_eq_false, false_and, false_or]
      exact ih
    · simp only [hb, if_false, List.mem_cons, exists_eq_or_imp, ne_eq, not_false_eq_true, true_and]
      cases hd : denote pa (trimSpace s) with
      | none => simp
      | some e =>
        cases hl : listed pa rest with
        | none =>
          rw [hl] at ih
          simp only [true_iff] at ih ⊢
          simpa using ih
        | some es =>
          rw [hl] at ih
          simp only [reduceCtorEq, false_iff, not_exists, not_and] at ih ⊢
          simpa using ih

/-- **No entry is silently dropped**: a loaded list has one `IPInfo` per
    non-blank entry text. -/
theorem no_entry_dropped (pa : Bytes → Option Addr) (l : List Bytes) (infos : List IPInfo)
    (h : parseAllowIps pa l = .ok infos) :
    infos.length = (l.filter fun t => (trimSpace t).length ≠ 0).length := by
  induction l generalizing infos with
  | nil => simp [parseAllowIps] at h; subst h; rfl
  | cons s rest ih =>
    unfold parseAllowIps at h
    by_cases hb : (trimSpace s).length = 0
    · simp only [hb, if_true] at h
      have hb' : trimSpace s = [] := List.length_eq_zero_iff.mp hb
      simp [hb', ih infos h]
    · simp only [hb, if_false] at h
      cases hp : parseIPInfo pa (trimSpace s) with
      | none => rw [hp] at h; simp at h
      | some info =>
        rw [hp] at h
        cases hr : parseAllowIps pa rest with
        | ok l' =>
          rw [hr] at h
          simp only [R.ok.injEq] at h
          subst h
          have hb' : ¬ trimSpace s = [] := fun h0 => hb (by rw [h0]; rfl)
          simp [hb', ih l' hr]
        | fail => rw [hr] at h; simp at h
        | panic => rw [hr] at h; simp at h

/-- **A list with a non-blank entry never becomes the open list**: whatever the
    entries are, if the namespace loads then the client is admitted only by a
    matching entry — the "no entry = everyone" branch is not taken. -/
theorem nonblank_list_never_open (pa : Bytes → Option Addr) (l : List Bytes) (infos : List IPInfo) (c : Bytes)
    (h : parseAllowIps pa l = .ok infos) (hne : ∃ t ∈ l, (trimSpace t).length ≠ 0) :
    infos ≠ [] ∧ isClientIPAllowed infos c = matchAny infos c := by
  have hlen := no_entry_dropped pa l infos h
  obtain ⟨t, ht, hb⟩ := hne
  have : 0 < (l.filter fun t => (trimSpace t).length ≠ 0).length :=
    List.length_pos_of_mem (List.mem_filter.mpr ⟨ht, by simpa using hb⟩)
  have hpos : infos.length ≠ 0 := by omega
  refine ⟨by intro h0; subst h0; simp at hpos, ?_⟩
  simp [isClientIPAllowed, hpos]

/-! ### the reference address syntax: decimal octets without leading zeros -/

/-- A field of a dotted quad is read as a decimal number of at most three
    digits, at most 255, *without a leading zero* — `010` is not 8 (octal) and
    not 10: it is no field at all. -/
theorem v4Field_decimal (p : Bytes) (v : UInt8) (h : v4Field p = some v) :
    p ≠ [] ∧ p.all isDigit = true ∧ ¬ (p.length > 1 ∧ p.head? = some 0x30) ∧ p.length ≤ 3
      ∧ decVal p ≤ 255 ∧ v.toNat = decVal p := by
  unfold v4Field at h
  split at h
  · simp at h
  · rename_i h1
    split at h
    · simp at h
    · rename_i h2
      split at h
      · simp at h
      · rename_i h3
        split at h
        · simp at h
        · rename_i h4
          simp only [Option.some.injEq] at h
          subst h
          simp only [Bool.or_eq_true, Bool.not_eq_eq_eq_not, Bool.not_true, not_or, Bool.not_eq_false,
            List.isEmpty_iff] at h1
          simp only [Bool.and_eq_true, decide_eq_true_eq, beq_iff_eq, not_and] at h2
          refine ⟨h1.1, h1.2, fun ⟨a, b⟩ => h2 a b, by simpa using h3, by omega, ?_⟩
          have : decVal p < 256 := by omega
          simp [UInt8.toNat_ofNat, Nat.mod_eq_of_lt this]

theorem v4Field_leading_zero (p : Bytes) (hl : p.length > 1) (h0 : p.head? = some 0x30) : v4Field p = none := by
  cases h : v4Field p with
  | none => rfl
  | some v => exact absurd ⟨hl, h0⟩ (v4Field_decimal p v h).2.2.1

/-- **An octet with a leading zero makes the dotted quad unparsable**
    (`010.0.0.1`, `192.168.001.1`): it is neither read as octal nor as decimal. -/
theorem leading_zero_octet_rejected (s p : Bytes) (hp : p ∈ splitOn 0x2e s) (hl : p.length > 1)
    (h0 : p.head? = some 0x30) : parseIPv4Fields s = none := by
  unfold parseIPv4Fields
  have hn : none ∈ (splitOn 0x2e s).map v4Field :=
    List.mem_map.mpr ⟨p, hp, v4Field_leading_zero p hl h0⟩
  split
  · rename_i a b c d heq
    rw [heq] at hn
    simp at hn
  · rfl

/-- The dotted quads the reference syntax accepts are exactly four decimal
    fields as above, and the address bytes are their values. -/
theorem parseIPv4Fields_decimal (s b : Bytes) (h : parseIPv4Fields s = some b) :
    ∃ p1 p2 p3 p4, splitOn 0x2e s = [p1, p2, p3, p4]
      ∧ b.map UInt8.toNat = [decVal p1, decVal p2, decVal p3, decVal p4]
      ∧ ∀ p ∈ [p1, p2, p3, p4], p ≠ [] ∧ p.all isDigit = true ∧ ¬ (p.length > 1 ∧ p.head? = some 0x30) := by
  unfold parseIPv4Fields at h
  split at h
  · rename_i a b' c d heq
    simp only [Option.some.injEq] at h
    subst h
    generalize splitOn 0x2e s = l at heq
    obtain _ | ⟨p1, _ | ⟨p2, _ | ⟨p3, _ | ⟨p4, _ | ⟨p5, l⟩⟩⟩⟩⟩ := l
    all_goals (first | (simp at heq; done) | skip)
    · simp only [List.map_cons, List.map_nil, List.cons.injEq, and_true] at heq
      obtain ⟨e1, e2, e3, e4⟩ := heq
      have d1 := v4Field_decimal p1 a e1
      have d2 := v4Field_decimal p2 b' e2
      have d3 := v4Field_decimal p3 c e3
      have d4 := v4Field_decimal p4 d e4
      refine ⟨p1, p2, p3, p4, rfl, ?_, ?_⟩
      · simp [d1.2.2.2.2.2, d2.2.2.2.2.2, d3.2.2.2.2.2, d4.2.2.2.2.2]
      · intro p hp
        simp only [List.mem_cons, List.not_mem_nil, or_false] at hp
        rcases hp with rfl | rfl | rfl | rfl
        · exact ⟨d1.1, d1.2.1, d1.2.2.1⟩
        · exact ⟨d2.1, d2.2.1, d2.2.2.1⟩
        · exact ⟨d3.1, d3.2.1, d3.2.2.1⟩
        · exact ⟨d4.1, d4.2.1, d4.2.2.1⟩
  · simp at h

/-- `010.0.0.1`, `192.168.001.1`, `::ffff:010.1.1.1`, `010.0.0.1/8` -/
def exOctal1 : Bytes := [0x30, 0x31, 0x30, 0x2e, 0x30, 0x2e, 0x30, 0x2e, 0x31]
def exOctal2 : Bytes := [0x31, 0x39, 0x32, 0x2e, 0x31, 0x36, 0x38, 0x2e, 0x30, 0x30, 0x31, 0x2e, 0x31]
def exOctal3 : Bytes := [0x3a, 0x3a, 0x66, 0x66, 0x66, 0x66, 0x3a, 0x30, 0x31, 0x30, 0x2e, 0x31, 0x2e, 0x31, 0x2e, 0x31]
def exOctal4 : Bytes := [0x30, 0x31, 0x30, 0x2e, 0x30, 0x2e, 0x30, 0x2e, 0x31, 0x2f, 0x38]
/-- `10.0.0.1` -/
def exTen : Bytes := [0x31, 0x30, 0x2e, 0x30, 0x2e, 0x30, 0x2e, 0x31]

set_option maxRecDepth 100000 in
/-- A list holding an entry with a leading-zero octet is refused as a whole —
    also next to valid entries, also in the IPv4-mapped and the block form —
    so neither 8.0.0.1 nor 10.0.0.1 is admitted on its account. -/
example :
    listed netipParseAddr [exOctal1] = none ∧ listed netipParseAddr [exTen, exOctal2] = none
    ∧ listed netipParseAddr [exOctal3] = none ∧ listed netipParseAddr [exOctal4] = none
    ∧ parseAllowIps netipParseAddr [exTen, exOctal1] = .fail
    ∧ (listed netipParseAddr [exTen]).isSome = true := by decide

/-! ### the remote address text: `host:port`, `[v6%zone]:port`, unix sockets -/

theorem indexOf_not_mem (c : UInt8) : ∀ (a : Bytes), c ∉ a → indexOf c a = none := by
  intro a
  induction a with
  | nil => intro _; rfl
  | cons x xs ih =>
    intro h
    simp only [List.mem_cons, not_or] at h
    have hx : ¬ x = c := fun e => h.1 e.symm
    simp [indexOf, hx, ih h.2]

theorem indexOf_append (c : UInt8) : ∀ (a b : Bytes), c ∉ a →
    indexOf c (a ++ c :: b) = some a.length := by
  intro a
  induction a with
  | nil => intro b _; simp [indexOf]
  | cons x xs ih =>
    intro b h
    simp only [List.mem_cons, not_or] at h
    have hx : ¬ x = c := fun e => h.1 e.symm
    simp [indexOf, hx, ih b h.2]

theorem lastIndexOf_append (c : UInt8) (a b : Bytes) (h : c ∉ b) :
    lastIndexOf c (a ++ c :: b) = some a.length := by
  unfold lastIndexOf
  have e : (a ++ c :: b).reverse = b.reverse ++ c :: a.reverse := by simp
  rw [e, indexOf_append c b.reverse a.reverse (by simpa using h)]
  simp only [Option.map_some, List.length_reverse, List.length_append, List.length_cons, Option.some.injEq]
  omega

theorem contains_false_of_not_mem (c : UInt8) (a : Bytes) (h : c ∉ a) : a.contains c = false := by
  simpa using h

/-- **The proxy recovers exactly the host the connection wrote.**  The text of
    a TCP remote address is `JoinHostPort(host, port)` (`host` = the IP's text,
    `%zone` appended); for every host without brackets and every port without
    colon or brackets `net.SplitHostPort` as modelled gives that host back. -/
theorem splitHost_joinHostPort (host port : Bytes) (hh1 : 0x5b ∉ host) (hh2 : 0x5d ∉ host)
    (hp1 : 0x3a ∉ port) (hp2 : 0x5b ∉ port) (hp3 : 0x5d ∉ port) :
    splitHost (joinHostPort host port) = some host := by
  unfold joinHostPort
  by_cases hc : host.contains 0x3a = true
  · -- "[" host "]:" port
    rw [if_pos hc]
    have e1 : [0x5b] ++ host ++ [0x5d, 0x3a] ++ port = ((0x5b : UInt8) :: host ++ [0x5d]) ++ 0x3a :: port := by simp
    have e2 : [0x5b] ++ host ++ [0x5d, 0x3a] ++ port = ((0x5b : UInt8) :: host) ++ 0x5d :: (0x3a :: port) := by simp
    unfold splitHost
    rw [e1, lastIndexOf_append 0x3a _ port hp1, ← e1]
    have hhead : ([0x5b] ++ host ++ [0x5d, 0x3a] ++ port).head? = some 0x5b := by simp
    simp only [hhead, if_true]
    have hnm : (0x5d : UInt8) ∉ (0x5b : UInt8) :: host := by
      simp only [List.mem_cons, not_or]; exact ⟨by decide, hh2⟩
    rw [e2, indexOf_append 0x5d _ (0x3a :: port) hnm, ← e2]
    have hlen : ¬ (((0x5b : UInt8) :: host).length + 1 = ([0x5b] ++ host ++ [0x5d, 0x3a] ++ port).length) := by
      simp
    have hi : ((0x5b : UInt8) :: host).length + 1 = ((0x5b : UInt8) :: host ++ [0x5d]).length := by simp
    simp only [hlen, if_false, hi, if_true]
    have d1 : ([0x5b] ++ host ++ [0x5d, 0x3a] ++ port).drop 1 = host ++ 0x5d :: 0x3a :: port := by simp
    have c1 : (host ++ (0x5d : UInt8) :: 0x3a :: port).contains 0x5b = false := by
      apply contains_false_of_not_mem
      simp only [List.mem_append, List.mem_cons, not_or]
      exact ⟨hh1, by decide, by decide, hp2⟩
    have d2 : ([0x5b] ++ host ++ [0x5d, 0x3a] ++ port).drop (((0x5b : UInt8) :: host ++ [0x5d]).length)
        = 0x3a :: port := by
      rw [e1]; simp
    have c2 : ((0x3a : UInt8) :: port).contains 0x5d = false := by
      apply contains_false_of_not_mem
      simp only [List.mem_cons, not_or]
      exact ⟨by decide, hp3⟩
    rw [d1, c1, d2, c2]
    have t1 : ([0x5b] ++ host ++ [0x5d, 0x3a] ++ port).take ((0x5b : UInt8) :: host).length = 0x5b :: host := by
      rw [e2]; simp
    simp [t1]
  · -- host ":" port
    rw [if_neg hc]
    have hc' : (0x3a : UInt8) ∉ host := by simpa using hc
    have e1 : host ++ [0x3a] ++ port = host ++ 0x3a :: port := by simp
    unfold splitHost
    rw [e1, lastIndexOf_append 0x3a host port hp1]
    have hhead : (host ++ (0x3a : UInt8) :: port).head? ≠ some 0x5b := by
      cases host with
      | nil => simp
      | cons x xs =>
        simp only [List.mem_cons, not_or] at hh1
        simp only [List.cons_append, List.head?_cons, ne_eq, Option.some.injEq]
        exact fun e => hh1.1 e.symm
    simp only [hhead, if_false]
    have t : (host ++ (0x3a : UInt8) :: port).take host.length = host := by simp
    have c1 : (host ++ (0x3a : UInt8) :: port).contains 0x5b = false := by
      apply contains_false_of_not_mem
      simp only [List.mem_append, List.mem_cons, not_or]
      exact ⟨hh1, by decide, hp2⟩
    have c2 : (host ++ (0x3a : UInt8) :: port).contains 0x5d = false := by
      apply contains_false_of_not_mem
      simp only [List.mem_append, List.mem_cons, not_or]
      exact ⟨hh2, by decide, hp3⟩
    have hc0 : host.contains 0x3a = false := by simpa using hc
    simp only [t, hc0, c1, c2, Bool.false_eq_true, if_false, Bool.or_self]

/-- The client address `Session.IsAllowConnect` derives from the text of
    `RemoteAddr()`: host of `SplitHostPort` (empty on error), zone dropped,
    `net.ParseIP` (nil on failure). -/
def clientOf (pa : Bytes → Option Addr) (remote : Bytes) : Bytes :=
  let host := (splitHost remote).getD []
  let host := match indexOf 0x25 host with
    | some i => host.take i
    | none => host
  (parseIP pa host).getD []

theorem isAllowConnect_eq (pa : Bytes → Option Addr) (infos : List IPInfo) (remote : Bytes) :
    isAllowConnect pa infos remote = isClientIPAllowed infos (clientOf pa remote) := rfl

/-- The host text with its zone cut off. -/
def stripZone (host : Bytes) : Bytes :=
  match indexOf 0x25 host with
  | some i => host.take i
  | none => host

/-- **TCP clients** (`host:port`, `[v6]:port`, `[v6%zone]:port`): the client
    address is the parsed host, whatever the port and the zone. -/
theorem clientOf_tcp (pa : Bytes → Option Addr) (host port : Bytes) (hh1 : 0x5b ∉ host) (hh2 : 0x5d ∉ host)
    (hp1 : 0x3a ∉ port) (hp2 : 0x5b ∉ port) (hp3 : 0x5d ∉ port) :
    clientOf pa (joinHostPort host port) = (parseIP pa (stripZone host)).getD [] := by
  simp only [clientOf, splitHost_joinHostPort host port hh1 hh2 hp1 hp2 hp3, Option.getD_some, stripZone]

/-- The port does not matter. -/
theorem conn_port_irrelevant (pa : Bytes → Option Addr) (infos : List IPInfo) (host p q : Bytes)
    (hh1 : 0x5b ∉ host) (hh2 : 0x5d ∉ host)
    (hp : 0x3a ∉ p ∧ 0x5b ∉ p ∧ 0x5d ∉ p) (hq : 0x3a ∉ q ∧ 0x5b ∉ q ∧ 0x5d ∉ q) :
    isAllowConnect pa infos (joinHostPort host p) = isAllowConnect pa infos (joinHostPort host q) := by
  rw [isAllowConnect_eq, isAllowConnect_eq, clientOf_tcp pa host p hh1 hh2 hp.1 hp.2.1 hp.2.2,
    clientOf_tcp pa host q hh1 hh2 hq.1 hq.2.1 hq.2.2]

/-- **Clients without an address** (unix sockets: `@`, a path, the empty text —
    anything `SplitHostPort` refuses, or whose host is no address): the client
    is the nil IP. -/
theorem clientOf_no_hostport (pa : Bytes → Option Addr) (hpa0 : pa [] = none) (remote : Bytes)
    (h : splitHost remote = none) : clientOf pa remote = [] := by
  simp [clientOf, h, indexOf, parseIP, hpa0]

/-- The nil IP matches no listed entry: such a client connects only to a
    namespace whose list is empty ("open"). -/
theorem nil_client_only_open_list (pa : Bytes → Option Addr) (hpa : PAwf pa) (l : List Bytes)
    (es : List Entry) (hl : listed pa l = some es) :
    (parseAllowIps pa l >>= fun infos => isClientIPAllowed infos []) = .ok es.isEmpty := by
  rw [allow_iff pa hpa l [], hl]
  have : es.any (fun e => uniformMatch e []) = false := by
    rw [List.any_eq_false]; intro e _; simp [uniformMatch]
  simp [this]

/-- **A unix-socket client is refused by every non-empty allow-list** (and, as
    every client, admitted by the empty one). -/
theorem no_address_client_refused (pa : Bytes → Option Addr) (hpa : PAwf pa) (hpa0 : pa [] = none)
    (l : List Bytes) (es : List Entry) (hl : listed pa l = some es) (remote : Bytes)
    (h : splitHost remote = none) :
    (parseAllowIps pa l >>= fun infos => isAllowConnect pa infos remote) = .ok es.isEmpty := by
  have : (fun infos => isAllowConnect pa infos remote) = fun infos => isClientIPAllowed infos [] := by
    funext infos; rw [isAllowConnect_eq, clientOf_no_hostport pa hpa0 remote h]
  rw [this]
  exact nil_client_only_open_list pa hpa l es hl

/-- The texts `@` (what an accepted unix-socket connection reports), the empty
    text, `/tmp/mysql.sock`: no host, no port. -/
example : splitHost [0x40] = none ∧ splitHost [] = none
    ∧ splitHost [0x2f, 0x74, 0x6d, 0x70, 0x2f, 0x6d, 0x79, 0x73, 0x71, 0x6c, 0x2e, 0x73, 0x6f, 0x63, 0x6b] = none ∧ netipParseAddr [] = none := by decide

/-- `127.0.0.1:44006` -/
def exRemote4 : Bytes := [0x31, 0x32, 0x37, 0x2e, 0x30, 0x2e, 0x30, 0x2e, 0x31, 0x3a, 0x34, 0x34, 0x30, 0x30, 0x36]
/-- `[::1]:54968` -/
def exRemote6 : Bytes := [0x5b, 0x3a, 0x3a, 0x31, 0x5d, 0x3a, 0x35, 0x34, 0x39, 0x36, 0x38]
/-- `[fe80::1%eth0]:3306` -/
def exRemoteZone : Bytes := [0x5b, 0x66, 0x65, 0x38, 0x30, 0x3a, 0x3a, 0x31, 0x25, 0x65, 0x74, 0x68, 0x30, 0x5d, 0x3a, 0x33, 0x33, 0x30, 0x36]
/-- `fe80::1%eth0` and `3306` -/
def exHostZone : Bytes := [0x66, 0x65, 0x38, 0x30, 0x3a, 0x3a, 0x31, 0x25, 0x65, 0x74, 0x68, 0x30]
def exPort : Bytes := [0x33, 0x33, 0x30, 0x36]

set_option maxRecDepth 100000 in
/-- Remote address texts as the kernel reports them (tcp4, tcp6, a scoped
    link-local peer) and the client addresses the proxy derives. -/
example :
    clientOf netipParseAddr exRemote4 = v4InV6Prefix ++ [127, 0, 0, 1]
    ∧ clientOf netipParseAddr exRemote6 = [0, 0, 0, 0, 0, 0, 0, 0, 0, 0, 0, 0, 0, 0, 0, 1]
    ∧ clientOf netipParseAddr exRemoteZone = [0xfe, 0x80, 0, 0, 0, 0, 0, 0, 0, 0, 0, 0, 0, 0, 0, 1]
    ∧ joinHostPort exHostZone exPort = exRemoteZone
    ∧ 0x5b ∉ exHostZone ∧ 0x5d ∉ exHostZone ∧ 0x3a ∉ exPort ∧ 0x5b ∉ exPort ∧ 0x5d ∉ exPort := by
  decide

/-! ### zone identifiers in list entries -/

theorem splitOn_ne_nil (sep : UInt8) (s : Bytes) : splitOn sep s ≠ [] := by
  cases s with
  | nil => simp [splitOn]
  | cons c cs =>
    unfold splitOn
    split <;> simp
    split <;> simp

theorem mem_splitOn (sep : UInt8) : ∀ (s : Bytes) (c : UInt8), c ∈ s → c = sep ∨ ∃ p ∈ splitOn sep s, c ∈ p := by
  intro s
  induction s with
  | nil => intro c h; simp at h
  | cons x xs ih =>
    intro c h
    unfold splitOn
    cases hs : splitOn sep xs with
    | nil => exact absurd hs (splitOn_ne_nil sep xs)
    | cons p ps =>
      simp only
      rw [hs] at ih
      simp only [List.mem_cons] at h
      by_cases hx : x = sep
      · simp only [hx, if_true]
        rcases h with h | h
        · left; rw [h, hx]
        · rcases ih c h with h1 | ⟨q, hq, hc⟩
          · left; exact h1
          · right; exact ⟨q, by simp only [List.mem_cons] at hq ⊢; right; exact hq, hc⟩
      · simp only [hx, if_false]
        rcases h with h | h
        · right; exact ⟨x :: p, by simp, by simp [h]⟩
        · rcases ih c h with h1 | ⟨q, hq, hc⟩
          · left; exact h1
          · right
            simp only [List.mem_cons] at hq
            rcases hq with hq | hq
            · exact ⟨x :: p, by simp, by rw [hq] at hc; simp [hc]⟩
            · exact ⟨q, by simp [hq], hc⟩

/-- A dotted quad holds digits and dots only. -/
theorem parseIPv4Fields_chars (s b : Bytes) (h : parseIPv4Fields s = some b) (c : UInt8) (hc : c ∈ s) :
    c = 0x2e ∨ isDigit c = true := by
  obtain ⟨p1, p2, p3, p4, hs, _, hall⟩ := parseIPv4Fields_decimal s b h
  rcases mem_splitOn 0x2e s c hc with h1 | ⟨p, hp, hcp⟩
  · left; exact h1
  · right
    rw [hs] at hp
    have := (hall p hp).2.1
    rw [List.all_eq_true] at this
    exact this c hcp

/-- **The reference syntax reports a zone exactly when the text holds a `%`.** -/
theorem netipParseAddr_zone (s : Bytes) (a : Addr) (h : netipParseAddr s = some a) :
    a.zone = s.contains 0x25 := by
  unfold netipParseAddr at h
  split at h
  · cases hp : parseIPv4Fields s with
    | none => rw [hp] at h; simp at h
    | some b =>
      rw [hp] at h
      simp only [Option.map_some, Option.some.injEq] at h
      subst h
      have : ¬ (0x25 : UInt8) ∈ s := by
        intro hm
        rcases parseIPv4Fields_chars s b hp 0x25 hm with h1 | h1
        · exact absurd h1 (by decide)
        · exact absurd h1 (by decide)
      simp only
      symm
      simpa using this
  · unfold parseIPv6 at h
    simp only at h
    repeat' split at h
    all_goals (first | (simp at h; done) | skip)
    all_goals (simp only [Option.some.injEq] at h; subst h; rfl)
  · simp at h

theorem dtoiLoop_all (m : Bytes) : ∀ (n i v j : Nat), dtoiLoop m n i = some (v, j) → j = i + m.length →
    ∀ c ∈ m, (0x30 ≤ c ∧ c ≤ 0x39) := by
  induction m with
  | nil => intro n i v j _ _ c hc; simp at hc
  | cons x xs ih =>
    intro n i v j h hj c hc
    unfold dtoiLoop at h
    by_cases hx : 0x30 ≤ x ∧ x ≤ 0x39
    · simp only [hx, and_self, if_true] at h
      split at h
      · simp at h
      · simp only [List.mem_cons] at hc
        rcases hc with hc | hc
        · rw [hc]; exact hx
        · exact ih _ _ v j h (by simp only [List.length_cons] at hj; omega) c hc
    · simp only [hx, if_false, Option.some.injEq, Prod.mk.injEq] at h
      simp only [List.length_cons] at hj
      omega

/-- **A list entry with a zone identifier is refused** (`fe80::1%eth0`,
    `fe80::%eth0/10`, also a `%` in the prefix length): the allow-list has no
    zones; the zone of a *client* address is dropped instead (`clientOf`). -/
theorem zoned_entry_refused (t : Bytes) (h : (0x25 : UInt8) ∈ t) : denote netipParseAddr t = none := by
  have hsecond : (match netipParseAddr t with
      | some ad => if ad.zone then none else some ({ addr := ad.bytes, pfx := none } : Entry)
      | none => none) = none := by
    cases hp : netipParseAddr t with
    | none => rfl
    | some ad =>
      have hz := netipParseAddr_zone t ad hp
      have : t.contains 0x25 = true := by simpa using h
      rw [this] at hz
      simp [hz]
  have hfirst : denoteCIDR netipParseAddr t = none := by
    unfold denoteCIDR
    cases hcut : cutSlash t with
    | none => rfl
    | some p =>
      obtain ⟨a, m⟩ := p
      simp only
      cases hp : netipParseAddr a with
      | none => rfl
      | some ad =>
        simp only
        by_cases hza : ad.zone = true
        · simp [hza]
        · simp only [hza, Bool.false_eq_true, if_false]
          -- the `%` is not in the address part, so it is in the prefix length, which is then no number
          have hz := netipParseAddr_zone a ad hp
          have hna : ¬ (0x25 : UInt8) ∈ a := by
            intro hm
            have : a.contains 0x25 = true := by simpa using hm
            rw [this] at hz
            exact hza hz
          have hm : (0x25 : UInt8) ∈ m := by
            have hcs : ∀ (t a m : Bytes), cutSlash t = some (a, m) → ∀ c ∈ t, c ∈ a ∨ c = 0x2f ∨ c ∈ m := by
              intro t
              induction t with
              | nil => intro a m h0; simp [cutSlash] at h0
              | cons x xs ih =>
                intro a m h0 c hc
                unfold cutSlash at h0
                by_cases hx : x = 0x2f
                · simp only [hx, if_true, Option.some.injEq, Prod.mk.injEq] at h0
                  simp only [List.mem_cons] at hc
                  rcases hc with hc | hc
                  · right; left; rw [hc, hx]
                  · right; right; rw [← h0.2]; exact hc
                · simp only [hx, if_false] at h0
                  cases hr : cutSlash xs with
                  | none => rw [hr] at h0; simp at h0
                  | some q =>
                    obtain ⟨a', m'⟩ := q
                    rw [hr] at h0
                    simp only [Option.some.injEq, Prod.mk.injEq] at h0
                    simp only [List.mem_cons] at hc
                    rcases hc with hc | hc
                    · left; rw [← h0.1, hc]; simp
                    · rcases ih a' m' hr c hc with h1 | h1 | h1
                      · left; rw [← h0.1]; simp [h1]
                      · right; left; exact h1
                      · right; right; rw [← h0.2]; exact h1
            rcases hcs t a m hcut 0x25 h with h1 | h1 | h1
            · exact absurd h1 hna
            · exact absurd h1 (by decide)
            · exact h1
          have hbad : (!(dtoi m).2.2 || decide ((dtoi m).2.1 ≠ m.length)) = true := by
            unfold dtoi
            cases hd : dtoiLoop m 0 0 with
            | none => simp
            | some r =>
              obtain ⟨v, j⟩ := r
              simp only
              by_cases hj0 : j = 0
              · simp [hj0]
              · simp only [hj0, if_false, Bool.not_true, Bool.false_or, decide_eq_true_eq]
                intro hjm
                have := dtoiLoop_all m 0 0 v j hd (by omega) 0x25 hm
                exact absurd this (by decide)
          have hb2 : (!(dtoi m).2.2 || decide ((dtoi m).2.1 ≠ m.length) || decide ((dtoi m).1 > 8 * ad.bytes.length)) = true := by
            rw [hbad]; rfl
          rw [if_pos hb2]
  unfold denote
  rw [hfirst]
  exact hsecond

/-- `fe80::1%eth0`, `fe80::%eth0/10` -/
def exZone1 : Bytes := [0x66, 0x65, 0x38, 0x30, 0x3a, 0x3a, 0x31, 0x25, 0x65, 0x74, 0x68, 0x30]
def exZone2 : Bytes := [0x66, 0x65, 0x38, 0x30, 0x3a, 0x3a, 0x25, 0x65, 0x74, 0x68, 0x30, 0x2f, 0x31, 0x30]
example : (0x25 : UInt8) ∈ exZone1 ∧ (0x25 : UInt8) ∈ exZone2
    ∧ netipParseAddr exZone1 = some { bytes := [0xfe, 0x80, 0, 0, 0, 0, 0, 0, 0, 0, 0, 0, 0, 0, 0, 1], zone := true } := by
  decide

/-! ### the connection handler: tcp and unix-socket connections -/

/-- **No client crashes the proxy by the kind of its connection**, and a client
    with valid credentials gets the OK packet exactly when `IsAllowConnect`
    admits its remote address — over TCP and over a unix socket alike. -/
theorem onConn_admits_iff (pa : Bytes → Option Addr) (infos : List IPInfo) (kind : ConnKind) (remote : Bytes) :
    onConn pa infos kind remote ≠ .ok .crash ∧
    (onConn pa infos kind remote = .ok .ok ↔ isAllowConnect pa infos remote = .ok true) ∧
    (onConn pa infos kind remote = .ok .denied ↔ isAllowConnect pa infos remote = .ok false) := by
  unfold onConn
  cases h : isAllowConnect pa infos remote with
  | ok b => cases b <;> simp
  | fail => simp
  | panic => simp

/-- **Pinned witness of the repaired defect.**  Before the fix: commit, a client
    arriving over a unix socket (proto_type=unix) made `newSession` panic on
    `co.(*net.TCPConn)` before `onConn` had installed its recover: the process
    ended, whatever the allow-list.  The repaired handler treats the client as
    one without an address: admitted by the empty list only. -/
theorem unix_client_crashed_pinned_witness :
    onConnPinned netipParseAddr [] .unix [0x40] = .ok .crash
    ∧ onConn netipParseAddr [] .unix [0x40] = .ok .ok
    ∧ (parseAllowIps netipParseAddr [exTen] >>= fun infos => onConn netipParseAddr infos .unix [0x40]) = .ok .denied := by
  decide

section HexCase
set_option maxRecDepth 100000

/-! ### the reference address syntax: upper-case hex digits -/

/-- `A`–`F` to `a`–`f`, every other byte as it is. -/
def lowerHex (c : UInt8) : UInt8 := if 0x41 ≤ c ∧ c ≤ 0x46 then c + 0x20 else c

theorem lowerHex_hexVal (c : UInt8) : hexVal8? (lowerHex c) = hexVal8? c := by
  revert c; apply u8_cases; decide

theorem lowerHex_isHex (c : UInt8) : (hexVal8? (lowerHex c)).isSome = (hexVal8? c).isSome := by
  rw [lowerHex_hexVal]

theorem lowerHex_eq_dot (c : UInt8) : (lowerHex c = 0x2e) = (c = 0x2e) := by
  revert c; apply u8_cases; decide
theorem lowerHex_eq_colon (c : UInt8) : (lowerHex c = 0x3a) = (c = 0x3a) := by
  revert c; apply u8_cases; decide
theorem lowerHex_eq_pct (c : UInt8) : (lowerHex c = 0x25) = (c = 0x25) := by
  revert c; apply u8_cases; decide
theorem lowerHex_eq_zero (c : UInt8) : (lowerHex c = 0x30) = (c = 0x30) := by
  revert c; apply u8_cases; decide
theorem lowerHex_isDigit (c : UInt8) : isDigit (lowerHex c) = isDigit c := by
  revert c; apply u8_cases; decide
theorem lowerHex_digit (c : UInt8) : isDigit c = true → lowerHex c = c := by
  revert c; apply u8_cases; decide


abbrev lowerAll (s : Bytes) : Bytes := s.map lowerHex

theorem lowerAll_digits (p : Bytes) (h : p.all isDigit = true) : lowerAll p = p := by
  induction p with
  | nil => rfl
  | cons c cs ih =>
    simp only [List.all_cons, Bool.and_eq_true] at h
    simp only [lowerAll, List.map_cons, lowerHex_digit c h.1]
    congr 1
    exact ih h.2

theorem lowerAll_all_isDigit (p : Bytes) : (lowerAll p).all isDigit = p.all isDigit := by
  induction p with
  | nil => rfl
  | cons c cs ih => simp only [lowerAll, List.map_cons, List.all_cons, lowerHex_isDigit] at ih ⊢; rw [ih]

theorem v4Field_lower (p : Bytes) : v4Field (lowerAll p) = v4Field p := by
  by_cases h : p.all isDigit = true
  · rw [lowerAll_digits p h]
  · have h' : (lowerAll p).all isDigit ≠ true := by rw [lowerAll_all_isDigit]; exact h
    unfold v4Field
    simp [h, h']

theorem splitOn_lower (sep : UInt8) (hsep : ∀ c, (lowerHex c = sep) = (c = sep)) :
    ∀ s : Bytes, splitOn sep (lowerAll s) = (splitOn sep s).map lowerAll := by
  intro s
  induction s with
  | nil => rfl
  | cons c cs ih =>
    simp only [lowerAll, List.map_cons] at ih ⊢
    unfold splitOn
    rw [ih]
    cases hsp : splitOn sep cs with
    | nil => rfl
    | cons p ps =>
      simp only [List.map_cons, hsep]
      split <;> rfl

theorem parseIPv4Fields_lower (s : Bytes) : parseIPv4Fields (lowerAll s) = parseIPv4Fields s := by
  unfold parseIPv4Fields
  rw [splitOn_lower 0x2e lowerHex_eq_dot, List.map_map]
  have : v4Field ∘ lowerAll = v4Field := by funext p; exact v4Field_lower p
  rw [this]

theorem takeWhile_hex_lower (s : Bytes) :
    (lowerAll s).takeWhile (fun c => (hexVal8? c).isSome) = lowerAll (s.takeWhile (fun c => (hexVal8? c).isSome)) := by
  induction s with
  | nil => rfl
  | cons c cs ih =>
    simp only [lowerAll, List.map_cons, List.takeWhile_cons, lowerHex_isHex] at ih ⊢
    split
    · simp only [List.map_cons, ih]
    · rfl

theorem dropWhile_hex_lower (s : Bytes) :
    (lowerAll s).dropWhile (fun c => (hexVal8? c).isSome) = lowerAll (s.dropWhile (fun c => (hexVal8? c).isSome)) := by
  induction s with
  | nil => rfl
  | cons c cs ih =>
    simp only [lowerAll, List.map_cons, List.dropWhile_cons, lowerHex_isHex] at ih ⊢
    split
    · exact ih
    · simp only [List.map_cons]

theorem foldl_hex_lower (digs : Bytes) (n : Nat) :
    (lowerAll digs).foldl (fun n c => n * 16 + (hexVal8? c).getD 0) n
      = digs.foldl (fun n c => n * 16 + (hexVal8? c).getD 0) n := by
  induction digs generalizing n with
  | nil => rfl
  | cons c cs ih => simp only [lowerAll, List.map_cons, List.foldl_cons, lowerHex_hexVal] at ih ⊢; exact ih _

theorem headOpt_lower_dot (s : Bytes) : ((lowerAll s).head? = some 0x2e) = (s.head? = some 0x2e) := by
  cases s with
  | nil => rfl
  | cons c cs => simp only [lowerAll, List.map_cons, List.head?_cons, Option.some.injEq, lowerHex_eq_dot]

theorem v6Loop_lower (fuel : Nat) : ∀ (s ip : Bytes) (ell : Option Nat),
    v6Loop fuel (lowerAll s) ip ell = v6Loop fuel s ip ell := by
  induction fuel with
  | zero => intro s ip ell; rfl
  | succ fuel ih =>
    intro s ip ell
    conv => lhs; unfold v6Loop
    conv => rhs; unfold v6Loop
    simp only [takeWhile_hex_lower, dropWhile_hex_lower, foldl_hex_lower, headOpt_lower_dot,
      parseIPv4Fields_lower, List.length_map, List.isEmpty_map]
    generalize s.dropWhile (fun c => (hexVal8? c).isSome) = rest
    split
    · rfl
    · split
      · rfl
      · split
        · rfl
        · cases rest with
          | nil => rfl
          | cons c r1 =>
            simp only [lowerAll, List.map_cons, ne_eq, lowerHex_eq_colon]
            split
            · rfl
            · cases r1 with
              | nil => rfl
              | cons c2 r2 =>
                have h2 := ih r2
                have h1 := ih (c2 :: r2)
                simp only [lowerAll, List.map_cons] at h1 h2
                simp only [List.map_cons, lowerHex_eq_colon, List.isEmpty_map, h1, h2]

theorem lowerHex_eq_slash (c : UInt8) : (lowerHex c = 0x2f) = (c = 0x2f) := by
  revert c; apply u8_cases; decide
theorem lowerHex_dtoi_digit (c : UInt8) :
    (0x30 ≤ lowerHex c ∧ lowerHex c ≤ 0x39) = (0x30 ≤ c ∧ c ≤ 0x39) := by
  revert c; apply u8_cases; decide
theorem lowerHex_dtoi_val (c : UInt8) : (0x30 ≤ c ∧ c ≤ 0x39) → lowerHex c = c := by
  revert c; apply u8_cases; decide

theorem contains_pct_lower (s : Bytes) : (lowerAll s).contains 0x25 = s.contains 0x25 := by
  induction s with
  | nil => rfl
  | cons c cs ih =>
    simp only [lowerAll, List.map_cons, List.contains_cons] at ih ⊢
    rw [ih]
    congr 1
    rw [Bool.eq_iff_iff]
    simp only [beq_iff_eq]
    constructor
    · intro h; have := (lowerHex_eq_pct c) ▸ h.symm; exact this.symm
    · intro h; have : lowerHex c = 0x25 := (lowerHex_eq_pct c).symm ▸ h.symm; exact this.symm

theorem takeWhile_pct_lower (s : Bytes) :
    (lowerAll s).takeWhile (· ≠ 0x25) = lowerAll (s.takeWhile (· ≠ 0x25)) := by
  induction s with
  | nil => rfl
  | cons c cs ih =>
    simp only [lowerAll, List.map_cons, List.takeWhile_cons, ne_eq, lowerHex_eq_pct] at ih ⊢
    split
    · simp only [List.map_cons, ih]
    · rfl

theorem dropWhile_pct_lower (s : Bytes) :
    (lowerAll s).dropWhile (· ≠ 0x25) = lowerAll (s.dropWhile (· ≠ 0x25)) := by
  induction s with
  | nil => rfl
  | cons c cs ih =>
    simp only [lowerAll, List.map_cons, List.dropWhile_cons, ne_eq, lowerHex_eq_pct] at ih ⊢
    split
    · exact ih
    · simp only [List.map_cons]

theorem take2_colon_lower (s : Bytes) :
    ((lowerAll s).take 2 == [0x3a, 0x3a]) = (s.take 2 == [0x3a, 0x3a]) := by
  rw [Bool.eq_iff_iff]
  simp only [beq_iff_eq]
  match s with
  | [] => simp
  | [a] => simp
  | a :: b :: r => simp [lowerAll, lowerHex_eq_colon]

/-- **Upper-case and lower-case hex digits are the same address** (reference
    syntax of the colon form). -/
theorem parseIPv6_lower (input : Bytes) : parseIPv6 (lowerAll input) = parseIPv6 input := by
  unfold parseIPv6
  simp only [contains_pct_lower, takeWhile_pct_lower, dropWhile_pct_lower, List.length_map, take2_colon_lower]
  have hdrop : ∀ x : Bytes, (lowerAll x).drop 2 = lowerAll (x.drop 2) := fun x => by simp [lowerAll]
  generalize input.takeWhile (· ≠ 0x25) = s
  by_cases hl : (decide (s.length ≥ 2) && s.take 2 == [0x3a, 0x3a]) = true
  · simp only [hl, if_true, hdrop, List.isEmpty_map, v6Loop_lower]
  · have hl' : (decide (s.length ≥ 2) && s.take 2 == [0x3a, 0x3a]) = false := by simpa using hl
    simp only [hl', Bool.false_and, Bool.false_eq_true, if_false, v6Loop_lower]

theorem findOpt_special_lower (s : Bytes) :
    (lowerAll s).find? (fun c => c = 0x2e || c = 0x3a || c = 0x25)
      = (s.find? (fun c => c = 0x2e || c = 0x3a || c = 0x25)) := by
  induction s with
  | nil => rfl
  | cons c cs ih =>
    simp only [lowerAll, List.map_cons, List.find?_cons, lowerHex_eq_dot, lowerHex_eq_colon, lowerHex_eq_pct] at ih ⊢
    split
    · rename_i h
      have : lowerHex c = c := by
        simp only [Bool.or_eq_true, decide_eq_true_eq] at h
        rcases h with (h | h) | h
        · rw [h]; rfl
        · rw [h]; rfl
        · rw [h]; rfl
      rw [this]
    · exact ih

theorem netipParseAddr_lower (s : Bytes) : netipParseAddr (lowerAll s) = netipParseAddr s := by
  unfold netipParseAddr
  rw [findOpt_special_lower, parseIPv4Fields_lower, parseIPv6_lower]

theorem cutSlash_lower (t : Bytes) :
    cutSlash (lowerAll t) = (cutSlash t).map fun p => (lowerAll p.1, lowerAll p.2) := by
  induction t with
  | nil => rfl
  | cons c cs ih =>
    simp only [lowerAll, List.map_cons] at ih ⊢
    unfold cutSlash
    simp only [lowerHex_eq_slash]
    split
    · rfl
    · rw [ih]
      cases cutSlash cs with
      | none => rfl
      | some p => rfl

theorem dtoiLoop_lower (m : Bytes) : ∀ n i, dtoiLoop (lowerAll m) n i = dtoiLoop m n i := by
  induction m with
  | nil => intro n i; rfl
  | cons c cs ih =>
    intro n i
    simp only [lowerAll, List.map_cons] at ih ⊢
    unfold dtoiLoop
    simp only [lowerHex_dtoi_digit]
    split
    · rename_i h
      rw [lowerHex_dtoi_val c h]
      simp only [ih]
    · rfl

theorem dtoi_lower (m : Bytes) : dtoi (lowerAll m) = dtoi m := by
  unfold dtoi; rw [dtoiLoop_lower]

/-- **An entry means the same whatever the case of its hex digits**:
    `2001:DB8::/32` is `2001:db8::/32`, `::FFFF:1.2.3.4` is `::ffff:1.2.3.4`. -/
theorem entry_hex_case_irrelevant (t : Bytes) :
    denote netipParseAddr (lowerAll t) = denote netipParseAddr t := by
  have hc : denoteCIDR netipParseAddr (lowerAll t) = denoteCIDR netipParseAddr t := by
    unfold denoteCIDR
    rw [cutSlash_lower]
    cases cutSlash t with
    | none => rfl
    | some p =>
      obtain ⟨a, m⟩ := p
      simp only [Option.map_some, netipParseAddr_lower, dtoi_lower, List.length_map]
  unfold denote
  rw [hc, netipParseAddr_lower]

/-- `2001:DB8::AbCd/32` and `2001:db8::abcd/32` -/
def exUpper : Bytes :=
  [0x32, 0x30, 0x30, 0x31, 0x3a, 0x44, 0x42, 0x38, 0x3a, 0x3a, 0x41, 0x62, 0x43, 0x64, 0x2f, 0x33, 0x32]
def exLower : Bytes :=
  [0x32, 0x30, 0x30, 0x31, 0x3a, 0x64, 0x62, 0x38, 0x3a, 0x3a, 0x61, 0x62, 0x63, 0x64, 0x2f, 0x33, 0x32]

set_option maxRecDepth 100000 in
example : lowerAll exUpper = exLower
    ∧ denote netipParseAddr exUpper
      = some { addr := [0x20, 0x01, 0x0d, 0xb8, 0, 0, 0, 0, 0, 0, 0, 0, 0, 0, 0xab, 0xcd], pfx := some 32 } := by
  decide

end HexCase

section Reload
open GaeaVerif.MgrReload GaeaVerif.IPAllowReload

/-! ### reload: the list in force while the configuration changes

  `Model/IPAllowReload.lean` puts the allow-list on top of the reload machine
  of `Model/MgrReload.lean` (C31: `Rel`, `step_refines`,
  `reader_sees_complete_generation`).  Structural facts of the source the
  composition relies on, extracted on every run: -/

/-- `allowips` of a namespace object is assigned once, in `NewNamespace`: the
    list a connecting client is judged by is immutable. -/
theorem allowips_written_once :
    Gen.c35AllowipsWriters = 1 ∧ Gen.c35AllowipsWriterIsNewNamespace = true := by decide

/-- `Session.Handshake` refuses the client with an error when
    `IsAllowConnect()` is false, before it writes the OK packet. -/
theorem handshake_checks_allow_list : Gen.c35HandshakeChecksAllowList = true := by decide

/-- util's own `parseAllowIps` (which drops entries that do not parse) is
    called by nothing. -/
theorem util_parseAllowIps_unused : Gen.c35UtilParseAllowIpsCallers = 0 := by decide

/-- `parseAllowIps` never panics. -/
theorem parseAllowIps_ne_panic (pa : Bytes → Option Addr) (hpa : PAwf pa) (l : List Bytes) :
    parseAllowIps pa l ≠ .panic := by
  rw [parseAllowIps_eq pa hpa l]
  cases listed pa l <;> simp

/-- `NewNamespace` rejects a configuration exactly when an entry of its
    `allowed_ip` is meaningless. -/
theorem buildable_iff (pa : Bytes → Option Addr) (hpa : PAwf pa) (cfg : Cfg) (v : Nat) :
    buildable pa cfg v = false ↔
      ∃ t ∈ cfg v, (trimSpace t).length ≠ 0 ∧ denote pa (trimSpace t) = none := by
  rw [← unparsable_entry_refuses_list pa hpa (cfg v)]
  unfold buildable
  have := parseAllowIps_ne_panic pa hpa (cfg v)
  cases h : parseAllowIps pa (cfg v) with
  | ok _ => simp
  | fail => simp
  | panic => exact absurd h this

/-- What the property asks for when version `a` is in force (`none`: the
    namespace does not exist — nobody connects). -/
def specDecision (pa : Bytes → Option Addr) (cfg : Cfg) (a : Option Nat) (remote : Bytes) : R Bool :=
  match a with
  | none => .ok false
  | some v => parseAllowIps pa (cfg v) >>= fun infos => isAllowConnect pa infos remote

/-- A connecting client is judged by the list of the configuration last
    committed (or by nothing after a delete). -/
theorem connect_eq_spec (pa : Bytes → Option Addr) (cfg : Cfg) {m : Manager} {s : Spec} (h : C31.Rel m s)
    (remote : Bytes) : connect pa cfg m remote = specDecision pa cfg (s.active 0) remote := by
  unfold connect specDecision
  rw [(C31.view_eq_active h 0).1]
  cases s.active 0 <;> rfl

/-- The reference run: configuration operations answer what the manager
    answers and move the abstract state of C31 (`Spec.step`: a successful
    prepare records the version, a successful commit activates the version last
    prepared, a delete removes the namespace, a failed operation changes
    nothing); every connecting client gets `specDecision` of the version in force. -/
def refRun (pa : Bytes → Option Addr) (cfg : Cfg) (m : Manager) (s : Spec) : List IPAllowReload.Op → List Ans
  | [] => []
  | op :: rest =>
    match op.mgr pa cfg with
    | some o =>
      let r := MgrReload.step m o
      .out r.2 :: refRun pa cfg r.1 (s.step o r.2) rest
    | none =>
      match op with
      | .conn remote => .dec (specDecision pa cfg (s.active 0) remote) :: refRun pa cfg m s rest
      | _ => .dec .panic :: refRun pa cfg m s rest

theorem run_eq_refRun (pa : Bytes → Option Addr) (cfg : Cfg) {m : Manager} {s : Spec} (h : C31.Rel m s)
    (ops : List IPAllowReload.Op) : IPAllowReload.run pa cfg m ops = refRun pa cfg m s ops := by
  induction ops generalizing m s with
  | nil => rfl
  | cons op rest ih =>
    cases op with
    | prepare v =>
      simp only [IPAllowReload.run, IPAllowReload.step, refRun, IPAllowReload.Op.mgr]
      rw [ih (C31.step_refines h (.prepare 0 v (buildable pa cfg v))).1]
    | commit =>
      simp only [IPAllowReload.run, IPAllowReload.step, refRun, IPAllowReload.Op.mgr]
      rw [ih (C31.step_refines h (.commit 0)).1]
    | delete =>
      simp only [IPAllowReload.run, IPAllowReload.step, refRun, IPAllowReload.Op.mgr]
      rw [ih (C31.step_refines h (.delete 0)).1]
    | conn remote =>
      simp only [IPAllowReload.run, IPAllowReload.step, refRun, IPAllowReload.Op.mgr]
      rw [connect_eq_spec pa cfg h remote, ih h]

/-- **C35 across reloads, every history.**  On a proxy started with any list,
    after any sequence of prepares (of loadable and of unparsable lists),
    commits, deletes and connecting clients, every client is judged by the list
    of the configuration last committed — never by a list that was only
    prepared, never by a list that failed to parse, and by nothing at all once
    the namespace is deleted. -/
theorem reload_history_conn (pa : Bytes → Option Addr) (cfg : Cfg) (ops : List IPAllowReload.Op) :
    IPAllowReload.run pa cfg (start pa cfg) ops
      = refRun pa cfg (start pa cfg) (Spec.init (if buildable pa cfg 0 then [(0, 0)] else [])) ops :=
  run_eq_refRun pa cfg (C31.rel_init _) ops

/-- **A replacement list that does not parse is refused and changes nothing**:
    the prepare answers the build error and the manager is the one before —
    in particular the namespace does not become open. -/
theorem unparsable_prepare_changes_nothing (pa : Bytes → Option Addr) (cfg : Cfg) {m : Manager} {s : Spec}
    (h : C31.Rel m s) (v : Nat) (hb : buildable pa cfg v = false) :
    IPAllowReload.step pa cfg m (.prepare v) = (m, .out .errBuild) := by
  simp [IPAllowReload.step, MgrReload.step, ReloadNamespacePrepare, ReloadNamespacePrepareTrace, hb, h.ns]

/-- A commit after it still has nothing to commit (unless something else was
    prepared before): the clients keep being judged by the old list. -/
theorem unparsable_prepare_keeps_decisions (pa : Bytes → Option Addr) (cfg : Cfg) {m : Manager} {s : Spec}
    (h : C31.Rel m s) (v : Nat) (hb : buildable pa cfg v = false) (remote : Bytes) :
    connect pa cfg (IPAllowReload.step pa cfg m (.prepare v)).1 remote = connect pa cfg m remote := by
  rw [unparsable_prepare_changes_nothing pa cfg h v hb]

/-- **Prepare + commit puts exactly the new list in force.** -/
theorem commit_puts_prepared_list_in_force (pa : Bytes → Option Addr) (cfg : Cfg) {m : Manager} {s : Spec}
    (h : C31.Rel m s) (v : Nat) (hb : buildable pa cfg v = true) (remote : Bytes) :
    let m1 := (IPAllowReload.step pa cfg m (.prepare v)).1
    (IPAllowReload.step pa cfg m1 .commit).2 = .out .ok ∧
    connect pa cfg m1 remote = connect pa cfg m remote ∧
    connect pa cfg (IPAllowReload.step pa cfg m1 .commit).1 remote
      = (parseAllowIps pa (cfg v) >>= fun infos => isAllowConnect pa infos remote) := by
  simp only [IPAllowReload.step, hb]
  have hp := C31.prepare_refines h 0 v true
  have hr := hp.1
  rw [hp.2] at hr
  simp only [if_true, Spec.step] at hr
  have hkeep := (C31.prepare_keeps_view h 0 v true 0).1
  have hc := C31.commit_refines hr 0
  have hok : (ReloadNamespaceCommit (ReloadNamespacePrepare m 0 v true).1 0).2 = .ok := by
    rcases hc.2 with h1 | h1
    · exfalso
      have hm : (ReloadNamespacePrepare m 0 v true).1.reloadPrepared = true
          ∧ (ReloadNamespacePrepare m 0 v true).1.preparedName = 0 := by
        simp [ReloadNamespacePrepare, ReloadNamespacePrepareTrace, h.ns, h.us]
      simp [ReloadNamespaceCommit, ReloadNamespaceCommitTrace, hm.1, hm.2] at h1
      revert h1
      simp [ReloadNamespacePrepare, ReloadNamespacePrepareTrace, h.ns, h.us, GetNamespace]
    · exact h1.1
  obtain ⟨w, hw, hget, _⟩ := C31.commit_activates_last_prepared hr 0 hok
  have hwv : w = v := by simpa using hw.symm
  subst hwv
  refine ⟨by simp only [MgrReload.step]; rw [hok], ?_, ?_⟩
  · simp only [MgrReload.step, connect, hkeep]
  · simp only [MgrReload.step, connect, hget]

/-- **Clients connecting while a configuration operation runs** (between any
    two of its stores, from any reachable state) are judged by the list in
    force before the operation or by the one in force after it — whole lists,
    never a mixture, never the empty list of a half-built namespace. -/
theorem conn_during_reload_old_or_new (pa : Bytes → Option Addr) (cfg : Cfg) {m : Manager} {s : Spec}
    (h : C31.Rel m s) (op : MgrReload.Op) (remote : Bytes) :
    ∀ m' ∈ (trace m op).1,
      connect pa cfg m' remote = connect pa cfg m remote ∨
      connect pa cfg m' remote = connect pa cfg (MgrReload.step m op).1 remote := by
  intro m' hm'
  rcases (C31.reader_sees_complete_generation h op m' hm').2 with h1 | h1
  · left; simp only [connect, h1 0]
  · right; simp only [connect, h1 0]

/-- A client both lists agree on gets that answer throughout the reload. -/
theorem conn_during_reload_agreed (pa : Bytes → Option Addr) (cfg : Cfg) {m : Manager} {s : Spec}
    (h : C31.Rel m s) (op : MgrReload.Op) (remote : Bytes) (d : R Bool)
    (hold : connect pa cfg m remote = d) (hnew : connect pa cfg (MgrReload.step m op).1 remote = d) :
    ∀ m' ∈ (trace m op).1, connect pa cfg m' remote = d := by
  intro m' hm'
  rcases conn_during_reload_old_or_new pa cfg h op remote m' hm' with h1 | h1
  · rw [h1, hold]
  · rw [h1, hnew]

/-- `10.0.0.0/8`, `010.0.0.1`, `9.9.9.9:1` -/
def exTenBlock : Bytes := [0x31, 0x30, 0x2e, 0x30, 0x2e, 0x30, 0x2e, 0x30, 0x2f, 0x38]
def exBadEntry : Bytes := [0x30, 0x31, 0x30, 0x2e, 0x30, 0x2e, 0x30, 0x2e, 0x31]
def exOutsider : Bytes := [0x39, 0x2e, 0x39, 0x2e, 0x39, 0x2e, 0x39, 0x3a, 0x31]
/-- Version 0 = `["10.0.0.0/8"]`, version 1 = `["010.0.0.1"]` (does not parse),
    version 2 = `[]` (open). -/
def exCfg : Cfg := fun v => if v = 0 then [exTenBlock] else if v = 1 then [exBadEntry] else []

set_option maxRecDepth 100000 in
/-- Non-vacuity: the outsider 9.9.9.9 is refused, stays refused after the
    attempt to load the unparsable list and the commit that follows it, is
    admitted once the empty list is committed, and refused after the delete. -/
example :
    IPAllowReload.run netipParseAddr exCfg (start netipParseAddr exCfg)
      [.conn exOutsider, .prepare 1, .commit, .conn exOutsider, .prepare 2, .conn exOutsider, .commit,
       .conn exOutsider, .delete, .conn exOutsider]
    = [.dec (.ok false), .out .errBuild, .out .errNotPrepared, .dec (.ok false), .out .ok, .dec (.ok false),
       .out .ok, .dec (.ok true), .out .ok, .dec (.ok false)] := by decide

/-! ### util's unused `parseAllowIps` -/

/-- `x` and `10.0.0.0/8,x` -/
def exUtil1 : Bytes := [0x78]
def exUtil2 : Bytes := exTenBlock ++ [0x2c, 0x78]

set_option maxRecDepth 100000 in
/-- **Witness (dead code).**  util's comma-separated `parseAllowIps` drops an
    entry that does not parse: the non-empty text `x` yields the empty list,
    which `IsClientIPAllowed` reads as "everyone".  The loader of the proxy
    (`parseAllowIps` of proxy/server) refuses the same entries; the util
    function has no caller (`util_parseAllowIps_unused`). -/
theorem util_parseAllowIps_drops_witness :
    utilParseAllowIps netipParseAddr exUtil1 = []
    ∧ isClientIPAllowed (utilParseAllowIps netipParseAddr exUtil1) [9, 9, 9, 9] = .ok true
    ∧ (utilParseAllowIps netipParseAddr exUtil2).length = 1
    ∧ parseAllowIps netipParseAddr [exUtil1] = .fail
    ∧ parseAllowIps netipParseAddr [exTenBlock, exUtil1] = .fail := by decide

end Reload

end GaeaVerif.C35
