import GaeaVerif.Model.SessionVars
/-
  C20 — Session settings never leak between clients sharing pooled connections.
  Theorems about `Model/SessionVars.lean` (the tie to the Go code is the
  correspondence check `gvh run C20`).
-/
set_option linter.unusedSimpArgs false
set_option linter.unusedVariables false

namespace GaeaVerif.C20
open GaeaVerif GaeaVerif.SessVars

/-! ### association lists -/

section amap
variable {β : Type}

@[simp] theorem get_nil (k : String) : AMap.get ([] : AMap β) k = none := rfl

theorem get_cons (k' : String) (v : β) (m : AMap β) (k : String) :
    AMap.get ((k', v) :: m) k = (AMap.get m k).or (if k' = k then some v else none) := rfl

theorem get_append (a b : AMap β) (k : String) :
    AMap.get (a ++ b) k = (AMap.get b k).or (AMap.get a k) := by
  induction a with
  | nil => simp
  | cons p a ih =>
    obtain ⟨k', v⟩ := p
    simp only [List.cons_append, get_cons, ih, Option.or_assoc]

theorem get_filter_key (m : AMap β) (f : String → Bool) (k : String) :
    AMap.get (m.filter (fun p => f p.1)) k = if f k then AMap.get m k else none := by
  induction m with
  | nil => simp
  | cons p m ih =>
    obtain ⟨k', v⟩ := p
    by_cases hf : f k' = true <;> by_cases hk : f k = true
    · simp [List.filter_cons, hf, hk, get_cons, ih]
    · have : k' ≠ k := by intro e; subst e; exact hk hf
      simp [List.filter_cons, hf, hk, get_cons, ih, this]
    · have : k' ≠ k := by intro e; subst e; exact hf hk
      simp [List.filter_cons, hf, hk, get_cons, ih, this]
    · simp [List.filter_cons, hf, hk, ih]

theorem get_del (m : AMap β) (k k' : String) :
    AMap.get (AMap.del m k) k' = if k' = k then none else AMap.get m k' := by
  have := get_filter_key m (fun x => !(x == k)) k'
  by_cases h : k' = k <;> simpa [AMap.del, h] using this

theorem get_put (m : AMap β) (k k' : String) (v : β) :
    AMap.get (AMap.put m k v) k' = if k' = k then some v else AMap.get m k' := by
  by_cases h : k' = k
  · subst h; simp [AMap.put, get_append, get_cons]
  · have h' : k ≠ k' := fun e => h e.symm
    simp [AMap.put, get_append, get_cons, h, h', get_del]

theorem get_eq_none_iff (m : AMap β) (k : String) : AMap.get m k = none ↔ k ∉ AMap.keys m := by
  induction m with
  | nil => simp [AMap.keys]
  | cons p m ih =>
    obtain ⟨k', v⟩ := p
    simp only [AMap.keys, List.map_cons, List.mem_cons, not_or, get_cons] at *
    by_cases hk : k' = k
    · simp [hk]
    · have : ¬ k = k' := fun e => hk e.symm
      simp [hk, this, ih]

theorem has_iff (m : AMap β) (k : String) : AMap.has m k = true ↔ k ∈ AMap.keys m := by
  have := get_eq_none_iff m k
  unfold AMap.has
  cases h : AMap.get m k <;> simp_all

theorem get_foldl_put (l u : AMap β) (k : String) :
    AMap.get (l.foldl (fun m p => AMap.put m p.1 p.2) u) k = (AMap.get l k).or (AMap.get u k) := by
  induction l generalizing u with
  | nil => simp
  | cons p l ih =>
    obtain ⟨k', v⟩ := p
    simp only [List.foldl_cons, ih, get_put, get_cons, Option.or_assoc]
    by_cases h : k = k'
    · subst h; simp
    · have h' : ¬ k' = k := fun e => h e.symm
      simp [h, h']

end amap

/-! ### `SetEqualsWith` -/

theorem setEqualsStep_get (acc : AMap Val × Bool) (p : String × Val) (k : String) :
    AMap.get (SessionVariables.setEqualsStep acc p).1 k = if k = p.1 then some p.2 else AMap.get acc.1 k := by
  unfold SessionVariables.setEqualsStep
  split
  · rename_i v0 hv
    split
    · simp [get_put]
    · rename_i hne
      have : v0 = p.2 := by simpa using hne
      by_cases h : k = p.1
      · subst h; simp [hv, this]
      · simp [h]
  · simp [get_put]

theorem setEqualsStep_false (acc : AMap Val × Bool) (p : String × Val)
    (h : (SessionVariables.setEqualsStep acc p).2 = false) :
    acc.2 = false ∧ SessionVariables.setEqualsStep acc p = acc ∧ AMap.get acc.1 p.1 = some p.2 := by
  unfold SessionVariables.setEqualsStep at h ⊢
  split at h
  · rename_i v0 hv
    split at h
    · simp at h
    · rename_i hne
      have : v0 = p.2 := by simpa using hne
      simp [hv, hne, h, this]
  · simp at h

theorem loop1_get (l : AMap Val) (acc : AMap Val × Bool) (k : String) :
    AMap.get (l.foldl SessionVariables.setEqualsStep acc).1 k = (AMap.get l k).or (AMap.get acc.1 k) := by
  induction l generalizing acc with
  | nil => simp
  | cons p l ih =>
    obtain ⟨k', v⟩ := p
    simp only [List.foldl_cons, ih, setEqualsStep_get, get_cons, Option.or_assoc]
    by_cases h : k = k'
    · subst h; simp
    · have h' : ¬ k' = k := fun e => h e.symm
      simp [h, h']

theorem loop1_false (l : AMap Val) (acc : AMap Val × Bool)
    (h : (l.foldl SessionVariables.setEqualsStep acc).2 = false) :
    acc.2 = false ∧ l.foldl SessionVariables.setEqualsStep acc = acc ∧ ∀ k, (AMap.get l k).or (AMap.get acc.1 k) = AMap.get acc.1 k := by
  induction l generalizing acc with
  | nil => simpa using h
  | cons p l ih =>
    simp only [List.foldl_cons] at h ⊢
    obtain ⟨h1, h2, h3⟩ := ih _ h
    obtain ⟨g1, g2, g3⟩ := setEqualsStep_false acc p h1
    rw [g2] at h2 h3
    refine ⟨g1, by rw [g2]; exact h2, ?_⟩
    intro k
    obtain ⟨k', v⟩ := p
    have := h3 k
    simp only [get_cons, Option.or_assoc]
    by_cases hk : k' = k
    · subst hk
      simp only [↓reduceIte]
      simp at g3
      cases hl : AMap.get l k' with
      | none => simp [g3]
      | some x => simp [hl] at this; simp [← this]
    · simp [hk, this]

theorem mem_keys_iff {β : Type} (m : AMap β) (k : String) : k ∈ AMap.keys m ↔ AMap.get m k ≠ none := by
  have := get_eq_none_iff m k
  constructor
  · intro h e; exact (this.mp e) h
  · intro h; by_cases hk : k ∈ AMap.keys m
    · exact hk
    · exact absurd (this.mpr hk) h

/-- What `SetEqualsWith` guarantees: afterwards the variables are those of the
    destination; "unchanged" really means nothing was touched; and exactly the
    variables that disappeared were added to `unused`. -/
structure SEWSpec (s dst s' : SessionVariables) (ch : Bool) : Prop where
  vars : ∀ k, AMap.get s'.variables k = AMap.get dst.variables k
  same : ch = false → s' = s
  unused : ∀ k, k ∈ AMap.keys s'.unused ↔
    k ∈ AMap.keys s.unused ∨ (AMap.get s.variables k ≠ none ∧ AMap.get dst.variables k = none)

theorem setEqualsWith_spec (s dst : SessionVariables) :
    SEWSpec s dst (s.setEqualsWith dst).1 (s.setEqualsWith dst).2 := by
  unfold SessionVariables.setEqualsWith
  split
  · -- the connection holds nothing: copy everything
    rename_i h
    have hs : s.variables = [] := by
      have : s.variables.isEmpty = true := by simp_all
      simpa using this
    refine ⟨?_, by simp, ?_⟩
    · intro k; simp [get_foldl_put, hs]
    · intro k; simp [hs]
  · split
    · -- the client holds nothing: everything becomes unused
      rename_i h1 h
      have hd : dst.variables = [] := by
        have : dst.variables.isEmpty = true := by simp_all
        simpa using this
      refine ⟨?_, by simp, ?_⟩
      · intro k; simp [hd]
      · intro k
        simp only [mem_keys_iff, get_foldl_put, hd, get_nil]
        cases h1 : AMap.get s.variables k <;> cases h2 : AMap.get s.unused k <;> simp
    · -- general case
      refine ⟨?_, ?_, ?_⟩
      · intro k
        have := get_filter_key (List.foldl SessionVariables.setEqualsStep (s.variables, false) dst.variables).1
          (fun x => AMap.has dst.variables x) k
        simp only [this, loop1_get]
        unfold AMap.has
        cases hd : AMap.get dst.variables k <;> simp
      · intro hch
        simp only [Bool.or_eq_false_iff, Bool.not_eq_eq_eq_not, Bool.not_false, List.isEmpty_iff] at hch
        obtain ⟨h1, h2⟩ := hch
        obtain ⟨_, g2, _⟩ := loop1_false _ _ h1
        rw [g2] at h2 ⊢
        simp only at h2 ⊢
        have hall : ∀ p ∈ s.variables, AMap.has dst.variables p.1 = true := by
          intro p hp
          have := List.filter_eq_nil_iff.mp h2 p hp
          simpa using this
        have hk : s.variables.filter (fun p => AMap.has dst.variables p.1) = s.variables :=
          List.filter_eq_self.mpr hall
        simp [h2, hk]
      · intro k
        have hg := get_filter_key (List.foldl SessionVariables.setEqualsStep (s.variables, false) dst.variables).1
          (fun x => !(AMap.has dst.variables x)) k
        simp only [mem_keys_iff, get_foldl_put, hg, loop1_get]
        unfold AMap.has
        cases hd : AMap.get dst.variables k <;> cases h1 : AMap.get s.variables k <;>
          cases h2 : AMap.get s.unused k <;> simp

/-! ### expressions: what does not read the session has one value -/

theorem evalExpr_sessionFree (g v v' : AMap String) (e : Expr) (h : e.sessionFree = true) :
    evalExpr g v e = evalExpr g v' e := by
  induction e with
  | int i => rfl
  | str s => rfl
  | null => rfl
  | uvar n => simp [Expr.sessionFree] at h
  | svar ex n => simp [Expr.sessionFree] at h
  | gvar n => rfl
  | cat a b iha ihb =>
    simp only [Expr.sessionFree, Bool.and_eq_true] at h
    simp only [evalExpr, iha h.1, ihb h.2]
  | add a b iha ihb =>
    simp only [Expr.sessionFree, Bool.and_eq_true] at h
    simp only [evalExpr, iha h.1, ihb h.2]

/-- A value text that mentions no user variable and no session system variable
    evaluates to the same value in every session (of one server). -/
theorem evalText_sessionFree (g v v' : AMap String) (t : String) (h : sessionFreeB t = true) :
    evalText g v t = evalText g v' t := by
  unfold sessionFreeB at h
  unfold evalText
  cases hp : parseText t with
  | none => rfl
  | some e =>
    rw [hp] at h
    simp only at h ⊢
    rw [evalExpr_sessionFree g v v' e h]

/-! ### the backend applying a SET statement -/

@[simp] theorem wireKey_false (k : String) : wireKey false k = k := by simp [wireKey]

theorem sessionFreeB_defaultText (k : String) : sessionFreeB (defaultText k) = true := by
  unfold defaultText
  by_cases h : isUserVarName k = true
  · simp only [h, ↓reduceIte]; decide
  · simp only [h]; decide

theorem evalText_defaultText (g v : AMap String) (k : String) : evalText g v (defaultText k) = defaultText k := by
  unfold defaultText
  by_cases h : isUserVarName k = true
  · simp only [h, ↓reduceIte]
    have : parseText "NULL" = some .null := by decide
    simp [evalText, this, Expr.isLit]
  · simp only [h]
    have : parseText "DEFAULT" = none := by decide
    simp [evalText, this]

theorem isReset_defaultText (k : String) : isReset k (defaultText k) = true := by
  unfold isReset defaultText
  by_cases h : isUserVarName k = true
  · simp [h]
  · have : lower "DEFAULT" = "default" := by decide
    simp [h, this]

theorem applyItem_assign_get (b : Backend) (k' txt k : String) :
    AMap.get (b.applyItem (.assign k' txt)).vars k =
      if k = k' then (if isReset k' (evalText b.globals b.vars txt) then none else some (evalText b.globals b.vars txt))
      else AMap.get b.vars k := by
  unfold Backend.applyItem
  by_cases h : isReset k' (evalText b.globals b.vars txt) = true
  · simp only [h, ↓reduceIte, get_del]
  · simp [h, get_put]

@[simp] theorem applyItem_assign_charset (b : Backend) (k' txt : String) :
    (b.applyItem (.assign k' txt)).charset = b.charset ∧ (b.applyItem (.assign k' txt)).collation = b.collation ∧
    (b.applyItem (.assign k' txt)).globals = b.globals := by
  unfold Backend.applyItem
  by_cases h : isReset k' (evalText b.globals b.vars txt) = true <;> simp [h]

/-- The value a variable ends up with when it is assigned `txt` and `txt` does
    not read the session. -/
def assigned (g : AMap String) (k txt : String) : Option String :=
  if isReset k (evalText g [] txt) then none else some (evalText g [] txt)

/-- A backend applies a list of assignments left to right: for each name the
    last assignment decides — its value, when it does not read the session, is
    the same whatever was assigned before it —, names not assigned keep their
    value. -/
theorem apply_assigns (l : AMap String) (b : Backend) :
    ((l.map (fun p => Item.assign p.1 p.2)).foldl Backend.applyItem b).charset = b.charset ∧
    ((l.map (fun p => Item.assign p.1 p.2)).foldl Backend.applyItem b).collation = b.collation ∧
    ((l.map (fun p => Item.assign p.1 p.2)).foldl Backend.applyItem b).globals = b.globals ∧
    ∀ k, match AMap.get l k with
      | some txt => sessionFreeB txt = true →
          AMap.get ((l.map (fun p => Item.assign p.1 p.2)).foldl Backend.applyItem b).vars k = assigned b.globals k txt
      | none => AMap.get ((l.map (fun p => Item.assign p.1 p.2)).foldl Backend.applyItem b).vars k = AMap.get b.vars k := by
  induction l generalizing b with
  | nil => simp
  | cons p l ih =>
    obtain ⟨k', txt⟩ := p
    simp only [List.map_cons, List.foldl_cons]
    obtain ⟨h1, h2, hg, h3⟩ := ih (b.applyItem (.assign k' txt))
    have hc := applyItem_assign_charset b k' txt
    refine ⟨by rw [h1, hc.1], by rw [h2, hc.2.1], by rw [hg, hc.2.2], ?_⟩
    intro k
    have h3k := h3 k
    rw [get_cons]
    cases hr : AMap.get l k with
    | some x =>
      rw [hr] at h3k
      simp only [Option.some_or] at h3k ⊢
      rw [hc.2.2] at h3k
      exact h3k
    | none =>
      rw [hr] at h3k
      simp only at h3k
      by_cases hk : k' = k
      · subst hk
        simp only [↓reduceIte, Option.none_or]
        intro hsf
        rw [h3k, applyItem_assign_get]
        simp only [↓reduceIte, assigned]
        rw [evalText_sessionFree b.globals b.vars [] txt hsf]
      · have : ¬ k = k' := fun e => hk e.symm
        simp only [hk, ↓reduceIte, Option.or_none]
        rw [h3k, applyItem_assign_get]
        simp [this]

/-- Looking up a name in a list whose values are determined by the names. -/
theorem get_map_keyfun {α β : Type} (xs : AMap α) (g : String → String) (d : String → β) (k : String) :
    AMap.get (xs.map (fun p => (g p.1, d (g p.1)))) k = if k ∈ xs.map (fun p => g p.1) then some (d k) else none := by
  induction xs with
  | nil => simp
  | cons p xs ih =>
    simp only [List.map_cons, get_cons, ih, List.mem_cons]
    by_cases h1 : k ∈ xs.map (fun p => g p.1)
    · simp [h1]
    · by_cases h2 : g p.1 = k
      · subst h2; simp [h1]
      · have : ¬ k = g p.1 := fun e => h2 e.symm
        simp [h1, h2, this]

theorem keys_wireVars (v : Bool) (m : AMap Val) :
    AMap.keys (wireVars v m) = (sentVars v m).map (fun p => wireKey v p.1) := by
  simp [AMap.keys, wireVars]

theorem wireKey_idem (v : Bool) (k : String) : wireKey v (wireKey v k) = wireKey v k := by
  unfold wireKey
  by_cases h : (k == "tx_read_only" && v) = true
  · simp only [h, ↓reduceIte]
    have : ("transaction_read_only" == "tx_read_only") = false := by decide
    simp [this]
  · simp [h]

/-- Every recorded variable is assigned under its backend name — by itself, or
    by the variable that bears that name. -/
theorem wireKey_assigned (v : Bool) (m : AMap Val) (u : String) (hu : u ∈ AMap.keys m) :
    wireKey v u ∈ AMap.keys (wireVars v m) := by
  rw [keys_wireVars]
  obtain ⟨p, hp, hpu⟩ := List.mem_map.mp hu
  by_cases hf : (!(wireKey v p.1 != p.1 && AMap.has m (wireKey v p.1))) = true
  · exact List.mem_map.mpr ⟨p, List.mem_filter.mpr ⟨hp, hf⟩, by rw [hpu]⟩
  · -- left out: the record holds a variable of the backend name, and that one is sent
    have hf' : (wireKey v p.1 != p.1 && AMap.has m (wireKey v p.1)) = true := by simpa using hf
    simp only [Bool.and_eq_true] at hf'
    obtain ⟨_, hhas⟩ := hf'
    obtain ⟨q, hq, hqk⟩ := List.mem_map.mp ((has_iff m _).mp hhas)
    refine List.mem_map.mpr ⟨q, List.mem_filter.mpr ⟨hq, ?_⟩, ?_⟩
    · have : wireKey v q.1 = q.1 := by rw [hqk, wireKey_idem]
      simp [this]
    · rw [hqk, wireKey_idem, hpu]

theorem mem_keys_of_sent (v : Bool) (m : AMap Val) (k : String) (h : k ∈ AMap.keys (wireVars v m)) :
    ∃ q ∈ m, wireKey v q.1 = k := by
  rw [keys_wireVars] at h
  obtain ⟨q, hq, hqk⟩ := List.mem_map.mp h
  exact ⟨q, (List.mem_filter.mp hq).1, hqk⟩

theorem expectedVar_of_none (v : Bool) (g : AMap String) (vars : AMap Val) (k : String)
    (h : AMap.get (wireVars v vars) k = none) : expectedVar v g vars k = none := by simp [expectedVar, h]

theorem expectedVar_of_some (v : Bool) (g : AMap String) (vars : AMap Val) (k txt : String)
    (h : AMap.get (wireVars v vars) k = some txt) : expectedVar v g vars k = assigned g k txt := by
  simp [expectedVar, h, assigned]

/-- The effect of the statement `WriteSetStatement` builds, on a backend that
    held the settings `ov`, when every variable that left the record is listed
    in `unused`: the backend holds the recorded variables afterwards and
    nothing else. -/
theorem apply_setItems (c : Conn) (collName : String) (unused : AMap Val)
    (b : Backend) (ov : AMap Val)
    (hb : VarsMatch c.v803 b.globals ov b.vars)
    (h2 : ∀ u, AMap.get ov u ≠ none → AMap.get c.sv.variables u = none → u ∈ AMap.keys unused) :
    (b.apply (setItems c collName unused)).charset = c.charset ∧
    (b.apply (setItems c collName unused)).collation = collName ∧
    (b.apply (setItems c collName unused)).globals = b.globals ∧
    VarsMatch c.v803 b.globals c.sv.variables (b.apply (setItems c collName unused)).vars := by
  unfold Backend.apply setItems
  simp only [List.foldl_cons]
  obtain ⟨a1, a2, ag, a3⟩ := apply_assigns (setAssigns c unused) (b.applyItem (Item.names c.charset collName))
  refine ⟨by rw [a1]; rfl, by rw [a2]; rfl, by rw [ag]; rfl, ?_⟩
  intro k
  have a3k := a3 k
  have hbv : (b.applyItem (Item.names c.charset collName)).vars = b.vars := rfl
  have hbg : (b.applyItem (Item.names c.charset collName)).globals = b.globals := rfl
  rw [hbv, hbg] at a3k
  have hres := get_map_keyfun
    (unused.filter (fun p => !(((sentVars c.v803 c.sv.variables).map (fun p => wireKey c.v803 p.1)).contains (wireKey c.v803 p.1))))
    (wireKey c.v803) defaultText k
  have hget : AMap.get (setAssigns c unused) k =
      (if k ∈ (unused.filter (fun p => !(((sentVars c.v803 c.sv.variables).map (fun p => wireKey c.v803 p.1)).contains
          (wireKey c.v803 p.1)))).map (fun p => wireKey c.v803 p.1) then some (defaultText k) else none).or
        (AMap.get (wireVars c.v803 c.sv.variables) k) := by
    unfold setAssigns
    simp only [get_append]
    rw [hres]
  rw [hget] at a3k
  by_cases hk : k ∈ (unused.filter (fun p => !(((sentVars c.v803 c.sv.variables).map (fun p => wireKey c.v803 p.1)).contains
      (wireKey c.v803 p.1)))).map (fun p => wireKey c.v803 p.1)
  · -- the statement resets `k`; it does not assign it
    simp only [hk, ↓reduceIte, Option.some_or] at a3k
    have hval := a3k (sessionFreeB_defaultText k)
    obtain ⟨p, hp, hpk⟩ := List.mem_map.mp hk
    have hpf := (List.mem_filter.mp hp).2
    have hnot : k ∉ (sentVars c.v803 c.sv.variables).map (fun p => wireKey c.v803 p.1) := by
      rw [← hpk]; simpa using hpf
    have : AMap.get (wireVars c.v803 c.sv.variables) k = none := by
      rw [get_eq_none_iff, keys_wireVars]; exact hnot
    rw [this]
    simp only
    rw [hval]
    simp [assigned, evalText_defaultText, isReset_defaultText]
  · simp only [hk, ↓reduceIte, Option.none_or] at a3k
    cases hg : AMap.get (wireVars c.v803 c.sv.variables) k with
    | some txt =>
      rw [hg] at a3k
      simp only at a3k ⊢
      intro hsf
      rw [a3k hsf, expectedVar_of_some _ _ _ _ _ hg]
    | none =>
      rw [hg] at a3k
      simp only at a3k ⊢
      rw [a3k]
      -- `k` is neither assigned nor reset: the backend did not hold it before
      have hbk := hb k
      cases ho : AMap.get (wireVars c.v803 ov) k with
      | none => rw [ho] at hbk; exact hbk
      | some txt' =>
        exfalso
        have hin : k ∈ AMap.keys (wireVars c.v803 ov) := by
          rw [mem_keys_iff, ho]; simp
        obtain ⟨q, hq, hqk⟩ := mem_keys_of_sent _ _ _ hin
        have hqo : AMap.get ov q.1 ≠ none := by
          rw [← mem_keys_iff]; exact List.mem_map.mpr ⟨q, hq, rfl⟩
        have hnotAssigned : k ∉ AMap.keys (wireVars c.v803 c.sv.variables) := by
          rw [← get_eq_none_iff]; exact hg
        have hqn : AMap.get c.sv.variables q.1 = none := by
          rw [get_eq_none_iff]
          intro hin2
          apply hnotAssigned
          rw [← hqk]
          exact wireKey_assigned _ _ _ hin2
        have hu := h2 q.1 hqo hqn
        obtain ⟨u, huu, huq⟩ := List.mem_map.mp hu
        apply hk
        refine List.mem_map.mpr ⟨u, List.mem_filter.mpr ⟨huu, ?_⟩, ?_⟩
        · have : wireKey c.v803 u.1 = k := by rw [huq, hqk]
          rw [keys_wireVars] at hnotAssigned
          simpa [this] using hnotAssigned
        · rw [huq, hqk]

/-! ### settings and their backend image -/

/-- The assignments a record is sent as, when none of its variables is left out. -/
def wireMap (v : Bool) (m : AMap Val) : AMap String :=
  m.map (fun p => (wireKey v p.1, valueText (wireKey v p.1) p.2))

theorem wireVars_eq (v : Bool) (m : AMap Val) : wireVars v m = wireMap v (sentVars v m) := rfl

theorem sentVars_false (m : AMap Val) : sentVars false m = m := by
  unfold sentVars
  apply List.filter_eq_self.mpr
  intro p _
  simp

theorem get_wireMap_false (m : AMap Val) (k : String) :
    AMap.get (wireMap false m) k = (AMap.get m k).map (valueText k) := by
  induction m with
  | nil => simp [wireMap]
  | cons p m ih =>
    obtain ⟨k', v⟩ := p
    have : wireMap false ((k', v) :: m) = (k', valueText k' v) :: wireMap false m := by simp [wireMap]
    rw [this, get_cons, get_cons, ih]
    by_cases hk : k' = k
    · subst hk; cases AMap.get m k' <;> simp
    · cases AMap.get m k <;> simp [hk]

theorem get_wireVars_false (m : AMap Val) (k : String) :
    AMap.get (wireVars false m) k = (AMap.get m k).map (valueText k) := by
  rw [wireVars_eq, sentVars_false, get_wireMap_false]

theorem has_cons (k' : String) (v : Val) (m : AMap Val) (k : String) :
    AMap.has ((k', v) :: m) k = (AMap.has m k || decide (k' = k)) := by
  unfold AMap.has
  rw [get_cons]
  by_cases hk : k' = k
  · cases AMap.get m k <;> simp [hk]
  · cases AMap.get m k <;> simp [hk]

/-- With at most one of the two spellings in use, what a ≥ 8.0.3 backend is
    sent depends on the settings only as a map (not on their order). -/
theorem get_wireMap_true (m : AMap Val)
    (h : ¬ (AMap.has m "tx_read_only" = true ∧ AMap.has m "transaction_read_only" = true)) (k : String) :
    AMap.get (wireMap true m) k =
      if k = "transaction_read_only" then
        ((AMap.get m "tx_read_only").or (AMap.get m "transaction_read_only")).map (valueText "transaction_read_only")
      else if k = "tx_read_only" then none
      else (AMap.get m k).map (valueText k) := by
  induction m with
  | nil => simp [wireMap]
  | cons p m ih =>
    obtain ⟨k', v⟩ := p
    have hm : ¬ (AMap.has m "tx_read_only" = true ∧ AMap.has m "transaction_read_only" = true) := by
      intro ⟨h1, h2⟩
      apply h
      simp [has_cons, h1, h2]
    have ih := ih hm
    have hw : wireMap true ((k', v) :: m) = (wireKey true k', valueText (wireKey true k') v) :: wireMap true m := by
      simp [wireMap]
    rw [hw, get_cons, ih]
    simp only [has_cons] at h
    have hne : ("tx_read_only" : String) ≠ "transaction_read_only" := by decide
    by_cases hk1 : k' = "tx_read_only"
    · subst hk1
      have hwk : wireKey true "tx_read_only" = "transaction_read_only" := by decide
      -- the other spelling is not in use
      have hB : AMap.get m "transaction_read_only" = none := by
        cases hb : AMap.get m "transaction_read_only" with
        | none => rfl
        | some x => exfalso; apply h; simp [AMap.has, hb]
      rw [hwk]
      by_cases hk : k = "transaction_read_only"
      · subst hk
        simp only [↓reduceIte, get_cons, hB]
        cases AMap.get m "tx_read_only" <;> simp [hne]
      · have hk' : ¬ "transaction_read_only" = k := fun e => hk e.symm
        simp only [hk, ↓reduceIte, hk', get_cons]
        by_cases hk2 : k = "tx_read_only"
        · simp [hk2]
        · have : ¬ "tx_read_only" = k := fun e => hk2 e.symm
          simp [hk2, this]
    · have hwk : wireKey true k' = k' := by simp [wireKey, hk1]
      rw [hwk]
      by_cases hk2 : k' = "transaction_read_only"
      · subst hk2
        have hA : AMap.get m "tx_read_only" = none := by
          cases ha : AMap.get m "tx_read_only" with
          | none => rfl
          | some x => exfalso; apply h; simp [AMap.has, ha]
        by_cases hk : k = "transaction_read_only"
        · subst hk
          simp only [↓reduceIte, get_cons, hA]
          have : ¬ ("transaction_read_only" : String) = "tx_read_only" := fun e => hne e.symm
          cases AMap.get m "transaction_read_only" <;> simp [this]
        · have hk' : ¬ "transaction_read_only" = k := fun e => hk e.symm
          simp only [hk, ↓reduceIte, hk', get_cons]
          by_cases hk3 : k = "tx_read_only"
          · simp [hk3]
          · simp [hk3]
      · by_cases hk : k = "transaction_read_only"
        · subst hk
          simp only [↓reduceIte, get_cons, hk1, hk2]
          simp
        · simp only [hk, ↓reduceIte, get_cons]
          by_cases hk3 : k = "tx_read_only"
          · subst hk3; simp [hk1]
          · simp only [hk3, ↓reduceIte]
            by_cases hkk : k' = k
            · subst hkk; cases AMap.get m k' <;> simp
            · cases AMap.get m k <;> simp [hkk]

theorem wireKey_true_of_ne (k : String) (h : k ≠ "tx_read_only") : wireKey true k = k := by
  simp [wireKey, h]

theorem wireKey_true_tx : wireKey true "tx_read_only" = "transaction_read_only" := by decide

/-- **The two spellings are sent deterministically.**  What a ≥ 8.0.3 backend
    is sent for a record depends on the record only as a map — not on the order
    in which the Go map is walked: `transaction_read_only` is assigned the value
    recorded under that name when there is one, otherwise the value recorded as
    `tx_read_only`; `tx_read_only` itself is never sent; every other variable is
    sent under its own name. -/
theorem get_wireVars_true (m : AMap Val) (k : String) :
    AMap.get (wireVars true m) k =
      if k = "transaction_read_only" then
        ((AMap.get m "transaction_read_only").or (AMap.get m "tx_read_only")).map (valueText "transaction_read_only")
      else if k = "tx_read_only" then none
      else (AMap.get m k).map (valueText k) := by
  have hne : ("tx_read_only" : String) ≠ "transaction_read_only" := by decide
  by_cases hb : AMap.has m "transaction_read_only" = true
  · -- the record holds the backend's own name: the other spelling is left out
    have hs : sentVars true m = AMap.del m "tx_read_only" := by
      unfold sentVars AMap.del
      apply List.filter_congr
      intro p _
      by_cases hp : p.1 = "tx_read_only"
      · rw [hp, wireKey_true_tx, hb]
        have : ("transaction_read_only" != "tx_read_only") = true := by decide
        simp [this]
      · rw [wireKey_true_of_ne _ hp]
        simp [hp]
    have hmap : wireMap true (AMap.del m "tx_read_only") = wireMap false (AMap.del m "tx_read_only") := by
      unfold wireMap
      apply List.map_congr_left
      intro p hp
      have hp1 : p.1 ≠ "tx_read_only" := by
        have := (List.mem_filter.mp hp).2
        simpa using this
      rw [wireKey_true_of_ne _ hp1, wireKey_false]
    rw [wireVars_eq, hs, hmap, get_wireMap_false, get_del]
    obtain ⟨x, hx⟩ : ∃ x, AMap.get m "transaction_read_only" = some x := by
      unfold AMap.has at hb
      cases hg : AMap.get m "transaction_read_only" with
      | none => simp [hg] at hb
      | some x => exact ⟨x, rfl⟩
    by_cases hk : k = "transaction_read_only"
    · subst hk
      have : ¬ ("transaction_read_only" : String) = "tx_read_only" := fun e => hne e.symm
      simp [this, hx]
    · by_cases hk2 : k = "tx_read_only"
      · simp [hk, hk2]
      · simp [hk, hk2]
  · -- it does not: every variable is sent
    have hb' : AMap.has m "transaction_read_only" = false := by simpa using hb
    have hs : sentVars true m = m := by
      unfold sentVars
      apply List.filter_eq_self.mpr
      intro p _
      by_cases hp : p.1 = "tx_read_only"
      · rw [hp, wireKey_true_tx, hb']; simp
      · rw [wireKey_true_of_ne _ hp]; simp
    rw [wireVars_eq, hs, get_wireMap_true m (by intro ⟨_, h2⟩; exact hb h2)]
    have hn : AMap.get m "transaction_read_only" = none := by
      unfold AMap.has at hb'
      cases hg : AMap.get m "transaction_read_only" with
      | none => rfl
      | some x => simp [hg] at hb'
    by_cases hk : k = "transaction_read_only"
    · simp [hk, hn]
    · simp [hk]

/-- Two records that agree as maps are sent as the same assignments. -/
theorem wireVars_congr (v : Bool) (a b : AMap Val) (hab : ∀ k, AMap.get a k = AMap.get b k) (k : String) :
    AMap.get (wireVars v a) k = AMap.get (wireVars v b) k := by
  cases v with
  | false => rw [get_wireVars_false, get_wireVars_false, hab]
  | true => rw [get_wireVars_true, get_wireVars_true, hab, hab, hab]

theorem expectedVar_congr (v : Bool) (g : AMap String) (a b : AMap Val) (hab : ∀ k, AMap.get a k = AMap.get b k)
    (k : String) : expectedVar v g a k = expectedVar v g b k := by
  unfold expectedVar
  rw [wireVars_congr v a b hab]

theorem varsMatch_congr (v : Bool) (g : AMap String) (a b : AMap Val) (bv : AMap String)
    (hab : ∀ k, AMap.get a k = AMap.get b k) (h : VarsMatch v g a bv) : VarsMatch v g b bv := by
  intro k
  have hk := h k
  rw [wireVars_congr v a b hab, expectedVar_congr v g a b hab] at hk
  exact hk

/-! ### one connection: belief, backend, `InitializeSessionVariables` -/

/-- `strings.Trim(charset, "\"'`")`. -/
abbrev trimQ (s : String) : String := trimSet ['"', '\'', '`'] s

/-- The proxy's record of a pooled connection describes the backend session
    behind it (and nothing is waiting to be reset): charset, collation, every
    recorded variable whose value does not read the session, and no variable
    that is not recorded. -/
structure Consistent (t : Tables) (s : Slot) : Prop where
  unused : s.conn.sv.unused = []
  ackedCharset : s.conn.ackedCharset = s.conn.charset
  ackedCollation : s.conn.ackedCollation = s.conn.collation
  ackedVariables : s.conn.ackedVariables = s.conn.sv
  charset : s.be.charset = s.conn.charset
  collation : t.collationName s.conn.collation = some s.be.collation
  vars : VarsMatch s.conn.v803 s.be.globals s.conn.sv.variables s.be.vars

theorem setCharset_cases (t : Tables) (c : Conn) (cs : String) (coll : Nat) :
    setCharset t c cs coll = (c, none) ∨
    (setCharset t c cs coll = (c, some false) ∧ c.charset = trimQ cs ∧
      c.collation = effectiveCollation t c.coll247 (trimQ cs) coll) ∨
    (setCharset t c cs coll =
        ({ c with charset := trimQ cs, collation := effectiveCollation t c.coll247 (trimQ cs) coll }, some true) ∧
      (t.collationName (effectiveCollation t c.coll247 (trimQ cs) coll)).isSome = true) := by
  unfold setCharset
  simp only
  by_cases h1 : (c.charset == trimSet ['"', '\'', '`'] cs &&
      c.collation == effectiveCollation t c.coll247 (trimSet ['"', '\'', '`'] cs) coll) = true
  · simp only [h1, ↓reduceIte]
    simp only [Bool.and_eq_true, beq_iff_eq] at h1
    right; left
    exact ⟨trivial, h1.1, h1.2⟩
  · simp only [h1]
    by_cases h2 : (!(AMap.has t.charsetIds (trimSet ['"', '\'', '`'] cs))) = true
    · simp [h2]
    · by_cases h3 : (t.collationName (effectiveCollation t c.coll247 (trimSet ['"', '\'', '`'] cs) coll)).isNone = true
      · simp [h2, h3]
      · right; right
        simp only [h2, h3]
        refine ⟨by simp, ?_⟩
        cases h : t.collationName (effectiveCollation t c.coll247 (trimSet ['"', '\'', '`'] cs) coll) <;> simp_all

theorem write_spec (t : Tables) (c : Conn) (b : Backend) (f : Fault) (collName : String)
    (hcoll : t.collationName c.collation = some collName) :
    writeSetStatement t c b f =
      match f with
      | .none =>
        ({ c with sv := { c.sv with unused := [] }, ackedCharset := c.charset, ackedCollation := c.collation,
                  ackedVariables := { c.sv with unused := [] } },
          b.apply (setItems c collName c.sv.unused), .ok (setText c collName c.sv.unused))
      | .rejSqlMode => (restoreAckedSession { c with sv := { c.sv with unused := [] } }, b, .rejected (setText c collName c.sv.unused) true)
      | .rejOther => (restoreAckedSession { c with sv := { c.sv with unused := [] } }, b, .rejected (setText c collName c.sv.unused) false) := by
  unfold writeSetStatement
  simp only [hcoll, SessionVariables.getUnusedAndClear]
  cases f <;> rfl

/-- A consistent connection put back to its acknowledged settings is the
    connection as it was before the attempt. -/
theorem restore_eq (t : Tables) (s : Slot) (hc : Consistent t s) (cs : String) (coll : Nat) (sv : SessionVariables) :
    restoreAckedSession { s.conn with charset := cs, collation := coll, sv := sv } = s.conn := by
  obtain ⟨conn, be⟩ := s
  obtain ⟨charset, collation, sv0, ac, acl, av, c247, v803, closed⟩ := conn
  have h1 := hc.ackedCharset; have h2 := hc.ackedCollation; have h3 := hc.ackedVariables
  simp only at h1 h2 h3
  simp [restoreAckedSession, h1, h2, h3]

/-- The write step of `InitializeSessionVariables` / `SyncSessionVariables`
    on a consistent connection whose record was just moved to the client's
    settings: either the backend takes the statement and then holds the
    client's variables, or it rejects it and the connection is as before. -/
theorem write_after_set (t : Tables) (s : Slot) (hc : Consistent t s) (cl : Client) (cs' : String) (coll' : Nat)
    (collName : String) (hcoll : t.collationName coll' = some collName) (f : Fault) :
    let c2 : Conn := { s.conn with charset := cs', collation := coll', sv := (s.conn.sv.setEqualsWith cl.vars).1 }
    (f = .none →
      ∃ stmt c3 b3, writeSetStatement t c2 s.be f = (c3, b3, .ok stmt) ∧
        Consistent t { conn := c3, be := b3 } ∧ c3.coll247 = s.conn.coll247 ∧ c3.v803 = s.conn.v803 ∧
        c3.closed = s.conn.closed ∧ b3.charset = cs' ∧ b3.collation = collName ∧ b3.globals = s.be.globals ∧
        VarsMatch s.conn.v803 s.be.globals (s.conn.sv.setEqualsWith cl.vars).1.variables b3.vars) ∧
    (f ≠ .none →
      ∃ stmt sm, writeSetStatement t c2 s.be f = (s.conn, s.be, .rejected stmt sm)) := by
  intro c2
  have spec := setEqualsWith_spec s.conn.sv cl.vars
  have hcoll2 : t.collationName c2.collation = some collName := hcoll
  constructor
  · intro hf
    subst hf
    rw [write_spec t c2 s.be .none collName hcoll2]
    have happ := apply_setItems c2 collName c2.sv.unused s.be s.conn.sv.variables hc.vars
      (by
        intro k ho hn
        apply (spec.unused k).mpr
        right
        refine ⟨ho, ?_⟩
        rw [← spec.vars k]; exact hn)
    refine ⟨_, _, _, rfl, ?_, rfl, rfl, rfl, happ.1, happ.2.1, happ.2.2.1, happ.2.2.2⟩
    exact {
      unused := rfl
      ackedCharset := rfl
      ackedCollation := rfl
      ackedVariables := rfl
      charset := happ.1
      collation := by show t.collationName coll' = _; rw [hcoll, happ.2.1]
      vars := by
        show VarsMatch s.conn.v803 (s.be.apply _).globals _ _
        rw [happ.2.2.1]; exact happ.2.2.2 }
  · intro hf
    rw [write_spec t c2 s.be f collName hcoll2]
    have hr := restore_eq t s hc cs' coll' { (s.conn.sv.setEqualsWith cl.vars).1 with unused := [] }
    cases f with
    | none => exact absurd rfl hf
    | rejSqlMode => exact ⟨_, true, by simp only; rw [show ({ c2 with sv := { c2.sv with unused := [] } } : Conn) = { s.conn with charset := cs', collation := coll', sv := { (s.conn.sv.setEqualsWith cl.vars).1 with unused := [] } } from rfl, hr]⟩
    | rejOther => exact ⟨_, false, by simp only; rw [show ({ c2 with sv := { c2.sv with unused := [] } } : Conn) = { s.conn with charset := cs', collation := coll', sv := { (s.conn.sv.setEqualsWith cl.vars).1 with unused := [] } } from rfl, hr]⟩

/-- What `InitializeSessionVariables` does to the client's record: nothing to
    its charset and collation; its variables are acknowledged when the
    settings are in place, put back to the acknowledged ones when the SET
    statement failed, untouched when `SetCharset` failed. -/
theorem init_client (t : Tables) (s : Slot) (cl : Client) (f : Fault) :
    (initializeSessionVariables t s cl f).2.1 =
      match (initializeSessionVariables t s cl f).2.2 with
      | .ok _ => { cl with vars := cl.vars.acknowledge }
      | .errCharset => cl
      | .errSet _ => { cl with vars := cl.vars.restoreAcknowledged } := by
  unfold initializeSessionVariables
  cases hsc : setCharset t s.conn cl.charset cl.collation with
  | mk c1 o =>
    cases o with
    | none => rfl
    | some ch =>
      simp only
      by_cases hc : (ch || (setSessionVariables c1 cl.vars).2) = true
      · simp only [hc, ↓reduceIte]
        cases hw : writeSetStatement t (setSessionVariables c1 cl.vars).1 s.be f with
        | mk c3 r =>
          cases r with
          | mk b3 wr => cases wr <;> rfl
      · simp only [hc]
        rfl

/-- **sync_correct / belief_inv for one connection.**  On a connection whose
    record describes its backend session, `InitializeSessionVariables` — for
    any client, whatever the backend does with the SET statement — leaves a
    connection whose record again describes its backend session; and when it
    succeeds the backend session carries the client's settings. -/
theorem init_spec (t : Tables) (s : Slot) (cl : Client) (f : Fault) (hc : Consistent t s) :
    Consistent t (initializeSessionVariables t s cl f).1 ∧
    (initializeSessionVariables t s cl f).1.conn.coll247 = s.conn.coll247 ∧
    (initializeSessionVariables t s cl f).1.conn.v803 = s.conn.v803 ∧
    (initializeSessionVariables t s cl f).1.conn.closed = s.conn.closed ∧
    (initializeSessionVariables t s cl f).1.be.globals = s.be.globals ∧
    ((initializeSessionVariables t s cl f).2.2.isOk = true →
      Matches t s.conn.coll247 s.conn.v803 (initializeSessionVariables t s cl f).1.be cl) := by
  have spec := setEqualsWith_spec s.conn.sv cl.vars
  rcases setCharset_cases t s.conn cl.charset cl.collation with h | ⟨h, hcs, hcl⟩ | ⟨h, hvalid⟩
  · -- SetCharset fails: nothing was touched
    simp only [initializeSessionVariables, h]
    refine ⟨hc, ?_, ?_, ?_, ?_, ?_⟩ <;> simp [InitRes.isOk]
  · -- charset and collation already as requested
    simp only [initializeSessionVariables, h, setSessionVariables, Bool.false_or]
    by_cases hch : (s.conn.sv.setEqualsWith cl.vars).2 = true
    · simp only [hch, ↓reduceIte]
      have hw := write_after_set t s hc cl s.conn.charset s.conn.collation s.be.collation hc.collation f
      simp only at hw
      by_cases hf : f = .none
      · obtain ⟨stmt, c3, b3, hwr, hcons, h247, h803, hcl3, hbc, hbl, hbg, hbv⟩ := hw.1 hf
        rw [hwr]
        refine ⟨hcons, h247, h803, hcl3, hbg, fun _ => ⟨?_, ?_, ?_⟩⟩
        · show b3.charset = _; rw [hbc, hcs]
        · show t.collationName _ = some b3.collation; rw [hbl, ← hcl]; exact hc.collation
        · show VarsMatch s.conn.v803 b3.globals cl.vars.variables b3.vars
          rw [hbg]; exact varsMatch_congr _ _ _ _ _ spec.vars hbv
      · obtain ⟨stmt, sm, hwr⟩ := hw.2 hf
        rw [hwr]
        refine ⟨hc, ?_, ?_, ?_, ?_, ?_⟩ <;> simp [InitRes.isOk]
    · have hch' : (s.conn.sv.setEqualsWith cl.vars).2 = false := by simpa using hch
      simp only [hch', Bool.false_eq_true, ↓reduceIte]
      have hsame := spec.same hch'
      rw [hsame]
      refine ⟨hc, trivial, trivial, trivial, trivial, fun _ => ⟨?_, ?_, ?_⟩⟩
      · show s.be.charset = _; rw [hc.charset, hcs]
      · show t.collationName _ = some s.be.collation; rw [← hcl]; exact hc.collation
      · show VarsMatch s.conn.v803 s.be.globals cl.vars.variables s.be.vars
        have hv := spec.vars
        rw [hsame] at hv
        exact varsMatch_congr _ _ _ _ _ hv hc.vars
      -- (the record was not touched: `hsame`)
  · -- charset or collation changes: a statement is always sent
    simp only [initializeSessionVariables, h, setSessionVariables, Bool.true_or, ↓reduceIte]
    cases hn : t.collationName (effectiveCollation t s.conn.coll247 (trimQ cl.charset) cl.collation) with
    | none => simp [hn] at hvalid
    | some collName =>
      have hw := write_after_set t s hc cl (trimQ cl.charset)
        (effectiveCollation t s.conn.coll247 (trimQ cl.charset) cl.collation) collName hn f
      simp only at hw
      by_cases hf : f = .none
      · obtain ⟨stmt, c3, b3, hwr, hcons, h247, h803, hcl3, hbc, hbl, hbg, hbv⟩ := hw.1 hf
        rw [hwr]
        refine ⟨hcons, h247, h803, hcl3, hbg, fun _ => ⟨?_, ?_, ?_⟩⟩
        · show b3.charset = _; rw [hbc]
        · show t.collationName _ = some b3.collation; rw [hbl]; exact hn
        · show VarsMatch s.conn.v803 b3.globals cl.vars.variables b3.vars
          rw [hbg]; exact varsMatch_congr _ _ _ _ _ spec.vars hbv
      · obtain ⟨stmt, sm, hwr⟩ := hw.2 hf
        rw [hwr]
        refine ⟨hc, ?_, ?_, ?_, ?_, ?_⟩ <;> simp [InitRes.isOk]

/-- `SyncSessionVariables` at the start of a transaction: the connection stays
    consistent, or it has been closed (and will be dropped by the pool). -/
theorem sync_spec (t : Tables) (s : Slot) (cl : Client) (f : Fault) (hc : Consistent t s) :
    (syncSessionVariables t s cl f).1.conn.closed = true ∨ Consistent t (syncSessionVariables t s cl f).1 := by
  have spec := setEqualsWith_spec s.conn.sv cl.vars
  simp only [syncSessionVariables, setSessionVariables]
  by_cases hch : (s.conn.sv.setEqualsWith cl.vars).2 = true
  · simp only [hch, ↓reduceIte]
    have hw := write_after_set t s hc cl s.conn.charset s.conn.collation s.be.collation hc.collation f
    simp only at hw
    by_cases hf : f = .none
    · obtain ⟨stmt, c3, b3, hwr, hcons, _⟩ := hw.1 hf
      rw [hwr]; right; exact hcons
    · obtain ⟨stmt, sm, hwr⟩ := hw.2 hf
      rw [hwr]; left; rfl
  · have hch' : (s.conn.sv.setEqualsWith cl.vars).2 = false := by simpa using hch
    simp only [hch', Bool.false_eq_true, ↓reduceIte]
    rw [spec.same hch']
    right; exact hc

/-! ### the system: all histories -/

/-- Every pooled connection's record describes its backend session. -/
def Inv (t : Tables) (s : Sys) : Prop := ∀ sl ∈ s.slots, Consistent t sl

/-- The connections the pool opens are consistent: fresh record, server defaults. -/
def FreshOK (t : Tables) (fresh : Fresh) : Prop := ∀ k, Consistent t (fresh k)

theorem recycle_consistent (t : Tables) (fresh : Slot) (s : Slot) (hf : Consistent t fresh)
    (h : s.conn.closed = true ∨ Consistent t s) : Consistent t (recycle fresh s) := by
  unfold recycle
  by_cases hc : s.conn.closed = true
  · simp [hc, hf]
  · simp only [hc]
    rcases h with h | h
    · exact absurd h hc
    · exact h

theorem inv_set_slot (t : Tables) (s : Sys) (k : Nat) (sl : Slot) (cls : List Client) (hi : Inv t s)
    (h : Consistent t sl) : Inv t { clients := cls, slots := s.slots.set k sl } := by
  intro x hx
  rcases List.mem_or_eq_of_mem_set hx with h1 | h1
  · exact hi x h1
  · rw [h1]; exact h

/-- **belief_inv (one step).**  Whatever operation comes next — a SET by any
    client (with literal values or with expressions, whether or not they read
    the session), a statement or a transaction start by any client on any
    connection, with the backend accepting or rejecting the SET statement —
    every pooled connection's record still describes its backend session
    afterwards. -/
theorem step_inv (cfg : Cfg) (fresh : Fresh) (s : Sys) (op : Op) (hf : FreshOK cfg.tables fresh)
    (hi : Inv cfg.tables s) : Inv cfg.tables (step cfg fresh s op).1 := by
  cases op with
  | set c assigns =>
    simp only [step]
    split
    · exact hi
    · exact hi
  | run c k f =>
    simp only [step]
    split
    · rename_i cl sl hcl hsl
      have hmem : sl ∈ s.slots := List.mem_of_getElem? hsl
      have hs := init_spec cfg.tables sl cl f (hi sl hmem)
      exact inv_set_slot _ s k _ _ hi (recycle_consistent _ _ _ (hf k) (Or.inr hs.1))
    · exact hi
  | sync c k f =>
    simp only [step]
    split
    · rename_i cl sl hcl hsl
      have hmem : sl ∈ s.slots := List.mem_of_getElem? hsl
      have hs := sync_spec cfg.tables sl cl f (hi sl hmem)
      exact inv_set_slot _ s k _ _ hi (recycle_consistent _ _ _ (hf k) hs)
    · exact hi

/-- **belief_inv.**  The invariant holds after every history. -/
theorem runOps_inv (cfg : Cfg) (fresh : Fresh) (ops : List Op) (s : Sys) (hf : FreshOK cfg.tables fresh)
    (hi : Inv cfg.tables s) : Inv cfg.tables (runOps cfg fresh s ops).1 := by
  induction ops generalizing s with
  | nil => exact hi
  | cons op ops ih => exact ih _ (step_inv cfg fresh s op hf hi)

/-
  Full statement of no_leak (not provable: the listed finding
  `set-expression-reads-session-state`):

    when a client's statement executes, the backend session carries the client's
    charset and collation and, for EVERY variable `k`, the value the client set it
    to — for a value that is an expression, the value that expression had in the
    client's own session when the client sent the SET statement — and the server
    default for every variable the client has not set.

  What is proved (`Matches`/`VarsMatch`): the same, for every variable except
  those whose recorded value reads the session (`@x = @y`, `@x = @x+1`,
  `sql_mode = CONCAT(@@sql_mode, …)`): the proxy cannot evaluate such a value, it
  re-sends the expression and the pooled connection evaluates it in whatever
  session state it then has (`session_expression_leak_witness`).
-/

/-- **no_leak (one step), partial.**  When a client's statement executes on a
    pooled connection — whoever used that connection before, whatever they had
    set — the backend session carries the executing client's own settings: its
    charset, its collation, each of its session and user variables whose value
    does not read the session (every literal, `CONCAT('a','b')`, `@@GLOBAL.x`),
    and the server default for every other variable.  A successful preparation
    changes nothing in the client's record but the acknowledgement mark.  No
    caveat is left for clients that hold both spellings of
    `transaction_read_only` (`get_wireVars_true`). -/
theorem run_matches_partial (cfg : Cfg) (fresh : Fresh) (s : Sys) (c k : Nat) (f : Fault) (res : InitRes) (b : Backend)
    (hi : Inv cfg.tables s) (h : (step cfg fresh s (.run c k f)).2 = .run res (some b)) :
    ∃ cl sl, s.clients[c]? = some cl ∧ s.slots[k]? = some sl ∧
      Matches cfg.tables sl.conn.coll247 sl.conn.v803 b cl ∧ b.globals = sl.be.globals ∧
      (step cfg fresh s (.run c k f)).1.clients[c]? = some { cl with vars := cl.vars.acknowledge } := by
  simp only [step] at h ⊢
  split at h
  · rename_i cl sl hcl hsl
    have hmem : sl ∈ s.slots := List.mem_of_getElem? hsl
    have hs := init_spec cfg.tables sl cl f (hi sl hmem)
    have hcli := init_client cfg.tables sl cl f
    simp only [Out.run.injEq] at h
    obtain ⟨_, h2⟩ := h
    by_cases hok : (initializeSessionVariables cfg.tables sl cl f).2.2.isOk = true
    · simp only [hok, ↓reduceIte, Option.some.injEq] at h2
      have hm := hs.2.2.2.2.2 hok
      refine ⟨cl, sl, hcl, hsl, ?_, ?_, ?_⟩
      · rw [← h2]; exact hm
      · rw [← h2]; exact hs.2.2.2.2.1
      · simp only [hcl, hsl]
        have hcl' : (initializeSessionVariables cfg.tables sl cl f).2.1 = { cl with vars := cl.vars.acknowledge } := by
          rw [hcli]
          cases hr : (initializeSessionVariables cfg.tables sl cl f).2.2 with
          | ok st => rfl
          | errCharset => rw [hr] at hok; simp [InitRes.isOk] at hok
          | errSet st => rw [hr] at hok; simp [InitRes.isOk] at hok
        rw [hcl']
        have hlt : c < s.clients.length := by
          rcases List.getElem?_eq_some_iff.mp hcl with ⟨hlt, _⟩; exact hlt
        simp [List.getElem?_set_self hlt]
    · simp [hok] at h2
  · simp at h

theorem step_out_run (cfg : Cfg) (fresh : Fresh) (s : Sys) (op : Op) (res : InitRes) (e : Option Backend)
    (h : (step cfg fresh s op).2 = .run res e) : ∃ c k f, op = .run c k f := by
  cases op with
  | set c a => simp only [step] at h; split at h <;> simp at h
  | run c k f => exact ⟨c, k, f, rfl⟩
  | sync c k f => simp only [step] at h; split at h <;> simp at h

/-- **no_leak, partial.**  In every history (any number of clients and
    connections, any interleaving of SET statements, statement executions and
    transaction starts, the backend rejecting any of the SET statements it is
    sent), every statement that executes does so on a backend session that
    carries the executing client's settings at that moment (`Matches`: charset,
    collation, every variable whose value does not read the session, nothing
    else set).  The full statement and what is missing: see above. -/
theorem no_leak_partial (cfg : Cfg) (fresh : Fresh) (hf : FreshOK cfg.tables fresh) (ops : List Op) (s₀ : Sys)
    (hi : Inv cfg.tables s₀) (i : Nat) (res : InitRes) (b : Backend)
    (h : (runOps cfg fresh s₀ ops).2[i]? = some (.run res (some b))) :
    ∃ c k f cl sl, ops[i]? = some (.run c k f) ∧
      (runOps cfg fresh s₀ (ops.take i)).1.clients[c]? = some cl ∧
      (runOps cfg fresh s₀ (ops.take i)).1.slots[k]? = some sl ∧
      Matches cfg.tables sl.conn.coll247 sl.conn.v803 b cl := by
  induction ops generalizing s₀ i with
  | nil => simp [runOps] at h
  | cons op ops ih =>
    cases i with
    | zero =>
      simp only [runOps, List.getElem?_cons_zero, Option.some.injEq] at h
      obtain ⟨c, k, f, hop⟩ := step_out_run cfg fresh s₀ op res (some b) h
      subst hop
      obtain ⟨cl, sl, h1, h2, h3, _⟩ := run_matches_partial cfg fresh s₀ c k f res b hi h
      exact ⟨c, k, f, cl, sl, rfl, by simpa [runOps] using h1, by simpa [runOps] using h2, h3⟩
    | succ i =>
      simp only [runOps, List.getElem?_cons_succ] at h
      obtain ⟨c, k, f, cl, sl, g1, g2, g3, g4⟩ := ih _ (step_inv cfg fresh s₀ op hf hi) i h
      exact ⟨c, k, f, cl, sl, by simpa using g1, by simpa [runOps] using g2, by simpa [runOps] using g3, g4⟩

/-- For a client none of whose values reads the session — every client that
    sets literals only, and e.g. `CONCAT('a','b')` or `@@GLOBAL.x` — `Matches`
    says that every variable of the backend session is exactly what the client
    asked for (the statement `no_leak` had before expressions were modelled,
    now without the caveat about the two spellings of `transaction_read_only`). -/
theorem matches_session_free (t : Tables) (coll247 v803 : Bool) (b : Backend) (cl : Client)
    (hm : Matches t coll247 v803 b cl) (hsf : SessionFreeVars v803 cl.vars.variables) :
    ∀ k, AMap.get b.vars k = expectedVar v803 b.globals cl.vars.variables k := by
  intro k
  have hk := hm.2.2 k
  cases hg : AMap.get (wireVars v803 cl.vars.variables) k with
  | some txt => rw [hg] at hk; exact hk (hsf k txt hg)
  | none => rw [hg] at hk; rw [hk, expectedVar_of_none _ _ _ _ hg]

/-- The preparation cannot fail without a reason: on a consistent connection,
    when `SetCharset` accepts the client's charset and the backend does not
    reject the statement, the client's statement executes. -/
theorem init_succeeds (t : Tables) (s : Slot) (cl : Client) (hc : Consistent t s)
    (hcs : (setCharset t s.conn cl.charset cl.collation).2 ≠ none) :
    (initializeSessionVariables t s cl .none).2.2.isOk = true := by
  rcases setCharset_cases t s.conn cl.charset cl.collation with h | ⟨h, _, _⟩ | ⟨h, hvalid⟩
  · rw [h] at hcs; exact absurd rfl hcs
  · simp only [initializeSessionVariables, h, setSessionVariables, Bool.false_or]
    by_cases hch : (s.conn.sv.setEqualsWith cl.vars).2 = true
    · simp only [hch, ↓reduceIte]
      have hw := write_after_set t s hc cl s.conn.charset s.conn.collation s.be.collation hc.collation .none
      simp only at hw
      obtain ⟨stmt, c3, b3, hwr, _⟩ := hw.1 trivial
      rw [hwr]; rfl
    · have hch' : (s.conn.sv.setEqualsWith cl.vars).2 = false := by simpa using hch
      simp only [hch', Bool.false_eq_true, ↓reduceIte]; rfl
  · simp only [initializeSessionVariables, h, setSessionVariables, Bool.true_or, ↓reduceIte]
    cases hn : t.collationName (effectiveCollation t s.conn.coll247 (trimQ cl.charset) cl.collation) with
    | none => simp [hn] at hvalid
    | some collName =>
      have hw := write_after_set t s hc cl (trimQ cl.charset)
        (effectiveCollation t s.conn.coll247 (trimQ cl.charset) cl.collation) collName hn .none
      simp only at hw
      obtain ⟨stmt, c3, b3, hwr, _⟩ := hw.1 trivial
      rw [hwr]; rfl

/-! ### after a rejected SET statement: back to the acknowledged variables -/

theorem set_acked (vm : VerifyMap) (s s' : SessionVariables) (key : String) (v : Val)
    (h : s.set vm key v = .ok s') : s'.ackedVariables = s.ackedVariables := by
  simp only [SessionVariables.set] at h
  split at h
  · cases h
    simp [SessionVariables.ackedVariables, SessionVariables.keepAcknowledged]
  · cases h
  · cases h

theorem delete_acked (s : SessionVariables) (key : String) : (s.delete key).ackedVariables = s.ackedVariables := by
  simp [SessionVariables.delete, SessionVariables.ackedVariables, SessionVariables.keepAcknowledged]

theorem liftSet_acked (vm : VerifyMap) (cl cl' : Client) (key : String) (v : Val)
    (h : liftSet cl (cl.vars.set vm key v) = .ok cl') : cl'.vars.ackedVariables = cl.vars.ackedVariables := by
  cases hs : cl.vars.set vm key v with
  | ok sv =>
    rw [hs] at h
    simp only [liftSet, Res.ok.injEq] at h
    rw [← h]
    exact set_acked vm _ _ _ _ hs
  | err k => rw [hs] at h; simp [liftSet] at h
  | panic => rw [hs] at h; simp [liftSet] at h

theorem setInt_acked (cfg : Cfg) (cl cl' : Client) (name v : String)
    (h : setIntSessionVariable cfg cl name v = .ok cl') : cl'.vars.ackedVariables = cl.vars.ackedVariables := by
  unfold setIntSessionVariable at h
  split at h
  · cases h; exact delete_acked _ _
  · split at h
    · cases h
    · exact liftSet_acked _ _ _ _ _ h

theorem setString_acked (cfg : Cfg) (cl cl' : Client) (name : String) (v : Val)
    (h : setStringSessionVariable cfg cl name v = .ok cl') : cl'.vars.ackedVariables = cl.vars.ackedVariables := by
  unfold setStringSessionVariable at h
  split at h
  · split at h
    · cases h; exact delete_acked _ _
    · exact liftSet_acked _ _ _ _ _ h
  · exact liftSet_acked _ _ _ _ _ h

theorem setUser_acked (cfg : Cfg) (cl cl' : Client) (name v : String)
    (h : setUserSessionVariable cfg cl name v = .ok cl') : cl'.vars.ackedVariables = cl.vars.ackedVariables := by
  unfold setUserSessionVariable at h
  split at h
  · rename_i sv hs
    cases h
    exact set_acked _ _ _ _ _ hs
  · cases h; rfl
  · cases h

theorem handleSetNames_acked (cfg : Cfg) (cl cl' : Client) (v : Assign)
    (h : handleSetNames cfg cl v = .ok cl') : cl'.vars.ackedVariables = cl.vars.ackedVariables := by
  simp only [handleSetNames] at h
  repeat' split at h
  all_goals first
    | (cases h; done)
    | (cases h; rfl)

theorem handleSetOther_acked (cfg : Cfg) (cl cl' : Client) (name : String) (v : Assign)
    (h : handleSetOther cfg cl name v = .ok cl') : cl'.vars.ackedVariables = cl.vars.ackedVariables := by
  simp only [handleSetOther] at h
  repeat' split at h
  all_goals first
    | (cases h; done)
    | (cases h; rfl)
    | exact setInt_acked _ _ _ _ _ h
    | exact setString_acked _ _ _ _ _ h
    | exact setUser_acked _ _ _ _ _ h

/-- A SET statement of the client changes its variables, never what is on
    record as acknowledged. -/
theorem handleSetVariable_acked (cfg : Cfg) (cl cl' : Client) (v : Assign)
    (h : handleSetVariable cfg cl v = .ok cl') : cl'.vars.ackedVariables = cl.vars.ackedVariables := by
  simp only [handleSetVariable] at h
  split at h
  · cases h
  · cases hk : setCase (lower v.name) <;> rw [hk] at h <;> simp only at h
    all_goals repeat' split at h
    all_goals first
      | (cases h; done)
      | (cases h; rfl)
      | exact setInt_acked _ _ _ _ _ h
      | exact setString_acked _ _ _ _ _ h
      | exact liftSet_acked _ _ _ _ _ h
      | exact handleSetNames_acked _ _ _ _ h
      | exact handleSetOther_acked _ _ _ _ _ h

theorem handleSet_acked (cfg : Cfg) (cl : Client) (vs : List Assign) :
    (handleSet cfg cl vs).1.vars.ackedVariables = cl.vars.ackedVariables := by
  induction vs generalizing cl with
  | nil => rfl
  | cons v vs ih =>
    unfold handleSet
    cases hv : handleSetVariable cfg cl v with
    | ok cl' =>
      simp only
      rw [ih cl', handleSetVariable_acked cfg cl cl' v hv]
    | err k => rfl
    | panic => rfl

@[simp] theorem acknowledge_acked (s : SessionVariables) : s.acknowledge.ackedVariables = s.variables := rfl
@[simp] theorem acknowledge_variables (s : SessionVariables) : s.acknowledge.variables = s.variables := rfl

theorem restore_variables (s : SessionVariables) : s.restoreAcknowledged.variables = s.ackedVariables := by
  unfold SessionVariables.restoreAcknowledged SessionVariables.ackedVariables
  cases s.acked <;> rfl

theorem restore_acked (s : SessionVariables) : s.restoreAcknowledged.ackedVariables = s.ackedVariables := by
  unfold SessionVariables.restoreAcknowledged SessionVariables.ackedVariables
  cases h : s.acked <;> simp [h]

/-- **failed_set (one step).**  When the backend rejects the SET statement that
    prepares a client's statement, the client's variables afterwards are exactly
    those a backend acknowledged last — the variables of the client's last
    statement that executed —, its charset and collation are untouched, and what
    is on record as acknowledged stays. -/
theorem run_rejected_restores (cfg : Cfg) (fresh : Fresh) (s : Sys) (c k : Nat) (f : Fault) (stmt : Option String)
    (e : Option Backend) (h : (step cfg fresh s (.run c k f)).2 = .run (.errSet stmt) e) :
    ∃ cl cl', s.clients[c]? = some cl ∧ (step cfg fresh s (.run c k f)).1.clients[c]? = some cl' ∧
      cl'.vars.variables = cl.vars.ackedVariables ∧ cl'.vars.ackedVariables = cl.vars.ackedVariables ∧
      cl'.charset = cl.charset ∧ cl'.collation = cl.collation := by
  simp only [step] at h ⊢
  split at h
  · rename_i cl sl hcl hsl
    have hcli := init_client cfg.tables sl cl f
    simp only [Out.run.injEq] at h
    rw [h.1] at hcli
    simp only at hcli
    have hlt : c < s.clients.length := by
      rcases List.getElem?_eq_some_iff.mp hcl with ⟨hlt, _⟩; exact hlt
    refine ⟨cl, { cl with vars := cl.vars.restoreAcknowledged }, hcl, ?_, ?_, ?_, ?_, ?_⟩
    · simp only [hcl, hsl]; rw [hcli]; simp [List.getElem?_set_self hlt]
    · exact restore_variables _
    · exact restore_acked _
    · rfl
    · rfl
  · simp at h

/-- What one operation does to the acknowledged variables of a client `c`:
    they change only when a statement of `c` itself executes (then they become
    the variables `c` has at that moment). -/
theorem step_acked (cfg : Cfg) (fresh : Fresh) (s : Sys) (op : Op) (c : Nat) (cl : Client)
    (hcl : s.clients[c]? = some cl)
    (hne : ∀ k f r b, op = .run c k f → (step cfg fresh s op).2 ≠ .run r (some b)) :
    ∃ cl', (step cfg fresh s op).1.clients[c]? = some cl' ∧ cl'.vars.ackedVariables = cl.vars.ackedVariables := by
  have hlt : c < s.clients.length := by
    rcases List.getElem?_eq_some_iff.mp hcl with ⟨hlt, _⟩; exact hlt
  cases op with
  | set c' assigns =>
    simp only [step]
    split
    · exact ⟨cl, hcl, rfl⟩
    · rename_i cl0 hcl0
      by_cases hcc : c' = c
      · subst hcc
        rw [hcl] at hcl0
        cases hcl0
        exact ⟨(handleSet cfg cl assigns).1, by simp [List.getElem?_set_self hlt], handleSet_acked _ _ _⟩
      · refine ⟨cl, ?_, rfl⟩
        simp [List.getElem?_set_ne hcc, hcl]
  | run c' k f =>
    by_cases hcc : c' = c
    · subst hcc
      have hne' := hne k f
      simp only [step] at hne' ⊢
      split
      · rename_i cl0 sl hcl0 hsl
        rw [hcl] at hcl0
        cases hcl0
        simp only [hcl, hsl] at hne'
        have hcli := init_client cfg.tables sl cl f
        refine ⟨(initializeSessionVariables cfg.tables sl cl f).2.1, by simp [List.getElem?_set_self hlt], ?_⟩
        rw [hcli]
        cases hr : (initializeSessionVariables cfg.tables sl cl f).2.2 with
        | ok st =>
          exfalso
          exact hne' (.ok st) (initializeSessionVariables cfg.tables sl cl f).1.be trivial (by simp [hr, InitRes.isOk])
        | errCharset => rfl
        | errSet st => exact restore_acked _
      · exact ⟨cl, hcl, rfl⟩
    · simp only [step]
      split
      · refine ⟨cl, ?_, rfl⟩
        simp [List.getElem?_set_ne hcc, hcl]
      · exact ⟨cl, hcl, rfl⟩
  | sync c' k f =>
    simp only [step]
    split
    · exact ⟨cl, hcl, rfl⟩
    · exact ⟨cl, hcl, rfl⟩

/-- No statement of client `c` executes in the history `ops` from `s`. -/
def NoExec (cfg : Cfg) (fresh : Fresh) (c : Nat) : Sys → List Op → Prop
  | _, [] => True
  | s, op :: ops =>
    (∀ k f r b, op = .run c k f → (step cfg fresh s op).2 ≠ .run r (some b)) ∧
    NoExec cfg fresh c (step cfg fresh s op).1 ops

theorem runOps_acked (cfg : Cfg) (fresh : Fresh) (c : Nat) (ops : List Op) (s : Sys) (cl : Client)
    (hcl : s.clients[c]? = some cl) (hne : NoExec cfg fresh c s ops) :
    ∃ cl', (runOps cfg fresh s ops).1.clients[c]? = some cl' ∧ cl'.vars.ackedVariables = cl.vars.ackedVariables := by
  induction ops generalizing s cl with
  | nil => exact ⟨cl, hcl, rfl⟩
  | cons op ops ih =>
    obtain ⟨h1, h2⟩ := hne
    obtain ⟨cl1, hcl1, ha1⟩ := step_acked cfg fresh s op c cl hcl h1
    obtain ⟨cl2, hcl2, ha2⟩ := ih _ cl1 hcl1 h2
    exact ⟨cl2, by simpa [runOps] using hcl2, by rw [ha2, ha1]⟩

/-- **failed_set.**  Take any history.  A statement of client `c` executes (on
    a backend session `b`, which then carries `c`'s settings: `Matches`); then
    anything happens — SET statements of `c` and of others, statements and
    transaction starts of other clients, failed statements of `c` — except
    that no further statement of `c` executes; then the backend rejects the SET
    statement that prepares a statement of `c` (on any connection).  After
    that the variables on record for `c` are exactly those its last executed
    statement ran with: everything `c` set in between is given up (the
    rejected value is among it), nothing that was acknowledged is lost or
    altered; charset and collation are as `c` last set them.  (The code before
    the repair dropped every user variable and every namespace-allowed
    variable instead: `Pinned.reset_forgets_witness`.) -/
theorem failed_set (cfg : Cfg) (fresh : Fresh) (s₁ : Sys) (hi : Inv cfg.tables s₁)
    (c k k' : Nat) (f f' : Fault) (res : InitRes) (b : Backend) (mid : List Op) (stmt : Option String) (e : Option Backend)
    (hexec : (step cfg fresh s₁ (.run c k f)).2 = .run res (some b))
    (hmid : NoExec cfg fresh c (step cfg fresh s₁ (.run c k f)).1 mid)
    (hrej : (step cfg fresh (runOps cfg fresh (step cfg fresh s₁ (.run c k f)).1 mid).1 (.run c k' f')).2
              = .run (.errSet stmt) e) :
    ∃ cl sl cl₃ cl₄, s₁.clients[c]? = some cl ∧ s₁.slots[k]? = some sl ∧
      Matches cfg.tables sl.conn.coll247 sl.conn.v803 b cl ∧
      (runOps cfg fresh (step cfg fresh s₁ (.run c k f)).1 mid).1.clients[c]? = some cl₃ ∧
      (step cfg fresh (runOps cfg fresh (step cfg fresh s₁ (.run c k f)).1 mid).1 (.run c k' f')).1.clients[c]? = some cl₄ ∧
      cl₄.vars.variables = cl.vars.variables ∧
      cl₄.charset = cl₃.charset ∧ cl₄.collation = cl₃.collation := by
  obtain ⟨cl, sl, h1, h2, hm, _, h3⟩ := run_matches_partial cfg fresh s₁ c k f res b hi hexec
  obtain ⟨cl₃, hcl₃, ha₃⟩ := runOps_acked cfg fresh c mid _ _ h3 hmid
  obtain ⟨cl₃', cl₄, g1, g2, g3, _, g5, g6⟩ := run_rejected_restores cfg fresh _ c k' f' stmt e hrej
  rw [hcl₃] at g1
  cases g1
  refine ⟨cl, sl, cl₃, cl₄, h1, h2, hm, hcl₃, g2, ?_, g5, g6⟩
  rw [g3, ha₃]
  rfl

/-- **failed_set, second half (partial like `no_leak_partial`).**  After a
    statement of client `c` failed because the backend rejected its SET
    statement (on any connection `k`), and after any further history, a
    statement of the same client that executes — on the same or on any other
    connection — again runs with the client's settings of that moment. -/
theorem failed_set_runs_partial (cfg : Cfg) (fresh : Fresh) (hf : FreshOK cfg.tables fresh) (s₀ : Sys) (hi : Inv cfg.tables s₀)
    (pre post : List Op) (c k k' : Nat) (f f' : Fault) (res : InitRes) (b : Backend)
    (h : (step cfg fresh (runOps cfg fresh s₀ (pre ++ .run c k f :: post)).1 (.run c k' f')).2 = .run res (some b)) :
    ∃ cl sl, (runOps cfg fresh s₀ (pre ++ .run c k f :: post)).1.clients[c]? = some cl ∧
      (runOps cfg fresh s₀ (pre ++ .run c k f :: post)).1.slots[k']? = some sl ∧
      Matches cfg.tables sl.conn.coll247 sl.conn.v803 b cl := by
  obtain ⟨cl, sl, h1, h2, h3, _⟩ := run_matches_partial cfg fresh _ c k' f' res b (runOps_inv cfg fresh _ s₀ hf hi) h
  exact ⟨cl, sl, h1, h2, h3⟩

/-! ### the hypotheses are satisfiable: a concrete pool, concrete histories -/

def exTables : Tables :=
  { charsetIds := [("utf8", 33), ("latin1", 8)]
    charsets := [("utf8", "utf8_general_ci"), ("latin1", "latin1_swedish_ci")]
    collations := [(33, "utf8_general_ci"), (8, "latin1_swedish_ci"), (83, "utf8_bin")]
    collationNames := [("utf8_general_ci", 33), ("latin1_swedish_ci", 8), ("utf8_bin", 83)]
    collationNameToCharset := [("utf8_general_ci", "utf8"), ("latin1_swedish_ci", "latin1"), ("utf8_bin", "utf8")] }

def exCfg : Cfg :=
  { tables := exTables, verifyMap := [("sql_select_limit", .integer), ("sql_mode", .sqlMode)],
    defaultCharset := "utf8", defaultCollation := 33, allowed := [("foo_str", "string")] }

/-- A freshly opened connection: the pool's charset, server defaults. -/
def exSlot : Slot :=
  { conn := Conn.new "utf8" 33 true false,
    be := { charset := "utf8", collation := "utf8_general_ci", globals := [("sql_mode", "'STRICT_TRANS_TABLES'")] } }

def exFresh : Fresh := fun _ => exSlot

/-- Two clients (utf8 / latin1) sharing a pool of one connection. -/
def exSys : Sys :=
  { clients := [{ charset := "utf8", collation := 33 }, { charset := "latin1", collation := 8 }], slots := [exSlot] }

theorem exSlot_consistent : Consistent exTables exSlot :=
  { unused := rfl, ackedCharset := rfl, ackedCollation := rfl, ackedVariables := rfl, charset := rfl,
    collation := by decide, vars := fun k => by simp [exSlot, Conn.new, wireVars, sentVars] }

theorem exFresh_ok : FreshOK exCfg.tables exFresh := fun _ => exSlot_consistent

theorem exSys_inv : Inv exCfg.tables exSys := by
  intro sl h
  simp only [exSys, List.mem_singleton] at h
  rw [h]; exact exSlot_consistent

def exBackend (cs coll : String) (vars : AMap String) : Backend :=
  { charset := cs, collation := coll, vars := vars, globals := [("sql_mode", "'STRICT_TRANS_TABLES'")] }

/-- Client 0 sets `sql_select_limit`, runs a statement (the backend gets the
    variable), then client 1 runs on the same connection: the statement sent
    resets the variable, and client 1's statement sees none of client 0's
    settings. -/
def exOps : List Op :=
  [.set 0 [{ name := "sql_select_limit", value := .int 5 }], .run 0 0 .none, .run 1 0 .none]

example : (runOps exCfg exFresh exSys exOps).2 =
    [.set (.ok ()),
     .run (.ok (some "SET NAMES 'utf8' COLLATE 'utf8_general_ci',sql_select_limit = 5"))
       (some (exBackend "utf8" "utf8_general_ci" [("sql_select_limit", "5")])),
     .run (.ok (some "SET NAMES 'latin1' COLLATE 'latin1_swedish_ci',sql_select_limit = DEFAULT"))
       (some (exBackend "latin1" "latin1_swedish_ci" []))] := by decide

/-- `no_leak_partial` applies to that history (its hypotheses hold, its conclusion is about a real execution). -/
example : ∃ c k f cl sl, exOps[2]? = some (.run c k f) ∧
    (runOps exCfg exFresh exSys (exOps.take 2)).1.clients[c]? = some cl ∧
    (runOps exCfg exFresh exSys (exOps.take 2)).1.slots[k]? = some sl ∧
    Matches exCfg.tables sl.conn.coll247 sl.conn.v803 (exBackend "latin1" "latin1_swedish_ci" []) cl :=
  no_leak_partial exCfg exFresh exFresh_ok exOps exSys exSys_inv 2
    (.ok (some "SET NAMES 'latin1' COLLATE 'latin1_swedish_ci',sql_select_limit = DEFAULT")) _ (by decide)

/-- A rejected SET statement: client 0's statement fails, the connection keeps
    describing its backend (nothing of the rejected settings is recorded), the
    client's record goes back to what a backend acknowledged last — nothing —,
    and its next statement runs with that. -/
def exOpsRejected : List Op :=
  [.set 0 [{ name := "sql_select_limit", value := .int 5 }], .run 0 0 .rejOther, .run 0 0 .none]

example : (runOps exCfg exFresh exSys exOpsRejected).2 =
    [.set (.ok ()),
     .run (.errSet (some "SET NAMES 'utf8' COLLATE 'utf8_general_ci',sql_select_limit = 5")) none,
     .run (.ok none) (some (exBackend "utf8" "utf8_general_ci" []))] := by decide

/-- The scenario of the finding that was open (`failed-set-forgets-variables`),
    on the repaired code.  Client 0 sets a user variable and runs a statement
    (a backend acknowledges `@x`); it sets a `sql_mode`; the backend rejects
    the SET statement with error 1231; the client's next statement executes —
    with `@x`, which the client never unset, and without the `sql_mode` that was
    refused. -/
def exOpsRestore : List Op :=
  [.set 0 [{ name := "x", isSystem := false, value := .str "abc" }],
   .run 0 0 .none,
   .set 0 [{ name := "sql_mode", value := .str "ANSI" }],
   .run 0 0 .rejSqlMode,
   .run 0 0 .none]

theorem failed_set_example :
    -- the record before the rejected statement
    ((runOps exCfg exFresh exSys (exOpsRestore.take 3)).1.clients.map (·.vars.variables)) =
      [[("@x", .user "'abc'"), ("sql_mode", .str "'ANSI'")], []] ∧
    -- after it: back to what was acknowledged
    ((runOps exCfg exFresh exSys (exOpsRestore.take 4)).1.clients.map (·.vars.variables)) =
      [[("@x", .user "'abc'")], []] ∧
    -- and the next statement runs with it (no SET statement is needed: the connection still holds it)
    (runOps exCfg exFresh exSys exOpsRestore).2[4]? =
      some (.run (.ok none) (some (exBackend "utf8" "utf8_general_ci" [("@x", "'abc'")]))) := by
  decide

/-- `failed_set` applies to that history: its hypotheses hold of it. -/
example :
    let s₁ := (runOps exCfg exFresh exSys (exOpsRestore.take 1)).1
    let mid : List Op := [.set 0 [{ name := "sql_mode", value := .str "ANSI" }]]
    let s₂ := (step exCfg exFresh s₁ (.run 0 0 .none)).1
    ∃ (cl : Client) (sl : Slot) (cl₃ cl₄ : Client), s₁.clients[0]? = some cl ∧ s₁.slots[0]? = some sl ∧
      Matches exCfg.tables sl.conn.coll247 sl.conn.v803 (exBackend "utf8" "utf8_general_ci" [("@x", "'abc'")]) cl ∧
      (runOps exCfg exFresh s₂ mid).1.clients[0]? = some cl₃ ∧
      (step exCfg exFresh (runOps exCfg exFresh s₂ mid).1 (.run 0 0 .rejSqlMode)).1.clients[0]? = some cl₄ ∧
      cl₄.vars.variables = cl.vars.variables ∧ cl₄.charset = cl₃.charset ∧ cl₄.collation = cl₃.collation :=
  failed_set exCfg exFresh (runOps exCfg exFresh exSys (exOpsRestore.take 1)).1
    (runOps_inv exCfg exFresh _ exSys exFresh_ok exSys_inv) 0 0 0 .none .rejSqlMode
    (.ok (some "SET NAMES 'utf8' COLLATE 'utf8_general_ci',@x = 'abc'"))
    (exBackend "utf8" "utf8_general_ci" [("@x", "'abc'")])
    [.set 0 [{ name := "sql_mode", value := .str "ANSI" }]]
    (some "SET NAMES 'utf8' COLLATE 'utf8_general_ci',@x = 'abc',sql_mode = 'ANSI'") none
    (by decide) ⟨fun k f r b h => (by cases h), trivial⟩ (by decide)

/-- A MySQL 8.0.30 backend behind a proxy that advertises 5.x: client 0 says
    `tx_read_only`, client 1 `transaction_read_only`; both are one variable on
    that backend.  Client 1's statement runs with its own value, client 0's
    later statement with its own again (no reset of the other spelling wipes
    the assignment, nothing is left behind). -/
def exSlot803 : Slot :=
  { conn := Conn.new "utf8" 33 false true, be := { charset := "utf8", collation := "utf8_general_ci" } }

def exSys803 : Sys :=
  { clients := [{ charset := "utf8", collation := 33 }, { charset := "utf8", collation := 33 }], slots := [exSlot803] }

theorem exSlot803_consistent : Consistent exTables exSlot803 :=
  { unused := rfl, ackedCharset := rfl, ackedCollation := rfl, ackedVariables := rfl, charset := rfl,
    collation := by decide, vars := fun k => by simp [exSlot803, Conn.new, wireVars, sentVars] }

def exOps803 : List Op :=
  [.set 0 [{ name := "tx_read_only", value := .int 1 }], .run 0 0 .none,
   .set 1 [{ name := "transaction_read_only", value := .int 0 }], .run 1 0 .none, .run 0 0 .none]

example : (runOps exCfg (fun _ => exSlot803) exSys803 exOps803).2 =
    [.set (.ok ()),
     .run (.ok (some "SET NAMES 'utf8' COLLATE 'utf8_general_ci',transaction_read_only = 1"))
       (some { charset := "utf8", collation := "utf8_general_ci", vars := [("transaction_read_only", "1")] }),
     .set (.ok ()),
     .run (.ok (some "SET NAMES 'utf8' COLLATE 'utf8_general_ci',transaction_read_only = 0"))
       (some { charset := "utf8", collation := "utf8_general_ci", vars := [("transaction_read_only", "0")] }),
     .run (.ok (some "SET NAMES 'utf8' COLLATE 'utf8_general_ci',transaction_read_only = 1"))
       (some { charset := "utf8", collation := "utf8_general_ci", vars := [("transaction_read_only", "1")] })] := by decide

/-- One client holding both spellings (a proxy that advertises 5.x keeps them
    apart) on an 8.0.30 backend: one assignment is sent, with the value recorded
    as `transaction_read_only`, in whichever order the two were set. -/
def exOpsBoth (first second : Assign) : List Op := [.set 0 [first], .set 0 [second], .run 0 0 .none]

example :
    (runOps exCfg (fun _ => exSlot803) exSys803
        (exOpsBoth { name := "tx_read_only", value := .int 1 } { name := "transaction_read_only", value := .int 0 })).2[2]? =
      some (.run (.ok (some "SET NAMES 'utf8' COLLATE 'utf8_general_ci',transaction_read_only = 0"))
        (some { charset := "utf8", collation := "utf8_general_ci", vars := [("transaction_read_only", "0")] })) ∧
    (runOps exCfg (fun _ => exSlot803) exSys803
        (exOpsBoth { name := "transaction_read_only", value := .int 0 } { name := "tx_read_only", value := .int 1 })).2[2]? =
      some (.run (.ok (some "SET NAMES 'utf8' COLLATE 'utf8_general_ci',transaction_read_only = 0"))
        (some { charset := "utf8", collation := "utf8_general_ci", vars := [("transaction_read_only", "0")] })) := by
  decide

/-! ### values that are expressions -/

/-- An expression that does not read the session: the proxy records its text,
    the backend evaluates it, and the statement runs with its value — for a user
    variable, for `sql_mode` (with a global variable) and for a string variable
    the namespace allows. -/
def exOpsExpr : List Op :=
  [.set 0 [{ name := "x", isSystem := false, value := .expr (.cat (.str "a") (.str "B")) },
           { name := "sql_mode", value := .expr (.cat (.gvar "sql_mode") (.str ",ANSI")) },
           { name := "foo_str", value := .expr (.cat (.str "A") (.int 7)) }],
   .run 0 0 .none]

theorem constant_expression_example :
    (runOps exCfg exFresh exSys exOpsExpr).1.clients.map (·.vars.variables) =
      [[("@x", .user "CONCAT('a', 'B')"), ("sql_mode", .str "CONCAT(@@GLOBAL.sql_mode, ',ANSI')"),
        ("foo_str", .user "CONCAT('A', 7)")], []] ∧
    (runOps exCfg exFresh exSys exOpsExpr).2[1]? =
      some (.run (.ok (some ("SET NAMES 'utf8' COLLATE 'utf8_general_ci',@x = CONCAT('a', 'B')," ++
          "sql_mode = CONCAT(@@GLOBAL.sql_mode, ',ANSI'),foo_str = CONCAT('A', 7)")))
        (some (exBackend "utf8" "utf8_general_ci"
          [("@x", "'aB'"), ("sql_mode", "'STRICT_TRANS_TABLES,ANSI'"), ("foo_str", "'A7'")]))) ∧
    SessionFreeVars false
      [("@x", .user "CONCAT('a', 'B')"), ("sql_mode", .str "CONCAT(@@GLOBAL.sql_mode, ',ANSI')"),
        ("foo_str", .user "CONCAT('A', 7)")] := by
  refine ⟨by decide, by decide, ?_⟩
  intro k txt h
  rw [get_wireVars_false] at h
  by_cases h1 : k = "foo_str"
  · subst h1; simp [get_cons] at h; subst h; decide
  · by_cases h2 : k = "sql_mode"
    · subst h2; simp [get_cons] at h; subst h; decide
    · by_cases h3 : k = "@x"
      · subst h3; simp [get_cons] at h; subst h; decide
      · have e1 : ¬ "foo_str" = k := fun e => h1 e.symm
        have e2 : ¬ "sql_mode" = k := fun e => h2 e.symm
        have e3 : ¬ "@x" = k := fun e => h3 e.symm
        simp [get_cons, e1, e2, e3] at h

/-- What the proxy does with an expression where it needs a number, a switch, a
    time zone or a charset name: it refuses the SET statement (nothing is
    recorded, the client is told). -/
def exCfgVerify : Cfg :=
  { exCfg with verifyMap := [("sql_select_limit", .integer), ("time_zone", .timeZone), ("character_set_results", .string)] }

example :
    (handleSet exCfgVerify { charset := "utf8", collation := 33 }
      [{ name := "sql_select_limit", value := .expr (.gvar "sql_select_limit") }]).2 = .err "parse-int" ∧
    (handleSet exCfgVerify { charset := "utf8", collation := 33 }
      [{ name := "time_zone", value := .expr (.gvar "time_zone") }]).2 = .err "tz-format" ∧
    (handleSet exCfgVerify { charset := "utf8", collation := 33 }
      [{ name := "tx_read_only", value := .expr (.add (.int 1) (.int 0)) }]).2 = .err "wrong-value" ∧
    (handleSet exCfgVerify { charset := "utf8", collation := 33 }
      [{ name := "character_set_results", value := .expr (.cat (.str "utf") (.int 8)) }]).2 = .err "type" := by
  decide

/-- **The listed finding `set-expression-reads-session-state`.**  Client 1
    sets `@p` and runs a statement; client 0, which never set `@p`, sets
    `@x = @p` — in a session of its own that is `NULL` — and its statement runs
    on the connection client 1 used: the SET statement assigns `@x` before it
    resets `@p`, and client 0's statement executes with client 1's value in
    `@x`.  The second part: `@n = @n+1` after `@n = 1` is 2 in a session of the
    client's own; on the pooled connection the expression is evaluated again
    whenever the SET statement is sent again — after another client has used
    the connection (and `@n` was reset) it yields `NULL`. -/
def exOpsLeak : List Op :=
  [.set 1 [{ name := "p", isSystem := false, value := .str "secret" }], .run 1 0 .none,
   .set 0 [{ name := "x", isSystem := false, value := .expr (.uvar "p") }], .run 0 0 .none]

def exOpsDrift : List Op :=
  [.set 0 [{ name := "n", isSystem := false, value := .int 1 }], .run 0 0 .none,
   .set 0 [{ name := "n", isSystem := false, value := .expr (.add (.uvar "n") (.int 1)) }], .run 0 0 .none,
   .run 1 0 .none, .run 0 0 .none]

theorem session_expression_leak_witness :
    (runOps exCfg exFresh exSys exOpsLeak).2[3]? =
      some (.run (.ok (some "SET NAMES 'utf8' COLLATE 'utf8_general_ci',@x = @p,@p = NULL"))
        (some (exBackend "utf8" "utf8_general_ci" [("@x", "'secret'")]))) ∧
    -- in a session of client 0 alone `@p` is not set: `@x = @p` leaves `@x` unset
    assigned [] "@x" "@p" = none ∧
    (runOps exCfg exFresh exSys exOpsDrift).2[3]? =
      some (.run (.ok (some "SET NAMES 'utf8' COLLATE 'utf8_general_ci',@n = @n+1"))
        (some (exBackend "utf8" "utf8_general_ci" [("@n", "2")]))) ∧
    (runOps exCfg exFresh exSys exOpsDrift).2[5]? =
      some (.run (.ok (some "SET NAMES 'utf8' COLLATE 'utf8_general_ci',@n = @n+1"))
        (some (exBackend "utf8" "utf8_general_ci" []))) := by
  decide

/-! ### the repaired defects: the code as it was, for the record

`WriteSetStatement`, `InitializeSessionVariables`, `SessionVariables.Reset` and
the string case of `handleSetVariable` as they were before the `fix:` commits
(no fall-back to the acknowledged settings, resets written under the recorded
name, resets written even for names the statement assigns, both spellings of
`transaction_read_only` written in map order, `Reset` instead of
`RestoreAcknowledged`, an expression recorded as lower-cased text).  The
witnesses show that the property was false of that code, i.e. that each repair
is needed; the inputs are kept in corpus/C20/regress.case. -/

namespace Pinned

/-- `which`: 0 = pinned tree, 1 = after b5c4ceb, 2 = after 5432cf0, 3 = after
    fa4df86 (the current `writeSetStatement` also sends one assignment only for
    the two spellings of `transaction_read_only`). -/
def writeSetStatement (which : Nat) (t : Tables) (c : Conn) (b : Backend) (f : Fault) : Conn × Backend × WriteRes :=
  match t.collationName c.collation with
  | none => (if which ≥ 1 then restoreAckedSession c else c, b, .invalidCollation)
  | some collName =>
    let unused := c.sv.unused
    let c' := { c with sv := { c.sv with unused := [] } }
    let resetKey := fun (k : String) => if which ≥ 2 then wireKey c.v803 k else k
    let assignedKeys := (wireMap c.v803 c.sv.variables).map (·.1)
    let resets := if which ≥ 3 then unused.filter (fun p => !(assignedKeys.contains (resetKey p.1))) else unused
    let items := Item.names c.charset collName
      :: ((wireMap c.v803 c.sv.variables).map (fun p => Item.assign p.1 p.2)
          ++ resets.map (fun p => Item.assign (resetKey p.1) (defaultText (resetKey p.1))))
    match f with
    | .none =>
      ({ c' with ackedCharset := c'.charset, ackedCollation := c'.collation, ackedVariables := c'.sv },
        b.apply items, .ok "")
    | _ => (if which ≥ 1 then restoreAckedSession c' else c', b, .rejected "" false)

def initializeSessionVariables (which : Nat) (t : Tables) (s : Slot) (cl : Client) (f : Fault) : Slot × InitRes :=
  match setCharset t s.conn cl.charset cl.collation with
  | (_, none) => (s, .errCharset)
  | (c1, some charsetChanged) =>
    let r := setSessionVariables c1 cl.vars
    if charsetChanged || r.2 then
      match writeSetStatement which t r.1 s.be f with
      | (c3, b3, .ok _) => ({ conn := c3, be := b3 }, .ok (some ""))
      | (c3, b3, _) => ({ conn := c3, be := b3 }, .errSet none)
    else ({ conn := r.1, be := s.be }, .ok none)

def limit5 : Client := { charset := "utf8", collation := 33, vars := { variables := [("sql_select_limit", .int 5)] } }
def plain : Client := { charset := "utf8", collation := 33 }
def txA : Client := { charset := "utf8", collation := 33, vars := { variables := [("tx_read_only", .int 1)] } }
def trxB : Client := { charset := "utf8", collation := 33, vars := { variables := [("transaction_read_only", .int 0)] } }

/-- Pinned tree: the backend rejects the SET statement of a client that wants
    `sql_select_limit = 5`; the client's next statement on that connection is
    prepared without any SET statement and executes on a backend that does not
    have the variable. -/
theorem stale_belief_witness :
    let s1 := (initializeSessionVariables 0 exTables exSlot limit5 .rejOther).1
    (initializeSessionVariables 0 exTables s1 limit5 .none).2 = .ok none ∧
    (initializeSessionVariables 0 exTables s1 limit5 .none).1.be.vars = [] ∧
    expectedVar false [] limit5.vars.variables "sql_select_limit" = some "5" := by decide

/-- After the first repair only: on an 8.0.30 backend client A's
    `tx_read_only = 1` (sent as `transaction_read_only`) is "reset" as
    `tx_read_only = DEFAULT`, so the next client, which set nothing, executes with
    `transaction_read_only = 1`. -/
theorem rename_leak_witness :
    let s1 := (initializeSessionVariables 1 exTables exSlot803 txA .none).1
    (initializeSessionVariables 1 exTables s1 plain .none).2 = .ok (some "") ∧
    (initializeSessionVariables 1 exTables s1 plain .none).1.be.vars = [("transaction_read_only", "1")] := by decide

/-- After the first two repairs only: client B's `transaction_read_only = 0`
    is assigned and then wiped by the reset of client A's `tx_read_only` in the
    same statement. -/
theorem alias_wipe_witness :
    let s1 := (initializeSessionVariables 2 exTables exSlot803 txA .none).1
    (initializeSessionVariables 2 exTables s1 trxB .none).2 = .ok (some "") ∧
    (initializeSessionVariables 2 exTables s1 trxB .none).1.be.vars = [] ∧
    expectedVar true [] trxB.vars.variables "transaction_read_only" = some "0" := by decide

/-- After the first three repairs only: a client that holds both spellings (the
    lists stand for the two orders in which the Go map can be walked) ends up
    with `transaction_read_only = 0` or `= 1` on an 8.0.30 backend depending on
    that order; the current code sends the value recorded under the backend's
    own name in both. -/
def bothAB : Client :=
  { charset := "utf8", collation := 33, vars := { variables := [("tx_read_only", .int 1), ("transaction_read_only", .int 0)] } }
def bothBA : Client :=
  { charset := "utf8", collation := 33, vars := { variables := [("transaction_read_only", .int 0), ("tx_read_only", .int 1)] } }

theorem alias_order_witness :
    (∀ k, AMap.get bothAB.vars.variables k = AMap.get bothBA.vars.variables k) ∧
    (initializeSessionVariables 3 exTables exSlot803 bothAB .none).1.be.vars = [("transaction_read_only", "0")] ∧
    (initializeSessionVariables 3 exTables exSlot803 bothBA .none).1.be.vars = [("transaction_read_only", "1")] ∧
    (SessVars.initializeSessionVariables exTables exSlot803 bothAB .none).1.be.vars = [("transaction_read_only", "0")] ∧
    (SessVars.initializeSessionVariables exTables exSlot803 bothBA .none).1.be.vars = [("transaction_read_only", "0")] := by
  refine ⟨?_, by decide, by decide, by decide, by decide⟩
  intro k
  simp only [bothAB, bothBA, get_cons, get_nil]
  by_cases h1 : "tx_read_only" = k <;> by_cases h2 : "transaction_read_only" = k <;> simp [h1, h2]
  subst h1
  exact absurd h2 (by decide)

/-- The current code on the same three inputs. -/
example :
    ((SessVars.initializeSessionVariables exTables
        (SessVars.initializeSessionVariables exTables exSlot limit5 .rejOther).1 limit5 .none).1.be.vars
      = [("sql_select_limit", "5")]) ∧
    ((SessVars.initializeSessionVariables exTables
        (SessVars.initializeSessionVariables exTables exSlot803 txA .none).1 plain .none).1.be.vars = []) ∧
    ((SessVars.initializeSessionVariables exTables
        (SessVars.initializeSessionVariables exTables exSlot803 txA .none).1 trxB .none).1.be.vars
      = [("transaction_read_only", "0")]) := by decide

/-- `Reset(err)` as it was: forget every variable without a verify function,
    and `sql_mode` when the error is "wrong value for variable 'sql_mode'". -/
def reset (vm : VerifyMap) (s : SessionVariables) (sqlModeErr : Bool) : SessionVariables :=
  let s1 := { s with variables := s.variables.filter (fun p => AMap.has vm p.1) }
  if sqlModeErr && AMap.has s1.variables "sql_mode" && AMap.has vm "sql_mode" then
    { s1 with variables := AMap.del s1.variables (formatVariableName "sql_mode") }
  else s1

/-- The finding that was listed as `failed-set-forgets-variables`: the record
    of the client of `failed_set_example` just before the rejected statement —
    `@x` had been acknowledged by a backend, `sql_mode` had not —; `Reset`
    after error 1231 forgot both, `RestoreAcknowledged` gives up `sql_mode` only. -/
theorem reset_forgets_witness :
    let sv := (runOps exCfg exFresh exSys (exOpsRestore.take 3)).1.clients.map (·.vars)
    sv.map (·.variables) = [[("@x", .user "'abc'"), ("sql_mode", .str "'ANSI'")], []] ∧
    sv.map (fun s => (reset exCfg.verifyMap s true).variables) = [[], []] ∧
    sv.map (fun s => s.restoreAcknowledged.variables) = [[("@x", .user "'abc'")], []] := by
  decide

/-- How far that defect reached: `Reset` never added or changed a variable, and
    a variable that has a verify function (other than `sql_mode` after error
    1231) survived it. -/
theorem reset_only_forgets (vm : VerifyMap) (s : SessionVariables) (e : Bool) (k : String) (v : Val)
    (h : AMap.get (reset vm s e).variables k = some v) : AMap.get s.variables k = some v := by
  have hf := get_filter_key s.variables (fun x => AMap.has vm x) k
  simp only [reset] at h
  by_cases hc : (e && AMap.has (List.filter (fun p => AMap.has vm p.1) s.variables) "sql_mode" && AMap.has vm "sql_mode") = true
  · rw [if_pos hc] at h
    simp only [get_del] at h
    by_cases hk : k = formatVariableName "sql_mode"
    · simp [hk] at h
    · simp only [hk, ↓reduceIte] at h
      rw [hf] at h
      by_cases hv : AMap.has vm k = true <;> simp_all
  · rw [if_neg hc] at h
    simp only at h
    rw [hf] at h
    by_cases hv : AMap.has vm k = true <;> simp_all

theorem reset_keeps_verified (vm : VerifyMap) (s : SessionVariables) (e : Bool) (k : String)
    (hk : AMap.has vm k = true) (hne : k ≠ "sql_mode") :
    AMap.get (reset vm s e).variables k = AMap.get s.variables k := by
  have hf := get_filter_key s.variables (fun x => AMap.has vm x) k
  have hfmt : formatVariableName "sql_mode" = "sql_mode" := by decide
  simp only [reset]
  by_cases hc : (e && AMap.has (List.filter (fun p => AMap.has vm p.1) s.variables) "sql_mode" && AMap.has vm "sql_mode") = true
  · rw [if_pos hc]
    simp only [get_del, hfmt, hne, ↓reduceIte]
    rw [hf]; simp [hk]
  · rw [if_neg hc]
    simp only
    rw [hf]; simp [hk]

/-- Before the repair of the string variables: `SET foo_str = CONCAT('A', 7)`
    was recorded as the string `concat(a, 7)` (`getVariableExprResult`); the
    backend was sent `foo_str = 'concat(a, 7)'` and stored that text, not the
    value `'A7'` the current code makes it compute (`constant_expression_example`). -/
theorem string_expression_text_witness :
    varResult (.expr (.cat (.str "A") (.int 7))) = "concat(a, 7)" ∧
    (SessVars.initializeSessionVariables exTables exSlot
      { charset := "utf8", collation := 33, vars := { variables := [("foo_str", .str "concat(a, 7)")] } } .none).1.be.vars
      = [("foo_str", "'concat(a, 7)'")] ∧
    assigned [] "foo_str" "CONCAT('A', 7)" = some "'A7'" := by decide

end Pinned

end GaeaVerif.C20
