import GaeaVerif.Model.SessionVars
/-
  C20 — Session settings never leak between clients sharing pooled connections.
  Theorems about `Model/SessionVars.lean` (the tie to the Go code is the
  correspondence check `gvh run C20`).
-/
set_option linter.unusedSimpArgs false
set_option linter.unusedVariables false

namespace GaeaVerif.C20
open GaeaVerif GaeaVerif.SessVars

/-! ### association lists -/

section amap
variable {β : Type}

@[simp] theorem get_nil (k : String) : AMap.get ([] : AMap β) k = none := rfl

theorem get_cons (k' : String) (v : β) (m : AMap β) (k : String) :
    AMap.get ((k', v) :: m) k = (AMap.get m k).or (if k' = k then some v else none) := rfl

theorem get_append (a b : AMap β) (k : String) :
    AMap.get (a ++ b) k = (AMap.get b k).or (AMap.get a k) := by
  induction a with
  | nil => simp
  | cons p a ih =>
    obtain ⟨k', v⟩ := p
    simp only [List.cons_append, get_cons, ih, Option.or_assoc]

theorem get_filter_key (m : AMap β) (f : String → Bool) (k : String) :
    AMap.get (m.filter (fun p => f p.1)) k = if f k then AMap.get m k else none := by
  induction m with
  | nil => simp
  | cons p m ih =>
    obtain ⟨k', v⟩ := p
    by_cases hf : f k' = true <;> by_cases hk : f k = true
    · simp [List.filter_cons, hf, hk, get_cons, ih]
    · have : k' ≠ k := by intro e; subst e; exact hk hf
      simp [List.filter_cons, hf, hk, get_cons, ih, this]
    · have : k' ≠ k := by intro e; subst e; exact hf hk
      simp [List.filter_cons, hf, hk, get_cons, ih, this]
    · simp [List.filter_cons, hf, hk, ih]

theorem get_del (m : AMap β) (k k' : String) :
    AMap.get (AMap.del m k) k' = if k' = k then none else AMap.get m k' := by
  have := get_filter_key m (fun x => !(x == k)) k'
  by_cases h : k' = k <;> simpa [AMap.del, h] using this

theorem get_put (m : AMap β) (k k' : String) (v : β) :
    AMap.get (AMap.put m k v) k' = if k' = k then some v else AMap.get m k' := by
  by_cases h : k' = k
  · subst h; simp [AMap.put, get_append, get_cons]
  · have h' : k ≠ k' := fun e => h e.symm
    simp [AMap.put, get_append, get_cons, h, h', get_del]

theorem get_eq_none_iff (m : AMap β) (k : String) : AMap.get m k = none ↔ k ∉ AMap.keys m := by
  induction m with
  | nil => simp [AMap.keys]
  | cons p m ih =>
    obtain ⟨k', v⟩ := p
    simp only [AMap.keys, List.map_cons, List.mem_cons, not_or, get_cons] at *
    by_cases hk : k' = k
    · simp [hk]
    · have : ¬ k = k' := fun e => hk e.symm
      simp [hk, this, ih]

theorem has_iff (m : AMap β) (k : String) : AMap.has m k = true ↔ k ∈ AMap.keys m := by
  have := get_eq_none_iff m k
  unfold AMap.has
  cases h : AMap.get m k <;> simp_all

theorem get_foldl_put (l u : AMap β) (k : String) :
    AMap.get (l.foldl (fun m p => AMap.put m p.1 p.2) u) k = (AMap.get l k).or (AMap.get u k) := by
  induction l generalizing u with
  | nil => simp
  | cons p l ih =>
    obtain ⟨k', v⟩ := p
    simp only [List.foldl_cons, ih, get_put, get_cons, Option.or_assoc]
    by_cases h : k = k'
    · subst h; simp
    · have h' : ¬ k' = k := fun e => h e.symm
      simp [h, h']

end amap

/-! ### `SetEqualsWith` -/

theorem setEqualsStep_get (acc : AMap Val × Bool) (p : String × Val) (k : String) :
    AMap.get (SessionVariables.setEqualsStep acc p).1 k = if k = p.1 then some p.2 else AMap.get acc.1 k := by
  unfold SessionVariables.setEqualsStep
  split
  · rename_i v0 hv
    split
    · simp [get_put]
    · rename_i hne
      have : v0 = p.2 := by simpa using hne
      by_cases h : k = p.1
      · subst h; simp [hv, this]
      · simp [h]
  · simp [get_put]

theorem setEqualsStep_false (acc : AMap Val × Bool) (p : String × Val)
    (h : (SessionVariables.setEqualsStep acc p).2 = false) :
    acc.2 = false ∧ SessionVariables.setEqualsStep acc p = acc ∧ AMap.get acc.1 p.1 = some p.2 := by
  unfold SessionVariables.setEqualsStep at h ⊢
  split at h
  · rename_i v0 hv
    split at h
    · simp at h
    · rename_i hne
      have : v0 = p.2 := by simpa using hne
      simp [hv, hne, h, this]
  · simp at h

theorem loop1_get (l : AMap Val) (acc : AMap Val × Bool) (k : String) :
    AMap.get (l.foldl SessionVariables.setEqualsStep acc).1 k = (AMap.get l k).or (AMap.get acc.1 k) := by
  induction l generalizing acc with
  | nil => simp
  | cons p l ih =>
    obtain ⟨k', v⟩ := p
    simp only [List.foldl_cons, ih, setEqualsStep_get, get_cons, Option.or_assoc]
    by_cases h : k = k'
    · subst h; simp
    · have h' : ¬ k' = k := fun e => h e.symm
      simp [h, h']

theorem loop1_false (l : AMap Val) (acc : AMap Val × Bool)
    (h : (l.foldl SessionVariables.setEqualsStep acc).2 = false) :
    acc.2 = false ∧ l.foldl SessionVariables.setEqualsStep acc = acc ∧ ∀ k, (AMap.get l k).or (AMap.get acc.1 k) = AMap.get acc.1 k := by
  induction l generalizing acc with
  | nil => simpa using h
  | cons p l ih =>
    simp only [List.foldl_cons] at h ⊢
    obtain ⟨h1, h2, h3⟩ := ih _ h
    obtain ⟨g1, g2, g3⟩ := setEqualsStep_false acc p h1
    rw [g2] at h2 h3
    refine ⟨g1, by rw [g2]; exact h2, ?_⟩
    intro k
    obtain ⟨k', v⟩ := p
    have := h3 k
    simp only [get_cons, Option.or_assoc]
    by_cases hk : k' = k
    · subst hk
      simp only [↓reduceIte]
      simp at g3
      cases hl : AMap.get l k' with
      | none => simp [g3]
      | some x => simp [hl] at this; simp [← this]
    · simp [hk, this]

theorem mem_keys_iff {β : Type} (m : AMap β) (k : String) : k ∈ AMap.keys m ↔ AMap.get m k ≠ none := by
  have := get_eq_none_iff m k
  constructor
  · intro h e; exact (this.mp e) h
  · intro h; by_cases hk : k ∈ AMap.keys m
    · exact hk
    · exact absurd (this.mpr hk) h

/-- What `SetEqualsWith` guarantees: afterwards the variables are those of the
    destination; "unchanged" really means nothing was touched; and exactly the
    variables that disappeared were added to `unused`. -/
structure SEWSpec (s dst s' : SessionVariables) (ch : Bool) : Prop where
  vars : ∀ k, AMap.get s'.variables k = AMap.get dst.variables k
  same : ch = false → s' = s
  unused : ∀ k, k ∈ AMap.keys s'.unused ↔
    k ∈ AMap.keys s.unused ∨ (AMap.get s.variables k ≠ none ∧ AMap.get dst.variables k = none)

theorem setEqualsWith_spec (s dst : SessionVariables) :
    SEWSpec s dst (s.setEqualsWith dst).1 (s.setEqualsWith dst).2 := by
  unfold SessionVariables.setEqualsWith
  split
  · -- the connection holds nothing: copy everything
    rename_i h
    have hs : s.variables = [] := by
      have : s.variables.isEmpty = true := by simp_all
      simpa using this
    refine ⟨?_, by simp, ?_⟩
    · intro k; simp [get_foldl_put, hs]
    · intro k; simp [hs]
  · split
    · -- the client holds nothing: everything becomes unused
      rename_i h1 h
      have hd : dst.variables = [] := by
        have : dst.variables.isEmpty = true := by simp_all
        simpa using this
      refine ⟨?_, by simp, ?_⟩
      · intro k; simp [hd]
      · intro k
        simp only [mem_keys_iff, get_foldl_put, hd, get_nil]
        cases h1 : AMap.get s.variables k <;> cases h2 : AMap.get s.unused k <;> simp
    · -- general case
      refine ⟨?_, ?_, ?_⟩
      · intro k
        have := get_filter_key (List.foldl SessionVariables.setEqualsStep (s.variables, false) dst.variables).1
          (fun x => AMap.has dst.variables x) k
        simp only [this, loop1_get]
        unfold AMap.has
        cases hd : AMap.get dst.variables k <;> simp
      · intro hch
        simp only [Bool.or_eq_false_iff, Bool.not_eq_eq_eq_not, Bool.not_false, List.isEmpty_iff] at hch
        obtain ⟨h1, h2⟩ := hch
        obtain ⟨_, g2, _⟩ := loop1_false _ _ h1
        rw [g2] at h2 ⊢
        simp only at h2 ⊢
        have hall : ∀ p ∈ s.variables, AMap.has dst.variables p.1 = true := by
          intro p hp
          have := List.filter_eq_nil_iff.mp h2 p hp
          simpa using this
        have hk : s.variables.filter (fun p => AMap.has dst.variables p.1) = s.variables :=
          List.filter_eq_self.mpr hall
        simp [h2, hk]
      · intro k
        have hg := get_filter_key (List.foldl SessionVariables.setEqualsStep (s.variables, false) dst.variables).1
          (fun x => !(AMap.has dst.variables x)) k
        simp only [mem_keys_iff, get_foldl_put, hg, loop1_get]
        unfold AMap.has
        cases hd : AMap.get dst.variables k <;> cases h1 : AMap.get s.variables k <;>
          cases h2 : AMap.get s.unused k <;> simp

/-! ### the backend applying a SET statement -/

@[simp] theorem wireKey_false (k : String) : wireKey false k = k := by simp [wireKey]

theorem isReset_defaultText (k : String) : isReset k (defaultText k) = true := by
  unfold isReset defaultText
  by_cases h : isUserVarName k = true
  · simp [h]
  · have : lower "DEFAULT" = "default" := by decide
    simp [h, this]

theorem applyItem_assign_get (b : Backend) (k' txt k : String) :
    AMap.get (b.applyItem (.assign k' txt)).vars k =
      if k = k' then (if isReset k' txt then none else some txt) else AMap.get b.vars k := by
  unfold Backend.applyItem
  by_cases h : isReset k' txt = true
  · simp only [h, ↓reduceIte, get_del]
  · simp [h, get_put]

@[simp] theorem applyItem_assign_charset (b : Backend) (k' txt : String) :
    (b.applyItem (.assign k' txt)).charset = b.charset ∧ (b.applyItem (.assign k' txt)).collation = b.collation := by
  unfold Backend.applyItem
  by_cases h : isReset k' txt = true <;> simp [h]

/-- A backend applies a list of assignments left to right: for each name the
    last assignment decides, names not assigned keep their value. -/
theorem apply_assigns (l : AMap String) (b : Backend) :
    ((l.map (fun p => Item.assign p.1 p.2)).foldl Backend.applyItem b).charset = b.charset ∧
    ((l.map (fun p => Item.assign p.1 p.2)).foldl Backend.applyItem b).collation = b.collation ∧
    ∀ k, AMap.get ((l.map (fun p => Item.assign p.1 p.2)).foldl Backend.applyItem b).vars k =
      match AMap.get l k with
      | some txt => if isReset k txt then none else some txt
      | none => AMap.get b.vars k := by
  induction l generalizing b with
  | nil => simp
  | cons p l ih =>
    obtain ⟨k', txt⟩ := p
    simp only [List.map_cons, List.foldl_cons]
    obtain ⟨h1, h2, h3⟩ := ih (b.applyItem (.assign k' txt))
    have hc := applyItem_assign_charset b k' txt
    refine ⟨by rw [h1, hc.1], by rw [h2, hc.2], ?_⟩
    intro k
    rw [h3 k, applyItem_assign_get]
    cases hr : AMap.get l k with
    | some x => simp [get_cons, hr]
    | none =>
      by_cases hk : k' = k
      · subst hk; simp [get_cons, hr]
      · have : ¬ k = k' := fun e => hk e.symm
        simp [get_cons, hr, hk, this]

/-- Looking up a name in a list whose values are determined by the names. -/
theorem get_map_keyfun {α β : Type} (xs : AMap α) (g : String → String) (d : String → β) (k : String) :
    AMap.get (xs.map (fun p => (g p.1, d (g p.1)))) k = if k ∈ xs.map (fun p => g p.1) then some (d k) else none := by
  induction xs with
  | nil => simp
  | cons p xs ih =>
    simp only [List.map_cons, get_cons, ih, List.mem_cons]
    by_cases h1 : k ∈ xs.map (fun p => g p.1)
    · simp [h1]
    · by_cases h2 : g p.1 = k
      · subst h2; simp [h1]
      · have : ¬ k = g p.1 := fun e => h2 e.symm
        simp [h1, h2, this]

theorem keys_wireVars (v : Bool) (m : AMap Val) : AMap.keys (wireVars v m) = m.map (fun p => wireKey v p.1) := by
  simp [AMap.keys, wireVars]

theorem expectedVar_of_none (v : Bool) (vars : AMap Val) (k : String)
    (h : AMap.get (wireVars v vars) k = none) : expectedVar v vars k = none := by simp [expectedVar, h]

/-- The effect of the statement `WriteSetStatement` builds, on a backend that
    held the settings `ov`, when every variable that left the record is listed
    in `unused`: the backend holds exactly the recorded variables afterwards. -/
theorem apply_setItems (c : Conn) (collName : String) (unused : AMap Val)
    (b : Backend) (ov : AMap Val)
    (hb : ∀ k, AMap.get b.vars k = expectedVar c.v803 ov k)
    (h2 : ∀ u, AMap.get ov u ≠ none → AMap.get c.sv.variables u = none → u ∈ AMap.keys unused) :
    (b.apply (setItems c collName unused)).charset = c.charset ∧
    (b.apply (setItems c collName unused)).collation = collName ∧
    ∀ k, AMap.get (b.apply (setItems c collName unused)).vars k = expectedVar c.v803 c.sv.variables k := by
  unfold Backend.apply setItems
  simp only [List.foldl_cons]
  obtain ⟨a1, a2, a3⟩ := apply_assigns (setAssigns c unused) (b.applyItem (Item.names c.charset collName))
  refine ⟨by rw [a1]; rfl, by rw [a2]; rfl, ?_⟩
  intro k
  rw [a3 k]
  have hbv : (b.applyItem (Item.names c.charset collName)).vars = b.vars := rfl
  rw [hbv]
  unfold setAssigns
  simp only [get_append]
  have hres := get_map_keyfun
    (unused.filter (fun p => !((c.sv.variables.map (fun p => wireKey c.v803 p.1)).contains (wireKey c.v803 p.1))))
    (wireKey c.v803) defaultText k
  rw [hres]
  by_cases hk : k ∈ (unused.filter (fun p => !((c.sv.variables.map (fun p => wireKey c.v803 p.1)).contains
      (wireKey c.v803 p.1)))).map (fun p => wireKey c.v803 p.1)
  · -- the statement resets `k`; it does not assign it
    simp only [hk, ↓reduceIte, Option.some_or, isReset_defaultText]
    obtain ⟨p, hp, hpk⟩ := List.mem_map.mp hk
    have hpf := (List.mem_filter.mp hp).2
    have hnot : k ∉ c.sv.variables.map (fun p => wireKey c.v803 p.1) := by
      rw [← hpk]; simpa using hpf
    have : AMap.get (wireVars c.v803 c.sv.variables) k = none := by
      rw [get_eq_none_iff, keys_wireVars]; exact hnot
    rw [expectedVar_of_none _ _ _ this]
  · simp only [hk, ↓reduceIte, Option.none_or]
    cases hg : AMap.get (wireVars c.v803 c.sv.variables) k with
    | some txt => simp [expectedVar, hg]
    | none =>
      simp only
      rw [hb k, expectedVar_of_none _ _ _ hg]
      -- `k` is neither assigned nor reset: the backend did not hold it before
      apply expectedVar_of_none
      rw [get_eq_none_iff, keys_wireVars]
      intro hin
      obtain ⟨q, hq, hqk⟩ := List.mem_map.mp hin
      have hqo : AMap.get ov q.1 ≠ none := by
        rw [← mem_keys_iff]; exact List.mem_map.mpr ⟨q, hq, rfl⟩
      have hnotAssigned : k ∉ c.sv.variables.map (fun p => wireKey c.v803 p.1) := by
        rw [← keys_wireVars, ← get_eq_none_iff]; exact hg
      have hqn : AMap.get c.sv.variables q.1 = none := by
        rw [get_eq_none_iff]
        intro hin2
        obtain ⟨r, hr, hrq⟩ := List.mem_map.mp hin2
        apply hnotAssigned
        rw [← hqk]
        exact List.mem_map.mpr ⟨r, hr, by rw [hrq]⟩
      have hu := h2 q.1 hqo hqn
      obtain ⟨u, huu, huq⟩ := List.mem_map.mp hu
      apply hk
      refine List.mem_map.mpr ⟨u, List.mem_filter.mpr ⟨huu, ?_⟩, ?_⟩
      · have : wireKey c.v803 u.1 = k := by rw [huq, hqk]
        simpa [this] using hnotAssigned
      · rw [huq, hqk]

/-! ### settings and their backend image -/

theorem get_wireVars_false (m : AMap Val) (k : String) :
    AMap.get (wireVars false m) k = (AMap.get m k).map (valueText k) := by
  induction m with
  | nil => simp [wireVars]
  | cons p m ih =>
    obtain ⟨k', v⟩ := p
    have : wireVars false ((k', v) :: m) = (k', valueText k' v) :: wireVars false m := by simp [wireVars]
    rw [this, get_cons, get_cons, ih]
    by_cases hk : k' = k
    · subst hk; cases AMap.get m k' <;> simp
    · cases AMap.get m k <;> simp [hk]

theorem has_cons (k' : String) (v : Val) (m : AMap Val) (k : String) :
    AMap.has ((k', v) :: m) k = (AMap.has m k || decide (k' = k)) := by
  unfold AMap.has
  rw [get_cons]
  by_cases hk : k' = k
  · cases AMap.get m k <;> simp [hk]
  · cases AMap.get m k <;> simp [hk]

/-- With at most one of the two spellings in use, what a ≥ 8.0.3 backend is
    sent depends on the settings only as a map (not on their order). -/
theorem get_wireVars_true (m : AMap Val)
    (h : ¬ (AMap.has m "tx_read_only" = true ∧ AMap.has m "transaction_read_only" = true)) (k : String) :
    AMap.get (wireVars true m) k =
      if k = "transaction_read_only" then
        ((AMap.get m "tx_read_only").or (AMap.get m "transaction_read_only")).map (valueText "transaction_read_only")
      else if k = "tx_read_only" then none
      else (AMap.get m k).map (valueText k) := by
  induction m with
  | nil => simp [wireVars]
  | cons p m ih =>
    obtain ⟨k', v⟩ := p
    have hm : ¬ (AMap.has m "tx_read_only" = true ∧ AMap.has m "transaction_read_only" = true) := by
      intro ⟨h1, h2⟩
      apply h
      simp [has_cons, h1, h2]
    have ih := ih hm
    have hw : wireVars true ((k', v) :: m) = (wireKey true k', valueText (wireKey true k') v) :: wireVars true m := by
      simp [wireVars]
    rw [hw, get_cons, ih]
    simp only [has_cons] at h
    have hne : ("tx_read_only" : String) ≠ "transaction_read_only" := by decide
    by_cases hk1 : k' = "tx_read_only"
    · subst hk1
      have hwk : wireKey true "tx_read_only" = "transaction_read_only" := by decide
      -- the other spelling is not in use
      have hB : AMap.get m "transaction_read_only" = none := by
        cases hb : AMap.get m "transaction_read_only" with
        | none => rfl
        | some x => exfalso; apply h; simp [AMap.has, hb]
      rw [hwk]
      by_cases hk : k = "transaction_read_only"
      · subst hk
        simp only [↓reduceIte, get_cons, hB]
        cases AMap.get m "tx_read_only" <;> simp [hne]
      · have hk' : ¬ "transaction_read_only" = k := fun e => hk e.symm
        simp only [hk, ↓reduceIte, hk', get_cons]
        by_cases hk2 : k = "tx_read_only"
        · simp [hk2]
        · have : ¬ "tx_read_only" = k := fun e => hk2 e.symm
          simp [hk2, this]
    · have hwk : wireKey true k' = k' := by simp [wireKey, hk1]
      rw [hwk]
      by_cases hk2 : k' = "transaction_read_only"
      · subst hk2
        have hA : AMap.get m "tx_read_only" = none := by
          cases ha : AMap.get m "tx_read_only" with
          | none => rfl
          | some x => exfalso; apply h; simp [AMap.has, ha]
        by_cases hk : k = "transaction_read_only"
        · subst hk
          simp only [↓reduceIte, get_cons, hA]
          have : ¬ ("transaction_read_only" : String) = "tx_read_only" := fun e => hne e.symm
          cases AMap.get m "transaction_read_only" <;> simp [this]
        · have hk' : ¬ "transaction_read_only" = k := fun e => hk e.symm
          simp only [hk, ↓reduceIte, hk', get_cons]
          by_cases hk3 : k = "tx_read_only"
          · simp [hk3]
          · simp [hk3]
      · by_cases hk : k = "transaction_read_only"
        · subst hk
          simp only [↓reduceIte, get_cons, hk1, hk2]
          simp
        · simp only [hk, ↓reduceIte, get_cons]
          by_cases hk3 : k = "tx_read_only"
          · subst hk3; simp [hk1]
          · simp only [hk3, ↓reduceIte]
            by_cases hkk : k' = k
            · subst hkk; cases AMap.get m k' <;> simp
            · cases AMap.get m k <;> simp [hkk]

/-- Two alias-free settings that agree as maps have the same backend image. -/
theorem expectedVar_congr (v : Bool) (a b : AMap Val) (hab : ∀ k, AMap.get a k = AMap.get b k)
    (hb : AliasFree v b) (k : String) : expectedVar v a k = expectedVar v b k := by
  unfold expectedVar
  cases v with
  | false => rw [get_wireVars_false, get_wireVars_false, hab]
  | true =>
    have hb' := hb rfl
    have ha' : ¬ (AMap.has a "tx_read_only" = true ∧ AMap.has a "transaction_read_only" = true) := by
      unfold AMap.has at hb' ⊢; rw [hab, hab]; exact hb'
    rw [get_wireVars_true a ha', get_wireVars_true b hb', hab, hab, hab]

/-! ### one connection: belief, backend, `InitializeSessionVariables` -/

/-- `strings.Trim(charset, "\"'`")`. -/
abbrev trimQ (s : String) : String := trimSet ['"', '\'', '`'] s

/-- The proxy's record of a pooled connection describes the backend session
    behind it exactly (and nothing is waiting to be reset). -/
structure Consistent (t : Tables) (s : Slot) : Prop where
  unused : s.conn.sv.unused = []
  ackedCharset : s.conn.ackedCharset = s.conn.charset
  ackedCollation : s.conn.ackedCollation = s.conn.collation
  ackedVariables : s.conn.ackedVariables = s.conn.sv
  charset : s.be.charset = s.conn.charset
  collation : t.collationName s.conn.collation = some s.be.collation
  vars : ∀ k, AMap.get s.be.vars k = expectedVar s.conn.v803 s.conn.sv.variables k

theorem setCharset_cases (t : Tables) (c : Conn) (cs : String) (coll : Nat) :
    setCharset t c cs coll = (c, none) ∨
    (setCharset t c cs coll = (c, some false) ∧ c.charset = trimQ cs ∧
      c.collation = effectiveCollation t c.coll247 (trimQ cs) coll) ∨
    (setCharset t c cs coll =
        ({ c with charset := trimQ cs, collation := effectiveCollation t c.coll247 (trimQ cs) coll }, some true) ∧
      (t.collationName (effectiveCollation t c.coll247 (trimQ cs) coll)).isSome = true) := by
  unfold setCharset
  simp only
  by_cases h1 : (c.charset == trimSet ['"', '\'', '`'] cs &&
      c.collation == effectiveCollation t c.coll247 (trimSet ['"', '\'', '`'] cs) coll) = true
  · simp only [h1, ↓reduceIte]
    simp only [Bool.and_eq_true, beq_iff_eq] at h1
    right; left
    exact ⟨trivial, h1.1, h1.2⟩
  · simp only [h1]
    by_cases h2 : (!(AMap.has t.charsetIds (trimSet ['"', '\'', '`'] cs))) = true
    · simp [h2]
    · by_cases h3 : (t.collationName (effectiveCollation t c.coll247 (trimSet ['"', '\'', '`'] cs) coll)).isNone = true
      · simp [h2, h3]
      · right; right
        simp only [h2, h3]
        refine ⟨by simp, ?_⟩
        cases h : t.collationName (effectiveCollation t c.coll247 (trimSet ['"', '\'', '`'] cs) coll) <;> simp_all

theorem write_spec (t : Tables) (c : Conn) (b : Backend) (f : Fault) (collName : String)
    (hcoll : t.collationName c.collation = some collName) :
    writeSetStatement t c b f =
      match f with
      | .none =>
        ({ c with sv := { c.sv with unused := [] }, ackedCharset := c.charset, ackedCollation := c.collation,
                  ackedVariables := { c.sv with unused := [] } },
          b.apply (setItems c collName c.sv.unused), .ok (setText c collName c.sv.unused))
      | .rejSqlMode => (restoreAckedSession { c with sv := { c.sv with unused := [] } }, b, .rejected (setText c collName c.sv.unused) true)
      | .rejOther => (restoreAckedSession { c with sv := { c.sv with unused := [] } }, b, .rejected (setText c collName c.sv.unused) false) := by
  unfold writeSetStatement
  simp only [hcoll, SessionVariables.getUnusedAndClear]
  cases f <;> rfl

/-- A consistent connection put back to its acknowledged settings is the
    connection as it was before the attempt. -/
theorem restore_eq (t : Tables) (s : Slot) (hc : Consistent t s) (cs : String) (coll : Nat) (sv : SessionVariables) :
    restoreAckedSession { s.conn with charset := cs, collation := coll, sv := sv } = s.conn := by
  obtain ⟨conn, be⟩ := s
  obtain ⟨charset, collation, sv0, ac, acl, av, c247, v803, closed⟩ := conn
  have h1 := hc.ackedCharset; have h2 := hc.ackedCollation; have h3 := hc.ackedVariables
  simp only at h1 h2 h3
  simp [restoreAckedSession, h1, h2, h3]

/-- The write step of `InitializeSessionVariables` / `SyncSessionVariables`
    on a consistent connection whose record was just moved to the client's
    settings: either the backend takes the statement and then holds exactly
    the client's variables, or it rejects it and the connection is as before. -/
theorem write_after_set (t : Tables) (s : Slot) (hc : Consistent t s) (cl : Client) (cs' : String) (coll' : Nat)
    (collName : String) (hcoll : t.collationName coll' = some collName) (f : Fault) :
    let c2 : Conn := { s.conn with charset := cs', collation := coll', sv := (s.conn.sv.setEqualsWith cl.vars).1 }
    (f = .none →
      ∃ stmt c3 b3, writeSetStatement t c2 s.be f = (c3, b3, .ok stmt) ∧
        Consistent t { conn := c3, be := b3 } ∧ c3.coll247 = s.conn.coll247 ∧ c3.v803 = s.conn.v803 ∧
        c3.closed = s.conn.closed ∧ b3.charset = cs' ∧ b3.collation = collName ∧
        ∀ k, AMap.get b3.vars k = expectedVar s.conn.v803 (s.conn.sv.setEqualsWith cl.vars).1.variables k) ∧
    (f ≠ .none →
      ∃ stmt sm, writeSetStatement t c2 s.be f = (s.conn, s.be, .rejected stmt sm)) := by
  intro c2
  have spec := setEqualsWith_spec s.conn.sv cl.vars
  have hcoll2 : t.collationName c2.collation = some collName := hcoll
  constructor
  · intro hf
    subst hf
    rw [write_spec t c2 s.be .none collName hcoll2]
    have happ := apply_setItems c2 collName c2.sv.unused s.be s.conn.sv.variables hc.vars
      (by
        intro k ho hn
        apply (spec.unused k).mpr
        right
        refine ⟨ho, ?_⟩
        rw [← spec.vars k]; exact hn)
    refine ⟨_, _, _, rfl, ?_, rfl, rfl, rfl, happ.1, happ.2.1, happ.2.2⟩
    exact {
      unused := rfl
      ackedCharset := rfl
      ackedCollation := rfl
      ackedVariables := rfl
      charset := happ.1
      collation := by show t.collationName coll' = _; rw [hcoll, happ.2.1]
      vars := happ.2.2 }
  · intro hf
    rw [write_spec t c2 s.be f collName hcoll2]
    have hr := restore_eq t s hc cs' coll' { (s.conn.sv.setEqualsWith cl.vars).1 with unused := [] }
    cases f with
    | none => exact absurd rfl hf
    | rejSqlMode => exact ⟨_, true, by simp only; rw [show ({ c2 with sv := { c2.sv with unused := [] } } : Conn) = { s.conn with charset := cs', collation := coll', sv := { (s.conn.sv.setEqualsWith cl.vars).1 with unused := [] } } from rfl, hr]⟩
    | rejOther => exact ⟨_, false, by simp only; rw [show ({ c2 with sv := { c2.sv with unused := [] } } : Conn) = { s.conn with charset := cs', collation := coll', sv := { (s.conn.sv.setEqualsWith cl.vars).1 with unused := [] } } from rfl, hr]⟩

theorem conn_eta (c : Conn) : ({ c with sv := c.sv } : Conn) = c := by cases c; rfl

/-- **sync_correct / belief_inv for one connection.**  On a connection whose
    record describes its backend session, `InitializeSessionVariables` — for
    any client, whatever the backend does with the SET statement — leaves a
    connection whose record again describes its backend session; and when it
    succeeds, the client's record is untouched and the backend session carries
    exactly the client's settings (provided the client does not ask a ≥ 8.0.3
    backend for both spellings of `transaction_read_only`). -/
theorem init_spec (t : Tables) (vm : VerifyMap) (s : Slot) (cl : Client) (f : Fault) (hc : Consistent t s) :
    Consistent t (initializeSessionVariables t vm s cl f).1 ∧
    (initializeSessionVariables t vm s cl f).1.conn.coll247 = s.conn.coll247 ∧
    (initializeSessionVariables t vm s cl f).1.conn.v803 = s.conn.v803 ∧
    (initializeSessionVariables t vm s cl f).1.conn.closed = s.conn.closed ∧
    ((initializeSessionVariables t vm s cl f).2.2.isOk = true →
      (initializeSessionVariables t vm s cl f).2.1 = cl ∧
      (AliasFree s.conn.v803 cl.vars.variables →
        Matches t s.conn.coll247 s.conn.v803 (initializeSessionVariables t vm s cl f).1.be cl)) := by
  have spec := setEqualsWith_spec s.conn.sv cl.vars
  rcases setCharset_cases t s.conn cl.charset cl.collation with h | ⟨h, hcs, hcl⟩ | ⟨h, hvalid⟩
  · -- SetCharset fails: nothing was touched
    simp only [initializeSessionVariables, h]
    refine ⟨hc, ?_, ?_, ?_, ?_⟩ <;> simp [InitRes.isOk]
  · -- charset and collation already as requested
    simp only [initializeSessionVariables, h, setSessionVariables, Bool.false_or]
    by_cases hch : (s.conn.sv.setEqualsWith cl.vars).2 = true
    · simp only [hch, ↓reduceIte]
      have hw := write_after_set t s hc cl s.conn.charset s.conn.collation s.be.collation hc.collation f
      simp only at hw
      by_cases hf : f = .none
      · obtain ⟨stmt, c3, b3, hwr, hcons, h247, h803, hcl3, hbc, hbl, hbv⟩ := hw.1 hf
        rw [hwr]
        refine ⟨hcons, h247, h803, hcl3, fun _ => ⟨rfl, fun haf => ⟨?_, ?_, ?_⟩⟩⟩
        · show b3.charset = _; rw [hbc, hcs]
        · show t.collationName _ = some b3.collation; rw [hbl, ← hcl]; exact hc.collation
        · intro k
          show AMap.get b3.vars k = _
          rw [hbv k]; exact expectedVar_congr _ _ _ spec.vars haf k
      · obtain ⟨stmt, sm, hwr⟩ := hw.2 hf
        rw [hwr]
        refine ⟨hc, ?_, ?_, ?_, ?_⟩ <;> simp [InitRes.isOk]
    · have hch' : (s.conn.sv.setEqualsWith cl.vars).2 = false := by simpa using hch
      simp only [hch', Bool.false_eq_true, ↓reduceIte]
      have hsame := spec.same hch'
      rw [hsame]
      refine ⟨hc, trivial, trivial, trivial, fun _ => ⟨trivial, fun haf => ⟨?_, ?_, ?_⟩⟩⟩
      · show s.be.charset = _; rw [hc.charset, hcs]
      · show t.collationName _ = some s.be.collation; rw [← hcl]; exact hc.collation
      · intro k
        show AMap.get s.be.vars k = _
        rw [hc.vars k]
        have hv := spec.vars
        rw [hsame] at hv
        exact expectedVar_congr _ _ _ hv haf k
      -- (the record was not touched: `hsame`)
  · -- charset or collation changes: a statement is always sent
    simp only [initializeSessionVariables, h, setSessionVariables, Bool.true_or, ↓reduceIte]
    cases hn : t.collationName (effectiveCollation t s.conn.coll247 (trimQ cl.charset) cl.collation) with
    | none => simp [hn] at hvalid
    | some collName =>
      have hw := write_after_set t s hc cl (trimQ cl.charset)
        (effectiveCollation t s.conn.coll247 (trimQ cl.charset) cl.collation) collName hn f
      simp only at hw
      by_cases hf : f = .none
      · obtain ⟨stmt, c3, b3, hwr, hcons, h247, h803, hcl3, hbc, hbl, hbv⟩ := hw.1 hf
        rw [hwr]
        refine ⟨hcons, h247, h803, hcl3, fun _ => ⟨rfl, fun haf => ⟨?_, ?_, ?_⟩⟩⟩
        · show b3.charset = _; rw [hbc]
        · show t.collationName _ = some b3.collation; rw [hbl]; exact hn
        · intro k
          show AMap.get b3.vars k = _
          rw [hbv k]; exact expectedVar_congr _ _ _ spec.vars haf k
      · obtain ⟨stmt, sm, hwr⟩ := hw.2 hf
        rw [hwr]
        refine ⟨hc, ?_, ?_, ?_, ?_⟩ <;> simp [InitRes.isOk]

/-- `SyncSessionVariables` at the start of a transaction: the connection stays
    consistent, or it has been closed (and will be dropped by the pool). -/
theorem sync_spec (t : Tables) (s : Slot) (cl : Client) (f : Fault) (hc : Consistent t s) :
    (syncSessionVariables t s cl f).1.conn.closed = true ∨ Consistent t (syncSessionVariables t s cl f).1 := by
  have spec := setEqualsWith_spec s.conn.sv cl.vars
  simp only [syncSessionVariables, setSessionVariables]
  by_cases hch : (s.conn.sv.setEqualsWith cl.vars).2 = true
  · simp only [hch, ↓reduceIte]
    have hw := write_after_set t s hc cl s.conn.charset s.conn.collation s.be.collation hc.collation f
    simp only at hw
    by_cases hf : f = .none
    · obtain ⟨stmt, c3, b3, hwr, hcons, _⟩ := hw.1 hf
      rw [hwr]; right; exact hcons
    · obtain ⟨stmt, sm, hwr⟩ := hw.2 hf
      rw [hwr]; left; rfl
  · have hch' : (s.conn.sv.setEqualsWith cl.vars).2 = false := by simpa using hch
    simp only [hch', Bool.false_eq_true, ↓reduceIte]
    rw [spec.same hch']
    right; exact hc

/-! ### the system: all histories -/

/-- Every pooled connection's record describes its backend session. -/
def Inv (t : Tables) (s : Sys) : Prop := ∀ sl ∈ s.slots, Consistent t sl

/-- The connections the pool opens are consistent: fresh record, server defaults. -/
def FreshOK (t : Tables) (fresh : Fresh) : Prop := ∀ k, Consistent t (fresh k)

theorem recycle_consistent (t : Tables) (fresh : Slot) (s : Slot) (hf : Consistent t fresh)
    (h : s.conn.closed = true ∨ Consistent t s) : Consistent t (recycle fresh s) := by
  unfold recycle
  by_cases hc : s.conn.closed = true
  · simp [hc, hf]
  · simp only [hc]
    rcases h with h | h
    · exact absurd h hc
    · exact h

theorem inv_set_slot (t : Tables) (s : Sys) (k : Nat) (sl : Slot) (cls : List Client) (hi : Inv t s)
    (h : Consistent t sl) : Inv t { clients := cls, slots := s.slots.set k sl } := by
  intro x hx
  rcases List.mem_or_eq_of_mem_set hx with h1 | h1
  · exact hi x h1
  · rw [h1]; exact h

/-- **belief_inv (one step).**  Whatever operation comes next — a SET by any
    client, a statement or a transaction start by any client on any connection,
    with the backend accepting or rejecting the SET statement — every pooled
    connection's record still describes its backend session afterwards. -/
theorem step_inv (cfg : Cfg) (fresh : Fresh) (s : Sys) (op : Op) (hf : FreshOK cfg.tables fresh)
    (hi : Inv cfg.tables s) : Inv cfg.tables (step cfg fresh s op).1 := by
  cases op with
  | set c assigns =>
    simp only [step]
    split
    · exact hi
    · exact hi
  | run c k f =>
    simp only [step]
    split
    · rename_i cl sl hcl hsl
      have hmem : sl ∈ s.slots := List.mem_of_getElem? hsl
      have hs := init_spec cfg.tables cfg.verifyMap sl cl f (hi sl hmem)
      exact inv_set_slot _ s k _ _ hi (recycle_consistent _ _ _ (hf k) (Or.inr hs.1))
    · exact hi
  | sync c k f =>
    simp only [step]
    split
    · rename_i cl sl hcl hsl
      have hmem : sl ∈ s.slots := List.mem_of_getElem? hsl
      have hs := sync_spec cfg.tables sl cl f (hi sl hmem)
      exact inv_set_slot _ s k _ _ hi (recycle_consistent _ _ _ (hf k) hs)
    · exact hi

/-- **belief_inv.**  The invariant holds after every history. -/
theorem runOps_inv (cfg : Cfg) (fresh : Fresh) (ops : List Op) (s : Sys) (hf : FreshOK cfg.tables fresh)
    (hi : Inv cfg.tables s) : Inv cfg.tables (runOps cfg fresh s ops).1 := by
  induction ops generalizing s with
  | nil => exact hi
  | cons op ops ih => exact ih _ (step_inv cfg fresh s op hf hi)

/-- **no_leak (one step).**  When a client's statement executes on a pooled
    connection — whoever used that connection before, whatever they had set —
    the backend session carries exactly the executing client's own settings:
    its charset, its collation, each of its session and user variables, and
    the server default for every other variable.  The client's record is not
    altered by a successful preparation.  (`AliasFree`: the client has not
    asked a ≥ 8.0.3 backend for both spellings of `transaction_read_only`.) -/
theorem run_matches (cfg : Cfg) (fresh : Fresh) (s : Sys) (c k : Nat) (f : Fault) (res : InitRes) (b : Backend)
    (hi : Inv cfg.tables s) (h : (step cfg fresh s (.run c k f)).2 = .run res (some b)) :
    ∃ cl sl, s.clients[c]? = some cl ∧ s.slots[k]? = some sl ∧
      (AliasFree sl.conn.v803 cl.vars.variables → Matches cfg.tables sl.conn.coll247 sl.conn.v803 b cl) ∧
      (step cfg fresh s (.run c k f)).1.clients[c]? = some cl := by
  simp only [step] at h ⊢
  split at h
  · rename_i cl sl hcl hsl
    have hmem : sl ∈ s.slots := List.mem_of_getElem? hsl
    have hs := init_spec cfg.tables cfg.verifyMap sl cl f (hi sl hmem)
    simp only [Out.run.injEq] at h
    obtain ⟨_, h2⟩ := h
    by_cases hok : (initializeSessionVariables cfg.tables cfg.verifyMap sl cl f).2.2.isOk = true
    · simp only [hok, ↓reduceIte, Option.some.injEq] at h2
      obtain ⟨hcl', hm⟩ := hs.2.2.2.2 hok
      refine ⟨cl, sl, hcl, hsl, ?_, ?_⟩
      · rw [← h2]; exact hm
      · simp only [hcl, hsl]
        rw [hcl']
        have hlt : c < s.clients.length := by
          rcases List.getElem?_eq_some_iff.mp hcl with ⟨hlt, _⟩; exact hlt
        simp [List.getElem?_set_self hlt]
    · simp [hok] at h2
  · simp at h

theorem step_out_run (cfg : Cfg) (fresh : Fresh) (s : Sys) (op : Op) (res : InitRes) (e : Option Backend)
    (h : (step cfg fresh s op).2 = .run res e) : ∃ c k f, op = .run c k f := by
  cases op with
  | set c a => simp only [step] at h; split at h <;> simp at h
  | run c k f => exact ⟨c, k, f, rfl⟩
  | sync c k f => simp only [step] at h; split at h <;> simp at h

/-- **no_leak.**  In every history (any number of clients and connections, any
    interleaving of SET statements, statement executions and transaction
    starts, the backend rejecting any of the SET statements it is sent), every
    statement that executes does so on a backend session that carries exactly
    the executing client's settings at that moment. -/
theorem no_leak (cfg : Cfg) (fresh : Fresh) (hf : FreshOK cfg.tables fresh) (ops : List Op) (s₀ : Sys)
    (hi : Inv cfg.tables s₀) (i : Nat) (res : InitRes) (b : Backend)
    (h : (runOps cfg fresh s₀ ops).2[i]? = some (.run res (some b))) :
    ∃ c k f cl sl, ops[i]? = some (.run c k f) ∧
      (runOps cfg fresh s₀ (ops.take i)).1.clients[c]? = some cl ∧
      (runOps cfg fresh s₀ (ops.take i)).1.slots[k]? = some sl ∧
      (AliasFree sl.conn.v803 cl.vars.variables → Matches cfg.tables sl.conn.coll247 sl.conn.v803 b cl) := by
  induction ops generalizing s₀ i with
  | nil => simp [runOps] at h
  | cons op ops ih =>
    cases i with
    | zero =>
      simp only [runOps, List.getElem?_cons_zero, Option.some.injEq] at h
      obtain ⟨c, k, f, hop⟩ := step_out_run cfg fresh s₀ op res (some b) h
      subst hop
      obtain ⟨cl, sl, h1, h2, h3, _⟩ := run_matches cfg fresh s₀ c k f res b hi h
      exact ⟨c, k, f, cl, sl, rfl, by simpa [runOps] using h1, by simpa [runOps] using h2, h3⟩
    | succ i =>
      simp only [runOps, List.getElem?_cons_succ] at h
      obtain ⟨c, k, f, cl, sl, g1, g2, g3, g4⟩ := ih _ (step_inv cfg fresh s₀ op hf hi) i h
      exact ⟨c, k, f, cl, sl, by simpa using g1, by simpa [runOps] using g2, by simpa [runOps] using g3, g4⟩

/-- **failed_set.**  After a statement of client `c` failed because the backend
    rejected its SET statement (on any connection `k`), and after any further
    history, a statement of the same client that executes — on the same or on
    any other connection — again runs with exactly the client's settings of
    that moment.  (Instance of `no_leak`; stated for the record.) -/
theorem failed_set (cfg : Cfg) (fresh : Fresh) (hf : FreshOK cfg.tables fresh) (s₀ : Sys) (hi : Inv cfg.tables s₀)
    (pre post : List Op) (c k k' : Nat) (f f' : Fault) (res : InitRes) (b : Backend)
    (h : (step cfg fresh (runOps cfg fresh s₀ (pre ++ .run c k f :: post)).1 (.run c k' f')).2 = .run res (some b)) :
    ∃ cl sl, (runOps cfg fresh s₀ (pre ++ .run c k f :: post)).1.clients[c]? = some cl ∧
      (runOps cfg fresh s₀ (pre ++ .run c k f :: post)).1.slots[k']? = some sl ∧
      (AliasFree sl.conn.v803 cl.vars.variables → Matches cfg.tables sl.conn.coll247 sl.conn.v803 b cl) := by
  obtain ⟨cl, sl, h1, h2, h3, _⟩ := run_matches cfg fresh _ c k' f' res b (runOps_inv cfg fresh _ s₀ hf hi) h
  exact ⟨cl, sl, h1, h2, h3⟩

/-- The preparation cannot fail without a reason: on a consistent connection,
    when `SetCharset` accepts the client's charset and the backend does not
    reject the statement, the client's statement executes. -/
theorem init_succeeds (t : Tables) (vm : VerifyMap) (s : Slot) (cl : Client) (hc : Consistent t s)
    (hcs : (setCharset t s.conn cl.charset cl.collation).2 ≠ none) :
    (initializeSessionVariables t vm s cl .none).2.2.isOk = true := by
  rcases setCharset_cases t s.conn cl.charset cl.collation with h | ⟨h, _, _⟩ | ⟨h, hvalid⟩
  · rw [h] at hcs; exact absurd rfl hcs
  · simp only [initializeSessionVariables, h, setSessionVariables, Bool.false_or]
    by_cases hch : (s.conn.sv.setEqualsWith cl.vars).2 = true
    · simp only [hch, ↓reduceIte]
      have hw := write_after_set t s hc cl s.conn.charset s.conn.collation s.be.collation hc.collation .none
      simp only at hw
      obtain ⟨stmt, c3, b3, hwr, _⟩ := hw.1 trivial
      rw [hwr]; rfl
    · have hch' : (s.conn.sv.setEqualsWith cl.vars).2 = false := by simpa using hch
      simp only [hch', Bool.false_eq_true, ↓reduceIte]; rfl
  · simp only [initializeSessionVariables, h, setSessionVariables, Bool.true_or, ↓reduceIte]
    cases hn : t.collationName (effectiveCollation t s.conn.coll247 (trimQ cl.charset) cl.collation) with
    | none => simp [hn] at hvalid
    | some collName =>
      have hw := write_after_set t s hc cl (trimQ cl.charset)
        (effectiveCollation t s.conn.coll247 (trimQ cl.charset) cl.collation) collName hn .none
      simp only at hw
      obtain ⟨stmt, c3, b3, hwr, _⟩ := hw.1 trivial
      rw [hwr]; rfl

/-! ### the hypotheses are satisfiable: a concrete pool, concrete histories -/

def exTables : Tables :=
  { charsetIds := [("utf8", 33), ("latin1", 8)]
    charsets := [("utf8", "utf8_general_ci"), ("latin1", "latin1_swedish_ci")]
    collations := [(33, "utf8_general_ci"), (8, "latin1_swedish_ci"), (83, "utf8_bin")]
    collationNames := [("utf8_general_ci", 33), ("latin1_swedish_ci", 8), ("utf8_bin", 83)]
    collationNameToCharset := [("utf8_general_ci", "utf8"), ("latin1_swedish_ci", "latin1"), ("utf8_bin", "utf8")] }

def exCfg : Cfg :=
  { tables := exTables, verifyMap := [("sql_select_limit", .integer), ("sql_mode", .sqlMode)],
    defaultCharset := "utf8", defaultCollation := 33 }

/-- A freshly opened connection: the pool's charset, server defaults. -/
def exSlot : Slot :=
  { conn := Conn.new "utf8" 33 true false, be := { charset := "utf8", collation := "utf8_general_ci" } }

def exFresh : Fresh := fun _ => exSlot

/-- Two clients (utf8 / latin1) sharing a pool of one connection. -/
def exSys : Sys :=
  { clients := [{ charset := "utf8", collation := 33 }, { charset := "latin1", collation := 8 }], slots := [exSlot] }

theorem exSlot_consistent : Consistent exTables exSlot :=
  { unused := rfl, ackedCharset := rfl, ackedCollation := rfl, ackedVariables := rfl, charset := rfl,
    collation := by decide, vars := fun k => by simp [exSlot, Conn.new, expectedVar, wireVars] }

theorem exFresh_ok : FreshOK exCfg.tables exFresh := fun _ => exSlot_consistent

theorem exSys_inv : Inv exCfg.tables exSys := by
  intro sl h
  simp only [exSys, List.mem_singleton] at h
  rw [h]; exact exSlot_consistent

/-- Client 0 sets `sql_select_limit`, runs a statement (the backend gets the
    variable), then client 1 runs on the same connection: the statement sent
    resets the variable, and client 1's statement sees none of client 0's
    settings. -/
def exOps : List Op :=
  [.set 0 [{ name := "sql_select_limit", value := .int 5 }], .run 0 0 .none, .run 1 0 .none]

example : (runOps exCfg exFresh exSys exOps).2 =
    [.set (.ok ()),
     .run (.ok (some "SET NAMES 'utf8' COLLATE 'utf8_general_ci',sql_select_limit = 5"))
       (some { charset := "utf8", collation := "utf8_general_ci", vars := [("sql_select_limit", "5")] }),
     .run (.ok (some "SET NAMES 'latin1' COLLATE 'latin1_swedish_ci',sql_select_limit = DEFAULT"))
       (some { charset := "latin1", collation := "latin1_swedish_ci", vars := [] })] := by decide

/-- `no_leak` applies to that history (its hypotheses hold, its conclusion is about a real execution). -/
example : ∃ c k f cl sl, exOps[2]? = some (.run c k f) ∧
    (runOps exCfg exFresh exSys (exOps.take 2)).1.clients[c]? = some cl ∧
    (runOps exCfg exFresh exSys (exOps.take 2)).1.slots[k]? = some sl ∧
    (AliasFree sl.conn.v803 cl.vars.variables →
      Matches exCfg.tables sl.conn.coll247 sl.conn.v803 { charset := "latin1", collation := "latin1_swedish_ci", vars := [] } cl) :=
  no_leak exCfg exFresh exFresh_ok exOps exSys exSys_inv 2
    (.ok (some "SET NAMES 'latin1' COLLATE 'latin1_swedish_ci',sql_select_limit = DEFAULT")) _ (by decide)

/-- A rejected SET statement: client 0's statement fails, the connection keeps
    describing its backend (nothing of the rejected settings is recorded), and
    client 0's next statement on it is prepared again and runs with its settings. -/
def exOpsRejected : List Op :=
  [.set 0 [{ name := "sql_select_limit", value := .int 5 }], .run 0 0 .rejOther, .run 0 0 .none]

example : (runOps exCfg exFresh exSys exOpsRejected).2 =
    [.set (.ok ()),
     .run (.errSet (some "SET NAMES 'utf8' COLLATE 'utf8_general_ci',sql_select_limit = 5")) none,
     .run (.ok (some "SET NAMES 'utf8' COLLATE 'utf8_general_ci',sql_select_limit = 5"))
       (some { charset := "utf8", collation := "utf8_general_ci", vars := [("sql_select_limit", "5")] })] := by decide

/-- A MySQL 8.0.30 backend behind a proxy that advertises 5.x: client 0 says
    `tx_read_only`, client 1 `transaction_read_only`; both are one variable on
    that backend.  Client 1's statement runs with its own value, client 0's
    later statement with its own again (no reset of the other spelling wipes
    the assignment, nothing is left behind). -/
def exSlot803 : Slot :=
  { conn := Conn.new "utf8" 33 false true, be := { charset := "utf8", collation := "utf8_general_ci" } }

def exSys803 : Sys :=
  { clients := [{ charset := "utf8", collation := 33 }, { charset := "utf8", collation := 33 }], slots := [exSlot803] }

theorem exSlot803_consistent : Consistent exTables exSlot803 :=
  { unused := rfl, ackedCharset := rfl, ackedCollation := rfl, ackedVariables := rfl, charset := rfl,
    collation := by decide, vars := fun k => by simp [exSlot803, Conn.new, expectedVar, wireVars] }

def exOps803 : List Op :=
  [.set 0 [{ name := "tx_read_only", value := .int 1 }], .run 0 0 .none,
   .set 1 [{ name := "transaction_read_only", value := .int 0 }], .run 1 0 .none, .run 0 0 .none]

example : (runOps exCfg (fun _ => exSlot803) exSys803 exOps803).2 =
    [.set (.ok ()),
     .run (.ok (some "SET NAMES 'utf8' COLLATE 'utf8_general_ci',transaction_read_only = 1"))
       (some { charset := "utf8", collation := "utf8_general_ci", vars := [("transaction_read_only", "1")] }),
     .set (.ok ()),
     .run (.ok (some "SET NAMES 'utf8' COLLATE 'utf8_general_ci',transaction_read_only = 0"))
       (some { charset := "utf8", collation := "utf8_general_ci", vars := [("transaction_read_only", "0")] }),
     .run (.ok (some "SET NAMES 'utf8' COLLATE 'utf8_general_ci',transaction_read_only = 1"))
       (some { charset := "utf8", collation := "utf8_general_ci", vars := [("transaction_read_only", "1")] })] := by decide

example : AliasFree true [("tx_read_only", Val.int 1)] := by
  intro _; decide

/-! ### the listed finding: `Reset` after a failed SET statement -/

/-- Client 0 sets a user variable and a `sql_mode` (both acknowledged); the
    backend rejects the SET statement with error 1231; the client's next
    statement executes — without the user variable, which the client never
    unset: `SessionVariables.Reset` removed it from the proxy's record. -/
def exOpsReset : List Op :=
  [.set 0 [{ name := "x", isSystem := false, value := .str "abc" }],
   .set 0 [{ name := "sql_mode", value := .str "ANSI" }],
   .run 0 0 .rejSqlMode,
   .run 0 0 .none]

theorem reset_forgets_witness :
    -- both SET statements were acknowledged and recorded
    (runOps exCfg exFresh exSys (exOpsReset.take 2)).2 = [.set (.ok ()), .set (.ok ())] ∧
    ((runOps exCfg exFresh exSys (exOpsReset.take 2)).1.clients.map (·.vars.variables)) =
      [[("@x", .user "'abc'"), ("sql_mode", .str "'ANSI'")], []] ∧
    -- the statement after the rejected one executes with neither of them
    (runOps exCfg exFresh exSys exOpsReset).2[3]? =
      some (.run (.ok none) (some { charset := "utf8", collation := "utf8_general_ci", vars := [] })) := by
  decide

/-- How far the listed finding reaches: `Reset` never adds or changes a
    variable, and a variable that has a verify function (other than `sql_mode`
    after error 1231) survives it. -/
theorem reset_only_forgets (vm : VerifyMap) (s : SessionVariables) (e : Bool) (k : String) (v : Val)
    (h : AMap.get (s.reset vm e).variables k = some v) : AMap.get s.variables k = some v := by
  have hf := get_filter_key s.variables (fun x => AMap.has vm x) k
  simp only [SessionVariables.reset] at h
  by_cases hc : (e && AMap.has (List.filter (fun p => AMap.has vm p.1) s.variables) "sql_mode" && AMap.has vm "sql_mode") = true
  · rw [if_pos hc] at h
    simp only [SessionVariables.delete, get_del] at h
    by_cases hk : k = formatVariableName "sql_mode"
    · simp [hk] at h
    · simp only [hk, ↓reduceIte] at h
      rw [hf] at h
      by_cases hv : AMap.has vm k = true <;> simp_all
  · rw [if_neg hc] at h
    simp only at h
    rw [hf] at h
    by_cases hv : AMap.has vm k = true <;> simp_all

theorem reset_keeps_verified (vm : VerifyMap) (s : SessionVariables) (e : Bool) (k : String)
    (hk : AMap.has vm k = true) (hne : k ≠ "sql_mode") :
    AMap.get (s.reset vm e).variables k = AMap.get s.variables k := by
  have hf := get_filter_key s.variables (fun x => AMap.has vm x) k
  have hfmt : formatVariableName "sql_mode" = "sql_mode" := by decide
  simp only [SessionVariables.reset]
  by_cases hc : (e && AMap.has (List.filter (fun p => AMap.has vm p.1) s.variables) "sql_mode" && AMap.has vm "sql_mode") = true
  · rw [if_pos hc]
    simp only [SessionVariables.delete, get_del, hfmt, hne, ↓reduceIte]
    rw [hf]; simp [hk]
  · rw [if_neg hc]
    simp only
    rw [hf]; simp [hk]

/-! ### the three repaired defects: the pinned code, for the record

`WriteSetStatement` and `InitializeSessionVariables` as they were before the
`fix:` commits (no fall-back to the acknowledged settings, resets written under
the recorded name, resets written even for names the statement assigns).  The
witnesses show that `no_leak` was false of that code, i.e. that each repair is
needed; the inputs are kept in corpus/C20/regress.case. -/

namespace Pinned

/-- `which`: 0 = pinned tree, 1 = after b5c4ceb, 2 = after 5432cf0 (3 = current = `writeSetStatement`). -/
def writeSetStatement (which : Nat) (t : Tables) (c : Conn) (b : Backend) (f : Fault) : Conn × Backend × WriteRes :=
  match t.collationName c.collation with
  | none => (if which ≥ 1 then restoreAckedSession c else c, b, .invalidCollation)
  | some collName =>
    let unused := c.sv.unused
    let c' := { c with sv := { c.sv with unused := [] } }
    let resetKey := fun (k : String) => if which ≥ 2 then wireKey c.v803 k else k
    let items := Item.names c.charset collName
      :: ((wireVars c.v803 c.sv.variables).map (fun p => Item.assign p.1 p.2)
          ++ unused.map (fun p => Item.assign (resetKey p.1) (defaultText (resetKey p.1))))
    match f with
    | .none =>
      ({ c' with ackedCharset := c'.charset, ackedCollation := c'.collation, ackedVariables := c'.sv },
        b.apply items, .ok "")
    | _ => (if which ≥ 1 then restoreAckedSession c' else c', b, .rejected "" false)

def initializeSessionVariables (which : Nat) (t : Tables) (s : Slot) (cl : Client) (f : Fault) : Slot × InitRes :=
  match setCharset t s.conn cl.charset cl.collation with
  | (_, none) => (s, .errCharset)
  | (c1, some charsetChanged) =>
    let r := setSessionVariables c1 cl.vars
    if charsetChanged || r.2 then
      match writeSetStatement which t r.1 s.be f with
      | (c3, b3, .ok _) => ({ conn := c3, be := b3 }, .ok (some ""))
      | (c3, b3, _) => ({ conn := c3, be := b3 }, .errSet none)
    else ({ conn := r.1, be := s.be }, .ok none)

def limit5 : Client := { charset := "utf8", collation := 33, vars := { variables := [("sql_select_limit", .int 5)] } }
def plain : Client := { charset := "utf8", collation := 33 }
def txA : Client := { charset := "utf8", collation := 33, vars := { variables := [("tx_read_only", .int 1)] } }
def trxB : Client := { charset := "utf8", collation := 33, vars := { variables := [("transaction_read_only", .int 0)] } }

/-- Pinned tree: the backend rejects the SET statement of a client that wants
    `sql_select_limit = 5`; the client's next statement on that connection is
    prepared without any SET statement and executes on a backend that does not
    have the variable. -/
theorem stale_belief_witness :
    let s1 := (initializeSessionVariables 0 exTables exSlot limit5 .rejOther).1
    (initializeSessionVariables 0 exTables s1 limit5 .none).2 = .ok none ∧
    (initializeSessionVariables 0 exTables s1 limit5 .none).1.be.vars = [] ∧
    expectedVar false limit5.vars.variables "sql_select_limit" = some "5" := by decide

/-- After the first repair only: on an 8.0.30 backend client A's
    `tx_read_only = 1` (sent as `transaction_read_only`) is "reset" as
    `tx_read_only = DEFAULT`, so the next client, which set nothing, executes with
    `transaction_read_only = 1`. -/
theorem rename_leak_witness :
    let s1 := (initializeSessionVariables 1 exTables exSlot803 txA .none).1
    (initializeSessionVariables 1 exTables s1 plain .none).2 = .ok (some "") ∧
    (initializeSessionVariables 1 exTables s1 plain .none).1.be.vars = [("transaction_read_only", "1")] := by decide

/-- After the first two repairs only: client B's `transaction_read_only = 0`
    is assigned and then wiped by the reset of client A's `tx_read_only` in the
    same statement. -/
theorem alias_wipe_witness :
    let s1 := (initializeSessionVariables 2 exTables exSlot803 txA .none).1
    (initializeSessionVariables 2 exTables s1 trxB .none).2 = .ok (some "") ∧
    (initializeSessionVariables 2 exTables s1 trxB .none).1.be.vars = [] ∧
    expectedVar true trxB.vars.variables "transaction_read_only" = some "0" := by decide

/-- The current code on the same three inputs. -/
example :
    ((SessVars.initializeSessionVariables exTables exCfg.verifyMap
        (SessVars.initializeSessionVariables exTables exCfg.verifyMap exSlot limit5 .rejOther).1 limit5 .none).1.be.vars
      = [("sql_select_limit", "5")]) ∧
    ((SessVars.initializeSessionVariables exTables exCfg.verifyMap
        (SessVars.initializeSessionVariables exTables exCfg.verifyMap exSlot803 txA .none).1 plain .none).1.be.vars = []) ∧
    ((SessVars.initializeSessionVariables exTables exCfg.verifyMap
        (SessVars.initializeSessionVariables exTables exCfg.verifyMap exSlot803 txA .none).1 trxB .none).1.be.vars
      = [("transaction_read_only", "0")]) := by decide

end Pinned

end GaeaVerif.C20
