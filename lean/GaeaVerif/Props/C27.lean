import GaeaVerif.Model.Health
import GaeaVerif.Model.HealthSpec
import GaeaVerif.Lemmas.Health
import GaeaVerif.Gen.Consts
import Mathlib.Tactic.SplitIfs
/-
  C27 — Fused replicas are not restored before their cool-down.

  "A replica taken down by the circuit breaker is not marked up again before
   its recovery condition holds — the configured cool-down since its latest
   fuse for the hard policy, or the current penalty number of consecutive
   successful probes for the gradual policy, with the penalty growing when a
   replica fails again soon after recovering — and is marked up once the
   condition holds and its probes succeed."

  Theorems about `Model/Health.lean` (tied to backend/slice.go and
  backend/node_fuse.go by the correspondence check `gvh run C27`), for every
  configuration, start time and history of breaker firings, replica and master
  probe rounds and clock steps — no bound on the length, no assumption on the
  clock (it may even step back).

  * `c27_spec_holds` — the executable reference semantics of the property
    (`Health.judge27`, the function the check runs on the implementation's
    output; it sees the history and the up/down trace only and keeps its own
    count of consecutive successful rounds) accepts the model on every
    history: no violation, whatever the master's state (the master-down
    branches of backend/slice.go were repaired: fixes 4cba6eb, 5e8b660, 87be324).
  * readable consequences: `hard_not_restored_before_cooldown`,
    `hard_restore_requires_cooldown`, `hard_restored_after_cooldown`,
    `gradual_restored_only_at_zero`, `gradual_bad_fuse_sets_penalty`,
    `gradual_fuse_long_after_recovery_resets`, `gradual_countdown`,
    `gradual_restored_after_countdown`, `gradual_failed_probe_rearms`,
    `penalty_grows`, `penalty_capped`; `hard_cooldown_master_down_repaired`
    replays the old failing input.
-/
namespace GaeaVerif.C27
open GaeaVerif GaeaVerif.Health

/-! ### the constants of the source the model relies on -/

/-- `PingPeriod`, `maxPenalty`, `initErrorRecoveryCount` as extracted from the
    working tree are the ones the model (and every theorem below) uses. -/
theorem consts_tie :
    Gen.healthPingPeriod = pingPeriod ∧ Gen.healthMaxPenalty = maxPenalty ∧
    Gen.healthInitErrorRecoveryCount = initErrorRecoveryCount := by decide

/-! ### the penalty -/

theorem penalty_nonneg (n : Int) (h : 0 ≤ n) : 0 ≤ penalty n := by
  unfold penalty maxPenalty
  have h1 : 0 ≤ (1 + n) * n := Int.mul_nonneg (by omega) h
  have h2 : 0 ≤ (1 + n) * n / 2 := Int.ediv_nonneg h1 (by decide)
  omega

/-- The penalty never exceeds `maxPenalty`. -/
theorem penalty_capped (n : Int) : penalty n ≤ maxPenalty := by
  unfold penalty; omega

theorem tri_succ (n : Int) : (1 + (n + 1)) * (n + 1) / 2 = (1 + n) * n / 2 + (n + 1) := by
  have : (1 + (n + 1)) * (n + 1) = (1 + n) * n + (n + 1) * 2 := by
    simp only [Int.add_mul, Int.mul_add, Int.one_mul, Int.mul_one]
    omega
  rw [this, Int.add_mul_ediv_right _ _ (by decide)]

/-- **The penalty grows** with every further bad recovery until it reaches the cap:
    one more bad recovery means strictly more required successful rounds. -/
theorem penalty_grows (n : Int) (h : 0 ≤ n) (hc : penalty n < maxPenalty) : penalty n < penalty (n + 1) := by
  unfold penalty at *
  rw [tri_succ]
  omega

/-- … and never shrinks. -/
theorem penalty_mono (n : Int) (h : 0 ≤ n) : penalty n ≤ penalty (n + 1) := by
  unfold penalty
  rw [tri_succ]
  omega

example : penalty 3 = 6 ∧ penalty 4 = 10 ∧ penalty 5 = 15 ∧ penalty 14 = 105 ∧ penalty 15 = 120 ∧ penalty 16 = 120 := by
  decide

/-! ### the judge's ghost state describes the model state -/

/-- The judge's ghost state describes the model state: observed statuses and
    last successful probe agree; under the hard policy the strategy's
    `lastFuseTime` is the time of the latest firing; under the gradual policy
    `errorRecoveryCount` and `lastRecoveryTime` are the judge's, and the
    remaining count lies between `need - good` and `need - sure`. -/
def Rel27 (c : Cfg) (s : St) (g : G27) : Prop :=
  g.rep = s.rep.up ∧ g.master = s.master.up ∧ g.lastOkR = s.rep.lastChecked ∧
  (g.fusedDown = true → s.rep.up = false) ∧
  (c.policy = .hard → s.lastFuse = g.lastTrig ∧ (g.fusedDown = true → g.fusedAt = g.lastTrig)) ∧
  (c.policy = .gradual →
    s.erc = g.n ∧ s.lastRec = g.lastRec ∧ 3 ≤ g.n ∧ 0 ≤ s.cscc ∧ (s.rep.up = true → s.cscc = 0) ∧
    (g.fusedDown = true → g.need - g.good ≤ s.cscc ∧ (s.cscc = 0 ∨ s.cscc ≤ g.need - g.sure)))

theorem rel27_init (c : Cfg) (t0 : Int) : Rel27 c (St.init t0) (G27.init t0) := by
  simp [Rel27, St.init, G27.init, initErrorRecoveryCount]

theorem step27_replica_hard (c : Cfg) (hs : c.sbm < 9223372036854775808) (hpol : c.policy = .hard)
    (s : St) (g : G27) (now : Int) (p : Probe) (q : SlaveQ) (h : Rel27 c s g) :
    (judgeReplica27 c g now p q (checkWithHardRecovery c s now p q).obs).1 = [] ∧
    Rel27 c (checkWithHardRecovery c s now p q) (judgeReplica27 c g now p q (checkWithHardRecovery c s now p q).obs).2 := by
  obtain ⟨r1, r2, r3, r4, r5, r6⟩ := h
  have hgood := syncSpec_good_alive c.sbm q (probeOk c p) hs
  have hno := checkSlaveSyncStatus_noconn c.sbm q
  obtain ⟨r5a, r5b⟩ := r5 hpol
  rw [hardRecovery_round]
  obtain ⟨⟨mu, ml⟩, ⟨ru, rl⟩, lf, erc, cscc, lr⟩ := s
  obtain ⟨gr, gm, gor, gfd, gfa, glt, gn, gneed, ggood, gsure, glr⟩ := g
  simp only at r1 r2 r3 r4 r5a r5b
  subst r1 r2 r3 r5a
  cases hok : probeOk c p <;> cases hsy : syncSpec c.sbm q <;> cases hal : checkSlaveSyncStatus (probeOk c p) c.sbm q <;>
    cases hm : c.hasMaster <;> cases gm <;> cases gr <;> cases gfd <;>
    simp [judgeReplica27, judgeEarly27, recoveryDue, earlyViol, G27.observe, St.obs, lastOkAfter, hok, hm, Rel27, hsy,
      masterDown, obsMasterDown, hpol, syncAlive] <;>
    (try split_ifs) <;> (try simp_all) <;> (try omega)

/-- Gradual policy, the probe failed. -/
theorem step27_replica_gradual_fail (c : Cfg) (hpol : c.policy = .gradual)
    (s : St) (g : G27) (now : Int) (p : Probe) (q : SlaveQ) (h : Rel27 c s g) (hok : probeOk c p = false) :
    (judgeReplica27 c g now p q (checkWithGradualRecovery c s now p q).obs).1 = [] ∧
    Rel27 c (checkWithGradualRecovery c s now p q) (judgeReplica27 c g now p q (checkWithGradualRecovery c s now p q).obs).2 := by
  obtain ⟨r1, r2, r3, r4, r5, r6⟩ := h
  obtain ⟨r6a, r6b, r6c, r6d, r6e, r6f⟩ := r6 hpol
  have hpen := penalty_nonneg g.n (by omega)
  rw [gradualRecovery_round]
  obtain ⟨⟨mu, ml⟩, ⟨ru, rl⟩, lf, erc, cscc, lr⟩ := s
  obtain ⟨gr, gm, gor, gfd, gfa, glt, gn, gneed, ggood, gsure, glr⟩ := g
  simp only at r1 r2 r3 r4 r6a r6b r6c r6d r6e r6f hpen
  subst r1 r2 r3 r6a r6b
  cases gr <;> cases gfd <;>
    simp [judgeReplica27, judgeEarly27, recoveryDue, G27.observe, St.obs, lastOkAfter, hok, Rel27,
      hpol, gradualAsks, syncAlive_noconn] <;>
    (try simp_all)

/-- How the spec's classification of the `show slave status` answer and the
    result of checkSlaveSyncStatus on a live connection can go together. -/
theorem sync_cases (c : Cfg) (hs : c.sbm < 9223372036854775808) (q : SlaveQ) :
    (syncSpec c.sbm q = .good ∧ checkSlaveSyncStatus true c.sbm q = true) ∨
    (syncSpec c.sbm q = .bad ∧ checkSlaveSyncStatus true c.sbm q = false) ∨
    (syncSpec c.sbm q = .unspecified ∧ checkSlaveSyncStatus true c.sbm q = true) ∨
    (syncSpec c.sbm q = .unspecified ∧ checkSlaveSyncStatus true c.sbm q = false) := by
  have hgood := syncSpec_good_alive c.sbm q true hs
  have hbad := syncSpec_bad_dead c.sbm q hs
  cases hsy : syncSpec c.sbm q <;> cases hal : checkSlaveSyncStatus true c.sbm q <;> simp_all

/-- Gradual policy, the probe passed, the replica is down and was taken down by the breaker:
    the round uses up one unit of the count, or restores the replica at 0 — also while the
    master is down. -/
theorem step27_replica_gradual_fused (c : Cfg) (hs : c.sbm < 9223372036854775808) (hpol : c.policy = .gradual)
    (s : St) (g : G27) (now : Int) (p : Probe) (q : SlaveQ) (h : Rel27 c s g) (hok : probeOk c p = true)
    (hgr : g.rep = false) (hfd : g.fusedDown = true) :
    (judgeReplica27 c g now p q (checkWithGradualRecovery c s now p q).obs).1 = [] ∧
    Rel27 c (checkWithGradualRecovery c s now p q) (judgeReplica27 c g now p q (checkWithGradualRecovery c s now p q).obs).2 := by
  obtain ⟨r1, r2, r3, r4, r5, r6⟩ := h
  have hsa := sync_cases c hs q
  obtain ⟨r6a, r6b, r6c, r6d, r6e, r6f⟩ := r6 hpol
  have hpen := penalty_nonneg g.n (by omega)
  rw [gradualRecovery_round]
  obtain ⟨⟨mu, ml⟩, ⟨ru, rl⟩, lf, erc, cscc, lr⟩ := s
  obtain ⟨gr, gm, gor, gfd, gfa, glt, gn, gneed, ggood, gsure, glr⟩ := g
  simp only at r1 r2 r3 r4 r6a r6b r6c r6d r6e r6f hpen hgr hfd
  subst r1 r2 r3 r6a r6b hfd
  subst hgr
  simp only [forall_const] at r6f
  rcases hsa with ⟨hsy, hal⟩ | ⟨hsy, hal⟩ | ⟨hsy, hal⟩ | ⟨hsy, hal⟩ <;>
    cases hm : c.hasMaster <;> cases gm <;>
      simp [judgeReplica27, judgeEarly27, recoveryDue, earlyViol, G27.observe, St.obs, lastOkAfter, hok, hm, Rel27, hsy,
        masterDown, obsMasterDown, hpol, gradualAsks, hal, syncAlive] <;>
      (try split_ifs) <;> (try simp_all) <;> (try omega)

/-- Gradual policy, the probe passed, the replica is up or was not taken down by the breaker. -/
theorem step27_replica_gradual_unfused (c : Cfg) (hs : c.sbm < 9223372036854775808) (hpol : c.policy = .gradual)
    (s : St) (g : G27) (now : Int) (p : Probe) (q : SlaveQ) (h : Rel27 c s g) (hok : probeOk c p = true)
    (hnf : ¬(g.rep = false ∧ g.fusedDown = true)) :
    (judgeReplica27 c g now p q (checkWithGradualRecovery c s now p q).obs).1 = [] ∧
    Rel27 c (checkWithGradualRecovery c s now p q) (judgeReplica27 c g now p q (checkWithGradualRecovery c s now p q).obs).2 := by
  obtain ⟨r1, r2, r3, r4, r5, r6⟩ := h
  have hsa := sync_cases c hs q
  obtain ⟨r6a, r6b, r6c, r6d, r6e, r6f⟩ := r6 hpol
  rw [gradualRecovery_round]
  obtain ⟨⟨mu, ml⟩, ⟨ru, rl⟩, lf, erc, cscc, lr⟩ := s
  obtain ⟨gr, gm, gor, gfd, gfa, glt, gn, gneed, ggood, gsure, glr⟩ := g
  simp only at r1 r2 r3 r4 r6a r6b r6c r6d r6e r6f hnf
  subst r1 r2 r3 r6a r6b
  rcases hsa with ⟨hsy, hal⟩ | ⟨hsy, hal⟩ | ⟨hsy, hal⟩ | ⟨hsy, hal⟩ <;>
    cases hm : c.hasMaster <;> cases gm <;> cases gr <;> cases gfd <;>
      simp [judgeReplica27, G27.observe, St.obs, lastOkAfter, hok, hm, Rel27, hsy,
        masterDown, hpol, gradualAsks, hal, syncAlive] <;>
      (try split_ifs) <;> (try simp_all) <;> (try omega)

theorem step27_replica_gradual (c : Cfg) (hs : c.sbm < 9223372036854775808) (hpol : c.policy = .gradual)
    (s : St) (g : G27) (now : Int) (p : Probe) (q : SlaveQ) (h : Rel27 c s g) :
    (judgeReplica27 c g now p q (checkWithGradualRecovery c s now p q).obs).1 = [] ∧
    Rel27 c (checkWithGradualRecovery c s now p q) (judgeReplica27 c g now p q (checkWithGradualRecovery c s now p q).obs).2 := by
  cases hok : probeOk c p
  · exact step27_replica_gradual_fail c hpol s g now p q h hok
  · by_cases hf : g.rep = false ∧ g.fusedDown = true
    · exact step27_replica_gradual_fused c hs hpol s g now p q h hok hf.1 hf.2
    · exact step27_replica_gradual_unfused c hs hpol s g now p q h hok hf

theorem step27_replica_none (c : Cfg) (hpol : c.policy = .none)
    (s : St) (g : G27) (now : Int) (p : Probe) (q : SlaveQ) (h : Rel27 c s g) :
    (judgeReplica27 c g now p q (checkWithNoRecovery c s now p q).obs).1 = [] ∧
    Rel27 c (checkWithNoRecovery c s now p q) (judgeReplica27 c g now p q (checkWithNoRecovery c s now p q).obs).2 := by
  obtain ⟨r1, r2, r3, r4, r5, r6⟩ := h
  rw [noRecovery_round]
  obtain ⟨⟨mu, ml⟩, ⟨ru, rl⟩, lf, erc, cscc, lr⟩ := s
  obtain ⟨gr, gm, gor, gfd, gfa, glt, gn, gneed, ggood, gsure, glr⟩ := g
  simp only at r1 r2 r3 r4
  subst r1 r2 r3
  cases hok : probeOk c p <;> cases gr <;> cases gfd <;> cases hm : c.hasMaster <;> cases gm <;>
    cases hal : checkSlaveSyncStatus (probeOk c p) c.sbm q <;>
    simp [judgeReplica27, G27.observe, St.obs, lastOkAfter, hok, Rel27, hpol, masterDown, hm, syncAlive] <;>
    (try split_ifs) <;> (try simp_all)

theorem step27_fuse (c : Cfg) (s : St) (g : G27) (now : Int) (ce tr : Bool) (h : Rel27 c s g) :
    (judgeFuse27 c g now ce tr (tryFuse c s now ce tr).obs).1 = [] ∧
    Rel27 c (tryFuse c s now ce tr) (judgeFuse27 c g now ce tr (tryFuse c s now ce tr).obs).2 := by
  obtain ⟨r1, r2, r3, r4, r5, r6⟩ := h
  rw [tryFuse_eq]
  obtain ⟨⟨mu, ml⟩, ⟨ru, rl⟩, lf, erc, cscc, lr⟩ := s
  obtain ⟨gr, gm, gor, gfd, gfa, glt, gn, gneed, ggood, gsure, glr⟩ := g
  simp only at r1 r2 r3 r4 r5 r6
  subst r1 r2 r3
  cases hpol : c.policy
  · cases ce <;> cases tr <;> cases gr <;> cases gfd <;>
      simp [judgeFuse27, judgeEarly27, G27.observe, St.obs, Rel27, hpol, fuseFires]
  · obtain ⟨r5a, r5b⟩ := r5 hpol
    subst r5a
    cases ce <;> cases tr <;> cases gr <;> cases gfd <;>
      simp [judgeFuse27, judgeEarly27, G27.observe, St.obs, Rel27, hpol, fuseFires] <;> simp_all
  · obtain ⟨r6a, r6b, r6c, r6d, r6e, r6f⟩ := r6 hpol
    subst r6a r6b
    have hpen := penalty_nonneg (erc + 1) (by omega)
    cases ce <;> cases tr <;> cases gr <;> cases gfd <;>
      simp [judgeFuse27, judgeEarly27, G27.observe, St.obs, Rel27, hpol, fuseFires, initErrorRecoveryCount] <;>
      (try split_ifs) <;> (try simp_all) <;> (try omega)

/-- Master rounds and clock advances: the replica's status and strategy are untouched. -/
theorem step27_other (c : Cfg) (s s' : St) (g : G27) (now : Int) (h : Rel27 c s g)
    (hrep : s'.rep = s.rep) (hf : s'.lastFuse = s.lastFuse) (he : s'.erc = s.erc) (hc : s'.cscc = s.cscc)
    (hl : s'.lastRec = s.lastRec) :
    judgeEarly27 c g now s'.obs = [] ∧ Rel27 c s' (g.observe now s'.obs) := by
  obtain ⟨r1, r2, r3, r4, r5, r6⟩ := h
  obtain ⟨⟨mu, ml⟩, ⟨ru, rl⟩, lf, erc, cscc, lr⟩ := s
  obtain ⟨⟨mu', ml'⟩, ⟨ru', rl'⟩, lf', erc', cscc', lr'⟩ := s'
  obtain ⟨gr, gm, gor, gfd, gfa, glt, gn, gneed, ggood, gsure, glr⟩ := g
  simp only [Node.mk.injEq] at r1 r2 r3 r4 r5 r6 hrep hf he hc hl
  obtain ⟨h1, h2⟩ := hrep
  subst r1 r2 r3 h1 h2 hf he hc hl
  cases ru' <;> cases gfd <;> simp [judgeEarly27, G27.observe, St.obs, Rel27] <;> simp_all

/-- One step: the judge reports nothing on the model's own step, and its ghost
    state keeps describing the model state. -/
theorem step27 (c : Cfg) (hs : c.sbm < 9223372036854775808) (s : St) (g : G27) (e : Ev) (h : Rel27 c s g) :
    (judgeStep27 c g e (step c s e).obs).1 = [] ∧
    Rel27 c (step c s e) (judgeStep27 c g e (step c s e).obs).2 := by
  cases e with
  | master now p =>
    have hm := master_round c s now p
    exact step27_other c s (checkBackendMasterStatus c s now p) g now h
      (by rw [hm]; split <;> rfl) (by rw [hm]; split <;> rfl) (by rw [hm]; split <;> rfl)
      (by rw [hm]; split <;> rfl) (by rw [hm]; split <;> rfl)
  | replica now p q =>
    simp only [judgeStep27, step, tryRecover]
    cases hpol : c.policy
    · exact step27_replica_none c hpol s g now p q h
    · exact step27_replica_hard c hs hpol s g now p q h
    · exact step27_replica_gradual c hs hpol s g now p q h
  | fuse now ce tr => exact step27_fuse c s g now ce tr h
  | tick now => exact step27_other c s s g now h rfl rfl rfl rfl rfl

theorem judge27_trace (c : Cfg) (hs : c.sbm < 9223372036854775808) :
    ∀ (evs : List Ev) (s : St) (g : G27), Rel27 c s g →
      judge27 c g evs ((trace c s evs).map St.obs) = [] := by
  intro evs
  induction evs with
  | nil => intro s g _; simp [judge27]
  | cons e es ih =>
    intro s g h
    simp only [trace, List.map_cons, judge27]
    have hst := step27 c hs s g e h
    rw [hst.1, ih _ _ hst.2]
    rfl

/-! ### main theorems -/

/-- **C27 on every history.**  For every configuration (with `secondsBehindMaster`
    a Go `int`), start time and history of breaker firings, replica rounds,
    master rounds and clock steps — whatever the master's state during the
    replica rounds — the reference semantics of the property accepts the
    statuses the model produces: no restore before the cool-down / before the
    required number of consecutive successful rounds, and a restore as soon as
    the condition holds and the round succeeds.  No violation, no exception
    (the class `hard-restored-in-cooldown-master-down` of the pinned code was
    repaired by fix 5e8b660, the missing restore under the gradual policy during
    a master outage by fix 87be324). -/
theorem c27_spec_holds (c : Cfg) (hs : c.sbm < 9223372036854775808) (t0 : Int) (evs : List Ev) :
    judge27 c (G27.init t0) evs ((trace c (St.init t0) evs).map St.obs) = [] :=
  judge27_trace c hs evs _ _ (rel27_init c t0)

example : ∃ c : Cfg, c.sbm < 9223372036854775808 ∧ c.policy = .hard := ⟨⟨true, 30, 12, 5, true, true⟩, by decide, by decide⟩

/-- The reference semantics is not vacuous: it rejects a trace in which a fused
    replica is up again one second before the end of a 10 s cool-down (master
    up), and one in which it is still down after a successful round past it. -/
example :
    let c : Cfg := ⟨true, 10, 12, 0, false, true⟩
    let evs : List Ev := [.fuse 1004 true true, .replica 1013 ⟨.conn, []⟩ .empty, .replica 1014 ⟨.conn, []⟩ .empty]
    judge27 c (G27.init 1000) evs [⟨false, true⟩, ⟨true, true⟩, ⟨true, true⟩] = [.hardRestoredInCooldown] ∧
    judge27 c (G27.init 1000) evs [⟨false, true⟩, ⟨false, true⟩, ⟨false, true⟩] = [.hardNotRestoredAfterCooldown] ∧
    judge27 c (G27.init 1000) evs [⟨false, true⟩, ⟨false, true⟩, ⟨true, true⟩] = [] := by decide

/-- … the same during a master outage (master marked down at 1012, also without a
    master node at all): up inside the cool-down is rejected, still down after a
    successful round past it is rejected, and so is coming up on a failed probe
    past the cool-down being demanded — it is not: a failed probe demands nothing. -/
example :
    let c : Cfg := ⟨true, 10, 32, 5, false, true⟩
    let evs : List Ev := [.master 1032 ⟨.err, []⟩, .fuse 1033 true true,
      .replica 1034 ⟨.conn, []⟩ (.row (.u64 0) (.str "Yes") (.str "Yes")),
      .replica 1043 ⟨.conn, []⟩ (.row (.u64 0) (.str "Yes") (.str "Yes")),
      .replica 1047 ⟨.err, []⟩ .empty]
    judge27 c (G27.init 1000) evs [⟨true, false⟩, ⟨false, false⟩, ⟨true, false⟩, ⟨true, false⟩, ⟨true, false⟩]
      = [.hardRestoredInCooldownMasterDown] ∧
    judge27 c (G27.init 1000) evs [⟨true, false⟩, ⟨false, false⟩, ⟨false, false⟩, ⟨false, false⟩, ⟨false, false⟩]
      = [.hardNotRestoredAfterCooldown] ∧
    judge27 c (G27.init 1000) evs [⟨true, false⟩, ⟨false, false⟩, ⟨false, false⟩, ⟨true, false⟩, ⟨true, false⟩] = [] ∧
    (trace c (St.init 1000) evs).map St.obs = [⟨true, false⟩, ⟨false, false⟩, ⟨false, false⟩, ⟨true, false⟩, ⟨true, false⟩] := by
  decide

/-- … and under the gradual policy a restore after 9 of the 10 required rounds,
    or no restore at the 11th. -/
example :
    let c : Cfg := ⟨true, 0, 12, 0, false, true⟩
    let evs : List Ev := .fuse 1004 true true ::
      (List.range 11).map fun (i : Nat) => Ev.replica (1008 + 4 * (i : Int)) ⟨.conn, []⟩ .empty
    let down : Obs := ⟨false, true⟩
    let up : Obs := ⟨true, true⟩
    judge27 c (G27.init 1000) evs (List.replicate 10 down ++ [up, up]) = [.gradualRestoredBeforePenalty] ∧
    judge27 c (G27.init 1000) evs (List.replicate 12 down) = [.gradualNotRestoredAfterPenalty] ∧
    judge27 c (G27.init 1000) evs (List.replicate 11 down ++ [up]) = [] := by decide

/-- … the same with no master node at all (every replica round is a "master down" round). -/
example :
    let c : Cfg := ⟨true, 0, 12, 0, false, false⟩
    let evs : List Ev := .fuse 1004 true true ::
      (List.range 11).map fun (i : Nat) => Ev.replica (1008 + 4 * (i : Int)) ⟨.conn, []⟩ .empty
    let down : Obs := ⟨false, true⟩
    let up : Obs := ⟨true, true⟩
    judge27 c (G27.init 1000) evs (List.replicate 10 down ++ [up, up]) = [.gradualRestoredBeforePenaltyMasterDown] ∧
    judge27 c (G27.init 1000) evs (List.replicate 12 down) = [.gradualNotRestoredAfterPenalty] ∧
    judge27 c (G27.init 1000) evs (List.replicate 11 down ++ [up]) = [] ∧
    (trace c (St.init 1000) evs).map St.obs = List.replicate 11 down ++ [up] := by decide

/-- **C27 for the gradual policy** (instance of `c27_spec_holds`, kept for its
    wording): on every history the reference semantics reports no violation — a
    replica taken down by the breaker comes up exactly when the required number
    of consecutive successful rounds has been seen, the requirement being
    `penalty n` with `n` growing by one for each fuse at most `2·PingPeriod`
    after the previous restore and reset otherwise. -/
theorem c27_gradual_holds (c : Cfg) (_hp : c.policy = .gradual) (hs : c.sbm < 9223372036854775808)
    (t0 : Int) (evs : List Ev) :
    judge27 c (G27.init t0) evs ((trace c (St.init t0) evs).map St.obs) = [] :=
  c27_spec_holds c hs t0 evs

example : (⟨true, 0, 12, 5, false, true⟩ : Cfg).policy = .gradual := by decide

/-- A concrete gradual history: created at 1000, fused at 1004 (a "bad recovery":
    within `2·PingPeriod` of the creation, so `n = 4` and the penalty is 10), then
    successful rounds every 4 s: down for ten of them, up at the eleventh. -/
example :
    let c : Cfg := ⟨true, 0, 12, 5, false, true⟩
    let evs : List Ev := .fuse 1004 true true ::
      (List.range 11).map fun (i : Nat) => Ev.replica (1008 + 4 * (i : Int)) ⟨.conn, []⟩ .empty
    (trace c (St.init 1000) evs).map (fun s => (s.rep.up, s.cscc)) =
      [(false, 10), (false, 9), (false, 8), (false, 7), (false, 6), (false, 5), (false, 4), (false, 3),
       (false, 2), (false, 1), (false, 0), (true, 0)] := by
  decide

/-! ### hard policy, in words -/

/-- Time of the latest firing of the breaker along a history (`t` if none). -/
def latestFuse (c : Cfg) (t : Int) : List Ev → Int
  | [] => t
  | e :: es =>
    match e with
    | .fuse now ce tr => latestFuse c (if fuseFires c ce tr then now else t) es
    | _ => latestFuse c t es

theorem run_lastFuse_hard (c : Cfg) (hp : c.policy = .hard) : ∀ (evs : List Ev) (s : St),
    (run c s evs).lastFuse = latestFuse c s.lastFuse evs := by
  intro evs
  induction evs with
  | nil => intro s; rfl
  | cons e es ih =>
    intro s
    simp only [run, latestFuse]
    rw [ih]
    cases e with
    | master now p =>
      simp only [step, master_round]
      split <;> rfl
    | replica now p q =>
      simp only [step, tryRecover, hp, hardRecovery_round]
    | fuse now ce tr =>
      simp only [step, tryFuse_eq, hp]
      cases hf : fuseFires c ce tr <;> simp
    | tick now => rfl

theorem run_append (c : Cfg) (s : St) (es : List Ev) (e : Ev) :
    run c s (es ++ [e]) = step c (run c s es) e := by
  induction es generalizing s with
  | nil => rfl
  | cons x xs ih => simp [run, ih]

/-- **Hard policy: no restore before the cool-down.**  Whatever the history and
    whatever the master's state: if the replica is down after it and the next
    replica round marks it up, then at least `FuseCooldownPeriod` seconds have
    passed since the latest firing of the breaker in that history (every firing
    counts, also one that hit the replica while it was already down). -/
theorem hard_not_restored_before_cooldown (c : Cfg) (hp : c.policy = .hard) (t0 : Int) (evs : List Ev)
    (now : Int) (p : Probe) (q : SlaveQ)
    (hdown : (run c (St.init t0) evs).rep.up = false)
    (hup : (run c (St.init t0) (evs ++ [.replica now p q])).rep.up = true) :
    now ≥ latestFuse c 0 evs + c.cooling := by
  have hl := run_lastFuse_hard c hp evs (St.init t0)
  have h0 : (St.init t0).lastFuse = 0 := rfl
  rw [h0] at hl
  rw [← hl]
  rw [run_append] at hup
  revert hup hdown
  generalize run c (St.init t0) evs = s
  intro hdown
  simp only [step, tryRecover, hp, hardRecovery_round, hdown]
  cases hok : probeOk c p <;> simp [lastOkAfter]

example :
    let c : Cfg := ⟨true, 30, 12, 0, false, true⟩
    let evs : List Ev := [.master 1012 ⟨.err, []⟩, .fuse 1013 true true, .replica 1014 ⟨.conn, []⟩ .empty]
    c.policy = .hard ∧ (run c (St.init 1000) evs).rep.up = false ∧ masterDown c (run c (St.init 1000) evs) = true ∧
    (run c (St.init 1000) (evs ++ [.replica 1043 ⟨.conn, []⟩ .empty])).rep.up = true ∧ latestFuse c 0 evs = 1013 := by
  decide

/-- The same for any state: a round that turns a down replica up has passed
    `AllowRecovery`, after a successful probe — whatever the master's state. -/
theorem hard_restore_requires_cooldown (c : Cfg) (hp : c.policy = .hard) (s : St) (now : Int) (p : Probe)
    (q : SlaveQ) (hdown : s.rep.up = false)
    (hup : (tryRecover c s now p q).rep.up = true) :
    now ≥ s.lastFuse + c.cooling ∧ probeOk c p = true := by
  revert hup
  simp only [tryRecover, hp, hardRecovery_round, hdown]
  cases hok : probeOk c p <;> simp [lastOkAfter]

/-- **Hard policy: restored once the cool-down is over and the round succeeds.**
    A down replica whose probe succeeds, with `downAfter > 0`, whose replication
    check is fine or skipped because the master is down, is marked up as soon as
    `now ≥ lastFuseTime + FuseCooldownPeriod`. -/
theorem hard_restored_after_cooldown (c : Cfg) (hp : c.policy = .hard) (hs : c.sbm < 9223372036854775808)
    (s : St) (now : Int) (p : Probe) (q : SlaveQ)
    (hok : probeOk c p = true) (hd : 0 < c.downAfter)
    (hgood : masterDown c s = true ∨ syncSpec c.sbm q = .good)
    (hcool : now ≥ s.lastFuse + c.cooling) :
    (tryRecover c s now p q).rep.up = true := by
  have ha : syncAlive c s true q = true := by
    rcases hgood with h | h
    · simp [syncAlive, h]
    · simp [syncAlive, syncSpec_good_alive c.sbm q true hs h]
  simp only [tryRecover, hp, hardRecovery_round, hok, lastOkAfter]
  cases hu : s.rep.up <;> simp [ha] <;> omega

example : ∃ (c : Cfg) (s : St), c.policy = .hard ∧ c.sbm < 9223372036854775808 ∧ probeOk c ⟨.conn, []⟩ = true ∧
    0 < c.downAfter ∧ (masterDown c s = true ∨ syncSpec c.sbm .empty = .good) ∧ s.rep.up = false ∧
    (1040 : Int) ≥ s.lastFuse + c.cooling :=
  ⟨⟨true, 30, 12, 5, false, true⟩, { St.init 1000 with rep := ⟨false, 1000⟩, lastFuse := 1004 },
   by decide, by decide, by decide, by decide, by decide, by decide, by decide⟩

/-- A firing of the breaker takes the replica down and restarts the cool-down. -/
theorem hard_fuse_takes_down (c : Cfg) (hp : c.policy = .hard) (s : St) (now : Int) :
    (tryFuse c s now true true).rep.up = false ∧ (tryFuse c s now true true).lastFuse = now := by
  rw [tryFuse_eq]; simp [fuseFires, hp]

/-! ### gradual policy, in words -/

/-- **Gradual policy: restored only when the count is used up.**  For any state,
    whatever the master's state: a round that turns a down replica up found
    `consecutiveSuccessCheckCount ≤ 0`, after a successful probe; and it records
    the recovery time. -/
theorem gradual_restored_only_at_zero (c : Cfg) (hp : c.policy = .gradual) (s : St) (now : Int) (p : Probe)
    (q : SlaveQ) (hdown : s.rep.up = false) (hup : (tryRecover c s now p q).rep.up = true) :
    s.cscc ≤ 0 ∧ probeOk c p = true ∧ (tryRecover c s now p q).lastRec = now := by
  revert hup
  simp only [tryRecover, hp, gradualRecovery_round, hdown]
  cases hok : probeOk c p <;> cases hsa : syncAlive c s true q <;>
    simp [lastOkAfter, gradualAsks, hok, hdown, hsa, syncAlive_noconn]
  intro h1 h2
  simp [h2]
  omega

/-- **A fuse soon after a recovery grows the penalty**: the breaker takes an up
    replica down at most `2·PingPeriod` seconds after its latest recovery —
    `errorRecoveryCount` grows by one and the required number of consecutive
    successful rounds becomes `penalty` of it. -/
theorem gradual_bad_fuse_sets_penalty (c : Cfg) (hp : c.policy = .gradual) (s : St) (now : Int)
    (hup : s.rep.up = true) (hbad : now - s.lastRec ≤ 2 * pingPeriod) :
    let s' := tryFuse c s now true true
    s'.rep.up = false ∧ s'.erc = s.erc + 1 ∧ s'.cscc = penalty (s.erc + 1) := by
  have hb : now - s.lastRec ≤ pingPeriod * 2 := by omega
  simp [tryFuse_eq, fuseFires, hp, hup, hb]

/-- **A fuse long after the recovery resets it**: `errorRecoveryCount` goes back
    to `initErrorRecoveryCount`; the count in force is left as it is. -/
theorem gradual_fuse_long_after_recovery_resets (c : Cfg) (hp : c.policy = .gradual) (s : St) (now : Int)
    (hup : s.rep.up = true) (hgood : now - s.lastRec > 2 * pingPeriod) :
    let s' := tryFuse c s now true true
    s'.rep.up = false ∧ s'.erc = initErrorRecoveryCount ∧ s'.cscc = s.cscc := by
  have hb : ¬ (now - s.lastRec ≤ pingPeriod * 2) := by omega
  simp [tryFuse_eq, fuseFires, hp, hup, hb]

/-- A fully successful replica round in state `s`: the probe passes and the
    replication check passes or is skipped because the master is down. -/
def goodRound (c : Cfg) (s : St) : Ev → Bool
  | .replica _ p q => probeOk c p && syncAlive c s true q
  | _ => false

theorem goodRound_master (c : Cfg) (s s' : St) (e : Ev) (h : s'.master = s.master) :
    goodRound c s' e = goodRound c s e := by
  cases e <;> simp [goodRound, syncAlive, masterDown, h]

/-- **Gradual policy: the countdown.**  A down replica with
    `consecutiveSuccessCheckCount = k₀` stays down through any `k ≤ k₀` fully
    successful rounds (whenever they happen, master up or down), each using up
    one unit. -/
theorem gradual_countdown (c : Cfg) (hp : c.policy = .gradual) (hd : 0 < c.downAfter) :
    ∀ (evs : List Ev) (s : St), (∀ e ∈ evs, goodRound c s e = true) → s.rep.up = false →
      (evs.length : Int) ≤ s.cscc →
      (run c s evs).rep.up = false ∧ (run c s evs).cscc = s.cscc - evs.length ∧
      (run c s evs).master = s.master ∧ (run c s evs).erc = s.erc := by
  intro evs
  induction evs with
  | nil => intro s _ h1 _; simp [run, h1]
  | cons e es ih =>
    intro s hg hdown hlen
    have hge := hg e (by simp)
    cases e with
    | replica now p q =>
      simp only [goodRound, Bool.and_eq_true] at hge
      obtain ⟨hok, hal⟩ := hge
      simp only [List.length_cons] at hlen
      have hpos : s.cscc > 0 := by omega
      have hstep : (step c s (.replica now p q)).rep.up = false ∧ (step c s (.replica now p q)).cscc = s.cscc - 1 ∧
          (step c s (.replica now p q)).master = s.master ∧ (step c s (.replica now p q)).erc = s.erc := by
        simp only [step, tryRecover, hp, gradualRecovery_round]
        simp [hok, hal, hdown, lastOkAfter, gradualAsks, hd, hpos]
      have := ih (step c s (.replica now p q))
        (fun e he => by rw [goodRound_master c s _ e hstep.2.2.1]; exact hg e (by simp [he])) hstep.1
        (by rw [hstep.2.1]; omega)
      simp only [run]
      refine ⟨this.1, ?_, ?_, ?_⟩
      · rw [this.2.1, hstep.2.1]; simp only [List.length_cons]; omega
      · rw [this.2.2.1, hstep.2.2.1]
      · rw [this.2.2.2, hstep.2.2.2]
    | master => simp [goodRound] at hge
    | fuse => simp [goodRound] at hge
    | tick => simp [goodRound] at hge

/-- … and the next fully successful round after the count is used up marks it up. -/
theorem gradual_restored_after_countdown (c : Cfg) (hp : c.policy = .gradual) (hd : 0 < c.downAfter)
    (s : St) (now : Int) (p : Probe) (q : SlaveQ) (hg : goodRound c s (.replica now p q) = true)
    (hdown : s.rep.up = false) (hz : s.cscc ≤ 0) :
    (tryRecover c s now p q).rep.up = true ∧ (tryRecover c s now p q).lastRec = now := by
  simp only [goodRound, Bool.and_eq_true] at hg
  obtain ⟨hok, hal⟩ := hg
  simp only [tryRecover, hp, gradualRecovery_round]
  simp [hok, hal, hdown, lastOkAfter, gradualAsks, hd, hz]

/-- **A failed probe re-arms the count** ("consecutive"): a down replica whose
    probe fails needs `penalty errorRecoveryCount` successful rounds again. -/
theorem gradual_failed_probe_rearms (c : Cfg) (hp : c.policy = .gradual) (s : St) (now : Int) (p : Probe)
    (q : SlaveQ) (hdown : s.rep.up = false) (hfail : probeOk c p = false) :
    (tryRecover c s now p q).cscc = penalty s.erc ∧ (tryRecover c s now p q).rep.up = false := by
  simp only [tryRecover, hp, gradualRecovery_round]
  simp [hfail, hdown, syncAlive_noconn]

example : ∃ (c : Cfg) (s : St), c.policy = .gradual ∧ 0 < c.downAfter ∧
    goodRound c s (.replica 1004 ⟨.conn, []⟩ (.row (.u64 0) (.str "Yes") (.str "Yes"))) = true ∧
    masterDown c s = false :=
  ⟨⟨true, 0, 12, 5, false, true⟩, St.init 1000, by decide, by decide, by decide, by decide⟩

/-- … also during a master outage, where the replication answer is not looked at. -/
example : ∃ (c : Cfg) (s : St), c.policy = .gradual ∧ 0 < c.downAfter ∧
    goodRound c s (.replica 1004 ⟨.conn, []⟩ (.row (.u64 9) (.str "No") (.str "Yes"))) = true ∧
    masterDown c s = true :=
  ⟨⟨true, 0, 12, 5, false, true⟩, { St.init 1000 with master := ⟨false, 1000⟩ }, by decide, by decide, by decide, by decide⟩

/-! ### the repaired class on its old failing input -/

/-- The history on which the pinned code violated the property (class
    `hard-restored-in-cooldown-master-down`, repaired by fix 5e8b660): hard
    policy with a 30 s cool-down, the master is marked down at 1012, the
    breaker takes the replica down at 1013.  The replica round at 1014 — one
    second into the cool-down — now leaves it down; the round at 1043 restores
    it; the judge accepts this and rejects the old behaviour. -/
theorem hard_cooldown_master_down_repaired :
    let c : Cfg := ⟨true, 30, 32, 0, false, true⟩
    let evs : List Ev := [.master 1032 ⟨.err, []⟩, .fuse 1033 true true, .replica 1034 ⟨.conn, []⟩ .empty,
                          .replica 1063 ⟨.conn, []⟩ .empty]
    c.policy = .hard ∧
    (trace c (St.init 1000) evs).map St.obs = [⟨true, false⟩, ⟨false, false⟩, ⟨false, false⟩, ⟨true, false⟩] ∧
    latestFuse c 0 evs = 1033 ∧
    judge27 c (G27.init 1000) evs ((trace c (St.init 1000) evs).map St.obs) = [] ∧
    judge27 c (G27.init 1000) evs [⟨true, false⟩, ⟨false, false⟩, ⟨true, false⟩, ⟨true, false⟩]
      = [.hardRestoredInCooldownMasterDown] := by
  decide

end GaeaVerif.C27
