import GaeaVerif.Model.ResultStream
import GaeaVerif.Gen.Consts
/-
  C39 — Results are complete or an error, never silently truncated.

  Theorems about `Model/ResultStream.lean` (tie to the code: correspondence
  `gvh run C39` against a scripted backend through the real DirectConnection,
  connection pool, SessionExecutor and ClientConn; `Gen.maxPayloadLen`).
  All statements hold for every backend stream `s` (any length, any row
  sizes, ending any way), every chunk threshold `T` and every row limit
  `maxRows` — no bound anywhere.
-/
namespace GaeaVerif.C39
open GaeaVerif GaeaVerif.ResultStream

/-- The packets of a list of rows. -/
def rowsOf (rs : List Row) : List Pkt := rs.map Pkt.row

@[simp] theorem rowsOf_nil : rowsOf [] = [] := rfl
@[simp] theorem rowsOf_cons (r : Row) (rs : List Row) : rowsOf (r :: rs) = .row r :: rowsOf rs := rfl
@[simp] theorem rowsOf_append (a b : List Row) : rowsOf (a ++ b) = rowsOf a ++ rowsOf b := by
  simp [rowsOf]
@[simp] theorem rowsOf_length (a : List Row) : (rowsOf a).length = a.length := by simp [rowsOf]

/-- `s` is a complete backend result: the rows `rows`, the closing EOF, then
    whatever the backend sends next (`rest`; nothing for a MySQL server). -/
def Complete (s : List Pkt) (rows : List Row) (rest : List Pkt) : Prop :=
  s = rowsOf rows ++ .eof :: rest

/-- The row limit admits a result of `n` rows (`maxRows ≤ 0`: no limit). -/
def Within (maxRows : Int) (n : Nat) : Prop := maxRows ≤ 0 ∨ (n : Int) ≤ maxRows

/-! ### readResultRows -/

/-- What a successful `readResultRows` has consumed: some rows `new`
    (appended to the result), then — unless it stopped at the size threshold
    with rows pending — the closing EOF. -/
theorem readRows_ok {T : Nat} {m : Int} :
    ∀ {s : List Pkt} {acc : List Row} {n buf : Nat} {acc' : List Row} {more : Bool} {rest : List Pkt},
      readRows T m s acc n buf = .ok acc' more rest →
      ∃ new, acc' = new.reverse ++ acc ∧
        s = rowsOf new ++ (if more then rest else .eof :: rest) ∧
        (more = true → new ≠ []) ∧
        (m > 0 → (n : Int) ≤ m → ((n + new.length : Nat) : Int) ≤ m) := by
  intro s
  induction s with
  | nil => intro acc n buf acc' more rest h; simp [readRows] at h
  | cons p t ih =>
    intro acc n buf acc' more rest h
    cases p with
    | eof =>
      simp only [readRows, Read.ok.injEq] at h
      obtain ⟨rfl, rfl, rfl⟩ := h
      exact ⟨[], by simp, by simp, by simp, by intro _ h; simpa using h⟩
    | err => simp [readRows] at h
    | row r =>
      simp only [readRows] at h
      by_cases hlim : m > 0 ∧ ((n + 1 : Nat) : Int) > m
      · rw [if_pos hlim] at h
        cases hd : drainResults t <;> rw [hd] at h <;> cases h
      · rw [if_neg hlim] at h
        by_cases hb : buf + r.size > T
        · rw [if_pos hb] at h
          simp only [Read.ok.injEq] at h
          obtain ⟨rfl, rfl, rfl⟩ := h
          refine ⟨[r], by simp, by simp, by simp, ?_⟩
          intro hm _
          simp only [List.length_cons, List.length_nil]
          have : ¬ ((n + 1 : Nat) : Int) > m := fun h' => hlim ⟨hm, h'⟩
          omega
        · rw [if_neg hb] at h
          obtain ⟨new, h1, h2, h3, h4⟩ := ih h
          refine ⟨r :: new, by simp [h1], by simp [h2], by simp, ?_⟩
          intro hm _
          have hn1 : ((n + 1 : Nat) : Int) ≤ m := by
            have : ¬ ((n + 1 : Nat) : Int) > m := fun h' => hlim ⟨hm, h'⟩
            omega
          have := h4 hm hn1
          simp only [List.length_cons]
          omega

theorem drain_ok : ∀ {s rest : List Pkt}, drainResults s = .ok rest →
    ∃ rws, s = rowsOf rws ++ .eof :: rest := by
  intro s
  induction s with
  | nil => intro rest h; simp [drainResults] at h
  | cons p t ih =>
    intro rest h
    cases p with
    | eof =>
      simp only [drainResults, Drain.ok.injEq] at h
      subst h; exact ⟨[], by simp⟩
    | err => simp [drainResults] at h
    | row r =>
      obtain ⟨rws, h1⟩ := ih (by simpa [drainResults] using h)
      exact ⟨r :: rws, by simp [h1]⟩

/-- After an error return that leaves the connection usable, the stream
    stands just behind the ERR / EOF that closed the result. -/
theorem readRows_err_rest {T : Nat} {m : Int} :
    ∀ {s : List Pkt} {acc : List Row} {n buf : Nat} {rest : List Pkt},
      (readRows T m s acc n buf = .errBackend rest → ∃ rws, s = rowsOf rws ++ .err :: rest) ∧
      (readRows T m s acc n buf = .errLimit rest → ∃ rws, s = rowsOf rws ++ .eof :: rest) := by
  intro s
  induction s with
  | nil => intro acc n buf rest; simp [readRows]
  | cons p t ih =>
    intro acc n buf rest
    cases p with
    | eof => simp [readRows]
    | err =>
      simp only [readRows, Read.errBackend.injEq]
      exact ⟨fun h => ⟨[], by simp [h]⟩, by simp⟩
    | row r =>
      simp only [readRows]
      by_cases hlim : m > 0 ∧ ((n + 1 : Nat) : Int) > m
      · rw [if_pos hlim]
        cases hd : drainResults t with
        | ok rest' =>
          refine ⟨by simp, ?_⟩
          intro h
          simp only [Read.errLimit.injEq] at h
          subst h
          obtain ⟨rws, h1⟩ := drain_ok hd
          exact ⟨r :: rws, by simp [h1]⟩
        | failed => simp
      · rw [if_neg hlim]
        by_cases hb : buf + r.size > T
        · rw [if_pos hb]; simp
        · rw [if_neg hb]
          have := @ih (r :: acc) (n + 1) (buf + r.size) rest
          refine ⟨fun h => ?_, fun h => ?_⟩
          · obtain ⟨rws, h1⟩ := this.1 h; exact ⟨r :: rws, by simp [h1]⟩
          · obtain ⟨rws, h1⟩ := this.2 h; exact ⟨r :: rws, by simp [h1]⟩

/-- Rows within the limit are read until the threshold stops the chunk: either
    all of them (and the reader goes on with what follows), or a non-empty
    first part, with the rest left pending. -/
theorem readRows_rows (T : Nat) (m : Int) :
    ∀ (rows : List Row) (tail : List Pkt) (acc : List Row) (n buf : Nat),
      Within m (n + rows.length) →
      (∃ buf', readRows T m (rowsOf rows ++ tail) acc n buf =
          readRows T m tail (rows.reverse ++ acc) (n + rows.length) buf') ∨
      (∃ pre post, rows = pre ++ post ∧ pre ≠ [] ∧
          readRows T m (rowsOf rows ++ tail) acc n buf = .ok (pre.reverse ++ acc) true (rowsOf post ++ tail)) := by
  intro rows
  induction rows with
  | nil => intro tail acc n buf _; exact .inl ⟨buf, by simp⟩
  | cons r rs ih =>
    intro tail acc n buf hw
    have hlim : ¬ (m > 0 ∧ ((n + 1 : Nat) : Int) > m) := by
      intro ⟨h1, h2⟩
      cases hw with
      | inl h => omega
      | inr h => simp only [List.length_cons] at h; omega
    simp only [rowsOf_cons, List.cons_append, readRows]
    rw [if_neg hlim]
    by_cases hb : buf + r.size > T
    · rw [if_pos hb]
      exact .inr ⟨[r], rs, by simp, by simp, by simp⟩
    · rw [if_neg hb]
      have hw' : Within m (n + 1 + rs.length) := by
        simp only [List.length_cons] at hw
        have : n + 1 + rs.length = n + (rs.length + 1) := by omega
        rw [this]; exact hw
      cases ih tail (r :: acc) (n + 1) (buf + r.size) hw' with
      | inl h =>
        obtain ⟨buf', h⟩ := h
        refine .inl ⟨buf', ?_⟩
        rw [h]
        have e1 : rs.reverse ++ r :: acc = (r :: rs).reverse ++ acc := by simp
        have e2 : n + 1 + rs.length = n + (r :: rs).length := by simp; omega
        rw [e1, e2]
      | inr h =>
        obtain ⟨pre, post, h1, h2, h3⟩ := h
        exact .inr ⟨r :: pre, post, by simp [h1], by simp, by simp [h3]⟩

/-- The reader failed with the row-limit error. -/
def isLimit : Read → Prop
  | .errLimit _ => True
  | .errLimitDrain => True
  | _ => False

/-- Rows beyond the limit: the reader fails with the limit error, unless the
    threshold stops the chunk first, still within the limit. -/
theorem readRows_over (T : Nat) (m : Int) (hm : m > 0) :
    ∀ (rows : List Row) (tail : List Pkt) (acc : List Row) (n buf : Nat),
      (n : Int) ≤ m → ((n + rows.length : Nat) : Int) > m →
      isLimit (readRows T m (rowsOf rows ++ tail) acc n buf) ∨
      (∃ pre post, rows = pre ++ post ∧ pre ≠ [] ∧ ((n + pre.length : Nat) : Int) ≤ m ∧
          readRows T m (rowsOf rows ++ tail) acc n buf = .ok (pre.reverse ++ acc) true (rowsOf post ++ tail)) := by
  intro rows
  induction rows with
  | nil => intro tail acc n buf h1 h2; simp at h2; omega
  | cons r rs ih =>
    intro tail acc n buf h1 h2
    simp only [rowsOf_cons, List.cons_append, readRows]
    by_cases hl : ((n + 1 : Nat) : Int) > m
    · rw [if_pos ⟨hm, hl⟩]
      left
      cases drainResults (rowsOf rs ++ tail) <;> simp [isLimit]
    · have hlim : ¬ (m > 0 ∧ ((n + 1 : Nat) : Int) > m) := fun h => hl h.2
      rw [if_neg hlim]
      by_cases hb : buf + r.size > T
      · rw [if_pos hb]
        exact .inr ⟨[r], rs, by simp, by simp, by simp; omega, by simp⟩
      · rw [if_neg hb]
        have h2' : ((n + 1 + rs.length : Nat) : Int) > m := by
          simp only [List.length_cons] at h2
          have : n + 1 + rs.length = n + (rs.length + 1) := by omega
          rw [this]; exact h2
        cases ih tail (r :: acc) (n + 1) (buf + r.size) (by omega) h2' with
        | inl h => exact .inl h
        | inr h =>
          obtain ⟨pre, post, e1, e2, e3, e4⟩ := h
          refine .inr ⟨r :: pre, post, by simp [e1], by simp, ?_, by simp [e4]⟩
          simp only [List.length_cons]
          have : n + (pre.length + 1) = n + 1 + pre.length := by omega
          rw [this]; exact e3

theorem isLimit_cases {r : Read} (h : isLimit r) : (∃ rest, r = .errLimit rest) ∨ r = .errLimitDrain := by
  cases r <;> simp [isLimit] at h ⊢

/-! ### sharded statements -/

theorem fetchAll_step (T : Nat) (m : Int) (fuel : Nat) (s : List Pkt) (acc : List Row) (n : Nat) :
    fetchAll T m (fuel + 1) s acc n =
      match readRows T m s acc n 0 with
      | .ok rowsRev' more rest =>
        if more then fetchAll T m fuel rest rowsRev' rowsRev'.length
        else .ok rowsRev'.reverse (.pooled rest)
      | .errConn => .errConn
      | .errBackend rest => .errBackend (.pooled rest)
      | .errLimit rest => .errLimit (.pooled rest)
      | .errLimitDrain => .errLimit .closed := rfl

/-- **C39 (sharded, never truncated).** Whatever the backend stream, the chunk
    threshold and the limit: if a shard's execution returns rows, they are all
    the rows of a *complete* backend result, in order (the stream is those
    rows, then the EOF), within the limit, and the connection goes back to the
    pool with nothing of the result unread. -/
theorem fetchAll_ok (T : Nat) (m : Int) :
    ∀ (fuel : Nat) (s : List Pkt) (acc : List Row) (n : Nat) (rows : List Row) (fate : Fate),
      n = acc.length → (m > 0 → (n : Int) ≤ m) → fetchAll T m fuel s acc n = .ok rows fate →
      ∃ new rest, rows = acc.reverse ++ new ∧ Complete s new rest ∧ fate = .pooled rest ∧
        (m > 0 → ((acc.length + new.length : Nat) : Int) ≤ m) := by
  intro fuel
  induction fuel with
  | zero => intro s acc n rows fate _ _ h; simp [fetchAll] at h
  | succ fuel ih =>
    intro s acc n rows fate hn hnm h
    rw [fetchAll_step] at h
    cases hr : readRows T m s acc n 0 with
    | ok acc' more rest =>
      rw [hr] at h
      obtain ⟨new, e1, e2, e3, e4⟩ := readRows_ok hr
      have hlen : acc'.length = n + new.length := by rw [e1, hn]; simp; omega
      cases more with
      | true =>
        simp only [if_true] at h e2
        obtain ⟨new2, rest2, f1, f2, f3, f4⟩ := ih rest acc' acc'.length rows fate rfl
          (fun hm => by rw [hlen]; exact e4 hm (hnm hm)) h
        refine ⟨new ++ new2, rest2, ?_, ?_, f3, ?_⟩
        · rw [f1, e1]; simp
        · rw [Complete] at f2 ⊢
          rw [e2, f2]; simp
        · intro hm
          have := f4 hm
          rw [hlen, hn] at this
          simp only [List.length_append]
          have e : acc.length + (new.length + new2.length) = acc.length + new.length + new2.length := by omega
          rw [e]; exact this
      | false =>
        simp only [Bool.false_eq_true, if_false, Shard.ok.injEq] at h e2
        obtain ⟨rfl, rfl⟩ := h
        refine ⟨new, rest, by rw [e1]; simp, by simpa [Complete] using e2, rfl, ?_⟩
        intro hm; have := e4 hm (hnm hm); rw [hn] at this; exact this
    | errConn => rw [hr] at h; cases h
    | errBackend r => rw [hr] at h; cases h
    | errLimit r => rw [hr] at h; cases h
    | errLimitDrain => rw [hr] at h; cases h

theorem execShard_ok (T : Nat) (m : Int) (s : List Pkt) (rows : List Row) (fate : Fate)
    (h : execShard T m s = .ok rows fate) :
    ∃ rest, Complete s rows rest ∧ fate = .pooled rest ∧ (m > 0 → (rows.length : Int) ≤ m) := by
  obtain ⟨new, rest, h1, h2, h3, h4⟩ := fetchAll_ok T m _ s [] 0 rows fate rfl (by intro h; simp; omega) h
  simp only [List.reverse_nil, List.nil_append] at h1
  subst h1
  exact ⟨rest, h2, h3, by simpa using h4⟩

/-- **C39 (sharded, delivered in full).** A complete shard result within the
    limit is returned in full, however large it is — the chunks the size
    threshold cuts it into are fetched one after the other. -/
theorem fetchAll_complete (T : Nat) (m : Int) :
    ∀ (fuel : Nat) (rows : List Row) (rest : List Pkt) (acc : List Row) (n : Nat),
      n = acc.length → rows.length < fuel → Within m (n + rows.length) →
      fetchAll T m fuel (rowsOf rows ++ .eof :: rest) acc n = .ok (acc.reverse ++ rows) (.pooled rest) := by
  intro fuel
  induction fuel with
  | zero => intro rows rest acc n _ h; omega
  | succ fuel ih =>
    intro rows rest acc n hn hf hw
    rw [fetchAll_step]
    cases readRows_rows T m rows (.eof :: rest) acc n 0 hw with
    | inl h =>
      obtain ⟨buf', h⟩ := h
      rw [h]
      simp [readRows]
    | inr h =>
      obtain ⟨pre, post, e1, e2, e3⟩ := h
      rw [e3]
      simp only [if_true]
      have hpre : 0 < pre.length := List.length_pos_iff.mpr e2
      have hlen : (pre.reverse ++ acc).length = n + pre.length := by simp [hn]; omega
      rw [ih post rest (pre.reverse ++ acc) _ rfl
        (by rw [e1] at hf; simp only [List.length_append] at hf; omega)
        (by rw [hlen]; rw [e1] at hw; simp only [List.length_append] at hw
            have : n + pre.length + post.length = n + (pre.length + post.length) := by omega
            rw [this]; exact hw)]
      rw [e1]; simp

theorem execShard_complete (T : Nat) (m : Int) (rows : List Row) (rest : List Pkt)
    (hw : Within m rows.length) :
    execShard T m (rowsOf rows ++ .eof :: rest) = .ok rows (.pooled rest) := by
  have := fetchAll_complete T m ((rowsOf rows ++ Pkt.eof :: rest).length + 1) rows rest [] 0 rfl
    (by simp; omega) (by simpa using hw)
  simpa [execShard] using this

/-- **C39 (sharded, row limit).** A shard whose backend sends more rows than
    the limit fails with the limit error — wherever the chunk boundaries fall
    and whatever follows those rows. -/
theorem fetchAll_over (T : Nat) (m : Int) (hm : m > 0) :
    ∀ (fuel : Nat) (rows : List Row) (tail : List Pkt) (acc : List Row) (n : Nat),
      n = acc.length → rows.length < fuel → (n : Int) ≤ m → ((n + rows.length : Nat) : Int) > m →
      ∃ fate, fetchAll T m fuel (rowsOf rows ++ tail) acc n = .errLimit fate := by
  intro fuel
  induction fuel with
  | zero => intro rows tail acc n _ h; omega
  | succ fuel ih =>
    intro rows tail acc n hn hf h1 h2
    rw [fetchAll_step]
    cases readRows_over T m hm rows tail acc n 0 h1 h2 with
    | inl h =>
      cases isLimit_cases h with
      | inl h => obtain ⟨r, h⟩ := h; rw [h]; exact ⟨_, rfl⟩
      | inr h => rw [h]; exact ⟨_, rfl⟩
    | inr h =>
      obtain ⟨pre, post, e1, e2, e3, e4⟩ := h
      rw [e4]
      simp only [if_true]
      have hpre : 0 < pre.length := List.length_pos_iff.mpr e2
      have hlen : (pre.reverse ++ acc).length = n + pre.length := by simp [hn]; omega
      apply ih post tail (pre.reverse ++ acc) _ rfl
      · rw [e1] at hf; simp only [List.length_append] at hf; omega
      · rw [hlen]; exact e3
      · rw [hlen]; rw [e1] at h2; simp only [List.length_append] at h2
        have : n + pre.length + post.length = n + (pre.length + post.length) := by omega
        rw [this]; exact h2

theorem execShard_over (T : Nat) (m : Int) (hm : m > 0) (rows : List Row) (tail : List Pkt)
    (h : (rows.length : Int) > m) :
    ∃ fate, execShard T m (rowsOf rows ++ tail) = .errLimit fate := by
  have := fetchAll_over T m hm ((rowsOf rows ++ tail).length + 1) rows tail [] 0 rfl
    (by simp; omega) (by simp; omega) (by simpa using h)
  simpa [execShard] using this

theorem executeSQLs_nil (T : Nat) (m : Int) : executeSQLs T m [] = some [] := by
  simp [executeSQLs]

theorem executeSQLs_cons (T : Nat) (m : Int) (s : List Pkt) (ss : List (List Pkt)) :
    executeSQLs T m (s :: ss) =
      match execShard T m s, executeSQLs T m ss with
      | .ok rows _, some rss => some (rows :: rss)
      | _, _ => none := by
  simp only [executeSQLs, List.map_cons, List.all_cons]
  by_cases hall : (List.map (execShard T m) ss).all Shard.isOk = true
  · cases hs : execShard T m s <;> simp [Shard.isOk, Shard.rows, hall]
  · cases hs : execShard T m s <;> simp [Shard.isOk, hall]

/-- `P` holds of every shard and its returned rows. -/
inductive ShardWise (P : List Pkt → List Row → Prop) : List (List Pkt) → List (List Row) → Prop
  | nil : ShardWise P [] []
  | cons {s : List Pkt} {rows : List Row} {ss : List (List Pkt)} {rss : List (List Row)} :
      P s rows → ShardWise P ss rss → ShardWise P (s :: ss) (rows :: rss)

/-- **C39, sharded statements (`shard_complete_or_error`).** If `ExecuteSQLs`
    returns results at all, then it returns one row list per shard, and for
    every shard these are exactly the rows of a complete backend result (rows,
    then EOF), within the limit; otherwise the statement fails. Nothing is
    ever cut short. -/
theorem shard_complete_or_error (T : Nat) (m : Int) :
    ∀ (shards : List (List Pkt)) (rss : List (List Row)),
      executeSQLs T m shards = some rss →
      ShardWise (fun s rows => ∃ rest, Complete s rows rest ∧ (m > 0 → (rows.length : Int) ≤ m))
        shards rss := by
  intro shards
  induction shards with
  | nil =>
    intro rss h
    rw [executeSQLs_nil] at h
    cases h; exact .nil
  | cons s ss ih =>
    intro rss h
    rw [executeSQLs_cons] at h
    cases hs : execShard T m s with
    | ok rows fate =>
      cases hss : executeSQLs T m ss with
      | none => rw [hs, hss] at h; cases h
      | some rss' =>
        rw [hs, hss] at h
        simp only [Option.some.injEq] at h
        subst h
        obtain ⟨rest, h1, _, h3⟩ := execShard_ok T m s rows fate hs
        exact .cons ⟨rest, h1, h3⟩ (ih _ hss)
    | errLimit f => rw [hs] at h; cases h
    | errBackend f => rw [hs] at h; cases h
    | errConn => rw [hs] at h; cases h
    | fuel => rw [hs] at h; cases h

/-- **C39, sharded statements, delivered in full.** When every shard's backend
    result is complete and within the limit, `ExecuteSQLs` returns all rows of
    all shards (whatever their sizes). -/
theorem shard_delivered_in_full (T : Nat) (m : Int) (parts : List (List Row × List Pkt))
    (hw : ∀ p ∈ parts, Within m p.1.length) :
    executeSQLs T m (parts.map fun p => rowsOf p.1 ++ .eof :: p.2) = some (parts.map (·.1)) := by
  induction parts with
  | nil => simp [executeSQLs_nil]
  | cons p ps ih =>
    have h1 := execShard_complete T m p.1 p.2 (hw p (by simp))
    have h2 := ih (fun q hq => hw q (by simp [hq]))
    simp only [List.map_cons]
    rw [executeSQLs_cons, h1, h2]

/-- **C39, sharded statements, row limit (`row_limit`).** If some shard's
    backend sends more rows than the limit, the statement fails. -/
theorem shard_row_limit (T : Nat) (m : Int) (hm : m > 0) :
    ∀ (shards : List (List Pkt)) (rows : List Row) (tail : List Pkt),
      rowsOf rows ++ tail ∈ shards → (rows.length : Int) > m →
      executeSQLs T m shards = none := by
  intro shards
  induction shards with
  | nil => intro rows tail hin; simp at hin
  | cons s ss ih =>
    intro rows tail hin h
    rw [executeSQLs_cons]
    cases List.mem_cons.mp hin with
    | inl he =>
      obtain ⟨fate, hf⟩ := execShard_over T m hm rows tail h
      rw [← he, hf]
    | inr hi =>
      rw [ih rows tail hi h]
      cases execShard T m s <;> rfl

example : executeSQLs 10 2 [[.row ⟨0, 6⟩, .row ⟨1, 6⟩, .eof], [.row ⟨0, 20⟩, .eof]] =
    some [[⟨0, 6⟩, ⟨1, 6⟩], [⟨0, 20⟩]] := by decide
example : executeSQLs 10 2 [[.row ⟨0, 6⟩, .row ⟨1, 6⟩, .row ⟨2, 6⟩, .eof]] = none := by decide
example : executeSQLs 10 (-1) [[.row ⟨0, 6⟩, .row ⟨1, 6⟩]] = none := by decide

/-! ### unsharded statements: streaming to the client -/

theorem streamMore_step (T : Nat) (m : Int) (fuel : Nat) (s : List Pkt) (outRev : List Row) (d : Nat) :
    streamMore T m (fuel + 1) s outRev d =
      match readRows T m s [] 0 0 with
      | .ok chunkRev more rest =>
        if m > 0 ∧ ((d + chunkRev.length : Nat) : Int) > m then
          ⟨outRev.reverse, .err .limit, if more then .closed else .pooled rest⟩
        else if more then streamMore T m fuel rest (chunkRev ++ outRev) (d + chunkRev.length)
        else ⟨(chunkRev ++ outRev).reverse, .eof, .pooled rest⟩
      | .errConn => ⟨outRev.reverse, .closed, .closed⟩
      | .errBackend rest => ⟨outRev.reverse, .err .backend, .pooled rest⟩
      | .errLimit rest => ⟨outRev.reverse, .err .limit, .pooled rest⟩
      | .errLimitDrain => ⟨outRev.reverse, .err .limit, .closed⟩ := rfl

/-- What the streaming loop guarantees about a client view `c` for the backend
    stream `s`, given `outRev` already sent and `d` rows counted. -/
def StreamInv (m : Int) (s : List Pkt) (outRev : List Row) (d : Nat) (c : Client) : Prop :=
  ∃ new rest, c.rows = outRev.reverse ++ new ∧ s = rowsOf new ++ rest ∧
    (c.fin = .eof → ∃ rest', Complete s new rest' ∧ c.fate = .pooled rest' ∧
      (m > 0 → ((d + new.length : Nat) : Int) ≤ m))

theorem StreamInv.trivial (m : Int) (s : List Pkt) (outRev : List Row) (d : Nat) (c : Client)
    (h1 : c.rows = outRev.reverse) (h2 : c.fin ≠ .eof) : StreamInv m s outRev d c :=
  ⟨[], s, by simp [h1], by simp, fun h => absurd h h2⟩

/-- Invariant of the streaming loop. -/
theorem streamMore_sound (T : Nat) (m : Int) :
    ∀ (fuel : Nat) (s : List Pkt) (outRev : List Row) (d : Nat),
      StreamInv m s outRev d (streamMore T m fuel s outRev d) := by
  intro fuel
  induction fuel with
  | zero => intro s outRev d; exact StreamInv.trivial _ _ _ _ _ rfl (by simp [streamMore])
  | succ fuel ih =>
    intro s outRev d
    rw [streamMore_step]
    cases hr : readRows T m s [] 0 0 with
    | ok chunkRev more rest =>
      obtain ⟨new, e1, e2, e3, e4⟩ := readRows_ok hr
      simp only [List.append_nil] at e1
      simp only
      by_cases hlim : m > 0 ∧ ((d + chunkRev.length : Nat) : Int) > m
      · rw [if_pos hlim]
        exact StreamInv.trivial _ _ _ _ _ rfl (by simp)
      · rw [if_neg hlim]
        cases more with
        | true =>
          simp only [if_true] at e2 ⊢
          obtain ⟨new2, rest2, f1, f2, f3⟩ := ih rest (chunkRev ++ outRev) (d + chunkRev.length)
          refine ⟨new ++ new2, rest2, ?_, ?_, ?_⟩
          · rw [f1, e1]; simp
          · rw [e2, f2]; simp
          · intro hfin
            obtain ⟨rest', g1, g2, g3⟩ := f3 hfin
            refine ⟨rest', ?_, g2, ?_⟩
            · rw [Complete] at g1 ⊢; rw [e2, g1]; simp
            · intro hm; have := g3 hm
              rw [e1] at this
              simp only [List.length_append, List.length_reverse] at this ⊢
              have e : d + (new.length + new2.length) = d + new.length + new2.length := by omega
              rw [e]; exact this
        | false =>
          simp only [Bool.false_eq_true, if_false] at e2 ⊢
          refine ⟨new, .eof :: rest, by rw [e1]; simp, e2, ?_⟩
          intro _
          refine ⟨rest, by simpa [Complete] using e2, rfl, ?_⟩
          intro hm
          have : ¬ ((d + chunkRev.length : Nat) : Int) > m := fun h' => hlim ⟨hm, h'⟩
          rw [e1] at this
          simp only [List.length_reverse] at this
          omega
    | errConn => exact StreamInv.trivial _ _ _ _ _ rfl (by simp)
    | errBackend r => exact StreamInv.trivial _ _ _ _ _ rfl (by simp)
    | errLimit r => exact StreamInv.trivial _ _ _ _ _ rfl (by simp)
    | errLimitDrain => exact StreamInv.trivial _ _ _ _ _ rfl (by simp)

theorem unshard_eq (T : Nat) (m : Int) (s : List Pkt) :
    unshard T m s =
      match readRows T m s [] 0 0 with
      | .ok rowsRev more rest =>
        if more then streamMore T m (rest.length + 1) rest rowsRev rowsRev.length
        else ⟨rowsRev.reverse, .eof, .pooled rest⟩
      | .errConn => ⟨[], .closed, .closed⟩
      | .errBackend rest => ⟨[], .err .backend, .pooled rest⟩
      | .errLimit rest => ⟨[], .err .limit, .pooled rest⟩
      | .errLimitDrain => ⟨[], .err .limit, .closed⟩ := rfl

/-- **C39, unsharded statements (`unshard_complete`).** For every backend
    stream, threshold and limit: the rows the client receives are, in order,
    the first packets of the backend's answer (nothing invented, duplicated or
    reordered); and if the client is sent the closing EOF — i.e. is told the
    result is complete — then they are *all* rows of a complete backend result
    (the stream is exactly those rows followed by the backend's EOF), their
    number respects the limit, and the backend connection returns to the pool
    standing right behind that EOF. Otherwise the client gets an error packet
    or a closed connection, never a shortened result presented as complete. -/
theorem unshard_complete (T : Nat) (m : Int) (s : List Pkt) :
    (∃ rest, s = rowsOf (unshard T m s).rows ++ rest) ∧
    ((unshard T m s).fin = .eof → ∃ rest', Complete s (unshard T m s).rows rest' ∧
      (unshard T m s).fate = .pooled rest' ∧ (m > 0 → ((unshard T m s).rows.length : Int) ≤ m)) := by
  rw [unshard_eq]
  cases hr : readRows T m s [] 0 0 with
  | ok rowsRev more rest =>
    obtain ⟨new, e1, e2, e3, e4⟩ := readRows_ok hr
    simp only [List.append_nil] at e1
    have hrr : rowsRev.reverse = new := by rw [e1]; simp
    have hlen : rowsRev.length = new.length := by rw [e1]; simp
    simp only
    cases more with
    | true =>
      simp only [if_true] at e2 ⊢
      obtain ⟨new2, rest2, f1, f2, f3⟩ := streamMore_sound T m (rest.length + 1) rest rowsRev rowsRev.length
      rw [f1]
      refine ⟨⟨rest2, by rw [e2, f2, hrr]; simp⟩, ?_⟩
      intro hfin
      obtain ⟨rest', g1, g2, g3⟩ := f3 hfin
      refine ⟨rest', ?_, g2, ?_⟩
      · rw [Complete] at g1 ⊢; rw [e2, g1, hrr]; simp
      · intro hm; have := g3 hm
        rw [hrr]; rw [hlen] at this
        simpa using this
    | false =>
      simp only [Bool.false_eq_true, if_false] at e2 ⊢
      rw [hrr]
      refine ⟨⟨.eof :: rest, e2⟩, fun _ => ⟨rest, by simpa [Complete] using e2, rfl, ?_⟩⟩
      intro hm; have := e4 hm (by simp; omega); simpa using this
  | errConn => exact ⟨⟨s, by simp⟩, by simp⟩
  | errBackend r => exact ⟨⟨s, by simp⟩, by simp⟩
  | errLimit r => exact ⟨⟨s, by simp⟩, by simp⟩
  | errLimitDrain => exact ⟨⟨s, by simp⟩, by simp⟩

theorem streamMore_complete (T : Nat) (m : Int) :
    ∀ (fuel : Nat) (rows : List Row) (rest : List Pkt) (outRev : List Row) (d : Nat),
      rows.length < fuel → Within m (d + rows.length) →
      streamMore T m fuel (rowsOf rows ++ .eof :: rest) outRev d =
        ⟨outRev.reverse ++ rows, .eof, .pooled rest⟩ := by
  intro fuel
  induction fuel with
  | zero => intro rows rest outRev d h; omega
  | succ fuel ih =>
    intro rows rest outRev d hf hw
    have hw0 : Within m (0 + rows.length) := by
      cases hw with
      | inl h => exact .inl h
      | inr h => right; simp only [Nat.zero_add]; omega
    rw [streamMore_step]
    cases readRows_rows T m rows (.eof :: rest) [] 0 0 hw0 with
    | inl h =>
      obtain ⟨buf', h⟩ := h
      rw [h]
      simp only [readRows, List.append_nil]
      have hlim : ¬ (m > 0 ∧ ((d + rows.reverse.length : Nat) : Int) > m) := by
        intro ⟨h1, h2⟩
        simp only [List.length_reverse] at h2
        cases hw with
        | inl h => omega
        | inr h => omega
      rw [if_neg hlim]
      simp
    | inr h =>
      obtain ⟨pre, post, e1, e2, e3⟩ := h
      rw [e3]
      simp only [List.append_nil]
      have hpre : 0 < pre.length := List.length_pos_iff.mpr e2
      have hlim : ¬ (m > 0 ∧ ((d + pre.reverse.length : Nat) : Int) > m) := by
        intro ⟨h1, h2⟩
        simp only [List.length_reverse] at h2
        rw [e1] at hw
        simp only [List.length_append] at hw
        cases hw with
        | inl h => omega
        | inr h => omega
      rw [if_neg hlim]
      simp only [if_true]
      rw [ih post rest (pre.reverse ++ outRev) _
        (by rw [e1] at hf; simp only [List.length_append] at hf; omega)
        (by rw [e1] at hw; simp only [List.length_append, List.length_reverse] at hw ⊢
            have : d + pre.length + post.length = d + (pre.length + post.length) := by omega
            rw [this]; exact hw)]
      rw [e1]; simp

/-- **C39, unsharded statements, delivered in full (`row_limit`, second
    half).** A complete backend result with no more rows than the limit (or
    with no limit) reaches the client in full — all rows in order, then the
    EOF — whatever its size and however many chunks it is streamed in; the
    backend connection returns to the pool right behind the result. -/
theorem unshard_delivered_in_full (T : Nat) (m : Int) (rows : List Row) (rest : List Pkt)
    (hw : Within m rows.length) :
    unshard T m (rowsOf rows ++ .eof :: rest) = ⟨rows, .eof, .pooled rest⟩ := by
  rw [unshard_eq]
  cases readRows_rows T m rows (.eof :: rest) [] 0 0 (by simpa using hw) with
  | inl h =>
    obtain ⟨buf', h⟩ := h
    rw [h]
    simp [readRows]
  | inr h =>
    obtain ⟨pre, post, e1, e2, e3⟩ := h
    rw [e3]
    simp only [List.append_nil, if_true]
    have hpre : 0 < pre.length := List.length_pos_iff.mpr e2
    rw [streamMore_complete T m _ post rest pre.reverse pre.reverse.length
      (by simp; omega)
      (by rw [e1] at hw; simpa using hw)]
    rw [e1]; simp

theorem streamMore_over (T : Nat) (m : Int) (hm : m > 0) :
    ∀ (fuel : Nat) (rows : List Row) (rest : List Pkt) (outRev : List Row) (d : Nat),
      rows.length < fuel → (d : Int) ≤ m → ((d + rows.length : Nat) : Int) > m →
      (streamMore T m fuel (rowsOf rows ++ .eof :: rest) outRev d).fin = .err .limit := by
  intro fuel
  induction fuel with
  | zero => intro rows rest outRev d h; omega
  | succ fuel ih =>
    intro rows rest outRev d hf h1 h2
    rw [streamMore_step]
    -- what one more chunk does once it stopped at the threshold after `pre`
    have chunk : ∀ pre post, rows = pre ++ post → pre ≠ [] →
        readRows T m (rowsOf rows ++ Pkt.eof :: rest) [] 0 0 = .ok (pre.reverse ++ []) true (rowsOf post ++ Pkt.eof :: rest) →
        (match readRows T m (rowsOf rows ++ Pkt.eof :: rest) [] 0 0 with
          | .ok chunkRev more rest' =>
            if m > 0 ∧ ((d + chunkRev.length : Nat) : Int) > m then
              (⟨outRev.reverse, .err .limit, if more then .closed else .pooled rest'⟩ : Client)
            else if more then streamMore T m fuel rest' (chunkRev ++ outRev) (d + chunkRev.length)
            else ⟨(chunkRev ++ outRev).reverse, .eof, .pooled rest'⟩
          | .errConn => ⟨outRev.reverse, .closed, .closed⟩
          | .errBackend rest' => ⟨outRev.reverse, .err .backend, .pooled rest'⟩
          | .errLimit rest' => ⟨outRev.reverse, .err .limit, .pooled rest'⟩
          | .errLimitDrain => ⟨outRev.reverse, .err .limit, .closed⟩).fin = .err .limit := by
      intro pre post e1 e2 e3
      rw [e3]
      simp only [List.append_nil, List.length_reverse]
      have hpre : 0 < pre.length := List.length_pos_iff.mpr e2
      by_cases hd : ((d + pre.length : Nat) : Int) > m
      · rw [if_pos ⟨hm, hd⟩]
      · have hlim : ¬ (m > 0 ∧ ((d + pre.length : Nat) : Int) > m) := fun h => hd h.2
        rw [if_neg hlim]
        simp only [if_true]
        apply ih
        · rw [e1] at hf; simp only [List.length_append] at hf; omega
        · omega
        · rw [e1] at h2; simp only [List.length_append] at h2
          have : d + pre.length + post.length = d + (pre.length + post.length) := by omega
          rw [this]; exact h2
    by_cases hc : (rows.length : Int) ≤ m
    · -- every chunk is within the limit on its own: the running count catches it
      cases readRows_rows T m rows (.eof :: rest) [] 0 0 (.inr (by simpa using hc)) with
      | inl h =>
        obtain ⟨buf', h⟩ := h
        rw [h]
        simp only [readRows, List.append_nil, List.length_reverse]
        rw [if_pos ⟨hm, h2⟩]
      | inr h =>
        obtain ⟨pre, post, e1, e2, e3⟩ := h
        exact chunk pre post e1 e2 e3
    · cases readRows_over T m hm rows (.eof :: rest) [] 0 0 (by omega) (by simpa using hc) with
      | inl h =>
        cases isLimit_cases h with
        | inl h => obtain ⟨r, h⟩ := h; rw [h]
        | inr h => rw [h]
      | inr h =>
        obtain ⟨pre, post, e1, e2, _, e4⟩ := h
        exact chunk pre post e1 e2 e4

/-- **C39, unsharded statements, row limit (`row_limit`, first half).** A
    complete backend result with more rows than the limit ends at the client
    with the limit error — also when no single 16 MiB chunk reaches the limit. -/
theorem unshard_row_limit (T : Nat) (m : Int) (hm : m > 0) (rows : List Row) (rest : List Pkt)
    (h : (rows.length : Int) > m) :
    (unshard T m (rowsOf rows ++ .eof :: rest)).fin = .err .limit := by
  rw [unshard_eq]
  cases readRows_over T m hm rows (.eof :: rest) [] 0 0 (by omega) (by simpa using h) with
  | inl h =>
    cases isLimit_cases h with
    | inl h => obtain ⟨r, h⟩ := h; rw [h]
    | inr h => rw [h]
  | inr h' =>
    obtain ⟨pre, post, e1, e2, e3, e4⟩ := h'
    rw [e4]
    simp only [List.append_nil, if_true, List.length_reverse]
    have hpre : 0 < pre.length := List.length_pos_iff.mpr e2
    apply streamMore_over T m hm
    · simp; omega
    · simpa using e3
    · rw [e1] at h; simp only [List.length_append] at h
      have : ((pre.length + post.length : Nat) : Int) > m := by simpa using h
      exact this

example : unshard 10 (-1) [.row ⟨0, 6⟩, .row ⟨1, 6⟩, .row ⟨2, 6⟩, .eof] =
    ⟨[⟨0, 6⟩, ⟨1, 6⟩, ⟨2, 6⟩], .eof, .pooled []⟩ := by decide
example : unshard 10 3 [.row ⟨0, 6⟩, .row ⟨1, 6⟩, .row ⟨2, 6⟩, .eof] =
    ⟨[⟨0, 6⟩, ⟨1, 6⟩, ⟨2, 6⟩], .eof, .pooled []⟩ := by decide
-- two chunks of two rows, limit 3: the first chunk is delivered, then the limit error
example : unshard 10 3 [.row ⟨0, 6⟩, .row ⟨1, 6⟩, .row ⟨2, 6⟩, .row ⟨3, 6⟩, .eof] =
    ⟨[⟨0, 6⟩, ⟨1, 6⟩], .err .limit, .closed⟩ := by decide
-- the backend connection is lost inside the second chunk
example : unshard 10 (-1) [.row ⟨0, 6⟩, .row ⟨1, 6⟩, .row ⟨2, 6⟩] =
    ⟨[⟨0, 6⟩, ⟨1, 6⟩], .closed, .closed⟩ := by decide

/-! ### the recycled connection is clean -/

/-- `p` is what is left of `s` right behind the packet (EOF or ERR) that
    closed the result: `s` is rows, that packet, then `p`. -/
def Behind (s p : List Pkt) : Prop :=
  ∃ rws t, s = rowsOf rws ++ t :: p ∧ (t = Pkt.eof ∨ t = Pkt.err)

theorem streamMore_fate (T : Nat) (m : Int) :
    ∀ (fuel : Nat) (s : List Pkt) (outRev : List Row) (d : Nat) (p : List Pkt),
      (streamMore T m fuel s outRev d).fate = .pooled p → Behind s p := by
  intro fuel
  induction fuel with
  | zero => intro s outRev d p h; simp [streamMore] at h
  | succ fuel ih =>
    intro s outRev d p h
    rw [streamMore_step] at h
    cases hr : readRows T m s [] 0 0 with
    | ok chunkRev more rest =>
      rw [hr] at h
      obtain ⟨new, e1, e2, e3, e4⟩ := readRows_ok hr
      simp only at h
      cases more with
      | true =>
        simp only [if_true] at e2 h
        by_cases hlim : m > 0 ∧ ((d + chunkRev.length : Nat) : Int) > m
        · rw [if_pos hlim] at h; cases h
        · rw [if_neg hlim] at h
          obtain ⟨rws, t, f1, f2⟩ := ih _ _ _ _ h
          exact ⟨new ++ rws, t, by rw [e2, f1]; simp, f2⟩
      | false =>
        simp only [Bool.false_eq_true, if_false] at e2 h
        have hp : rest = p := by
          by_cases hlim : m > 0 ∧ ((d + chunkRev.length : Nat) : Int) > m
          · rw [if_pos hlim] at h; simpa using h
          · rw [if_neg hlim] at h; simpa using h
        subst hp
        exact ⟨new, .eof, e2, .inl rfl⟩
    | errConn => rw [hr] at h; cases h
    | errBackend r =>
      rw [hr] at h
      simp only [Fate.pooled.injEq] at h
      subst h
      obtain ⟨rws, h1⟩ := (readRows_err_rest (rest := r)).1 hr
      exact ⟨rws, .err, h1, .inr rfl⟩
    | errLimit r =>
      rw [hr] at h
      simp only [Fate.pooled.injEq] at h
      subst h
      obtain ⟨rws, h1⟩ := (readRows_err_rest (rest := r)).2 hr
      exact ⟨rws, .eof, h1, .inl rfl⟩
    | errLimitDrain => rw [hr] at h; cases h

/-- **A recycled connection is clean (unsharded).** A backend connection that
    goes back to the pool after an unsharded statement stands right behind the
    packet that closed the result: no row of it is left for the next statement
    to trip over (otherwise `Recycle` has closed the connection). -/
theorem unshard_fate_clean (T : Nat) (m : Int) (s p : List Pkt)
    (h : (unshard T m s).fate = .pooled p) : Behind s p := by
  rw [unshard_eq] at h
  cases hr : readRows T m s [] 0 0 with
  | ok rowsRev more rest =>
    rw [hr] at h
    obtain ⟨new, e1, e2, e3, e4⟩ := readRows_ok hr
    simp only at h
    cases more with
    | true =>
      simp only [if_true] at e2 h
      obtain ⟨rws, t, f1, f2⟩ := streamMore_fate T m _ _ _ _ _ h
      exact ⟨new ++ rws, t, by rw [e2, f1]; simp, f2⟩
    | false =>
      simp only [Bool.false_eq_true, if_false, Fate.pooled.injEq] at e2 h
      subst h
      exact ⟨new, .eof, e2, .inl rfl⟩
  | errConn => rw [hr] at h; cases h
  | errBackend r =>
    rw [hr] at h
    simp only [Fate.pooled.injEq] at h
    subst h
    obtain ⟨rws, h1⟩ := (readRows_err_rest (rest := r)).1 hr
    exact ⟨rws, .err, h1, .inr rfl⟩
  | errLimit r =>
    rw [hr] at h
    simp only [Fate.pooled.injEq] at h
    subst h
    obtain ⟨rws, h1⟩ := (readRows_err_rest (rest := r)).2 hr
    exact ⟨rws, .eof, h1, .inl rfl⟩
  | errLimitDrain => rw [hr] at h; cases h

def Shard.fate? : Shard → Option Fate
  | .ok _ f => some f
  | .errLimit f => some f
  | .errBackend f => some f
  | _ => none

theorem fetchAll_fate (T : Nat) (m : Int) :
    ∀ (fuel : Nat) (s : List Pkt) (acc : List Row) (n : Nat) (p : List Pkt),
      Shard.fate? (fetchAll T m fuel s acc n) = some (.pooled p) → Behind s p := by
  intro fuel
  induction fuel with
  | zero => intro s acc n p h; simp [fetchAll, Shard.fate?] at h
  | succ fuel ih =>
    intro s acc n p h
    rw [fetchAll_step] at h
    cases hr : readRows T m s acc n 0 with
    | ok acc' more rest =>
      rw [hr] at h
      obtain ⟨new, e1, e2, e3, e4⟩ := readRows_ok hr
      simp only at h
      cases more with
      | true =>
        simp only [if_true] at e2 h
        obtain ⟨rws, t, f1, f2⟩ := ih _ _ _ _ h
        exact ⟨new ++ rws, t, by rw [e2, f1]; simp, f2⟩
      | false =>
        simp only [Bool.false_eq_true, if_false, Shard.fate?, Option.some.injEq, Fate.pooled.injEq] at e2 h
        subst h
        exact ⟨new, .eof, e2, .inl rfl⟩
    | errConn => rw [hr] at h; simp [Shard.fate?] at h
    | errBackend r =>
      rw [hr] at h
      simp only [Shard.fate?, Option.some.injEq, Fate.pooled.injEq] at h
      subst h
      obtain ⟨rws, h1⟩ := (readRows_err_rest (rest := r)).1 hr
      exact ⟨rws, .err, h1, .inr rfl⟩
    | errLimit r =>
      rw [hr] at h
      simp only [Shard.fate?, Option.some.injEq, Fate.pooled.injEq] at h
      subst h
      obtain ⟨rws, h1⟩ := (readRows_err_rest (rest := r)).2 hr
      exact ⟨rws, .eof, h1, .inl rfl⟩
    | errLimitDrain => rw [hr] at h; simp [Shard.fate?] at h

/-- **A recycled connection is clean (sharded).** -/
theorem execShard_fate_clean (T : Nat) (m : Int) (s p : List Pkt)
    (h : Shard.fate? (execShard T m s) = some (.pooled p)) : Behind s p :=
  fetchAll_fate T m _ s [] 0 p h

/-! ### the loops terminate (the `fuel` outcomes are unreachable) -/

theorem streamMore_fuel (T : Nat) (m : Int) :
    ∀ (fuel : Nat) (s : List Pkt) (outRev : List Row) (d : Nat),
      s.length < fuel → (streamMore T m fuel s outRev d).fin ≠ .fuel := by
  intro fuel
  induction fuel with
  | zero => intro s _ _ h; omega
  | succ fuel ih =>
    intro s outRev d hf
    rw [streamMore_step]
    cases hr : readRows T m s [] 0 0 with
    | ok chunkRev more rest =>
      obtain ⟨new, e1, e2, e3, e4⟩ := readRows_ok hr
      simp only
      by_cases hlim : m > 0 ∧ ((d + chunkRev.length : Nat) : Int) > m
      · rw [if_pos hlim]; simp
      · rw [if_neg hlim]
        cases more with
        | true =>
          simp only [if_true] at e2 ⊢
          apply ih
          have hn : 0 < new.length := List.length_pos_iff.mpr (e3 rfl)
          rw [e2] at hf
          simp only [List.length_append, rowsOf_length] at hf
          omega
        | false => simp
    | errConn => simp
    | errBackend r => simp
    | errLimit r => simp
    | errLimitDrain => simp

theorem unshard_fuel (T : Nat) (m : Int) (s : List Pkt) : (unshard T m s).fin ≠ .fuel := by
  rw [unshard_eq]
  cases hr : readRows T m s [] 0 0 with
  | ok rowsRev more rest =>
    simp only
    cases more with
    | true => simp only [if_true]; exact streamMore_fuel T m _ _ _ _ (by omega)
    | false => simp
  | errConn => simp
  | errBackend r => simp
  | errLimit r => simp
  | errLimitDrain => simp

theorem fetchAll_fuel (T : Nat) (m : Int) :
    ∀ (fuel : Nat) (s : List Pkt) (acc : List Row) (n : Nat),
      s.length < fuel → fetchAll T m fuel s acc n ≠ .fuel := by
  intro fuel
  induction fuel with
  | zero => intro s _ _ h; omega
  | succ fuel ih =>
    intro s acc n hf
    rw [fetchAll_step]
    cases hr : readRows T m s acc n 0 with
    | ok acc' more rest =>
      obtain ⟨new, e1, e2, e3, e4⟩ := readRows_ok hr
      simp only
      cases more with
      | true =>
        simp only [if_true] at e2 ⊢
        apply ih
        have hn : 0 < new.length := List.length_pos_iff.mpr (e3 rfl)
        rw [e2] at hf
        simp only [List.length_append, rowsOf_length] at hf
        omega
      | false => simp
    | errConn => simp
    | errBackend r => simp
    | errLimit r => simp
    | errLimitDrain => simp

theorem execShard_fuel (T : Nat) (m : Int) (s : List Pkt) : execShard T m s ≠ .fuel :=
  fetchAll_fuel T m _ s [] 0 (by omega)

/-! ### at the constant of the source -/

/-- **C39 at `mysql.MaxPayloadLen`** (the threshold of the current source;
    any threshold would do — the theorems above do not depend on it). For
    every row limit and backend stream: (1) the client receives the leading
    rows of the backend's answer; (2) a closing EOF means they are all rows of
    a complete backend result, within the limit; (3) a complete result within
    the limit is delivered in full with its EOF; (4) a complete result over the
    limit ends with the limit error. -/
theorem C39_unsharded (m : Int) (s : List Pkt) :
    (∃ rest, s = rowsOf (unshard Gen.maxPayloadLen m s).rows ++ rest) ∧
    ((unshard Gen.maxPayloadLen m s).fin = .eof →
      ∃ rest', Complete s (unshard Gen.maxPayloadLen m s).rows rest' ∧
        (m > 0 → ((unshard Gen.maxPayloadLen m s).rows.length : Int) ≤ m)) ∧
    (∀ rows rest, Complete s rows rest → Within m rows.length →
      (unshard Gen.maxPayloadLen m s).rows = rows ∧ (unshard Gen.maxPayloadLen m s).fin = .eof) ∧
    (∀ rows rest, Complete s rows rest → m > 0 → (rows.length : Int) > m →
      (unshard Gen.maxPayloadLen m s).fin = .err .limit) := by
  have h := unshard_complete Gen.maxPayloadLen m s
  refine ⟨h.1, ?_, ?_, ?_⟩
  · intro hf
    obtain ⟨rest', g1, _, g3⟩ := h.2 hf
    exact ⟨rest', g1, g3⟩
  · intro rows rest hc hw
    rw [Complete] at hc; subst hc
    rw [unshard_delivered_in_full _ m rows rest hw]
    exact ⟨rfl, rfl⟩
  · intro rows rest hc hm hl
    rw [Complete] at hc; subst hc
    exact unshard_row_limit _ m hm rows rest hl

/-- **C39 at `mysql.MaxPayloadLen`, sharded statements.** -/
theorem C39_sharded (m : Int) (shards : List (List Pkt)) :
    (∀ rss, executeSQLs Gen.maxPayloadLen m shards = some rss →
      ShardWise (fun s rows => ∃ rest, Complete s rows rest ∧ (m > 0 → (rows.length : Int) ≤ m)) shards rss) ∧
    (∀ rows tail, m > 0 → rowsOf rows ++ tail ∈ shards → (rows.length : Int) > m →
      executeSQLs Gen.maxPayloadLen m shards = none) :=
  ⟨fun rss h => shard_complete_or_error _ m shards rss h,
   fun rows tail hm hin h => shard_row_limit _ m hm shards rows tail hin h⟩

/-! ### the column definitions of a streamed result (translator fact, harness/extract/c39fields.go)

  `writeOKResultStream` keeps `globalFields := rs.Resultset.Fields` across
  `rs.Free()` and uses it for every following chunk, while `mysql.ResultPool`
  hands the same `*Result` — whose `Fields` `Reset` has only truncated, so it
  still points to the same array — to whichever session asks next.  The
  streaming session's columns (and with them the binary encoding of its rows)
  stay its own because no function of the result-handling packages stores an
  element of a `Fields` slice it has not made itself in the same function
  (`X.Fields = make(…)` / a Resultset just allocated; for the slice of a
  parameter: made by every caller): the array behind `globalFields` is never
  written after `readResultColumns` has filled it.  A deterministic probe
  (GOMAXPROCS(1), GC off) shows the same `*Result` coming back with
  `len/cap(Fields) = 0/2` on the array `globalFields` points to, and
  `globalFields` intact after `readResultSet`-style and
  `createShow…Result`-style reuse — and overwritten by a hypothetical
  `append(r.Fields, …)`, which is what this fact excludes. -/

/-- **C39/C38 (a streamed result keeps its own column definitions).** -/
theorem streamed_columns_never_written_in_place :
    Gen.c39FieldsWrittenInPlace = [] ∧ Gen.c39FieldsWriters ≠ [] := by decide

end GaeaVerif.C39
