import GaeaVerif.Model.ResultStream
import GaeaVerif.Model.ResultSession
import GaeaVerif.Gen.Consts
/-
  C39 — Results are complete or an error, never silently truncated.

  Theorems about `Model/ResultStream.lean` (one result set on its way from a
  backend to the client or to the merge) and, in the second half of the file,
  about `Model/ResultSession.lean` (whole sessions: answers of several
  results, transactions and keep-session pinning, statement deadlines, clients
  that stop reading, sharded statements from above the planner).  Tie to the
  code: correspondence `gvh run C39` against scripted backends through the real
  DirectConnection, connection pool, SessionExecutor, planner/merge,
  Session.Run and ClientConn; `Gen.maxPayloadLen`.
  All statements hold for every backend stream / answer (any length, any row
  sizes, ending any way), every chunk threshold `T`, every row limit
  `maxRows`, every client behaviour `b` and every session history — no bound
  anywhere.
-/
namespace GaeaVerif.C39
open GaeaVerif GaeaVerif.ResultStream GaeaVerif.ResultSession

/-- The packets of a list of rows. -/
def rowsOf (rs : List Row) : List Pkt := rs.map Pkt.row

@[simp] theorem rowsOf_nil : rowsOf [] = [] := rfl
@[simp] theorem rowsOf_cons (r : Row) (rs : List Row) : rowsOf (r :: rs) = .row r :: rowsOf rs := rfl
@[simp] theorem rowsOf_append (a b : List Row) : rowsOf (a ++ b) = rowsOf a ++ rowsOf b := by
  simp [rowsOf]
@[simp] theorem rowsOf_length (a : List Row) : (rowsOf a).length = a.length := by simp [rowsOf]

/-- `s` is a complete backend result: the rows `rows`, the closing EOF, then
    whatever the backend sends next (`rest`; nothing for a MySQL server). -/
def Complete (s : List Pkt) (rows : List Row) (rest : List Pkt) : Prop :=
  s = rowsOf rows ++ .eof :: rest

/-- The row limit admits a result of `n` rows (`maxRows ≤ 0`: no limit). -/
def Within (maxRows : Int) (n : Nat) : Prop := maxRows ≤ 0 ∨ (n : Int) ≤ maxRows

/-! ### readResultRows -/

/-- What a successful `readResultRows` has consumed: some rows `new`
    (appended to the result), then — unless it stopped at the size threshold
    with rows pending — the closing EOF. -/
theorem readRows_ok {T : Nat} {m : Int} :
    ∀ {s : List Pkt} {acc : List Row} {n buf : Nat} {acc' : List Row} {more : Bool} {rest : List Pkt},
      readRows T m s acc n buf = .ok acc' more rest →
      ∃ new, acc' = new.reverse ++ acc ∧
        s = rowsOf new ++ (if more then rest else .eof :: rest) ∧
        (more = true → new ≠ []) ∧
        (m > 0 → (n : Int) ≤ m → ((n + new.length : Nat) : Int) ≤ m) := by
  intro s
  induction s with
  | nil => intro acc n buf acc' more rest h; simp [readRows] at h
  | cons p t ih =>
    intro acc n buf acc' more rest h
    cases p with
    | eof =>
      simp only [readRows, Read.ok.injEq] at h
      obtain ⟨rfl, rfl, rfl⟩ := h
      exact ⟨[], by simp, by simp, by simp, by intro _ h; simpa using h⟩
    | err => simp [readRows] at h
    | stall => simp [readRows] at h
    | row r =>
      simp only [readRows] at h
      by_cases hlim : m > 0 ∧ ((n + 1 : Nat) : Int) > m
      · rw [if_pos hlim] at h
        cases hd : drainResults t <;> rw [hd] at h <;> cases h
      · rw [if_neg hlim] at h
        by_cases hb : buf + r.size > T
        · rw [if_pos hb] at h
          simp only [Read.ok.injEq] at h
          obtain ⟨rfl, rfl, rfl⟩ := h
          refine ⟨[r], by simp, by simp, by simp, ?_⟩
          intro hm _
          simp only [List.length_cons, List.length_nil]
          have : ¬ ((n + 1 : Nat) : Int) > m := fun h' => hlim ⟨hm, h'⟩
          omega
        · rw [if_neg hb] at h
          obtain ⟨new, h1, h2, h3, h4⟩ := ih h
          refine ⟨r :: new, by simp [h1], by simp [h2], by simp, ?_⟩
          intro hm _
          have hn1 : ((n + 1 : Nat) : Int) ≤ m := by
            have : ¬ ((n + 1 : Nat) : Int) > m := fun h' => hlim ⟨hm, h'⟩
            omega
          have := h4 hm hn1
          simp only [List.length_cons]
          omega

theorem drain_ok : ∀ {s rest : List Pkt}, drainResults s = .ok rest →
    ∃ rws, s = rowsOf rws ++ .eof :: rest := by
  intro s
  induction s with
  | nil => intro rest h; simp [drainResults] at h
  | cons p t ih =>
    intro rest h
    cases p with
    | eof =>
      simp only [drainResults, Drain.ok.injEq] at h
      subst h; exact ⟨[], by simp⟩
    | err => simp [drainResults] at h
    | stall => simp [drainResults] at h
    | row r =>
      obtain ⟨rws, h1⟩ := ih (by simpa [drainResults] using h)
      exact ⟨r :: rws, by simp [h1]⟩

/-- After an error return that leaves the connection usable, the stream
    stands just behind the ERR / EOF that closed the result. -/
theorem readRows_err_rest {T : Nat} {m : Int} :
    ∀ {s : List Pkt} {acc : List Row} {n buf : Nat} {rest : List Pkt},
      (readRows T m s acc n buf = .errBackend rest → ∃ rws, s = rowsOf rws ++ .err :: rest) ∧
      (readRows T m s acc n buf = .errLimit rest → ∃ rws, s = rowsOf rws ++ .eof :: rest) := by
  intro s
  induction s with
  | nil => intro acc n buf rest; simp [readRows]
  | cons p t ih =>
    intro acc n buf rest
    cases p with
    | eof => simp [readRows]
    | err =>
      simp only [readRows, Read.errBackend.injEq]
      exact ⟨fun h => ⟨[], by simp [h]⟩, by simp⟩
    | stall => simp [readRows]
    | row r =>
      simp only [readRows]
      by_cases hlim : m > 0 ∧ ((n + 1 : Nat) : Int) > m
      · rw [if_pos hlim]
        cases hd : drainResults t with
        | ok rest' =>
          refine ⟨by simp, ?_⟩
          intro h
          simp only [Read.errLimit.injEq] at h
          subst h
          obtain ⟨rws, h1⟩ := drain_ok hd
          exact ⟨r :: rws, by simp [h1]⟩
        | failed => simp
        | stalled => simp
      · rw [if_neg hlim]
        by_cases hb : buf + r.size > T
        · rw [if_pos hb]; simp
        · rw [if_neg hb]
          have := @ih (r :: acc) (n + 1) (buf + r.size) rest
          refine ⟨fun h => ?_, fun h => ?_⟩
          · obtain ⟨rws, h1⟩ := this.1 h; exact ⟨r :: rws, by simp [h1]⟩
          · obtain ⟨rws, h1⟩ := this.2 h; exact ⟨r :: rws, by simp [h1]⟩

/-- Rows within the limit are read until the threshold stops the chunk: either
    all of them (and the reader goes on with what follows), or a non-empty
    first part, with the rest left pending. -/
theorem readRows_rows (T : Nat) (m : Int) :
    ∀ (rows : List Row) (tail : List Pkt) (acc : List Row) (n buf : Nat),
      Within m (n + rows.length) →
      (∃ buf', readRows T m (rowsOf rows ++ tail) acc n buf =
          readRows T m tail (rows.reverse ++ acc) (n + rows.length) buf') ∨
      (∃ pre post, rows = pre ++ post ∧ pre ≠ [] ∧
          readRows T m (rowsOf rows ++ tail) acc n buf = .ok (pre.reverse ++ acc) true (rowsOf post ++ tail)) := by
  intro rows
  induction rows with
  | nil => intro tail acc n buf _; exact .inl ⟨buf, by simp⟩
  | cons r rs ih =>
    intro tail acc n buf hw
    have hlim : ¬ (m > 0 ∧ ((n + 1 : Nat) : Int) > m) := by
      intro ⟨h1, h2⟩
      cases hw with
      | inl h => omega
      | inr h => simp only [List.length_cons] at h; omega
    simp only [rowsOf_cons, List.cons_append, readRows]
    rw [if_neg hlim]
    by_cases hb : buf + r.size > T
    · rw [if_pos hb]
      exact .inr ⟨[r], rs, by simp, by simp, by simp⟩
    · rw [if_neg hb]
      have hw' : Within m (n + 1 + rs.length) := by
        simp only [List.length_cons] at hw
        have : n + 1 + rs.length = n + (rs.length + 1) := by omega
        rw [this]; exact hw
      cases ih tail (r :: acc) (n + 1) (buf + r.size) hw' with
      | inl h =>
        obtain ⟨buf', h⟩ := h
        refine .inl ⟨buf', ?_⟩
        rw [h]
        have e1 : rs.reverse ++ r :: acc = (r :: rs).reverse ++ acc := by simp
        have e2 : n + 1 + rs.length = n + (r :: rs).length := by simp; omega
        rw [e1, e2]
      | inr h =>
        obtain ⟨pre, post, h1, h2, h3⟩ := h
        exact .inr ⟨r :: pre, post, by simp [h1], by simp, by simp [h3]⟩

/-- The reader failed with the row-limit error. -/
def isLimit : Read → Prop
  | .errLimit _ => True
  | .errLimitDrain => True
  | _ => False

/-- Rows beyond the limit: the reader fails with the limit error (or never
    returns, when the backend falls silent while the rest is drained), unless
    the threshold stops the chunk first, still within the limit. -/
theorem readRows_over (T : Nat) (m : Int) (hm : m > 0) :
    ∀ (rows : List Row) (tail : List Pkt) (acc : List Row) (n buf : Nat),
      (n : Int) ≤ m → ((n + rows.length : Nat) : Int) > m →
      (isLimit (readRows T m (rowsOf rows ++ tail) acc n buf) ∨
        readRows T m (rowsOf rows ++ tail) acc n buf = .stalled) ∨
      (∃ pre post, rows = pre ++ post ∧ pre ≠ [] ∧ ((n + pre.length : Nat) : Int) ≤ m ∧
          readRows T m (rowsOf rows ++ tail) acc n buf = .ok (pre.reverse ++ acc) true (rowsOf post ++ tail)) := by
  intro rows
  induction rows with
  | nil => intro tail acc n buf h1 h2; simp at h2; omega
  | cons r rs ih =>
    intro tail acc n buf h1 h2
    simp only [rowsOf_cons, List.cons_append, readRows]
    by_cases hl : ((n + 1 : Nat) : Int) > m
    · rw [if_pos ⟨hm, hl⟩]
      left
      cases drainResults (rowsOf rs ++ tail) <;> simp [isLimit]
    · have hlim : ¬ (m > 0 ∧ ((n + 1 : Nat) : Int) > m) := fun h => hl h.2
      rw [if_neg hlim]
      by_cases hb : buf + r.size > T
      · rw [if_pos hb]
        exact .inr ⟨[r], rs, by simp, by simp, by simp; omega, by simp⟩
      · rw [if_neg hb]
        have h2' : ((n + 1 + rs.length : Nat) : Int) > m := by
          simp only [List.length_cons] at h2
          have : n + 1 + rs.length = n + (rs.length + 1) := by omega
          rw [this]; exact h2
        cases ih tail (r :: acc) (n + 1) (buf + r.size) (by omega) h2' with
        | inl h => exact .inl h
        | inr h =>
          obtain ⟨pre, post, e1, e2, e3, e4⟩ := h
          refine .inr ⟨r :: pre, post, by simp [e1], by simp, ?_, by simp [e4]⟩
          simp only [List.length_cons]
          have : n + (pre.length + 1) = n + 1 + pre.length := by omega
          rw [this]; exact e3

theorem isLimit_cases {r : Read} (h : isLimit r) : (∃ rest, r = .errLimit rest) ∨ r = .errLimitDrain := by
  cases r <;> simp [isLimit] at h ⊢

theorem drain_complete : ∀ (rows : List Row) (rest : List Pkt),
    drainResults (rowsOf rows ++ .eof :: rest) = .ok rest := by
  intro rows
  induction rows with
  | nil => intro rest; simp [drainResults]
  | cons r rs ih => intro rest; simp [drainResults, ih]

/-- A complete result is read without the reader ever blocking. -/
theorem readRows_complete_not_stalled (T : Nat) (m : Int) :
    ∀ (rows : List Row) (rest : List Pkt) (acc : List Row) (n buf : Nat),
      readRows T m (rowsOf rows ++ .eof :: rest) acc n buf ≠ .stalled := by
  intro rows
  induction rows with
  | nil => intro rest acc n buf; simp [readRows]
  | cons r rs ih =>
    intro rest acc n buf
    simp only [rowsOf_cons, List.cons_append, readRows]
    split
    · rw [drain_complete]; simp
    · split
      · simp
      · exact ih _ _ _ _

/-! ### sharded statements -/

theorem fetchAll_step (T : Nat) (m : Int) (fuel : Nat) (s : List Pkt) (acc : List Row) (n : Nat) :
    fetchAll T m (fuel + 1) s acc n =
      match readRows T m s acc n 0 with
      | .ok rowsRev' more rest =>
        if more then fetchAll T m fuel rest rowsRev' rowsRev'.length
        else .ok rowsRev'.reverse (.pooled rest)
      | .errConn => .errConn
      | .errBackend rest => .errBackend (.pooled rest)
      | .errLimit rest => .errLimit (.pooled rest)
      | .errLimitDrain => .errLimit .closed
      | .stalled => .stalled := rfl

/-- **C39 (sharded, never truncated).** Whatever the backend stream, the chunk
    threshold and the limit: if a shard's execution returns rows, they are all
    the rows of a *complete* backend result, in order (the stream is those
    rows, then the EOF), within the limit, and the connection goes back to the
    pool with nothing of the result unread. -/
theorem fetchAll_ok (T : Nat) (m : Int) :
    ∀ (fuel : Nat) (s : List Pkt) (acc : List Row) (n : Nat) (rows : List Row) (fate : Fate),
      n = acc.length → (m > 0 → (n : Int) ≤ m) → fetchAll T m fuel s acc n = .ok rows fate →
      ∃ new rest, rows = acc.reverse ++ new ∧ Complete s new rest ∧ fate = .pooled rest ∧
        (m > 0 → ((acc.length + new.length : Nat) : Int) ≤ m) := by
  intro fuel
  induction fuel with
  | zero => intro s acc n rows fate _ _ h; simp [fetchAll] at h
  | succ fuel ih =>
    intro s acc n rows fate hn hnm h
    rw [fetchAll_step] at h
    cases hr : readRows T m s acc n 0 with
    | ok acc' more rest =>
      rw [hr] at h
      obtain ⟨new, e1, e2, e3, e4⟩ := readRows_ok hr
      have hlen : acc'.length = n + new.length := by rw [e1, hn]; simp; omega
      cases more with
      | true =>
        simp only [if_true] at h e2
        obtain ⟨new2, rest2, f1, f2, f3, f4⟩ := ih rest acc' acc'.length rows fate rfl
          (fun hm => by rw [hlen]; exact e4 hm (hnm hm)) h
        refine ⟨new ++ new2, rest2, ?_, ?_, f3, ?_⟩
        · rw [f1, e1]; simp
        · rw [Complete] at f2 ⊢
          rw [e2, f2]; simp
        · intro hm
          have := f4 hm
          rw [hlen, hn] at this
          simp only [List.length_append]
          have e : acc.length + (new.length + new2.length) = acc.length + new.length + new2.length := by omega
          rw [e]; exact this
      | false =>
        simp only [Bool.false_eq_true, if_false, Shard.ok.injEq] at h e2
        obtain ⟨rfl, rfl⟩ := h
        refine ⟨new, rest, by rw [e1]; simp, by simpa [Complete] using e2, rfl, ?_⟩
        intro hm; have := e4 hm (hnm hm); rw [hn] at this; exact this
    | errConn => rw [hr] at h; cases h
    | errBackend r => rw [hr] at h; cases h
    | errLimit r => rw [hr] at h; cases h
    | errLimitDrain => rw [hr] at h; cases h
    | stalled => rw [hr] at h; cases h

theorem execShard_ok (T : Nat) (m : Int) (s : List Pkt) (rows : List Row) (fate : Fate)
    (h : execShard T m s = .ok rows fate) :
    ∃ rest, Complete s rows rest ∧ fate = .pooled rest ∧ (m > 0 → (rows.length : Int) ≤ m) := by
  obtain ⟨new, rest, h1, h2, h3, h4⟩ := fetchAll_ok T m _ s [] 0 rows fate rfl (by intro h; simp; omega) h
  simp only [List.reverse_nil, List.nil_append] at h1
  subst h1
  exact ⟨rest, h2, h3, by simpa using h4⟩

/-- **C39 (sharded, delivered in full).** A complete shard result within the
    limit is returned in full, however large it is — the chunks the size
    threshold cuts it into are fetched one after the other. -/
theorem fetchAll_complete (T : Nat) (m : Int) :
    ∀ (fuel : Nat) (rows : List Row) (rest : List Pkt) (acc : List Row) (n : Nat),
      n = acc.length → rows.length < fuel → Within m (n + rows.length) →
      fetchAll T m fuel (rowsOf rows ++ .eof :: rest) acc n = .ok (acc.reverse ++ rows) (.pooled rest) := by
  intro fuel
  induction fuel with
  | zero => intro rows rest acc n _ h; omega
  | succ fuel ih =>
    intro rows rest acc n hn hf hw
    rw [fetchAll_step]
    cases readRows_rows T m rows (.eof :: rest) acc n 0 hw with
    | inl h =>
      obtain ⟨buf', h⟩ := h
      rw [h]
      simp [readRows]
    | inr h =>
      obtain ⟨pre, post, e1, e2, e3⟩ := h
      rw [e3]
      simp only [if_true]
      have hpre : 0 < pre.length := List.length_pos_iff.mpr e2
      have hlen : (pre.reverse ++ acc).length = n + pre.length := by simp [hn]; omega
      rw [ih post rest (pre.reverse ++ acc) _ rfl
        (by rw [e1] at hf; simp only [List.length_append] at hf; omega)
        (by rw [hlen]; rw [e1] at hw; simp only [List.length_append] at hw
            have : n + pre.length + post.length = n + (pre.length + post.length) := by omega
            rw [this]; exact hw)]
      rw [e1]; simp

theorem execShard_complete (T : Nat) (m : Int) (rows : List Row) (rest : List Pkt)
    (hw : Within m rows.length) :
    execShard T m (rowsOf rows ++ .eof :: rest) = .ok rows (.pooled rest) := by
  have := fetchAll_complete T m ((rowsOf rows ++ Pkt.eof :: rest).length + 1) rows rest [] 0 rfl
    (by simp; omega) (by simpa using hw)
  simpa [execShard] using this

/-- **C39 (sharded, row limit).** A shard whose backend sends more rows than
    the limit fails with the limit error — wherever the chunk boundaries fall
    and whatever follows those rows (if the backend falls silent while the
    rest of the result is drained, the statement ends by its time-out). -/
theorem fetchAll_over (T : Nat) (m : Int) (hm : m > 0) :
    ∀ (fuel : Nat) (rows : List Row) (tail : List Pkt) (acc : List Row) (n : Nat),
      n = acc.length → rows.length < fuel → (n : Int) ≤ m → ((n + rows.length : Nat) : Int) > m →
      (∃ fate, fetchAll T m fuel (rowsOf rows ++ tail) acc n = .errLimit fate) ∨
        fetchAll T m fuel (rowsOf rows ++ tail) acc n = .stalled := by
  intro fuel
  induction fuel with
  | zero => intro rows tail acc n _ h; omega
  | succ fuel ih =>
    intro rows tail acc n hn hf h1 h2
    rw [fetchAll_step]
    cases readRows_over T m hm rows tail acc n 0 h1 h2 with
    | inl h =>
      cases h with
      | inl h =>
        cases isLimit_cases h with
        | inl h => obtain ⟨r, h⟩ := h; rw [h]; exact .inl ⟨_, rfl⟩
        | inr h => rw [h]; exact .inl ⟨_, rfl⟩
      | inr h => rw [h]; exact .inr rfl
    | inr h =>
      obtain ⟨pre, post, e1, e2, e3, e4⟩ := h
      rw [e4]
      simp only [if_true]
      have hpre : 0 < pre.length := List.length_pos_iff.mpr e2
      have hlen : (pre.reverse ++ acc).length = n + pre.length := by simp [hn]; omega
      apply ih post tail (pre.reverse ++ acc) _ rfl
      · rw [e1] at hf; simp only [List.length_append] at hf; omega
      · rw [hlen]; exact e3
      · rw [hlen]; rw [e1] at h2; simp only [List.length_append] at h2
        have : n + pre.length + post.length = n + (pre.length + post.length) := by omega
        rw [this]; exact h2

theorem execShard_over (T : Nat) (m : Int) (hm : m > 0) (rows : List Row) (tail : List Pkt)
    (h : (rows.length : Int) > m) :
    (∃ fate, execShard T m (rowsOf rows ++ tail) = .errLimit fate) ∨
      execShard T m (rowsOf rows ++ tail) = .stalled := by
  have := fetchAll_over T m hm ((rowsOf rows ++ tail).length + 1) rows tail [] 0 rfl
    (by simp; omega) (by simp; omega) (by simpa using h)
  simpa [execShard] using this

theorem executeSQLs_nil (T : Nat) (m : Int) : executeSQLs T m [] = some [] := by
  simp [executeSQLs]

theorem executeSQLs_cons (T : Nat) (m : Int) (s : List Pkt) (ss : List (List Pkt)) :
    executeSQLs T m (s :: ss) =
      match execShard T m s, executeSQLs T m ss with
      | .ok rows _, some rss => some (rows :: rss)
      | _, _ => none := by
  simp only [executeSQLs, List.map_cons, List.all_cons]
  by_cases hall : (List.map (execShard T m) ss).all Shard.isOk = true
  · cases hs : execShard T m s <;> simp [Shard.isOk, Shard.rows, hall]
  · cases hs : execShard T m s <;> simp [Shard.isOk, hall]

/-- `P` holds of every shard and its returned rows. -/
inductive ShardWise (P : List Pkt → List Row → Prop) : List (List Pkt) → List (List Row) → Prop
  | nil : ShardWise P [] []
  | cons {s : List Pkt} {rows : List Row} {ss : List (List Pkt)} {rss : List (List Row)} :
      P s rows → ShardWise P ss rss → ShardWise P (s :: ss) (rows :: rss)

/-- **C39, sharded statements (`shard_complete_or_error`).** If `ExecuteSQLs`
    returns results at all, then it returns one row list per shard, and for
    every shard these are exactly the rows of a complete backend result (rows,
    then EOF), within the limit; otherwise the statement fails. Nothing is
    ever cut short. -/
theorem shard_complete_or_error (T : Nat) (m : Int) :
    ∀ (shards : List (List Pkt)) (rss : List (List Row)),
      executeSQLs T m shards = some rss →
      ShardWise (fun s rows => ∃ rest, Complete s rows rest ∧ (m > 0 → (rows.length : Int) ≤ m))
        shards rss := by
  intro shards
  induction shards with
  | nil =>
    intro rss h
    rw [executeSQLs_nil] at h
    cases h; exact .nil
  | cons s ss ih =>
    intro rss h
    rw [executeSQLs_cons] at h
    cases hs : execShard T m s with
    | ok rows fate =>
      cases hss : executeSQLs T m ss with
      | none => rw [hs, hss] at h; cases h
      | some rss' =>
        rw [hs, hss] at h
        simp only [Option.some.injEq] at h
        subst h
        obtain ⟨rest, h1, _, h3⟩ := execShard_ok T m s rows fate hs
        exact .cons ⟨rest, h1, h3⟩ (ih _ hss)
    | errLimit f => rw [hs] at h; cases h
    | errBackend f => rw [hs] at h; cases h
    | errConn => rw [hs] at h; cases h
    | stalled => rw [hs] at h; cases h
    | fuel => rw [hs] at h; cases h

/-- **C39, sharded statements, delivered in full.** When every shard's backend
    result is complete and within the limit, `ExecuteSQLs` returns all rows of
    all shards (whatever their sizes). -/
theorem shard_delivered_in_full (T : Nat) (m : Int) (parts : List (List Row × List Pkt))
    (hw : ∀ p ∈ parts, Within m p.1.length) :
    executeSQLs T m (parts.map fun p => rowsOf p.1 ++ .eof :: p.2) = some (parts.map (·.1)) := by
  induction parts with
  | nil => simp [executeSQLs_nil]
  | cons p ps ih =>
    have h1 := execShard_complete T m p.1 p.2 (hw p (by simp))
    have h2 := ih (fun q hq => hw q (by simp [hq]))
    simp only [List.map_cons]
    rw [executeSQLs_cons, h1, h2]

/-- **C39, sharded statements, row limit (`row_limit`).** If some shard's
    backend sends more rows than the limit, the statement fails. -/
theorem shard_row_limit (T : Nat) (m : Int) (hm : m > 0) :
    ∀ (shards : List (List Pkt)) (rows : List Row) (tail : List Pkt),
      rowsOf rows ++ tail ∈ shards → (rows.length : Int) > m →
      executeSQLs T m shards = none := by
  intro shards
  induction shards with
  | nil => intro rows tail hin; simp at hin
  | cons s ss ih =>
    intro rows tail hin h
    rw [executeSQLs_cons]
    cases List.mem_cons.mp hin with
    | inl he =>
      cases execShard_over T m hm rows tail h with
      | inl hf => obtain ⟨fate, hf⟩ := hf; rw [← he, hf]
      | inr hf => rw [← he, hf]
    | inr hi =>
      rw [ih rows tail hi h]
      cases execShard T m s <;> rfl

example : executeSQLs 10 2 [[.row ⟨0, 6⟩, .row ⟨1, 6⟩, .eof], [.row ⟨0, 20⟩, .eof]] =
    some [[⟨0, 6⟩, ⟨1, 6⟩], [⟨0, 20⟩]] := by decide
example : executeSQLs 10 2 [[.row ⟨0, 6⟩, .row ⟨1, 6⟩, .row ⟨2, 6⟩, .eof]] = none := by decide
example : executeSQLs 10 (-1) [[.row ⟨0, 6⟩, .row ⟨1, 6⟩]] = none := by decide

/-! ### unsharded statements: streaming to the client -/

@[simp] theorem errFin_ne_eof (b : Option Nat) (k : ErrKind) : errFin b k ≠ .eof := by
  unfold errFin; split <;> simp

@[simp] theorem errFin_ne_fuel (b : Option Nat) (k : ErrKind) : errFin b k ≠ .fuel := by
  unfold errFin; split <;> simp

@[simp] theorem errFin_none (k : ErrKind) : errFin none k = .err k := by
  simp [errFin, accepts]

@[simp] theorem accepts_none (n : Nat) : accepts none n = true := rfl

@[simp] theorem spend_none (n : Nat) : spend none n = none := rfl

theorem streamMore_step (T : Nat) (m : Int) (fuel : Nat) (s : List Pkt) (outRev : List Row) (d : Nat)
    (b : Option Nat) :
    streamMore T m (fuel + 1) s outRev d b =
      match readRows T m s [] 0 0 with
      | .ok chunkRev more rest =>
        if m > 0 ∧ ((d + chunkRev.length : Nat) : Int) > m then
          ⟨outRev.reverse, errFin b .limit, if more then .closed else .pooled rest⟩
        else if accepts b (chunkRev.length + (if more then 0 else 1)) then
          if more then streamMore T m fuel rest (chunkRev ++ outRev) (d + chunkRev.length)
            (spend b (chunkRev.length + (if more then 0 else 1)))
          else ⟨(chunkRev ++ outRev).reverse, .eof, .pooled rest⟩
        else ⟨outRev.reverse ++ chunkRev.reverse.take (b.getD 0), .closed,
              if more then .closed else .pooled rest⟩
      | .errConn => ⟨outRev.reverse, .closed, .closed⟩
      | .errBackend rest => ⟨outRev.reverse, errFin b .backend, .pooled rest⟩
      | .errLimit rest => ⟨outRev.reverse, errFin b .limit, .pooled rest⟩
      | .errLimitDrain => ⟨outRev.reverse, errFin b .limit, .closed⟩
      | .stalled => ⟨outRev.reverse, .hang, .closed⟩ := rfl

/-- What the streaming loop guarantees about a client view `c` for the backend
    stream `s`, given `outRev` already sent and `d` rows counted. -/
def StreamInv (m : Int) (s : List Pkt) (outRev : List Row) (d : Nat) (c : Client) : Prop :=
  ∃ new rest, c.rows = outRev.reverse ++ new ∧ s = rowsOf new ++ rest ∧
    (c.fin = .eof → ∃ rest', Complete s new rest' ∧ c.fate = .pooled rest' ∧
      (m > 0 → ((d + new.length : Nat) : Int) ≤ m))

theorem StreamInv.trivial (m : Int) (s : List Pkt) (outRev : List Row) (d : Nat) (c : Client)
    (h1 : c.rows = outRev.reverse) (h2 : c.fin ≠ .eof) : StreamInv m s outRev d c :=
  ⟨[], s, by simp [h1], by simp, fun h => absurd h h2⟩

/-- Invariant of the streaming loop, whatever the client still takes. -/
theorem streamMore_sound (T : Nat) (m : Int) :
    ∀ (fuel : Nat) (s : List Pkt) (outRev : List Row) (d : Nat) (b : Option Nat),
      StreamInv m s outRev d (streamMore T m fuel s outRev d b) := by
  intro fuel
  induction fuel with
  | zero => intro s outRev d b; exact StreamInv.trivial _ _ _ _ _ rfl (by simp [streamMore])
  | succ fuel ih =>
    intro s outRev d b
    rw [streamMore_step]
    cases hr : readRows T m s [] 0 0 with
    | ok chunkRev more rest =>
      obtain ⟨new, e1, e2, e3, e4⟩ := readRows_ok hr
      simp only [List.append_nil] at e1
      simp only
      by_cases hlim : m > 0 ∧ ((d + chunkRev.length : Nat) : Int) > m
      · rw [if_pos hlim]
        exact StreamInv.trivial _ _ _ _ _ rfl (by simp)
      · rw [if_neg hlim]
        by_cases hacc : accepts b (chunkRev.length + (if more = true then 0 else 1)) = true
        · rw [if_pos hacc]
          cases more with
          | true =>
            simp only [if_true] at e2 ⊢
            obtain ⟨new2, rest2, f1, f2, f3⟩ := ih rest (chunkRev ++ outRev) (d + chunkRev.length)
              (spend b (chunkRev.length + 0))
            refine ⟨new ++ new2, rest2, ?_, ?_, ?_⟩
            · rw [f1, e1]; simp
            · rw [e2, f2]; simp
            · intro hfin
              obtain ⟨rest', g1, g2, g3⟩ := f3 hfin
              refine ⟨rest', ?_, g2, ?_⟩
              · rw [Complete] at g1 ⊢; rw [e2, g1]; simp
              · intro hm; have := g3 hm
                rw [e1] at this
                simp only [List.length_append, List.length_reverse] at this ⊢
                have e : d + (new.length + new2.length) = d + new.length + new2.length := by omega
                rw [e]; exact this
          | false =>
            simp only [Bool.false_eq_true, if_false] at e2 ⊢
            refine ⟨new, .eof :: rest, by rw [e1]; simp, e2, ?_⟩
            intro _
            refine ⟨rest, by simpa [Complete] using e2, rfl, ?_⟩
            intro hm
            have : ¬ ((d + chunkRev.length : Nat) : Int) > m := fun h' => hlim ⟨hm, h'⟩
            rw [e1] at this
            simp only [List.length_reverse] at this
            omega
        · rw [if_neg hacc]
          -- the write failed: the client holds a part of the chunk and is told nothing more
          refine ⟨new.take (b.getD 0), rowsOf (new.drop (b.getD 0)) ++ (if more = true then rest else .eof :: rest),
            ?_, ?_, ?_⟩
          · simp [e1]
          · rw [e2, ← List.append_assoc, ← rowsOf_append, List.take_append_drop]
          · intro h; simp at h
    | errConn => exact StreamInv.trivial _ _ _ _ _ rfl (by simp)
    | errBackend r => exact StreamInv.trivial _ _ _ _ _ rfl (by simp)
    | errLimit r => exact StreamInv.trivial _ _ _ _ _ rfl (by simp)
    | errLimitDrain => exact StreamInv.trivial _ _ _ _ _ rfl (by simp)
    | stalled => exact StreamInv.trivial _ _ _ _ _ rfl (by simp)

/-- The first chunk of a result set written to the client, then the loop:
    same guarantee. -/
theorem sendResult_sound (T : Nat) (m : Int) (s : List Pkt) (rowsRev : List Row) (more : Bool)
    (rest : List Pkt) (b : Option Nat) (hr : readRows T m s [] 0 0 = .ok rowsRev more rest) :
    (∃ rest', s = rowsOf (sendResult T m rowsRev more rest b).rows ++ rest') ∧
    ((sendResult T m rowsRev more rest b).fin = .eof →
      ∃ rest', Complete s (sendResult T m rowsRev more rest b).rows rest' ∧
        (sendResult T m rowsRev more rest b).fate = .pooled rest' ∧
        (m > 0 → ((sendResult T m rowsRev more rest b).rows.length : Int) ≤ m)) := by
  obtain ⟨new, e1, e2, e3, e4⟩ := readRows_ok hr
  simp only [List.append_nil] at e1
  have hrr : rowsRev.reverse = new := by rw [e1]; simp
  have hlen : rowsRev.length = new.length := by rw [e1]; simp
  unfold sendResult
  by_cases hacc : accepts b (headerPackets + rowsRev.length + (if more = true then 0 else 1)) = true
  · rw [if_pos hacc]
    cases more with
    | true =>
      simp only [if_true] at e2 ⊢
      obtain ⟨new2, rest2, f1, f2, f3⟩ := streamMore_sound T m (rest.length + 1) rest rowsRev rowsRev.length
        (spend b (headerPackets + rowsRev.length + 0))
      rw [f1]
      refine ⟨⟨rest2, by rw [e2, f2, hrr]; simp⟩, ?_⟩
      intro hfin
      obtain ⟨rest', g1, g2, g3⟩ := f3 hfin
      refine ⟨rest', ?_, g2, ?_⟩
      · rw [Complete] at g1 ⊢; rw [e2, g1, hrr]; simp
      · intro hm; have := g3 hm
        rw [hrr]; rw [hlen] at this
        simpa using this
    | false =>
      simp only [Bool.false_eq_true, if_false] at e2 ⊢
      rw [hrr]
      refine ⟨⟨.eof :: rest, e2⟩, fun _ => ⟨rest, by simpa [Complete] using e2, rfl, ?_⟩⟩
      intro hm; have := e4 hm (by simp; omega); simpa using this
  · rw [if_neg hacc]
    refine ⟨⟨rowsOf (new.drop (b.getD 0 - headerPackets)) ++ (if more = true then rest else .eof :: rest), ?_⟩,
      by intro h; simp at h⟩
    simp only [hrr]
    rw [e2, ← List.append_assoc, ← rowsOf_append, List.take_append_drop]

theorem unshard_eq (T : Nat) (m : Int) (s : List Pkt) (b : Option Nat) :
    unshard T m s b =
      match readRows T m s [] 0 0 with
      | .ok rowsRev more rest => sendResult T m rowsRev more rest b
      | .errConn => ⟨[], .closed, .closed⟩
      | .errBackend rest => ⟨[], errFin b .backend, .pooled rest⟩
      | .errLimit rest => ⟨[], errFin b .limit, .pooled rest⟩
      | .errLimitDrain => ⟨[], errFin b .limit, .closed⟩
      | .stalled => ⟨[], .stalled, .closed⟩ := rfl

/-- **C39, unsharded statements (`unshard_complete`).** For every backend
    stream, threshold and limit, and whatever the client does (`b`: it keeps
    reading, or its connection breaks after any number of packets): the rows
    the client receives are, in order, the first packets of the backend's answer
    (nothing invented, duplicated or reordered); and if the client is sent the
    closing EOF — i.e. is told the result is complete — then they are *all*
    rows of a complete backend result (the stream is exactly those rows
    followed by the backend's EOF), their number respects the limit, and the
    backend connection returns to the pool standing right behind that EOF.
    Otherwise the client gets an error packet or a closed connection, never a
    shortened result presented as complete. -/
theorem unshard_complete (T : Nat) (m : Int) (s : List Pkt) (b : Option Nat) :
    (∃ rest, s = rowsOf (unshard T m s b).rows ++ rest) ∧
    ((unshard T m s b).fin = .eof → ∃ rest', Complete s (unshard T m s b).rows rest' ∧
      (unshard T m s b).fate = .pooled rest' ∧ (m > 0 → ((unshard T m s b).rows.length : Int) ≤ m)) := by
  rw [unshard_eq]
  cases hr : readRows T m s [] 0 0 with
  | ok rowsRev more rest => exact sendResult_sound T m s rowsRev more rest b hr
  | errConn => exact ⟨⟨s, by simp⟩, by simp⟩
  | errBackend r => exact ⟨⟨s, by simp⟩, by simp⟩
  | errLimit r => exact ⟨⟨s, by simp⟩, by simp⟩
  | errLimitDrain => exact ⟨⟨s, by simp⟩, by simp⟩
  | stalled => exact ⟨⟨s, by simp⟩, by simp⟩

theorem streamMore_complete (T : Nat) (m : Int) :
    ∀ (fuel : Nat) (rows : List Row) (rest : List Pkt) (outRev : List Row) (d : Nat),
      rows.length < fuel → Within m (d + rows.length) →
      streamMore T m fuel (rowsOf rows ++ .eof :: rest) outRev d none =
        ⟨outRev.reverse ++ rows, .eof, .pooled rest⟩ := by
  intro fuel
  induction fuel with
  | zero => intro rows rest outRev d h; omega
  | succ fuel ih =>
    intro rows rest outRev d hf hw
    have hw0 : Within m (0 + rows.length) := by
      cases hw with
      | inl h => exact .inl h
      | inr h => right; simp only [Nat.zero_add]; omega
    rw [streamMore_step]
    cases readRows_rows T m rows (.eof :: rest) [] 0 0 hw0 with
    | inl h =>
      obtain ⟨buf', h⟩ := h
      rw [h]
      simp only [readRows, List.append_nil]
      have hlim : ¬ (m > 0 ∧ ((d + rows.reverse.length : Nat) : Int) > m) := by
        intro ⟨h1, h2⟩
        simp only [List.length_reverse] at h2
        cases hw with
        | inl h => omega
        | inr h => omega
      rw [if_neg hlim]
      simp
    | inr h =>
      obtain ⟨pre, post, e1, e2, e3⟩ := h
      rw [e3]
      simp only [List.append_nil]
      have hpre : 0 < pre.length := List.length_pos_iff.mpr e2
      have hlim : ¬ (m > 0 ∧ ((d + pre.reverse.length : Nat) : Int) > m) := by
        intro ⟨h1, h2⟩
        simp only [List.length_reverse] at h2
        rw [e1] at hw
        simp only [List.length_append] at hw
        cases hw with
        | inl h => omega
        | inr h => omega
      rw [if_neg hlim]
      simp only [accepts_none, spend_none, if_true]
      rw [ih post rest (pre.reverse ++ outRev) _
        (by rw [e1] at hf; simp only [List.length_append] at hf; omega)
        (by rw [e1] at hw; simp only [List.length_append, List.length_reverse] at hw ⊢
            have : d + pre.length + post.length = d + (pre.length + post.length) := by omega
            rw [this]; exact hw)]
      rw [e1]; simp

/-- **C39, unsharded statements, delivered in full (`row_limit`, second
    half).** A complete backend result with no more rows than the limit (or
    with no limit) reaches a client that keeps reading in full — all rows in
    order, then the EOF — whatever its size and however many chunks it is
    streamed in; the backend connection returns to the pool right behind the
    result. -/
theorem unshard_delivered_in_full (T : Nat) (m : Int) (rows : List Row) (rest : List Pkt)
    (hw : Within m rows.length) :
    unshard T m (rowsOf rows ++ .eof :: rest) none = ⟨rows, .eof, .pooled rest⟩ := by
  rw [unshard_eq]
  cases readRows_rows T m rows (.eof :: rest) [] 0 0 (by simpa using hw) with
  | inl h =>
    obtain ⟨buf', h⟩ := h
    rw [h]
    simp [readRows, sendResult]
  | inr h =>
    obtain ⟨pre, post, e1, e2, e3⟩ := h
    rw [e3]
    simp only [List.append_nil, sendResult, accepts_none, spend_none, if_true]
    have hpre : 0 < pre.length := List.length_pos_iff.mpr e2
    rw [streamMore_complete T m _ post rest pre.reverse pre.reverse.length
      (by simp; omega)
      (by rw [e1] at hw; simpa using hw)]
    rw [e1]; simp

theorem streamMore_over (T : Nat) (m : Int) (hm : m > 0) :
    ∀ (fuel : Nat) (rows : List Row) (rest : List Pkt) (outRev : List Row) (d : Nat),
      rows.length < fuel → (d : Int) ≤ m → ((d + rows.length : Nat) : Int) > m →
      (streamMore T m fuel (rowsOf rows ++ .eof :: rest) outRev d none).fin = .err .limit := by
  intro fuel
  induction fuel with
  | zero => intro rows rest outRev d h; omega
  | succ fuel ih =>
    intro rows rest outRev d hf h1 h2
    rw [streamMore_step]
    -- what one more chunk does once it stopped at the threshold after `pre`
    have chunk : ∀ pre post, rows = pre ++ post → pre ≠ [] →
        readRows T m (rowsOf rows ++ Pkt.eof :: rest) [] 0 0 = .ok (pre.reverse ++ []) true (rowsOf post ++ Pkt.eof :: rest) →
        (match readRows T m (rowsOf rows ++ Pkt.eof :: rest) [] 0 0 with
          | .ok chunkRev more rest' =>
            if m > 0 ∧ ((d + chunkRev.length : Nat) : Int) > m then
              (⟨outRev.reverse, errFin none .limit, if more then .closed else .pooled rest'⟩ : Client)
            else if accepts none (chunkRev.length + (if more then 0 else 1)) then
              if more then streamMore T m fuel rest' (chunkRev ++ outRev) (d + chunkRev.length)
                (spend none (chunkRev.length + (if more then 0 else 1)))
              else ⟨(chunkRev ++ outRev).reverse, .eof, .pooled rest'⟩
            else ⟨outRev.reverse ++ chunkRev.reverse.take ((none : Option Nat).getD 0), .closed,
                  if more then .closed else .pooled rest'⟩
          | .errConn => ⟨outRev.reverse, .closed, .closed⟩
          | .errBackend rest' => ⟨outRev.reverse, errFin none .backend, .pooled rest'⟩
          | .errLimit rest' => ⟨outRev.reverse, errFin none .limit, .pooled rest'⟩
          | .errLimitDrain => ⟨outRev.reverse, errFin none .limit, .closed⟩
          | .stalled => ⟨outRev.reverse, .hang, .closed⟩).fin = .err .limit := by
      intro pre post e1 e2 e3
      rw [e3]
      simp only [List.append_nil, List.length_reverse, accepts_none, spend_none, errFin_none]
      have hpre : 0 < pre.length := List.length_pos_iff.mpr e2
      by_cases hd : ((d + pre.length : Nat) : Int) > m
      · rw [if_pos ⟨hm, hd⟩]
      · have hlim : ¬ (m > 0 ∧ ((d + pre.length : Nat) : Int) > m) := fun h => hd h.2
        rw [if_neg hlim]
        simp only [if_true]
        apply ih
        · rw [e1] at hf; simp only [List.length_append] at hf; omega
        · omega
        · rw [e1] at h2; simp only [List.length_append] at h2
          have : d + pre.length + post.length = d + (pre.length + post.length) := by omega
          rw [this]; exact h2
    by_cases hc : (rows.length : Int) ≤ m
    · -- every chunk is within the limit on its own: the running count catches it
      cases readRows_rows T m rows (.eof :: rest) [] 0 0 (.inr (by simpa using hc)) with
      | inl h =>
        obtain ⟨buf', h⟩ := h
        rw [h]
        simp only [readRows, List.append_nil, List.length_reverse, errFin_none]
        rw [if_pos ⟨hm, h2⟩]
      | inr h =>
        obtain ⟨pre, post, e1, e2, e3⟩ := h
        exact chunk pre post e1 e2 e3
    · cases readRows_over T m hm rows (.eof :: rest) [] 0 0 (by omega) (by simpa using hc) with
      | inl h =>
        cases h with
        | inl h =>
          cases isLimit_cases h with
          | inl h => obtain ⟨r, h⟩ := h; rw [h]; simp
          | inr h => rw [h]; simp
        | inr h => exact absurd h (readRows_complete_not_stalled T m rows rest [] 0 0)
      | inr h =>
        obtain ⟨pre, post, e1, e2, _, e4⟩ := h
        exact chunk pre post e1 e2 e4

/-- **C39, unsharded statements, row limit (`row_limit`, first half).** A
    complete backend result with more rows than the limit ends at the client
    with the limit error — also when no single 16 MiB chunk reaches the limit. -/
theorem unshard_row_limit (T : Nat) (m : Int) (hm : m > 0) (rows : List Row) (rest : List Pkt)
    (h : (rows.length : Int) > m) :
    (unshard T m (rowsOf rows ++ .eof :: rest) none).fin = .err .limit := by
  rw [unshard_eq]
  cases readRows_over T m hm rows (.eof :: rest) [] 0 0 (by omega) (by simpa using h) with
  | inl h =>
    cases h with
    | inl h =>
      cases isLimit_cases h with
      | inl h => obtain ⟨r, h⟩ := h; rw [h]; simp
      | inr h => rw [h]; simp
    | inr h => exact absurd h (readRows_complete_not_stalled T m rows rest [] 0 0)
  | inr h' =>
    obtain ⟨pre, post, e1, e2, e3, e4⟩ := h'
    rw [e4]
    simp only [List.append_nil, sendResult, accepts_none, spend_none, if_true, List.length_reverse]
    have hpre : 0 < pre.length := List.length_pos_iff.mpr e2
    apply streamMore_over T m hm
    · simp; omega
    · simpa using e3
    · rw [e1] at h; simp only [List.length_append] at h
      have : ((pre.length + post.length : Nat) : Int) > m := by simpa using h
      exact this

/-- A stream has one reading as "rows, EOF, rest". -/
theorem complete_unique : ∀ (a b : List Row) (r1 r2 : List Pkt),
    rowsOf a ++ .eof :: r1 = rowsOf b ++ .eof :: r2 → a = b ∧ r1 = r2 := by
  intro a
  induction a with
  | nil =>
    intro b r1 r2 h
    cases b with
    | nil => simpa using h
    | cons x xs => simp at h
  | cons x xs ih =>
    intro b r1 r2 h
    cases b with
    | nil => simp at h
    | cons y ys =>
      simp only [rowsOf_cons, List.cons_append, List.cons.injEq, Pkt.row.injEq] at h
      obtain ⟨e1, e2⟩ := ih ys r1 r2 h.2
      exact ⟨by rw [h.1, e1], e2⟩

/-- **C39, a result over the limit is never presented as complete**, whatever
    the client does: it ends with the limit error, or — when the client's
    connection breaks first — with a closed connection. -/
theorem unshard_over_limit_never_complete (T : Nat) (m : Int) (hm : m > 0) (rows : List Row) (rest : List Pkt)
    (b : Option Nat) (h : (rows.length : Int) > m) :
    (unshard T m (rowsOf rows ++ .eof :: rest) b).fin ≠ .eof := by
  intro hfin
  obtain ⟨rest', g1, _, g3⟩ := (unshard_complete T m _ b).2 hfin
  have hl := g3 hm
  rw [Complete] at g1
  rw [← (complete_unique _ _ _ _ g1).1] at hl
  omega

example : unshard 10 (-1) [.row ⟨0, 6⟩, .row ⟨1, 6⟩, .row ⟨2, 6⟩, .eof] none =
    ⟨[⟨0, 6⟩, ⟨1, 6⟩, ⟨2, 6⟩], .eof, .pooled []⟩ := by decide
example : unshard 10 3 [.row ⟨0, 6⟩, .row ⟨1, 6⟩, .row ⟨2, 6⟩, .eof] none =
    ⟨[⟨0, 6⟩, ⟨1, 6⟩, ⟨2, 6⟩], .eof, .pooled []⟩ := by decide
-- two chunks of two rows, limit 3: the first chunk is delivered, then the limit error
example : unshard 10 3 [.row ⟨0, 6⟩, .row ⟨1, 6⟩, .row ⟨2, 6⟩, .row ⟨3, 6⟩, .eof] none =
    ⟨[⟨0, 6⟩, ⟨1, 6⟩], .err .limit, .closed⟩ := by decide
-- the backend connection is lost inside the second chunk
example : unshard 10 (-1) [.row ⟨0, 6⟩, .row ⟨1, 6⟩, .row ⟨2, 6⟩] none =
    ⟨[⟨0, 6⟩, ⟨1, 6⟩], .closed, .closed⟩ := by decide
-- the client's connection breaks after 7 packets (header, rows 0-1, row 2): the second chunk is
-- not written, the backend connection is closed with row 3 and the EOF unread
example : unshard 10 (-1) [.row ⟨0, 6⟩, .row ⟨1, 6⟩, .row ⟨2, 6⟩, .row ⟨3, 6⟩, .row ⟨4, 6⟩, .eof] (some 7) =
    ⟨[⟨0, 6⟩, ⟨1, 6⟩, ⟨2, 6⟩], .closed, .closed⟩ := by decide

/-! ### the recycled connection is clean -/

/-- `p` is what is left of `s` right behind the packet (EOF or ERR) that
    closed the result: `s` is rows, that packet, then `p`. -/
def Behind (s p : List Pkt) : Prop :=
  ∃ rws t, s = rowsOf rws ++ t :: p ∧ (t = Pkt.eof ∨ t = Pkt.err)

theorem streamMore_fate (T : Nat) (m : Int) :
    ∀ (fuel : Nat) (s : List Pkt) (outRev : List Row) (d : Nat) (b : Option Nat) (p : List Pkt),
      (streamMore T m fuel s outRev d b).fate = .pooled p → Behind s p := by
  intro fuel
  induction fuel with
  | zero => intro s outRev d b p h; simp [streamMore] at h
  | succ fuel ih =>
    intro s outRev d b p h
    rw [streamMore_step] at h
    cases hr : readRows T m s [] 0 0 with
    | ok chunkRev more rest =>
      rw [hr] at h
      obtain ⟨new, e1, e2, e3, e4⟩ := readRows_ok hr
      simp only at h
      cases more with
      | true =>
        simp only [if_true] at e2 h
        by_cases hlim : m > 0 ∧ ((d + chunkRev.length : Nat) : Int) > m
        · rw [if_pos hlim] at h; cases h
        · rw [if_neg hlim] at h
          by_cases hacc : accepts b (chunkRev.length + 0) = true
          · rw [if_pos hacc] at h
            obtain ⟨rws, t, f1, f2⟩ := ih _ _ _ _ _ h
            exact ⟨new ++ rws, t, by rw [e2, f1]; simp, f2⟩
          · rw [if_neg hacc] at h; cases h
      | false =>
        simp only [Bool.false_eq_true, if_false] at e2 h
        have hp : rest = p := by
          by_cases hlim : m > 0 ∧ ((d + chunkRev.length : Nat) : Int) > m
          · rw [if_pos hlim] at h; simpa using h
          · rw [if_neg hlim] at h
            by_cases hacc : accepts b (chunkRev.length + 1) = true
            · rw [if_pos hacc] at h; simpa using h
            · rw [if_neg hacc] at h; simpa using h
        subst hp
        exact ⟨new, .eof, e2, .inl rfl⟩
    | errConn => rw [hr] at h; cases h
    | errBackend r =>
      rw [hr] at h
      simp only [Fate.pooled.injEq] at h
      subst h
      obtain ⟨rws, h1⟩ := (readRows_err_rest (rest := r)).1 hr
      exact ⟨rws, .err, h1, .inr rfl⟩
    | errLimit r =>
      rw [hr] at h
      simp only [Fate.pooled.injEq] at h
      subst h
      obtain ⟨rws, h1⟩ := (readRows_err_rest (rest := r)).2 hr
      exact ⟨rws, .eof, h1, .inl rfl⟩
    | errLimitDrain => rw [hr] at h; cases h
    | stalled => rw [hr] at h; cases h

theorem sendResult_fate (T : Nat) (m : Int) (s : List Pkt) (rowsRev : List Row) (more : Bool)
    (rest : List Pkt) (b : Option Nat) (p : List Pkt)
    (hr : readRows T m s [] 0 0 = .ok rowsRev more rest)
    (h : (sendResult T m rowsRev more rest b).fate = .pooled p) : Behind s p := by
  obtain ⟨new, e1, e2, e3, e4⟩ := readRows_ok hr
  unfold sendResult at h
  cases more with
  | true =>
    simp only [if_true] at e2 h
    by_cases hacc : accepts b (headerPackets + rowsRev.length + 0) = true
    · rw [if_pos hacc] at h
      obtain ⟨rws, t, f1, f2⟩ := streamMore_fate T m _ _ _ _ _ _ h
      exact ⟨new ++ rws, t, by rw [e2, f1]; simp, f2⟩
    · rw [if_neg hacc] at h; cases h
  | false =>
    simp only [Bool.false_eq_true, if_false] at e2 h
    have hp : rest = p := by
      by_cases hacc : accepts b (headerPackets + rowsRev.length + 1) = true
      · rw [if_pos hacc] at h; simpa using h
      · rw [if_neg hacc] at h; simpa using h
    subst hp
    exact ⟨new, .eof, e2, .inl rfl⟩

/-- **A recycled connection is clean (unsharded).** A backend connection that
    goes back to the pool after an unsharded statement stands right behind the
    packet that closed the result: no row of it is left for the next statement
    to trip over (otherwise it has been closed) — whether the result was
    delivered, refused for its size, or the client went away in the middle. -/
theorem unshard_fate_clean (T : Nat) (m : Int) (s p : List Pkt) (b : Option Nat)
    (h : (unshard T m s b).fate = .pooled p) : Behind s p := by
  rw [unshard_eq] at h
  cases hr : readRows T m s [] 0 0 with
  | ok rowsRev more rest =>
    rw [hr] at h
    exact sendResult_fate T m s rowsRev more rest b p hr h
  | errConn => rw [hr] at h; cases h
  | errBackend r =>
    rw [hr] at h
    simp only [Fate.pooled.injEq] at h
    subst h
    obtain ⟨rws, h1⟩ := (readRows_err_rest (rest := r)).1 hr
    exact ⟨rws, .err, h1, .inr rfl⟩
  | errLimit r =>
    rw [hr] at h
    simp only [Fate.pooled.injEq] at h
    subst h
    obtain ⟨rws, h1⟩ := (readRows_err_rest (rest := r)).2 hr
    exact ⟨rws, .eof, h1, .inl rfl⟩
  | errLimitDrain => rw [hr] at h; cases h
  | stalled => rw [hr] at h; cases h

def Shard.fate? : Shard → Option Fate
  | .ok _ f => some f
  | .errLimit f => some f
  | .errBackend f => some f
  | _ => none

theorem fetchAll_fate (T : Nat) (m : Int) :
    ∀ (fuel : Nat) (s : List Pkt) (acc : List Row) (n : Nat) (p : List Pkt),
      Shard.fate? (fetchAll T m fuel s acc n) = some (.pooled p) → Behind s p := by
  intro fuel
  induction fuel with
  | zero => intro s acc n p h; simp [fetchAll, Shard.fate?] at h
  | succ fuel ih =>
    intro s acc n p h
    rw [fetchAll_step] at h
    cases hr : readRows T m s acc n 0 with
    | ok acc' more rest =>
      rw [hr] at h
      obtain ⟨new, e1, e2, e3, e4⟩ := readRows_ok hr
      simp only at h
      cases more with
      | true =>
        simp only [if_true] at e2 h
        obtain ⟨rws, t, f1, f2⟩ := ih _ _ _ _ h
        exact ⟨new ++ rws, t, by rw [e2, f1]; simp, f2⟩
      | false =>
        simp only [Bool.false_eq_true, if_false, Shard.fate?, Option.some.injEq, Fate.pooled.injEq] at e2 h
        subst h
        exact ⟨new, .eof, e2, .inl rfl⟩
    | errConn => rw [hr] at h; simp [Shard.fate?] at h
    | errBackend r =>
      rw [hr] at h
      simp only [Shard.fate?, Option.some.injEq, Fate.pooled.injEq] at h
      subst h
      obtain ⟨rws, h1⟩ := (readRows_err_rest (rest := r)).1 hr
      exact ⟨rws, .err, h1, .inr rfl⟩
    | errLimit r =>
      rw [hr] at h
      simp only [Shard.fate?, Option.some.injEq, Fate.pooled.injEq] at h
      subst h
      obtain ⟨rws, h1⟩ := (readRows_err_rest (rest := r)).2 hr
      exact ⟨rws, .eof, h1, .inl rfl⟩
    | errLimitDrain => rw [hr] at h; simp [Shard.fate?] at h
    | stalled => rw [hr] at h; simp [Shard.fate?] at h

/-- **A recycled connection is clean (sharded).** -/
theorem execShard_fate_clean (T : Nat) (m : Int) (s p : List Pkt)
    (h : Shard.fate? (execShard T m s) = some (.pooled p)) : Behind s p :=
  fetchAll_fate T m _ s [] 0 p h

/-! ### the loops terminate (the `fuel` outcomes are unreachable) -/

theorem streamMore_fuel (T : Nat) (m : Int) :
    ∀ (fuel : Nat) (s : List Pkt) (outRev : List Row) (d : Nat) (b : Option Nat),
      s.length < fuel → (streamMore T m fuel s outRev d b).fin ≠ .fuel := by
  intro fuel
  induction fuel with
  | zero => intro s _ _ _ h; omega
  | succ fuel ih =>
    intro s outRev d b hf
    rw [streamMore_step]
    cases hr : readRows T m s [] 0 0 with
    | ok chunkRev more rest =>
      obtain ⟨new, e1, e2, e3, e4⟩ := readRows_ok hr
      simp only
      by_cases hlim : m > 0 ∧ ((d + chunkRev.length : Nat) : Int) > m
      · rw [if_pos hlim]; simp
      · rw [if_neg hlim]
        by_cases hacc : accepts b (chunkRev.length + (if more = true then 0 else 1)) = true
        · rw [if_pos hacc]
          cases more with
          | true =>
            simp only [if_true] at e2 ⊢
            apply ih
            have hn : 0 < new.length := List.length_pos_iff.mpr (e3 rfl)
            rw [e2] at hf
            simp only [List.length_append, rowsOf_length] at hf
            omega
          | false => simp
        · rw [if_neg hacc]; simp
    | errConn => simp
    | errBackend r => simp
    | errLimit r => simp
    | errLimitDrain => simp
    | stalled => simp

theorem sendResult_fuel (T : Nat) (m : Int) (rowsRev : List Row) (more : Bool) (rest : List Pkt)
    (b : Option Nat) : (sendResult T m rowsRev more rest b).fin ≠ .fuel := by
  unfold sendResult
  by_cases hacc : accepts b (headerPackets + rowsRev.length + (if more = true then 0 else 1)) = true
  · rw [if_pos hacc]
    cases more with
    | true => simp only [if_true]; exact streamMore_fuel T m _ _ _ _ _ (by omega)
    | false => simp
  · rw [if_neg hacc]; simp

theorem unshard_fuel (T : Nat) (m : Int) (s : List Pkt) (b : Option Nat) : (unshard T m s b).fin ≠ .fuel := by
  rw [unshard_eq]
  cases hr : readRows T m s [] 0 0 with
  | ok rowsRev more rest => exact sendResult_fuel T m rowsRev more rest b
  | errConn => simp
  | errBackend r => simp
  | errLimit r => simp
  | errLimitDrain => simp
  | stalled => simp

theorem fetchAll_fuel (T : Nat) (m : Int) :
    ∀ (fuel : Nat) (s : List Pkt) (acc : List Row) (n : Nat),
      s.length < fuel → fetchAll T m fuel s acc n ≠ .fuel := by
  intro fuel
  induction fuel with
  | zero => intro s _ _ h; omega
  | succ fuel ih =>
    intro s acc n hf
    rw [fetchAll_step]
    cases hr : readRows T m s acc n 0 with
    | ok acc' more rest =>
      obtain ⟨new, e1, e2, e3, e4⟩ := readRows_ok hr
      simp only
      cases more with
      | true =>
        simp only [if_true] at e2 ⊢
        apply ih
        have hn : 0 < new.length := List.length_pos_iff.mpr (e3 rfl)
        rw [e2] at hf
        simp only [List.length_append, rowsOf_length] at hf
        omega
      | false => simp
    | errConn => simp
    | errBackend r => simp
    | errLimit r => simp
    | errLimitDrain => simp
    | stalled => simp

theorem execShard_fuel (T : Nat) (m : Int) (s : List Pkt) : execShard T m s ≠ .fuel :=
  fetchAll_fuel T m _ s [] 0 (by omega)

/-! ### at the constant of the source -/

/-- **C39 at `mysql.MaxPayloadLen`** (the threshold of the current source;
    any threshold would do — the theorems above do not depend on it). For
    every row limit and backend stream: (1) the client receives the leading
    rows of the backend's answer; (2) a closing EOF means they are all rows of
    a complete backend result, within the limit — both whatever the client does
    (`b`); (3) a complete result within the limit is delivered in full with its
    EOF to a client that keeps reading; (4) a complete result over the limit
    ends with the limit error. -/
theorem C39_unsharded (m : Int) (s : List Pkt) :
    (∀ b, ∃ rest, s = rowsOf (unshard Gen.maxPayloadLen m s b).rows ++ rest) ∧
    (∀ b, (unshard Gen.maxPayloadLen m s b).fin = .eof →
      ∃ rest', Complete s (unshard Gen.maxPayloadLen m s b).rows rest' ∧
        (m > 0 → ((unshard Gen.maxPayloadLen m s b).rows.length : Int) ≤ m)) ∧
    (∀ rows rest, Complete s rows rest → Within m rows.length →
      (unshard Gen.maxPayloadLen m s none).rows = rows ∧ (unshard Gen.maxPayloadLen m s none).fin = .eof) ∧
    (∀ rows rest, Complete s rows rest → m > 0 → (rows.length : Int) > m →
      (unshard Gen.maxPayloadLen m s none).fin = .err .limit) := by
  refine ⟨fun b => (unshard_complete Gen.maxPayloadLen m s b).1, ?_, ?_, ?_⟩
  · intro b hf
    obtain ⟨rest', g1, _, g3⟩ := (unshard_complete Gen.maxPayloadLen m s b).2 hf
    exact ⟨rest', g1, g3⟩
  · intro rows rest hc hw
    rw [Complete] at hc; subst hc
    rw [unshard_delivered_in_full _ m rows rest hw]
    exact ⟨rfl, rfl⟩
  · intro rows rest hc hm hl
    rw [Complete] at hc; subst hc
    exact unshard_row_limit _ m hm rows rest hl

/-- **C39 at `mysql.MaxPayloadLen`, sharded statements.** -/
theorem C39_sharded (m : Int) (shards : List (List Pkt)) :
    (∀ rss, executeSQLs Gen.maxPayloadLen m shards = some rss →
      ShardWise (fun s rows => ∃ rest, Complete s rows rest ∧ (m > 0 → (rows.length : Int) ≤ m)) shards rss) ∧
    (∀ rows tail, m > 0 → rowsOf rows ++ tail ∈ shards → (rows.length : Int) > m →
      executeSQLs Gen.maxPayloadLen m shards = none) :=
  ⟨fun rss h => shard_complete_or_error _ m shards rss h,
   fun rows tail hm hin h => shard_row_limit _ m hm shards rows tail hin h⟩

/-! ### the column definitions of a streamed result (translator fact, harness/extract/c39fields.go)

  `writeOKResultStream` keeps `globalFields := rs.Resultset.Fields` across
  `rs.Free()` and uses it for every following chunk, while `mysql.ResultPool`
  hands the same `*Result` — whose `Fields` `Reset` has only truncated, so it
  still points to the same array — to whichever session asks next.  The
  streaming session's columns (and with them the binary encoding of its rows)
  stay its own because no function of the result-handling packages stores an
  element of a `Fields` slice it has not made itself in the same function
  (`X.Fields = make(…)` / a Resultset just allocated; for the slice of a
  parameter: made by every caller): the array behind `globalFields` is never
  written after `readResultColumns` has filled it.  A deterministic probe
  (GOMAXPROCS(1), GC off) shows the same `*Result` coming back with
  `len/cap(Fields) = 0/2` on the array `globalFields` points to, and
  `globalFields` intact after `readResultSet`-style and
  `createShow…Result`-style reuse — and overwritten by a hypothetical
  `append(r.Fields, …)`, which is what this fact excludes. -/

/-- **C39/C38 (a streamed result keeps its own column definitions).** -/
theorem streamed_columns_never_written_in_place :
    Gen.c39FieldsWrittenInPlace = [] ∧ Gen.c39FieldsWriters ≠ [] := by decide

/-! ## Whole sessions (`Model/ResultSession.lean`)

  Transactions and keep-session pinning, multi-result answers, statement
  time-outs, clients that stop reading, the binary protocol (same functions: the
  model has no protocol parameter) and sharded statements from above the
  planner. -/

/-! ### what the client is shown of an answer -/

/-- `vs` is what a client may be shown of the results `rs` of an answer, in
    order: every result it is told is complete (an OK packet, or a result set
    closed by an EOF) is the corresponding result of the backend — for a result
    set: *all* rows of a complete backend result (`Complete`), within the row
    limit, with the backend's more-results flag — and at most the last result
    it sees is cut short (`ended = none`), holding leading rows of the backend's
    result and nothing else. -/
inductive Shown (m : Int) : List RView → List Res → Prop
  | nil (rs : List Res) : Shown m [] rs
  | okp (more : Bool) {vs : List RView} {rs : List Res} :
      Shown m vs rs → Shown m (.okp more :: vs) (.okp more :: rs)
  | full (more : Bool) {rows : List Row} {body rest : List Pkt} {vs : List RView} {rs : List Res} :
      Complete body rows rest → (m > 0 → (rows.length : Int) ≤ m) → Shown m vs rs →
      Shown m (.rs rows (some more) :: vs) (.set more body :: rs)
  | part (more : Bool) {rows : List Row} {body tail : List Pkt} (rs : List Res) :
      body = rowsOf rows ++ tail → Shown m [.rs rows none] (.set more body :: rs)

/-- `vs` is the whole answer: every result up to (and including) the first one
    that announces no further result, each in full. -/
inductive Finished (m : Int) : List RView → List Res → Prop
  | okp (rs : List Res) : Finished m [.okp false] (.okp false :: rs)
  | okpMore {vs : List RView} {rs : List Res} :
      Finished m vs rs → Finished m (.okp true :: vs) (.okp true :: rs)
  | set {rows : List Row} {body rest : List Pkt} (rs : List Res) :
      Complete body rows rest → (m > 0 → (rows.length : Int) ≤ m) →
      Finished m [.rs rows (some false)] (.set false body :: rs)
  | setMore {rows : List Row} {body rest : List Pkt} {vs : List RView} {rs : List Res} :
      Complete body rows rest → (m > 0 → (rows.length : Int) ≤ m) → Finished m vs rs →
      Finished m (.rs rows (some true) :: vs) (.set true body :: rs)

theorem Finished.shown {m : Int} : ∀ {vs : List RView} {rs : List Res}, Finished m vs rs → Shown m vs rs := by
  intro vs rs h
  induction h with
  | okp rs => exact .okp false (.nil _)
  | okpMore _ ih => exact .okp true ih
  | set rs hc hl => exact .full false hc hl (.nil _)
  | setMore hc hl _ ih => exact .full true hc hl ih

@[simp] theorem sErrFin_ne_done (b : Option Nat) (k : SErr) : sErrFin b k ≠ .done := by
  unfold sErrFin; split <;> simp

theorem timedOut_views (first armed : Bool) (acc : List RView) (b : Option Nat) :
    (timedOut first armed acc b).views = acc.reverse ∧ (timedOut first armed acc b).fin ≠ .done ∧
    (timedOut first armed acc b).conn = .closed := by
  unfold timedOut; split <;> simp

/-- What `unResults` guarantees, whatever the answer, the limit, the deadline
    and the client. -/
def UnSound (m : Int) (rs : List Res) (acc : List RView) (o : StmtOut) : Prop :=
  ∃ vs, o.views = acc.reverse ++ vs ∧ Shown m vs rs ∧ (o.fin = .done → Finished m vs rs)

theorem UnSound.none {m : Int} {rs : List Res} {acc : List RView} {o : StmtOut}
    (h1 : o.views = acc.reverse) (h2 : o.fin ≠ .done) : UnSound m rs acc o :=
  ⟨[], by simp [h1], .nil _, fun h => absurd h h2⟩

theorem unResults_sound (T : Nat) (m : Int) (armed : Bool) :
    ∀ (rs : List Res) (first : Bool) (b : Option Nat) (acc : List RView),
      UnSound m rs acc (unResults T m armed first rs b acc) := by
  intro rs
  induction rs with
  | nil => intro first b acc; exact UnSound.none (by simp [unResults]) (by simp [unResults])
  | cons r rs ih =>
    intro first b acc
    cases r with
    | stall0 =>
      obtain ⟨h1, h2, _⟩ := timedOut_views first armed acc b
      exact UnSound.none (by simpa [unResults] using h1) (by simpa [unResults] using h2)
    | errp => exact UnSound.none (by simp [unResults]) (by simp [unResults])
    | okp more =>
      simp only [unResults]
      by_cases hacc : accepts b 1 = true
      · rw [if_pos hacc]
        cases more with
        | true =>
          simp only [if_true]
          obtain ⟨vs, h1, h2, h3⟩ := ih false (spend b 1) (.okp true :: acc)
          exact ⟨.okp true :: vs, by rw [h1]; simp, .okp true h2, fun h => .okpMore (h3 h)⟩
        | false =>
          simp only [Bool.false_eq_true, if_false]
          exact ⟨[.okp false], by simp, .okp false (.nil _), fun _ => .okp _⟩
      · rw [if_neg hacc]
        exact UnSound.none rfl (by simp)
    | set more body =>
      simp only [unResults]
      cases hr : readRows T m body [] 0 0 with
      | ok rowsRev moreRows rest =>
        simp only
        obtain ⟨⟨rest', e1⟩, e2⟩ := sendResult_sound T m body rowsRev moreRows rest b hr
        cases hfin : (sendResult T m rowsRev moreRows rest b).fin with
        | eof =>
          simp only
          obtain ⟨rest'', g1, g2, g3⟩ := e2 hfin
          cases more with
          | true =>
            simp only [if_true]
            obtain ⟨vs, h1, h2, h3⟩ := ih false
              (spend b (headerPackets + (sendResult T m rowsRev moreRows rest b).rows.length + 1))
              (.rs (sendResult T m rowsRev moreRows rest b).rows (some true) :: acc)
            exact ⟨_ :: vs, by rw [h1]; simp, .full true g1 g3 h2, fun h => .setMore g1 g3 (h3 h)⟩
          | false =>
            simp only [Bool.false_eq_true, if_false]
            exact ⟨[.rs _ (some false)], by simp, .full false g1 g3 (.nil _), fun _ => .set _ g1 g3⟩
        | err k =>
          simp only
          by_cases hacc : accepts b 1 = true
          · rw [if_pos hacc]
            refine ⟨[.rs _ none], by simp, .part more rs e1, ?_⟩
            cases k <;> simp
          · rw [if_neg hacc]
            refine UnSound.none rfl ?_
            cases k <;> simp
        | closed =>
          simp only
          by_cases hacc : accepts b 1 = true
          · rw [if_pos hacc]
            exact ⟨[.rs _ none], by simp, .part more rs e1, by simp⟩
          · rw [if_neg hacc]
            exact UnSound.none rfl (by simp)
        | stalled =>
          simp only
          by_cases hacc : accepts b 1 = true
          · rw [if_pos hacc]
            exact ⟨[.rs _ none], by simp, .part more rs e1, by simp⟩
          · rw [if_neg hacc]
            exact UnSound.none rfl (by simp)
        | hang =>
          simp only
          by_cases hacc : accepts b 1 = true
          · rw [if_pos hacc]
            exact ⟨[.rs _ none], by simp, .part more rs e1, by simp⟩
          · rw [if_neg hacc]
            exact UnSound.none rfl (by simp)
        | fuel =>
          simp only
          by_cases hacc : accepts b 1 = true
          · rw [if_pos hacc]
            exact ⟨[.rs _ none], by simp, .part more rs e1, by simp⟩
          · rw [if_neg hacc]
            exact UnSound.none rfl (by simp)
      | errConn => exact UnSound.none rfl (by simp)
      | errBackend rest => exact UnSound.none rfl (by simp)
      | errLimit rest =>
        simp only
        cases more with
        | true =>
          simp only [if_true]
          cases drainMore rs with
          | ok left => exact UnSound.none rfl (by simp)
          | failed left => exact UnSound.none rfl (by simp)
          | lost => exact UnSound.none rfl (by simp)
          | stalled =>
            obtain ⟨h1, h2, _⟩ := timedOut_views first armed acc b
            exact UnSound.none h1 h2
        | false => exact UnSound.none rfl (by simp)
      | errLimitDrain =>
        simp only
        cases afterFirstErr body with
        | some rest => exact UnSound.none rfl (by simp)
        | none => exact UnSound.none rfl (by simp)
      | stalled =>
        obtain ⟨h1, h2, _⟩ := timedOut_views first armed acc b
        exact UnSound.none h1 h2

/-! ### answers as a MySQL server sends them, and the state of the connection afterwards -/

/-- How a result set ends on the wire. -/
inductive BodyEnd where
  /-- the closing EOF -/
  | eof
  /-- an ERR packet (error during execution, KILL QUERY) -/
  | err
  /-- nothing more: the connection is lost -/
  | cut
  /-- silence -/
  | stall
  deriving DecidableEq

def bodyOf (rows : List Row) : BodyEnd → List Pkt
  | .eof => rowsOf rows ++ [.eof]
  | .err => rowsOf rows ++ [.err]
  | .cut => rowsOf rows
  | .stall => rowsOf rows ++ [.stall]

/-- A well-formed answer: results flagged "more" are followed by a result; an
    OK packet or result set without the flag, an ERR packet, a lost connection
    or silence ends the answer; nothing follows the packet that closes a result
    set. -/
inductive WF : List Res → Prop
  | okpLast : WF [.okp false]
  | okpMore {rs : List Res} : WF rs → WF (.okp true :: rs)
  | errp : WF [.errp]
  | stall0 : WF [.stall0]
  | setLast (rows : List Row) (e : BodyEnd) : WF [.set false (bodyOf rows e)]
  | setMore (rows : List Row) {rs : List Res} : WF rs → WF (.set true (bodyOf rows .eof) :: rs)
  | setEnd (rows : List Row) (e : BodyEnd) : e ≠ .eof → WF [.set true (bodyOf rows e)]

/-- The connection is closed, or nothing is unread on it. -/
def CleanAfter (c : ConnAfter) : Prop := c = .closed ∨ ∃ pk, c = .live ⟨[], []⟩ pk

theorem rows_split_unique : ∀ (a b : List Row) (x y : Pkt) (p q : List Pkt),
    (∀ r, x ≠ .row r) → (∀ r, y ≠ .row r) →
    rowsOf a ++ x :: p = rowsOf b ++ y :: q → a = b ∧ x = y ∧ p = q := by
  intro a
  induction a with
  | nil =>
    intro b x y p q hx hy h
    cases b with
    | nil => simpa using h
    | cons r rs => simp only [rowsOf_nil, List.nil_append, rowsOf_cons, List.cons_append, List.cons.injEq] at h; exact absurd h.1 (hx r)
  | cons r rs ih =>
    intro b x y p q hx hy h
    cases b with
    | nil =>
      simp only [rowsOf_nil, List.nil_append, rowsOf_cons, List.cons_append, List.cons.injEq] at h
      exact absurd h.1.symm (hy r)
    | cons r' rs' =>
      simp only [rowsOf_cons, List.cons_append, List.cons.injEq, Pkt.row.injEq] at h
      obtain ⟨e1, e2, e3⟩ := ih rs' x y p q hx hy h.2
      exact ⟨by rw [h.1, e1], e2, e3⟩

theorem rows_no_terminal : ∀ (a b : List Row) (x : Pkt) (p : List Pkt),
    (∀ r, x ≠ .row r) → rowsOf a ++ x :: p ≠ rowsOf b := by
  intro a
  induction a with
  | nil =>
    intro b x p hx h
    cases b with
    | nil => simp at h
    | cons r rs => simp only [rowsOf_nil, List.nil_append, rowsOf_cons, List.cons.injEq] at h; exact hx r h.1
  | cons r rs ih =>
    intro b x p hx h
    cases b with
    | nil => simp at h
    | cons r' rs' =>
      simp only [rowsOf_cons, List.cons_append, List.cons.injEq] at h
      exact ih rs' x p hx h.2

/-- Behind the packet that closed a well-formed result set there is nothing. -/
theorem behind_bodyOf {rows : List Row} {e : BodyEnd} {p : List Pkt} (h : Behind (bodyOf rows e) p) : p = [] := by
  obtain ⟨rws, t, h1, h2⟩ := h
  have ht : ∀ r, t ≠ .row r := by intro r; cases h2 with | inl h => rw [h]; simp | inr h => rw [h]; simp
  cases e with
  | eof => exact (rows_split_unique rws rows t .eof p [] ht (by simp) (by simpa [bodyOf] using h1.symm)).2.2
  | err => exact (rows_split_unique rws rows t .err p [] ht (by simp) (by simpa [bodyOf] using h1.symm)).2.2
  | cut => exact absurd (by simpa [bodyOf] using h1.symm) (rows_no_terminal rws rows t p ht)
  | stall =>
    have := (rows_split_unique rws rows t .stall p [] ht (by simp) (by simpa [bodyOf] using h1.symm)).2.1
    cases h2 with
    | inl h => rw [h] at this; cases this
    | inr h => rw [h] at this; cases this

theorem afterFirstErr_rows : ∀ (rows : List Row) (tail : List Pkt),
    afterFirstErr (rowsOf rows ++ tail) = afterFirstErr tail := by
  intro rows
  induction rows with
  | nil => intro tail; rfl
  | cons r rs ih => intro tail; simp [afterFirstErr, ih]

theorem afterFirstErr_bodyOf {rows : List Row} {e : BodyEnd} {rest : List Pkt}
    (h : afterFirstErr (bodyOf rows e) = some rest) : rest = [] := by
  cases e with
  | eof => rw [bodyOf, afterFirstErr_rows] at h; simp [afterFirstErr] at h
  | err => rw [bodyOf, afterFirstErr_rows] at h; simp [afterFirstErr] at h; exact h
  | cut =>
    have : afterFirstErr (rowsOf rows ++ []) = some rest := by simpa [bodyOf] using h
    rw [afterFirstErr_rows] at this; simp [afterFirstErr] at this
  | stall => rw [bodyOf, afterFirstErr_rows] at h; simp [afterFirstErr] at h

theorem drain_rows : ∀ (rows : List Row) (tail : List Pkt),
    drainResults (rowsOf rows ++ tail) = drainResults tail := by
  intro rows
  induction rows with
  | nil => intro tail; rfl
  | cons r rs ih => intro tail; simp [drainResults, ih]

/-- Draining the rest of a well-formed answer leaves nothing behind. -/
theorem drainMore_wf : ∀ {rs : List Res}, WF rs →
    drainMore rs = .ok [] ∨ drainMore rs = .failed [] ∨ drainMore rs = .lost ∨ drainMore rs = .stalled := by
  intro rs h
  induction h with
  | okpLast => simp [drainMore]
  | okpMore _ ih => simpa [drainMore] using ih
  | errp => simp [drainMore]
  | stall0 => simp [drainMore]
  | setLast rows e =>
    cases e with
    | eof => simp [drainMore, bodyOf, drain_rows, drainResults]
    | err => simp [drainMore, bodyOf, drain_rows, drainResults, afterFirstErr_rows, afterFirstErr]
    | cut =>
      have e1 : drainResults (rowsOf rows) = .failed := by
        have := drain_rows rows []; simp only [List.append_nil] at this; rw [this]; rfl
      have e2 : afterFirstErr (rowsOf rows) = none := by
        have := afterFirstErr_rows rows []; simp only [List.append_nil] at this; rw [this]; rfl
      simp [drainMore, bodyOf, e1, e2]
    | stall => simp [drainMore, bodyOf, drain_rows, drainResults]
  | setMore rows _ ih => simpa [drainMore, bodyOf, drain_rows, drainResults] using ih
  | setEnd rows e he =>
    cases e with
    | eof => exact absurd rfl he
    | err => simp [drainMore, bodyOf, drain_rows, drainResults, afterFirstErr_rows, afterFirstErr]
    | cut =>
      have e1 : drainResults (rowsOf rows) = .failed := by
        have := drain_rows rows []; simp only [List.append_nil] at this; rw [this]; rfl
      have e2 : afterFirstErr (rowsOf rows) = none := by
        have := afterFirstErr_rows rows []; simp only [List.append_nil] at this; rw [this]; rfl
      simp [drainMore, bodyOf, e1, e2]
    | stall => simp [drainMore, bodyOf, drain_rows, drainResults]

theorem CleanAfter.closed : CleanAfter .closed := .inl rfl
theorem CleanAfter.live (pk : Bool) : CleanAfter (.live ⟨[], []⟩ pk) := .inr ⟨pk, rfl⟩

theorem readRows_errBackend_bodyOf {T : Nat} {m : Int} {rows : List Row} {e : BodyEnd} {acc : List Row}
    {n buf : Nat} {rest : List Pkt} (h : readRows T m (bodyOf rows e) acc n buf = .errBackend rest) : rest = [] := by
  obtain ⟨rws, h1⟩ := (readRows_err_rest (rest := rest)).1 h
  exact behind_bodyOf ⟨rws, .err, h1, .inr rfl⟩

theorem readRows_errLimit_bodyOf {T : Nat} {m : Int} {rows : List Row} {e : BodyEnd} {acc : List Row}
    {n buf : Nat} {rest : List Pkt} (h : readRows T m (bodyOf rows e) acc n buf = .errLimit rest) : rest = [] := by
  obtain ⟨rws, h1⟩ := (readRows_err_rest (rest := rest)).2 h
  exact behind_bodyOf ⟨rws, .eof, h1, .inl rfl⟩

theorem sendResult_fate_bodyOf {T : Nat} {m : Int} {rows : List Row} {e : BodyEnd} {rowsRev : List Row}
    {more : Bool} {rest : List Pkt} {b : Option Nat} {p : List Pkt}
    (hr : readRows T m (bodyOf rows e) [] 0 0 = .ok rowsRev more rest)
    (h : (sendResult T m rowsRev more rest b).fate = .pooled p) : p = [] :=
  behind_bodyOf (sendResult_fate T m _ rowsRev more rest b p hr h)

/-- The last result set of an answer (no further result announced), or any
    result set of a well-formed answer that does not end with its EOF: whatever
    happens, the connection is closed or has nothing unread. -/
theorem unResults_clean_last (T : Nat) (m : Int) (armed : Bool) (rows : List Row) (e : BodyEnd)
    (more first : Bool) (b : Option Nat) (acc : List RView) (hme : more = true → e ≠ .eof) :
    CleanAfter (unResults T m armed first [.set more (bodyOf rows e)] b acc).conn := by
  simp only [unResults]
  cases hr : readRows T m (bodyOf rows e) [] 0 0 with
  | ok rowsRev moreRows rest =>
    simp only
    cases hfin : (sendResult T m rowsRev moreRows rest b).fin with
    | eof =>
      simp only
      cases more with
      | true => simp only [if_true, unResults]; exact .closed
      | false =>
        simp only [Bool.false_eq_true, if_false]
        cases hf : (sendResult T m rowsRev moreRows rest b).fate with
        | closed => exact .closed
        | pooled p => rw [sendResult_fate_bodyOf hr hf]; exact .live _
    | err k =>
      simp only
      cases hf : (sendResult T m rowsRev moreRows rest b).fate with
      | closed => exact .closed
      | pooled p =>
        rw [sendResult_fate_bodyOf hr hf]
        cases more with
        | true => exact .closed
        | false => exact .live _
    | closed =>
      simp only
      cases hf : (sendResult T m rowsRev moreRows rest b).fate with
      | closed => exact .closed
      | pooled p =>
        rw [sendResult_fate_bodyOf hr hf]
        cases more with
        | true => exact .closed
        | false => exact .live _
    | stalled =>
      simp only
      cases hf : (sendResult T m rowsRev moreRows rest b).fate with
      | closed => exact .closed
      | pooled p =>
        rw [sendResult_fate_bodyOf hr hf]
        cases more with
        | true => exact .closed
        | false => exact .live _
    | hang =>
      simp only
      cases hf : (sendResult T m rowsRev moreRows rest b).fate with
      | closed => exact .closed
      | pooled p =>
        rw [sendResult_fate_bodyOf hr hf]
        cases more with
        | true => exact .closed
        | false => exact .live _
    | fuel =>
      simp only
      cases hf : (sendResult T m rowsRev moreRows rest b).fate with
      | closed => exact .closed
      | pooled p =>
        rw [sendResult_fate_bodyOf hr hf]
        cases more with
        | true => exact .closed
        | false => exact .live _
  | errConn => exact .closed
  | errBackend rest => rw [readRows_errBackend_bodyOf hr]; exact .live _
  | errLimit rest =>
    simp only
    rw [readRows_errLimit_bodyOf hr]
    cases more with
    | true => simp only [if_true, drainMore]; exact .closed
    | false => exact .live _
  | errLimitDrain =>
    simp only
    cases ha : afterFirstErr (bodyOf rows e) with
    | some rest => simp only; rw [afterFirstErr_bodyOf ha]; exact .live _
    | none => exact .closed
  | stalled => exact .inl (timedOut_views first armed acc b).2.2

/-- **A connection never keeps packets of an answer.** After an unsharded
    statement whose backend answered with a well-formed answer — whatever the
    row limit, the deadline and the client did — the backend connection is
    closed or nothing of the answer is unread on it. -/
theorem unResults_clean (T : Nat) (m : Int) (armed : Bool) :
    ∀ {rs : List Res}, WF rs → ∀ (first : Bool) (b : Option Nat) (acc : List RView),
      CleanAfter (unResults T m armed first rs b acc).conn := by
  intro rs h
  induction h with
  | okpLast =>
    intro first b acc
    simp only [unResults]
    by_cases hacc : accepts b 1 = true
    · rw [if_pos hacc]; simp only [Bool.false_eq_true, if_false]; exact .live _
    · rw [if_neg hacc]; simp only [Bool.false_eq_true, if_false]; exact .live _
  | okpMore _ ih =>
    intro first b acc
    simp only [unResults]
    by_cases hacc : accepts b 1 = true
    · rw [if_pos hacc]; simp only [if_true]; exact ih _ _ _
    · rw [if_neg hacc]; simp only [if_true]; exact .closed
  | errp => intro first b acc; simp only [unResults]; exact .live _
  | stall0 => intro first b acc; simp only [unResults]; exact .inl (timedOut_views first armed acc b).2.2
  | setLast rows e => intro first b acc; exact unResults_clean_last T m armed rows e false first b acc (by simp)
  | setEnd rows e he => intro first b acc; exact unResults_clean_last T m armed rows e true first b acc (fun _ => he)
  | @setMore rows rs hwf ih =>
    intro first b acc
    simp only [unResults]
    cases hr : readRows T m (bodyOf rows .eof) [] 0 0 with
    | ok rowsRev moreRows rest =>
      simp only
      cases hfin : (sendResult T m rowsRev moreRows rest b).fin with
      | eof => simp only [if_true]; exact ih _ _ _
      | err k =>
        simp only
        cases hf : (sendResult T m rowsRev moreRows rest b).fate with
        | closed => exact .closed
        | pooled p => exact .closed
      | closed =>
        simp only
        cases hf : (sendResult T m rowsRev moreRows rest b).fate with
        | closed => exact .closed
        | pooled p => exact .closed
      | stalled =>
        simp only
        cases hf : (sendResult T m rowsRev moreRows rest b).fate with
        | closed => exact .closed
        | pooled p => exact .closed
      | hang =>
        simp only
        cases hf : (sendResult T m rowsRev moreRows rest b).fate with
        | closed => exact .closed
        | pooled p => exact .closed
      | fuel =>
        simp only
        cases hf : (sendResult T m rowsRev moreRows rest b).fate with
        | closed => exact .closed
        | pooled p => exact .closed
    | errConn => exact .closed
    | errBackend rest =>
      -- impossible: the body holds no ERR packet
      obtain ⟨rws, h1⟩ := (readRows_err_rest (rest := rest)).1 hr
      have := (rows_split_unique rws rows .err .eof rest [] (by simp) (by simp) (by simpa [bodyOf] using h1.symm)).2.1
      cases this
    | errLimit rest =>
      simp only [if_true]
      rw [readRows_errLimit_bodyOf hr]
      rcases drainMore_wf hwf with h | h | h | h <;> rw [h]
      · exact .live _
      · exact .live _
      · exact .closed
      · exact .inl (timedOut_views first armed acc b).2.2
    | errLimitDrain =>
      simp only
      have : afterFirstErr (bodyOf rows .eof) = none := by
        rw [bodyOf, afterFirstErr_rows]; rfl
      rw [this]; exact .closed
    | stalled => exact .inl (timedOut_views first armed acc b).2.2

/-! ### sharded statements from above the planner -/

/-- The rows returned for the statements of a slice are, statement by statement,
    all rows of a complete backend result within the limit. -/
inductive TablesDone (m : Int) : List TRes → List (List Row) → Prop
  | nil : TablesDone m [] []
  | cons {body rest : List Pkt} {rows : List Row} {ts : List TRes} {rss : List (List Row)} :
      Complete body rows rest → (m > 0 → (rows.length : Int) ≤ m) → TablesDone m ts rss →
      TablesDone m (.set body :: ts) (rows :: rss)

theorem execSlice_ok (T : Nat) (m : Int) (armed : Bool) :
    ∀ (ts : List TRes) (acc rss : List (List Row)) (c : ConnAfter),
      execSlice T m armed ts acc = (.ok rss, c) → ∃ new, rss = acc.reverse ++ new ∧ TablesDone m ts new := by
  intro ts
  induction ts with
  | nil =>
    intro acc rss c h
    simp only [execSlice, Prod.mk.injEq, SliceOut.ok.injEq] at h
    exact ⟨[], by simp [h.1], .nil⟩
  | cons t ts ih =>
    intro acc rss c h
    cases t with
    | errp => simp [execSlice] at h
    | stall0 => simp only [execSlice] at h; split at h <;> simp at h
    | set body =>
      simp only [execSlice] at h
      cases hs : execShard T m body with
      | ok rows fate =>
        obtain ⟨rest, g1, g2, g3⟩ := execShard_ok T m body rows fate hs
        subst g2
        rw [hs] at h
        cases ts with
        | nil =>
          simp only [Prod.mk.injEq, SliceOut.ok.injEq] at h
          exact ⟨[rows], by simp [← h.1], .cons g1 g3 .nil⟩
        | cons t' ts' =>
          simp only at h
          by_cases he : rest.isEmpty = true
          · rw [if_pos he] at h
            obtain ⟨new, e1, e2⟩ := ih (rows :: acc) rss c h
            exact ⟨rows :: new, by simp [e1], .cons g1 g3 e2⟩
          · rw [if_neg he] at h; simp at h
      | errLimit fate =>
        rw [hs] at h
        cases fate with
        | closed => simp only at h; split at h <;> simp at h
        | pooled p => simp at h
      | errBackend fate => rw [hs] at h; cases fate <;> simp at h
      | errConn => rw [hs] at h; simp at h
      | stalled => rw [hs] at h; simp only at h; split at h <;> simp at h
      | fuel => rw [hs] at h; simp at h

/-- A sub-table's answer as a MySQL server sends it. -/
def TWF : TRes → Prop
  | .errp => True
  | .stall0 => True
  | .set body => ∃ rows e, body = bodyOf rows e

theorem execShard_pooled_bodyOf {T : Nat} {m : Int} {rows : List Row} {e : BodyEnd} {p : List Pkt}
    (h : Shard.fate? (execShard T m (bodyOf rows e)) = some (.pooled p)) : p = [] :=
  behind_bodyOf (execShard_fate_clean T m _ p h)

/-- The statements of a slice never run into each other's packets, and the
    connection is closed or clean afterwards. -/
theorem execSlice_clean (T : Nat) (m : Int) (armed : Bool) :
    ∀ (ts : List TRes) (acc : List (List Row)), (∀ t ∈ ts, TWF t) →
      (execSlice T m armed ts acc).1 ≠ .desync ∧ CleanAfter (execSlice T m armed ts acc).2 := by
  intro ts
  induction ts with
  | nil => intro acc _; simp only [execSlice]; exact ⟨by simp, .live _⟩
  | cons t ts ih =>
    intro acc hwf
    have hts : ∀ t ∈ ts, TWF t := fun t ht => hwf t (by simp [ht])
    cases t with
    | errp => simp only [execSlice]; exact ⟨by simp, .live _⟩
    | stall0 => simp only [execSlice]; split <;> exact ⟨by simp, .closed⟩
    | set body =>
      obtain ⟨rows, e, hb⟩ := hwf (.set body) (by simp)
      subst hb
      simp only [execSlice]
      cases hs : execShard T m (bodyOf rows e) with
      | ok rws fate =>
        cases fate with
        | closed => exact ⟨by simp, .closed⟩
        | pooled p =>
          have hp : p = [] := execShard_pooled_bodyOf (by rw [hs]; rfl)
          subst hp
          cases ts with
          | nil => exact ⟨by simp, .live _⟩
          | cons t' ts' => simp only [List.isEmpty_nil, if_true]; exact ih _ hts
      | errLimit fate =>
        cases fate with
        | closed =>
          simp only
          cases ha : afterFirstErr (bodyOf rows e) with
          | some rest => simp only; rw [afterFirstErr_bodyOf ha]; exact ⟨by simp, .live _⟩
          | none => exact ⟨by simp, .closed⟩
        | pooled p =>
          have hp : p = [] := execShard_pooled_bodyOf (by rw [hs]; rfl)
          subst hp
          exact ⟨by simp, .live _⟩
      | errBackend fate =>
        cases fate with
        | closed => exact ⟨by simp, .closed⟩
        | pooled p =>
          have hp : p = [] := execShard_pooled_bodyOf (by rw [hs]; rfl)
          subst hp
          exact ⟨by simp, .live _⟩
      | errConn => exact ⟨by simp, .closed⟩
      | stalled => simp only; split <;> exact ⟨by simp, .closed⟩
      | fuel => exact ⟨by simp, .closed⟩

/-- The client is told that a sharded statement's result is complete only when
    every slice returned its rows; the result then holds the rows of all slices,
    one after the other. -/
theorem sqClient_done (outs : List SliceOut) (b : Option Nat) (hnd : ∀ o ∈ outs, o ≠ .desync)
    (h : (sqClient outs b).2 = .done) :
    (∀ o ∈ outs, ∃ rows, o = .ok rows) ∧
    (sqClient outs b).1 = [.rs (outs.map fun o => o.rows.flatten).flatten (some false)] := by
  unfold sqClient at h ⊢
  by_cases hh : outs.any SliceOut.isHang = true
  · rw [if_pos hh] at h; simp at h
  · rw [if_neg hh] at h ⊢
    cases he : outs.filterMap SliceOut.err? with
    | cons k ks => rw [he] at h; simp at h
    | nil =>
      rw [he] at h
      simp only at h ⊢
      by_cases hacc : accepts b (headerPackets + ((outs.map fun o => o.rows.flatten).flatten).length + 1) = true
      · rw [if_pos hacc]
        refine ⟨?_, rfl⟩
        intro o ho
        cases o with
        | ok rows => exact ⟨rows, rfl⟩
        | err k =>
          have : k ∈ outs.filterMap SliceOut.err? := List.mem_filterMap.mpr ⟨_, ho, rfl⟩
          rw [he] at this; simp at this
        | hang =>
          exfalso; apply hh
          exact List.any_eq_true.mpr ⟨_, ho, rfl⟩
        | desync => exact absurd rfl (hnd _ ho)
      · rw [if_neg hacc] at h
        split at h <;> simp at h

/-! ### whole sessions: no statement ever starts on a connection with unread packets -/

/-- The live connection of a slice, if any, has nothing unread. -/
def SlClean (s : Sl) : Prop := ∀ l, s.conn = some l → l = ⟨[], []⟩

/-- Every live connection of the session is clean and no command was ever
    sent on an unclean one. -/
def SessClean (ss : Sess) : Prop := SlClean ss.s0 ∧ SlClean ss.s1 ∧ ss.desync = false

/-- The backends answer the statement with well-formed answers. -/
def StmtWF : Stmt → Prop
  | .un answer _ => WF answer
  | .sq t0 t1 _ => (∀ t ∈ t0, TWF t) ∧ (∀ t ∈ t1, TWF t)
  | .mq pieces _ => ∀ r ∈ pieces, WF [r]
  | _ => True

theorem SlClean.fit {s : Sl} (h : SlClean s) : s.fit = true := by
  unfold Sl.fit
  cases hc : s.conn with
  | none => rfl
  | some l => rw [h l hc]; rfl

theorem SlClean.pinnedFit {s : Sl} (h : SlClean s) : s.pinnedFit = true := by
  unfold Sl.pinnedFit; rw [h.fit]; simp

theorem SlClean.endTx {s : Sl} (h : SlClean s) (ks : Bool) : SlClean (s.endTx ks) := by
  unfold Sl.endTx; split
  · exact h
  · exact h

theorem SlClean.after {s : Sl} (pin : Bool) {ca : ConnAfter} (hc : CleanAfter ca) : SlClean (s.after pin ca).1 := by
  unfold Sl.after
  rcases hc with hc | ⟨pk, hc⟩
  · subst hc; intro l hl; simp at hl
  · subst hc
    simp only
    split
    · intro l hl; simp at hl; exact hl.symm
    · split
      · intro l hl; simp at hl
      · intro l hl; simp at hl; exact hl.symm

/-- The statements of a multi-statement packet never run into each other's
    packets, and slice-0's connection is clean afterwards. -/
theorem mqLoop_clean (T : Nat) (m : Int) (armed pin : Bool) :
    ∀ (pieces : List Res) (s0 : Sl) (b : Option Nat) (acc : List RView),
      SlClean s0 → (∀ r ∈ pieces, WF [r]) →
      SlClean (mqLoop T m armed pin pieces s0 b acc).sl ∧ (mqLoop T m armed pin pieces s0 b acc).desync = false := by
  intro pieces
  induction pieces with
  | nil => intro s0 b acc h _; exact ⟨h, rfl⟩
  | cons r rest ih =>
    intro s0 b acc h hw
    have hc : CleanAfter (unStmt T m armed [r] b).conn := unResults_clean T m armed (hw r (by simp)) true b []
    have ha : SlClean (s0.after pin (unStmt T m armed [r] b).conn).1 := SlClean.after pin hc
    simp only [mqLoop, h.fit, Bool.not_true, Bool.false_eq_true, if_false]
    cases rest with
    | nil => exact ⟨ha, rfl⟩
    | cons r' rest' =>
      simp only
      split
      · exact ih _ _ _ ha (fun x hx => hw x (by simp [hx]))
      · exact ⟨ha, rfl⟩

theorem sqStep_clean (ss : Sess) (r0 r1 : Option (SliceOut × ConnAfter)) (b : Option Nat)
    (hc : SessClean ss)
    (h0 : ∀ r, r0 = some r → r.1 ≠ .desync ∧ CleanAfter r.2)
    (h1 : ∀ r, r1 = some r → r.1 ≠ .desync ∧ CleanAfter r.2) :
    SessClean (sqStep ss r0 r1 b).1 := by
  obtain ⟨c0, c1, hd⟩ := hc
  have hno : (List.any (List.map (fun x => x.1) (r0.toList ++ r1.toList)) SliceOut.isDesync) = false := by
    rw [Bool.eq_false_iff]
    intro h
    obtain ⟨o, ho, he⟩ := List.any_eq_true.mp h
    have he' : o = SliceOut.desync := by cases o <;> simp [SliceOut.isDesync] at he ⊢
    subst he'
    simp only [List.map_append, List.mem_append, List.mem_map, Option.mem_toList] at ho
    rcases ho with ⟨x, hx, hx1⟩ | ⟨x, hx, hx1⟩
    · exact (h0 x hx).1 hx1
    · exact (h1 x hx).1 hx1
  simp only [sqStep, hno, Bool.false_eq_true, if_false]
  refine ⟨?_, ?_, hd⟩
  · cases r0 with
    | none => exact c0
    | some r => exact SlClean.after _ (h0 r rfl).2
  · cases r1 with
    | none => exact c1
    | some r => exact SlClean.after _ (h1 r rfl).2

theorem step_clean (T : Nat) (m : Int) (armed : Bool) (ss : Sess) (st : Stmt)
    (hc : SessClean ss) (hw : StmtWF st) : SessClean (step T m armed ss st).1 := by
  have hc' := hc
  obtain ⟨h0, h1, hd⟩ := hc
  unfold step
  by_cases hg : (!ss.alive || ss.desync) = true
  · rw [if_pos hg]; exact ⟨h0, h1, hd⟩
  · rw [if_neg hg]
    cases st with
    | begin =>
      simp only [h0.pinnedFit, h1.pinnedFit, Bool.and_self, if_true]
      exact ⟨h0, h1, hd⟩
    | commit =>
      simp only [h0.pinnedFit, h1.pinnedFit, Bool.and_self, if_true]
      exact ⟨h0.endTx _, h1.endTx _, hd⟩
    | rollback =>
      simp only [h0.pinnedFit, h1.pinnedFit, Bool.and_self, if_true]
      exact ⟨h0.endTx _, h1.endTx _, hd⟩
    | un answer b =>
      simp only [h0.fit, Bool.not_true, Bool.false_eq_true, if_false]
      refine ⟨SlClean.after _ ?_, h1, hd⟩
      exact unResults_clean T m armed hw true b []
    | mq pieces b =>
      obtain ⟨g1, g2⟩ := mqLoop_clean T m armed (ss.tx || ss.ks) pieces ss.s0 b [] h0 hw
      simp only [g2, Bool.false_eq_true, if_false]
      exact ⟨g1, h1, hd⟩
    | sq t0 t1 b =>
      simp only [h0.fit, h1.fit, Bool.not_true, Bool.and_false, Bool.or_self, Bool.false_eq_true, if_false]
      apply sqStep_clean _ _ _ _ hc'
      · intro r hr
        split at hr
        · cases hr
        · cases hr; exact execSlice_clean T m armed t0 [] hw.1
      · intro r hr
        split at hr
        · cases hr
        · cases hr; exact execSlice_clean T m armed t1 [] hw.2

theorem run_clean (T : Nat) (m : Int) (armed : Bool) :
    ∀ (sts : List Stmt) (ss : Sess) (acc : List Answer), SessClean ss → (∀ st ∈ sts, StmtWF st) →
      SessClean (run T m armed ss sts acc).1 := by
  intro sts
  induction sts with
  | nil => intro ss acc hc _; simpa [run] using hc
  | cons st sts ih =>
    intro ss acc hc hw
    have h1 := step_clean T m armed ss st hc (hw st (by simp))
    have hws : ∀ st ∈ sts, StmtWF st := fun s hs => hw s (by simp [hs])
    simp only [run]
    cases hs : step T m armed ss st with
    | mk ss' oa =>
      rw [hs] at h1
      cases oa with
      | some a => exact ih ss' _ h1 hws
      | none => exact ih ss' _ h1 hws

theorem SessClean.init (ks : Bool) : SessClean (Sess.init ks) := by
  refine ⟨?_, ?_, rfl⟩ <;> intro l hl <;> simp [Sess.init] at hl

theorem SlClean.final_packets {s : Sl} (h : SlClean s) (ks : Bool) :
    (s.final ks).2 = none ∨ (s.final ks).2 = some 0 := by
  unfold Sl.final
  cases hc : s.conn with
  | none => exact .inl rfl
  | some l =>
    rw [h l hc]
    simp only
    split
    · exact .inl rfl
    · exact .inr rfl

/-! ### the statements of a session, as the client sees them -/

/-- **C39, unsharded statements in a session (`stmt_complete_or_error`).** For
    every answer of the backend (any number of results, each ending any way),
    every row limit, with or without a statement deadline, inside or outside a
    transaction (the statement does not depend on it), and whatever the client
    does: what the client is shown is, result by result and in order, what the
    backend sent — a result it is told is complete holds *all* rows of a
    complete backend result, within the limit, and carries the backend's
    more-results flag; only the last one can be cut short (then an ERR packet
    or a closed connection follows, never an EOF) — and if the answer ends as
    finished (`done`), every result up to the first one that announces no
    further result was delivered in full. -/
theorem stmt_complete_or_error (T : Nat) (m : Int) (armed : Bool) (answer : List Res) (b : Option Nat) :
    Shown m (unStmt T m armed answer b).views answer ∧
    ((unStmt T m armed answer b).fin = .done → Finished m (unStmt T m armed answer b).views answer) := by
  obtain ⟨vs, h1, h2, h3⟩ := unResults_sound T m armed answer true b []
  simp only [List.reverse_nil, List.nil_append] at h1
  unfold unStmt
  rw [h1]
  exact ⟨h2, h3⟩

/-- **The fate of the connection (`stmt_connection_clean`).** After an
    unsharded statement answered with a well-formed answer the backend
    connection is closed, or nothing of the answer is unread on it — for every
    limit, deadline and client behaviour (row limit exceeded in any result of a
    multi-result answer, client gone in the middle of a stream, …). -/
theorem stmt_connection_clean (T : Nat) (m : Int) (armed : Bool) (answer : List Res) (b : Option Nat)
    (hw : WF answer) : CleanAfter (unStmt T m armed answer b).conn :=
  unResults_clean T m armed hw true b []

/-- What `step` answers to an unsharded statement is what `unStmt` computes. -/
theorem step_un_answer (T : Nat) (m : Int) (armed : Bool) (ss ss' : Sess) (answer : List Res)
    (b : Option Nat) (a : Answer) (h : step T m armed ss (.un answer b) = (ss', some a)) :
    a.views = (unStmt T m armed answer b).views ∧ a.fin = (unStmt T m armed answer b).fin := by
  simp only [step] at h
  by_cases hg : (!ss.alive || ss.desync) = true
  · rw [if_pos hg] at h; simp at h
  · rw [if_neg hg] at h
    by_cases hf : (!ss.s0.fit) = true
    · rw [if_pos hf] at h; simp at h
    · rw [if_neg hf] at h
      simp only [Prod.mk.injEq, Option.some.injEq] at h
      rw [← h.2]; exact ⟨rfl, rfl⟩

/-- **C39 for every unsharded statement of every session.** -/
theorem session_un_complete_or_error (T : Nat) (m : Int) (armed : Bool) (ss ss' : Sess) (answer : List Res)
    (b : Option Nat) (a : Answer) (h : step T m armed ss (.un answer b) = (ss', some a)) :
    Shown m a.views answer ∧ (a.fin = .done → Finished m a.views answer) := by
  obtain ⟨e1, e2⟩ := step_un_answer T m armed ss ss' answer b a h
  rw [e1, e2]
  exact stmt_complete_or_error T m armed answer b

/-- **A transaction whose connection was closed ends the session** (time-out,
    stream given up with packets unread, connection lost): no later statement
    of the transaction runs on another connection. -/
theorem tx_closed_connection_ends_session (T : Nat) (m : Int) (armed : Bool) (ss : Sess) (answer : List Res)
    (b : Option Nat) (halive : ss.alive = true) (hd : ss.desync = false) (hfit : ss.s0.fit = true)
    (htx : ss.tx = true) (hc : (unStmt T m armed answer b).conn = .closed) :
    (step T m armed ss (.un answer b)).1.alive = false := by
  unfold step
  simp only [halive, hd, hfit, htx, hc, Sl.after, Bool.not_true, Bool.or_self, Bool.false_eq_true, if_false,
    Bool.true_or, Bool.true_and, Bool.or_true, Bool.not_true]

theorem sqStep_answer (ss ss' : Sess) (r0 r1 : Option (SliceOut × ConnAfter)) (b : Option Nat) (a : Answer)
    (h : sqStep ss r0 r1 b = (ss', some a)) :
    List.any (List.map (fun x => x.1) (r0.toList ++ r1.toList)) SliceOut.isDesync = false ∧
    a.views = (sqClient (List.map (fun x => x.1) (r0.toList ++ r1.toList)) b).1 ∧
    a.fin = (sqClient (List.map (fun x => x.1) (r0.toList ++ r1.toList)) b).2 := by
  simp only [sqStep] at h
  by_cases hd : List.any (List.map (fun x => x.1) (r0.toList ++ r1.toList)) SliceOut.isDesync = true
  · rw [if_pos hd] at h; simp at h
  · rw [if_neg hd] at h
    simp only [Prod.mk.injEq, Option.some.injEq] at h
    refine ⟨by simpa using hd, ?_, ?_⟩ <;> rw [← h.2]

theorem step_sq_answer (T : Nat) (m : Int) (armed : Bool) (ss ss' : Sess) (t0 t1 : List TRes)
    (b : Option Nat) (a : Answer) (h : step T m armed ss (.sq t0 t1 b) = (ss', some a)) :
    sqStep ss (if t0.isEmpty then none else some (execSlice T m armed t0 []))
      (if t1.isEmpty then none else some (execSlice T m armed t1 [])) b = (ss', some a) := by
  simp only [step] at h
  by_cases hg : (!ss.alive || ss.desync) = true
  · rw [if_pos hg] at h; simp at h
  · rw [if_neg hg] at h
    by_cases hf : ((!t0.isEmpty && !ss.s0.fit) || (!t1.isEmpty && !ss.s1.fit)) = true
    · rw [if_pos hf] at h; simp at h
    · rw [if_neg hf] at h; exact h

/-- **C39, sharded statements from above the planner (`sq_complete_or_error`).**
    If the client is told that the result of `SELECT … FROM t [WHERE …]` over
    the routed sub-tables is complete, then every sub-table's backend result was
    complete (rows, then EOF) and within the row limit, and the client's rows
    are exactly all rows of all sub-tables, slice by slice in table order. A
    slice that answered with an error, lost its connection or fell silent makes
    the whole statement fail — the rows of the other slices are never delivered
    alone. -/
theorem session_sq_complete_or_error (T : Nat) (m : Int) (armed : Bool) (ss ss' : Sess) (t0 t1 : List TRes)
    (b : Option Nat) (a : Answer) (h : step T m armed ss (.sq t0 t1 b) = (ss', some a)) (hf : a.fin = .done) :
    ∃ rss0 rss1, TablesDone m t0 rss0 ∧ TablesDone m t1 rss1 ∧
      a.views = [.rs (rss0.flatten ++ rss1.flatten) (some false)] := by
  obtain ⟨hnd, hv, hfin⟩ := sqStep_answer _ _ _ _ _ _ (step_sq_answer T m armed ss ss' t0 t1 b a h)
  rw [hf] at hfin
  have hnd' : ∀ o ∈ List.map (fun x => x.1)
      ((if t0.isEmpty = true then none else some (execSlice T m armed t0 [])).toList ++
       (if t1.isEmpty = true then none else some (execSlice T m armed t1 [])).toList), o ≠ .desync := by
    intro o ho he
    have : List.any _ SliceOut.isDesync = true := List.any_eq_true.mpr ⟨o, ho, by rw [he]; rfl⟩
    rw [hnd] at this; cases this
  obtain ⟨hall, hviews⟩ := sqClient_done _ b hnd' hfin.symm
  -- the rows of a slice
  have slice : ∀ (ts : List TRes),
      (∀ o ∈ (if ts.isEmpty = true then none else some (execSlice T m armed ts [])).toList.map (fun x => x.1),
        ∃ rows, o = SliceOut.ok rows) →
      ∃ rss, TablesDone m ts rss ∧
        ((if ts.isEmpty = true then none else some (execSlice T m armed ts [])).toList.map
          (fun x => (x.1 : SliceOut).rows.flatten)).flatten = rss.flatten := by
    intro ts hok
    by_cases hts : ts.isEmpty = true
    · have : ts = [] := List.isEmpty_iff.mp hts
      subst this
      exact ⟨[], .nil, by simp⟩
    · rw [if_neg hts] at hok ⊢
      obtain ⟨rows, hr⟩ := hok (execSlice T m armed ts []).1 (by simp)
      obtain ⟨new, e1, e2⟩ := execSlice_ok T m armed ts [] rows (execSlice T m armed ts []).2
        (by rw [← hr])
      simp only [List.reverse_nil, List.nil_append] at e1
      subst e1
      exact ⟨rows, e2, by simp [hr, SliceOut.rows]⟩
  obtain ⟨rss0, d0, f0⟩ := slice t0 (fun o ho => hall o (by
    simp only [List.map_append, List.mem_append]; exact .inl ho))
  obtain ⟨rss1, d1, f1⟩ := slice t1 (fun o ho => hall o (by
    simp only [List.map_append, List.mem_append]; exact .inr ho))
  refine ⟨rss0, rss1, d0, d1, ?_⟩
  rw [hv, hviews]
  simp only [List.map_append, List.map_map, List.flatten_append]
  have g0 : (List.map ((fun o => o.rows.flatten) ∘ fun x => x.1)
      (if t0.isEmpty = true then none else some (execSlice T m armed t0 [])).toList).flatten = rss0.flatten := by
    rw [← f0]; rfl
  have g1 : (List.map ((fun o => o.rows.flatten) ∘ fun x => x.1)
      (if t1.isEmpty = true then none else some (execSlice T m armed t1 [])).toList).flatten = rss1.flatten := by
    rw [← f1]; rfl
  rw [g0, g1]

/-! ### multi-statement packets split by the proxy (`doMultiStmts`) -/

/-- `vs` is what a client may be shown of the answers to the statements `ps` of
    one packet, in order: every result it is told is complete is the result of
    the corresponding statement — for a result set all rows of a complete
    backend result, within the limit — and at most the last one it sees is cut
    short. -/
inductive PiecesShown (m : Int) : List RView → List Res → Prop
  | nil (ps : List Res) : PiecesShown m [] ps
  | okp (f more : Bool) {vs : List RView} {ps : List Res} :
      PiecesShown m vs ps → PiecesShown m (.okp f :: vs) (.okp more :: ps)
  | full (f more : Bool) {rows : List Row} {body rest : List Pkt} {vs : List RView} {ps : List Res} :
      Complete body rows rest → (m > 0 → (rows.length : Int) ≤ m) → PiecesShown m vs ps →
      PiecesShown m (.rs rows (some f) :: vs) (.set more body :: ps)
  | part (more : Bool) {rows : List Row} {body tail : List Pkt} (ps : List Res) :
      body = rowsOf rows ++ tail → PiecesShown m [.rs rows none] (.set more body :: ps)

/-- `vs` is the whole answer to the packet: the result of every statement, each
    in full, SERVER_MORE_RESULTS_EXISTS on all of them but the last. -/
inductive PiecesDone (m : Int) : List RView → List Res → Prop
  | lastOkp : PiecesDone m [.okp false] [.okp false]
  | lastSet {rows : List Row} {body rest : List Pkt} :
      Complete body rows rest → (m > 0 → (rows.length : Int) ≤ m) →
      PiecesDone m [.rs rows (some false)] [.set false body]
  | okp {vs : List RView} {ps : List Res} :
      PiecesDone m vs ps → PiecesDone m (.okp true :: vs) (.okp false :: ps)
  | set {rows : List Row} {body rest : List Pkt} {vs : List RView} {ps : List Res} :
      Complete body rows rest → (m > 0 → (rows.length : Int) ≤ m) → PiecesDone m vs ps →
      PiecesDone m (.rs rows (some true) :: vs) (.set false body :: ps)

/-- one statement's answer (`Shown` of a single result), with the flag set -/
theorem piecesShown_flagMore {m : Int} {vs : List RView} {r : Res} (ps : List Res) (h : Shown m vs [r]) :
    PiecesShown m (flagMore vs) (r :: ps) ∧ PiecesShown m vs (r :: ps) := by
  cases h with
  | nil => exact ⟨.nil _, .nil _⟩
  | okp more h' => cases h'; exact ⟨.okp true more (.nil _), .okp more more (.nil _)⟩
  | full more hc hl h' => cases h'; exact ⟨.full true more hc hl (.nil _), .full more more hc hl (.nil _)⟩
  | part more _ hb => exact ⟨.part more ps hb, .part more ps hb⟩

theorem finished_single {m : Int} {vs : List RView} {r : Res} (h : Finished m vs [r]) :
    (vs = [.okp false] ∧ r = .okp false) ∨
    (∃ rows body rest, vs = [.rs rows (some false)] ∧ r = .set false body ∧ Complete body rows rest ∧
      (m > 0 → (rows.length : Int) ≤ m)) := by
  cases h with
  | okp _ => exact .inl ⟨rfl, rfl⟩
  | okpMore h' => cases h'
  | set _ hc hl => exact .inr ⟨_, _, _, rfl, rfl, hc, hl⟩
  | setMore _ _ h' => cases h'

theorem mqLoop_sound (T : Nat) (m : Int) (armed pin : Bool) :
    ∀ (pieces : List Res) (s0 : Sl) (b : Option Nat) (acc : List RView),
      (mqLoop T m armed pin pieces s0 b acc).desync = false →
      ∃ vs, (mqLoop T m armed pin pieces s0 b acc).views = acc ++ vs ∧ PiecesShown m vs pieces ∧
        (pieces ≠ [] → (mqLoop T m armed pin pieces s0 b acc).fin = .done → PiecesDone m vs pieces) := by
  intro pieces
  induction pieces with
  | nil => intro s0 b acc _; exact ⟨[], by simp [mqLoop], .nil _, fun h => absurd rfl h⟩
  | cons r rest ih =>
    intro s0 b acc hd
    obtain ⟨hs, hf⟩ := stmt_complete_or_error T m armed [r] b
    simp only [mqLoop] at hd ⊢
    by_cases hfit : (!s0.fit) = true
    · rw [if_pos hfit] at hd; simp at hd
    · rw [if_neg hfit] at hd ⊢
      cases rest with
      | nil =>
        simp only
        refine ⟨_, rfl, (piecesShown_flagMore [] hs).2, ?_⟩
        intro _ hdone
        rcases finished_single (hf hdone) with ⟨e1, e2⟩ | ⟨rows, body, rest, e1, e2, hc, hl⟩
        · rw [e1, e2]; exact .lastOkp
        · rw [e1, e2]; exact .lastSet hc hl
      | cons r' rest' =>
        simp only at hd ⊢
        by_cases hdone : (unStmt T m armed [r] b).fin = .done
        · rw [if_pos hdone] at hd ⊢
          obtain ⟨vs, e1, e2, e3⟩ := ih _ _ _ hd
          refine ⟨flagMore (unStmt T m armed [r] b).views ++ vs, by rw [e1]; simp, ?_, ?_⟩
          · rcases finished_single (hf hdone) with ⟨g1, g2⟩ | ⟨rows, body, rest, g1, g2, hc, hl⟩
            · rw [g1, g2]; exact .okp true false e2
            · rw [g1, g2]; exact .full true false hc hl e2
          · intro _ hd2
            have := e3 (by simp) hd2
            rcases finished_single (hf hdone) with ⟨g1, g2⟩ | ⟨rows, body, rest, g1, g2, hc, hl⟩
            · rw [g1, g2]; exact .okp this
            · rw [g1, g2]; exact .set hc hl this
        · rw [if_neg hdone]
          exact ⟨_, rfl, (piecesShown_flagMore _ hs).1, fun _ h => absurd h hdone⟩

/-- **C39, a packet of several statements (`doMultiStmts`).** Whatever the
    backend answers to each statement, for every limit, deadline, client
    behaviour, inside or outside a transaction: the client is shown, statement
    by statement and in order, results that are — when presented as complete —
    all rows of that statement's complete backend result within the limit, at
    most the last one cut short (and then followed by an error or a closed
    connection: a failing statement ends the answer); and if the answer ends as
    finished, it holds the full result of *every* statement of the packet, with
    SERVER_MORE_RESULTS_EXISTS on all of them but the last. -/
theorem session_mq_complete_or_error (T : Nat) (m : Int) (armed : Bool) (ss ss' : Sess) (pieces : List Res)
    (b : Option Nat) (a : Answer) (h : step T m armed ss (.mq pieces b) = (ss', some a)) :
    PiecesShown m a.views pieces ∧ (pieces ≠ [] → a.fin = .done → PiecesDone m a.views pieces) := by
  simp only [step] at h
  by_cases hg : (!ss.alive || ss.desync) = true
  · rw [if_pos hg] at h; simp at h
  · rw [if_neg hg] at h
    by_cases hd : (mqLoop T m armed (ss.tx || ss.ks) pieces ss.s0 b []).desync = true
    · rw [if_pos hd] at h; simp at h
    · rw [if_neg hd] at h
      simp only [Prod.mk.injEq, Option.some.injEq] at h
      obtain ⟨vs, e1, e2, e3⟩ := mqLoop_sound T m armed (ss.tx || ss.ks) pieces ss.s0 b [] (by simpa using hd)
      simp only [List.nil_append] at e1
      rw [← h.2]
      simp only
      rw [e1]
      exact ⟨e2, e3⟩

/-- **C39, whole sessions: no statement ever reads another statement's packets
    (`session_never_desyncs`).** For every history of a session — statements in
    and outside transactions, with or without keep-session, with or without a
    statement deadline, any row limit, unsharded and sharded statements, clients
    that stop reading anywhere — over backends that answer with well-formed
    answers: no command is ever sent on a backend connection that still holds
    unread packets (also not the ROLLBACK of `Session.Close`), and every
    connection that is back in its pool at the end has nothing unread. -/
theorem session_never_desyncs (T : Nat) (m : Int) (armed : Bool) (ks : Bool) (sts : List Stmt)
    (hw : ∀ st ∈ sts, StmtWF st) :
    (run T m armed (Sess.init ks) sts []).1.desync = false ∧
    (run T m armed (Sess.init ks) sts []).1.closeFit = true ∧
    (((run T m armed (Sess.init ks) sts []).1.s0.final ks).2 = none ∨
      ((run T m armed (Sess.init ks) sts []).1.s0.final ks).2 = some 0) ∧
    (((run T m armed (Sess.init ks) sts []).1.s1.final ks).2 = none ∨
      ((run T m armed (Sess.init ks) sts []).1.s1.final ks).2 = some 0) := by
  obtain ⟨h0, h1, hd⟩ := run_clean T m armed sts (Sess.init ks) [] (SessClean.init ks) hw
  refine ⟨hd, ?_, h0.final_packets ks, h1.final_packets ks⟩
  unfold Sess.closeFit
  rw [h0.pinnedFit, h1.pinnedFit]; rfl

/-! ### examples -/

-- a transaction, chunks of two rows (T = 10, rows of 6 bytes), limit 3: the second chunk takes the
-- result over the limit while rows are still pending: limit error, the connection is closed, the
-- session ends and the third statement is not executed
example : (run 10 3 false (Sess.init false)
    [.begin,
     .un [.set false [.row ⟨0, 6⟩, .row ⟨1, 6⟩, .row ⟨2, 6⟩, .row ⟨3, 6⟩, .row ⟨4, 6⟩, .row ⟨5, 6⟩, .eof]] none,
     .un [.set false [.row ⟨0, 6⟩, .eof]] none] []).2 =
    [⟨[.okp false], .done, true⟩, ⟨[.rs [⟨0, 6⟩, ⟨1, 6⟩] none], .err .limit, false⟩] := by decide

-- two results, the second one of two chunks: both are delivered in full, the first with the flag
example : unStmt 10 (-1) false
    [.set true [.row ⟨0, 6⟩, .eof], .set false [.row ⟨1, 6⟩, .row ⟨2, 6⟩, .row ⟨3, 6⟩, .eof]] none =
    ⟨[.rs [⟨0, 6⟩] (some true), .rs [⟨1, 6⟩, ⟨2, 6⟩, ⟨3, 6⟩] (some false)], .done, .live ⟨[], []⟩ false⟩ := by decide

-- the first result of three is over the limit: the other two are drained, the connection stays usable
example : unStmt 10 1 false
    [.set true [.row ⟨0, 6⟩, .row ⟨1, 6⟩, .eof], .set true [.row ⟨2, 6⟩, .eof], .okp false] none =
    ⟨[], .err .limit, .live ⟨[], []⟩ false⟩ := by decide

-- the backend falls silent after one row: with a deadline the statement fails, the connection is closed
example : unStmt 10 (-1) true [.set false [.row ⟨0, 6⟩, .stall]] none = ⟨[], .err .timeout, .closed⟩ := by decide

-- the client's connection breaks after 7 packets of a three-chunk result: connection closed
example : unStmt 10 (-1) false
    [.set false [.row ⟨0, 6⟩, .row ⟨1, 6⟩, .row ⟨2, 6⟩, .row ⟨3, 6⟩, .row ⟨4, 6⟩, .eof]] (some 7) =
    ⟨[.rs [⟨0, 6⟩, ⟨1, 6⟩, ⟨2, 6⟩] none], .closed, .closed⟩ := by decide

-- a sharded statement over two sub-tables of slice-0 and one of slice-1
example : (step 10 (-1) false (Sess.init false)
    (.sq [.set [.row ⟨0, 6⟩, .eof], .set [.row ⟨1, 6⟩, .row ⟨2, 6⟩, .eof]] [.set [.row ⟨3, 6⟩, .eof]] none)).2 =
    some ⟨[.rs [⟨0, 6⟩, ⟨1, 6⟩, ⟨2, 6⟩, ⟨3, 6⟩] (some false)], .done, true⟩ := by decide

-- … one of which answers with an ERR packet after its rows: error, nothing is delivered
example : (step 10 (-1) false (Sess.init false)
    (.sq [.set [.row ⟨0, 6⟩, .eof], .set [.row ⟨1, 6⟩, .err]] [.set [.row ⟨3, 6⟩, .eof]] none)).2 =
    some ⟨[], .err .backend, true⟩ := by decide

example : WF [.set true (bodyOf [⟨0, 6⟩] .eof), .okp false] := .setMore _ .okpLast

-- a packet of two statements, the first answer of two chunks: both delivered, the flag on the first
example : (step 10 (-1) false (Sess.init false)
    (.mq [.set false [.row ⟨0, 6⟩, .row ⟨1, 6⟩, .row ⟨2, 6⟩, .eof], .set false [.row ⟨3, 6⟩, .eof]] none)).2 =
    some ⟨[.rs [⟨0, 6⟩, ⟨1, 6⟩, ⟨2, 6⟩] (some true), .rs [⟨3, 6⟩] (some false)], .done, true⟩ := by decide

-- … with row limit 3 the first statement fails between its chunks: error, the second one is not run
example : (step 10 3 false (Sess.init false)
    (.mq [.set false [.row ⟨0, 6⟩, .row ⟨1, 6⟩, .row ⟨2, 6⟩, .row ⟨3, 6⟩, .row ⟨4, 6⟩, .eof],
          .set false [.row ⟨5, 6⟩, .eof]] none)).2 =
    some ⟨[.rs [⟨0, 6⟩, ⟨1, 6⟩] none], .err .limit, true⟩ := by decide

end GaeaVerif.C39
