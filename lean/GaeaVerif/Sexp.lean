/-
  S-expressions for the line protocol between the Go harness and the Lean
  driver.  Core Lean only (the driver must link without Mathlib).
  Atoms are runs of characters other than blanks and parentheses; byte strings
  travel as lower-case hex atoms (the empty byte string is the atom `-`).
-/
namespace GaeaVerif

inductive Sexp where
  | atom (s : String)
  | list (xs : List Sexp)
  deriving Repr, Inhabited, BEq

namespace Sexp

private def isAtomChar (c : Char) : Bool :=
  !(c == ' ' || c == '\t' || c == '\n' || c == '\r' || c == '(' || c == ')')

/-- Parser over a character list with explicit fuel (the input length). -/
partial def parseList (cs : List Char) (acc : List Sexp) : Option (List Sexp × List Char) :=
  match cs with
  | [] => some (acc.reverse, [])
  | c :: rest =>
    if c == ' ' || c == '\t' || c == '\n' || c == '\r' then parseList rest acc
    else if c == ')' then some (acc.reverse, cs)
    else if c == '(' then
      match parseList rest [] with
      | some (xs, ')' :: rest') => parseList rest' (Sexp.list xs :: acc)
      | _ => none
    else
      let a := cs.takeWhile isAtomChar
      let rest' := cs.dropWhile isAtomChar
      parseList rest' (Sexp.atom (String.ofList a) :: acc)

/-- Parse a whole line into the list of top-level expressions. -/
def parseLine (s : String) : Option (List Sexp) :=
  match parseList s.toList [] with
  | some (xs, []) => some xs
  | _ => none

partial def toString : Sexp → String
  | atom s => s
  | list xs => "(" ++ " ".intercalate (xs.map toString) ++ ")"

instance : ToString Sexp := ⟨Sexp.toString⟩

def asAtom? : Sexp → Option String
  | atom s => some s
  | _ => none

def asList? : Sexp → Option (List Sexp)
  | list xs => some xs
  | _ => none

def asInt? (e : Sexp) : Option Int := e.asAtom?.bind String.toInt?
def asNat? (e : Sexp) : Option Nat := e.asAtom?.bind String.toNat?

def asBool? (e : Sexp) : Option Bool :=
  match e with
  | atom "t" => some true
  | atom "f" => some false
  | _ => none

end Sexp

/-! Hex helpers. -/

def hexDigit (n : Nat) : Char :=
  if n < 10 then Char.ofNat (48 + n) else Char.ofNat (87 + n)

def hexVal? (c : Char) : Option Nat :=
  if '0' ≤ c ∧ c ≤ '9' then some (c.toNat - 48)
  else if 'a' ≤ c ∧ c ≤ 'f' then some (c.toNat - 87)
  else if 'A' ≤ c ∧ c ≤ 'F' then some (c.toNat - 55)
  else none

def bytesToHex (bs : List UInt8) : String :=
  if bs.isEmpty then "-" else
  String.ofList (bs.flatMap fun b => [hexDigit (b.toNat / 16), hexDigit (b.toNat % 16)])

def hexToBytesAux : List Char → List UInt8 → Option (List UInt8)
  | [], acc => some acc.reverse
  | [_], _ => none
  | a :: b :: rest, acc =>
    match hexVal? a, hexVal? b with
    | some x, some y => hexToBytesAux rest (UInt8.ofNat (x * 16 + y) :: acc)
    | _, _ => none

def hexToBytes? (s : String) : Option (List UInt8) :=
  if s == "-" then some [] else hexToBytesAux s.toList []

def Sexp.asBytes? (e : Sexp) : Option (List UInt8) := e.asAtom?.bind hexToBytes?

/-- A hex atom holding UTF-8 text. -/
def Sexp.asText? (e : Sexp) : Option String :=
  e.asBytes?.bind fun bs => String.fromUTF8? (ByteArray.mk bs.toArray)

def textToHex (s : String) : String := bytesToHex s.toUTF8.toList

end GaeaVerif
