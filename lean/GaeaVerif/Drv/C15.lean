import GaeaVerif.Sexp
import GaeaVerif.Model.StmtSession
import GaeaVerif.Drv.C16
/-
  Driver for C15.  Requests have the form of C16's (a command history of one
  session, usually  setmode?  prepare  long*  exec):
    m (hist OP…)  →  (OUT…)         the model of the session (Model/StmtSession.lean)
    s <request> <implementation outputs>     property oracle
  The oracle does not look at how the implementation escaped anything: it
  lexes every executed statement text with the lexical grammar of
  Model/StmtLex.lean *in the sql_mode the session has set* and compares it,
  token by token, with the template: every token of the template must be
  there unchanged, and in the place of each placeholder exactly one literal
  denoting the bound value (string literal with the same bytes / the same
  integer / the same floating-point number / NULL).
-/
namespace GaeaVerif.Drv.C15
open GaeaVerif GaeaVerif.StmtLex GaeaVerif.StmtBind GaeaVerif.StmtSession

/-- The bytes of the leading run of `other` tokens. -/
def otherBytes : List Tok → Bytes
  | .other b :: ts => b :: otherBytes ts
  | _ => []

def isDigit (b : UInt8) : Bool := 0x30 ≤ b && b ≤ 0x39

/-- Length of the longest prefix of the form `[-]digits`. -/
def intPrefix (bs : Bytes) : Nat :=
  match bs with
  | 0x2d :: r => let n := (r.takeWhile isDigit).length; if n = 0 then 0 else n + 1
  | r => (r.takeWhile isDigit).length

/-- Length of the longest prefix of the form `[-]digits[.digits][e[+-]digits]`. -/
def floatPrefix (bs : Bytes) : Nat :=
  let n0 := intPrefix bs
  if n0 = 0 then 0 else
  let r := bs.drop n0
  let n1 := match r with
    | 0x2e :: f => let k := (f.takeWhile isDigit).length; if k = 0 then 0 else k + 1
    | _ => 0
  let r := r.drop n1
  let n2 := match r with
    | 0x65 :: 0x2b :: f => let k := (f.takeWhile isDigit).length; if k = 0 then 0 else k + 2
    | 0x65 :: 0x2d :: f => let k := (f.takeWhile isDigit).length; if k = 0 then 0 else k + 2
    | 0x65 :: f => let k := (f.takeWhile isDigit).length; if k = 0 then 0 else k + 1
    | _ => 0
  n0 + n1 + n2

def digitsVal? (bs : Bytes) : Option Nat :=
  if bs.isEmpty then none
  else bs.foldl (fun acc b => acc.bind fun a => if 0x30 ≤ b && b ≤ 0x39 then some (a * 10 + (b.toNat - 48)) else none) (some 0)

/-- An integer literal: optional `-`, decimal digits. -/
def intVal? (bs : Bytes) : Option Int :=
  match bs with
  | 0x2d :: ds => (digitsVal? ds).map fun n => -(n : Int)
  | ds => (digitsVal? ds).map fun n => (n : Int)

/-- A floating-point literal `[-]ddd[.ddd][e[+-]dd]`: (negative, digits as a number, decimal exponent). -/
def floatLit? (bs : Bytes) : Option (Bool × Nat × Int) :=
  let (neg, bs) := match bs with
    | 0x2d :: r => (true, r)
    | r => (false, r)
  let mant := bs.takeWhile fun b => b != 0x65 && b != 0x45
  let ex := (bs.dropWhile fun b => b != 0x65 && b != 0x45).drop 1
  let ip := mant.takeWhile (· != 0x2e)
  let fp := (mant.dropWhile (· != 0x2e)).drop 1
  let hasE := mant.length < bs.length
  let e10? : Option Int :=
    if !hasE then some 0
    else match ex with
      | 0x2b :: r => (digitsVal? r).map fun n => (n : Int)
      | 0x2d :: r => (digitsVal? r).map fun n => -(n : Int)
      | r => (digitsVal? r).map fun n => (n : Int)
  match digitsVal? (ip ++ fp), e10? with
  | some d, some e => if ip.isEmpty then none else some (neg, d, e - fp.length)
  | _, _ => none

/-- Is the double with these bits the one nearest (ties to even) to `d × 10^e`
    with that sign? -/
def denotesDouble (bits : Nat) (neg : Bool) (d : Nat) (e : Int) : Bool :=
  let sneg : Bool := bits / 2 ^ 63 % 2 == 1
  let expField : Nat := bits / 2 ^ 52 % 2048
  let frac : Nat := bits % 2 ^ 52
  if expField == 2047 then false
  else if sneg != neg then false
  else
    let mant : Nat := if expField == 0 then frac else frac + 2 ^ 52
    let exp : Int := (if expField == 0 then 1 else (expField : Int)) - 1023 - 52   -- value = mant × 2^exp
    if mant == 0 then d == 0
    else
      -- bounds in units of 2^(exp-2)
      let lower4 := if frac != 0 || expField ≤ 1 then 4 * mant - 2 else 4 * mant - 1
      let upper4 := 4 * mant + 2
      let incl := mant % 2 == 0
      -- compare  d × 10^e  with  b4 × 2^(exp-2):  bring both to integers
      let e2 := exp - 2
      let lhs (x : Nat) : Nat := x * (if e ≥ 0 then 10 ^ e.toNat else 1) * (if e2 < 0 then 2 ^ (-e2).toNat else 1)
      let rhs (b : Nat) : Nat := b * (if e2 ≥ 0 then 2 ^ e2.toNat else 1) * (if e < 0 then 10 ^ (-e).toNat else 1)
      let x := lhs d
      let lo := rhs lower4
      let hi := rhs upper4
      (lo < x || (incl && lo == x)) && (x < hi || (incl && x == hi))

/-! Dates and times: what the binary value denotes (MySQL binary protocol),
    independently of how the implementation formats it. -/

inductive Temporal where
  | date (y m d : Nat)
  | datetime (y m d h mi s us : Nat)
  | time (neg : Bool) (hours mi s us : Nat)
  deriving Repr, BEq

def byteAt (b : Bytes) (i : Nat) : Nat := (b.getD i 0).toNat
def le16At (b : Bytes) (i : Nat) : Nat := byteAt b i + 256 * byteAt b (i + 1)
def le32At (b : Bytes) (i : Nat) : Nat := le16At b i + 65536 * le16At b (i + 2)

/-- The value of a binary DATE / DATETIME / TIMESTAMP / TIME parameter with payload `p`
    (`none`: not one of the binary lengths — text forms are plain strings). -/
def decodeTemporal (tp : UInt8) (p : Bytes) : Option Temporal :=
  let n := p.length
  if tp == 10 || tp == 14 then
    if n == 0 then some (.date 0 0 0)
    else if n == 4 || n == 7 then some (.date (le16At p 0) (byteAt p 2) (byteAt p 3))
    else none
  else if tp == 7 || tp == 12 then
    if n == 0 then some (.datetime 0 0 0 0 0 0 0)
    else if n == 4 then some (.datetime (le16At p 0) (byteAt p 2) (byteAt p 3) 0 0 0 0)
    else if n == 7 then some (.datetime (le16At p 0) (byteAt p 2) (byteAt p 3) (byteAt p 4) (byteAt p 5) (byteAt p 6) 0)
    else if n == 11 then
      some (.datetime (le16At p 0) (byteAt p 2) (byteAt p 3) (byteAt p 4) (byteAt p 5) (byteAt p 6) (le32At p 7))
    else none
  else if tp == 11 then
    if n == 0 then some (.time false 0 0 0 0)
    else if n == 8 then some (.time (byteAt p 0 == 1) (le32At p 1 * 24 + byteAt p 5) (byteAt p 6) (byteAt p 7) 0)
    else if n == 12 then
      some (.time (byteAt p 0 == 1) (le32At p 1 * 24 + byteAt p 5) (byteAt p 6) (byteAt p 7) (le32At p 8))
    else none
  else none

/-- Digit runs of a text with the separator in front of each (0 for the first). -/
def digitRuns : Bytes → UInt8 → Bytes → List (UInt8 × Bytes)
  | [], sep, cur => if cur.isEmpty then [] else [(sep, cur)]
  | c :: rest, sep, cur =>
    if isDigit c then digitRuns rest sep (cur ++ [c])
    else if cur.isEmpty then digitRuns rest c []
    else (sep, cur) :: digitRuns rest c []

def runVal (r : Bytes) : Nat := r.foldl (fun a b => a * 10 + (b.toNat - 48)) 0

/-- Does the text `v` (the value of the string literal) denote the temporal value `t`?
    Fields are read as numbers (any zero padding); a fraction follows a `.`. -/
def temporalDenotes (t : Temporal) (v : Bytes) : Bool :=
  let neg := v.head? == some 0x2d
  let runs := digitRuns v 0 []
  let ints := (runs.filter fun r => r.1 != 0x2e).map fun r => runVal r.2
  let frac := runs.find? fun r => r.1 == 0x2e
  let fracOK (us : Nat) : Bool :=
    match frac with
    | none => us == 0
    | some r => r.2.length ≤ 6 && runVal r.2 * 10 ^ (6 - r.2.length) == us
  let seps := ((runs.filter fun r => r.1 != 0x2e).map fun r => r.1).drop 1
  match t with
  | .date y m d => ints == [y, m, d] && frac.isNone && seps == [0x2d, 0x2d]
  | .datetime y m d h mi s us =>
    ((ints == [y, m, d, h, mi, s] && (seps == [0x2d, 0x2d, 0x20, 0x3a, 0x3a] || seps == [0x2d, 0x2d, 0x54, 0x3a, 0x3a]))
      || (h + mi + s == 0 && us == 0 && ints == [y, m, d] && seps == [0x2d, 0x2d])) && fracOK us
  | .time ng hours mi s us =>
    ints == [hours, mi, s] && seps == [0x3a, 0x3a] && fracOK us && (neg == ng || (hours + mi + s + us == 0))

/-- Bytes a value of type `tp` occupies at `pos` of the values area. -/
def valueSize (tp : UInt8) (values : Bytes) (pos : Nat) : Nat :=
  if tp == 1 then 1 else if tp == 2 || tp == 13 then 2 else if tp == 3 || tp == 9 || tp == 4 then 4
  else if tp == 8 || tp == 5 then 8 else if tp == 6 then 0
  else if tp == 10 || tp == 14 || tp == 11 || tp == 7 || tp == 12 then 1 + byteAt values pos
  else
    let b := byteAt values pos
    if b < 251 then 1 + b else if b == 251 then 1 else if b == 252 then 3 + le16At values (pos + 1)
    else if b == 253 then 4 + le16At values (pos + 1) + 65536 * byteAt values (pos + 3)
    else 9 + le32At values (pos + 1)

/-- For each parameter: the temporal value its packet bytes denote, if it is a
    binary temporal value taken from the packet. -/
def temporals (nullBitmap types values : Bytes) (long : List Arg) : Nat → Nat → Nat → List (Option Temporal)
  | 0, _, _ => []
  | k + 1, i, pos =>
    if byteAt nullBitmap (i / 8) / 2 ^ (i % 8) % 2 == 1 then none :: temporals nullBitmap types values long k (i + 1) pos
    else if long.getD i .null != .null then none :: temporals nullBitmap types values long k (i + 1) pos
    else
      let tp := types.getD (2 * i) 0
      let n := byteAt values pos
      decodeTemporal tp ((values.drop (pos + 1)).take n) ::
        temporals nullBitmap types values long k (i + 1) (pos + valueSize tp values pos)

/-- Does the front of `got` hold one literal for `a`?  Returns the remaining tokens,
    or the class of the failure. -/
def matchArg (nbe : Bool) (a : Arg) (tm : Option Temporal) (got : List Tok) : Except String (List Tok) :=
  match a with
  | .bytes b =>
    match got with
    | .str q body :: rest =>
      match tm with
      | some t => if temporalDenotes t (strValue nbe q body) then .ok rest else .error "temporal-value-not-preserved"
      | none => if strValue nbe q body == b then .ok rest else .error "string-value-not-preserved"
    | _ => .error "statement-structure-changed"
  | .null =>
    if (otherBytes got).take 4 == [0x4e, 0x55, 0x4c, 0x4c] then .ok (got.drop 4) else .error "null-not-preserved"
  | .int v =>
    let bs := otherBytes got
    let n := intPrefix bs
    if n = 0 then .error "integer-not-a-numeric-literal"
    else if intVal? (bs.take n) == some v then .ok (got.drop n) else .error "integer-value-not-preserved"
  | .float _ bits =>
    let bs := otherBytes got
    let n := floatPrefix bs
    if n = 0 then .error "float-not-a-numeric-literal"
    else match floatLit? (bs.take n) with
      | some (neg, d, e) => if denotesDouble bits neg d e then .ok (got.drop n) else .error "float-value-not-preserved"
      | none => .error "float-not-a-numeric-literal"

/-- Walk the template's tokens along the executed statement's tokens. -/
def walk (nbe : Bool) : List Tok → List Arg → List (Option Temporal) → List Tok → String
  | [], _, _, [] => "ok"
  | [], _, _, _ :: _ => "viol statement-structure-changed"
  | .param :: ts, a :: as, tms, got =>
    match matchArg nbe a (tms.headD none) got with
    | .ok rest => walk nbe ts as tms.tail rest
    | .error c => "viol " ++ c
  | .param :: _, [], _, _ => "viol statement-structure-changed"
  | t :: ts, as, tms, g :: got => if t == g then walk nbe ts as tms got else "viol statement-structure-changed"
  | _ :: _, _, _, [] => "viol statement-structure-changed"

/-- The values an execute packet supplies to statement `s` (reference semantics:
    the binding of Model/StmtBind.lean on the long data in the slots). -/
def suppliedArgs (s : Stmt) (data : Bytes) : Option (List Arg × List (Option Temporal)) :=
  if s.paramCount = 0 then some ([], [])
  else
    let nbl := (s.paramCount + 7) / 8
    let nullBitmaps := (data.drop 9).take nbl
    let flag := (data.drop (9 + nbl)).head?
    let (types, values) :=
      if flag == some 1 then ((data.drop (10 + nbl)).take (2 * s.paramCount), data.drop (10 + nbl + 2 * s.paramCount))
      else (s.paramTypes, data.drop (10 + nbl))
    match bindStmtArgs s.paramCount s.args nullBitmaps types values with
    | .ok args => some (args, temporals nullBitmaps types values s.args s.paramCount 0 0)
    | _ => none

/-- The packet supplies a NaN or an infinity for a FLOAT / DOUBLE parameter
    (and is well formed up to there): the reference binding stops with `badFloat`. -/
def suppliesNonFinite (s : Stmt) (data : Bytes) : Bool :=
  if s.paramCount = 0 then false
  else
    let nbl := (s.paramCount + 7) / 8
    let nullBitmaps := (data.drop 9).take nbl
    let flag := (data.drop (9 + nbl)).head?
    let (types, values) :=
      if flag == some 1 then ((data.drop (10 + nbl)).take (2 * s.paramCount), data.drop (10 + nbl + 2 * s.paramCount))
      else (s.paramTypes, data.drop (10 + nbl))
    match bindStmtArgs s.paramCount s.args nullBitmaps types values with
    | .err .badFloat => true
    | _ => false

def judgeExec (nbe : Bool) (s : Stmt) (data sql : Bytes) : String :=
  -- no numeric literal denotes a NaN or an infinity (`float_param_numeric_literal`, `denotesDouble`):
  -- whatever statement is executed for such a parameter, its value is not preserved
  if suppliesNonFinite s data then "viol nonfinite-float-executed" else
  match suppliedArgs s data, lex nbe s.sql, lex nbe sql with
  | some (args, tms), some tpl, some got => walk nbe tpl args tms got
  | some _, some _, none => "viol literal-unterminated"
  | _, _, _ => "ok"      -- packet or template outside what the property speaks about

/-- Replay the history on the reference state; judge every execution that
    reached handleQuery. -/
def judge (st : State) : List Op → List Out → String
  | [], _ => "ok"
  | _ :: _, [] => "viol unparsable"
  | op :: ops, got :: gots =>
    let v :=
      match op, got with
      | .execute d, .exec sql =>
        if d.length < 9 then "ok" else
        match lookup st.stmts (stmtIdOf d) with
        | some s => judgeExec st.nbe s d sql
        | none => "ok"
      | _, _ => "ok"
    if v != "ok" then v else judge (step st op).1 ops gots

def oracle (req out : Sexp) : String :=
  match C16.parseHist req, out with
  | some ops, .list outs =>
    match outs.mapM C16.parseOut with
    | some gots => judge State.init ops gots
    | none => "viol unparsable"
  | some _, _ => "viol unparsable"
  | none, _ => "bad"

def handle (args : List Sexp) : String :=
  match args with
  | [.atom "m", req] =>
    let out := C16.model req
    match Sexp.parseLine out with
    | some [o] => out ++ " | " ++ oracle req o
    | _ => out
  | [.atom "s", req, out] => oracle req out
  | _ => "bad-request"

end GaeaVerif.Drv.C15
