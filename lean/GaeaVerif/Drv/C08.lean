import GaeaVerif.Drv.ShardIO
import GaeaVerif.Spec.Mycat
/-
  Driver for C08.  `m <request>` runs the model (Drv/ShardIO.lean);
  `s <request> <implementation output>` is the property oracle: every key that
  Mycat's algorithm (Spec/Mycat.lean) places must be placed in the same database.

  The oracle decodes string keys with Lean's own UTF-8 decoder
  (`String.fromUTF8?`), not with the model's; keys that are not well-formed
  UTF-8, keys of other dynamic types, parameter sets that Mycat rejects and
  parameter sets that Gaea refuses to load are outside the property.
-/
namespace GaeaVerif.Drv.C08
open GaeaVerif GaeaVerif.ShardPlace GaeaVerif.Drv.ShardIO

/-- The column value as Mycat sees it. -/
def javaKey : Key → Option MycatSpec.JString
  | .int v => some (MycatSpec.intToString v)
  | .int64 v => some (MycatSpec.intToString v)
  | .uint64 v => some (MycatSpec.natToString v)
  | .str s => (String.fromUTF8? (ByteArray.mk (s.map Nat.toUInt8).toArray)).map
      fun t => MycatSpec.javaString (t.toList.map Char.toNat)
  | .bytes s => (String.fromUTF8? (ByteArray.mk (s.map Nat.toUInt8).toArray)).map
      fun t => MycatSpec.javaString (t.toList.map Char.toNat)
  | .other => none

/-- Mycat's `toIntArray`: comma-separated, trimmed, `Integer.parseInt`; only
    non-negative entries make a valid parameter set. -/
def specIntArray (s : ShardGo.GoStr) : Option (List Nat) :=
  (ShardGo.splitOn 44 s).mapM fun f =>
    match MycatSpec.parseInt (MycatSpec.trim f) with
    | some v => if v ≥ 0 then some v.toNat else none
    | none => none

/-- Reference placement function of a parameter set, `none` if Mycat (or the
    binding partitions = databases) rejects the parameters. -/
def specOf (cfg : ShardCfg) : Option (MycatSpec.JString → Option Nat) :=
  if cfg.locations.any (· < 0) || ShardPlace.sumInts cfg.locations ≠ (cfg.nDatabases : Int) then none else
  match cfg.type with
  | "mycat_mod" =>
    if cfg.nDatabases = 0 then none else some (MycatSpec.partitionByMod cfg.nDatabases)
  | "mycat_long" =>
    match specIntArray cfg.partitionCount, specIntArray cfg.partitionLength with
    | some c, some l =>
      if MycatSpec.validPartition c l && c.foldl (· + ·) 0 == cfg.nDatabases then
        some (MycatSpec.partitionByLong c l) else none
    | _, _ => none
  | "mycat_string" =>
    match specIntArray cfg.partitionCount, specIntArray cfg.partitionLength,
          MycatSpec.sequenceSlicing cfg.hashSlice with
    | some c, some l, some hs =>
      if MycatSpec.validPartition c l && c.foldl (· + ·) 0 == cfg.nDatabases then
        some (MycatSpec.partitionByString c l hs) else none
    | _, _, _ => none
  | "mycat_murmur" =>
    let vbt := if cfg.virtualBucketTimes = [] then some 160 else MycatSpec.parseInt cfg.virtualBucketTimes
    match MycatSpec.parseInt cfg.seed, vbt with
    | some seed, some vbt =>
      if vbt ≤ 0 || cfg.nDatabases = 0 then none else
      let seed := BitVec.ofInt 32 seed
      let puts := MycatSpec.ringPuts seed cfg.nDatabases vbt.toNat
      some fun s => MycatSpec.ringLookup puts (MycatSpec.hashUnencodedChars seed s)
    | _, _ => none
  | _ => none

def ruleTag (cfg : ShardCfg) : String := (cfg.type.drop 6).toString

/-- Verdict for one key. -/
def judge (tag : String) (expected : Option Nat) (out : Sexp) : Option String :=
  match expected with
  | none => none
  | some e =>
    match out with
    | .list [.atom "ok", v] =>
      if v.asInt? == some (e : Int) then none else some s!"{tag}-key-misplaced"
    | .list [.atom "err", _] => some s!"{tag}-key-rejected"
    | .atom "panic" => some s!"{tag}-key-runtime-panic"
    | _ => some "unparsable"

/-- `expect`: the reference itself must reproduce the placements recorded from Mycat. -/
def anchorVerdict (cfg : Sexp) (keys expected : List Sexp) : Option String :=
  match parseCfg cfg, keys.mapM parseKey, expected.mapM Sexp.asNat? with
  | some (cfg, _), some keys, some exp =>
    match specOf cfg with
    | none => some "mycat-test-vector-params-rejected-by-reference"
    | some spec =>
      if keys.length == exp.length && (keys.zip exp).all (fun ke => (javaKey ke.1).bind spec == some ke.2)
      then none else some "reference-differs-from-mycat-test-vector"
  | _, _, _ => some "unparsable"

def oraclePlace (req out : Sexp) : String :=
  match req with
  | .list [.atom "place", cfg, .list keys] =>
    match parseCfg cfg, keys.mapM parseKey with
    | some (cfg, _), some keys =>
      match out with
      | .list (.atom "r" :: outs) =>
        if outs.length ≠ keys.length then "viol unparsable" else
        match specOf cfg with
        | none => "ok"
        | some spec =>
          let verdicts := (keys.zip outs).filterMap fun ko =>
            judge (ruleTag cfg) ((javaKey ko.1).bind spec) ko.2
          match verdicts with
          | [] => "ok"
          | v :: _ => "viol " ++ v
      | .atom "cfgerr" => "ok"
      | .atom "cfgpanic" => "ok"
      | _ => "viol unparsable"
    | _, _ => "bad"
  | _ => "bad"

def oracle (req out : Sexp) : String :=
  match req with
  | .list [.atom "expect", cfg, .list keys, .list expected] =>
    match anchorVerdict cfg keys expected with
    | some v => "viol " ++ v
    | none => oraclePlace (.list [.atom "place", cfg, .list keys]) out
  | _ => oraclePlace req out

def handle (args : List Sexp) : String :=
  match args with
  | [.atom "m", req] =>
    let out := model req
    match Sexp.parseLine out with
    | some [o] => out ++ " | " ++ oracle req o
    | _ => out
  | [.atom "s", req, out] => oracle req out
  | _ => "bad-request"

end GaeaVerif.Drv.C08
