import GaeaVerif.Sexp
import GaeaVerif.Model.Noninterf
import GaeaVerif.Model.PlanShared
/-
  Driver for C07.

  m (sc (ses ITEM…) …)   ITEM = (q DB SQL D KEY) | (fl DB TABLE)
      The sessions of the scenario are run through `PlanShared.Sys.run` in the interleaving the
      harness uses for its `seq` and `ses` phases (round robin, one whole statement per turn);
      a statement needs D values of sequence KEY.  By `plans_on_initial_configuration` every
      plan is the one of the initial configuration, so the model answers (ok N V…): N items,
      V… the sequence values drawn in order (KEY·10⁷ + value, as the harness' sequences issue
      them).
  m (plan N SEED G)      batches of the first generation of this check: (ok N).
  s INPUT OUTPUT         the property oracle on what the implementation did.
-/
namespace GaeaVerif.Drv.C07
open GaeaVerif GaeaVerif.PlanShared

/-- a statement of a scenario as the model sees it: how many values of which sequence it draws -/
structure Item where
  draws : Nat
  key : Nat
  deriving Repr

def planner : Planner Unit Item (List Nat) :=
  { needs := fun _ it => List.replicate it.draws (Need.draw it.key)
    planOf := fun _ _ got => got
    rng := fun r => (r, r + 1) }

def parseItem : Sexp → Option Item
  | .list [.atom "q", _, _, d, k] =>
    match d.asNat? with
    | some n => some { draws := n, key := (k.asNat?).getD 0 }
    | none => none
  | .list [.atom "fl", _, _] => some { draws := 0, key := 0 }
  | _ => none

def parseSessions : List Sexp → Option (List (List Item))
  | [] => some []
  | .list (.atom "ses" :: items) :: rest =>
    match items.mapM parseItem, parseSessions rest with
    | some is, some r => some (is :: r)
    | _, _ => none
  | _ => none

/-- round robin, one whole statement per turn: a statement that draws `d` values takes `d + 2`
    steps (take it, draw, finish) -/
def schedule (sessions : List (List Item)) : List Nat :=
  let width := (sessions.map List.length).foldl max 0
  (List.range width).flatMap fun i =>
    (List.range sessions.length).flatMap fun s =>
      match (sessions.getD s [])[i]? with
      | some it => List.replicate (it.draws + 2) s
      | none => []

def runScenario (sessions : List (List Item)) : Nat × List Event :=
  let sys : Sys Unit Item (List Nat) :=
    { shared := { cfg := (), seq := fun _ => 0, rand := 0, log := 0 }
      sess := fun i => Sess.fresh (sessions.getD i []) }
  let r := sys.run planner (schedule sessions)
  ((sessions.map List.length).foldl (· + ·) 0, r.2)

def render (n : Nat) (evs : List Event) : String :=
  "(ok " ++ toString n ++ String.join (evs.map fun e => " " ++ toString (e.1 * 10000000 + e.2)) ++ ")"

def modelOf (input : Sexp) : Option String :=
  match input with
  | .list [.atom "plan", n, _, _] => n.asNat?.map fun n => s!"(ok {n})"
  | .list (.atom "sc" :: ss) =>
    (parseSessions ss).map fun sessions => let r := runScenario sessions; render r.1 r.2
  | _ => none

def oracle (input out : Sexp) : String :=
  if some (toString out) == modelOf input then "ok" else
  match out with
  | .list (.atom "ok" :: _) => "viol sequence-draws-differ-from-planning-alone"
  | .list [.atom "differs", .atom "seq", _, _] => "viol plan-depends-on-other-sessions"
  | .list [.atom "differs", .atom "ses", _, _] => "viol plan-depends-on-other-sessions"
  | .list [.atom "differs", .atom "par", _, _] => "viol concurrent-plan-differs-from-alone"
  | .list [.atom "differs", .atom "sespar", _, _] => "viol concurrent-plan-differs-from-alone"
  | .list [.atom "differs", _] => "viol concurrent-plan-differs-from-sequential"
  | .list (.atom "state-changed" :: _) => "viol shared-routing-state-changed-by-planning"
  | .list (.atom "seq-reused" :: _) => "viol plan-carries-sequence-value-it-did-not-draw"
  | .list (.atom "seq-dup" :: _) => "viol sequence-value-issued-twice"
  -- a cache of the namespace changed and nothing else was observed: the model has no such cell
  -- (the correspondence is broken), but no session's plan was seen to depend on it
  | .list (.atom "cache-changed" :: _) => "ok"
  | .atom "panic" => "viol planner-panic"
  | _ => "viol unexpected-output"

def handle (args : List Sexp) : String :=
  match args with
  | [.atom "m", input] =>
    match modelOf input with
    | some m => m ++ " | ok"
    | none => "bad-input"
  | [.atom "s", input, out] => oracle input out
  | _ => "bad-request"

end GaeaVerif.Drv.C07
