import GaeaVerif.Sexp
import GaeaVerif.Model.Noninterf
/-
  Driver for C07.  Request: m (plan N SEED G)  — N statements planned by G
  goroutines against one router.  By `noninterference` every concurrent plan
  equals the sequential one, so the model answers (ok N); the implementation
  answers (ok N) or (differs I).  Race-detector reports are handled by the
  harness (`Extra`), not by the driver.
-/
namespace GaeaVerif.Drv.C07
open GaeaVerif

def oracle (out : Sexp) : String :=
  match out with
  | .list [.atom "ok", _] => "ok"
  | .list (.atom "differs" :: _) => "viol concurrent-plan-differs-from-sequential"
  | .list [.atom "state-changed"] => "viol shared-routing-state-changed-by-planning"
  | .atom "panic" => "viol planner-panic"
  | _ => "viol unexpected-output"

def handle (args : List Sexp) : String :=
  match args with
  | [.atom "m", .list [.atom "plan", n, _, _]] =>
    match n.asNat? with
    | some n => s!"(ok {n}) | ok"
    | none => "bad-input"
  | [.atom "s", _, out] => oracle out
  | _ => "bad-request"

end GaeaVerif.Drv.C07
