import GaeaVerif.Sexp
import GaeaVerif.Model.LenEnc
/-
  Driver for C12.  Requests:
    m (enc-int N) | (write-int N) | (enc-str HEX)
    m (dec OP HEX POS [SIZE])     OP ∈ byte bytes null u16 u32 u64 lenint lenstr skip
    s <request> <implementation output>   property oracle on an implementation output
-/
namespace GaeaVerif.Drv.C12
open GaeaVerif GaeaVerif.LenEnc

def fmtR {α : Type} (f : α → String) : R α → String
  | .ok a => "(ok " ++ f a ++ ")"
  | .fail => "fail"
  | .panic => "panic"

def model (req : Sexp) : String :=
  match req with
  | .list [.atom "enc-int", n] =>
    match n.asNat? with
    | some i => s!"({bytesToHex (appendLenEncInt i)} {lenEncIntSize i})"
    | none => "bad"
  | .list [.atom "write-int", n] =>
    match n.asNat? with
    | some i => s!"({bytesToHex (writeLenEncInt i)} {lenEncIntSize i})"
    | none => "bad"
  | .list [.atom "enc-str", b] =>
    match b.asBytes? with
    | some bs => s!"({bytesToHex (appendLenEncStringBytes bs)})"
    | none => "bad"
  | .list (.atom "dec" :: .atom op :: d :: p :: rest) =>
    match d.asBytes?, p.asInt? with
    | some d, some pos =>
      match op, rest with
      | "byte", [] => fmtR (fun (x : UInt8 × Int) => s!"{x.1.toNat} {x.2}") (readByte d pos)
      | "bytes", [sz] =>
        match sz.asInt? with
        | some size => fmtR (fun (x : Bytes × Int) => s!"{bytesToHex x.1} {x.2}") (readBytes d pos size)
        | none => "bad"
      | "null", [] => fmtR (fun (x : Bytes × Int) => s!"{bytesToHex x.1} {x.2}") (readNull d pos)
      | "u16", [] => fmtR (fun (x : Nat × Int) => s!"{x.1} {x.2}") (readUintN 2 d pos)
      | "u32", [] => fmtR (fun (x : Nat × Int) => s!"{x.1} {x.2}") (readUintN 4 d pos)
      | "u64", [] => fmtR (fun (x : Nat × Int) => s!"{x.1} {x.2}") (readUintN 8 d pos)
      | "lenint", [] => fmtR (fun (x : Nat × Int × Bool) => s!"{x.1} {x.2.1} {if x.2.2 then "t" else "f"}") (readLenEncInt d pos)
      | "lenstr", [] => fmtR (fun (x : Bytes × Int × Bool) => s!"{bytesToHex x.1} {x.2.1} {if x.2.2 then "t" else "f"}") (readLenEncStringAsBytes d pos)
      | "skip", [] => fmtR (fun (x : Int) => s!"{x}") (skipLenEncString d pos)
      | _, _ => "bad"
    | _, _ => "bad"
  | _ => "bad"

/-- Is `v` a contiguous slice of `d` lying inside `[pos, next)`? -/
def isSliceWithin (d v : Bytes) (pos next : Int) : Bool :=
  (List.range (d.length + 1)).any fun lo =>
    decide (pos ≤ (lo : Int)) && decide (((lo + v.length : Nat) : Int) ≤ next) && ((d.drop lo).take v.length == v)

/-- The property on an observed decoder output: no panic; a value comes with a
    position inside the buffer and is contained in the input. -/
def oracle (req out : Sexp) : String :=
  match req with
  | .list (.atom "dec" :: .atom op :: d :: p :: _) =>
    match d.asBytes?, p.asInt? with
    | some d, some pos =>
      match out with
      | .atom "panic" => "viol decoder-panic"
      | .atom "fail" => "ok"
      | .list (.atom "ok" :: v :: nx :: _) =>
        let valIsBytes := op == "bytes" || op == "null" || op == "lenstr"
        let nextE := if op == "skip" then v else nx
        match nextE.asInt? with
        | some next =>
          if pos < 0 || next < pos || next > d.length then "viol position-out-of-buffer"
          else if valIsBytes then
            match v.asBytes? with
            | some vb => if isSliceWithin d vb pos next then "ok" else "viol value-not-in-input"
            | none => "viol unparsable"
          else "ok"
        | none => "viol unparsable"
      | .list [.atom "ok", v] =>
        match v.asInt? with
        | some next => if pos < 0 || next < pos || next > d.length then "viol position-out-of-buffer" else "ok"
        | none => "viol unparsable"
      | _ => "viol unparsable"
    | _, _ => "bad"
  | .list [.atom "enc-int", n] =>
    -- the property for encoders: the produced bytes decode to the value
    match n.asNat?, out with
    | some i, .list [b, _] =>
      match b.asBytes? with
      | some bs => if readLenEncInt bs 0 == .ok (i, (bs.length : Int), false) then "ok" else "viol int-roundtrip"
      | none => "viol unparsable"
    | _, _ => "viol unparsable"
  | .list [.atom "write-int", n] =>
    match n.asNat?, out with
    | some i, .list [b, _] =>
      match b.asBytes? with
      | some bs => if readLenEncInt bs 0 == .ok (i, (bs.length : Int), false) then "ok" else "viol int-roundtrip"
      | none => "viol unparsable"
    | _, _ => "viol unparsable"
  | .list [.atom "enc-str", b] =>
    match b.asBytes?, out with
    | some v, .list [e] =>
      match e.asBytes? with
      | some bs => if readLenEncStringAsBytes bs 0 == .ok (v, (bs.length : Int), false) then "ok" else "viol str-roundtrip"
      | none => "viol unparsable"
    | _, _ => "viol unparsable"
  | _ => "bad"

def handle (args : List Sexp) : String :=
  match args with
  | [.atom "m", req] =>
    let out := model req
    match Sexp.parseLine out with
    | some [o] => out ++ " | " ++ oracle req o
    | _ => out
  | [.atom "s", req, out] => oracle req out
  | _ => "bad-request"

end GaeaVerif.Drv.C12
