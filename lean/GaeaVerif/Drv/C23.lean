import GaeaVerif.Drv.SessConnsCommon
/-
  Driver for C23: the shared session-connection driver with the oracle of C23
  (see Drv/SessConnsCommon.lean and harness/props/sessconns.go).
-/
namespace GaeaVerif.Drv.C23
open GaeaVerif

def handle (args : List Sexp) : String := GaeaVerif.Drv.SessConns.handle "C23" args

end GaeaVerif.Drv.C23
