import GaeaVerif.Sexp
import GaeaVerif.Model.C10Config
/-
  Driver for C10.  Request (see harness/props/c10.go for the grammar):
    m (cfg (SLICE…) DEFAULT (RULE…) (KEY…))          model output | verdict
    s (cfg …) <implementation output>                  verdict
  The verdict is the property oracle evaluated on an *observed* output:
    - Verify must not panic (output head `panic`)                 verify-panic
    - an accepted namespace must load                             accepted-empty-default-slice,
                                                                  accepted-not-loadable, accepted-load-panic
    - every base rule of the loaded router lists each sub table
      once                                                        duplicate-sub-table
    - tableToSlice is defined exactly on the listed tables        table-slice-map-mismatch
    - and maps into the rule's slice list                         slice-index-out-of-range
    - whose members are slices of the namespace                   unknown-slice
    - FindTableIndex of a hash/mod/range/mycat rule returns a
      listed table (or an error) for every probe key              placement-unlisted-table, placement-panic
  Nothing is demanded of a namespace that Verify rejected.
-/
namespace GaeaVerif.Drv.C10
open GaeaVerif GaeaVerif.C10

/-! ### decoding the request -/

def str? (e : Sexp) : Option Str := e.asText?.map String.toList

def strs? (e : Sexp) : Option (List Str) := e.asList?.bind (·.mapM str?)

def ints? (e : Sexp) : Option (List Int) := e.asList?.bind (·.mapM Sexp.asInt?)

def slice? : Sexp → Option Slice
  | .list [n, u, m, sl, c, mc] => do
    pure ⟨← str? n, ← str? u, ← str? m, ← strs? sl, ← c.asInt?, ← mc.asInt?⟩
  | _ => none

def shard? : Sexp → Option Shard
  | .list [db, tb, pa, ty, ke, lo, sl, da, li, dbs, pc, pl, hs, se, vb, pf, ple, mb, me] => do
    pure ⟨← str? db, ← str? tb, ← str? pa, ← str? ty, ← str? ke, ← ints? lo, ← strs? sl, ← strs? da,
          ← li.asInt?, ← strs? dbs, ← str? pc, ← str? pl, ← str? hs, ← str? se, ← str? vb,
          ← str? pf, ← str? ple, ← str? mb, ← str? me⟩
  | _ => none

def key? : Sexp → Option Key
  | .list [.atom "i", n] => n.asInt?.map Key.int
  | .list [.atom "u", n] => n.asNat?.map Key.uint
  | .list [.atom "s", h] => (str? h).map Key.str
  | _ => none

def request? : Sexp → Option (Namespace × List Key)
  | .list [.atom "cfg", sl, d, ru, ks] => do
    let slices ← sl.asList?.bind (·.mapM slice?)
    let rules ← ru.asList?.bind (·.mapM shard?)
    let keys ← ks.asList?.bind (·.mapM key?)
    pure (⟨slices, ← str? d, rules⟩, keys)
  | _ => none

/-! ### encoding the model's output -/

def hexOf (s : Str) : String := textToHex (String.ofList s)

def listOf (xs : List String) : String := "(" ++ " ".intercalate xs ++ ")"

def pairLe (a b : Str × Str) : Bool :=
  if a.1 = b.1 then !(strLt b.2 a.2) else strLt a.1 b.1

def insertSorted (k : Str × Str) : List (Str × Str) → List (Str × Str)
  | [] => [k]
  | x :: xs => if pairLe k x then k :: x :: xs else x :: insertSorted k xs

def sortKeys (ks : List (Str × Str)) : List (Str × Str) := ks.foldr insertSorted []

/-- the entries of a Go map, sorted by key (stable sort of the write log, the
    last write of every key kept) -/
def lastOfRuns : List (Int × Int) → List (Int × Int)
  | [] => []
  | [a] => [a]
  | a :: b :: rest => if a.1 = b.1 then lastOfRuns (b :: rest) else a :: lastOfRuns (b :: rest)

def mapEntries (m : IntMap) : List (Int × Int) :=
  lastOfRuns (m.mergeSort (fun a b => decide (a.1 ≤ b.1)))

def probedType (t : RT) : Bool :=
  match t with
  | .hash | .mod | .range | .mycatMod | .mycatLong | .mycatString | .mycatMurmur | .mycatPadding => true
  | _ => false

/-- placement of one key under one rule, as the harness prints it.  For the
    murmur shard the model is parametric in the hash function: whatever it is,
    the result is one of the bucket values, i.e. `in` when there is a bucket at
    all (theorem `murmur_in_range`), `err` when the map is empty. -/
def placeOut (b : BaseRule) (k : Key) : String :=
  match b.shard with
  | .mycatMurmur _ count vbt => if count > 0 ∧ vbt > 0 then "in" else "err"
  | sh =>
    match findForKey (fun _ _ => 0) (fun _ => 0) sh k with
    | .ok i => s!"(ok {i})"
    | .fail => "err"
    | .panic => "panic"

def ruleOut (k : Str × Str) : Rule → String
  | .base b =>
    listOf [hexOf k.1, hexOf k.2, "b", hexOf b.ruleType, listOf (b.subTableIndexes.map toString),
      listOf ((mapEntries b.tableToSlice).map fun kv => s!"({kv.1} {kv.2})"),
      listOf (b.slices.map hexOf), listOf (b.mycatDatabases.map hexOf), hexOf b.shardingColumn]
  | .linked _ _ col b => listOf [hexOf k.1, hexOf k.2, "l", hexOf b.db, hexOf b.table, hexOf col]

def modelOut (n : Namespace) (keys : List Key) : String :=
  let v := match verify n with
    | .ok _ => "accept"
    | .fail => "reject"
    | .panic => "panic"
  match newRouter n with
  | .fail => s!"({v} (r err) (p))"
  | .panic => s!"({v} (r panic) (p))"
  | .ok rt =>
    let ks := sortKeys rt.keys
    let rules := ks.filterMap fun k => (rt.get k).map fun r => (k, r)
    let places := rules.filterMap fun kr =>
      match kr.2 with
      | .base b =>
        if probedType (rtOf b.ruleType) then some (listOf (keys.map (placeOut b))) else some "-"
      | .linked _ _ _ _ => none
    let ruleStrs := rules.map fun kr => ruleOut kr.1 kr.2
    s!"({v} (r ok {hexOf rt.defaultSlice} {" ".intercalate ruleStrs}) (p {" ".intercalate places}))"

/-! ### the property oracle, on an observed output -/

def adjacentDistinct : List Int → Bool
  | [] => true
  | [_] => true
  | a :: b :: rest => a != b && adjacentDistinct (b :: rest)

def sortInts (l : List Int) : List Int := l.mergeSort (fun a b => decide (a ≤ b))

structure ObsRule where
  typ : Str
  idx : List Int
  t2s : List (Int × Int)
  slices : List Str

def obsRule? : Sexp → Option (Option ObsRule)
  | .list [_, _, .atom "b", ty, idx, t2s, sl, _, _] => do
    let pairs ← t2s.asList?.bind (·.mapM fun p =>
      match p with
      | .list [a, b] => do pure (← a.asInt?, ← b.asInt?)
      | _ => none)
    pure (some ⟨← str? ty, ← ints? idx, pairs, ← strs? sl⟩)
  | .list [_, _, .atom "l", _, _, _] => some none
  | _ => none

def judgeRule (names : List Str) (r : ObsRule) : Option String :=
  let sidx := sortInts r.idx
  if !adjacentDistinct sidx then some "duplicate-sub-table"
  else if sidx != sortInts (r.t2s.map (·.1)) then some "table-slice-map-mismatch"
  else if !(r.t2s.all fun kv => decide (0 ≤ kv.2) && decide (kv.2 < (r.slices.length : Int))) then
    some "slice-index-out-of-range"
  else if !(r.slices.all fun s => names.any (· = s)) then some "unknown-slice"
  else none

def judgePlace (r : ObsRule) : Sexp → Option String
  | .atom "panic" => some "placement-panic"
  | .list [.atom "ok", i] =>
    match i.asInt? with
    | some n => if r.idx.contains n then none else some "placement-unlisted-table"
    | none => some "unparsable"
  | .list [.atom "out", _] => some "placement-unlisted-table"
  | _ => none

def firstSome {α : Type} (f : α → Option String) : List α → Option String
  | [] => none
  | a :: l => match f a with | some s => some s | none => firstSome f l

def oracle (req out : Sexp) : String :=
  match request? req, out with
  | some (n, _), .list [v, .list (.atom "r" :: r), .list (.atom "p" :: ps)] =>
    match v with
    | .atom "panic" => "viol verify-panic"
    | .atom "accept" =>
      match r with
      | [.atom "err"] =>
        if n.defaultSlice.isEmpty then "viol accepted-empty-default-slice" else "viol accepted-not-loadable"
      | [.atom "panic"] => "viol accepted-load-panic"
      | .atom "ok" :: _ :: rules =>
        match rules.mapM obsRule? with
        | none => "viol unparsable"
        | some obs =>
          let bases := obs.filterMap id
          match firstSome (judgeRule (sliceNames n)) bases with
          | some c => "viol " ++ c
          | none =>
            if bases.length ≠ ps.length then "viol unparsable"
            else
              match firstSome (fun (rp : ObsRule × Sexp) =>
                  match rp.2 with
                  | .list xs => firstSome (judgePlace rp.1) xs
                  | _ => none) (bases.zip ps) with
              | some c => "viol " ++ c
              | none => "ok"
      | _ => "viol unparsable"
    | _ => "ok"
  | some _, _ => "viol unparsable"
  | none, _ => "bad"

def handle (args : List Sexp) : String :=
  match args with
  | [.atom "m", req] =>
    match request? req with
    | none => "bad"
    | some (n, keys) =>
      let out := modelOut n keys
      match Sexp.parseLine out with
      | some [o] => out ++ " | " ++ oracle req o
      | _ => out
  | [.atom "s", req, out] => oracle req out
  | _ => "bad-request"

end GaeaVerif.Drv.C10
