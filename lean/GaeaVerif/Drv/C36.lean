import GaeaVerif.Sexp
import GaeaVerif.Model.Fingerprint
import GaeaVerif.Model.FingerprintSpec
import GaeaVerif.Model.FingerprintGrammar
/-
  Driver for C36.  Requests (texts are hex atoms, `-` = empty):
    m (fp SQL)                     model of mysql.GetFingerprint
    m (anchor SQL WANT)            the same; the oracle compares with the expected string of
                                   /repo/mysql/sql_fingerprint_test.go
    m (bl (ENTRY …) SQL)           parseBlackSqls + IsSQLAllowed
    m (mm ((k A B) …))             statement A as blacklist entry, statement B checked against it
    m (th LEAD ((ITEM SEP) …) ITEM TAIL)   a statement of the token grammar of the theorems:
                                   LEAD, SEP, TAIL, GAP = (PIECE …), PIECE = (ws C) | (mlc B) | (dash C B) | (hash B),
                                   ITEM = (c SEG …) | (vl KW GAP CONTENT ROW …), SEG = (w T) | (n T) | (s T) | (p C T),
                                   ROW = (GAP GAP CONTENT)
                                   (Model/FingerprintGrammar.lean): the oracle compares the fingerprint
                                   with the one `C36.fingerprint_eq_joinSp` predicts
    s <request> <implementation output>   property oracle on an implementation output
-/
namespace GaeaVerif.Drv.C36
open GaeaVerif GaeaVerif.Fingerprint GaeaVerif.FingerprintSpec GaeaVerif.FingerprintGrammar

/-- Bytes of an ASCII text as characters; `none` if a byte is ≥ 0x80. -/
def asciiChars? (bs : List UInt8) : Option (List Char) :=
  if bs.all (fun b => b.toNat < 128) then some (bs.map fun b => Char.ofNat b.toNat) else none

def charsToHex (cs : List Char) : String := bytesToHex (cs.map fun c => UInt8.ofNat c.toNat)

def Sexp.asAscii? (e : Sexp) : Option (List Char) := e.asBytes?.bind asciiChars?

def fmtOut : Out → String
  | .ret s => s!"(ok {charsToHex s})"
  | .panic => "panic"
  | .orig => "bad"   -- never returned by getFingerprint

def tf (b : Bool) : String := if b then "t" else "f"

def parseKind : String → Option Kind
  | "kw" => some .kw | "id" => some .id | "op" => some .op | "lit" => some .lit | "g" => some .gap
  | _ => none

/-- `((k A B) …)`; `none` = unparsable, `some none` = a byte ≥ 0x80. -/
def parseSegs (e : Sexp) : Option (Option (List FingerprintSpec.Seg)) :=
  match e with
  | .list xs =>
    xs.foldr (fun x acc =>
      match acc, x with
      | none, _ => none
      | some acc, .list [.atom k, a, b] =>
        match parseKind k, a.asBytes?, b.asBytes? with
        | some k, some a, some b =>
          match acc, asciiChars? a, asciiChars? b with
          | some l, some a, some b => some (some ({ kind := k, a := a, b := b } :: l))
          | _, _, _ => some none
        | _, _, _ => none
      | _, _ => none) (some (some []))
  | _ => none

def parseChar? (e : Sexp) : Option Char :=
  match e.asBytes? with
  | some [b] => if b.toNat < 128 then some (Char.ofNat b.toNat) else none
  | _ => none

def parsePiece? (e : Sexp) : Option SepPiece :=
  match e with
  | .list [.atom "ws", c] => (parseChar? c).map SepPiece.ws
  | .list [.atom "mlc", b] => (Sexp.asAscii? b).map SepPiece.mlc
  | .list [.atom "dash", c, b] =>
    match parseChar? c, Sexp.asAscii? b with
    | some c, some b => some (SepPiece.dash c b)
    | _, _ => none
  | .list [.atom "hash", b] => (Sexp.asAscii? b).map SepPiece.hash
  | _ => none

def parseGap? (e : Sexp) : Option Gap :=
  match e with
  | .list ps => ps.mapM parsePiece?
  | _ => none

def parseSeg? (e : Sexp) : Option FingerprintGrammar.Seg :=
  match e with
  | .list [.atom "w", t] => (Sexp.asAscii? t).map FingerprintGrammar.Seg.w
  | .list [.atom "n", t] => (Sexp.asAscii? t).map FingerprintGrammar.Seg.n
  | .list [.atom "s", t] => (Sexp.asAscii? t).map FingerprintGrammar.Seg.s
  | .list [.atom "p", c, t] =>
    match parseChar? c, Sexp.asAscii? t with
    | some c, some t => some (FingerprintGrammar.Seg.p c t)
    | _, _ => none
  | _ => none

def parseRow? (e : Sexp) : Option Row :=
  match e with
  | .list [g1, g2, c] =>
    match parseGap? g1, parseGap? g2, Sexp.asAscii? c with
    | some g1, some g2, some c => some { g1 := g1, g2 := g2, content := c }
    | _, _, _ => none
  | _ => none

def parseItem? (e : Sexp) : Option Item :=
  match e with
  | .list (.atom "c" :: segs) => (segs.mapM parseSeg?).map Item.chunk
  | .list (.atom "vl" :: kw :: gap :: content :: rows) =>
    match Sexp.asAscii? kw, parseGap? gap, Sexp.asAscii? content, rows.mapM parseRow? with
    | some kw, some gap, some content, some rows => some (Item.vlist kw gap content rows)
    | _, _, _, _ => none
  | _ => none

def parseStmt? (req : Sexp) : Option Stmt :=
  match req with
  | .list [.atom "th", lead, .list init, last, tail] =>
    let init? := init.mapM fun p =>
      match p with
      | .list [i, s] =>
        match parseItem? i, parseGap? s with
        | some i, some s => some (i, s)
        | _, _ => none
      | _ => none
    match parseGap? lead, init?, parseItem? last, parseGap? tail with
    | some lead, some init, some last, some tail => some { lead := lead, init := init, last := last, tail := tail }
    | _, _, _, _ => none
  | _ => none

def fpModel (q : Sexp) : String :=
  match q.asBytes? with
  | none => "bad"
  | some bs =>
    match asciiChars? bs with
    | none => "(nonascii)"
    | some cs => fmtOut (getFingerprint cs)

def model (req : Sexp) : String :=
  match req with
  | .list [.atom "fp", q] => fpModel q
  | .list [.atom "anchor", q, _] => fpModel q
  | .list [.atom "bl", .list entries, q] =>
    match entries.mapM (fun e => e.asBytes?), q.asBytes? with
    | some es, some qb =>
      match es.mapM asciiChars?, asciiChars? qb with
      | some es, some q =>
        match parseBlackSqls id es with
        | none => "panic"
        | some m =>
          -- the Go map holds one entry per distinct key
          let keys := m.foldl (fun acc e => if acc.contains e.1 then acc else e.1 :: acc) ([] : List (List Char))
          match isSQLAllowed id m q with
          | none => "panic"
          | some b => s!"(ok {keys.length} {tf b})"
      | _, _ => "(nonascii)"
    | _, _ => "bad"
  | .list (.atom "th" :: _) =>
    match parseStmt? req with
    | none => "bad"
    | some st => fmtOut (getFingerprint st.text)
  | .list [.atom "mm", segs] =>
    match parseSegs segs with
    | none => "bad"
    | some none => "(nonascii)"
    | some (some segs) =>
      let qa := segs.flatMap (·.a)
      let qb := segs.flatMap (·.b)
      match parseBlackSqls id [qa] with
      | none => "panic"
      | some m =>
        match getFingerprint (trimSpace qa), getFingerprint qb, isSQLAllowed id m qa, isSQLAllowed id m qb with
        | .ret fa, .ret fb, some sa, some ab => s!"(ok {charsToHex fa} {charsToHex fb} {tf sa} {tf ab})"
        | _, _, _, _ => "panic"
  | _ => "bad"

/-- Lexical features under which the current code is known to tell variants
    apart (each is an `open` class of known/C36.json with a witness theorem in
    Props/C36.lean); only these appear in the class of a violation.  A variant
    pair without any of them that is not rejected is reported under the
    generic class `variant-not-rejected`, which is never a known finding.
    (Since the fix commits of the comment, literal and white-space handling
    only one is left: white space or a comment between two tokens on one side
    only.) -/
def unsafeFeatures : List String :=
  ["optional-space"]

def unsafeFeature (f : String) : Bool := unsafeFeatures.contains f

def oracle (req out : Sexp) : String :=
  match req with
  | .list [.atom "anchor", _, want] =>
    match out with
    | .list [.atom "ok", got] => if got == want then "ok" else "viol anchor-mismatch"
    | _ => "viol anchor-mismatch"
  | .list [.atom "bl", .list entries, q] =>
    -- a statement that equals a blacklist entry up to surrounding white space must be rejected
    match entries.mapM (fun e => Sexp.asAscii? e), Sexp.asAscii? q with
    | some es, some q =>
      let tq := trimSpace q
      if !tq.isEmpty && es.any (fun e => trimSpace e == tq) then
        match out with
        | .list [.atom "ok", _, b] =>
          if b.asBool? == some false then "ok" else "viol identical-statement-not-rejected"
        | .atom "panic" => "ok"
        | _ => "viol unparsable"
      else if es.all (fun e => (trimSpace e).isEmpty) then
        -- an empty blacklist rejects nothing
        match out with
        | .list [.atom "ok", _, b] => if b.asBool? == some true then "ok" else "viol empty-blacklist-rejects"
        | _ => "ok"
      else "ok"
    | _, _ => "ok"
  | .list (.atom "th" :: _) =>
    match parseStmt? req with
    | none => "viol th-case-unparsable"
    | some st =>
      if !st.ok then "viol th-case-outside-grammar"
      else
        -- theorem C36.fingerprint_eq_joinSp: the fingerprint is the skeleton joined by single blanks
        match out with
        | .list [.atom "ok", got] =>
          if got.asBytes? == some ((joinSp st.skeleton).map fun c => UInt8.ofNat c.toNat) then "ok"
          else "viol theorem-grammar-fingerprint-differs"
        | _ => "viol theorem-grammar-fingerprint-differs"
  | .list [.atom "mm", segs] =>
    match parseSegs segs with
    | some (some segs) =>
      match relation segs with
      | .malformed => "viol malformed-case"
      | .unspecified => "ok"
      | rel =>
        match out with
        | .atom "panic" => "viol fingerprint-panic"
        | .list [.atom "ok", _, _, sa, ab] =>
          if sa.asBool? != some false then "viol self-not-rejected"
          else if rel == .same then
            if ab.asBool? == some false then "ok"
            else
              let fs := (features segs).filter unsafeFeature
              if fs.isEmpty then "viol variant-not-rejected" else "viol " ++ "+".intercalate fs
          else
            if ab.asBool? == some true then "ok"
            else if mutantOnlyInsideLists segs then "viol mutant-rejected-list-content"
            else "viol mutant-rejected"
        | _ => "viol unparsable"
    | _ => "ok"
  | _ => "ok"

def handle (args : List Sexp) : String :=
  match args with
  | [.atom "m", req] =>
    let out := model req
    match Sexp.parseLine out with
    | some [o] => out ++ " | " ++ oracle req o
    | _ => out
  | [.atom "s", req, out] => oracle req out
  | _ => "bad-request"

end GaeaVerif.Drv.C36
