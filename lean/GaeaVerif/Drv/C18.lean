import GaeaVerif.Drv.SessConnsCommon
/-
  Driver for C18: the shared session-connection driver with the oracle of C18
  (see Drv/SessConnsCommon.lean and harness/props/sessconns.go).
-/
namespace GaeaVerif.Drv.C18
open GaeaVerif

def handle (args : List Sexp) : String := GaeaVerif.Drv.SessConns.handle "C18" args

end GaeaVerif.Drv.C18
