import GaeaVerif.Drv.HealthIO
/-
  Driver for C27 (fused replicas are not restored before their cool-down).
    m (h (cfg …) T0 EVENT…)            → (ok (R M RLC MLC LF ERC CSCC LR)…) | verdict
    s (h …) <implementation output>    → verdict
  The oracle is `Health.judge27` (Model/HealthSpec.lean) run on the statuses the
  implementation reported: it sees the history and the up/down trace only.
-/
namespace GaeaVerif.Drv.C27
open GaeaVerif GaeaVerif.Health GaeaVerif.Drv.HealthIO

def oracle (req out : Sexp) : String :=
  match parseCase req with
  | none => "ok"
  | some k =>
    match out with
    | .atom "panic" => "viol health-check-panic"
    | _ =>
      match parseObs out with
      | none => "viol unparsable"
      | some obs =>
        if obs.length != k.evs.length then "viol trace-length"
        else match judge27 k.cfg (G27.init k.t0) k.evs obs with
          | [] => "ok"
          | v :: _ => "viol " ++ v.name   -- no class of C27 is a listed finding

def handle (args : List Sexp) : String :=
  match args with
  | [.atom "m", req] =>
    let out := model req
    match Sexp.parseLine out with
    | some [o] => out ++ " | " ++ oracle req o
    | _ => out
  | [.atom "s", req, out] => oracle req out
  | _ => "bad-request"

end GaeaVerif.Drv.C27
