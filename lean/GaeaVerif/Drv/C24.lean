import GaeaVerif.Sexp
import GaeaVerif.Model.ResourcePool
/-
  Driver for C24.  Request:
    m (case CAP MAX DYN EXPIRE (threads (OP…) …) (sched A …))
      OP ::= (get F) | put | drop | sweep | tick | (setcap C) | (scale C) | close | age
      A  ::= K | Kt | =K | =Kt | =K!   K: the K-th (mod count) candidate thread (the run ends
                         when there is none); =K: thread K itself (skipped if it cannot move);
                         =K!: thread K until its operation returns or it blocks;
                         `t` = a Get blocked in its wait may time out
    answer: (trace REC … (end WHY)) with
      REC = (thread event label (held…) capacity available inUse active base len(chan))
    s <case> <implementation trace>  — the property oracle on an observed trace.
-/
namespace GaeaVerif.Drv.C24
open GaeaVerif GaeaVerif.ResourcePool

def pcLabel : Pc → String
  | .idle => "idle" | .dead => "dead"
  | .gRecv _ => "get:recv" | .gWait _ => "get:wait" | .gMake _ => "get:make" | .gFailSend => "get:failsend"
  | .gAct _ => "get:act" | .gAvail _ => "get:avail" | .gInUse _ => "get:inuse"
  | .soLock _ => "so:lock" | .soCap _ => "so:cap" | .soTry _ => "so:try" | .soCap2 _ => "so:cap2" | .soAdd _ _ => "so:add"
  | .soAvail _ => "so:avail" | .soRelease _ _ => "so:release" | .soUnlock _ _ _ => "so:unlock"
  | .pAct => "put:act" | .pSend _ => "put:send" | .pInUse => "put:inuse" | .pAvail => "put:avail"
  | .cLoad => "sweep:load" | .cRecv _ _ => "sweep:recv" | .cAct _ _ => "sweep:act" | .cSend _ _ _ => "sweep:send"
  | .scLoad _ => "setcap:load" | .scCas _ _ => "setcap:cas"
  | .sLock _ => "scale:lock" | .sLoad _ => "scale:load" | .sCas _ _ => "scale:cas"
  | .sShrRecv _ _ _ => "scale:shrink-recv" | .sShrAct _ _ _ => "scale:shrink-act" | .sShrAvail _ _ _ => "scale:shrink-avail"
  | .sGrowSend _ _ _ => "scale:grow-send" | .sGrowAvail _ _ _ => "scale:grow-avail" | .sClose => "scale:close"
  | .sUnlock => "scale:unlock"
  | .tLock => "tick:lock" | .tCap => "tick:cap" | .tTodo => "tick:todo" | .tUnlock => "tick:unlock"
  | .kLoad => "child:load" | .kDone => "child:done"
  | .clIdle => "close:idle" | .clCap => "close:cap"

def evStr : Ev → String
  | .none => "-" | .skip => "skip" | .spawn => "spawn"
  | .got r => s!"(got {r})" | .errClosed => "err-closed" | .errTimeout => "err-timeout"
  | .errFactory => "err-factory" | .sErrRange => "ok" | .okPut => "ok-put" | .ok => "ok"
  | .panicPutFull => "panic-put-full" | .panicPutClosed => "panic-put-closed"
  | .panicSendClosed => "panic-send-closed" | .panicCloseClosed => "panic-close-closed"

def parseOp : Sexp → Option Op
  | .list [.atom "get", f] => f.asNat?.map Op.get
  | .atom "put" => some .put | .atom "drop" => some .drop
  | .atom "sweep" => some .sweep | .atom "tick" => some .tick
  | .list [.atom "setcap", c] => c.asInt?.map Op.setCap
  | .list [.atom "scale", c] => c.asInt?.map Op.scale
  | .atom "close" => some .close | .atom "age" => some .age
  | _ => none

structure Choice where
  k : Nat
  tmo : Bool      -- a Get blocked in its wait may time out
  abs : Bool      -- `=K`: thread K itself, not the K-th candidate
  toEnd : Bool    -- `=K!`: thread K runs until its current operation returns (or it blocks)
  deriving Repr

/-- A schedule entry `K`, `Kt`, `=K`, `=Kt` or `=K!`. -/
def parseChoice (e : Sexp) : Option Choice :=
  match e with
  | .atom s =>
    let abs := s.startsWith "="
    let s := if abs then (s.drop 1).toString else s
    let toEnd := s.endsWith "!"
    let s := if toEnd then (s.dropEnd 1).toString else s
    let tmo := s.endsWith "t"
    let s := if tmo then (s.dropEnd 1).toString else s
    s.toNat?.map fun k => { k := k, tmo := tmo, abs := abs, toEnd := abs && toEnd }
  | _ => none

structure Case where
  cap : Int
  max : Int
  dyn : Bool
  expire : Bool
  progs : List (List Op)
  sched : List Choice

def parseCase : Sexp → Option Case
  | .list [.atom "case", c, m, d, e, .list (.atom "threads" :: ths), .list (.atom "sched" :: sc)] => do
    let c ← c.asInt?
    let m ← m.asInt?
    let d ← d.asBool?
    let e ← e.asBool?
    let progs ← ths.mapM fun th => th.asList?.bind fun ops => ops.mapM parseOp
    let sched ← sc.mapM parseChoice
    some { cap := c, max := m, dyn := d, expire := e, progs := progs, sched := sched }
  | _ => none

def runnable (s : State) (expire : Bool) (i : Nat) : Bool :=
  match s.threads[i]? with
  | some t => (stepThread s.pool t { timeout := false, expired := expire }).isSome
  | none => false

def atWait (s : State) (i : Nat) : Bool :=
  match s.threads[i]? with
  | some t => match t.pc with | .gWait _ => true | _ => false
  | none => false

/-- The scheduling rule shared with the Go harness: candidates are the threads
    that can move, plus (for a `t` entry) Gets blocked in their wait. -/
def candidates (s : State) (expire tmo : Bool) : List Nat :=
  (List.range s.threads.length).filter fun i => runnable s expire i || (tmo && atWait s i)

def record (s : State) (i : Nat) (ev : Ev) : String :=
  match s.threads[i]? with
  | some t =>
    let p := s.pool
    let held := " ".intercalate (t.held.map toString)
    s!"({i} {evStr ev} {pcLabel t.pc} ({held}) {p.capacity} {p.available} {p.inUse} {p.active} {p.baseCap} {p.chan.length})"
  | none => "(bad)"

def finished (t : Thread) : Bool :=
  match t.pc with
  | .dead => true
  | .idle => t.prog.isEmpty
  | _ => false

def isIdleOrDead (s : State) (i : Nat) : Bool :=
  match s.threads[i]? with
  | some t => match t.pc with | .idle | .dead => true | _ => false
  | none => true

/-- `=K!`: thread `k` steps until it is back between operations, dead or blocked. -/
def runToEnd (expire : Bool) (k : Nat) : Nat → State → List String → State × List String
  | 0, s, acc => (s, acc)
  | fuel + 1, s, acc =>
    if runnable s expire k then
      match step s k { timeout := false, expired := expire } with
      | some (s', ev) =>
        let acc := record s' k ev :: acc
        if isIdleOrDead s' k then (s', acc) else runToEnd expire k fuel s' acc
      | none => (s, acc)
    else (s, acc)

def runSched (expire : Bool) : State → List Choice → List String → List String
  | s, [], acc => (("(end " ++ (if s.threads.all finished then "done" else "sched") ++ ")") :: acc).reverse
  | s, ch :: rest, acc =>
    if ch.toEnd then
      let (s', acc') := runToEnd expire ch.k 64 s acc
      runSched expire s' rest acc'
    else
    let cs := candidates s expire ch.tmo
    let cs := if ch.abs then cs.filter (· == ch.k) else cs
    if cs.isEmpty then
      if ch.abs then runSched expire s rest acc
      else (("(end " ++ (if s.threads.all finished then "done" else "stuck") ++ ")") :: acc).reverse
    else
      let i := cs.getD (ch.k % cs.length) ch.k
      let alt : Alt := { timeout := !(runnable s expire i), expired := expire }
      match step s i alt with
      | some (s', ev) => runSched expire s' rest (record s' i ev :: acc)
      | none => ("(end bug)" :: acc).reverse

def model (req : Sexp) : String :=
  match parseCase req with
  | none => "bad"
  | some c =>
    match init c.cap c.max c.dyn c.progs with
    | none => "(err config)"
    | some s => "(trace " ++ " ".intercalate (runSched c.expire s c.sched []) ++ ")"

/-! ## The property oracle: C24 evaluated on an observed trace -/

structure Obs where
  labels : List String          -- per thread: where it is parked
  held : List (List Nat)        -- per thread: resources the client holds
  dead : Bool := false
  verdict : Option String := none

def setNth {α : Type} (l : List α) (i : Nat) (x : α) (dflt : α) : List α :=
  if i < l.length then l.set i x else l ++ List.replicate (i - l.length) dflt ++ [x]

def hasDup : List Nat → Bool
  | [] => false
  | x :: xs => xs.contains x || hasDup xs

/-- One record of the observed trace against the four clauses of C24. -/
def judgeRec (maxCap : Int) (o : Obs) (r : Sexp) : Obs :=
  if o.verdict.isSome then o else
  match r with
  | .list [i, ev, .atom label, .list held, cap, _avail, inuse, _active, _base, len] =>
    match i.asNat?, cap.asInt?, inuse.asInt?, len.asInt?, held.mapM Sexp.asNat? with
    | some i, some cap, some inuse, some len, some held =>
      let labels := setNth o.labels i label "idle"
      let labels := if ev == .atom "spawn" then labels ++ ["child:load"] else labels
      let helds := setNth o.held i held []
      let o := { o with labels := labels, held := helds, dead := o.dead || label == "dead" }
      let all := helds.flatten
      if ev == .atom "panic-put-full" then { o with verdict := some "put-into-full-pool" }
      else if ev == .atom "panic-put-closed" then { o with verdict := some "put-into-closed-pool" }
      else if (all.length : Int) > maxCap then { o with verdict := some "handed-out-exceeds-max" }
      else if hasDup all then { o with verdict := some "resource-issued-twice" }
      else if !o.dead && labels.all (· == "idle") && len + inuse != cap then
        { o with verdict := some "quiescent-idle-plus-inuse-differs-from-capacity" }
      else o
    | _, _, _, _, _ => { o with verdict := some "unparsable" }
  | .list [.atom "end", _] => o
  | .list (.atom "hang" :: _) => o
  | _ => { o with verdict := some "unparsable" }

def oracle (req out : Sexp) : String :=
  match parseCase req with
  | none => "bad"
  | some c =>
    match out with
    | .list [.atom "err", .atom "config"] => "ok"
    | .list (.atom "trace" :: recs) =>
      let o0 : Obs := { labels := c.progs.map fun _ => "idle", held := c.progs.map fun _ => [] }
      match (recs.foldl (judgeRec c.max) o0).verdict with
      | some v => "viol " ++ v
      | none => "ok"
    | .atom "panic" => "viol harness-panic"
    | _ => "viol unparsable"

def handle (args : List Sexp) : String :=
  match args with
  | [.atom "m", req] =>
    let out := model req
    match Sexp.parseLine out with
    | some [o] => out ++ " | " ++ oracle req o
    | _ => out
  | [.atom "s", req, out] => oracle req out
  | _ => "bad-request"

end GaeaVerif.Drv.C24
