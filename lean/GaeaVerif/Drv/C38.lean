import GaeaVerif.Sexp
import GaeaVerif.Model.Crash
import GaeaVerif.Drv.C38Own
import GaeaVerif.Gen.Consts
/-
  Driver for C38.  Requests (see harness/props/c38.go for the input forms):
    m (hs <plugin> <salt> (<payload> …))
    m (chk <resp> <enc>)
    m (sess <db> (<payload> …))
    m (proc …)            same cases as seen over TCP by a client (thorough tier)
    m (own <plugin> (<op> …))   several sessions sharing the packet buffer pool (Drv/C38Own.lean)
    s <request> <implementation output>   property oracle on an implementation output
  The variant flags and the recover facts come from the translator
  (GaeaVerif.Gen, regenerated from the source on every run).
-/
namespace GaeaVerif.Drv.C38
open GaeaVerif GaeaVerif.Crash

def variant : Variant := ⟨Gen.c38DateGuard, Gen.c38ResetEarly, Gen.c38HashLenGuard⟩
def roots : Roots := ⟨Gen.c38OnConnRecovers, Gen.c38RunRecovers⟩

/-- users of the harness namespace (proxy/server/verif_c38.go) -/
def knownUser (u : Bytes) : Bool := u == "verif_plain".toUTF8.toList || u == "verif_hash".toUTF8.toList
def hashedUser (u : Bytes) : Bool := u == "verif_hash".toUTF8.toList
def allowedDBs : List Bytes := ["db1".toUTF8.toList, "information_schema".toUTF8.toList]

def errCode : ErrTag → Nat
  | .nostmt => 1243
  | .wrongargs => 1210
  | .nodb => 1046
  | _ => 1105

def tagName : ErrTag → String
  | .malform => "malform" | .flag => "flag" | .ftype => "ftype" | .datelen => "datelen" | .dtlen => "dtlen"
  | .timelen => "timelen" | .lenenc => "lenenc" | .nodbname => "nodbname" | .unknowncmd => "unknowncmd"
  | .longtype => "longtype" | .nostmt => "nostmt" | .wrongargs => "wrongargs" | .nodb => "nodb"
  | .floatval => "floatval"

def fmtResp : Resp → String
  | .none => "none" | .ok => "ok" | .eof => "eof" | .q => "q" | .fl => "fl"
  | .prep id n => s!"(prep {id} {n})"
  | .err t => s!"(err {errCode t} {tagName t})"
  | .unmodelled => "unmodelled"
  | .panic => "panic"

def hsErrName : HsErr → String
  | .flags => "flags" | .proto41 => "proto41" | .maxpkt => "maxpkt" | .charset => "charset" | .user => "user"
  | .authlen => "authlen" | .auth => "auth" | .db => "db" | .switch => "switch"

def payloads (e : Sexp) : Option (List Bytes) :=
  match e with
  | .list xs => xs.mapM Sexp.asBytes?
  | _ => none

def modelHs (plugin : Bytes) (ps : List Bytes) : String :=
  match ps with
  | [] => "(hs (err io))"
  | data :: rest =>
    match connHandshakePhase ⟨false, false⟩ variant knownUser hashedUser plugin data rest.head? with
    | (.err e, _) => s!"(hs (err {hsErrName e}))"
    | (.panic, _) => "panic"
    | (.info i, _) =>
      s!"(hs (info {i.capability} {i.collation} {bytesToHex i.user} {bytesToHex i.auth} {bytesToHex i.db} {bytesToHex i.plugin}) done)"

def modelSess (ps : List Bytes) : String :=
  match run variant allowedDBs Sess.init ps with
  | (_, rs, e) =>
    let body := "(" ++ " ".intercalate (rs.map fmtResp) ++ ")"
    match e with
    | .open => s!"({body} open)"
    | .closed => s!"({body} closed)"
    | .panicked => if roots.sessionRun then s!"({body} recovered)" else "panic"

/-- what a client sees of a command-phase case over TCP -/
def modelTcpSess (ps : List Bytes) : String :=
  match run variant allowedDBs Sess.init ps with
  | (_, rs, e) =>
    let fmt (rs : List Resp) := "(" ++ " ".intercalate (rs.map fmtResp) ++ ")"
    match e with
    | .open => s!"({fmt rs} open)"
    | .closed => s!"({fmt rs.dropLast} closed)"      -- COM_QUIT is not answered
    | .panicked => if roots.sessionRun || roots.onConn then s!"({fmt rs} closed)" else "crash"

/-- what a client sees of a handshake case over TCP -/
def modelTcpHs (plugin : Bytes) (ps : List Bytes) : String :=
  match ps with
  | [] => "(hs closed)"
  | data :: rest =>
    match connHandshakePhase roots variant knownUser hashedUser plugin data rest.head? with
    | (.err .switch, _) => "(hs switch-pending)"
    | (.err _, _) => "(hs (err 1105))"
    | (.info _, _) => "(hs done)"
    | (.panic, .crash) => "crash"
    | (.panic, _) => "(hs closed)"

def model (req : Sexp) : String :=
  match req with
  | .list [.atom "tcp", .list [.atom "sess", _, ps]] =>
    match payloads ps with
    | some ps => modelTcpSess ps
    | none => "bad"
  | .list [.atom "tcp", .list [.atom "hs", pl, _, ps]] =>
    match pl.asBytes?, payloads ps with
    | some plugin, some ps => modelTcpHs plugin ps
    | _, _ => "bad"
  | .list [.atom "chk", r, e] =>
    match r.asBytes?, e.asBytes? with
    | some resp, some enc =>
      match checkHashPassword variant resp (List.replicate sha1Len 0) enc.length with
      | .panic => "panic"
      | _ => "(done)"
    | _, _ => "bad"
  | .list [.atom "hs", pl, _, ps] =>
    match pl.asBytes?, payloads ps with
    | some plugin, some ps => modelHs plugin ps
    | _, _ => "bad"
  | .list [.atom "sess", _, ps] =>
    match payloads ps with
    | some ps => modelSess ps
    | none => "bad"
  | _ => "bad"

/-! ### property oracle

  The property: whatever bytes a client sends, the proxy process survives, the
  session does not hang, and the client gets an error or a closed connection
  for malformed input.  On an observed output:

  * a panic that no goroutine root of the connection stops (`panic` as the
    outcome of a session run or of a handshake when `Server.onConn` has no
    recover; `crash` at the process level) is a violation;
  * a packet that is malformed by the wire protocol alone (independent of the
    decoder model: see `specMalformed`) must be answered with an error, unless
    the connection ended first. -/

def isErrResp (r : Sexp) : Bool :=
  match r with
  | .list (.atom "err" :: _) => true
  | _ => false

def judgeSess : List Nat → List Bytes → List Sexp → String
  | _, _, [] => "ok"
  | _, [], _ :: _ => "viol unparsable"
  | live, p :: ps, r :: rs =>
    if specMalformed live p && !isErrResp r then "viol malformed-accepted"
    else
      let live :=
        match r, p with
        | .list [.atom "prep", id, _], _ => (match id.asNat? with | some i => i :: live | none => live)
        | _, c :: d => if c == comStmtClose && d.length ≥ 4 then live.filter (· ≠ leNat (d.take 4)) else live
        | _, _ => live
      judgeSess live ps rs

def oracle (req out : Sexp) : String :=
  match req with
  | .list [.atom "tcp", inner] =>
    match out, inner with
    | .atom "crash", _ => "viol process-crash"
    | .atom "hang", _ => "viol process-hang"
    | .list [.atom "hs", .atom "hang"], _ => "viol session-hang"
    | .list [.atom "hs", _], _ => "ok"
    | .list [.list _, .atom "hang"], _ => "viol session-hang"
    | .list [.list _, .atom "marker-lost"], _ => "ok"   -- the replay's own marker command went unanswered
    | .list [.list rs, .atom _], .list [.atom "sess", _, ps] =>
      match payloads ps with
      | some ps => judgeSess [] ps rs
      | none => "viol unparsable"
    | _, _ => "viol unparsable"
  | .list [.atom "chk", _, _] =>
    match out with
    | .atom "panic" => if roots.onConn then "ok" else "viol handshake-panic-escapes"
    | _ => "ok"
  | .list [.atom "hs", _, _, _] =>
    match out with
    | .atom "panic" => if roots.onConn then "ok" else "viol handshake-panic-escapes"
    | .list (.atom "hs" :: _) => "ok"
    | _ => "viol unparsable"
  | .list [.atom "sess", _, ps] =>
    match out, payloads ps with
    -- the scripted run calls Session.Run directly; in the proxy it runs inside Server.onConn's goroutine,
    -- so a panic that leaves Run terminates the process only if onConn does not recover either
    | .atom "panic", _ => if roots.onConn then "ok" else "viol session-panic-escapes"
    | .list [.list rs, .atom e], some ps =>
      if e == "open" || e == "closed" || e == "recovered" then judgeSess [] ps rs else "viol unparsable"
    | _, _ => "viol unparsable"
  | _ => "bad"

def handle (args : List Sexp) : String :=
  match args with
  | [.atom "m", .list (.atom "own" :: r)] =>
    let req := Sexp.list (.atom "own" :: r)
    let out := C38Own.model req
    match Sexp.parseLine out with
    | some [o] => out ++ " | " ++ C38Own.oracle req o
    | _ => out
  | [.atom "s", .list (.atom "own" :: r), out] => C38Own.oracle (.list (.atom "own" :: r)) out
  | [.atom "m", req] =>
    let out := model req
    match Sexp.parseLine out with
    | some [o] => out ++ " | " ++ oracle req o
    | _ => out
  | [.atom "s", req, out] => oracle req out
  | _ => "bad-request"

end GaeaVerif.Drv.C38
