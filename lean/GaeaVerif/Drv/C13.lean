import GaeaVerif.Sexp
import GaeaVerif.Model.BinRow
import GaeaVerif.Spec.BinProto
import GaeaVerif.Model.ColDef
import GaeaVerif.Model.BinRowBig
/-
  Driver for C13.  Requests:
    m (rows ((TY FLAG) …) ((TEXTHEX BITS64 BITS32) | (TEXTHEX err) …) ROWHEX …)
        text-protocol rows of a resultset with the given columns → binary rows.
        The second list is the graph of the opaque float functions on the
        float cells of this case (computed by the harness with strconv/math).
    m (wire (DEFHEX …) ((TEXTHEX BITS64 BITS32) | (TEXTHEX err) …) ROWHEX …)
        a whole COM_STMT_EXECUTE result: the backend's column-definition
        packets and text rows → (ok (DEFHEX …) (ROWHEX …)), what the client receives
    m (big TY FLAG N)     a row of one pattern cell of N bytes (BinRowBig.patCell) in a column of
        byte-string type TY and the sentinel INT 7 → (ok HEADHEX N HASH TAILHEX): the bytes before
        the cell, its length, its FNV-1a hash, the bytes after it.  Answered from theorem
        C13.big_cell_row; for N ≤ 70000 the model itself is run as well and must agree.
    m (abv TY GOVAL)      AppendBinaryValue on one dynamic value
        GOVAL = (nil) | (other) | (i64 N) | (u64 N) | (f64 BITS64 BITS32 FMTHEX)
              | (dec TEXTHEX) | (str HEX) | (bytes HEX)
    s <request> <implementation output>      property oracle
  Outputs: (ok HEX …) | (err KIND).
-/
namespace GaeaVerif.Drv.C13
open GaeaVerif GaeaVerif.BinRow GaeaVerif.BinProto GaeaVerif.ColDef

def errName : Err → String
  | .textRow => "text-row"
  | .parseInt => "parse-int"
  | .parseUint => "parse-uint"
  | .parseFloat => "parse-float"
  | .parseDecimal => "parse-decimal"
  | .colCount => "col-count"
  | .datetime => "datetime"
  | .duration => "duration"
  | .decimalFieldType => "decimal-field-type"
  | .valueType => "value-type"
  | .shortData => "short-data"
  | .fieldType => "field-type"
  | .intRange => "int-range"
  | .fieldDef => "field-def"
  | .defWrite => "def-write"
  | .panic => "panic"

def fmtRes (r : Res (List Bytes)) : String :=
  match r with
  | .ok rows => "(" ++ " ".intercalate ("ok" :: rows.map bytesToHex) ++ ")"
  | .err .panic => "panic"
  | .err e => "(err " ++ errName e ++ ")"

structure FEntry where
  text : Bytes
  bits : Option Nat
  bits32 : Nat

def parseFEntry (e : Sexp) : Option FEntry :=
  match e with
  | .list [t, .atom "err"] => t.asBytes?.map fun t => { text := t, bits := none, bits32 := 0 }
  | .list [t, b, b32] =>
    match t.asBytes?, b.asNat?, b32.asNat? with
    | some t, some b, some b32 => some { text := t, bits := some b, bits32 := b32 }
    | _, _, _ => none
  | _ => none

def opsOf (tab : List FEntry) : FloatOps where
  parseFloat := fun s => (tab.find? (·.text == s)).bind (·.bits)
  toF32 := fun b => ((tab.find? (·.bits == some b)).map (·.bits32)).getD 0
  formatFloat := fun _ => []

def parseField (e : Sexp) : Option Field :=
  match e with
  | .list [t, f] =>
    match t.asNat?, f.asNat? with
    | some t, some f => some { typ := t, flag := f }
    | _, _ => none
  | _ => none

structure RowsReq where
  fields : List Field
  ops : FloatOps
  rows : List Bytes

def parseRowsReq (req : Sexp) : Option RowsReq :=
  match req with
  | .list (.atom "rows" :: .list fs :: .list ft :: rows) =>
    match fs.mapM parseField, ft.mapM parseFEntry, rows.mapM Sexp.asBytes? with
    | some fs, some ft, some rows => some { fields := fs, ops := opsOf ft, rows := rows }
    | _, _, _ => none
  | _ => none

def parseGoVal (e : Sexp) : Option (GoVal × FloatOps) :=
  let noOps : FloatOps := opsOf []
  match e with
  | .list [.atom "nil"] => some (.nil, noOps)
  | .list [.atom "other"] => some (.other, noOps)
  | .list [.atom "i64", n] => n.asInt?.map fun n => (.i64 n, noOps)
  | .list [.atom "u64", n] => n.asNat?.map fun n => (.u64 n, noOps)
  | .list [.atom "f64", b, b32, fmt] =>
    match b.asNat?, b32.asNat?, fmt.asBytes? with
    | some b, some b32, some fmt =>
      some (.f64 b, { parseFloat := fun _ => none, toF32 := fun _ => b32, formatFloat := fun _ => fmt })
    | _, _, _ => none
  | .list [.atom "dec", t] =>
    match t.asBytes? with
    | some t => (newFromString t).map fun (v, e) => (.dec v e, noOps)
    | none => none
  | .list [.atom "str", s] => s.asBytes?.map fun s => (.str s, noOps)
  | .list [.atom "bytes", s] => s.asBytes?.map fun s => (.bytes s, noOps)
  | _ => none

structure WireReq where
  defs : List Bytes
  ops : FloatOps
  rows : List Bytes

def parseWireReq (req : Sexp) : Option WireReq :=
  match req with
  | .list (.atom "wire" :: .list ds :: .list ft :: rows) =>
    match ds.mapM Sexp.asBytes?, ft.mapM parseFEntry, rows.mapM Sexp.asBytes? with
    | some ds, some ft, some rows => some { defs := ds, ops := opsOf ft, rows := rows }
    | _, _, _ => none
  | _ => none

def fmtWire (r : Res (List Bytes × List Bytes)) : String :=
  match r with
  | .ok (defs, rows) =>
    "(ok (" ++ " ".intercalate (defs.map bytesToHex) ++ ") (" ++ " ".intercalate (rows.map bytesToHex) ++ "))"
  | .err .panic => "panic"
  | .err e => "(err " ++ errName e ++ ")"

def model (req : Sexp) : String :=
  match req with
  | .list (.atom "rows" :: _) =>
    match parseRowsReq req with
    | some r => fmtRes (rowsToBinary r.ops r.fields r.rows)
    | none => "bad"
  | .list (.atom "wire" :: _) =>
    match parseWireReq req with
    | some r => fmtWire (stmtResult r.ops r.defs r.rows)
    | none => "bad"
  | .list [.atom "big", ty, flag, n] =>
    match ty.asNat?, flag.asNat?, n.asNat? with
    | some ty, some flag, some n =>
      if !isBytesType ty then "bad"
      else
        let answer := "(ok " ++ bytesToHex (bigRowHead n) ++ " " ++ toString n ++ " " ++ toString (patHash n).toNat
          ++ " " ++ bytesToHex bigRowTail ++ ")"
        if n ≤ 70000 then
          -- small enough for the list-based model: it must say the same
          let cell := patCell n
          match rowToBinary (opsOf []) [⟨ty, flag⟩, ⟨TypeLong, 0⟩] (encodeTextRow [some cell, some [55]]) with
          | .ok out =>
            if out == bigRowHead n ++ cell ++ bigRowTail && hashBytes cell == patHash n then answer
            else "model-disagrees-with-big-cell-row"
          | .err _ => "model-disagrees-with-big-cell-row"
        else answer
    | _, _, _ => "bad"
  | .list [.atom "abv", ty, v] =>
    match ty.asNat?, parseGoVal v with
    | some ty, some (v, ops) =>
      match appendBinaryValue ops ty v with
      | .ok b => fmtRes (.ok [b])
      | .err e => fmtRes (.err e)
    | _, _ => "bad"
  | _ => "bad"

/-- Class of a column whose decoded value differs from the denoted one. -/
def classOf (expected got : Val) : String :=
  match expected, got with
  | .null, _ => "null-bitmap-wrong"
  | _, .null => "null-bitmap-wrong"
  | .int _, _ => "integer-differs"
  | .f32 _, _ => "float-differs"
  | .f64 _, _ => "float-differs"
  | .dec _ _, _ => "decimal-differs"
  | .bytes _, _ => "bytes-differ"
  | .dt .., _ => "date-differs"
  | .time _, _ => "time-differs"

def isDateType (f : Field) : Bool := f.typ == TypeDate || f.typ == TypeNewDate

/-- First column whose decoded value is not what the text says.  A DATE cell
    that does not read as a date and comes out as the zero date is the known
    class `non-date-sent-as-zero-date`; for any other cell that reads as
    nothing, nothing is demanded. -/
def firstDiff : List (Field × Option Bytes × Option Val) → List Val → Option String
  | (_, _, some e) :: es, g :: gs => if Val.same g e then firstDiff es gs else some (classOf e g)
  | (f, some _, none) :: es, g :: gs =>
    if isDateType f && g == .dt 0 0 0 0 0 0 0 then some "non-date-sent-as-zero-date" else firstDiff es gs
  | (_, none, none) :: es, _ :: gs => firstDiff es gs
  | _, _ => none

/-- The property on one (text row, binary row) pair. -/
def judgeRow (ops : FloatOps) (fields : List Field) (text bin : Bytes) : Option String :=
  match decodeTextRow fields.length text with
  | none => none                      -- not a text row: nothing is demanded
  | some cells =>
    let want := (fields.zip cells).map fun (f, c) => (f, c, readText ops f c)
    match decodeBinRow fields bin with
    | none => if want.all (fun w => w.2.2.isSome) then some "undecodable-row" else none
    | some got => firstDiff want got

def judgeRows (ops : FloatOps) (fields : List Field) : List Bytes → List Bytes → Option String
  | t :: ts, b :: bs =>
    match judgeRow ops fields t b with
    | some c => some c
    | none => judgeRows ops fields ts bs
  | [], [] => none
  | _, _ => some "row-count-differs"

def oracle (req out : Sexp) : String :=
  match req with
  | .list (.atom "rows" :: _) =>
    match parseRowsReq req with
    | none => "bad"
    | some r =>
      match out with
      | .atom "panic" => "viol panic-instead-of-error"
      | .list [.atom "err", _] => "ok"
      | .list (.atom "ok" :: rows) =>
        match rows.mapM Sexp.asBytes? with
        | none => "viol unparsable"
        | some bins =>
          match judgeRows r.ops r.fields r.rows bins with
          | none => "ok"
          | some c => "viol " ++ c
      | _ => "viol unparsable"
  | .list (.atom "wire" :: _) =>
    match parseWireReq req with
    | none => "bad"
    | some r =>
      -- the definitions as a client reads them; nothing is demanded unless all are well formed
      match r.defs.mapM decodeColumnDef with
      | none => "ok"
      | some cds =>
        match out with
        | .atom "panic" => "viol panic-instead-of-error"
        | .list [.atom "err", _] => "ok"
        | .list [.atom "ok", .list ds, .list rows] =>
          match ds.mapM Sexp.asBytes?, rows.mapM Sexp.asBytes? with
          | some ds, some bins =>
            match ds.mapM decodeColumnDef with
            | none => "viol coldef-undecodable"
            | some got =>
              if got != cds.map (fun c => { c with catalog := defCatalog }) then "viol coldef-changed"
              else
                -- the rows are decoded by the definitions the client received
                match judgeRows r.ops (got.map ColumnDef.toField) r.rows bins with
                | none => "ok"
                | some c => "viol " ++ c
          | _, _ => "viol unparsable"
        | _ => "viol unparsable"
  | .list [.atom "big", _, _, n] =>
    -- the row must be header, bitmap, a length prefix the spec reader accepts for N, the cell, the sentinel
    match n.asNat?, out with
    | _, .atom "panic" => "viol panic-instead-of-error"
    | _, .list [.atom "err", _] => "ok"
    | _, .list [.atom "garbled"] => "viol undecodable-row"
    | some n, .list [.atom "ok", head, len, hash, tail] =>
      match head.asBytes?, len.asNat?, hash.asNat?, tail.asBytes? with
      | some (0 :: 0 :: pre), some len, some hash, some tail =>
        -- `pre` followed by `len` bytes must read as a length-encoded string of `n` bytes
        let okPrefix :=
          match pre with
          | [c] => c.toNat < 251 && c.toNat == len
          | [0xfc, a, b] => leNat [a, b] == len
          | [0xfd, a, b, c] => leNat [a, b, c] == len
          | [0xfe, a, b, c, d, e, f, g, h] => leNat [a, b, c, d, e, f, g, h] == len
          | _ => false
        if !okPrefix then "viol undecodable-row"
        else if len != n || hash != (patHash n).toNat then "viol bytes-differ"
        else if tail != [7, 0, 0, 0] then "viol integer-differs"
        else "ok"
      | _, _, _, _ => "viol undecodable-row"
    | _, _ => "viol unparsable"
  | .list (.atom "abv" :: _) => "ok"      -- correspondence only
  | _ => "bad"

def handle (args : List Sexp) : String :=
  match args with
  | [.atom "m", req] =>
    let out := model req
    match Sexp.parseLine out with
    | some [o] => out ++ " | " ++ oracle req o
    | _ => out
  | [.atom "s", req, out] => oracle req out
  | _ => "bad-request"

end GaeaVerif.Drv.C13
