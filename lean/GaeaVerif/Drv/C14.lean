import GaeaVerif.Sexp
import GaeaVerif.Model.StmtLex
import GaeaVerif.Model.StmtCalcParams
/-
  Driver for C14.  Requests:
    m (calc HEX)       model of CalcParams on the statement text HEX
    m (calclex HEX)    the same, plus the placeholders of the lexical grammar
                       (compared with the offsets reported by /repo's parser)
    s <request> <implementation output>    property oracle
  Outputs:
    (calc …)    →  (ok COUNT (OFFSET…) (ITEMHEX…)) | fail | panic
    (calclex …) →  (r <calc output> (lex OFFSET…))  |  (r <calc output> lexfail)
-/
namespace GaeaVerif.Drv.C14
open GaeaVerif GaeaVerif.StmtLex GaeaVerif.StmtCalcParams

def fmtNats (l : List Nat) : String := "(" ++ " ".intercalate (l.map toString) ++ ")"

def fmtCalc : R (Nat × List Nat × List Bytes) → String
  | .ok (n, offs, items) => s!"(ok {n} {fmtNats offs} ({" ".intercalate (items.map bytesToHex)}))"
  | .fail => "fail"
  | .panic => "panic"

def fmtLex : Option (List Nat) → String
  | some offs => "(lex" ++ String.join (offs.map fun o => " " ++ toString o) ++ ")"
  | none => "lexfail"

def model (req : Sexp) : String :=
  match req with
  | .list [.atom "calc", t] =>
    match t.asBytes? with
    | some text => fmtCalc (calcParams text)
    | none => "bad"
  | .list [.atom "calclex", t] =>
    match t.asBytes? with
    | some text => s!"(r {fmtCalc (calcParams text)} {fmtLex (placeholders text)})"
    | none => "bad"
  | _ => "bad"

def natList? (e : Sexp) : Option (List Nat) :=
  match e with
  | .list xs => xs.mapM Sexp.asNat?
  | _ => none

def bytesList? (e : Sexp) : Option (List Bytes) :=
  match e with
  | .list xs => xs.mapM Sexp.asBytes?
  | _ => none

/-- The property on an observed result of CalcParams for `text`:
    the reported markers are exactly the placeholders of the lexical grammar
    (none inside a literal, quoted identifier or comment; none missed), the
    count is their number, the items are the text cut at them; a text with an
    unterminated literal/identifier/comment is rejected, every other accepted. -/
def judgeCalc (text : Bytes) (out : Sexp) : String :=
  match out with
  | .atom "panic" => "viol calcparams-panic"
  | .atom "fail" =>
    match placeholders text with
    | some _ => "viol rejected-well-formed-text"
    | none => "ok"
  | .list [.atom "ok", n, offs, items] =>
    match n.asNat?, natList? offs, bytesList? items with
    | some n, some offs, some items =>
      match placeholders text with
      | none => "viol accepted-unterminated-text"
      | some want =>
        if offs.any (fun o => !want.contains o) then "viol marker-inside-literal-or-comment"
        else if want.any (fun o => !offs.contains o) then "viol marker-missed"
        else if offs != want then "viol marker-order"
        else if n != want.length then "viol count-differs-from-offsets"
        else if items != cutItems text 0 want then "viol items-not-the-text-cut-at-markers"
        else "ok"
    | _, _, _ => "viol unparsable"
  | _ => "viol unparsable"

def oracle (req out : Sexp) : String :=
  match req with
  | .list [.atom "calc", t] =>
    match t.asBytes? with
    | some text => judgeCalc text out
    | none => "bad"
  | .list [.atom "calclex", t] =>
    match t.asBytes?, out with
    | some text, .list [.atom "r", c, l] =>
      let v := judgeCalc text c
      if v != "ok" then v else
      -- observed side by side: what CalcParams reports and what /repo's parser sees
      match c, l with
      | .list [.atom "ok", _, offs, _], .list (.atom "lex" :: ps) =>
        match natList? offs, ps.mapM Sexp.asNat? with
        | some offs, some ps => if offs == ps then "ok" else "viol markers-differ-from-parser"
        | _, _ => "viol unparsable"
      | _, _ => "ok"
    | some _, _ => "viol unparsable"
    | none, _ => "bad"
  | _ => "bad"

def handle (args : List Sexp) : String :=
  match args with
  | [.atom "m", req] =>
    let out := model req
    match Sexp.parseLine out with
    | some [o] => out ++ " | " ++ oracle req o
    | _ => out
  | [.atom "s", req, out] => oracle req out
  | _ => "bad-request"

end GaeaVerif.Drv.C14
