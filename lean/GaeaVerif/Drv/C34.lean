import GaeaVerif.Sexp
import GaeaVerif.Model.SequenceC34
/-
  Driver for C34.  One request = one whole history:

    (seq TABLE (LIMIT…) (OP…))
      TABLE = none | (row CURRENT INCREMENT)      the shared sequence row
      LIMIT = maxLimit of proxy 0, 1, …           (their number = number of proxies)
      OP    = (P FAULT)                           one NextSeq call on proxy P
      FAULT = ok | eb | eu | ea | er | (g HEX)    fate of the block fetch, if one is made

  Output: (ok (EV…) TABLE') with EV = (v VALUE F CURR MAX) | (e F CURR MAX),
  F = t/f (the call queried the database), CURR/MAX the proxy's fields after
  the call, TABLE' the row at the end.

    m <request>                 model output | verdict
    s <request> <impl output>   property oracle on an implementation output
-/
namespace GaeaVerif.Drv.C34
open GaeaVerif GaeaVerif.Sequence

structure Case where
  table : Option Row
  limits : List Int
  ops : List Op

def parseFault : Sexp → Option Fault
  | .atom "ok" => some .none
  | .atom "eb" => some .errBefore   -- no connection
  | .atom "eu" => some .errBefore   -- USE mycat fails
  | .atom "ea" => some .errAfter    -- Execute fails after the function ran
  | .atom "er" => some .errAfter    -- empty result set: GetString fails
  | .list [.atom "g", h] => h.asBytes?.map .garbage
  | _ => none

def parseOp (n : Nat) : Sexp → Option Op
  | .list [p, f] =>
    match p.asNat?, parseFault f with
    | some p, some f => if p < n then some ⟨p, f⟩ else none
    | _, _ => none
  | _ => none

def parseTable : Sexp → Option (Option Row)
  | .atom "none" => some none
  | .list [.atom "row", c, i] =>
    match c.asInt?, i.asInt? with
    | some c, some i => some (some ⟨c, i⟩)
    | _, _ => none
  | _ => none

def parseCase : Sexp → Option Case
  | .list [.atom "seq", t, .list ls, .list os] =>
    match parseTable t, ls.mapM Sexp.asInt?, os.mapM (parseOp ls.length) with
    | some t, some ls, some os => some ⟨t, ls, os⟩
    | _, _, _ => none
  | _ => none

def tf (b : Bool) : String := if b then "t" else "f"

def fmtTable : Option Row → String
  | none => "none"
  | some r => s!"(row {r.current} {r.increment})"

/-- Runs the model, printing each proxy's fields after its call. -/
def runPrint (σ : Sys) : List Op → List String → Sys × List String
  | [], acc => (σ, acc.reverse)
  | op :: ops, acc =>
    let (σ1, e) := step σ op
    let s := σ1.seqs op.p
    let line := match e.val with
      | some v => s!"(v {v} {tf e.fetched} {s.curr} {s.max})"
      | none => s!"(e {tf e.fetched} {s.curr} {s.max})"
    runPrint σ1 ops (line :: acc)

def model (c : Case) : String :=
  let (σ, lines) := runPrint (init c.table (fun p => c.limits.getD p 0)) c.ops []
  "(ok (" ++ " ".intercalate lines ++ ") " ++ fmtTable σ.table ++ ")"

/-! ### the property oracle (reference semantics, written independently of the model) -/

def specDigits (s : Bytes) : Option Nat :=
  if s.isEmpty then none
  else s.foldl (fun acc c => acc.bind fun a =>
    if c ≥ 48 && c ≤ 57 then some (a * 10 + (c.toNat - 48)) else none) (some 0)

/-- An int64 in decimal: optional sign, at least one digit, value in range. -/
def specInt (s : Bytes) : Option Int :=
  match s with
  | [] => none
  | c :: rest =>
    if c == 45 then (specDigits rest).bind fun n => if n ≤ 2 ^ 63 then some (-(n : Int)) else none
    else (specDigits (if c == 43 then rest else s)).bind fun n => if n < 2 ^ 63 then some (n : Int) else none

def specFields (s : Bytes) : List Bytes :=
  (s.foldr (fun c acc => if c == 44 then [] :: acc else
    match acc with
    | f :: fs => (c :: f) :: fs
    | [] => [[c]]) [[]])

/-- A well-formed sequence reply: `current,increment`, both int64 decimals,
    the increment positive. -/
def specWellFormed (s : Bytes) : Option (Int × Int) :=
  match specFields s with
  | [a, b] =>
    match specInt a, specInt b with
    | some c, some i => if i > 0 then some (c, i) else none
    | _, _ => none
  | _ => none

structure Obs where
  val : Option Int
  fetched : Bool

def parseObs : Sexp → Option Obs
  | .list [.atom "v", v, f, _, _] =>
    match v.asInt?, f.asBool? with
    | some v, some f => some ⟨some v, f⟩
    | _, _ => none
  | .list [.atom "e", f, _, _] => f.asBool?.map fun f => ⟨none, f⟩
  | _ => none

/-- The stored function on the row, as the oracle's own table model: the new
    row and the kind of answer a fetch would see. -/
inductive Ans where
  | fails (why : String)   -- the request must fail
  | block                  -- a well-formed block: a value may be produced

def dbStep (t : Option Row) : Option Row × Ans :=
  match t with
  | none => (none, .fails "missing-row")
  | some r =>
    let c := r.current + r.increment
    if c < -(2 : Int) ^ 63 || c ≥ (2 : Int) ^ 63 then (t, .fails "fetch-error")
    else (some { r with current := c },
          if r.increment ≤ 0 then .fails "nonpositive-increment"
          else if r.increment ≥ (2 : Int) ^ 63 then .fails "malformed-reply" else .block)

def hasDup : List Int → Bool
  | [] => false
  | v :: vs => vs.contains v || hasDup vs

def increasing : List Int → Bool
  | a :: b :: rest => decide (a < b) && increasing (b :: rest)
  | _ => true

/-- Walks the history with the oracle's own table model and reports the first
    call that produced a value out of a fetch that had to fail. -/
def failClosed (t : Option Row) : List Op → List Obs → Option String
  | op :: ops, o :: os =>
    if o.fetched then
      let (t1, ans) : Option Row × Ans :=
        match op.fault with
        | .none => dbStep t
        | .errBefore => (t, .fails "fetch-error")
        | .errAfter => ((dbStep t).1, .fails "fetch-error")
        | .garbage ret => ((dbStep t).1,
            match specWellFormed ret with
            | some _ => .block
            | none => .fails "malformed-reply")
      match ans, o.val with
      | .fails why, some _ => some ("value-from-" ++ why)
      | _, _ => failClosed t1 ops os
    else failClosed t ops os
  | _, _ => none

def oracle (c : Case) (out : Sexp) : String :=
  match out with
  | .list [.atom "ok", .list evs, _] =>
    match evs.mapM parseObs with
    | none => "viol unparsable"
    | some obs =>
      if obs.length ≠ c.ops.length then "viol unparsable" else
      match failClosed c.table c.ops obs with
      | some cls => "viol " ++ cls
      | none =>
        -- a scripted reply that is a well-formed block does not come from the
        -- row: uniqueness is then not the proxy's to keep
        let scripted := c.ops.any fun op =>
          match op.fault with
          | .garbage ret => (specWellFormed ret).isSome
          | _ => false
        let vals := (c.ops.zip obs).filterMap fun (op, o) => o.val.map fun v => (op.p, v)
        if scripted then "ok"
        else if hasDup (vals.map (·.2)) then "viol duplicate-value"
        else if (List.range c.limits.length).any fun p =>
            !increasing ((vals.filter (·.1 == p)).map (·.2)) then "viol not-increasing"
        else "ok"
  | .atom "panic" => "viol panic"
  | _ => "viol unparsable"

def handle (args : List Sexp) : String :=
  match args with
  | [.atom "m", req] =>
    match parseCase req with
    | none => "bad"
    | some c =>
      let out := model c
      match Sexp.parseLine out with
      | some [o] => out ++ " | " ++ oracle c o
      | _ => out
  | [.atom "s", req, out] =>
    match parseCase req with
    | none => "bad"
    | some c => oracle c out
  | _ => "bad-request"

end GaeaVerif.Drv.C34
