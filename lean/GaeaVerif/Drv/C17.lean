import GaeaVerif.Sexp
import GaeaVerif.Model.LexC17Spec
/-
  Driver for C17.  Requests:
    m (split HEX)   → (R T)   R = (ok (piece…) f|t) | panic | hang     result of SplitStatementToPieces
                              T = (toks f|t (o N) (s N) (i N) (e N)) | hang   token trace of the scanner
                              (o other, s `;`, i `;` inside /*! */ or /*+ */, e end; flag = scanner error)
    m (multi HEX)   → (ok|err (executed…))   texts handed to the backend by handleQuery → doMultiStmts,
                              where a statement fails iff it contains the marker FAILME
    s <request> <implementation output>   property oracle
-/
namespace GaeaVerif.Drv.C17
open GaeaVerif GaeaVerif.LexC17

def fmtPieces (ps : List Bytes) : String := "(" ++ " ".intercalate (ps.map bytesToHex) ++ ")"

def fmtSplit : SplitOut → String
  | .ok ps e => s!"(ok {fmtPieces ps} {if e then "t" else "f"})"
  | .panic => "panic"
  | .hang => "hang"

def fmtTrace (blob : Bytes) : String :=
  let tr := scanTrace (splitFuel blob) [outerFrame blob]
  match tr.getLast? with
  | some (.stuck, _, _) => "hang"
  | some (.panic, _, _) => "panic"
  | _ =>
    let e := traceErr (splitFuel blob) [outerFrame blob]
    let one (x : Tok × Bool × Nat) : String :=
      match x with
      | (.semi, true, n) => s!"(i {n})"
      | (.semi, false, n) => s!"(s {n})"
      | (.other, _, n) => s!"(o {n})"
      | (_, _, n) => s!"(e {n})"
    "(toks " ++ (if e then "t" else "f") ++ (String.join (tr.map fun x => " " ++ one x)) ++ ")"

def marker : Bytes := "FAILME".toUTF8.toList

def containsSub (needle : Bytes) : Bytes → Bool
  | [] => needle.isEmpty
  | l@(_ :: t) => (l.take needle.length == needle) || containsSub needle t

/-- The test double for `doQuery`: the fake backend fails a statement iff it holds the marker. -/
def fakeDoQuery (sql : Bytes) : Bool := !containsSub marker sql

def fmtMulti (o : MultiOut) : String :=
  (if o.failed then "(err " else "(ok ") ++ fmtPieces o.executed ++ ")"

def model (req : Sexp) : String :=
  match req with
  | .list [.atom "split", h] =>
    match h.asBytes? with
    | some blob =>
      let t := fmtTrace blob
      if t == "hang" then "(hang hang)" else s!"({fmtSplit (splitStatementToPieces blob)} {t})"
    | none => "bad"
  | .list [.atom "multi", h] =>
    match h.asBytes? with
    | some sql => fmtMulti (handleQueryMulti fakeDoQuery sql)
    | none => "bad"
  | _ => "bad"

/-! ### property oracle -/

/-- Pieces denoted by a token trace: the segments of the text between `;`
    tokens of the statement text itself that hold at least one token. -/
def piecesOfTrace (blob : Bytes) : List (String × Nat) → Nat → Bool → List Bytes → Option (List Bytes)
  | [], _, _, pieces => some pieces
  | (cls, off) :: rest, stmtBegin, empty, pieces =>
    if stmtBegin < blob.length then
      if cls == "s" then
        match slice blob stmtBegin off with
        | some stmt => piecesOfTrace blob rest (off + 1) true (if empty then pieces else pieces ++ [stmt])
        | none => none
      else if cls == "e" then
        if stmtBegin + 1 ≤ off then
          match slice blob stmtBegin off with
          | some stmt => some (if empty then pieces else pieces ++ [stmt])
          | none => none
        else some pieces
      else piecesOfTrace blob rest stmtBegin false pieces
    else some pieces

def parseToks (xs : List Sexp) : Option (List (String × Nat)) :=
  xs.mapM fun x =>
    match x with
    | .list [.atom c, n] => n.asNat?.map fun k => (c, k)
    | _ => none

def parsePieces (x : Sexp) : Option (List Bytes) :=
  match x with
  | .list xs => xs.mapM Sexp.asBytes?
  | _ => none

/-- Compare the implementation's pieces with the groups of an item sequence:
    a group holding a token must be the next piece, a group of white space and
    plain comments must be skipped, a group whose only content besides those is
    an executable comment may be either. -/
def matchGroups : List (Bytes × Bool × Bool) → List Bytes → Bool
  | [], ps => ps.isEmpty
  | (g, hasTok, hasX) :: gs, ps =>
    if hasTok then
      match ps with
      | p :: ps' => p == g && matchGroups gs ps'
      | [] => false
    else if hasX then
      (match ps with
       | p :: ps' => p == g && matchGroups gs ps'
       | [] => false) || matchGroups gs ps
    else matchGroups gs ps

/-- Groups between `;` items: rendered text, holds a token, holds an executable comment. -/
def groupsOf : List Item → Bytes → Bool → Bool → List (Bytes × Bool × Bool)
  | [], cur, t, x => if cur.isEmpty then [] else [(cur, t, x)]
  | .semi :: rest, cur, t, x => (cur, t, x) :: groupsOf rest [] false false
  | it :: rest, cur, t, x =>
    groupsOf rest (cur ++ it.render) (t || it.isToken) (x || (match it with | .xcomment _ => true | _ => false))

def hasX (items : List Item) : Bool := items.any fun it => match it with | .xcomment _ => true | _ => false

/-- Oracle for `split`. -/
def oracleSplit (blob : Bytes) (out : Sexp) : String :=
  match out with
  | .list [r, t] =>
    if r == .atom "hang" || t == .atom "hang" then "viol split-hangs"
    else if r == .atom "panic" || t == .atom "panic" then "viol split-panics"
    else
      match r, t with
      | .list [.atom "ok", ps, e], .list (.atom "toks" :: te :: toks) =>
        match parsePieces ps, parseToks toks, e.asBool?, te.asBool? with
        | some pieces, some trace, some err, some terr =>
          -- (A) the pieces are the segments between the `;` tokens of the scanner
          let semiIdx := blob.findIdx? (·.toNat = 0x3B)
          let fast := semiIdx.isNone || semiIdx == some (blob.length - 1)
          let a : String :=
            if blob.isEmpty then (if pieces.isEmpty then "ok" else "viol pieces-differ-from-token-trace")
            else if fast then
              (if pieces == [if semiIdx.isNone then blob else blob.take (blob.length - 1)] && !err then "ok"
               else "viol pieces-differ-from-token-trace")
            else
              match piecesOfTrace blob trace 0 true [] with
              | some exp =>
                if exp != pieces then "viol pieces-differ-from-token-trace"
                else if trace.any (fun x => x.1 == "e") && err != terr then "viol scanner-error-not-reported"
                else "ok"
              | none => "viol pieces-differ-from-token-trace"
          if a != "ok" then a
          else
            -- (B) on the item language: the pieces are the statements the text is built from
            match specLex (blob.length + 1) blob with
            | some items =>
              if Safe items then
                if err then "viol error-on-well-formed-text"
                else if fast then "ok"
                else if matchGroups (groupsOf items [] false false) pieces then "ok"
                else if hasX items then "viol wrong-pieces-with-executable-comment"
                else "viol wrong-pieces"
              else "ok"
            | none => "ok"
        | _, _, _, _ => "viol unparsable"
      | _, _ => "viol unparsable"
  | _ => "viol unparsable"

/-- Oracle for `multi`: on the item language the executed texts are the
    statements of the text, in order, up to and including the first failing one. -/
def oracleMulti (sql : Bytes) (out : Sexp) : String :=
  match out with
  | .list [.atom st, ex] =>
    match parsePieces ex with
    | some executed =>
      let sql' := trimRightSemi sql
      match specLex (sql'.length + 1) sql' with
      | some items =>
        if Safe items && !hasX items then
          let ps := specPieces items
          let run := runPieces fakeDoQuery (if ps.length = 1 then [sql'] else ps)
          if run.executed != executed then
            (if executed.length > run.executed.length then "viol executed-after-failure-or-extra-statement"
             else "viol statement-not-executed-or-changed")
          else if (st == "err") != run.failed then "viol wrong-status"
          else "ok"
        else "ok"
      | none => "ok"
    | none => "viol unparsable"
  | _ => "viol unparsable"

def oracle (req out : Sexp) : String :=
  match req with
  | .list [.atom "split", h] =>
    match h.asBytes? with
    | some blob => oracleSplit blob out
    | none => "bad"
  | .list [.atom "multi", h] =>
    match h.asBytes? with
    | some sql => oracleMulti sql out
    | none => "bad"
  | _ => "bad"

def handle (args : List Sexp) : String :=
  match args with
  | [.atom "m", req] =>
    let out := model req
    match Sexp.parseLine out with
    | some [o] => out ++ " | " ++ oracle req o
    | _ => out
  | [.atom "s", req, out] => oracle req out
  | _ => "bad-request"

end GaeaVerif.Drv.C17
