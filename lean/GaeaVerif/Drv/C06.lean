import GaeaVerif.Sexp
import GaeaVerif.Model.FastPathC06
import GaeaVerif.Model.TabRefC06
/-
  Driver for C06.  Request:
    m (fp (rules (DB TABLE KIND)…) (phy (DB PHY)…) (db DB) (st TYPE) (sql SQL) (full KIND) (tabs (SCHEMA NAME)…) [(segs SEG…)])
      rules: the shard rules of the namespace as configured (hex texts; KIND hash|global|linked…)
      phy:   Namespace.GetPhysicalDBs()
      db:    session database, TYPE parser.Preview(SQL)
      full:  what the parser-based analysis (plan.BuildPlan) makes of the statement:
             unshard | shard | shard-err | nodb | parse-err | other
      tabs:  the TableName nodes the parser reports, in visiting order, as written
      segs:  (optional) the statement as a list of segments of the grammar of
             Model/TabRefC06.lean: (t TEXT) free text, (v t|f DIGITS) the opening of an
             executable comment `/*!` + optional M + version digits, (r Q NAME) a table
             reference without schema, (rs Q SCHEMA GAP Q NAME) one with a schema;
             Q = b (bare) | q (back-quoted); NAME/SCHEMA are the names as the parser reports
             them.  `renderStmt` of the segments must be SQL and `wfStmt` must hold
             (otherwise the answer is bad-grammar-…).
    answer ((st TYPE) (tok TOKEN…) (pre U DB | pre N) (full KIND) (asm t|f) (chk nodb|shard|unshard) (gram t|-))
      chk: what plan.Checker finds on these tables (`checkerScan`)
      asm: the guard sees every table name the parser reported (`NameSeen` of Props/C06 for
           every entry of tabs); the harness computes it with the real word scan
      gram: with segs and a statement that parses (full is not parse-err / panic): the parser reports exactly the
           references of the grammar (the harness compares; the model expects t)
    s <request> <implementation output>   property oracle
-/
namespace GaeaVerif.Drv.C06
open GaeaVerif GaeaVerif.Tok GaeaVerif.FastPath

structure Input where
  cfg : Cfg
  db : Str
  stmtType : Nat
  sql : Str
  full : String
  tabs : List (Str × Str)
  segs : Option (List Seg)

def pairs? (xs : List Sexp) : Option (List (Str × Str)) :=
  xs.mapM fun e =>
    match e with
    | .list (a :: b :: _) =>
      match a.asText?, b.asText? with
      | some a, some b => some (a.toList, b.toList)
      | _, _ => none
    | _ => none

def quote? (e : Sexp) : Option Quote :=
  match e with
  | .atom "b" => some .bare
  | .atom "q" => some .backquote
  | _ => none

def seg? (e : Sexp) : Option Seg :=
  match e with
  | .list [.atom "t", s] => s.asText?.map fun s => .text s.toList
  | .list [.atom "v", .atom m, ds] =>
    match ds.asText? with
    | some ds => if m == "t" then some (.version true ds.toList) else if m == "f" then some (.version false ds.toList) else none
    | none => none
  | .list [.atom "r", q, n] =>
    match quote? q, n.asText? with
    | some q, some n => some (.ref ⟨none, [], ⟨q, n.toList⟩⟩)
    | _, _ => none
  | .list [.atom "rs", sq, sn, gap, q, n] =>
    match quote? sq, sn.asText?, gap.asText?, quote? q, n.asText? with
    | some sq, some sn, some gap, some q, some n => some (.ref ⟨some ⟨sq, sn.toList⟩, gap.toList, ⟨q, n.toList⟩⟩)
    | _, _, _, _, _ => none
  | _ => none

def parseCore (rules phy : List Sexp) (db st sql : Sexp) (full : String) (tabs : List Sexp)
    (segs : Option (List Seg)) : Option Input :=
  match pairs? rules, pairs? phy, db.asText?, st.asNat?, sql.asText?, pairs? tabs with
  | some rules, some phy, some db, some st, some sql, some tabs =>
    -- NewRouter keys a rule by the configured database and the lower-cased table name
    some { cfg := { rules := rules.map (fun r => (r.1, toLower r.2)), phyDBs := phy },
           db := db.toList, stmtType := st, sql := sql.toList, full := full, tabs := tabs, segs := segs }
  | _, _, _, _, _, _ => none

def parseInput (req : Sexp) : Option Input :=
  match req with
  | .list [.atom "fp", .list (.atom "rules" :: rules), .list (.atom "phy" :: phy), .list [.atom "db", db],
           .list [.atom "st", st], .list [.atom "sql", sql], .list [.atom "full", .atom full],
           .list (.atom "tabs" :: tabs)] =>
    parseCore rules phy db st sql full tabs none
  | .list [.atom "fp", .list (.atom "rules" :: rules), .list (.atom "phy" :: phy), .list [.atom "db", db],
           .list [.atom "st", st], .list [.atom "sql", sql], .list [.atom "full", .atom full],
           .list (.atom "tabs" :: tabs), .list (.atom "segs" :: segs)] =>
    match segs.mapM seg? with
    | some segs => parseCore rules phy db st sql full tabs (some segs)
    | none => none
  | _ => none

/-- `NameSeen` of Props/C06 for every table the parser reported. -/
def allSeen (sql : Str) (tabs : List (Str × Str)) : Bool :=
  let words := statementWords sql
  tabs.all fun t => isMentioned (toLower t.2) words

def strHex (s : Str) : String := textToHex (String.ofList s)

def model (req : Sexp) : String :=
  match parseInput req with
  | none => "bad"
  | some i =>
    let gramBad : Option String :=
      match i.segs with
      | none => none
      | some segs =>
        if renderStmt segs != i.sql then some "bad-grammar-render"
        else if !wfStmt segs then some "bad-grammar-wf"
        else none
    match gramBad with
    | some b => b
    | none =>
    match tokenize i.sql, preBuildUnshardPlan i.cfg i.db i.stmtType i.sql with
    | .ok tokens, .ok pre =>
      let toks := " ".intercalate ("tok" :: tokens.map strHex)
      let p := match pre with
        | .unshard db => s!"(pre U {strHex db})"
        | .no => "(pre N)"
      let chk := match checkerScan i.cfg.rules i.db i.tabs with
        | .noDB => "nodb"
        | .shard => "shard"
        | .unshard => "unshard"
      let asm := if allSeen i.sql i.tabs then "t" else "f"
      let gram := if i.segs.isSome && i.full != "parse-err" && i.full != "panic" then "t" else "-"
      s!"((st {i.stmtType}) ({toks}) {p} (full {i.full}) (asm {asm}) (chk {chk}) (gram {gram}))"
    | _, _ => "panic"

/-- The property on an observed output: a statement the full analysis plans as
    involving a sharded table is never short-cut. -/
def oracle (req out : Sexp) : String :=
  match parseInput req with
  | none => "bad"
  | some _ =>
    match out with
    | .atom "panic" => "viol tokenize-panic"
    | .list [.list [.atom "st", _], .list (.atom "tok" :: _), .list (.atom "pre" :: .atom d :: _),
             .list [.atom "full", .atom full], .list [.atom "asm", .atom asm], .list [.atom "chk", _],
             .list [.atom "gram", .atom gram]] =>
      if d == "U" && (full == "shard" || full == "shard-err") then "viol fastpath-bypasses-sharding"
      -- the bridge from the guard to the parser: a table the parser reports that the word
      -- scan cannot see, or a statement of the grammar the parser reads differently
      else if asm != "t" then "viol guard-misses-parser-table"
      else if gram == "f" then "viol parser-disagrees-with-grammar"
      else "ok"
    | _ => "viol unparsable"

def handle (args : List Sexp) : String :=
  match args with
  | [.atom "m", req] =>
    let out := model req
    match Sexp.parseLine out with
    | some [o] => out ++ " | " ++ oracle req o
    | _ => out
  | [.atom "s", req, out] => oracle req out
  | _ => "bad-request"

end GaeaVerif.Drv.C06
