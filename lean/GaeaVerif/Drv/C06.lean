import GaeaVerif.Sexp
import GaeaVerif.Model.FastPathC06
/-
  Driver for C06.  Request:
    m (fp (rules (DB TABLE KIND)…) (phy (DB PHY)…) (db DB) (st TYPE) (sql SQL) (full KIND) (tabs (SCHEMA NAME)…))
      rules: the shard rules of the namespace as configured (hex texts; KIND hash|global|linked…)
      phy:   Namespace.GetPhysicalDBs()
      db:    session database, TYPE parser.Preview(SQL)
      full:  what the parser-based analysis (plan.BuildPlan) makes of the statement:
             unshard | shard | shard-err | nodb | parse-err | other
      tabs:  the TableName nodes the parser reports, in visiting order, as written
    answer ((st TYPE) (tok TOKEN…) (pre U DB | pre N) (full KIND) (asm t) (chk nodb|shard|unshard))
      chk: what plan.Checker finds on these tables (`checkerScan`)
      asm: the harness reports whether every table name the parser saw is a word of the
      text (the assumption parser_tables_are_words); the model always answers t
    s <request> <implementation output>   property oracle
-/
namespace GaeaVerif.Drv.C06
open GaeaVerif GaeaVerif.Tok GaeaVerif.FastPath

structure Input where
  cfg : Cfg
  db : Str
  stmtType : Nat
  sql : Str
  full : String
  tabs : List (Str × Str)

def pairs? (xs : List Sexp) : Option (List (Str × Str)) :=
  xs.mapM fun e =>
    match e with
    | .list (a :: b :: _) =>
      match a.asText?, b.asText? with
      | some a, some b => some (a.toList, b.toList)
      | _, _ => none
    | _ => none

def parseInput (req : Sexp) : Option Input :=
  match req with
  | .list [.atom "fp", .list (.atom "rules" :: rules), .list (.atom "phy" :: phy), .list [.atom "db", db],
           .list [.atom "st", st], .list [.atom "sql", sql], .list [.atom "full", .atom full],
           .list (.atom "tabs" :: tabs)] =>
    match pairs? rules, pairs? phy, db.asText?, st.asNat?, sql.asText?, pairs? tabs with
    | some rules, some phy, some db, some st, some sql, some tabs =>
      -- NewRouter keys a rule by the configured database and the lower-cased table name
      some { cfg := { rules := rules.map (fun r => (r.1, toLower r.2)), phyDBs := phy },
             db := db.toList, stmtType := st, sql := sql.toList, full := full, tabs := tabs }
    | _, _, _, _, _, _ => none
  | _ => none

def strHex (s : Str) : String := textToHex (String.ofList s)

def model (req : Sexp) : String :=
  match parseInput req with
  | none => "bad"
  | some i =>
    match tokenize i.sql, preBuildUnshardPlan i.cfg i.db i.stmtType i.sql with
    | .ok tokens, .ok pre =>
      let toks := " ".intercalate ("tok" :: tokens.map strHex)
      let p := match pre with
        | .unshard db => s!"(pre U {strHex db})"
        | .no => "(pre N)"
      let chk := match checkerScan i.cfg.rules i.db i.tabs with
        | .noDB => "nodb"
        | .shard => "shard"
        | .unshard => "unshard"
      s!"((st {i.stmtType}) ({toks}) {p} (full {i.full}) (asm t) (chk {chk}))"
    | _, _ => "panic"

/-- The property on an observed output: a statement the full analysis plans as
    involving a sharded table is never short-cut. -/
def oracle (req out : Sexp) : String :=
  match parseInput req with
  | none => "bad"
  | some _ =>
    match out with
    | .atom "panic" => "viol tokenize-panic"
    | .list [.list [.atom "st", _], .list (.atom "tok" :: _), .list (.atom "pre" :: .atom d :: _),
             .list [.atom "full", .atom full], .list [.atom "asm", _], .list [.atom "chk", _]] =>
      if d == "U" && (full == "shard" || full == "shard-err") then "viol fastpath-bypasses-sharding" else "ok"
    | _ => "viol unparsable"

def handle (args : List Sexp) : String :=
  match args with
  | [.atom "m", req] =>
    let out := model req
    match Sexp.parseLine out with
    | some [o] => out ++ " | " ++ oracle req o
    | _ => out
  | [.atom "s", req, out] => oracle req out
  | _ => "bad-request"

end GaeaVerif.Drv.C06
