import GaeaVerif.Sexp
import GaeaVerif.Drv.C12
/-!
  Driver registry: one handler per property, core Lean only.
-/
namespace GaeaVerif.Drv
open GaeaVerif

def dispatch (p : String) (args : List Sexp) : String :=
  match p with
  | "C12" => C12.handle args
  | "echo" => " ".intercalate (args.map toString)
  | _ => "bad-property"

end GaeaVerif.Drv
