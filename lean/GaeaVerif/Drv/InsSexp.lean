import GaeaVerif.Sexp
import GaeaVerif.Model.ShardLayout
/-
  S-expression readers/writers shared by the drivers of C03 and C04.
  Identifiers (slice, database, table, column names) travel as plain atoms,
  the empty string as `-`.
-/
namespace GaeaVerif.Drv.Ins
open GaeaVerif GaeaVerif.Layout

def ident? : Sexp → Option String
  | .atom "-" => some ""
  | .atom s => some s
  | _ => none

def showIdent (s : String) : String := if s = "" then "-" else s

def idents? : Sexp → Option (List String)
  | .list xs => xs.mapM ident?
  | _ => none

def ints? : Sexp → Option (List Int)
  | .list xs => xs.mapM Sexp.asInt?
  | _ => none

def pairs? : Sexp → Option (List (Int × Int))
  | .list xs => xs.mapM fun x =>
      match x with
      | .list [a, b] => do pure ((← a.asInt?), (← b.asInt?))
      | _ => none
  | _ => none

def kind? : Sexp → Option Kind
  | .atom "ks" => some .kingshard
  | .atom "mycat" => some .mycat
  | .atom "global" => some .global
  | _ => none

/-- `(rule KIND DB (slices…) (idxs…) (t2s (k v)…) (dbs…))` -/
def rule? : Sexp → Option Rule
  | .list [.atom "rule", k, db, sl, ix, ts, dbs] => do
      pure { kind := (← kind? k), db := (← ident? db), slices := (← idents? sl), idxs := (← ints? ix),
             t2s := (← pairs? ts), dbs := (← idents? dbs) }
  | _ => none

/-- `(gcfg DB (locations…) (slices…) (databases, expanded…) (databases as configured…))` -/
def gcfg? : Sexp → Option GlobalCfg
  | .list [.atom "gcfg", db, locs, sl, dbs, _] => do
      pure { db := (← ident? db), locations := (← ints? locs), slices := (← idents? sl), databases := (← idents? dbs) }
  | _ => none

def showChain (c : Chain) : String := "(" ++ " ".intercalate (c.map showIdent) ++ ")"

/-- ascending sort of already formatted entries (the Go side uses `sort.Strings`
    on the same ASCII strings) -/
def sortStrings (xs : List String) : List String := xs.mergeSort (fun a b => decide (a ≤ b))

def count {α : Type} [BEq α] (a : α) (xs : List α) : Nat := (xs.filter (· == a)).length

/-- multiset equality of two lists -/
def sameMultiset {α : Type} [BEq α] (xs ys : List α) : Bool :=
  xs.length == ys.length && xs.all (fun a => count a xs == count a ys)

end GaeaVerif.Drv.Ins
