import GaeaVerif.Sexp
import GaeaVerif.Model.Packet
import GaeaVerif.Gen.Consts
/-
  Driver for C11.  Requests (M is always the real frame limit 2^24-1; the
  theorems are for every M):

    m (w SEQ PAYLOAD MODE…)           WritePacket, then both readers on the bytes written
    m (r SEQ (OP…) (SEG…) MODE…)      readers on a scripted byte stream
    s <request> <implementation output>   property oracle

  PAYLOAD / SEG:  (hex H) raw bytes | (pat N SEED) N pattern bytes |
                  (h LEN SEQ) a 4-byte frame header
  OP: h readHeaderFrom | o readOnePacket | p ReadPacket | e ReadEphemeralPacket
  MODE… (buffering of the writer, fragmentation of the transport) is ignored
  by the model: the byte stream abstraction says it cannot matter.

  Outputs.  w: (ok SEQ' (frames (LEN SEQ HASH)…) (junk N) (p …) (e …))
            r: ((ok LEN HASH SEQ' REM) | (hdr LENGTH SEQ' REM) | (err KIND) …)
  HASH is FNV-1a/64 of the bytes, REM the bytes of the stream not consumed.
-/
namespace GaeaVerif.Drv.C11
open GaeaVerif GaeaVerif.Packet

/-- The model runs with the frame limit of the current source (translator). -/
def M : Nat := Gen.maxPacketSize

/-- The oracle judges with the protocol's frame limit: the largest value of
    the 3-byte length field. -/
def specM : Nat := 16777215

def fnvPrime : UInt64 := 1099511628211
def fnvInit : UInt64 := 14695981039346656037

def fnv (bs : Bytes) : UInt64 :=
  bs.foldl (fun h b => (h ^^^ b.toUInt64) * fnvPrime) fnvInit

/-- Pattern byte `i` of the stream with seed `seed` (same formula in
    harness/props/c11.go). -/
def patByte (seed i : Nat) : UInt8 := UInt8.ofNat (i % 251 + 7 * (i / 65521) + seed)

/-- `[patByte seed 0, …, patByte seed (n-1)]`, built back to front in one pass. -/
def genPatAux (seed : Nat) : Nat → Bytes → Bytes
  | 0, acc => acc
  | i + 1, acc => genPatAux seed i (patByte seed i :: acc)

def genPat (n seed : Nat) : Bytes := genPatAux seed n []

/-- FNV of pattern bytes `i, i+1, …` (`n` of them) without building them. -/
def fnvPat (seed : Nat) : Nat → Nat → UInt64 → UInt64
  | 0, _, h => h
  | n + 1, i, h => fnvPat seed n (i + 1) ((h ^^^ (patByte seed i).toUInt64) * fnvPrime)

def seg? (e : Sexp) : Option Bytes :=
  match e with
  | .list [.atom "hex", h] => h.asBytes?
  | .list [.atom "pat", n, s] =>
    match n.asNat?, s.asNat? with
    | some n, some s => some (genPat n s)
    | _, _ => none
  | .list [.atom "h", l, s] =>
    match l.asNat?, s.asNat? with
    | some l, some s => some (header l (UInt8.ofNat s))
    | _, _ => none
  | _ => none

def segs? : List Sexp → Option Bytes
  | [] => some []
  | e :: es =>
    match seg? e, segs? es with
    | some a, some b => some (a ++ b)
    | _, _ => none

def errName : Err → String
  | .badConn => "bad-conn"
  | .invalidSeq => "seq"
  | .body => "body"
  | .fuel => "fuel"

def fmtRead (r : Except Err (Bytes × Conn)) : String :=
  match r with
  | .ok (p, c) => s!"(ok {p.length} {fnv p} {c.seq.toNat} {c.input.length})"
  | .error e => s!"(err {errName e})"

def fmtFrame (f : Frame) : String := s!"({f.len} {f.seq.toNat} {fnv f.body})"

def runOps (c : Conn) : List String → List String
  | [] => []
  | op :: ops =>
    match op with
    | "h" =>
      match readHeaderFrom c with
      | .ok (l, c1) => s!"(hdr {l} {c1.seq.toNat} {c1.input.length})" :: runOps c1 ops
      | .error e => [s!"(err {errName e})"]
    | _ =>
      let r := if op == "o" then readOnePacket c
               else if op == "p" then readPacket M c
               else readEphemeralPacket M c
      match r with
      | .ok (_, c1) => fmtRead r :: runOps c1 ops
      | .error _ => [fmtRead r]

def model (req : Sexp) : String :=
  match req with
  | .list (.atom "w" :: s :: p :: _) =>
    match s.asNat?, seg? p with
    | some s, some payload =>
      let seq := UInt8.ofNat s
      match writePacket M payload seq with
      | .ok (fs, seq') =>
        let w := wire fs
        let frames := " ".intercalate (fs.map fmtFrame)
        s!"(ok {seq'.toNat} (frames {frames}) (junk 0) (p {fmtRead (readPacket M ⟨seq, w⟩)}) (e {fmtRead (readEphemeralPacket M ⟨seq, w⟩)}))"
      | .fail => "fail"
      | .panic => "panic"
    | _, _ => "bad"
  | .list (.atom "r" :: s :: .list ops :: .list segs :: _) =>
    match s.asNat?, segs? segs with
    | some s, some stream =>
      let opNames := ops.filterMap Sexp.asAtom?
      "(" ++ " ".intercalate (runOps ⟨UInt8.ofNat s, stream⟩ opNames) ++ ")"
    | _, _ => "bad"
  | _ => "bad"

/-! ### The property oracle: an independent reference reading of the property

  A *peer* splits a byte stream into frames (`4`-byte header, then `len`
  bytes); a packet is a maximal run of frames of length `M` closed by a frame
  shorter than `M`; its frames carry consecutive sequence ids. -/

/-- Frames a peer sees in a byte stream (stops at the first incomplete one);
    returns them with the offset where each starts and the unparsed rest. -/
def peerFrames : Nat → Bytes → List Frame → List Frame × Bytes
  | 0, s, acc => (acc.reverse, s)
  | fuel + 1, s, acc =>
    match s with
    | b0 :: b1 :: b2 :: b3 :: rest =>
      let l := leNat [b0, b1, b2]
      if l ≤ rest.length then peerFrames fuel (rest.drop l) (⟨l, b3, rest.take l⟩ :: acc)
      else (acc.reverse, s)
    | _ => (acc.reverse, s)

/-- What a correct reader must do with the next packet of a frame list:
    `some (payload, nframes)` = deliver, `none` = reject. The frames are all
    complete; `truncated` tells that the stream ended inside a frame. -/
inductive Must where
  | deliver (payload : Bytes) (nframes : Nat) (consumed : Nat)
  | rejectSeq (zeroLen : Bool)
  | rejectTruncated
  deriving Repr

def mustPacket : Nat → UInt8 → List Frame → Bytes → Nat → Nat → Must
  | 0, _, _, _, _, _ => .rejectTruncated
  | _ + 1, _, [], _, _, _ => .rejectTruncated
  | fuel + 1, seq, f :: fs, acc, n, consumed =>
    if f.seq ≠ seq then .rejectSeq (f.len == 0)
    else if f.len < specM then .deliver (acc ++ f.body) (n + 1) (consumed + 4 + f.len)
    else mustPacket fuel (seq + 1) fs (acc ++ f.body) (n + 1) (consumed + 4 + f.len)

/-- Parse `(ok LEN HASH SEQ REM)`. -/
def okFields? (e : Sexp) : Option (Nat × Nat × Nat × Nat) :=
  match e with
  | .list [.atom "ok", l, h, s, r] =>
    match l.asNat?, h.asNat?, s.asNat?, r.asNat? with
    | some l, some h, some s, some r => some (l, h, s, r)
    | _, _, _, _ => none
  | _ => none

def isErr (e : Sexp) : Bool :=
  match e with
  | .list (.atom "err" :: _) => true
  | _ => false

/-- Judge one packet-level read (`p`/`e`) of a stream by the reference. -/
def judgeRead (seq : UInt8) (stream : Bytes) (out : Sexp) : String × Option (UInt8 × Bytes) :=
  let (fs, _) := peerFrames (stream.length + 1) stream []
  match mustPacket (fs.length + 1) seq fs [] 0 0 with
  | .deliver payload n consumed =>
    match okFields? out with
    | some (l, h, s, r) =>
      if l ≠ payload.length then ("viol read-payload-length", none)
      else if h ≠ (fnv payload).toNat then ("viol read-payload-bytes", none)
      else if s ≠ (seq + UInt8.ofNat n).toNat then ("viol read-sequence-after", none)
      else if r + consumed ≠ stream.length then ("viol read-consumed", none)
      else ("ok", some (seq + UInt8.ofNat n, stream.drop consumed))
    | none => if isErr out then ("viol read-valid-packet-rejected", none) else ("viol unparsable", none)
  | .rejectSeq z =>
    if isErr out then ("ok", none)
    else if z then ("viol read-empty-frame-bad-seq-accepted", none)
    else ("viol read-bad-seq-accepted", none)
  | .rejectTruncated =>
    if isErr out then ("ok", none) else ("viol read-truncated-accepted", none)

/-- Judge the lower-level operations only on the sequence rule. -/
def judgeLow (op : String) (seq : UInt8) (stream : Bytes) (out : Sexp) : String × Option (UInt8 × Bytes) :=
  match stream with
  | b0 :: b1 :: b2 :: b3 :: rest =>
    let l := leNat [b0, b1, b2]
    if b3 ≠ seq then
      if isErr out then ("ok", none)
      else if l == 0 then ("viol read-empty-frame-bad-seq-accepted", none)
      else ("viol read-bad-seq-accepted", none)
    else if isErr out then
      -- a complete frame with the expected id must not be refused
      if op == "h" || l ≤ rest.length then ("viol read-valid-packet-rejected", none) else ("ok", none)
    else if op == "h" then
      match out with
      | .list [.atom "hdr", lo, s, r] =>
        if lo.asNat? == some l && s.asNat? == some (seq + 1).toNat && r.asNat? == some rest.length
        then ("ok", some (seq + 1, rest)) else ("viol read-header-fields", none)
      | _ => ("viol unparsable", none)
    else if l ≤ rest.length then
      match okFields? out with
      | some (lo, h, s, r) =>
        if lo == l && h == (fnv (rest.take l)).toNat && s == (seq + 1).toNat && r + l == rest.length
        then ("ok", some (seq + 1, rest.drop l)) else ("viol read-payload-bytes", none)
      | none => ("viol unparsable", none)
    else ("viol read-truncated-accepted", none)
  | _ => if isErr out then ("ok", none) else ("viol read-truncated-accepted", none)

def judgeOps : UInt8 → Bytes → List String → List Sexp → String
  | _, _, [], [] => "ok"
  | _, _, [], _ :: _ => "viol unparsable"
  | _, _, _ :: _, [] => "viol read-missing-result"
  | seq, stream, op :: ops, o :: os =>
    let (v, next) := if op == "p" || op == "e" then judgeRead seq stream o else judgeLow op seq stream o
    if v != "ok" then v
    else match next with
      | some (seq', stream') => judgeOps seq' stream' ops os
      | none => if os.isEmpty then "ok" else "viol read-after-error"

/-- Expected hash of `payload[lo : lo+n]` from the payload description. -/
def sliceHash (p : Sexp) (lo n : Nat) : Option UInt64 :=
  match p with
  | .list [.atom "pat", _, s] => s.asNat?.map fun seed => fnvPat seed n lo fnvInit
  | _ => (seg? p).map fun bs => fnv ((bs.drop lo).take n)

def payloadLen? (p : Sexp) : Option Nat :=
  match p with
  | .list [.atom "pat", n, _] => n.asNat?
  | _ => (seg? p).map List.length

/-- Frame rule of the property on `(LEN SEQ HASH)` triples. -/
def judgeFrames (p : Sexp) (total : Nat) : UInt8 → Nat → List Sexp → String
  | _, _, [] => "viol write-no-frame"
  | seq, off, f :: fs =>
    match f with
    | .list [l, s, h] =>
      match l.asNat?, s.asNat?, h.asNat? with
      | some l, some s, some h =>
        if s ≠ seq.toNat then "viol write-sequence"
        else if l > specM then "viol write-frame-too-long"
        else if off + l > total then "viol write-extra-bytes"
        else if sliceHash p off l ≠ some (UInt64.ofNat h) then "viol write-payload-bytes"
        else if fs.isEmpty then
          if l = specM then "viol write-missing-empty-terminator"
          else if off + l ≠ total then "viol write-payload-truncated"
          else "ok"
        else if l ≠ specM then "viol write-short-frame-not-last"
        else judgeFrames p total (seq + 1) (off + l) fs
      | _, _, _ => "viol unparsable"
    | _ => "viol unparsable"

def oracle (req out : Sexp) : String :=
  match req with
  | .list (.atom "w" :: s :: p :: _) =>
    match s.asNat?, payloadLen? p with
    | some s, some total =>
      match out with
      | .atom "panic" => "viol write-panic"
      | .list [.atom "ok", s', .list (.atom "frames" :: frames), .list [.atom "junk", j],
               .list [.atom "p", rp], .list [.atom "e", re]] =>
        let v := judgeFrames p total (UInt8.ofNat s) 0 frames
        if v != "ok" then v
        else if j.asNat? ≠ some 0 then "viol write-trailing-bytes"
        else if s'.asNat? ≠ some (UInt8.ofNat s + UInt8.ofNat frames.length).toNat then "viol write-sequence-after"
        else
          let want := sliceHash p 0 total
          let back (tag : String) (r : Sexp) : String :=
            match okFields? r with
            | some (l, h, sq, rem) =>
              if l ≠ total || some (UInt64.ofNat h) ≠ want then s!"viol readback-{tag}-payload"
              else if some sq ≠ s'.asNat? then s!"viol readback-{tag}-sequence"
              else if rem ≠ 0 then s!"viol readback-{tag}-leftover"
              else "ok"
            | none => s!"viol readback-{tag}-rejected"
          let vp := back "readpacket" rp
          if vp != "ok" then vp else back "ephemeral" re
      | _ => "viol unparsable"
    | _, _ => "bad"
  | .list (.atom "r" :: s :: .list ops :: .list segs :: _) =>
    match s.asNat?, segs? segs with
    | some s, some stream =>
      match out with
      | .atom "panic" => "viol read-panic"
      | .list outs => judgeOps (UInt8.ofNat s) stream (ops.filterMap Sexp.asAtom?) outs
      | _ => "viol unparsable"
    | _, _ => "bad"
  | _ => "bad"

def handle (args : List Sexp) : String :=
  match args with
  | [.atom "m", req] =>
    let out := model req
    match Sexp.parseLine out with
    | some [o] => out ++ " | " ++ oracle req o
    | _ => out
  | [.atom "s", req, out] => oracle req out
  | _ => "bad-request"

end GaeaVerif.Drv.C11
