import GaeaVerif.Drv.HealthIO
/-
  Driver for C28 (health checks mark nodes down and up according to the probe history).
    m (h (cfg …) T0 EVENT…)            → (ok (R M RLC MLC LF ERC CSCC LR)…) | verdict
    s (h …) <implementation output>    → verdict
  The oracle is `Health.judge28` (Model/HealthSpec.lean) run on the statuses the
  implementation reported: it sees the history and the up/down trace only.
-/
namespace GaeaVerif.Drv.C28
open GaeaVerif GaeaVerif.Health GaeaVerif.Drv.HealthIO

def oracle (req out : Sexp) : String :=
  match parseCase req with
  | none => "ok"
  | some k =>
    match out with
    | .atom "panic" => "viol health-check-panic"
    | _ =>
      match parseObs out with
      | none => "viol unparsable"
      | some obs =>
        if obs.length != k.evs.length then "viol trace-length"
        else match judge28 k.cfg (G28.init k.t0) k.evs obs with
          | [] => "ok"
          | v :: vs =>
            -- several violations in one history: report one of a class that is not a
            -- listed finding first, so that a listed one never hides a new one
            let listed : List Viol28 := [.replicaSyncIgnoredMasterDown]
            match (v :: vs).find? (fun x => !listed.contains x) with
            | some x => "viol " ++ x.name
            | none => "viol " ++ v.name

def handle (args : List Sexp) : String :=
  match args with
  | [.atom "m", req] =>
    let out := model req
    match Sexp.parseLine out with
    | some [o] => out ++ " | " ++ oracle req o
    | _ => out
  | [.atom "s", req, out] => oracle req out
  | _ => "bad-request"

end GaeaVerif.Drv.C28
