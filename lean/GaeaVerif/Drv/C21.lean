import GaeaVerif.Sexp
import GaeaVerif.Model.PreviewC21Spec
import GaeaVerif.Model.LexC17Spec
import GaeaVerif.Model.StmtCalcParams
/-
  Driver for C21.  Requests (U = ro | rosplit | rw | rwsplit; A = optional `(ast w|r|x)`: what /repo's
  grammar makes of the text — a statement that writes / another statement / no parse —, recorded by the generator):
    m (preview HEX)        → (k c m STRIPPED)  Preview, PreviewSpecialComment, PreviewMainStatement, StripLeadingComments
    m (withmain HEX)       → (some HEX) | none   withMainStatement
    m (check U HEX A)      → reject | pass   checkSQLAllowed
    m (sess PATH U HEX A P)  PATH = query | squery | stmt: → reject | pass   doQuery (squery: on a session whose namespace has a
                             shard rule, where statements are planned from the parsed tree) / handleStmtExecute→handleQuery→doQuery
                           PATH = multi | stmtmulti: → (reject n) | (ok n) | (err n)   …→doMultiStmts, on a session
                             with a fake backend that fails statements holding FAILME; n = statements the backend
                             executed (the generator uses statements that the proxy forwards to the backend)
                           P = optional `(pk N)`: on this session getPlan builds the plan of the statement from a parsed
                             tree whose stmtTypeOfNode is N (recorded by the generator from the real preBuildUnshardPlan / Parse)
                           PATH = requery: doQuery on a session of user kind U (rw | rwsplit) whose user a namespace reload
                             made read-only after login → reject | pass
    m (sess stmtp U HEX (ARG…))  → reject | pass | (err prepare) | (err bind)
                           handleStmtPrepare(HEX), then handleStmtExecute with parameter i bound to
                           ARG[i mod #ARG] (NULL when there is none); ARG = null | (s HEX) | (i INT)
    s <request> <implementation output>   property oracle
-/
namespace GaeaVerif.Drv.C21
open GaeaVerif GaeaVerif.LexC17 GaeaVerif.PreviewC21

def marker : Bytes := "FAILME".toUTF8.toList

def containsSub (needle : Bytes) : Bytes → Bool
  | [] => needle.isEmpty
  | l@(_ :: t) => (l.take needle.length == needle) || containsSub needle t

def backendOK (sql : Bytes) : Bool := !containsSub marker sql

def allowWriteOf (u : String) : Option Bool :=
  if u == "ro" || u == "rosplit" then some false
  else if u == "rw" || u == "rwsplit" then some true
  else none

def fmtSess (rs : List (Bytes × QueryOut)) : String :=
  let n := (rs.filter fun r => match r.2 with | .passed _ => true | .rejected => false).length
  if rs.any (fun r => r.2 == .rejected) then s!"(reject {n})"
  else if rs.any (fun r => r.2 == .passed false) then s!"(err {n})"
  else s!"(ok {n})"

/-- `handleQuery` of a multi-statement client: when the splitter fails nothing is executed and an error is returned. -/
def fmtMulti (aw : Bool) (sql : Bytes) : String :=
  let m := doMultiStmts (fun s => (doQuery tables aw (fun _ => none) backendOK s).noError) (trimRightSemi sql)
  if m.executed.isEmpty && m.failed then "(err 0)" else fmtSess (handleQuery tables aw true (fun _ => none) backendOK sql)

structure Facts where
  ast : Option String := none     -- (ast w|r|x): what /repo's grammar makes of the text (generator's own classification)
  pk : Option Nat := none         -- (pk N): getPlan builds the plan from a parsed tree of kind N (stmtTypeOfNode)

/-- Split the optional trailing `(ast …)` / `(pk …)` facts off a request. -/
def splitFacts : List Sexp → List Sexp × Facts
  | [] => ([], {})
  | x :: xs =>
    let (r, f) := splitFacts xs
    match x, r with
    | .list [.atom "ast", .atom a], [] => ([], { f with ast := some a })
    | .list [.atom "pk", .atom n], [] => ([], { f with pk := n.toNat? })
    | _, _ => (x :: r, f)

def dropAst (req : Sexp) : Sexp × Facts :=
  match req with
  | .list xs => let (r, f) := splitFacts xs; (.list r, f)
  | _ => (req, {})

def argOf : Sexp → Option StmtBind.Arg
  | .atom "null" => some .null
  | .list [.atom "s", h] => h.asBytes?.map .bytes
  | .list [.atom "i", .atom n] => n.toInt?.map .int
  | _ => none

def argsFor (n : Nat) (given : List StmtBind.Arg) : List StmtBind.Arg :=
  (List.range n).map fun i => given.getD (i % given.length) .null

/-- The statement items and the bound arguments of a `stmtp` request. -/
def boundOf (sql : Bytes) (as : List Sexp) : Option (Option (List Bytes × List StmtBind.Arg)) :=
  match as.mapM argOf with
  | none => none
  | some given =>
    match StmtCalcParams.calcParams (trimRightSemi sql) with
    | .ok (n, _, items) => some (some (items, argsFor n given))
    | _ => some none

def model (req0 : Sexp) : String :=
  let (req, facts) := dropAst req0
  -- the plan of the statement of the request is built from a parsed tree of this kind (no other statement is)
  let plannedFor (text : Bytes) : Bytes → Option Nat := fun s => if s == text then facts.pk else none
  match req with
  | .list [.atom "preview", h] =>
    match h.asBytes? with
    | some sql => s!"({preview tables sql} {previewSpecialComment tables sql} {previewMainStatement tables sql} {bytesToHex (stripLeadingComments sql)})"
    | none => "bad"
  | .list [.atom "withmain", h] =>
    match h.asBytes? with
    | some sql =>
      match withMainStatement sql with
      | some m => s!"(some {bytesToHex m})"
      | none => "none"
    | none => "bad"
  | .list [.atom "check", .atom u, h] =>
    match allowWriteOf u, h.asBytes? with
    | some aw, some sql => if checkSQLAllowed tables aw sql then "reject" else "pass"
    | _, _ => "bad"
  | .list [.atom "sess", .atom "stmtp", .atom u, h, .list as] =>
    match allowWriteOf u, h.asBytes? with
    | some aw, some sql =>
      match boundOf sql as with
      | none => "bad"
      | some none => "(err prepare)"
      | some (some (items, args)) =>
        match handleStmtExecuteBound tables aw false (fun _ => none) backendOK false items args with
        | some rs => if rs.any (fun r => r.2 == .rejected) then "reject" else "pass"
        | none => "(err bind)"
    | _, _ => "bad"
  | .list [.atom "sess", .atom path, .atom u, h] =>
    match allowWriteOf u, h.asBytes? with
    | some aw, some sql =>
      if path == "query" || path == "squery" then
        (if doQuery tables aw (plannedFor sql) backendOK sql == .rejected then "reject" else "pass")
      else if path == "requery" then
        -- the user was made read-only after login: the namespace is asked for every statement
        (if doQuery tables false (plannedFor sql) backendOK sql == .rejected then "reject" else "pass")
      else if path == "multi" then fmtMulti aw sql
      else if path == "stmt" then
        (if (handleStmtExecute tables aw false (plannedFor (trimRightSemi sql)) backendOK sql).any (fun r => r.2 == .rejected)
         then "reject" else "pass")
      else if path == "stmtmulti" then fmtMulti aw sql
      else "bad"
    | _, _ => "bad"
  | _ => "bad"

/-- The statements a multi-statement text is made of, when it lies in the item
    language of C17 (otherwise `none`: the oracle then makes no demand). -/
def piecesOf (sql : Bytes) : Option (List Bytes) :=
  let sql' := trimRightSemi sql
  match specLex (sql'.length + 1) sql' with
  | some items =>
    if Safe items && !(items.any fun it => match it with | .xcomment _ => true | _ => false) then
      let ps := specPieces items
      some (if ps.length = 1 then [sql'] else ps)
    else none
  | none => none

/-- Is the first statement that does not simply succeed a write? -/
def firstStopIsWrite : List Bytes → Bool
  | [] => false
  | p :: ps => if isWrite p then true else if backendOK p then firstStopIsWrite ps else false

def oracle (req0 out : Sexp) : String :=
  let (req, facts) := dropAst req0
  -- the grammar of /repo builds a writing statement from the text
  let astW := facts.ast == some "w"
  match req with
  | .list [.atom "preview", _] => "ok"
  | .list [.atom "withmain", _] => "ok"
  | .list [.atom "check", .atom u, h] =>
    match allowWriteOf u, h.asBytes? with
    | some aw, some sql =>
      -- (checkSQLAllowed alone: a tree the parser builds is checked later, in getPlan — see the sess paths)
      if !aw && isWrite sql && out != .atom "reject" then "viol write-statement-allowed-for-read-only-user" else "ok"
    | _, _ => "bad"
  | .list [.atom "sess", .atom "stmtp", .atom u, h, .list as] =>
    match allowWriteOf u, h.asBytes? with
    | some aw, some sql =>
      if aw then "ok"
      else
        let bound := match boundOf sql as with
          | some (some (items, args)) =>
            (match StmtBind.getRewriteSQL false items args with | .ok t => isWrite (trimRightSemi t) | _ => false)
          | _ => false
        if bound && out == .atom "pass" then "viol write-statement-allowed-for-read-only-user"
        else "ok"
    | _, _ => "bad"
  | .list [.atom "sess", .atom path, .atom u, h] =>
    match allowWriteOf u, h.asBytes? with
    | some aw, some sql =>
      if aw && path != "requery" then "ok"
      else
        if path == "query" || path == "squery" || path == "requery" || path == "stmt" then
          if isWrite (if path == "stmt" then trimRightSemi sql else sql) || astW then
            (if out == .atom "reject" then "ok"
             else if out == .atom "reject-after-backend" then "viol rejected-after-backend-access"
             else "viol write-statement-allowed-for-read-only-user")
          else "ok"
        else
          let rejected := match out with | .list [.atom "reject", _] => true | _ => false
          match piecesOf sql with
          | some ps => if firstStopIsWrite ps && !rejected then "viol write-statement-allowed-for-read-only-user" else "ok"
          | none => "ok"
    | _, _ => "bad"
  | _ => "bad"

def handle (args : List Sexp) : String :=
  match args with
  | [.atom "m", req] =>
    let out := model req
    match Sexp.parseLine out with
    | some [o] => out ++ " | " ++ oracle req o
    | _ => out
  | [.atom "s", req, out] => oracle req out
  | _ => "bad-request"

end GaeaVerif.Drv.C21
