import GaeaVerif.Sexp
import GaeaVerif.Model.PreviewC21Spec
import GaeaVerif.Model.LexC17Spec
/-
  Driver for C21.  Requests (U = ro | rosplit | rw | rwsplit):
    m (preview HEX)        → (k c STRIPPED)  Preview, PreviewSpecialComment, StripLeadingComments
    m (check U HEX)        → reject | pass   checkSQLAllowed
    m (sess PATH U HEX)    PATH = query | stmt: → reject | pass       doQuery / handleStmtExecute→handleQuery→doQuery
                           PATH = multi | stmtmulti: → (reject n) | (ok n) | (err n)   …→doMultiStmts, on a session
                             with a fake backend that fails statements holding FAILME; n = statements the backend
                             executed (the generator uses statements that the proxy forwards to the backend)
    s <request> <implementation output>   property oracle
-/
namespace GaeaVerif.Drv.C21
open GaeaVerif GaeaVerif.LexC17 GaeaVerif.PreviewC21

def marker : Bytes := "FAILME".toUTF8.toList

def containsSub (needle : Bytes) : Bytes → Bool
  | [] => needle.isEmpty
  | l@(_ :: t) => (l.take needle.length == needle) || containsSub needle t

def backendOK (sql : Bytes) : Bool := !containsSub marker sql

def allowWriteOf (u : String) : Option Bool :=
  if u == "ro" || u == "rosplit" then some false
  else if u == "rw" || u == "rwsplit" then some true
  else none

def fmtSess (rs : List (Bytes × QueryOut)) : String :=
  let n := (rs.filter fun r => match r.2 with | .passed _ => true | .rejected => false).length
  if rs.any (fun r => r.2 == .rejected) then s!"(reject {n})"
  else if rs.any (fun r => r.2 == .passed false) then s!"(err {n})"
  else s!"(ok {n})"

def model (req : Sexp) : String :=
  match req with
  | .list [.atom "preview", h] =>
    match h.asBytes? with
    | some sql => s!"({preview tables sql} {previewSpecialComment tables sql} {bytesToHex (stripLeadingComments sql)})"
    | none => "bad"
  | .list [.atom "check", .atom u, h] =>
    match allowWriteOf u, h.asBytes? with
    | some aw, some sql => if checkSQLAllowed tables aw sql then "reject" else "pass"
    | _, _ => "bad"
  | .list [.atom "sess", .atom path, .atom u, h] =>
    match allowWriteOf u, h.asBytes? with
    | some aw, some sql =>
      if path == "query" then (if doQuery tables aw backendOK sql == .rejected then "reject" else "pass")
      else if path == "multi" then fmtSess (handleQuery tables aw true backendOK sql)
      else if path == "stmt" then
        (if (handleStmtExecute tables aw false backendOK sql).any (fun r => r.2 == .rejected) then "reject" else "pass")
      else if path == "stmtmulti" then fmtSess (handleStmtExecute tables aw true backendOK sql)
      else "bad"
    | _, _ => "bad"
  | _ => "bad"

/-- The statements a multi-statement text is made of, when it lies in the item
    language of C17 (otherwise `none`: the oracle then makes no demand). -/
def piecesOf (sql : Bytes) : Option (List Bytes) :=
  let sql' := trimRightSemi sql
  match specLex (sql'.length + 1) sql' with
  | some items =>
    if Safe items && !(items.any fun it => match it with | .xcomment _ => true | _ => false) then
      let ps := specPieces items
      some (if ps.length = 1 then [sql'] else ps)
    else none
  | none => none

/-- Is the first statement that does not simply succeed a write? -/
def firstStopIsWrite : List Bytes → Bool
  | [] => false
  | p :: ps => if isWrite p then true else if backendOK p then firstStopIsWrite ps else false

def oracle (req out : Sexp) : String :=
  match req with
  | .list [.atom "preview", _] => "ok"
  | .list [.atom "check", .atom u, h] =>
    match allowWriteOf u, h.asBytes? with
    | some aw, some sql =>
      if !aw && isWrite sql && out != .atom "reject" then "viol write-statement-allowed-for-read-only-user" else "ok"
    | _, _ => "bad"
  | .list [.atom "sess", .atom path, .atom u, h] =>
    match allowWriteOf u, h.asBytes? with
    | some aw, some sql =>
      if aw then "ok"
      else
        if path == "query" || path == "stmt" then
          if isWrite (if path == "stmt" then trimRightSemi sql else sql) then
            (if out == .atom "reject" then "ok"
             else if out == .atom "reject-after-backend" then "viol rejected-after-backend-access"
             else "viol write-statement-allowed-for-read-only-user")
          else "ok"
        else
          let rejected := match out with | .list [.atom "reject", _] => true | _ => false
          match piecesOf sql with
          | some ps => if firstStopIsWrite ps && !rejected then "viol write-statement-allowed-for-read-only-user" else "ok"
          | none => "ok"
    | _, _ => "bad"
  | _ => "bad"

def handle (args : List Sexp) : String :=
  match args with
  | [.atom "m", req] =>
    let out := model req
    match Sexp.parseLine out with
    | some [o] => out ++ " | " ++ oracle req o
    | _ => out
  | [.atom "s", req, out] => oracle req out
  | _ => "bad-request"

end GaeaVerif.Drv.C21
