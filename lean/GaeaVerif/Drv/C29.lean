import GaeaVerif.Sexp
import GaeaVerif.Model.UserMgr
/-
  Driver for C29.  One request = one whole history:
    (hist (INIT…) (OP…) (QUERY…))
      INIT  = (NAME (USER PW)…)            a namespace configuration of CreateUserManager
      OP    = (reload NAME (USER PW)…) | (delete NAME)
      QUERY = (USER PW)
    all strings as hex atoms.
  Model output:
    (ok (ans ANS0 … ANSk) (users (USER PW…)…) (keys (USER PW NS)…))
      ANSi = answers to the queries after i operations, each `(CU R)`:
             CU = t/f (CheckUser), R = `d` (access denied) or the namespace bound
      users/keys = the two maps of the final UserManager, sorted
    (err nondeterministic-create) if INIT configures one credential in two
      namespaces (the result then depends on Go's map iteration order)
  `s <request> <implementation output>`: the property oracle.
-/
namespace GaeaVerif.Drv.C29
open GaeaVerif GaeaVerif.UserMgr

abbrev Str := Bytes

def parsePairs (xs : List Sexp) : Option (List (Str × Str)) :=
  xs.mapM fun x =>
    match x with
    | .list [a, b] => do let a ← a.asBytes?; let b ← b.asBytes?; pure (a, b)
    | _ => none

def parseCfg (x : Sexp) : Option (NsCfg Str) :=
  match x with
  | .list (n :: us) => do let n ← n.asBytes?; let us ← parsePairs us; pure { name := n, users := us }
  | _ => none

def parseOp (x : Sexp) : Option (Op Str) :=
  match x with
  | .list (.atom "reload" :: n :: us) => do let n ← n.asBytes?; let us ← parsePairs us; pure (.reload { name := n, users := us })
  | .list [.atom "delete", n] => do let n ← n.asBytes?; pure (.delete n)
  | _ => none

structure Case where
  init : List (NsCfg Str)
  ops : List (Op Str)
  queries : List (Str × Str)

def parseCase (req : Sexp) : Option Case :=
  match req with
  | .list [.atom "hist", .list i, .list o, .list q] => do
    let i ← i.mapM parseCfg
    let o ← o.mapM parseOp
    let q ← parsePairs q
    pure { init := i, ops := o, queries := q }
  | _ => none

def sortStrings (l : List String) : List String := l.mergeSort (fun a b => !(b < a))

def answer (u : UserManager Str) (q : Str × Str) : String :=
  let cu := if checkUser u q.1 then "t" else "f"
  match authenticate u q.1 q.2 with
  | some ns => s!"({cu} {bytesToHex ns})"
  | none => s!"({cu} d)"

def answers (u : UserManager Str) (qs : List (Str × Str)) : String :=
  "(" ++ " ".intercalate (qs.map (answer u)) ++ ")"

def dump (u : UserManager Str) : String :=
  let us := sortStrings (u.users.map fun (k, v) =>
    "(" ++ " ".intercalate (bytesToHex k :: sortStrings (v.map bytesToHex)) ++ ")")
  let ks := sortStrings (u.userNamespaces.map fun (k, n) =>
    s!"({bytesToHex k.1} {bytesToHex k.2} {bytesToHex n})")
  "(users" ++ String.join (us.map (" " ++ ·)) ++ ") (keys" ++ String.join (ks.map (" " ++ ·)) ++ ")"

/-- All states of the history: after 0, 1, … operations. -/
def states (u : UserManager Str) : List (Op Str) → List (UserManager Str)
  | [] => [u]
  | op :: r => u :: states (step u op) r

def specStates (T : List (Triple Str)) : List (Op Str) → List (List (Triple Str))
  | [] => [T]
  | op :: r => T :: specStates (specStep T op) r

def model (req : Sexp) : String :=
  match parseCase req with
  | none => "bad"
  | some c =>
    if !uniqueT (specInit c.init) then "(err nondeterministic-create)" else
    let sts := states (createUserManager c.init) c.ops
    let last := sts.getLastD (createUserManager c.init)
    "(ok (ans" ++ String.join (sts.map fun u => " " ++ answers u c.queries) ++ ") " ++ dump last ++ ")"

/-- Judge the answers observed after `i` operations. -/
def judgeState (T : List (Triple Str)) (prev : Option (List (Triple Str) × Op Str))
    (qs : List (Str × Str)) (obs : List Sexp) : Option String :=
  (qs.zip obs).findSome? fun (q, o) =>
    let exp := specAuth T q.1 q.2
    let expCU := T.any fun t => t.2.1 == q.1
    match o with
    | .list [cu, r] =>
      let obsR : Option (Option Str) :=
        match r with
        | .atom "d" => some none
        | r => r.asBytes?.map some
      match cu.asBool?, obsR with
      | some cu, some obsR =>
        if cu != expCU then some "checkuser-wrong"
        else match exp, obsR with
          | none, none => none
          | some n, some n' => if n == n' then none else some "credential-bound-to-wrong-namespace"
          | none, some _ => some "unconfigured-credential-accepted"
          | some n, none =>
            -- was it accepted before an operation on another namespace?
            match prev with
            | some (Tp, op) =>
              if specAuth Tp q.1 q.2 == some n && op.target != n then some "credential-lost-by-other-namespace-change"
              else some "configured-credential-rejected"
            | none => some "configured-credential-rejected"
      | _, _ => some "unparsable"
    | _ => some "unparsable"

def judgeAll (sp : List (List (Triple Str))) (ops : List (Op Str)) (qs : List (Str × Str)) (obs : List Sexp) : String :=
  let prevs : List (Option (List (Triple Str) × Op Str)) := none :: (sp.zip ops).map some
  let r := ((sp.zip prevs).zip obs).findSome? fun ((T, prev), o) =>
    match o with
    | .list os => if os.length != qs.length then some "unparsable" else judgeState T prev qs os
    | _ => some "unparsable"
  match r with
  | some c => "viol " ++ c
  | none => "ok"

/-- The property on an observed output: under the uniqueness rule, after every
    operation every queried credential is bound to the namespace of its triple,
    or refused when there is none. -/
def oracle (req out : Sexp) : String :=
  match parseCase req with
  | none => "bad"
  | some c =>
    if !uniqueAlong (specInit c.init) c.ops then "ok"   -- outside the property's quantifier
    else
      match out with
      | .atom "panic" => "viol operation-panics"
      -- the harness saw a prepared (uncommitted) clone change the live user manager
      | .list [.atom "clone-shares-state-with-its-source"] => "viol uncommitted-prepare-changes-live-credentials"
      | .list (.atom "ok" :: .list (.atom "ans" :: obs) :: _) =>
        let sp := specStates (specInit c.init) c.ops
        if obs.length != sp.length then "viol unparsable" else judgeAll sp c.ops c.queries obs
      | _ => "viol unparsable"

def handle (args : List Sexp) : String :=
  match args with
  | [.atom "m", req] =>
    let out := model req
    match Sexp.parseLine out with
    | some [o] => out ++ " | " ++ oracle req o
    | _ => out
  | [.atom "s", req, out] => oracle req out
  | _ => "bad-request"

end GaeaVerif.Drv.C29
