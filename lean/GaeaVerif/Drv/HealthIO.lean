import GaeaVerif.Sexp
import GaeaVerif.Model.Health
import GaeaVerif.Model.HealthSpec
/-
  Line protocol shared by the drivers of C27 and C28 (see
  harness/props/health_common.go for the grammar):

    (h (cfg FUSE COOL DOWN SBM HSQL MASTER) T0 EVENT…)
    output: (ok (R M RLC MLC LF ERC CSCC LR)…)
-/
namespace GaeaVerif.Drv.HealthIO
open GaeaVerif GaeaVerif.Health

def parseHs : Char → Option HsOut
  | 'o' => some .ok | 's' => some .soft | 'd' => some .shutdown
  | 'm' => some .tsMissing | 'x' => some .tsDiscarded | 't' => some .timeout
  | _ => none

def parseOF : Char → Option Bool
  | 'o' => some true | 'f' => some false | _ => none

def parseAttempt : Sexp → Option Attempt
  | .atom s =>
    match s.toList with
    | [a, b, c] => do pure ⟨← parseHs a, ← parseOF b, ← parseOF c⟩
    | _ => none
  | _ => none

def parseProbe : Sexp → Option Probe
  | .list (.atom gc :: as) => do
    let g ← match gc with
      | "conn" => some GetCheck.conn | "err" => some .err
      | "errconn" => some .errConn | "nil" => some .nilConn | _ => none
    pure ⟨g, ← as.mapM parseAttempt⟩
  | _ => none

def isDecimal (s : String) : Bool := !s.isEmpty && s.toList.all Char.isDigit

def parseVal : Sexp → Option RawVal
  | .atom "null" => some .null
  | .atom "absent" => some .absent
  | .list [.atom "u", .atom n] => if isDecimal n && n.toNat!  < 18446744073709551616 then some (.u64 n.toNat!) else none
  | .list [.atom "i", n] => do
    let i ← n.asInt?
    if -9223372036854775808 ≤ i ∧ i < 9223372036854775808 then some (.i64 i) else none
  | .list [.atom "s", .atom s] => some (.str s)
  | _ => none

def parseSlaveQ : Sexp → Option SlaveQ
  | .atom "nopriv" => some .noPriv
  | .atom "err" => some .err
  | .atom "nilres" => some .nilRes
  | .atom "empty" => some .empty
  | .list [.atom "row", a, b, c] => do pure (.row (← parseVal a) (← parseVal b) (← parseVal c))
  | _ => none

def int64? (e : Sexp) : Option Int := do
  let i ← e.asInt?
  if -9223372036854775808 ≤ i ∧ i < 9223372036854775808 then some i else none

def parseEv : Sexp → Option Ev
  | .list [.atom "m", now, p] => do pure (.master (← int64? now) (← parseProbe p))
  | .list [.atom "r", now, p, q] => do pure (.replica (← int64? now) (← parseProbe p) (← parseSlaveQ q))
  | .list [.atom "f", now, .atom k, tr] => do
    let ce ← match k with
      | "conn" => some true
      | "ptr" | "wrapped" | "other" | "nil" => some false
      | _ => none
    pure (.fuse (← int64? now) ce (← tr.asBool?))
  | .list [.atom "t", now] => do pure (.tick (← int64? now))
  | _ => none

structure Case where
  cfg : Cfg
  t0 : Int
  evs : List Ev

def parseCase : Sexp → Option Case
  | .list (.atom "h" :: .list [.atom "cfg", fu, cool, down, sbm, hs, ma] :: t0 :: evs) => do
    let c : Cfg := { fuseEnabled := ← fu.asBool?, cooling := ← int64? cool, downAfter := ← int64? down,
                     sbm := ← int64? sbm, healthSql := ← hs.asBool?, hasMaster := ← ma.asBool? }
    pure ⟨c, ← int64? t0, ← evs.mapM parseEv⟩
  | _ => none

def ud (b : Bool) : String := if b then "u" else "d"

def fmtSt (c : Cfg) (s : St) : String :=
  let ms := if c.hasMaster then ud s.master.up else "-"
  let mlc := if c.hasMaster then toString s.master.lastChecked else "-"
  let strat := match c.policy with
    | .none => "- - - -"
    | .hard => s!"{s.lastFuse} - - -"
    | .gradual => s!"{s.lastFuse} {s.erc} {s.cscc} {s.lastRec}"
  s!"({ud s.rep.up} {ms} {s.rep.lastChecked} {mlc} {strat})"

def model (req : Sexp) : String :=
  match parseCase req with
  | none => "bad"
  | some k =>
    let sts := trace k.cfg (St.init k.t0) k.evs
    "(ok" ++ String.join (sts.map fun s => " " ++ fmtSt k.cfg s) ++ ")"

/-- The statuses of an implementation output `(ok (R M …)…)`. -/
def parseObs : Sexp → Option (List Obs)
  | .list (.atom "ok" :: snaps) => snaps.mapM fun s =>
    match s with
    | .list (.atom r :: .atom m :: _) =>
      match (if r == "u" then some true else if r == "d" then some false else none),
            (if m == "u" || m == "-" then some true else if m == "d" then some false else none) with
      | some rb, some mb => some ⟨rb, mb⟩
      | _, _ => none
    | _ => none
  | _ => none

end GaeaVerif.Drv.HealthIO
