import GaeaVerif.Sexp
import GaeaVerif.Model.IPAllow
import GaeaVerif.Model.IPAllowReload
/-
  Driver for C35.  Requests (ENTRY = hex of the entry text, `-` = empty):
    m (allow (ENTRY…) IPHEX)     parseAllowIps + IsClientIPAllowed on a net.IP (4/16 bytes, `-` = nil)
    m (conn (ENTRY…) REMOTEHEX)  parseAllowIps + Session.IsAllowConnect on the text of RemoteAddr()
    m (verify (ENTRY…))          models.Namespace.verifyAllowIps
    m (reload (ENTRY…) OP…)      one proxy started with the list, then OP = (prepare (ENTRY…)) | (commit) | (delete)
                                 | (conn REMOTEHEX): ReloadNamespacePrepare / Commit / DeleteNamespace of the
                                 real Manager and Session.IsAllowConnect on it; one answer per OP
    m (sock KIND (ENTRY…))       KIND = tcp4 | tcp6 | dual4 | unix: a real listener, a real client, the accepted
                                 connection's own RemoteAddr(); answer (DECISION TEXTHEX), TEXT = the remote
                                 address text with the port replaced by 1
    m (hs KIND (ENTRY…))         Server.onConn on a real listener of the kind, a real client logging in with the
                                 right password: (ok TEXTHEX) = OK packet, (denied TEXTHEX) = error 1045 ip not allowed,
                                 (crash TEXTHEX) = the connection handler panicked with no recover above it
    m (utilparse TEXTHEX)        util.parseAllowIps (comma-separated; no callers): (kept N)
    s <request> <implementation output>   property oracle
  Outputs: t | f | ok | (err parse) | (err notprepared) | panic
-/
namespace GaeaVerif.Drv.C35
open GaeaVerif GaeaVerif.IPAllow GaeaVerif.IPAllowReload

def entries? (e : Sexp) : Option (List Bytes) :=
  match e with
  | .list xs => xs.mapM Sexp.asBytes?
  | _ => none

def fmtRB : R Bool → String
  | .ok true => "t"
  | .ok false => "f"
  | .fail => "(err parse)"
  | .panic => "panic"

def fmtOut : MgrReload.Out → String
  | .ok => "ok"
  | .errNotPrepared => "(err notprepared)"
  | .errBuild => "(err parse)"
  | .panic => "panic"

def fmtAns : Ans → String
  | .out o => fmtOut o
  | .dec d => fmtRB d

/-- An operation of a `reload` request as sent by the harness. -/
inductive ROp where
  | prepare (l : List Bytes)
  | commit
  | delete
  | conn (r : Bytes)

def parseOp : Sexp → Option ROp
  | .list [.atom "prepare", es] => (entries? es).map .prepare
  | .list [.atom "commit"] => some .commit
  | .list [.atom "delete"] => some .delete
  | .list [.atom "conn", r] => r.asBytes?.map .conn
  | _ => none

def parseOps (ops : List Sexp) : Option (List ROp) := ops.mapM parseOp

/-- The lists of the prepare operations, in order: the i-th one is version i. -/
def prepLists : List ROp → List (List Bytes)
  | [] => []
  | .prepare l :: rest => l :: prepLists rest
  | _ :: rest => prepLists rest

def cfgOf (ls : List (List Bytes)) : Cfg := fun v => ls.getD v []

/-- Versions are handed out in order of the prepare operations, from `next`. -/
def toOps (next : Nat) : List ROp → List IPAllowReload.Op
  | [] => []
  | .prepare _ :: rest => .prepare next :: toOps (next + 1) rest
  | .commit :: rest => .commit :: toOps next rest
  | .delete :: rest => .delete :: toOps next rest
  | .conn r :: rest => .conn r :: toOps next rest

/-- The remote address text a real connection of the kind reports (port 1). -/
def sockText : String → Option Bytes
  | "tcp4" => some "127.0.0.1:1".toUTF8.toList
  | "dual4" => some "127.0.0.1:1".toUTF8.toList
  | "tcp6" => some "[::1]:1".toUTF8.toList
  | "unix" => some "@".toUTF8.toList
  | _ => none

def model (req : Sexp) : String :=
  match req with
  | .list [.atom "allow", es, c] =>
    match entries? es, c.asBytes? with
    | some es, some c =>
      fmtRB (parseAllowIps netipParseAddr es >>= fun infos => isClientIPAllowed infos c)
    | _, _ => "bad"
  | .list [.atom "conn", es, r] =>
    match entries? es, r.asBytes? with
    | some es, some r =>
      fmtRB (parseAllowIps netipParseAddr es >>= fun infos => isAllowConnect netipParseAddr infos r)
    | _, _ => "bad"
  | .list [.atom "verify", es] =>
    match entries? es with
    | some es =>
      match parseAllowIps netipParseAddr es with
      | .ok _ => "ok"
      | .fail => "(err parse)"
      | .panic => "panic"
    | none => "bad"
  | .list (.atom "reload" :: l0 :: ops) =>
    match entries? l0, parseOps ops with
    | some l0, some ops =>
      let cfg := cfgOf (l0 :: prepLists ops)
      "(" ++ " ".intercalate ((run netipParseAddr cfg (start netipParseAddr cfg) (toOps 1 ops)).map fmtAns) ++ ")"
    | _, _ => "bad"
  | .list [.atom "sock", .atom kind, es] =>
    match entries? es, sockText kind with
    | some es, some r =>
      "(" ++ fmtRB (parseAllowIps netipParseAddr es >>= fun infos => isAllowConnect netipParseAddr infos r)
        ++ " " ++ bytesToHex r ++ ")"
    | _, _ => "bad"
  | .list [.atom "hs", .atom kind, es] =>
    match entries? es, sockText kind with
    | some es, some r =>
      let k := if kind == "unix" then ConnKind.unix else ConnKind.tcp
      match parseAllowIps netipParseAddr es >>= fun infos => onConn netipParseAddr infos k r with
      | .ok .ok => "(ok " ++ bytesToHex r ++ ")"
      | .ok .denied => "(denied " ++ bytesToHex r ++ ")"
      | .ok .crash => "(crash " ++ bytesToHex r ++ ")"
      | .fail => "(err parse)"
      | .panic => "panic"
    | _, _ => "bad"
  | .list [.atom "utilparse", t] =>
    match t.asBytes? with
    | some t => s!"(kept {(utilParseAllowIps netipParseAddr t).length})"
    | none => "bad"
  | _ => "bad"

/-! ### the property oracle: `uniformMatch` of the model file's Spec section -/

def judge (es : List Bytes) (client : Bytes) (out : Sexp) : String :=
  let nonblank := (es.map trimSpace).filter (fun t => t.length ≠ 0)
  let ds := nonblank.map (denote netipParseAddr)
  let valid := ds.filterMap id
  let anyInvalid := ds.any Option.isNone
  let expected := nonblank.isEmpty || valid.any (fun e => uniformMatch e client)
  match out with
  | .atom "panic" => "viol allow-check-panic"
  | .list [.atom "err", .atom "parse"] => if anyInvalid then "ok" else "viol valid-list-rejected"
  | .atom "t" => if expected then "ok" else "viol unlisted-client-allowed"
  | .atom "f" =>
    if !expected then "ok" else "viol listed-client-rejected"
  | _ => "viol unparsable"

/-- Client address of a connection: host of the remote address text, zone dropped. -/
def remoteClient (r : Bytes) : Bytes :=
  let host := (splitHost r).getD []
  let host := host.takeWhile (· ≠ 0x25)
  match netipParseAddr host with
  | some a => as16 a.bytes
  | none => []

/-- The property over a history of one proxy, from the *observed* answers, as
    `Spec.step` of Model/MgrReload.lean (C31) reads them: a successful prepare
    records its list, a successful commit puts the list last prepared in force,
    a successful delete leaves none in force (and forgets no prepared list: a
    delete of an absent namespace is a no-op, a later commit may still
    succeed), failed operations change nothing; every connecting client is
    judged against the list in force.  A client of an absent namespace must be
    refused; a list of valid entries must be preparable; nothing may panic. -/
def judgeHistory (active prepared : Option (List Bytes)) : List (ROp × Sexp) → String
  | [] => "ok"
  | (op, out) :: rest =>
    if out == .atom "panic" then "viol allow-check-panic" else
    match op with
    | .prepare l =>
      let anyInvalid := ((l.map trimSpace).filter (fun t => t.length ≠ 0)).any
        (fun t => (denote netipParseAddr t).isNone)
      match out with
      | .atom "ok" => judgeHistory active (some l) rest
      | .list [.atom "err", .atom "parse"] =>
        if anyInvalid then judgeHistory active prepared rest else "viol valid-list-rejected"
      | _ => "viol unparsable"
    | .commit =>
      match out with
      | .atom "ok" =>
        match prepared with
        | some l => judgeHistory (some l) prepared rest
        | none => judgeHistory active prepared rest
      | _ => judgeHistory active prepared rest
    | .delete =>
      match out with
      | .atom "ok" => judgeHistory none prepared rest
      | _ => judgeHistory active prepared rest
    | .conn r =>
      match active with
      | none =>
        if out == .atom "f" then judgeHistory active prepared rest
        else "viol connected-to-absent-namespace"
      | some l =>
        match judge l (remoteClient r) out with
        | "ok" => judgeHistory active prepared rest
        | v => v

def oracle (req out : Sexp) : String :=
  match req with
  | .list [.atom "allow", es, c] =>
    match entries? es, c.asBytes? with
    | some es, some c => judge es c out
    | _, _ => "bad"
  | .list [.atom "conn", es, r] =>
    match entries? es, r.asBytes? with
    | some es, some r => judge es (remoteClient r) out
    | _, _ => "bad"
  | .list [.atom "verify", es] =>
    -- validation of a stored list: the property only asks that a list of valid entries is usable
    match entries? es with
    | some es =>
      let anyInvalid := ((es.map trimSpace).filter (fun t => t.length ≠ 0)).any (fun t => (denote netipParseAddr t).isNone)
      match out with
      | .atom "ok" => "ok"
      | .list [.atom "err", .atom "parse"] => if anyInvalid then "ok" else "viol valid-list-rejected"
      | .atom "panic" => "viol allow-check-panic"
      | _ => "viol unparsable"
    | none => "bad"
  | .list (.atom "reload" :: l0 :: ops) =>
    match entries? l0, parseOps ops with
    | some l0, some ops =>
      match out with
      | .atom "panic" => "viol allow-check-panic"
      | .list outs =>
        if outs.length ≠ ops.length then "viol unparsable"
        else
          let anyInvalid0 := ((l0.map trimSpace).filter (fun t => t.length ≠ 0)).any
            (fun t => (denote netipParseAddr t).isNone)
          -- a namespace whose start-up list holds a meaningless entry is not created
          judgeHistory (if anyInvalid0 then none else some l0) none (ops.zip outs)
      | _ => "viol unparsable"
    | _, _ => "bad"
  | .list [.atom "sock", .atom _, es] =>
    match entries? es, out with
    | some es, .list [d, t] =>
      match t.asBytes? with
      | some r => judge es (remoteClient r) d
      | none => "viol unparsable"
    | some _, .atom "panic" => "viol allow-check-panic"
    | some _, _ => "viol unparsable"
    | none, _ => "bad"
  | .list [.atom "hs", .atom _, es] =>
    match entries? es, out with
    | some es, .list [.atom "ok", t] =>
      match t.asBytes? with
      | some r => judge es (remoteClient r) (.atom "t")
      | none => "viol unparsable"
    | some es, .list [.atom "denied", t] =>
      match t.asBytes? with
      | some r => judge es (remoteClient r) (.atom "f")
      | none => "viol unparsable"
    | some _, .list [.atom "crash", _] => "viol connection-handler-panics-unrecovered"
    | some _, .atom "panic" => "viol allow-check-panic"
    | some es, .list [.atom "err", .atom "parse"] => judge es [] (.list [.atom "err", .atom "parse"])
    | some _, _ => "viol unparsable"
    | none, _ => "bad"
  | .list [.atom "utilparse", _] => "ok"   -- called by nothing (Gen.c35UtilParseAllowIpsCallers); no claim
  | _ => "bad"

def handle (args : List Sexp) : String :=
  match args with
  | [.atom "m", req] =>
    let out := model req
    match Sexp.parseLine out with
    | some [o] => out ++ " | " ++ oracle req o
    | _ => out
  | [.atom "s", req, out] => oracle req out
  | _ => "bad-request"

end GaeaVerif.Drv.C35
