import GaeaVerif.Sexp
import GaeaVerif.Model.IPAllow
/-
  Driver for C35.  Requests (ENTRY = hex of the entry text, `-` = empty):
    m (allow (ENTRY…) IPHEX)     parseAllowIps + IsClientIPAllowed on a net.IP (4/16 bytes, `-` = nil)
    m (conn (ENTRY…) REMOTEHEX)  parseAllowIps + Session.IsAllowConnect on the text of RemoteAddr()
    m (verify (ENTRY…))          models.Namespace.verifyAllowIps
    s <request> <implementation output>   property oracle
  Outputs: t | f | ok | (err parse) | panic
-/
namespace GaeaVerif.Drv.C35
open GaeaVerif GaeaVerif.IPAllow

def entries? (e : Sexp) : Option (List Bytes) :=
  match e with
  | .list xs => xs.mapM Sexp.asBytes?
  | _ => none

def fmtRB : R Bool → String
  | .ok true => "t"
  | .ok false => "f"
  | .fail => "(err parse)"
  | .panic => "panic"

def model (req : Sexp) : String :=
  match req with
  | .list [.atom "allow", es, c] =>
    match entries? es, c.asBytes? with
    | some es, some c =>
      fmtRB (parseAllowIps netipParseAddr es >>= fun infos => isClientIPAllowed infos c)
    | _, _ => "bad"
  | .list [.atom "conn", es, r] =>
    match entries? es, r.asBytes? with
    | some es, some r =>
      fmtRB (parseAllowIps netipParseAddr es >>= fun infos => isAllowConnect netipParseAddr infos r)
    | _, _ => "bad"
  | .list [.atom "verify", es] =>
    match entries? es with
    | some es =>
      match parseAllowIps netipParseAddr es with
      | .ok _ => "ok"
      | .fail => "(err parse)"
      | .panic => "panic"
    | none => "bad"
  | _ => "bad"

/-! ### the property oracle: `uniformMatch` / `familyMatch` of the model file's Spec section -/

def judge (es : List Bytes) (client : Bytes) (out : Sexp) : String :=
  let nonblank := (es.map trimSpace).filter (fun t => t.length ≠ 0)
  let ds := nonblank.map (denote netipParseAddr)
  let valid := ds.filterMap id
  let anyInvalid := ds.any Option.isNone
  let expected := nonblank.isEmpty || valid.any (fun e => uniformMatch e client)
  let family := nonblank.isEmpty || valid.any (fun e => familyMatch e client)
  match out with
  | .atom "panic" => "viol allow-check-panic"
  | .list [.atom "err", .atom "parse"] => if anyInvalid then "ok" else "viol valid-list-rejected"
  | .atom "t" => if expected then "ok" else "viol unlisted-client-allowed"
  | .atom "f" =>
    if !expected then "ok"
    else if !family then "viol ipv4-client-in-short-ipv6-block-rejected"
    else "viol listed-client-rejected"
  | _ => "viol unparsable"

/-- Client address of a connection: host of the remote address text, zone dropped. -/
def remoteClient (r : Bytes) : Bytes :=
  let host := (splitHost r).getD []
  let host := host.takeWhile (· ≠ 0x25)
  match netipParseAddr host with
  | some a => as16 a.bytes
  | none => []

def oracle (req out : Sexp) : String :=
  match req with
  | .list [.atom "allow", es, c] =>
    match entries? es, c.asBytes? with
    | some es, some c => judge es c out
    | _, _ => "bad"
  | .list [.atom "conn", es, r] =>
    match entries? es, r.asBytes? with
    | some es, some r => judge es (remoteClient r) out
    | _, _ => "bad"
  | .list [.atom "verify", es] =>
    -- validation of a stored list: the property only asks that a list of valid entries is usable
    match entries? es with
    | some es =>
      let anyInvalid := ((es.map trimSpace).filter (fun t => t.length ≠ 0)).any (fun t => (denote netipParseAddr t).isNone)
      match out with
      | .atom "ok" => "ok"
      | .list [.atom "err", .atom "parse"] => if anyInvalid then "ok" else "viol valid-list-rejected"
      | .atom "panic" => "viol allow-check-panic"
      | _ => "viol unparsable"
    | none => "bad"
  | _ => "bad"

def handle (args : List Sexp) : String :=
  match args with
  | [.atom "m", req] =>
    let out := model req
    match Sexp.parseLine out with
    | some [o] => out ++ " | " ++ oracle req o
    | _ => out
  | [.atom "s", req, out] => oracle req out
  | _ => "bad-request"

end GaeaVerif.Drv.C35
